(* Proofs about Model/CtorJson.v (shoot new -json):
     json_lists        JSONList / JSONGetterList / JSONSetterList / ExportedList / JSON = filters of the unshadowed
                       leaf entries of the flattened list, in order
     json_tag_map      JSONTagMap at a listed field = its explicit tag, else the -tagcase transform of its name
     key_table         the same in the declarative vocabulary: listed fields are the fields Go selects by their bare
                       name; explicit tags exist on the struct's own fields only
     round_trip        Unmarshal(Marshal v) agrees with v on exported fields and fields with both accessors, gives zero
                       to setter-only fields, leaves everything else alone -- for ALL values, with encoding/json as
                       Section variables *)
From Coq Require Import String Ascii List Bool Arith Lia.
From Shoot Require Import Base.Str Base.GoVal Model.Transfer Model.CtorDirective Model.Ctor Model.CtorSpec Model.CtorOpt
                          Model.CtorGetSet Model.CtorJson.
From Shoot Require Import Proofs.GoValProofs Proofs.CtorFlattenProofs Proofs.CtorResolveProofs Proofs.CtorNewProofs
                          Proofs.CtorC02Proofs Proofs.CtorOrderProofs Proofs.CtorOptProofs Proofs.CtorGetSetProofs
                          Proofs.CtorGetSetSemProofs.
Import ListNotations.
Local Open Scope list_scope.

(* ------------------------------------------------------------------ the lists *)
(* an entry makeJson looks at: an unshadowed leaf whose explicit tag is not "-" *)
Definition j_live (f : field) : bool := oentry f && negb (String.eqb (f_jsontag f) "-").

Section Lists.
  Variables (tc : tagcase) (G S : bool) (ms : list gs_method).

  Definition j_exp (f : field) : bool := is_exported (f_name f).
  Definition j_get (f : field) : bool := field_has_getter G ms f.
  Definition j_set (f : field) : bool := field_has_setter S ms f.
  Definition j_listed (f : field) : bool := j_live f && (j_exp f || j_get f || j_set f).
  Definition j_getter (f : field) : bool := j_live f && (negb (j_exp f) && j_get f).
  Definition j_setter (f : field) : bool := j_live f && (negb (j_exp f) && j_set f).
  Definition j_exported (f : field) : bool := j_live f && j_exp f.
  Definition j_need (f : field) : bool :=
    j_live f && (if j_exp f then negb (has_json_tag f) && negb (String.eqb (json_tag_of tc f) (f_name f))
                 else j_get f || j_set f).

  Lemma json_loop_lists : forall fs a,
    let r := make_json_loop tc G S ms fs a in
    jd_list r = jd_list a ++ map f_name (filter j_listed fs) /\
    jd_getters r = jd_getters a ++ map f_name (filter j_getter fs) /\
    jd_setters r = jd_setters a ++ map f_name (filter j_setter fs) /\
    jd_exported r = jd_exported a ++ map f_name (filter j_exported fs) /\
    jd_json r = jd_json a || existsb j_need fs.
  Proof.
    induction fs as [|f fs IH]; intros a; cbn [make_json_loop filter map existsb].
    - rewrite !app_nil_r, orb_false_r. auto.
    - unfold j_listed at 1, j_getter at 1, j_setter at 1, j_exported at 1, j_need at 1, j_live, oentry, j_exp, j_get, j_set.
      destruct (f_shadowed f); cbn [orb negb andb]; [apply IH|].
      destruct (f_embedded f); cbn [orb negb andb]; [apply IH|].
      destruct (String.eqb (f_jsontag f) "-"); cbn [negb andb]; [apply IH|].
      destruct (is_exported (f_name f)), (field_has_getter G ms f), (field_has_setter S ms f); cbn [orb andb negb];
        match goal with |- context [make_json_loop tc G S ms fs ?A] => destruct (IH A) as [I1 [I2 [I3 [I4 I5]]]] end;
        cbn zeta in *; rewrite I1, I2, I3, I4, I5; cbn [jd_list jd_getters jd_setters jd_exported jd_json map app];
        rewrite <- ?app_assoc, ?orb_assoc, ?orb_false_r, ?orb_true_r; cbn [app]; repeat split; try reflexivity.
  Qed.

  (* JSONTagMap: the tag of the LAST unshadowed leaf entry of the name *)
  Definition last_tag (n : ident) (fs : list field) (acc : option string) : option string :=
    fold_left (fun acc f => if j_live f && String.eqb (f_name f) n then Some (json_tag_of tc f) else acc) fs acc.

  Lemma json_loop_tags : forall fs a n,
    assoc n (jd_tags (make_json_loop tc G S ms fs a)) = last_tag n fs (assoc n (jd_tags a)).
  Proof.
    induction fs as [|f fs IH]; intros a n; cbn [make_json_loop]; [reflexivity|].
    change (last_tag n (f :: fs) (assoc n (jd_tags a)))
      with (last_tag n fs (if j_live f && String.eqb (f_name f) n then Some (json_tag_of tc f) else assoc n (jd_tags a))).
    unfold j_live at 1, oentry.
    destruct (f_shadowed f); cbn [orb negb andb]; [apply IH|].
    destruct (f_embedded f); cbn [orb negb andb]; [apply IH|].
    destruct (String.eqb (f_jsontag f) "-"); cbn [negb andb]; [apply IH|].
    rewrite IH. cbn [jd_tags]. rewrite assoc_map_put, String.eqb_sym. reflexivity.
  Qed.

  Lemma last_tag_stable : forall n fs s,
    (forall e, In e (filter j_live fs) -> f_name e = n -> json_tag_of tc e = s) ->
    last_tag n fs (Some s) = Some s.
  Proof.
    intros n fs s. unfold last_tag. induction fs as [|f fs IH]; intros H; simpl; auto.
    simpl in H. destruct (j_live f) eqn:Of; simpl.
    - destruct (String.eqb (f_name f) n) eqn:En.
      + apply String.eqb_eq in En. rewrite (H f (or_introl eq_refl) En). apply IH. intros e He. apply H. right. exact He.
      + apply IH. intros e He. apply H. right. exact He.
    - apply IH. exact H.
  Qed.

  Lemma last_tag_found : forall n fs s acc e,
    In e (filter j_live fs) -> f_name e = n ->
    (forall e', In e' (filter j_live fs) -> f_name e' = n -> json_tag_of tc e' = s) ->
    last_tag n fs acc = Some s.
  Proof.
    intros n fs s. induction fs as [|f fs IH]; intros acc e He Hn H; [destruct He|].
    unfold last_tag. simpl. simpl in He, H. destruct (j_live f) eqn:Of; simpl.
    - destruct (String.eqb (f_name f) n) eqn:En.
      + apply String.eqb_eq in En. rewrite (H f (or_introl eq_refl) En).
        apply last_tag_stable. intros e' He'. apply H. right. exact He'.
      + destruct He as [He|He]; [subst f; rewrite Hn, String.eqb_refl in En; discriminate|].
        apply (IH acc e He Hn). intros e' He'. apply H. right. exact He'.
    - apply (IH acc e He Hn). exact H.
  Qed.
End Lists.

(* the lists of makeJson, for the flag record *)
Theorem json_lists : forall fl sd d fields,
  fl_json fl = true ->
  let jd := make_json fl sd d fields in
  let tc := fl_tagcase fl in let G := fst (type_switch fl sd) in let S := snd (type_switch fl sd) in
  let ms := gs_methods d in
  jd_list jd = map f_name (filter (j_listed G S ms) fields) /\
  jd_getters jd = map f_name (filter (j_getter G ms) fields) /\
  jd_setters jd = map f_name (filter (j_setter S ms) fields) /\
  jd_exported jd = map f_name (filter j_exported fields) /\
  jd_json jd = existsb (j_need tc G S ms) fields.
Proof.
  intros fl sd d fields HJ. cbn zeta. unfold make_json. rewrite HJ.
  destruct (json_loop_lists (fl_tagcase fl) (fst (type_switch fl sd)) (snd (type_switch fl sd)) (gs_methods d) fields empty_json)
    as [I1 [I2 [I3 [I4 I5]]]].
  cbn zeta in *. rewrite I1, I2, I3, I4, I5. cbn [empty_json jd_list jd_getters jd_setters jd_exported jd_json app orb]. auto.
Qed.

Theorem no_json_flag_no_json : forall fl sd d fields, fl_json fl = false -> make_json fl sd d fields = empty_json.
Proof. intros. unfold make_json. rewrite H. reflexivity. Qed.

(* ------------------------------------------------------ json tags of the entries *)
Lemma raw_type_no_tag : forall pkg fuel depth pre t is_new l,
  raw_type pkg fuel depth pre t is_new = Some l -> forall e, In e l -> f_jsontag e = ""%string.
Proof.
  intros pkg fuel. induction fuel as [|fuel IH]; intros depth pre t is_new l H; rewrite raw_type_unfold in H.
  - destruct (struct_of pkg t); inversion H; subst. intros e [].
  - destruct (struct_of pkg t) as [si|]; [|inversion H; subst; intros e []].
    set (e0 := embedded_entry t depth pre) in *.
    assert (Gx : forall fs l', raw_fields pkg fuel (S depth) (f_path e0) is_new fs = Some l' ->
                 forall e, In e l' -> f_jsontag e = ""%string).
    { induction fs as [|[[n ft] emb] fs IHfs]; intros l' H'.
      - inversion H'; subst. intros e [].
      - rewrite raw_fields_cons in H'.
        destruct emb.
        + destruct (raw_type pkg fuel (S depth) (f_path e0) ft is_new) as [a|] eqn:Ea; [|discriminate].
          destruct (raw_fields pkg fuel (S depth) (f_path e0) is_new fs) as [b|] eqn:Eb; [|discriminate].
          inversion H'; subst. intros e He. apply in_app_or in He. destruct He as [He|He].
          * eapply IH; eauto.
          * eapply IHfs; eauto.
        + destruct (raw_fields pkg fuel (S depth) (f_path e0) is_new fs) as [b|] eqn:Eb; [|discriminate].
          inversion H'; subst. intros e [He|He]; [subst; reflexivity|eapply IHfs; eauto]. }
    destruct (raw_fields pkg fuel (S depth) (f_path e0) is_new (struct_fields si)) as [l'|] eqn:E; [|discriminate].
    inversion H; subst. intros e [He|He].
    + subst e. unfold e0, embedded_entry. destruct (qualified_name t). reflexivity.
    + eapply Gx; eauto.
Qed.

Definition flag_tag (fl : ctor_flags) (fd : fdecl) : string := if fl_json fl then decl_json_tag fd else ""%string.

Lemma raw_names_tag : forall fl fd is_new names l e,
  raw_names fl fd is_new names = COk l -> In e l -> f_jsontag e = flag_tag fl fd.
Proof.
  intros fl fd is_new names. induction names as [|n names IH]; intros l e H He; simpl in H.
  - inversion H; subst. destruct He.
  - destruct (String.prefix "_" n); [eauto|].
    destruct (tag_is_dash (fd_tag fd)); [eauto|].
    destruct (if fl_getset fl then parse_get_set (fd_doc fd) n else Some (false, false)) as [[get set]|]; [|discriminate].
    destruct (raw_names fl fd is_new names) as [r| |] eqn:Er; try discriminate.
    inversion H; subst l. destruct He as [He|He]; [|eapply IH; eauto].
    subst e. unfold top_entry, flag_tag, decl_json_tag. destruct (qualified_name (fd_ty fd)). cbn [f_jsontag].
    destruct (fd_tag fd); destruct (fl_json fl); reflexivity.
Qed.

Lemma find_occ_in : forall p l o, find_occ p l = Some o -> In o l.
Proof.
  intros p l. induction l as [|x r IH]; intros o H; simpl in H; [discriminate|].
  destruct (path_eqb (fst x) p); [inversion H; left; reflexivity|right; auto].
Qed.

(* without tags below the top level, the declaration of a promoted leaf carries none *)
Lemma spec_tag_deep : forall pkg fuel sd a b r,
  no_promoted_json_tags pkg fuel sd = true -> spec_tag pkg fuel sd (a :: b :: r) = ""%string.
Proof.
  intros pkg fuel sd a b r NP. unfold spec_tag, declaring_struct.
  destruct (find_occ (removelast (a :: b :: r)) (all_occ pkg fuel (self_inst sd))) as [o|] eqn:EF; [|reflexivity].
  destruct (occ_emb o) eqn:Eo; [|reflexivity].
  destruct (struct_of pkg (occ_ty o)) as [[sd' args]|] eqn:Es; [|reflexivity]. cbn [option_map fst].
  unfold no_promoted_json_tags in NP. rewrite forallb_forall in NP.
  specialize (NP o (find_occ_in _ _ _ EF)). rewrite Eo, Es in NP.
  unfold tag_in_decls. destruct (find (decl_has_name (last (a :: b :: r) ""%string)) (sd_fields sd')) as [fd|] eqn:Ef; [|reflexivity].
  apply find_some in Ef. destruct Ef as [Hin _].
  unfold struct_no_json_tags in NP. rewrite forallb_forall in NP. specialize (NP fd Hin). apply String.eqb_eq in NP.
  rewrite NP. destruct (fd_names fd); reflexivity.
Qed.

(* the tag of an entry is the tag of the field's declaration *)
Lemma entry_json_tag : forall pkg fl fuel sd raw e,
  raw_top pkg fl fuel (sd_fields sd) = COk raw -> wf_structs pkg fuel sd = true ->
  no_promoted_json_tags pkg fuel sd = true ->
  In e raw -> f_embedded e = false ->
  f_jsontag e = if fl_json fl then spec_tag pkg fuel sd (f_path e) else ""%string.
Proof.
  intros pkg fl fuel sd raw e Hraw GW NP He Hemb.
  assert (ND := top_names_nodup _ _ _ GW). unfold top_tfields in ND.
  (* walk the declarations *)
  assert (W : forall fds raw0, raw_top pkg fl fuel fds = COk raw0 -> In e raw0 ->
              exists fd, In fd fds /\
                ((fd_names fd <> [] /\ f_path e = [f_name e] /\ In (f_name e) (fd_names fd) /\ f_jsontag e = flag_tag fl fd) \/
                 (fd_names fd = [] /\ f_jsontag e = ""%string /\ exists first r0 rest, f_path e = first :: r0 :: rest /\ first = short_name (fd_ty fd)))).
  { induction fds as [|fd fds IH]; intros raw0 H0 He0; simpl in H0.
    - inversion H0; subst. destruct He0.
    - destruct (raw_decl pkg fl fuel fd) as [a| |] eqn:Ea; try discriminate.
      destruct (raw_top pkg fl fuel fds) as [b| |] eqn:Eb; try discriminate.
      inversion H0; subst raw0. apply in_app_or in He0. destruct He0 as [He0|He0].
      + exists fd. split; [left; reflexivity|]. unfold raw_decl in Ea.
        destruct (fd_names fd) as [|x names] eqn:EN.
        * right. destruct (raw_type pkg fuel 0 [] (fd_ty fd) (parse_new_comment (fd_doc fd))) as [l|] eqn:Er; [|discriminate].
          inversion Ea; subst a. split; auto. split; [eapply raw_type_no_tag; eauto|].
          destruct (raw_type_leaf_facts _ _ _ _ _ _ _ Er e He0 Hemb) as [_ [_ [_ [rel D]]]]. simpl in D.
          destruct rel as [|r0 rest].
          -- exfalso. pose proof (raw_type_path_len _ _ _ _ _ _ _ Er eq_refl e He0) as Hl.
             destruct (raw_type_leaf_facts _ _ _ _ _ _ _ Er e He0 Hemb) as [_ [_ [Hd _]]]. rewrite D in Hl. simpl in Hl. lia.
          -- exists (short_name (fd_ty fd)), r0, rest. auto.
        * left. destruct (raw_names_facts _ _ _ _ _ _ Ea He0) as [_ [Hp [_ [Hin _]]]].
          split; [discriminate|]. split; auto. split; auto. eapply raw_names_tag; eauto.
      + destruct (IH b eq_refl He0) as [fd' [Hfd' C]]. exists fd'. split; [right; exact Hfd'|exact C]. }
  destruct (W (sd_fields sd) raw Hraw He) as [fd [Hfd [[Hne [Hp [Hin Ht]]]|[Hn [Ht [first [r0 [rest [Hp _]]]]]]]]].
  - rewrite Ht, Hp. unfold spec_tag, declaring_struct, tag_in_decls, flag_tag. cbn [last].
    assert (Hfind : find (decl_has_name (f_name e)) (sd_fields sd) = Some fd).
    { apply find_decl_unique; auto. unfold decl_names. rewrite tfields_of_decl_names.
      destruct (fd_names fd) as [|y ys]; [congruence|exact Hin]. }
    rewrite Hfind. destruct (fd_names fd); [congruence|]. reflexivity.
  - rewrite Ht, Hp, (spec_tag_deep pkg fuel sd first r0 rest NP). destruct (fl_json fl); reflexivity.
Qed.

(* ------------------------------------------------------------ the key table *)
Lemma mark_with_jsontag : forall l f, f_jsontag (mark_with l f) = f_jsontag f.
Proof. intros l f. destruct (mark_with_keeps l f) as [E|E]; rewrite E; reflexivity. Qed.
Lemma mark_with_get : forall l f, f_get (mark_with l f) = f_get f.
Proof. intros l f. destruct (mark_with_keeps l f) as [E|E]; rewrite E; reflexivity. Qed.
Lemma mark_with_set : forall l f, f_set (mark_with l f) = f_set f.
Proof. intros l f. destruct (mark_with_keeps l f) as [E|E]; rewrite E; reflexivity. Qed.

(* every entry makeJson looks at is the field Go selects by its bare name, and its tag text in JSONTagMap is the explicit
   tag of the field's declaration else the -tagcase transform of the name *)
Theorem key_table : forall pkg v fl fuel sd fields d nd jd,
  json_of pkg v fl fuel sd = COk (fields, d, nd, jd) ->
  fl_json fl = true -> c02_guard pkg fuel sd = true -> no_promoted_json_tags pkg fuel sd = true ->
  forall e, In e fields -> j_live e = true ->
    resolve pkg fuel sd (f_name e) = Some (f_path e) /\
    assoc_s (f_name e) (jd_tags jd) = spec_key_tag pkg fl fuel sd (f_path e).
Proof.
  intros pkg v fl fuel sd fields d nd jd H HJ G NP e He Le.
  destruct (c02_guard_parts _ _ _ G) as [GB [GW [GU [GN [_ [_ [GX _]]]]]]].
  unfold json_of, getset_of in H.
  destruct (flatten pkg fl fuel sd) as [[fs hn]| |] eqn:EF; try discriminate.
  inversion H; subst fields d nd jd. clear H.
  destruct (flatten_is_marked_raw _ _ _ _ _ _ EF) as [raw [Hraw [Hfs _]]].
  assert (Oe : oentry e = true) by (unfold j_live in Le; apply andb_true_iff in Le; tauto).
  assert (Oe' := Oe). unfold oentry in Oe'. apply andb_true_iff in Oe'. destruct Oe' as [Se Ee].
  apply negb_true_iff in Se. apply negb_true_iff in Ee.
  split.
  - apply (shadow_refines_selector pkg fl fuel sd fs hn e EF GB GW GU GN GX He). exact Se.
  - unfold assoc_s, make_json. rewrite HJ. rewrite json_loop_tags. cbn [empty_json jd_tags assoc].
    assert (UU : unique_unshadowed fs) by (subst fs; eapply unique_unshadowed_mark; eauto).
    rewrite (last_tag_found (fl_tagcase fl) (f_name e) fs (json_tag_of (fl_tagcase fl) e) None e).
    + subst fs. destruct (in_mark _ _ He) as [e0 [He0 Ee0]].
      assert (Emb0 : f_embedded e0 = false) by (rewrite Ee0, mark_with_embedded in Ee; exact Ee).
      pose proof (entry_json_tag pkg fl fuel sd raw e0 Hraw GW NP He0 Emb0) as TG. rewrite HJ in TG.
      destruct (raw_path_last pkg fl fuel sd raw e0 Hraw GB GW GU GN GX He0) as [pre Hp].
      unfold json_tag_of, has_json_tag, spec_key_tag. rewrite HJ, Ee0, mark_with_jsontag, mark_with_name, mark_with_path, TG.
      destruct (String.eqb (spec_tag pkg fuel sd (f_path e0)) ""); cbn [negb]; [|reflexivity].
      rewrite Hp, last_last. reflexivity.
    + apply filter_In. auto.
    + reflexivity.
    + intros e' He' Hn'. apply filter_In in He'. destruct He' as [I' L'].
      unfold j_live in L'. apply andb_true_iff in L'. destruct L' as [O' _].
      unfold oentry in O'. apply andb_true_iff in O'. destruct O' as [S' _]. apply negb_true_iff in S'.
      f_equal. apply UU; auto.
Qed.

(* ------------------------------------------------------------ the round trip *)
Lemma marshal_fields_spec : forall pkg v fuel sd jd x fs fy,
  marshal_fields pkg v fuel sd jd x fs = Ok fy ->
  map fst fy = fs /\ forall f y, In (f, y) fy -> marshal_field pkg v fuel sd jd x f = Ok y.
Proof.
  intros pkg v fuel sd jd x fs. induction fs as [|f fs IH]; intros fy H; simpl in H.
  - inversion H; subst. split; [reflexivity|intros f y []].
  - destruct (marshal_field pkg v fuel sd jd x f) as [y| |] eqn:E; simpl in H; try discriminate.
    destruct (marshal_fields pkg v fuel sd jd x fs) as [ys| |] eqn:Es; simpl in H; try discriminate.
    inversion H; subst fy. destruct (IH ys eq_refl) as [I1 I2]. split; [simpl; rewrite I1; reflexivity|].
    intros g z [Hin|Hin]; [inversion Hin; subst; exact E|eauto].
Qed.

Lemma mem_str_in : forall x l, mem_str x l = true <-> In x l.
Proof. intros. unfold mem_str. apply existsb_eqb_in. Qed.

Lemma filter_all : forall A (p : A -> bool) l, (forall x, In x l -> p x = true) -> filter p l = l.
Proof.
  intros A p l. induction l as [|x r IH]; intros H; simpl; auto.
  rewrite (H x (or_introl eq_refl)), IH; auto. intros y Hy. apply H. right. exact Hy.
Qed.

(* looking a member up by the key of a field finds that field's value when the keys are distinct *)
Lemma assoc_by_key : forall (key : ident -> string) (fy : list (ident * val)) f y,
  NoDup (map (fun p : ident * val => key (fst p)) fy) -> In (f, y) fy ->
  assoc (key f) (map (fun p : ident * val => (key (fst p), snd p)) fy) = Some y.
Proof.
  intros key fy f y. induction fy as [|[g z] r IH]; intros ND Hin; [destruct Hin|].
  simpl in ND. inversion ND; subst. simpl. destruct Hin as [Hin|Hin].
  - inversion Hin; subst. rewrite String.eqb_refl. reflexivity.
  - destruct (String.eqb (key f) (key g)) eqn:E.
    + exfalso. apply String.eqb_eq in E. apply H1. rewrite <- E.
      apply in_map_iff. exists (f, y). split; auto.
    + apply IH; auto.
Qed.

Lemma nodup_lower_nodup : forall (l : list string), nodup_str (map lower l) = true -> NoDup l.
Proof.
  intros l H. apply nodup_str_NoDup in H. induction l as [|x r IH]; [constructor|].
  simpl in H. inversion H; subst. constructor; auto. intros Hin. apply H2. apply in_map. exact Hin.
Qed.

(* the last component of a resolved path is the name *)
Lemma resolve_last : forall pkg fuel sd f p, resolve pkg fuel sd f = Some p -> exists pre, p = pre ++ [f].
Proof.
  intros pkg fuel sd f p H. unfold resolve in H.
  assert (Gen : forall k d, resolve_from pkg (self_inst sd) f d k = Some p -> exists pre, p = pre ++ [f]).
  { induction k as [|k IH]; intros d Hk; simpl in Hk; [discriminate|].
    destruct (candidates pkg d (self_inst sd) f) as [|c cs] eqn:EC; [eauto|].
    destruct cs; [|discriminate]. inversion Hk; subst p.
    assert (Hc : In c (candidates pkg d (self_inst sd) f)) by (rewrite EC; left; reflexivity).
    unfold candidates in Hc. apply filter_In in Hc. destruct Hc as [Hl Hn]. apply String.eqb_eq in Hn.
    rewrite level_is_fields in Hl. destruct (level_fields_last _ _ _ _ _ Hl) as [pre Hp].
    exists pre. rewrite Hp. f_equal. f_equal. exact Hn. }
  eapply Gen; eauto.
Qed.

Lemma nodup_str_filter : forall A (g : A -> string) (p : A -> bool) l,
  nodup_str (map g l) = true -> nodup_str (map g (filter p l)) = true.
Proof.
  intros A g p l. induction l as [|x r IH]; intros H; [reflexivity|].
  cbn [map nodup_str] in H. apply andb_true_iff in H. destruct H as [H1 H2]. cbn [filter].
  destruct (p x); [|apply IH; exact H2]. cbn [map nodup_str]. rewrite (IH H2), andb_true_r.
  apply negb_true_iff. apply negb_true_iff in H1. apply not_true_is_false. intros T.
  apply existsb_exists in T. destruct T as [k [Hk Ek]].
  assert (existsb (String.eqb (g x)) (map g r) = true).
  { apply existsb_exists. exists k. split; auto. apply in_map_iff in Hk. destruct Hk as [u [Eu Hu]].
    apply filter_In in Hu. apply in_map_iff. exists u. tauto. }
  congruence.
Qed.

Lemma NoDup_map_filter : forall A B (g : A -> B) (p : A -> bool) l, NoDup (map g l) -> NoDup (map g (filter p l)).
Proof.
  intros A B g p l. induction l as [|x r IH]; intros H; [constructor|]. cbn [map] in H. inversion H; subst.
  cbn [filter]. destruct (p x); [|auto]. cbn [map]. constructor; auto.
  intros T. apply H2. apply in_map_iff in T. destruct T as [u [Eu Hu]]. apply filter_In in Hu.
  apply in_map_iff. exists u. tauto.
Qed.

(* with distinct keys, the entry of a key is unique *)
Lemma key_unique : forall (key : ident -> string) (fy : list (ident * val)) a b,
  NoDup (map (fun p : ident * val => key (fst p)) fy) -> In a fy -> In b fy -> key (fst a) = key (fst b) -> a = b.
Proof.
  intros key fy a b. induction fy as [|z r IH]; intros ND Ha Hb E; [destruct Ha|].
  cbn [map] in ND. inversion ND; subst. destruct Ha as [Ha|Ha]; destruct Hb as [Hb|Hb].
  - congruence.
  - subst z. exfalso. apply H1. rewrite E. apply in_map_iff. exists b. auto.
  - subst z. exfalso. apply H1. rewrite <- E. apply in_map_iff. exists a. auto.
  - apply IH; auto.
Qed.

Section RoundTrip.
  (* encoding/json, as far as the property needs it: an object is a list of members; decoding what was encoded gives
     the members back when their names are distinct under case folding *)
  Variable wire : Type.
  Variable enc : list (string * val) -> wire.
  Variable dec : wire -> list (string * val).
  Hypothesis dec_enc : forall kv, nodup_str (map (fun m : string * val => lower (fst m)) kv) = true -> dec (enc kv) = kv.

  Variables (pkg : pkg_spec) (v : view) (fuel : nat) (sd : sdecl) (jd : json_data).
  Hypothesis G : c02_guard pkg fuel sd = true.
  Hypothesis AL : json_aligned pkg v fuel sd jd = true.
  Hypothesis KO : json_keys_ok jd = true.

  Let jp := json_path pkg fuel sd.

  Lemma aligned_parts :
    (forall f, In f (jd_getters jd) -> accessor_of_field pkg v fuel sd true f = true) /\
    (forall f, In f (jd_setters jd) -> accessor_of_field pkg v fuel sd false f = true) /\
    (forall f, In f (jd_list jd) -> In (jp f) (leaf_paths pkg fuel (self_inst sd) []) /\ resolve pkg fuel sd f = Some (jp f)) /\
    (forall f, In f (jd_getters jd) -> ~ In f (jd_exported jd)) /\
    (forall f, In f (jd_setters jd) -> ~ In f (jd_exported jd)) /\
    (forall f, In f (jd_getters jd ++ jd_setters jd ++ jd_exported jd) -> In f (jd_list jd)) /\
    NoDup (jd_setters jd ++ jd_exported jd) /\
    (forall f, In f (jd_list jd) -> json_dropped jd f = false).
  Proof.
    pose proof AL as A. unfold json_aligned in A.
    apply andb_true_iff in A. destruct A as [A A7].
    apply andb_true_iff in A. destruct A as [A A6]. apply andb_true_iff in A. destruct A as [A A5].
    apply andb_true_iff in A. destruct A as [A A4]. apply andb_true_iff in A. destruct A as [A A3].
    apply andb_true_iff in A. destruct A as [A1 A2].
    pose proof KO as K. unfold json_keys_ok in K. apply andb_true_iff in K. destruct K as [_ A8].
    rewrite forallb_forall in A1, A2, A3, A4, A5, A6, A8.
    split; [exact A1|]. split; [exact A2|]. split.
    { intros f Hf. specialize (A3 f Hf). apply andb_true_iff in A3. destruct A3 as [L R]. split.
      - apply existsb_exists in L. destruct L as [q [Hq E]]. apply path_eqb_eq in E. unfold jp. rewrite E. exact Hq.
      - unfold jp, json_path. destruct (resolve pkg fuel sd f); [reflexivity|discriminate]. }
    split.
    { intros f Hf Hx. specialize (A4 f Hf). apply negb_true_iff in A4. apply mem_str_in in Hx. congruence. }
    split.
    { intros f Hf Hx. specialize (A5 f Hf). apply negb_true_iff in A5. apply mem_str_in in Hx. congruence. }
    split.
    { intros f Hf. apply mem_str_in. apply A6. exact Hf. }
    split.
    { apply nodup_str_NoDup. exact A7. }
    intros f Hf. specialize (A8 f Hf). apply negb_true_iff in A8. exact A8.
  Qed.

  (* a setter call of the JSON code is an assignment at the field's path *)
  Lemma setter_is_update : forall f w x, In f (jd_setters jd) ->
    call_set pkg v fuel sd w ("Set" ++ to_pascal_case f) x = update w (jp f) x.
  Proof.
    intros f w x Hf. destruct aligned_parts as [_ [AS _]]. specialize (AS f Hf).
    unfold accessor_of_field in AS. unfold call_set.
    destruct (find_method pkg v fuel (self_inst sd) ("Set" ++ to_pascal_case f)) as [pm|]; [|discriminate].
    unfold jp, json_path. destruct (resolve pkg fuel sd f) as [p|]; [|discriminate].
    apply andb_true_iff in AS. destruct AS as [K E]. apply path_eqb_eq in E.
    destruct (gm_kind (snd pm)); try discriminate. rewrite E. reflexivity.
  Qed.

  Lemma getter_is_lookup : forall f x, In f (jd_getters jd) ->
    call_get pkg v fuel sd x (to_pascal_case f) = lookup x (jp f).
  Proof.
    intros f x Hf. destruct aligned_parts as [AG _]. specialize (AG f Hf).
    unfold accessor_of_field in AG. unfold call_get.
    destruct (find_method pkg v fuel (self_inst sd) (to_pascal_case f)) as [pm|]; [|discriminate].
    unfold jp, json_path. destruct (resolve pkg fuel sd f) as [p|]; [|discriminate].
    apply andb_true_iff in AG. destruct AG as [K E]. apply path_eqb_eq in E.
    destruct (gm_kind (snd pm)); try discriminate. rewrite E. reflexivity.
  Qed.

  Definition assignments (kv : list (string * val)) (fs : list ident) : list (path * val) :=
    map (fun f => (jp f, shadow_value jd kv f)) fs.

  Lemma unmarshal_setters_run : forall kv fs w, (forall f, In f fs -> In f (jd_setters jd)) ->
    unmarshal_setters pkg v fuel sd jd kv fs w = run (assignments kv fs) w.
  Proof.
    intros kv fs. induction fs as [|f fs IH]; intros w H; [reflexivity|].
    cbn [unmarshal_setters]. unfold assignments. cbn [map run]. fold (assignments kv fs).
    rewrite setter_is_update by (apply H; left; reflexivity).
    destruct (update w (jp f) (shadow_value jd kv f)); cbn [bind]; auto. apply IH. intros g Hg. apply H. right. exact Hg.
  Qed.

  Lemma unmarshal_exported_run : forall kv fs w, (forall f, In f fs -> In f (jd_list jd)) ->
    unmarshal_exported pkg fuel sd jd kv fs w = run (assignments kv fs) w.
  Proof.
    intros kv fs. induction fs as [|f fs IH]; intros w H; [reflexivity|].
    cbn [unmarshal_exported]. unfold assignments. cbn [map run]. fold (assignments kv fs).
    destruct aligned_parts as [_ [_ [AR _]]]. destruct (AR f (H f (or_introl eq_refl))) as [_ R].
    unfold assign. rewrite R.
    destruct (update w (jp f) (shadow_value jd kv f)); cbn [bind]; auto. apply IH. intros g Hg. apply H. right. exact Hg.
  Qed.

  Lemma run_app : forall a b w, run (a ++ b) w = bind (run a w) (run b).
  Proof.
    induction a as [|[p x] a IH]; intros b w; simpl; auto.
    destruct (update w p x); simpl; auto.
  Qed.

  Lemma unmarshal_run : forall kv w,
    unmarshal pkg v fuel sd jd kv w = run (assignments kv (jd_setters jd ++ jd_exported jd)) w.
  Proof.
    intros kv w. unfold unmarshal. destruct aligned_parts as [_ [_ [_ [_ [_ [IL _]]]]]].
    rewrite unmarshal_setters_run by auto. unfold assignments. rewrite map_app, run_app.
    destruct (run (map (fun f => (jp f, shadow_value jd kv f)) (jd_setters jd)) w); simpl; auto.
    apply unmarshal_exported_run. intros f Hf. apply IL. apply in_or_app. right. apply in_or_app. right. exact Hf.
  Qed.

  Lemma jp_inj : forall f g, In f (jd_list jd) -> In g (jd_list jd) -> jp f = jp g -> f = g.
  Proof.
    intros f g Hf Hg E. destruct aligned_parts as [_ [_ [AR _]]].
    destruct (AR f Hf) as [_ Rf]. destruct (AR g Hg) as [_ Rg].
    destruct (resolve_last _ _ _ _ _ Rf) as [p1 E1]. destruct (resolve_last _ _ _ _ _ Rg) as [p2 E2].
    rewrite E in E1. rewrite E1 in E2. apply app_inj_tail in E2. tauto.
  Qed.

  Lemma last_assign_fields : forall kv fs f, NoDup fs -> (forall g, In g fs -> In g (jd_list jd)) -> In f (jd_list jd) ->
    last_assign (jp f) (assignments kv fs) = if mem_str f fs then Some (shadow_value jd kv f) else None.
  Proof.
    intros kv fs f. induction fs as [|g fs IH]; intros ND Sub Hf; simpl; auto.
    inversion ND; subst. rewrite IH; auto; [|intros h Hh; apply Sub; right; exact Hh].
    destruct (mem_str f fs) eqn:M.
    - rewrite orb_true_r. reflexivity.
    - rewrite orb_false_r. destruct (String.eqb f g) eqn:E.
      + apply String.eqb_eq in E. subst g. rewrite path_eqb_refl. reflexivity.
      + assert (path_eqb (jp g) (jp f) = false).
        { apply not_true_is_false. intros P. apply path_eqb_eq in P. apply String.eqb_neq in E. apply E.
          symmetry. apply jp_inj; auto. apply Sub. left. reflexivity. }
        rewrite H. reflexivity.
  Qed.

  (* Unmarshal(Marshal x) into w *)
  Theorem round_trip : forall x kv w w',
    marshal pkg v fuel sd jd x = Ok kv ->
    unmarshal pkg v fuel sd jd (dec (enc kv)) w = Ok w' ->
    forall f, In f (jd_list jd) ->
      (mem_str f (jd_exported jd) || (mem_str f (jd_getters jd) && mem_str f (jd_setters jd)) = true ->
         lookup w' (jp f) = lookup x (jp f)) /\
      (mem_str f (jd_setters jd) && negb (mem_str f (jd_getters jd)) = true -> lookup w' (jp f) = Ok VZero) /\
      (negb (mem_str f (jd_exported jd)) && negb (mem_str f (jd_setters jd)) = true -> lookup w' (jp f) = lookup w (jp f)).
  Proof.
    intros x kv w w' HM HU f Hf.
    destruct aligned_parts as [AG [AS [AR [DG [DS [IL [ND NDrop]]]]]]].
    (* the members *)
    unfold marshal in HM. destruct (marshal_fields pkg v fuel sd jd x (jd_list jd)) as [fy| |] eqn:EM; simpl in HM; try discriminate.
    destruct (marshal_fields_spec _ _ _ _ _ _ _ _ EM) as [FS FV].
    inversion HM; subst kv. clear HM.
    set (kf := fun p : ident * val => (json_key jd (fst p), snd p)) in *.
    pose proof KO as KO'. unfold json_keys_ok in KO'. apply andb_true_iff in KO'. destruct KO' as [KO' _].
    apply andb_true_iff in KO'. destruct KO' as [KN _].
    assert (KNDall : NoDup (map (fun p : ident * val => json_key jd (fst p)) fy)).
    { apply nodup_lower_nodup. rewrite <- FS in KN. rewrite !map_map in *. exact KN. }
    assert (KD : nodup_str (map (fun m : string * val => lower (fst m)) (map kf (filter (json_kept jd) fy))) = true).
    { rewrite map_map. unfold kf. cbn [fst]. apply nodup_str_filter. rewrite <- FS in KN. rewrite map_map in KN. exact KN. }
    rewrite (dec_enc _ KD) in HU.
    (* the value the shadow struct holds for a listed field *)
    assert (SV : forall g, In g (jd_list jd) -> exists y, marshal_field pkg v fuel sd jd x g = Ok y /\
                 shadow_value jd (map kf (filter (json_kept jd) fy)) g = y).
    { intros g Hg. rewrite <- FS in Hg. apply in_map_iff in Hg. destruct Hg as [[g' y] [Eg Hin]]. cbn [fst] in Eg. subst g'.
      exists y. split; [eapply FV; eauto|]. unfold shadow_value.
      assert (ND' : json_dropped jd g = false) by (apply NDrop; rewrite <- FS; apply in_map_iff; exists (g, y); auto).
      rewrite ND'.
      destruct (json_kept jd (g, y)) eqn:EK.
      - assert (Hin' : In (g, y) (filter (json_kept jd) fy)) by (apply filter_In; auto).
        unfold kf. rewrite (assoc_by_key (json_key jd) (filter (json_kept jd) fy) g y (NoDup_map_filter _ _ _ _ _ KNDall) Hin').
        reflexivity.
      - (* omitted: the value was zero, the member is absent, the shadow struct holds zero *)
        assert (NK : assoc (json_key jd g) (map kf (filter (json_kept jd) fy)) = None).
        { apply assoc_in_none. rewrite map_map. unfold kf. cbn [fst]. intros T. apply in_map_iff in T.
          destruct T as [u [Eu Hu]]. apply filter_In in Hu. destruct Hu as [Hu Ku].
          assert (u = (g, y)) by (apply (key_unique (json_key jd) fy); auto).
          subst u. congruence. }
        rewrite NK. unfold json_kept in EK. cbn [fst snd] in EK. rewrite ND' in EK. cbn [negb andb] in EK.
        apply negb_false_iff in EK. unfold json_omitted in EK. apply andb_true_iff in EK. destruct EK as [_ EZ].
        destruct y; try discriminate. reflexivity. }
    (* the run *)
    rewrite unmarshal_run in HU.
    assert (Sub : forall g, In g (jd_setters jd ++ jd_exported jd) -> In g (jd_list jd)).
    { intros g Hg. apply IL. apply in_or_app. right. exact Hg. }
    pose proof (run_last_wins _ _ _ (jp f) HU) as RL.
    rewrite (last_assign_fields _ _ f ND Sub Hf) in RL.
    assert (AP : forall p, In p (map fst (assignments (map kf (filter (json_kept jd) fy))
                                                      (jd_setters jd ++ jd_exported jd))) -> apart p (jp f)).
    { intros p Hp. unfold assignments in Hp. rewrite map_map in Hp. cbn [fst] in Hp. apply in_map_iff in Hp.
      destruct Hp as [g [Ep Hg]]. subst p. destruct (AR g (Sub g Hg)) as [Lg _]. destruct (AR f Hf) as [Lf _].
      apply (leaf_paths_apart pkg fuel sd G); auto. }
    specialize (RL AP). destruct (SV f Hf) as [y [MF SVf]].
    assert (MemApp : mem_str f (jd_setters jd ++ jd_exported jd) = mem_str f (jd_setters jd) || mem_str f (jd_exported jd)).
    { unfold mem_str. apply existsb_app. }
    rewrite MemApp in RL.
    split; [|split].
    - intros C. unfold marshal_field in MF.
      destruct (mem_str f (jd_exported jd)) eqn:ME.
      + rewrite orb_true_r in RL. rewrite RL, SVf.
        assert (MG : mem_str f (jd_getters jd) = false).
        { apply not_true_is_false. intros T. apply mem_str_in in T. apply mem_str_in in ME. exact (DG f T ME). }
        rewrite MG in MF. destruct (AR f Hf) as [_ R]. rewrite R in MF. symmetry. exact MF.
      + cbn [orb] in C. apply andb_true_iff in C. destruct C as [CG CS]. rewrite CS in RL. cbn [orb] in RL.
        rewrite RL, SVf. rewrite CG in MF. rewrite getter_is_lookup in MF by (apply mem_str_in; exact CG). symmetry. exact MF.
    - intros C. apply andb_true_iff in C. destruct C as [CS CG]. apply negb_true_iff in CG.
      rewrite CS in RL. cbn [orb] in RL. rewrite RL, SVf. unfold marshal_field in MF. rewrite CG in MF.
      assert (ME : mem_str f (jd_exported jd) = false).
      { apply not_true_is_false. intros T. apply mem_str_in in T. apply mem_str_in in CS. exact (DS f CS T). }
      rewrite ME in MF. inversion MF. reflexivity.
    - intros C. apply andb_true_iff in C. destruct C as [CE CS]. apply negb_true_iff in CE. apply negb_true_iff in CS.
      rewrite CE, CS in RL. cbn [orb] in RL. exact RL.
  Qed.

  (* progress: MarshalJSON returns when every listed field of x can be read (no nil embedded pointer on the way),
     UnmarshalJSON returns when every assigned field of w can be read *)
  Lemma marshal_fields_ok : forall x fs,
    (forall f, In f fs -> exists y, marshal_field pkg v fuel sd jd x f = Ok y) ->
    exists fy, marshal_fields pkg v fuel sd jd x fs = Ok fy.
  Proof.
    intros x fs. induction fs as [|f fs IH]; intros H; [exists []; reflexivity|].
    destruct (H f (or_introl eq_refl)) as [y Hy]. destruct (IH (fun g Hg => H g (or_intror Hg))) as [ys Hys].
    exists ((f, y) :: ys). cbn [marshal_fields]. rewrite Hy. cbn [bind]. rewrite Hys. reflexivity.
  Qed.

  Theorem marshal_runs : forall x,
    (forall f, In f (jd_list jd) -> exists y, lookup x (jp f) = Ok y) ->
    exists kv, marshal pkg v fuel sd jd x = Ok kv.
  Proof.
    intros x RD. destruct aligned_parts as [AG [AS [AR [DG [DS [IL [ND NDrop]]]]]]].
    destruct (marshal_fields_ok x (jd_list jd)) as [fy Hfy].
    { intros f Hf. unfold marshal_field. destruct (mem_str f (jd_getters jd)) eqn:MG.
      - rewrite getter_is_lookup by (apply mem_str_in; exact MG). apply RD. exact Hf.
      - destruct (mem_str f (jd_exported jd)) eqn:ME; [|eauto].
        destruct (AR f Hf) as [_ R]. rewrite R. apply RD. exact Hf. }
    unfold marshal. rewrite Hfy. cbn [bind]. eauto.
  Qed.

  Theorem unmarshal_runs : forall kv w,
    (forall f, In f (jd_setters jd ++ jd_exported jd) -> exists y, lookup w (jp f) = Ok y) ->
    exists w', unmarshal pkg v fuel sd jd kv w = Ok w'.
  Proof.
    intros kv w RD. destruct aligned_parts as [AG [AS [AR [DG [DS [IL [ND NDrop]]]]]]].
    rewrite unmarshal_run. apply run_ok.
    - intros p Hp. unfold assignments in Hp. rewrite map_map in Hp. cbn [fst] in Hp. apply in_map_iff in Hp.
      destruct Hp as [g [Ep Hg]]. subst p. apply RD. exact Hg.
    - intros p q Hp Hq. unfold assignments in Hp, Hq. rewrite map_map in Hp, Hq. cbn [fst] in Hp, Hq.
      apply in_map_iff in Hp. apply in_map_iff in Hq. destruct Hp as [g [Ep Hg]]. destruct Hq as [h [Eq Hh]]. subst p q.
      assert (Lg : In g (jd_list jd)) by (apply IL; apply in_or_app; right; exact Hg).
      assert (Lh : In h (jd_list jd)) by (apply IL; apply in_or_app; right; exact Hh).
      destruct (AR g Lg) as [Pg _]. destruct (AR h Lh) as [Ph _].
      apply (leaf_paths_apart pkg fuel sd G); auto.
  Qed.
End RoundTrip.

(* ------------------------------------------- the entries makeJson looks at, declaratively *)
Lemma map_filter_agree : forall A B (g : A -> B) (p : A -> bool) (q : B -> bool) l,
  (forall x, In x l -> p x = q (g x)) -> map g (filter p l) = filter q (map g l).
Proof.
  intros A B g p q l. induction l as [|x r IH]; intros H; [reflexivity|].
  cbn [filter map]. rewrite <- (H x (or_introl eq_refl)). destruct (p x); cbn [map]; rewrite IH; auto;
    intros y Hy; apply H; right; exact Hy.
Qed.

Lemma decl_leaves_ne_eq : forall pkg fuel fd, (forall n, In n (fd_names fd) -> excluded_decl fd n = false) ->
  decl_leaves_ne pkg fuel fd = decl_leaves pkg fuel fd.
Proof.
  intros pkg fuel fd H. unfold decl_leaves_ne, decl_leaves. destruct (fd_names fd) as [|x ns] eqn:EN; [reflexivity|].
  rewrite <- EN in *. rewrite EN. rewrite (named_decl_leaves pkg fuel (fd_ty fd) (x :: ns)) || idtac.
  unfold tfields_of_decl. rewrite EN.
  rewrite filter_all by (intros n Hn; rewrite H; [reflexivity|rewrite EN; exact Hn]).
  symmetry. apply (named_decl_leaves pkg fuel (fd_ty fd) (x :: ns)).
Qed.

(* the unshadowed leaf entries of the flattened list are, in order, the fields Go selects on T by their bare name *)
Theorem live_entries_are_selectable_leaves : forall pkg fl fuel sd fs hn,
  flatten pkg fl fuel sd = COk (fs, hn) ->
  c02_guard pkg fuel sd = true -> no_excluded_fields sd = true ->
  map f_path (filter oentry fs) = selectable_leaves pkg fuel sd.
Proof.
  intros pkg fl fuel sd fs hn H G GE.
  destruct (c02_guard_parts _ _ _ G) as [GB [GW [GU [GN [_ [_ [GX _]]]]]]].
  destruct (flatten_is_marked_raw _ _ _ _ _ _ H) as [raw [Hraw [Hfs Hhn]]].
  assert (L : map f_path (filter is_leaf_entry fs) = leaf_paths pkg fuel (self_inst sd) []).
  { subst fs. rewrite mark_leaf_paths, top_leaf_paths.
    rewrite (raw_top_leaves pkg fl fuel (sd_fields sd) raw Hraw) by (intros n; apply (levels_ok_of_guard pkg fuel sd n GN GB)).
    apply flat_map_ext_in. intros fd Hfd. apply decl_leaves_ne_eq. intros n Hn. eapply no_excluded_names; eauto. }
  unfold selectable_leaves. rewrite <- L.
  assert (Split : filter oentry fs = filter (fun e => negb (f_shadowed e)) (filter is_leaf_entry fs)).
  { clear. induction fs as [|e r IH]; [reflexivity|]. cbn [filter]. unfold oentry at 1, is_leaf_entry at 1.
    destruct (f_embedded e); cbn [negb andb]; [rewrite andb_false_r; exact IH|].
    rewrite andb_true_r. cbn [filter]. destruct (negb (f_shadowed e)); rewrite IH; reflexivity. }
  rewrite Split. apply map_filter_agree. intros e He. apply filter_In in He. destruct He as [He _].
  pose proof (shadow_refines_selector pkg fl fuel sd fs hn e H GB GW GU GN GX He) as SR.
  assert (Last : last (f_path e) ""%string = f_name e).
  { subst fs. destruct (in_mark _ _ He) as [e0 [He0 Ee]]. subst e. rewrite mark_with_path, mark_with_name.
    destruct (raw_path_last pkg fl fuel sd raw e0 Hraw GB GW GU GN GX He0) as [pre Hp]. rewrite Hp, last_last. reflexivity. }
  cbn beta. unfold ident, path in *. rewrite Last. destruct (f_shadowed e) eqn:Sh; cbn [negb].
  - destruct (resolve pkg fuel sd (f_name e)) as [q|] eqn:R; [|reflexivity].
    destruct (path_eqb (f_path e) q) eqn:E; [|reflexivity]. apply path_eqb_eq in E. subst q.
    assert (true = false) by (apply SR; reflexivity). discriminate.
  - rewrite (proj1 SR eq_refl), path_eqb_refl. reflexivity.
Qed.

(* the exported members, declaratively: the exported fields Go selects on T whose declaration is not tagged json:"-" *)
Theorem exported_members : forall pkg v fl fuel sd fields d nd jd,
  json_of pkg v fl fuel sd = COk (fields, d, nd, jd) ->
  fl_json fl = true -> c02_guard pkg fuel sd = true -> no_excluded_fields sd = true ->
  no_promoted_json_tags pkg fuel sd = true ->
  jd_exported jd =
  map (fun p => last p ""%string)
      (filter (fun p => is_exported (last p ""%string) && negb (String.eqb (spec_tag pkg fuel sd p) "-"))
              (selectable_leaves pkg fuel sd)).
Proof.
  intros pkg v fl fuel sd fields d nd jd H HJ G GE NP.
  destruct (c02_guard_parts _ _ _ G) as [GB [GW [GU [GN [_ [_ [GX _]]]]]]].
  unfold json_of, getset_of in H.
  destruct (flatten pkg fl fuel sd) as [[fs hn]| |] eqn:EF; try discriminate.
  inversion H; subst fields d nd jd. clear H.
  destruct (json_lists fl sd (make_getset pkg v fuel fl sd fs) fs HJ) as [_ [_ [_ [I4 _]]]]. cbn zeta in I4. rewrite I4.
  rewrite <- (live_entries_are_selectable_leaves pkg fl fuel sd fs hn EF G GE).
  destruct (flatten_is_marked_raw _ _ _ _ _ _ EF) as [raw [Hraw [Hfs _]]].
  assert (Facts : forall e, In e fs -> oentry e = true ->
            last (f_path e) ""%string = f_name e /\ f_jsontag e = spec_tag pkg fuel sd (f_path e)).
  { intros e He Oe. subst fs. destruct (in_mark _ _ He) as [e0 [He0 Ee]].
    unfold oentry in Oe. apply andb_true_iff in Oe. destruct Oe as [_ Emb]. apply negb_true_iff in Emb.
    assert (Emb0 : f_embedded e0 = false) by (rewrite Ee, mark_with_embedded in Emb; exact Emb).
    pose proof (entry_json_tag pkg fl fuel sd raw e0 Hraw GW NP He0 Emb0) as TG. rewrite HJ in TG.
    destruct (raw_path_last pkg fl fuel sd raw e0 Hraw GB GW GU GN GX He0) as [pre Hp].
    subst e. rewrite mark_with_path, mark_with_name, mark_with_jsontag. split; [rewrite Hp, last_last; reflexivity|exact TG]. }
  assert (Split : filter j_exported fs =
                  filter (fun e => is_exported (last (f_path e) ""%string) && negb (String.eqb (spec_tag pkg fuel sd (f_path e)) "-"))
                         (filter oentry fs)).
  { clear - Facts. induction fs as [|e r IH]; [reflexivity|].
    assert (IHr : filter j_exported r = filter (fun e0 => is_exported (last (f_path e0) ""%string) &&
                     negb (String.eqb (spec_tag pkg fuel sd (f_path e0)) "-")) (filter oentry r)).
    { apply IH. intros e0 H0. apply Facts. right. exact H0. }
    cbn [filter]. unfold j_exported at 1, j_live, j_exp. destruct (oentry e) eqn:Oe; cbn [andb].
    - destruct (Facts e (or_introl eq_refl) Oe) as [F1 F2]. cbn [filter]. rewrite F1, <- F2.
      rewrite andb_comm. destruct (is_exported (f_name e) && negb (String.eqb (f_jsontag e) "-")); rewrite IHr; reflexivity.
    - exact IHr. }
  rewrite Split.
  match goal with |- _ = map ?g2 (filter ?q (map f_path ?l)) =>
    transitivity (map g2 (map f_path (filter (fun e => q (f_path e)) l)));
      [|f_equal; apply map_filter_agree; reflexivity] end.
  cbn beta.
  rewrite map_map. apply map_ext_in. intros e He. apply filter_In in He. destruct He as [He _].
  apply filter_In in He. destruct He as [He Oe]. destruct (Facts e He Oe) as [F1 _]. symmetry. exact F1.
Qed.

(* the part of json_aligned that holds for makeJson's output by construction: the lists are consistent, getter / setter
   fields are not exported fields, every listed field is a leaf Go selects.  (That the accessor found BY NAME for a
   promoted field is the accessor OF that field -- the first two conjuncts of json_aligned -- and the distinctness of
   the listed names are evaluated on every sample of the correspondence run instead.) *)
Theorem aligned_structure : forall pkg v fl fuel sd fields d nd jd,
  json_of pkg v fl fuel sd = COk (fields, d, nd, jd) ->
  fl_json fl = true -> c02_guard pkg fuel sd = true -> no_excluded_fields sd = true ->
  (forall f, In f (jd_list jd) ->
     existsb (path_eqb (json_path pkg fuel sd f)) (leaf_paths pkg fuel (self_inst sd) []) = true /\
     is_some (resolve pkg fuel sd f) = true) /\
  (forall f, In f (jd_getters jd) -> mem_str f (jd_exported jd) = false) /\
  (forall f, In f (jd_setters jd) -> mem_str f (jd_exported jd) = false) /\
  (forall f, In f (jd_getters jd ++ jd_setters jd ++ jd_exported jd) -> mem_str f (jd_list jd) = true).
Proof.
  intros pkg v fl fuel sd fields d nd jd H HJ G GE.
  destruct (c02_guard_parts _ _ _ G) as [GB [GW [GU [GN [_ [_ [GX _]]]]]]].
  unfold json_of, getset_of in H.
  destruct (flatten pkg fl fuel sd) as [[fs hn]| |] eqn:EF; try discriminate.
  inversion H; subst fields d nd jd. clear H.
  destruct (json_lists fl sd (make_getset pkg v fuel fl sd fs) fs HJ) as [I1 [I2 [I3 [I4 _]]]]. cbn zeta in *.
  set (GG := fst (type_switch fl sd)) in *. set (SS := snd (type_switch fl sd)) in *.
  set (ms := gs_methods (make_getset pkg v fuel fl sd fs)) in *.
  assert (ExpNames : forall f, In f (map f_name (filter j_exported fs)) -> is_exported f = true).
  { intros f Hf. apply in_map_iff in Hf. destruct Hf as [e [En He]]. apply filter_In in He. destruct He as [_ Pe].
    unfold j_exported, j_exp in Pe. apply andb_true_iff in Pe. subst f. tauto. }
  split; [|split; [|split]].
  - intros f Hf. rewrite I1 in Hf. apply in_map_iff in Hf. destruct Hf as [e [En He]]. apply filter_In in He.
    destruct He as [He Pe]. unfold j_listed, j_live in Pe. apply andb_true_iff in Pe. destruct Pe as [Pe _].
    apply andb_true_iff in Pe. destruct Pe as [Oe _].
    assert (Oe' := Oe). unfold oentry in Oe'. apply andb_true_iff in Oe'. destruct Oe' as [Se _]. apply negb_true_iff in Se.
    pose proof (proj1 (shadow_refines_selector pkg fl fuel sd fs hn e EF GB GW GU GN GX He) Se) as R.
    subst f. unfold json_path. rewrite R. split; [|reflexivity].
    apply existsb_exists. exists (f_path e). split; [|apply path_eqb_refl].
    assert (In (f_path e) (selectable_leaves pkg fuel sd)).
    { rewrite <- (live_entries_are_selectable_leaves pkg fl fuel sd fs hn EF G GE). apply in_map. apply filter_In. auto. }
    unfold selectable_leaves in H. apply filter_In in H. tauto.
  - intros f Hf. apply not_true_is_false. intros T. apply mem_str_in in T. rewrite I4 in T.
    rewrite I2 in Hf. apply in_map_iff in Hf. destruct Hf as [e [En He]]. apply filter_In in He. destruct He as [_ Pe].
    unfold j_getter, j_exp in Pe. apply andb_true_iff in Pe. destruct Pe as [_ Pe]. apply andb_true_iff in Pe.
    destruct Pe as [Ne _]. apply negb_true_iff in Ne. subst f. rewrite (ExpNames _ T) in Ne. discriminate.
  - intros f Hf. apply not_true_is_false. intros T. apply mem_str_in in T. rewrite I4 in T.
    rewrite I3 in Hf. apply in_map_iff in Hf. destruct Hf as [e [En He]]. apply filter_In in He. destruct He as [_ Pe].
    unfold j_setter, j_exp in Pe. apply andb_true_iff in Pe. destruct Pe as [_ Pe]. apply andb_true_iff in Pe.
    destruct Pe as [Ne _]. apply negb_true_iff in Ne. subst f. rewrite (ExpNames _ T) in Ne. discriminate.
  - intros f Hf. apply mem_str_in. rewrite I1. rewrite I2, I3, I4 in Hf.
    apply in_app_or in Hf. destruct Hf as [Hf|Hf]; [|apply in_app_or in Hf; destruct Hf as [Hf|Hf]];
      apply in_map_iff in Hf; destruct Hf as [e [En He]]; apply filter_In in He; destruct He as [He Pe];
      apply in_map_iff; exists e; split; auto; apply filter_In; split; auto.
    + unfold j_getter in Pe. unfold j_listed. apply andb_true_iff in Pe. destruct Pe as [L Pe]. rewrite L.
      apply andb_true_iff in Pe. destruct Pe as [_ Pg]. unfold j_get in *. rewrite Pg. cbn. rewrite orb_true_r. reflexivity.
    + unfold j_setter in Pe. unfold j_listed. apply andb_true_iff in Pe. destruct Pe as [L Pe]. rewrite L.
      apply andb_true_iff in Pe. destruct Pe as [_ Ps]. unfold j_set in *. rewrite Ps. cbn. rewrite !orb_true_r. reflexivity.
    + unfold j_exported in Pe. unfold j_listed. apply andb_true_iff in Pe. destruct Pe as [L Pe]. rewrite L, Pe. reflexivity.
Qed.
