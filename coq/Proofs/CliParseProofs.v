(* C16, the command-line side: what ParseCommonFlags (Model/Cli.v parse_common)
   makes of the argument vectors the property speaks about, and the end-to-end
   statements over argument vectors obtained by composing with Proofs/CliProofs.v. *)
From Coq Require Import List String Ascii Bool Arith Lia Permutation.
From Shoot Require Import Model.Cli Model.CliSpec Proofs.CliProofs.
Import ListNotations.
Local Open Scope string_scope.

Lemma parse_common_flags_ok : forall c args fl vals, parse_common c args = POk fl vals -> flags_okb fl = true.
Proof.
  intros c args fl vals H. unfold parse_common in H. destruct args as [|a args]; [discriminate|].
  destruct (parse_args c (Datatypes.length (a :: args)) (a :: args) []) as [vs rest| |]; try discriminate.
  destruct ((flag_val "type" vs "" =? "") && (flag_val "file" vs "" =? "")); [discriminate|].
  inversion H as [[Hfl Hv]]. unfold flags_okb. simpl.
  match goal with |- implb ?x _ = true => destruct x; reflexivity end.
Qed.

(* ---------------------------------------------------------------- strings *)

Lemma app_snoc : forall a ch b, (a ++ String ch "") ++ b = a ++ String ch b.
Proof. induction a as [|x a IH]; intros ch b; simpl; [reflexivity|]. rewrite IH. reflexivity. Qed.

Lemma append_nil_r : forall s, s ++ "" = s.
Proof. induction s as [|x s IH]; simpl; [reflexivity|]. rewrite IH. reflexivity. Qed.

Definition no_comma (s : string) : bool := all_chars (fun ch => negb (Ascii.eqb ch ",")) s.

Lemma letter_not_comma : forall ch, is_letter ch = true -> Ascii.eqb ch "," = false.
Proof.
  intros ch H. destruct (Ascii.eqb ch ",") eqn:E; [|reflexivity].
  apply Ascii.eqb_eq in E. subst. vm_compute in H. discriminate.
Qed.

Lemma digit_not_comma : forall ch, is_digit ch = true -> Ascii.eqb ch "," = false.
Proof.
  intros ch H. destruct (Ascii.eqb ch ",") eqn:E; [|reflexivity].
  apply Ascii.eqb_eq in E. subst. vm_compute in H. discriminate.
Qed.

Lemma ident_no_comma : forall T, is_ident T = true -> no_comma T = true.
Proof.
  intros [|ch s] H; [discriminate|]. simpl in H. apply andb_true_iff in H. destruct H as [H1 H2].
  unfold no_comma. simpl. rewrite (letter_not_comma ch H1). simpl.
  induction s as [|d s IH]; simpl in *; [reflexivity|].
  apply andb_true_iff in H2. destruct H2 as [Hd Hs]. rewrite (IH Hs), andb_true_r.
  apply orb_true_iff in Hd. destruct Hd as [Hd|Hd]; [rewrite (letter_not_comma d Hd) | rewrite (digit_not_comma d Hd)]; reflexivity.
Qed.

Lemma split_aux_last : forall x cur, no_comma x = true -> split_comma_aux x cur = [cur ++ x].
Proof.
  induction x as [|ch x IH]; intros cur H; simpl.
  - rewrite append_nil_r. reflexivity.
  - unfold no_comma in H. simpl in H. apply andb_true_iff in H. destruct H as [H1 H2].
    apply negb_true_iff in H1. rewrite H1. rewrite IH by exact H2. rewrite app_snoc. reflexivity.
Qed.

Lemma split_aux_cons : forall x r cur, no_comma x = true ->
  split_comma_aux (x ++ String "," r) cur = (cur ++ x) :: split_comma_aux r "".
Proof.
  induction x as [|ch x IH]; intros r cur H; simpl.
  - rewrite append_nil_r. reflexivity.
  - unfold no_comma in H. simpl in H. apply andb_true_iff in H. destruct H as [H1 H2].
    apply negb_true_iff in H1. rewrite H1. rewrite IH by exact H2. rewrite app_snoc. reflexivity.
Qed.

Lemma split_join : forall L, L <> [] -> (forall T, In T L -> is_ident T = true) -> split_comma (join "," L) = L.
Proof.
  unfold split_comma. induction L as [|x L IH]; intros Hne Hid; [contradiction|].
  assert (Hx : no_comma x = true) by (apply ident_no_comma; apply Hid; left; reflexivity).
  destruct L as [|y L].
  - simpl. rewrite split_aux_last by exact Hx. reflexivity.
  - change (join "," (x :: y :: L)) with (x ++ String "," (join "," (y :: L))).
    rewrite split_aux_cons by exact Hx. simpl append. f_equal. apply IH; [discriminate|].
    intros T HT. apply Hid. right. exact HT.
Qed.

Lemma join_ident_head : forall L, L <> [] -> (forall T, In T L -> is_ident T = true) ->
  exists ch s, join "," L = String ch s /\ is_letter ch = true.
Proof.
  intros [|x L] Hne Hid; [contradiction|].
  assert (Hx : is_ident x = true) by (apply Hid; left; reflexivity).
  destruct x as [|ch x]; [discriminate|]. simpl in Hx. apply andb_true_iff in Hx. destruct Hx as [Hl _].
  destruct L as [|y L].
  - exists ch, x. split; [reflexivity | exact Hl].
  - exists ch, (x ++ String "," (join "," (y :: L))). split; [reflexivity | exact Hl].
Qed.

(* ------------------------------------------------- the argument vectors *)

Definition flags_of (c : subcmd) (args : list string) (types : list string) (specified : bool)
                    (file : string) (sep : bool) : cflags :=
  {| fl_cmdline := "shoot " ++ join " " (sub_name c :: args); fl_types := types; fl_specified := specified;
     fl_file := file; fl_sep := sep; fl_dir := "." |}.

Lemma parse_type_list : forall c L, L <> [] -> (forall T, In T L -> is_ident T = true) ->
  parse_common c ["-type=" ++ join "," L] =
  POk (flags_of c ["-type=" ++ join "," L] L true "" true) [("type", join "," L)].
Proof.
  intros c L Hne Hid. destruct (join_ident_head L Hne Hid) as [ch [s [Hj Hl]]].
  pose proof (split_join L Hne Hid) as Hs.
  assert (Hne1 : (join "," L =? "") = false) by (rewrite Hj; reflexivity).
  assert (Hne2 : (join "," L =? "*") = false).
  { rewrite Hj. destruct (String ch s =? "*") eqn:E; [|reflexivity]. apply String.eqb_eq in E. inversion E; subst.
    vm_compute in Hl. discriminate. }
  unfold parse_common. simpl Datatypes.length.
  assert (Hp : parse_args c 1 ["-type=" ++ join "," L] [] = PFlags [("type", join "," L)] []).
  { destruct c; reflexivity. }
  rewrite Hp. simpl flag_val. rewrite Hne1, Hne2. simpl. rewrite Hs. unfold flags_of. reflexivity.
Qed.

Lemma parse_file_arg : forall c f, f <> "" ->
  parse_common c ["-file=" ++ f] = POk (flags_of c ["-file=" ++ f] [] false f false) [("file", f)].
Proof.
  intros c f Hne. apply String.eqb_neq in Hne. unfold parse_common. simpl Datatypes.length.
  assert (Hp : parse_args c 1 ["-file=" ++ f] [] = PFlags [("file", f)] []) by (destruct c; reflexivity).
  rewrite Hp. simpl flag_val. simpl. rewrite Hne. unfold flags_of. reflexivity.
Qed.

Lemma parse_file_sep : forall c f, f <> "" ->
  parse_common c ["-file=" ++ f; "-sep"] =
  POk (flags_of c ["-file=" ++ f; "-sep"] [] false f true) [("file", f); ("sep", "true")].
Proof.
  intros c f Hne. apply String.eqb_neq in Hne. unfold parse_common. simpl Datatypes.length.
  assert (Hp : parse_args c 2 ["-file=" ++ f; "-sep"] [] = PFlags [("file", f); ("sep", "true")] []) by (destruct c; reflexivity).
  rewrite Hp. simpl flag_val. simpl. rewrite Hne. unfold flags_of. reflexivity.
Qed.

Lemma parse_star : forall c,
  parse_common c ["-type=*"] = POk (flags_of c ["-type=*"] ["*"] false "" false) [("type", "*")].
Proof. intros c. destruct c; reflexivity. Qed.

Lemma parse_star_sep : forall c,
  parse_common c ["-type=*"; "-sep"] =
  POk (flags_of c ["-type=*"; "-sep"] ["*"] false "" true) [("type", "*"); ("sep", "true")].
Proof. intros c. destruct c; reflexivity. Qed.

(* an explicit -type list forces one file per type whatever -sep says *)
Lemma parse_type_list_sep_false : forall c T, is_ident T = true ->
  exists fl vals, parse_common c ["-type=" ++ T; "-sep=false"] = POk fl vals /\ fl_sep fl = true /\ fl_types fl = [T].
Proof.
  intros c T Hid.
  destruct (join_ident_head [T] ltac:(discriminate) ltac:(intros T' [<-|[]]; exact Hid)) as [ch [s [Hj Hl]]].
  simpl in Hj.
  assert (Hne1 : (T =? "") = false) by (rewrite Hj; reflexivity).
  assert (Hne2 : (T =? "*") = false).
  { rewrite Hj. destruct (String ch s =? "*") eqn:E; [|reflexivity]. apply String.eqb_eq in E. inversion E; subst.
    vm_compute in Hl. discriminate. }
  pose proof (split_join [T] ltac:(discriminate) ltac:(intros T' [<-|[]]; exact Hid)) as Hs. simpl in Hs.
  unfold parse_common. simpl Datatypes.length.
  assert (Hp : parse_args c 2 ["-type=" ++ T; "-sep=false"] [] = PFlags [("type", T); ("sep", "false")] []) by (destruct c; reflexivity).
  rewrite Hp. simpl flag_val. rewrite Hne1, Hne2. simpl. do 2 eexists. split; [reflexivity|]. simpl. split; [reflexivity | exact Hs].
Qed.

(* ------------------------------------------------ end to end, over argv *)

(* without `map -to` the front end is [run] on the parsed flags *)
Lemma shoot_cli_run : forall o c args p fl vals, parse_common c args = POk fl vals ->
  flag_val "to" vals "" = "" -> shoot_cli o c args p = COut (run o c fl p).
Proof.
  intros o c args p fl vals Hp Ht. unfold shoot_cli. rewrite Hp, Ht. simpl. rewrite andb_false_r. reflexivity.
Qed.

Theorem cli_type_list : forall o c p L,
  perm_oracle o -> wf_pkgb p = true -> L <> [] ->
  (forall T, In T L -> nameable c p T = true) ->
  NoDup (map (fun T => per_type_name c (decl_file p T) T) L) ->
  shoot_cli o c ["-type=" ++ join "," L] p =
  COut (Done (o _ (map (fun T => (per_type_name c (decl_file p T) T, [T])) L))
             (map fst (o _ (map (fun T => (per_type_name c (decl_file p T) T, [T])) L)))).
Proof.
  intros o c p L Ho Hwf Hne Hall Hnd.
  assert (Hid : forall T, In T L -> is_ident T = true).
  { intros T HT. apply (nameable_ident c p T (wf_pkgb_wf p Hwf)). apply Hall. exact HT. }
  rewrite (shoot_cli_run o c _ p _ _ (parse_type_list c L Hne Hid) eq_refl). f_equal.
  apply (type_list_exact o c (flags_of c ["-type=" ++ join "," L] L true "" true) p); try assumption; reflexivity.
Qed.

Theorem cli_bad_name : forall o c p L T,
  perm_oracle o -> wf_pkgb p = true -> (forall T', In T' L -> is_ident T' = true) ->
  In T L -> nameable c p T = false ->
  exists d, shoot_cli o c ["-type=" ++ join "," L] p = COut (Failed d).
Proof.
  intros o c p L T Ho Hwf Hid HT Hn.
  assert (Hne : L <> []) by (intros C; subst; contradiction).
  rewrite (shoot_cli_run o c _ p _ _ (parse_type_list c L Hne Hid) eq_refl).
  destruct (bad_name_fails o c (flags_of c ["-type=" ++ join "," L] L true "" true) p T Ho Hwf eq_refl HT Hn) as [d Hd].
  exists d. rewrite Hd. reflexivity.
Qed.

Theorem cli_file : forall o c p f,
  perm_oracle o -> wf_pkgb p = true -> In f (p_files p) -> ends_with ".go" (f_name f) = true ->
  let sel := map ts_name (filter (listable c p) (top_specs f)) in
  shoot_cli o c ["-file=" ++ f_name f] p =
  COut (match sel with
        | [] => Done [] []
        | _ => Done [(trim_go (f_name f) ++ "." ++ shootcmd c ++ ".go", sel)]
                    [trim_go (f_name f) ++ "." ++ shootcmd c ++ ".go"]
        end).
Proof.
  intros o c p f Ho Hwf Hf Hgo sel.
  assert (Hne : f_name f <> "").
  { intros C. pose proof (wf_visible p (wf_pkgb_wf p Hwf) f Hf) as V. rewrite C in V. discriminate. }
  rewrite (shoot_cli_run o c _ p _ _ (parse_file_arg c (f_name f) Hne) eq_refl). f_equal.
  apply (file_mode_exact o c (flags_of c ["-file=" ++ f_name f] [] false (f_name f) false) p f); try assumption; reflexivity.
Qed.

Theorem cli_star : forall o c p g,
  perm_oracle o -> wf_pkgb p = true ->
  find (file_has_cmdline ("shoot " ++ sub_name c ++ " -type=*")) (p_files p) = Some g ->
  let sel := map ts_name (filter (listable c p) (pkg_specs p)) in
  shoot_cli o c ["-type=*"] p =
  COut (match sel with
        | [] => Done [] []
        | _ => Done [(trim_go (f_name g) ++ "." ++ shootcmd c ++ ".go", sel)]
                    [trim_go (f_name g) ++ "." ++ shootcmd c ++ ".go"]
        end).
Proof.
  intros o c p g Ho Hwf Hg sel.
  rewrite (shoot_cli_run o c _ p _ _ (parse_star c) eq_refl). f_equal.
  set (fl := flags_of c ["-type=*"] ["*"] false "" false).
  assert (Haio : all_in_one_file fl p = f_name g).
  { unfold all_in_one_file.
    replace ((fl_file fl =? "") && mem "*" (fl_types fl)) with true by reflexivity.
    replace (fl_cmdline fl) with ("shoot " ++ sub_name c ++ " -type=*") by reflexivity.
    rewrite Hg. reflexivity. }
  rewrite <- Haio. apply (star_mode_exact o c fl p); try assumption; try reflexivity.
  rewrite Haio. intros C. pose proof (find_some _ _ Hg) as [Hin _].
  pose proof (wf_visible p (wf_pkgb_wf p Hwf) g Hin) as V. rewrite C in V. discriminate.
Qed.

(* `-type=A,B` where two names map to one output file (Order, ORDER): a diagnostic, no file *)
Theorem cli_name_clash : forall o c p L,
  perm_oracle o -> wf_pkgb p = true -> L <> [] -> (forall T, In T L -> is_ident T = true) ->
  ~ NoDup (map (fun T => per_type_name c (decl_file p T) T) L) ->
  exists d, shoot_cli o c ["-type=" ++ join "," L] p = COut (Failed d).
Proof.
  intros o c p L Ho Hwf Hne Hid Hnd.
  rewrite (shoot_cli_run o c _ p _ _ (parse_type_list c L Hne Hid) eq_refl).
  destruct (name_clash_fails o c (flags_of c ["-type=" ++ join "," L] L true "" true) p Ho Hwf eq_refl eq_refl eq_refl Hnd) as [d Hd].
  exists d. rewrite Hd. reflexivity.
Qed.

(* `-file=x_test.go` (or any existing .go file that is not a file of the package): nothing is generated *)
Theorem cli_other_file : forall o c p F,
  perm_oracle o -> wf_pkgb p = true ->
  In F (p_others p) -> ~ In F (map f_name (p_files p)) -> ends_with ".go" F = true ->
  shoot_cli o c ["-file=" ++ F] p = COut (Done [] []).
Proof.
  intros o c p F Ho Hwf Hin Hnot Hgo.
  assert (Hne : F <> "") by (intros C; subst; discriminate).
  rewrite (shoot_cli_run o c _ p _ _ (parse_file_arg c F Hne) eq_refl). f_equal.
  apply (other_file_generates_nothing o c (flags_of c ["-file=" ++ F] [] false F false) p); try assumption; reflexivity.
Qed.
