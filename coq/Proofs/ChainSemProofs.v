From Coq Require Import List ZArith Bool Lia.
From Shoot Require Import Model.Retry Model.RetryStack Model.ChainSem Model.RestRuntime.
From Shoot Require Import Proofs.RetryStackProofs Proofs.RestRuntimeProofs.
Import ListNotations.

Section Chain.
Variable T : Type.
Variable logmw : T -> T.

Lemma build_loop_sem_firstn (mws : list (T -> T)) : forall k t,
  k <= List.length mws ->
  build_loop_sem T mws k t = compose_sem T (firstn k mws) t.
Proof.
  induction k as [|i IH]; intros t Hk; [reflexivity|].
  cbn [build_loop_sem]. rewrite IH by lia.
  rewrite (firstn_succ_nth mws i (fun x => x)) by lia.
  unfold compose_sem. rewrite fold_right_app. reflexivity.
Qed.

Lemma build_sem_compose (mws : list (T -> T)) (logging : bool) (base : T) :
  build_sem T logmw mws logging base =
  if logging then logmw (compose_sem T mws base) else compose_sem T mws base.
Proof.
  unfold build_sem. rewrite build_loop_sem_firstn by lia. rewrite firstn_all. reflexivity.
Qed.
End Chain.

(* the trace-level chain of Model/RestRuntime.v is this loop at T = list event *)
Lemma build_loop_is_sem (mws : list mw) : forall k t,
  build_loop mws k t = build_loop_sem rt mws k t.
Proof. induction k as [|i IH]; intros t; [reflexivity|]. cbn [build_loop build_loop_sem]. apply IH. Qed.

Lemma build_is_sem (mws : list mw) (logging : bool) (base : rt) :
  build mws logging base = build_sem rt log_mw mws logging base.
Proof. unfold build, build_sem. rewrite build_loop_is_sem. reflexivity. Qed.

(* ---- chains of retries ---- *)
Lemma log_tr_bounded next k : bounded next k -> bounded (log_tr next) k.
Proof. intros Hb c. rewrite log_tr_spec. cbn [snd]. apply Hb. Qed.

Lemma compose_retries_bounded (ns : list Z) (base : tr) (k : nat) :
  bounded base k -> bounded (compose_sem tr (map retry_tr ns) base) (budget ns * k).
Proof.
  intros Hb. induction ns as [|n ns IH].
  - cbn. intros c. specialize (Hb c). lia.
  - cbn [map compose_sem fold_right budget].
    pose proof (retry_tr_bounded n _ _ IH) as H. intros c. specialize (H c).
    fold (compose_sem tr (map retry_tr ns) base) in H.
    rewrite Nat.mul_assoc in H. exact H.
Qed.

Lemma retry_chain_bounded (ns : list Z) (logging : bool) (base : tr) (k : nat) :
  bounded base k -> bounded (retry_chain ns logging base) (budget ns * k).
Proof.
  intros Hb. unfold retry_chain. intros c. rewrite build_sem_compose.
  destruct logging.
  - apply log_tr_bounded. apply compose_retries_bounded. exact Hb.
  - apply compose_retries_bounded. exact Hb.
Qed.

Lemma retry_chain_two (n m : Z) (logging : bool) (base : tr) :
  retry_chain [n; m] logging base =
  if logging then log_tr (retry_tr n (retry_tr m base)) else retry_tr n (retry_tr m base).
Proof. unfold retry_chain. rewrite build_sem_compose. reflexivity. Qed.
