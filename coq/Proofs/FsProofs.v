(* Proofs about Model/Fs.v (C17). *)
From Coq Require Import String Ascii List Bool Arith Lia Permutation.
From Shoot Require Import Model.Fs.
Import ListNotations.
Local Open Scope string_scope.

(* ------------------------------------------------------------------ lists *)
Definition prefix_of {A} (p l : list A) : Prop := exists r, l = (p ++ r)%list.

Lemma prefix_of_nil {A} (l : list A) : prefix_of [] l.
Proof. exists l. reflexivity. Qed.

Lemma prefix_of_refl {A} (l : list A) : prefix_of l l.
Proof. exists []. now rewrite app_nil_r. Qed.

Lemma prefix_of_firstn {A} k (l : list A) : prefix_of (firstn k l) l.
Proof. exists (skipn k l). now rewrite firstn_skipn. Qed.

Lemma prefix_of_In {A} (p l : list A) x : prefix_of p l -> In x p -> In x l.
Proof. intros [r ->] H. apply in_or_app. now left. Qed.

Lemma prefix_of_app {A} (p a b : list A) :
  prefix_of p (a ++ b)%list ->
  prefix_of p a \/ exists q, p = (a ++ q)%list /\ prefix_of q b.
Proof.
  revert p. induction a as [|x a IH]; intros p [r Hr].
  - right. exists p. split; [reflexivity|]. exists r. exact Hr.
  - destruct p as [|y p].
    + left. apply prefix_of_nil.
    + cbn in Hr. injection Hr as <- Hr.
      destruct (IH p) as [[r' Hl]|[q [-> Hq]]].
      * exists r. exact Hr.
      * left. exists r'. cbn. now rewrite Hl.
      * right. exists q. split; [reflexivity|exact Hq].
Qed.

Lemma prefix_of_app_l {A} (p a b : list A) : prefix_of p a -> prefix_of p (a ++ b)%list.
Proof. intros [r ->]. exists (r ++ b)%list. now rewrite app_assoc. Qed.

Lemma prefix_of_app_r {A} (q a b : list A) : prefix_of q b -> prefix_of (a ++ q)%list (a ++ b)%list.
Proof. intros [r ->]. exists r. now rewrite app_assoc. Qed.

(* ---------------------------------------------------------------- strings *)
Lemma ascii_eqb_refl a : Ascii.eqb a a = true.
Proof. apply Ascii.eqb_refl. Qed.

Lemma sprefix_app p r : sprefix p (p ++ r) = true.
Proof. induction p as [|a p IH]; cbn; [reflexivity|]. now rewrite ascii_eqb_refl, IH. Qed.

Lemma sprefix_spec p s : sprefix p s = true -> exists r, s = p ++ r.
Proof.
  revert s. induction p as [|a p IH]; intros s H.
  - exists s. reflexivity.
  - destruct s as [|b s]; cbn in H; [discriminate|].
    apply andb_true_iff in H as [Hab H]. apply Ascii.eqb_eq in Hab as ->.
    destruct (IH s H) as [r ->]. exists r. reflexivity.
Qed.

Lemma sdrop_app p r : sdrop (String.length p) (p ++ r) = r.
Proof. induction p as [|a p IH]; cbn; auto. Qed.

Lemma sapp_assoc (a b c : string) : (a ++ b) ++ c = a ++ (b ++ c).
Proof. induction a as [|x a IH]; cbn; [reflexivity|]. now rewrite IH. Qed.

Lemma sapp_nil_r (a : string) : a ++ "" = a.
Proof. induction a as [|x a IH]; cbn; [reflexivity|]. now rewrite IH. Qed.

Lemma after_sub_app pat a b : after_sub pat (a ++ pat ++ b) <> None.
Proof.
  induction a as [|x a IH].
  - cbn [append]. destruct (pat ++ b) eqn:E; cbn [after_sub]; rewrite <- ?E, sprefix_app; discriminate.
  - cbn [append after_sub]. destruct (sprefix pat (String x (a ++ pat ++ b))); [discriminate|exact IH].
Qed.

Lemma after_sub_spec pat s r : after_sub pat s = Some r -> exists a, s = a ++ pat ++ r.
Proof.
  revert r. induction s as [|x s IH]; intros r H.
  - cbn in H. destruct (sprefix pat "") eqn:E; [|discriminate].
    injection H as <-. destruct (sprefix_spec _ _ E) as [q Hq]. exists "". cbn.
    rewrite Hq at 1. f_equal. destruct pat; cbn in *; [now rewrite Hq|discriminate].
  - cbn [after_sub] in H. destruct (sprefix pat (String x s)) eqn:E.
    + injection H as <-. destruct (sprefix_spec _ _ E) as [q Hq]. exists "". cbn [append].
      rewrite Hq at 1. f_equal. rewrite Hq. now rewrite sdrop_app.
    + destruct (IH r H) as [a ->]. exists (String x a). reflexivity.
Qed.

Lemma contains_app pat a b : contains pat (a ++ pat ++ b) = true.
Proof. unfold contains. destruct (after_sub pat (a ++ pat ++ b)) eqn:E; [reflexivity|]. now apply after_sub_app in E. Qed.

Lemma srev_acc_app s acc : srev_acc s acc = srev_acc s "" ++ acc.
Proof.
  revert acc. induction s as [|c s IH]; intros acc; cbn; [reflexivity|].
  rewrite (IH (String c acc)), (IH (String c "")). now rewrite sapp_assoc.
Qed.

Lemma srev_cons c s : srev (String c s) = srev s ++ String c "".
Proof. unfold srev. cbn. now rewrite srev_acc_app. Qed.

Lemma srev_app a b : srev (a ++ b) = srev b ++ srev a.
Proof.
  induction a as [|c a IH]; cbn [append].
  - unfold srev at 3. cbn. now rewrite sapp_nil_r.
  - rewrite !srev_cons, IH. now rewrite sapp_assoc.
Qed.

Lemma srev_involutive s : srev (srev s) = s.
Proof.
  induction s as [|c s IH]; [reflexivity|].
  rewrite srev_cons, srev_app, IH. reflexivity.
Qed.

(* a name built as  X ++ mid ++ Y ++ ".go"  matches the pattern *)
Lemma glob_shape cmd X Y : glob cmd (X ++ glob_mid cmd ++ Y ++ ".go") = true.
Proof.
  unfold glob.
  assert (E : srev (X ++ glob_mid cmd ++ Y ++ ".go") = "og." ++ srev (X ++ glob_mid cmd ++ Y)).
  { replace (X ++ glob_mid cmd ++ Y ++ ".go") with ((X ++ glob_mid cmd ++ Y) ++ ".go")
      by now rewrite !sapp_assoc.
    now rewrite srev_app. }
  rewrite E. change 3 with (String.length "og."). rewrite sprefix_app, sdrop_app, srev_involutive.
  now rewrite contains_app.
Qed.

Lemma glob_sound cmd n : glob cmd n = true -> exists X Y, n = X ++ glob_mid cmd ++ Y ++ ".go".
Proof.
  unfold glob. intros H. apply andb_true_iff in H as [H1 H2].
  destruct (sprefix_spec _ _ H1) as [r Hr].
  rewrite Hr in H2. change 3 with (String.length "og.") in H2. rewrite sdrop_app in H2.
  unfold contains in H2. destruct (after_sub (glob_mid cmd) (srev r)) as [y|] eqn:E; [|discriminate].
  destruct (after_sub_spec _ _ _ E) as [a Ha].
  exists a, y.
  assert (Hn : n = srev r ++ ".go").
  { rewrite <- (srev_involutive n), Hr, srev_app. reflexivity. }
  rewrite Hn, Ha. now rewrite !sapp_assoc.
Qed.

Lemma file_name_glob cmd gofile T : glob cmd (file_name cmd gofile T) = true.
Proof.
  unfold file_name. destruct T as [|c T].
  - replace (trim_go gofile ++ ".shoot" ++ cmd ++ ".go")
      with (trim_go gofile ++ glob_mid cmd ++ "" ++ ".go").
    + apply glob_shape.
    + unfold glob_mid. now rewrite !sapp_assoc.
  - set (L := lower (if is_exported (String c T) then String c T else "_" ++ String c T)).
    replace (trim_go gofile ++ ".shoot" ++ cmd ++ "." ++ L ++ ".go")
      with (trim_go gofile ++ glob_mid cmd ++ ("." ++ L) ++ ".go").
    + apply glob_shape.
    + unfold glob_mid. now rewrite !sapp_assoc.
Qed.

(* temporary names never match the pattern (they end in a digit) *)
Definition is_digit (c : ascii) : bool := let n := nat_of_ascii c in Nat.leb 48 n && Nat.leb n 57.

Lemma srev_digits r : all_digits r = true -> r <> "" -> exists d t, srev r = String d t /\ is_digit d = true.
Proof.
  induction r as [|c r IH]; intros H Hne; [congruence|].
  cbn in H. apply andb_true_iff in H as [Hc Hr].
  destruct r as [|c' r'].
  - exists c, "". split; [reflexivity|exact Hc].
  - destruct (IH Hr) as [d [t [E Hd]]]; [discriminate|].
    exists d, (t ++ String c ""). split; [|exact Hd].
    rewrite srev_cons, E. reflexivity.
Qed.

Lemma tmp_name_not_glob cmd f r : all_digits r = true -> r <> "" -> glob cmd (tmp_name f r) = false.
Proof.
  intros H Hne. unfold glob, tmp_name.
  replace ("." ++ f ++ "_" ++ r) with (("." ++ f ++ "_") ++ r) by now rewrite !sapp_assoc.
  rewrite srev_app. destruct (srev_digits r H Hne) as [d [t [E Hd]]]. rewrite E.
  cbn [append sprefix].
  destruct (Ascii.eqb "o" d) eqn:Eo; [|reflexivity].
  apply Ascii.eqb_eq in Eo. subst d. discriminate.
Qed.

Lemma tmp_name_not_output cmd f r g : all_digits r = true -> r <> "" -> glob cmd g = true -> tmp_name f r <> g.
Proof. intros H Hne Hg E. rewrite <- E, tmp_name_not_glob in Hg by assumption. discriminate. Qed.

(* what the header tests mean *)
Lemma is_gen_prefix cmd l : is_gen cmd l = true -> exists r, l = gen_prefix cmd ++ r.
Proof. unfold is_gen. intros H. apply andb_true_iff in H as [H _]. now apply sprefix_spec. Qed.

(* --------------------------------------------------------- association lists *)
Lemma lookup_remove_eq n d : lookup n (remove_name n d) = None.
Proof.
  induction d as [|[m i] d IH]; cbn; [reflexivity|].
  destruct (String.eqb n m) eqn:E; [exact IH|]. cbn. now rewrite E.
Qed.

Lemma lookup_remove_neq n m d : n <> m -> lookup n (remove_name m d) = lookup n d.
Proof.
  intros Hne. induction d as [|[k i] d IH]; cbn; [reflexivity|].
  destruct (String.eqb m k) eqn:E.
  - apply String.eqb_eq in E. subst k.
    destruct (String.eqb n m) eqn:E2; [apply String.eqb_eq in E2; congruence|exact IH].
  - cbn. now rewrite IH.
Qed.

Lemma lookup_bind_eq n i d : lookup n (bind n i d) = Some i.
Proof. unfold bind. cbn. now rewrite String.eqb_refl. Qed.

Lemma lookup_bind_neq n m i d : n <> m -> lookup n (bind m i d) = lookup n d.
Proof.
  intros Hne. unfold bind. cbn.
  destruct (String.eqb n m) eqn:E; [apply String.eqb_eq in E; congruence|].
  now apply lookup_remove_neq.
Qed.

Lemma lookup_In n d : lookup n d <> None <-> In n (map fst d).
Proof.
  induction d as [|[m i] d IH]; cbn.
  - split; [congruence|tauto].
  - destruct (String.eqb n m) eqn:E.
    + apply String.eqb_eq in E. subst. split; [auto|discriminate].
    + split.
      * intros H. right. now apply IH.
      * intros [H|H]; [subst; rewrite String.eqb_refl in E; discriminate|now apply IH].
Qed.

#[local] Arguments bind : simpl never.

(* ------------------------------------------------------------- single steps *)
Definition touch (o : op) : list name :=
  match o with
  | CreateTemp _ t => [t]
  | Rename a b => [a; b]
  | Unlink n => [n]
  | OpenTrunc _ n => [n]
  | _ => []
  end.

Definition safe (o : op) : bool :=
  match o with OpenTrunc _ _ | Other _ => false | _ => true end.

Lemma step_untouched s o n : ~ In n (touch o) -> lookup n (dir (step s o)) = lookup n (dir s).
Proof.
  intros Hn. unfold step. destruct (negb (ok s o)); [reflexivity|].
  destruct o as [h t|h b|h|a b|m|m|h m|w]; cbn [touch] in Hn; cbn.
  - apply lookup_bind_neq. intros ->. apply Hn. now left.
  - destruct (fds s h); reflexivity.
  - reflexivity.
  - destruct (lookup a (dir s)) as [i|]; [|reflexivity].
    destruct (String.eqb a b); [reflexivity|]. cbn.
    rewrite lookup_bind_neq by (intros ->; apply Hn; cbn; tauto).
    apply lookup_remove_neq. intros ->. apply Hn. cbn. tauto.
  - apply lookup_remove_neq. intros ->. apply Hn. now left.
  - reflexivity.
  - destruct (lookup m (dir s)); cbn; [reflexivity|].
    apply lookup_bind_neq. intros ->. apply Hn. now left.
  - reflexivity.
Qed.

Lemma exec_untouched ops : forall s n,
  (forall o, In o ops -> ~ In n (touch o)) -> lookup n (dir (exec s ops)) = lookup n (dir s).
Proof.
  induction ops as [|o ops IH]; intros s n H; cbn; [reflexivity|].
  rewrite IH by (intros o' Ho'; apply H; now right).
  apply step_untouched. apply H. now left.
Qed.

Lemma exec_app s a b : exec s (a ++ b) = exec (exec s a) b.
Proof. revert s. induction a as [|o a IH]; intros s; cbn; auto. Qed.

Lemma all_ok_app a : forall s b, all_ok s (a ++ b) = all_ok s a && all_ok (exec s a) b.
Proof.
  induction a as [|o a IH]; intros s b; cbn; [reflexivity|].
  rewrite IH. now rewrite andb_assoc.
Qed.

(* an inode that exists and is not open *)
Definition closed (s : fs) (i : inode) : Prop := i < next s /\ forall h, fds s h <> Some i.

Lemma step_closed s o i : safe o = true -> closed s i ->
  closed (step s o) i /\ data (step s o) i = data s i.
Proof.
  intros Hs [Hlt Hfd]. unfold step. destruct (negb (ok s o)) eqn:Hok; [repeat split; auto|].
  apply negb_false_iff in Hok.
  destruct o as [h t|h b|h|a b|m|m|h m|w]; cbn [safe] in Hs; try discriminate; cbn.
  - repeat split; cbn.
    + lia.
    + intros k. unfold upd_fd. destruct (Nat.eqb k h); [|apply Hfd].
      intros E. injection E as E. lia.
    + unfold upd_data. destruct (Nat.eqb i (next s)) eqn:E; [apply Nat.eqb_eq in E; lia|reflexivity].
  - destruct (fds s h) as [j|] eqn:Ej; [|repeat split; auto]. cbn.
    repeat split; auto.
    unfold upd_data. destruct (Nat.eqb i j) eqn:E; [|reflexivity].
    apply Nat.eqb_eq in E. subst j. exfalso. now apply (Hfd h).
  - repeat split; auto. cbn. intros k. unfold upd_fd. destruct (Nat.eqb k h); [discriminate|apply Hfd].
  - destruct (lookup a (dir s)); [|repeat split; auto].
    destruct (String.eqb a b); repeat split; auto.
  - repeat split; auto.
  - repeat split; auto.
Qed.

Lemma exec_closed ops : forall s i, forallb safe ops = true -> closed s i ->
  closed (exec s ops) i /\ data (exec s ops) i = data s i.
Proof.
  induction ops as [|o ops IH]; intros s i Hs Hc; cbn; [auto|].
  cbn in Hs. apply andb_true_iff in Hs as [Ho Hs].
  destruct (step_closed s o i Ho Hc) as [Hc' Hd].
  destruct (IH (step s o) i Hs Hc') as [Hc'' Hd'].
  split; [exact Hc''|congruence].
Qed.

Lemma step_next_mono s o : next s <= next (step s o).
Proof.
  unfold step. destruct (negb (ok s o)); [lia|].
  destruct o as [h t|h b|h|a b|m|m|h m|w]; cbn; try lia.
  - destruct (fds s h); cbn; lia.
  - destruct (lookup a (dir s)); [|lia]. destruct (String.eqb a b); cbn; lia.
  - destruct (lookup m (dir s)); cbn; lia.
Qed.

Lemma exec_next_mono ops : forall s, next s <= next (exec s ops).
Proof.
  induction ops as [|o ops IH]; intros s; cbn; [lia|].
  specialize (IH (step s o)). pose proof (step_next_mono s o). lia.
Qed.

(* lists made of ReadFirstLine / Unlink only (the Clean phase) *)
Definition ru (o : op) : bool := match o with ReadFirstLine _ | Unlink _ => true | _ => false end.

Lemma ru_safe o : ru o = true -> safe o = true.
Proof. destruct o; cbn; congruence. Qed.

Lemma forallb_ru_safe ops : forallb ru ops = true -> forallb safe ops = true.
Proof.
  induction ops as [|o ops IH]; cbn; [auto|]. intros H. apply andb_true_iff in H as [H1 H2].
  now rewrite (ru_safe _ H1), IH.
Qed.

Lemma step_ru s o : ru o = true ->
  data (step s o) = data s /\ fds (step s o) = fds s /\ next (step s o) = next s /\
  forall n, lookup n (dir (step s o)) = lookup n (dir s) \/ lookup n (dir (step s o)) = None.
Proof.
  intros H. unfold step. destruct (negb (ok s o)); [repeat split; auto|].
  destruct o as [h t|h b|h|a b|m|m|h m|w]; cbn in H; try discriminate; cbn.
  - repeat split; auto. intros n. destruct (String.eqb_spec n m) as [->|Hne].
    + right. apply lookup_remove_eq.
    + left. now apply lookup_remove_neq.
  - repeat split; auto.
Qed.

Lemma exec_ru ops : forall s, forallb ru ops = true ->
  data (exec s ops) = data s /\ fds (exec s ops) = fds s /\ next (exec s ops) = next s /\
  forall n, lookup n (dir (exec s ops)) = lookup n (dir s) \/ lookup n (dir (exec s ops)) = None.
Proof.
  induction ops as [|o ops IH]; intros s H; cbn; [repeat split; auto|].
  cbn in H. apply andb_true_iff in H as [Ho H].
  destruct (step_ru s o Ho) as (Hd & Hf & Hn & Hl).
  destruct (IH (step s o) H) as (Hd' & Hf' & Hn' & Hl').
  repeat split; try congruence.
  intros n. destruct (Hl' n) as [E|E]; [|now right].
  rewrite E. apply Hl.
Qed.

Lemma exec_ru_unlinked ops : forall s n, forallb ru ops = true -> In (Unlink n) ops ->
  lookup n (dir (exec s ops)) = None.
Proof.
  induction ops as [|o ops IH]; intros s n H Hin; [destruct Hin|].
  cbn in H. apply andb_true_iff in H as [Ho H]. cbn.
  destruct Hin as [->|Hin]; [|now apply IH].
  assert (E : lookup n (dir (step s (Unlink n))) = None).
  { unfold step. destruct (negb (ok s (Unlink n))) eqn:Hok.
    - apply negb_true_iff in Hok. cbn in Hok. destruct (lookup n (dir s)); [discriminate|reflexivity].
    - cbn. apply lookup_remove_eq. }
  destruct (exec_ru ops (step s (Unlink n)) H) as (_ & _ & _ & Hl).
  destruct (Hl n) as [E'|E']; congruence.
Qed.

(* ------------------------------------------------------------ one notedownSrc *)
Definition pre_ops (h : nat) (o : output) : list op :=
  (CreateTemp h (o_tmp o) :: map (Write h) (o_chunks o) ++ [Close h])%list.

Lemma note_down_split h o : note_down h o = (pre_ops h o ++ [Rename (o_tmp o) (o_name o)])%list.
Proof. unfold note_down, pre_ops. cbn. f_equal. now rewrite <- app_assoc. Qed.

Lemma pre_ops_touch h o x n : In x (pre_ops h o) -> In n (touch x) -> n = o_tmp o.
Proof.
  unfold pre_ops. intros [<-|Hx] Hn.
  - cbn in Hn. destruct Hn as [Hn|[]]. now symmetry.
  - apply in_app_or in Hx as [Hx|[<-|[]]].
    + apply in_map_iff in Hx as [b [<- _]]. destruct Hn.
    + destruct Hn.
Qed.

Lemma pre_ops_safe h o : forallb safe (pre_ops h o) = true.
Proof.
  unfold pre_ops. cbn. rewrite forallb_app. cbn. rewrite andb_true_r.
  induction (o_chunks o); cbn; auto.
Qed.

Lemma note_down_safe h o : forallb safe (note_down h o) = true.
Proof. rewrite note_down_split, forallb_app, pre_ops_safe. reflexivity. Qed.

Definition nofds (s : fs) : Prop := forall h, fds s h = None.
Definition dir_wf (s : fs) : Prop := forall n i, lookup n (dir s) = Some i -> i < next s.

Lemma concat_cons b l : String.concat "" (b :: l) = b ++ String.concat "" l.
Proof. destruct l; cbn; [now rewrite sapp_nil_r|reflexivity]. Qed.

(* the Write loop *)
Lemma exec_writes h chunks : forall s i, fds s h = Some i ->
  let s' := exec s (map (Write h) chunks) in
  dir s' = dir s /\ fds s' = fds s /\ next s' = next s /\
  data s' i = data s i ++ String.concat "" chunks /\
  (forall j, j <> i -> data s' j = data s j) /\
  all_ok s (map (Write h) chunks) = true.
Proof.
  induction chunks as [|b chunks IH]; intros s i Hfd; cbn [map exec all_ok].
  - repeat split; auto. cbn. now rewrite sapp_nil_r.
  - assert (Hst : step s (Write h b) = mkfs (dir s) (upd_data (data s) i (data s i ++ b)) (fds s) (next s)).
    { unfold step. cbn. now rewrite Hfd. }
    rewrite Hst.
    set (s1 := mkfs (dir s) (upd_data (data s) i (data s i ++ b)) (fds s) (next s)).
    destruct (IH s1 i Hfd) as (Hd & Hf & Hn & Hdat & Hoth & Hok).
    repeat split; auto.
    + rewrite Hdat. cbn [data s1]. unfold upd_data. rewrite Nat.eqb_refl.
      rewrite concat_cons. now rewrite sapp_assoc.
    + intros j Hj. rewrite (Hoth j Hj). cbn [data s1]. unfold upd_data.
      destruct (Nat.eqb j i) eqn:E; [apply Nat.eqb_eq in E; congruence|reflexivity].
    + cbn [ok]. rewrite Hfd. exact Hok.
Qed.

(* the complete block *)
Lemma exec_note_down h o s :
  lookup (o_tmp o) (dir s) = None -> nofds s -> o_tmp o <> o_name o ->
  let s' := exec s (note_down h o) in
  lookup (o_name o) (dir s') = Some (next s) /\
  lookup (o_tmp o) (dir s') = None /\
  (forall n, n <> o_name o -> n <> o_tmp o -> lookup n (dir s') = lookup n (dir s)) /\
  data s' (next s) = new_bytes o /\
  (forall j, j <> next s -> data s' j = data s j) /\
  nofds s' /\ next s' = S (next s) /\
  all_ok s (note_down h o) = true.
Proof.
  intros Htmp Hfd Hne. unfold note_down.
  set (i := next s).
  set (s1 := mkfs (bind (o_tmp o) i (dir s)) (upd_data (data s) i "") (upd_fd (fds s) h (Some i)) (S i)).
  assert (Hst : step s (CreateTemp h (o_tmp o)) = s1).
  { unfold step. cbn. now rewrite Htmp, (Hfd h). }
  assert (Hok1 : ok s (CreateTemp h (o_tmp o)) = true) by (cbn; now rewrite Htmp, (Hfd h)).
  cbn [exec all_ok]. rewrite Hst, Hok1. rewrite exec_app.
  assert (Hfd1 : fds s1 h = Some i) by (cbn; unfold upd_fd; now rewrite Nat.eqb_refl).
  destruct (exec_writes h (o_chunks o) s1 i Hfd1) as (Hd & Hf & Hn & Hdat & Hoth & Hokw).
  set (s2 := exec s1 (map (Write h) (o_chunks o))) in *.
  assert (Hfd2 : fds s2 h = Some i) by now rewrite Hf.
  assert (Hok3 : ok s2 (Close h) = true) by (cbn; now rewrite Hfd2).
  set (s3 := mkfs (dir s2) (data s2) (upd_fd (fds s2) h None) (next s2)).
  assert (Hst3 : step s2 (Close h) = s3) by (unfold step; now rewrite Hok3).
  assert (Hl3 : lookup (o_tmp o) (dir s3) = Some i) by (cbn; rewrite Hd; apply lookup_bind_eq).
  assert (Hok4 : ok s3 (Rename (o_tmp o) (o_name o)) = true) by (cbn [ok]; now rewrite Hl3).
  set (s4 := mkfs (bind (o_name o) i (remove_name (o_tmp o) (dir s3))) (data s3) (fds s3) (next s3)).
  assert (Hst4 : step s3 (Rename (o_tmp o) (o_name o)) = s4).
  { unfold step. rewrite Hok4. cbn [negb]. cbv iota. rewrite Hl3.
    destruct (String.eqb_spec (o_tmp o) (o_name o)); [congruence|reflexivity]. }
  cbn [exec]. rewrite Hst3, Hst4.
  repeat split.
  - cbn. apply lookup_bind_eq.
  - cbn. rewrite lookup_bind_neq by exact Hne. apply lookup_remove_eq.
  - intros n Hn1 Hn2. cbn. rewrite lookup_bind_neq by exact Hn1.
    rewrite lookup_remove_neq by exact Hn2. rewrite Hd. cbn. now apply lookup_bind_neq.
  - cbn. rewrite Hdat. cbn. unfold upd_data. now rewrite Nat.eqb_refl.
  - intros j Hj. cbn. rewrite (Hoth j Hj). cbn. unfold upd_data.
    destruct (Nat.eqb j i) eqn:E; [apply Nat.eqb_eq in E; congruence|reflexivity].
  - intros k. cbn. unfold upd_fd. destruct (Nat.eqb k h) eqn:E; [reflexivity|].
    rewrite Hf. cbn. unfold upd_fd. rewrite E. apply Hfd.
  - cbn. now rewrite Hn.
  - rewrite all_ok_app, Hokw. fold s2. cbn [all_ok]. rewrite Hok3, Hst3, Hok4. reflexivity.
Qed.

(* ------------------------------------------------------------- write phase *)
Definition names (outs : list output) : list name := map o_name outs.
Definition temps (outs : list output) : list name := map o_tmp outs.

(* hypotheses on the oracle choices, relative to the state in which the loop starts *)
Record okouts (s : fs) (outs : list output) : Prop := {
  k_names : NoDup (names outs);                                  (* keys of a Go map *)
  k_temps : NoDup (temps outs);
  k_fresh : forall t, In t (temps outs) -> lookup t (dir s) = None;      (* O_EXCL *)
  k_disj : forall t, In t (temps outs) -> ~ In t (names outs)
}.

Lemma NoDup_app_disj {A} (a b : list A) x : NoDup (a ++ b) -> In x a -> In x b -> False.
Proof.
  induction a as [|y a IH]; intros H Ha Hb; [destruct Ha|].
  cbn in H. inversion H as [|? ? Hn Hnd]; subst.
  destruct Ha as [->|Ha]; [apply Hn; apply in_or_app; now right|now apply IH].
Qed.

Lemma NoDup_app_l {A} (a b : list A) : NoDup (a ++ b) -> NoDup a.
Proof.
  induction a as [|y a IH]; intros H; [constructor|].
  cbn in H. inversion H as [|? ? Hn Hnd]; subst. constructor; [|now apply IH].
  intros Hy. apply Hn. apply in_or_app. now left.
Qed.

Lemma okouts_prefix s done rest : okouts s (done ++ rest) -> okouts s done.
Proof.
  intros [H1 H2 H3 H4]. unfold names, temps in *. rewrite map_app in *.
  split.
  - now apply NoDup_app_l in H1.
  - now apply NoDup_app_l in H2.
  - intros t Ht. apply H3. apply in_or_app. now left.
  - intros t Ht Hn. apply (H4 t); [apply in_or_app; now left|].
    rewrite map_app. apply in_or_app. now left.
Qed.

Lemma write_ops_cons h o r : write_ops h (o :: r) = (note_down h o ++ write_ops h r)%list.
Proof. reflexivity. Qed.

Lemma write_ops_app h a b : write_ops h (a ++ b) = (write_ops h a ++ write_ops h b)%list.
Proof. unfold write_ops. apply flat_map_app. Qed.

Lemma write_ops_safe h outs : forallb safe (write_ops h outs) = true.
Proof.
  induction outs as [|o r IH]; [reflexivity|].
  rewrite write_ops_cons, forallb_app, note_down_safe, IH. reflexivity.
Qed.

Lemma write_phase h outs : forall s, nofds s -> dir_wf s -> okouts s outs ->
  let s' := exec s (write_ops h outs) in
  (forall o, In o outs -> exists i, lookup (o_name o) (dir s') = Some i /\ next s <= i /\ data s' i = new_bytes o) /\
  (forall t, In t (temps outs) -> lookup t (dir s') = None) /\
  (forall n, ~ In n (names outs) -> ~ In n (temps outs) -> lookup n (dir s') = lookup n (dir s)) /\
  nofds s' /\ dir_wf s' /\ next s <= next s' /\
  (forall j, j < next s -> data s' j = data s j) /\
  all_ok s (write_ops h outs) = true.
Proof.
  induction outs as [|o r IH]; intros s Hfd Hwf Hok.
  - cbn. repeat split; auto; intros; try contradiction.
  - destruct Hok as [Hn Ht Hfr Hdj]. cbn [names temps map] in *.
    inversion Hn as [|? ? Hn1 Hn2]; subst. inversion Ht as [|? ? Ht1 Ht2]; subst.
    assert (Hne : o_tmp o <> o_name o).
    { intros E. apply (Hdj (o_tmp o)); [now left|]. rewrite E. now left. }
    destruct (exec_note_down h o s (Hfr _ (or_introl eq_refl)) Hfd Hne)
      as (B1 & B2 & B3 & B4 & B5 & B6 & B7 & B8).
    set (s1 := exec s (note_down h o)) in *.
    assert (Hwf1 : dir_wf s1).
    { intros n i Hl. rewrite B7.
      destruct (String.eqb_spec n (o_name o)) as [->|N1]; [rewrite B1 in Hl; injection Hl as <-; lia|].
      destruct (String.eqb_spec n (o_tmp o)) as [->|N2]; [rewrite B2 in Hl; discriminate|].
      rewrite B3 in Hl by assumption. apply Hwf in Hl. lia. }
    assert (Hok1 : okouts s1 r).
    { split; auto.
      - intros t Hin. rewrite B3.
        + apply Hfr. now right.
        + intros ->. apply (Hdj (o_name o)); [now right|now left].
        + intros ->. now apply Ht1.
      - intros t Hin Hn'. apply (Hdj t); [now right|now right]. }
    destruct (IH s1 B6 Hwf1 Hok1) as (I1 & I2 & I3 & I4 & I5 & I6 & I7 & I8).
    rewrite write_ops_cons, exec_app. fold s1.
    repeat split.
    + intros o' [<-|Hin].
      * exists (next s). repeat split; [|lia|].
        -- rewrite I3; [exact B1|exact Hn1|].
           intros Hin. apply (Hdj (o_name o)); [now right|now left].
        -- rewrite I7 by lia. exact B4.
      * destruct (I1 o' Hin) as (i & L & Hle & D). exists i. repeat split; auto. lia.
    + intros t [<-|Hin].
      * rewrite I3; [exact B2| |exact Ht1].
        intros Hin. apply (Hdj (o_tmp o)); [now left|now right].
      * now apply I2.
    + intros n Hn' Ht'. rewrite I3.
      * apply B3; intros ->; [apply Hn'|apply Ht']; now left.
      * intros Hin. apply Hn'. now right.
      * intros Hin. apply Ht'. now right.
    + exact I4.
    + exact I5.
    + lia.
    + intros j Hj. rewrite I7 by lia. apply B5. lia.
    + rewrite all_ok_app. fold s1. now rewrite B8, I8.
Qed.

Lemma prefix_singleton {A} (q : list A) x : prefix_of q [x] -> q = [] \/ q = [x].
Proof.
  intros [r Hr]. destruct q as [|y q]; [now left|]. right.
  cbn in Hr. injection Hr as <- Hr. destruct q; [reflexivity|discriminate].
Qed.

(* every prefix of the write loop = some complete blocks + a proper part of the next *)
Lemma prefix_write h outs : forall p, prefix_of p (write_ops h outs) ->
  exists done rest q, outs = (done ++ rest)%list /\ p = (write_ops h done ++ q)%list /\
    (q = [] \/ exists o rest', rest = o :: rest' /\ prefix_of q (pre_ops h o)).
Proof.
  induction outs as [|o r IH]; intros p Hp.
  - destruct Hp as [x Hx]. cbn in Hx. destruct p; [|discriminate].
    exists [], [], []. repeat split; auto.
  - rewrite write_ops_cons in Hp. apply prefix_of_app in Hp as [Hp|[q [-> Hq]]].
    + rewrite note_down_split in Hp. apply prefix_of_app in Hp as [Hp|[q [-> Hq]]].
      * exists [], (o :: r), p. repeat split; auto. right. exists o, r. auto.
      * apply prefix_singleton in Hq as [->| ->].
        -- exists [], (o :: r), (pre_ops h o). repeat split; [now rewrite app_nil_r|].
           right. exists o, r. split; [reflexivity|apply prefix_of_refl].
        -- exists [o], r, []. repeat split; auto.
           rewrite app_nil_r. unfold write_ops. cbn [flat_map]. rewrite app_nil_r. now rewrite note_down_split.
    + destruct (IH q Hq) as (done & rest & q' & -> & -> & Hq').
      exists (o :: done), rest, q'. repeat split; auto.
      rewrite write_ops_cons. now rewrite app_assoc.
Qed.

Lemma init_closed s j : nofds s -> j < next s -> closed s j.
Proof. intros Hfd Hj. split; [exact Hj|]. intros h. rewrite Hfd. discriminate. Qed.

(* the state after any prefix of the write loop *)
Lemma write_prefix_state h outs init p :
  nofds init -> dir_wf init -> okouts init outs -> prefix_of p (write_ops h outs) ->
  let s := exec init p in
  (forall o, In o outs ->
     lookup (o_name o) (dir s) = lookup (o_name o) (dir init) \/
     exists i, lookup (o_name o) (dir s) = Some i /\ data s i = new_bytes o /\ next init <= i) /\
  (forall n, ~ In n (names outs) -> ~ In n (temps outs) -> lookup n (dir s) = lookup n (dir init)) /\
  (forall n i, ~ In n (temps outs) -> lookup n (dir s) = Some i -> closed s i).
Proof.
  intros Hfd Hwf Hok Hp.
  destruct (prefix_write h outs p Hp) as (done & rest & q & -> & -> & Hq).
  pose proof (okouts_prefix _ _ _ Hok) as Hokd.
  destruct (write_phase h done init Hfd Hwf Hokd) as (W1 & W2 & W3 & W4 & W5 & W6 & W7 & W8).
  rewrite exec_app. set (sd := exec init (write_ops h done)) in *.
  destruct Hok as [Hn Ht Hfr Hdj]. unfold names, temps in *. rewrite !map_app in *.
  (* facts about q *)
  assert (Hq' : forallb safe q = true /\
                forall n, ~ In n (map o_tmp done ++ map o_tmp rest)%list -> lookup n (dir (exec sd q)) = lookup n (dir sd)).
  { destruct Hq as [->|(o & rest' & -> & Hq)].
    - split; [reflexivity|reflexivity].
    - split.
      + destruct Hq as [x Hx]. pose proof (pre_ops_safe h o) as Hs. rewrite Hx, forallb_app in Hs.
        now apply andb_true_iff in Hs as [Hs _].
      + intros n Hn'. apply exec_untouched. intros x Hx Hin.
        apply (prefix_of_In _ _ _ Hq) in Hx. apply (pre_ops_touch h o x n Hx) in Hin. subst n.
        apply Hn'. apply in_or_app. right. now left. }
  destruct Hq' as [Hsafe Hunt].
  assert (Hcl : forall i, i < next sd -> closed (exec sd q) i /\ data (exec sd q) i = data sd i).
  { intros i Hi. apply exec_closed; [exact Hsafe|]. now apply init_closed. }
  split; [|split].
  - intros o Hin. apply in_app_or in Hin as [Hin|Hin].
    + right. destruct (W1 o Hin) as (i & L & Hle & D). exists i.
      assert (Hnt : ~ In (o_name o) (map o_tmp done ++ map o_tmp rest)%list).
      { intros Hx. apply (Hdj _ Hx). apply in_or_app. left. now apply in_map. }
      rewrite (Hunt _ Hnt). repeat split; auto.
      destruct (Hcl i (W5 _ _ L)) as [_ E]. now rewrite E.
    + left.
      assert (Hnt : ~ In (o_name o) (map o_tmp done ++ map o_tmp rest)%list).
      { intros Hx. apply (Hdj _ Hx). apply in_or_app. right. now apply in_map. }
      rewrite (Hunt _ Hnt). apply W3.
      * intros Hx. apply (NoDup_app_disj _ _ _ Hn Hx). now apply in_map.
      * intros Hx. apply Hnt. apply in_or_app. now left.
  - intros n Hn' Ht'. rewrite (Hunt _ Ht'). apply W3.
    + intros Hx. apply Hn'. apply in_or_app. now left.
    + intros Hx. apply Ht'. apply in_or_app. now left.
  - intros n i Ht' L. rewrite (Hunt _ Ht') in L. now apply Hcl, (W5 n).
Qed.

(* -------------------------------------------------------------- clean phase *)
Lemma insert_sorted_In x y l : In y (insert_sorted x l) <-> y = x \/ In y l.
Proof.
  induction l as [|z l IH]; cbn.
  - split; [intros [H|[]]; auto|intros [H|[]]; auto].
  - destruct (String.leb x z); cbn.
    + split; [intros [H|H]; auto|intros [H|H]; auto].
    + rewrite IH. tauto.
Qed.

Lemma sort_names_In y l : In y (sort_names l) <-> In y l.
Proof.
  induction l as [|x l IH]; cbn; [tauto|]. rewrite insert_sorted_In, IH.
  split; intros [H|H]; auto.
Qed.

Lemma matches_In c s n : In n (matches c s) <-> glob (c_cmd c) n = true /\ lookup n (dir s) <> None.
Proof.
  unfold matches, listing. rewrite sort_names_In, filter_In, lookup_In. tauto.
Qed.

Lemma clean_one_ru c s f : forallb ru (clean_one c s f) = true.
Proof.
  unfold clean_one. destruct (is_own c f); [reflexivity|].
  destruct (visible s f); [|reflexivity].
  destruct (is_aio (first_line b)); [reflexivity|].
  destruct (gen_sel c b); reflexivity.
Qed.

Lemma clean_ops_ru c s : forallb ru (clean_ops c s) = true.
Proof.
  unfold clean_ops. destruct (c_clean c); [|reflexivity].
  induction (matches c s) as [|f l IH]; [reflexivity|].
  cbn. now rewrite forallb_app, clean_one_ru, IH.
Qed.

Lemma clean_one_touch c s f o n : In o (clean_one c s f) -> In n (touch o) -> n = f /\ is_victim c s f = true.
Proof.
  unfold clean_one, is_victim.
  destruct (is_own c f); [intros []|].
  destruct (visible s f) as [b|]; [|intros []].
  destruct (is_aio (first_line b)).
  - intros [<-|[]] [].
  - destruct (gen_sel c b).
    + intros [<-|[<-|[<-|[]]]]; cbn; try tauto. intros [<-|[]]. auto.
    + intros [<-|[<-|[]]] [].
Qed.

Lemma clean_ops_touch c s o n : In o (clean_ops c s) -> In n (touch o) -> In n (victims c s).
Proof.
  unfold clean_ops, victims. destruct (c_clean c); [|intros []].
  intros Ho Hn. apply in_flat_map in Ho as (f & Hf & Ho).
  destruct (clean_one_touch c s f o n Ho Hn) as [-> Hv].
  apply filter_In. auto.
Qed.

Lemma victims_unlinked c s n : In n (victims c s) -> In (Unlink n) (clean_ops c s).
Proof.
  unfold victims, clean_ops. destruct (c_clean c); [|intros []].
  intros H. apply filter_In in H as [Hm Hv]. apply in_flat_map. exists n. split; [exact Hm|].
  unfold clean_one, is_victim in *.
  destruct (is_own c n); [discriminate|].
  destruct (visible s n) as [b|]; [|discriminate].
  cbn in Hv. apply andb_true_iff in Hv as [Ha Hg]. apply negb_true_iff in Ha.
  rewrite Ha, Hg. cbn. tauto.
Qed.

Lemma victims_spec c s n : In n (victims c s) <->
  c_clean c = true /\ glob (c_cmd c) n = true /\ lookup n (dir s) <> None /\ is_victim c s n = true.
Proof.
  unfold victims. destruct (c_clean c).
  - rewrite filter_In, matches_In. tauto.
  - split; [intros []|intros [H _]; discriminate].
Qed.

(* ------------------------------------------------------------- the whole run *)
Record good (c : cfg) (init : fs) (outs : list output) : Prop := {
  g_nofds : nofds init;
  g_wf : dir_wf init;
  g_ok : okouts init outs;
  g_spares : forall o, In o outs -> spares c o = true
}.

Lemma plan_safe c init outs : forallb safe (plan1 c init outs) = true.
Proof. unfold plan1. rewrite forallb_app, write_ops_safe. apply forallb_ru_safe, clean_ops_ru. Qed.

Lemma prefix_safe {c init outs p} : prefix_of p (plan1 c init outs) -> forallb safe p = true.
Proof.
  intros [r Hr]. pose proof (plan_safe c init outs) as H. rewrite Hr, forallb_app in H.
  now apply andb_true_iff in H as [H _].
Qed.

Section Run.
  Variables (c : cfg) (init : fs) (outs : list output).
  Hypothesis G : good c init outs.

  Let W := write_ops (c_fd c) outs.
  Let s1 := exec init W.

  Lemma s1_facts :
    (forall o, In o outs -> exists i, lookup (o_name o) (dir s1) = Some i /\ next init <= i /\ data s1 i = new_bytes o) /\
    (forall t, In t (temps outs) -> lookup t (dir s1) = None) /\
    (forall n, ~ In n (names outs) -> ~ In n (temps outs) -> lookup n (dir s1) = lookup n (dir init)) /\
    nofds s1 /\ dir_wf s1 /\ next init <= next s1 /\
    (forall j, j < next init -> data s1 j = data init j) /\
    all_ok init W = true.
  Proof. destruct G as [H1 H2 H3 _]. exact (write_phase (c_fd c) outs init H1 H2 H3). Qed.

  Lemma output_not_victim o : In o outs -> ~ In (o_name o) (victims c s1).
  Proof.
    intros Hin Hv. apply victims_spec in Hv as (Hc & Hg & _ & Hv).
    destruct s1_facts as (F1 & _). destruct (F1 o Hin) as (i & L & _ & D).
    pose proof (g_spares _ _ _ G o Hin) as Hs. unfold spares in Hs. unfold is_victim, visible in Hv.
    rewrite L, D in Hv. rewrite Hc, Hg in Hs. cbn in Hs.
    apply andb_true_iff in Hv as [Hv1 Hv2]. apply negb_true_iff in Hv1. rewrite Hv1 in Hs. cbn in Hs.
    apply andb_true_iff in Hv2 as [Hv2 Hv3]. apply negb_true_iff in Hv2. rewrite Hv2, Hv3 in Hs.
    discriminate.
  Qed.

  Lemma temp_not_victim t : In t (temps outs) -> ~ In t (victims c s1).
  Proof.
    intros Hin Hv. apply victims_spec in Hv as (_ & _ & Hb & _).
    destruct s1_facts as (_ & F2 & _). now rewrite (F2 t Hin) in Hb.
  Qed.

  (* every prefix of the plan1 is a prefix of the write loop, or the whole write
     loop followed by a prefix of Clean *)
  Lemma plan_prefix p : prefix_of p (plan1 c init outs) ->
    prefix_of p W \/ exists q, p = (W ++ q)%list /\ prefix_of q (clean_ops c s1).
  Proof. unfold plan1. apply prefix_of_app. Qed.

  Lemma clean_prefix_facts q : prefix_of q (clean_ops c s1) ->
    forallb ru q = true /\
    (forall n, ~ In n (victims c s1) -> lookup n (dir (exec s1 q)) = lookup n (dir s1)).
  Proof.
    intros Hq. split.
    - destruct Hq as [r Hr]. pose proof (clean_ops_ru c s1) as H. rewrite Hr, forallb_app in H.
      now apply andb_true_iff in H as [H _].
    - intros n Hn. apply exec_untouched. intros o Ho Hin. apply Hn.
      apply (clean_ops_touch c s1 o n); [exact (prefix_of_In _ _ _ Hq Ho)|exact Hin].
  Qed.

  (* the general description of the state after any prefix *)
  Lemma prefix_state p : prefix_of p (plan1 c init outs) ->
    let s := exec init p in
    (forall o, In o outs ->
       lookup (o_name o) (dir s) = lookup (o_name o) (dir init) \/
       exists i, lookup (o_name o) (dir s) = Some i /\ data s i = new_bytes o /\ next init <= i) /\
    (forall n, ~ In n (names outs) -> ~ In n (temps outs) -> ~ In n (victims c s1) ->
       lookup n (dir s) = lookup n (dir init)) /\
    (forall n, In n (victims c s1) -> lookup n (dir s) = lookup n (dir init) \/ lookup n (dir s) = None) /\
    (forall n i, ~ In n (temps outs) -> lookup n (dir s) = Some i -> closed s i) /\
    (forall j, j < next init -> data s j = data init j).
  Proof.
    intros Hp. cbn zeta.
    assert (HD : forall j, j < next init -> data (exec init p) j = data init j).
    { intros j Hj. apply exec_closed; [exact (prefix_safe Hp)|]. apply init_closed; [apply G|exact Hj]. }
    destruct (plan_prefix p Hp) as [Hw|(q & -> & Hq)].
    - pose proof G as [H1 H2 H3 _].
      destruct (write_prefix_state (c_fd c) outs init p H1 H2 H3 Hw) as (A & B & C).
      split; [exact A|]. split; [intros n Hn Ht _; now apply B|]. split; [|split; [exact C|exact HD]].
      intros n Hv. left.
      assert (Hnn : ~ In n (names outs)).
      { intros Hx. apply in_map_iff in Hx as (o & <- & Ho). now apply (output_not_victim o Ho). }
      assert (Hnt : ~ In n (temps outs)) by (intros Hx; now apply (temp_not_victim n Hx)).
      now apply B.
    - rewrite exec_app. fold W. fold s1.
      destruct s1_facts as (F1 & F2 & F3 & F4 & F5 & F6 & F7 & F8).
      destruct (clean_prefix_facts q Hq) as [Hru Hunt].
      destruct (exec_ru q s1 Hru) as (Ed & Ef & En & El).
      split; [|split; [|split; [|split]]].
      + intros o Hin. right. destruct (F1 o Hin) as (i & L & Hle & D). exists i.
        rewrite (Hunt _ (output_not_victim o Hin)), Ed. auto.
      + intros n Hn Ht Hv. rewrite (Hunt _ Hv). now apply F3.
      + intros n Hv. destruct (El n) as [E|E]; [|now right]. left. rewrite E.
        apply F3.
        * intros Hx. apply in_map_iff in Hx as (o & <- & Ho). now apply (output_not_victim o Ho).
        * intros Hx. now apply (temp_not_victim n Hx).
      + intros n i Ht L. destruct (El n) as [E|E]; [|congruence]. rewrite E in L.
        split; [rewrite En; now apply (F5 n)|]. intros h. rewrite Ef, F4. discriminate.
      + intros j Hj. specialize (HD j Hj). now rewrite exec_app in HD.
  Qed.

  (* ---- the theorems ---- *)
  Lemma visible_eq s n : lookup n (dir s) = lookup n (dir init) ->
    (forall j, j < next init -> data s j = data init j) -> visible s n = visible init n.
  Proof.
    intros L D. unfold visible. rewrite L. destruct (lookup n (dir init)) as [i|] eqn:E; [|reflexivity].
    f_equal. apply D. exact (g_wf _ _ _ G n i E).
  Qed.

  Theorem atomic p o : prefix_of p (plan1 c init outs) -> In o outs ->
    visible (exec init p) (o_name o) = visible init (o_name o) \/
    visible (exec init p) (o_name o) = Some (new_bytes o).
  Proof.
    intros Hp Hin. destruct (prefix_state p Hp) as (A & _ & _ & _ & D).
    destruct (A o Hin) as [L|(i & L & Dn & _)].
    - left. now apply visible_eq.
    - right. unfold visible. now rewrite L, Dn.
  Qed.

  Theorem frame p n : prefix_of p (plan1 c init outs) ->
    ~ In n (names outs) -> ~ In n (temps outs) -> ~ In n (victims c s1) ->
    lookup n (dir (exec init p)) = lookup n (dir init) /\ visible (exec init p) n = visible init n.
  Proof.
    intros Hp H1 H2 H3. destruct (prefix_state p Hp) as (_ & B & _ & _ & D).
    split; [now apply B|]. apply visible_eq; [now apply B|exact D].
  Qed.

  Theorem victim_old_or_gone p n : prefix_of p (plan1 c init outs) -> In n (victims c s1) ->
    visible (exec init p) n = visible init n \/ visible (exec init p) n = None.
  Proof.
    intros Hp Hv. destruct (prefix_state p Hp) as (_ & _ & V & _ & D).
    destruct (V n Hv) as [L|L].
    - left. now apply visible_eq.
    - right. unfold visible. now rewrite L.
  Qed.

  Theorem old_inodes_keep_bytes p j : prefix_of p (plan1 c init outs) -> j < next init ->
    data (exec init p) j = data init j.
  Proof. intros Hp. now apply prefix_state. Qed.

  (* a hard link: another name of the inode an old output had *)
  Theorem hard_link_keeps_old p o l i : prefix_of p (plan1 c init outs) -> In o outs ->
    lookup (o_name o) (dir init) = Some i -> lookup l (dir init) = Some i ->
    ~ In l (names outs) -> ~ In l (temps outs) -> ~ In l (victims c s1) ->
    visible (exec init p) l = visible init (o_name o).
  Proof.
    intros Hp Hin Lo Ll H1 H2 H3. destruct (frame p l Hp H1 H2 H3) as [_ V]. rewrite V.
    unfold visible. now rewrite Lo, Ll.
  Qed.

  (* what a reader has opened stays what it was *)
  Theorem reader_stability p r n i : prefix_of (p ++ r)%list (plan1 c init outs) ->
    ~ In n (temps outs) -> lookup n (dir (exec init p)) = Some i ->
    data (exec init (p ++ r)) i = data (exec init p) i.
  Proof.
    intros Hpr Ht L.
    assert (Hp : prefix_of p (plan1 c init outs)).
    { destruct Hpr as [x Hx]. exists (r ++ x)%list. now rewrite app_assoc. }
    destruct (prefix_state p Hp) as (_ & _ & _ & C & _).
    rewrite exec_app. apply exec_closed; [|exact (C n i Ht L)].
    pose proof (prefix_safe Hpr) as Hs. rewrite forallb_app in Hs. now apply andb_true_iff in Hs as [_ Hs].
  Qed.

  (* the state after the complete run *)
  Theorem final_state :
    let s := exec init (plan1 c init outs) in
    (forall o, In o outs -> visible s (o_name o) = Some (new_bytes o)) /\
    (forall t, In t (temps outs) -> lookup t (dir s) = None) /\
    (forall n, In n (victims c s1) -> lookup n (dir s) = None) /\
    (forall n, ~ In n (names outs) -> ~ In n (temps outs) -> ~ In n (victims c s1) ->
       lookup n (dir s) = lookup n (dir init) /\ visible s n = visible init n) /\
    nofds s.
  Proof.
    cbn zeta. unfold plan1. fold W. rewrite exec_app. fold s1.
    destruct s1_facts as (F1 & F2 & F3 & F4 & F5 & F6 & F7 & F8).
    destruct (clean_prefix_facts _ (prefix_of_refl (clean_ops c s1))) as [Hru Hunt].
    destruct (exec_ru _ s1 Hru) as (Ed & Ef & En & El).
    repeat split.
    - intros o Hin. destruct (F1 o Hin) as (i & L & _ & D). unfold visible.
      rewrite (Hunt _ (output_not_victim o Hin)), L, Ed, D. reflexivity.
    - intros t Hin. rewrite (Hunt _ (temp_not_victim t Hin)). now apply F2.
    - intros n Hv. apply exec_ru_unlinked; [exact Hru|now apply victims_unlinked].
    - rewrite (Hunt _ H1). now apply F3.
    - pose proof (frame (plan1 c init outs) n (prefix_of_refl _) H H0 H1) as [_ V].
      unfold plan1 in V. fold W in V. rewrite exec_app in V. exact V.
    - intros h. rewrite Ef. apply F4.
  Qed.

  (* no name appears that is not an output (or, before the end, a temporary) *)
  Theorem new_names_are_outputs_or_temps p n : prefix_of p (plan1 c init outs) ->
    lookup n (dir (exec init p)) <> None -> lookup n (dir init) = None ->
    In n (names outs) \/ In n (temps outs).
  Proof.
    intros Hp Hb Hi.
    destruct (in_dec String.string_dec n (names outs)) as [|H1]; [now left|].
    destruct (in_dec String.string_dec n (temps outs)) as [|H2]; [now right|].
    destruct (prefix_state p Hp) as (_ & B & V & _ & _).
    destruct (in_dec String.string_dec n (victims c s1)) as [Hv|H3].
    - destruct (V n Hv) as [E|E]; congruence.
    - rewrite (B n H1 H2 H3) in Hb. congruence.
  Qed.

  (* who is a victim, in terms of the directory before the run *)
  Theorem victims_char n : ~ In n (names outs) ->
    (In n (victims c s1) <-> victim_spec c init n = true).
  Proof.
    intros H1. destruct s1_facts as (F1 & F2 & F3 & F4 & F5 & F6 & F7 & F8).
    destruct (in_dec String.string_dec n (temps outs)) as [Ht|H2].
    - split.
      + intros Hv. exfalso. now apply (temp_not_victim n Ht).
      + intros Hs. exfalso. unfold victim_spec, visible in Hs.
        rewrite (k_fresh _ _ (g_ok _ _ _ G) n Ht) in Hs. rewrite !andb_false_r in Hs. discriminate.
    - assert (EV : visible s1 n = visible init n).
      { apply visible_eq; [now apply F3|exact F7]. }
      rewrite victims_spec. unfold victim_spec, is_victim. rewrite EV, (F3 n H1 H2).
      split.
      + intros (Hc & Hg & Hb & Hv). rewrite Hc, Hg. cbn.
        apply andb_true_iff in Hv as [Hv1 Hv2]. now rewrite Hv1, Hv2.
      + intros Hs. apply andb_true_iff in Hs as [Hs Hv2]. apply andb_true_iff in Hs as [Hs Hv1].
        apply andb_true_iff in Hs as [Hc Hg]. repeat split; auto.
        * unfold visible in Hv2. destruct (lookup n (dir init)); [discriminate|discriminate Hv2].
        * now rewrite Hv1, Hv2.
  Qed.

  Theorem plan_all_ok_writes : all_ok init W = true.
  Proof. apply s1_facts. Qed.
End Run.

(* --------------------------------------------------- consequences, restated *)
(* a file that Clean's description does not select and that is not an output
   name keeps its name, inode and bytes at every instant *)
Theorem not_selected_untouched c init outs p n :
  good c init outs -> prefix_of p (plan1 c init outs) ->
  ~ In n (names outs) -> lookup n (dir init) <> None -> victim_spec c init n = false ->
  lookup n (dir (exec init p)) = lookup n (dir init) /\ visible (exec init p) n = visible init n.
Proof.
  intros G Hp H1 Hb Hs. apply (frame c init outs G p n Hp H1).
  - intros Ht. apply Hb. exact (k_fresh _ _ (g_ok _ _ _ G) n Ht).
  - intros Hv. apply (victims_char c init outs G n H1) in Hv. congruence.
Qed.

(* never a hand-written file: a file whose first line is not the header of the
   same subcommand is not selected *)
Lemma hand_written_not_selected c init n b :
  visible init n = Some b -> is_gen (c_cmd c) (first_line b) = false -> victim_spec c init n = false.
Proof. intros V H. unfold victim_spec, gen_sel. rewrite V, H. cbn. now rewrite !andb_false_r. Qed.

Lemma aio_not_selected c init n b :
  visible init n = Some b -> is_aio (first_line b) = true -> victim_spec c init n = false.
Proof. intros V H. unfold victim_spec. rewrite V, H. cbn. now rewrite !andb_false_r. Qed.

Lemma other_name_not_selected c init n : glob (c_cmd c) n = false -> victim_spec c init n = false.
Proof. intros H. unfold victim_spec. rewrite H. now rewrite andb_false_r. Qed.

Lemma no_clean_not_selected c init n : c_clean c = false -> victim_spec c init n = false.
Proof. intros H. unfold victim_spec. now rewrite H. Qed.

(* what being selected means *)
Lemma victim_spec_sound c init n : victim_spec c init n = true ->
  c_clean c = true /\ glob (c_cmd c) n = true /\
  exists b, visible init n = Some b /\ is_aio (first_line b) = false /\
            exists r, first_line b = gen_prefix (c_cmd c) ++ r.
Proof.
  unfold victim_spec. intros H.
  apply andb_true_iff in H as [H Hv]. apply andb_true_iff in H as [H _]. apply andb_true_iff in H as [Hc Hg].
  repeat split; auto. destruct (visible init n) as [b|]; [|discriminate]. exists b.
  apply andb_true_iff in Hv as [Ha Hgen]. apply negb_true_iff in Ha.
  repeat split; auto. apply is_gen_prefix. unfold gen_sel in Hgen. now apply andb_true_iff in Hgen as [Hgen _].
Qed.

(* the guard [spares] holds for the all-in-one output whenever Clean's own-file test can
   succeed: Dir is "." or the comparison is on base names (the current code, c_fixed) *)
Lemma own_spares c o : (c_dirdot c || c_fixed c) = true -> o_name o = c_genfile c -> spares c o = true.
Proof.
  intros H E. unfold spares, is_own. rewrite H, E, String.eqb_refl. cbn. now rewrite !orb_true_r.
Qed.

(* ------------------------------- real temp names satisfy the freshness guards *)
Lemma all_digits_app a b : all_digits (a ++ b) = all_digits a && all_digits b.
Proof. induction a as [|x a IH]; cbn; [reflexivity|]. rewrite IH. now rewrite andb_assoc. Qed.

Lemma all_digits_srev r : all_digits r = true -> all_digits (srev r) = true.
Proof.
  induction r as [|x r IH]; intros H; [reflexivity|].
  cbn in H. apply andb_true_iff in H as [Hx Hr].
  rewrite srev_cons, all_digits_app, (IH Hr). cbn. now rewrite Hx.
Qed.

Lemma digits_split a : forall b x y, all_digits a = true -> all_digits b = true ->
  a ++ "_" ++ x = b ++ "_" ++ y -> a = b /\ x = y.
Proof.
  induction a as [|c a IH]; intros b x y Ha Hb E.
  - destruct b as [|d b]; cbn in E.
    + injection E as E. auto.
    + injection E as E1 E2. subst d. cbn in Hb. discriminate.
  - destruct b as [|d b]; cbn in E.
    + injection E as E1 E2. subst c. cbn in Ha. discriminate.
    + injection E as E1 E2. subst d. cbn in Ha, Hb.
      apply andb_true_iff in Ha as [_ Ha]. apply andb_true_iff in Hb as [_ Hb].
      destruct (IH b x y Ha Hb E2) as [-> ->]. auto.
Qed.

Lemma srev_inj a b : srev a = srev b -> a = b.
Proof. intros E. rewrite <- (srev_involutive a), <- (srev_involutive b). now rewrite E. Qed.

Lemma tmp_name_inj f r f' r' : all_digits r = true -> all_digits r' = true ->
  tmp_name f r = tmp_name f' r' -> f = f' /\ r = r'.
Proof.
  unfold tmp_name. intros Hr Hr' E. cbn [append] in E. injection E as E.
  apply (f_equal srev) in E. rewrite !srev_app, !srev_cons, !sapp_assoc in E.
  destruct (digits_split _ _ _ _ (all_digits_srev _ Hr) (all_digits_srev _ Hr') E) as [E1 E2].
  split; now apply srev_inj.
Qed.

(* outputs named by the pattern, temp names of the shape CreateTemp produces *)
Definition shaped (cmd : string) (o : output) : Prop :=
  glob cmd (o_name o) = true /\
  exists r, o_tmp o = tmp_name (o_name o) r /\ all_digits r = true /\ r <> "".

Lemma shaped_okouts cmd init outs :
  NoDup (names outs) -> (forall o, In o outs -> shaped cmd o) ->
  (forall t, In t (temps outs) -> lookup t (dir init) = None) ->
  okouts init outs.
Proof.
  intros Hn Hs Hf. split; auto.
  - unfold temps, names in *. induction outs as [|o r IH]; [constructor|].
    cbn in *. inversion Hn as [|? ? Hn1 Hn2]; subst. constructor.
    + intros Hin. apply in_map_iff in Hin as (o' & E & Ho').
      destruct (Hs o (or_introl eq_refl)) as (_ & d & Ed & Hd & _).
      destruct (Hs o' (or_intror Ho')) as (_ & d' & Ed' & Hd' & _).
      rewrite Ed, Ed' in E. destruct (tmp_name_inj _ _ _ _ Hd' Hd E) as [E1 _].
      apply Hn1. rewrite <- E1. now apply in_map.
    + apply IH; auto.
  - intros t Ht Hin. unfold temps, names in *.
    apply in_map_iff in Ht as (o & <- & Ho). apply in_map_iff in Hin as (o' & E & Ho').
    destruct (Hs o Ho) as (_ & d & Ed & Hd & Hne). destruct (Hs o' Ho') as (Hg & _).
    rewrite Ed in E. symmetry in E. now apply (tmp_name_not_output cmd _ _ _ Hd Hne Hg) in E.
Qed.

(* ----------------------------------------------- the directory keys stay unique *)
Definition keys_nodup (d : list (name * inode)) : Prop := NoDup (map fst d).

Lemma remove_name_keys n d m : In m (map fst (remove_name n d)) -> In m (map fst d) /\ m <> n.
Proof.
  induction d as [|[k i] d IH]; cbn; [tauto|].
  destruct (String.eqb_spec n k) as [->|Hne].
  - intros H. destruct (IH H). auto.
  - cbn. intros [<-|H]; [auto|]. destruct (IH H). auto.
Qed.

Lemma remove_name_nodup n d : keys_nodup d -> keys_nodup (remove_name n d).
Proof.
  unfold keys_nodup. induction d as [|[k i] d IH]; cbn; [auto|]. intros H.
  inversion H as [|? ? H1 H2]; subst.
  destruct (String.eqb n k); [now apply IH|]. cbn. constructor; [|now apply IH].
  intros Hin. apply remove_name_keys in Hin as [Hin _]. contradiction.
Qed.

Lemma bind_nodup n i d : keys_nodup d -> keys_nodup (bind n i d).
Proof.
  intros H. unfold keys_nodup, bind. cbn. constructor; [|now apply remove_name_nodup].
  intros Hin. apply remove_name_keys in Hin as [_ Hne]. congruence.
Qed.

Lemma step_keys s o : keys_nodup (dir s) -> keys_nodup (dir (step s o)).
Proof.
  intros H. unfold step. destruct (negb (ok s o)); [exact H|].
  destruct o as [h t|h b|h|a b|m|m|h m|w]; cbn; auto.
  - now apply bind_nodup.
  - destruct (fds s h); exact H.
  - destruct (lookup a (dir s)); [|exact H]. destruct (String.eqb a b); [exact H|]. cbn.
    now apply bind_nodup, remove_name_nodup.
  - now apply remove_name_nodup.
  - destruct (lookup m (dir s)); cbn; [exact H|now apply bind_nodup].
Qed.

Lemma exec_keys ops : forall s, keys_nodup (dir s) -> keys_nodup (dir (exec s ops)).
Proof. induction ops as [|o ops IH]; intros s H; cbn; [exact H|]. now apply IH, step_keys. Qed.

Lemma insert_sorted_perm x l : Permutation (insert_sorted x l) (x :: l).
Proof.
  induction l as [|y l IH]; cbn; [reflexivity|].
  destruct (String.leb x y); [reflexivity|].
  rewrite IH. apply perm_swap.
Qed.

Lemma sort_names_perm l : Permutation (sort_names l) l.
Proof. induction l as [|x l IH]; cbn; [reflexivity|]. rewrite insert_sorted_perm. now constructor. Qed.

Lemma NoDup_filter {A} (f : A -> bool) l : NoDup l -> NoDup (filter f l).
Proof.
  induction l as [|x l IH]; intros H; cbn; [constructor|].
  inversion H as [|? ? H1 H2]; subst. destruct (f x); [|now apply IH].
  constructor; [|now apply IH]. intros Hin. apply filter_In in Hin as [Hin _]. contradiction.
Qed.

Lemma matches_nodup c s : keys_nodup (dir s) -> NoDup (matches c s).
Proof.
  intros H. unfold matches. apply (Permutation_NoDup (l := filter (glob (c_cmd c)) (listing s))).
  - symmetry. apply sort_names_perm.
  - now apply NoDup_filter.
Qed.

(* Clean never fails: every file it reads or removes is there *)
Lemma clean_loop_ok c s0 : forall l s, NoDup l ->
  (forall f, In f l -> lookup f (dir s) <> None) ->
  (forall f, In f l -> visible s f = visible s0 f) ->
  data s = data s0 ->
  all_ok s (flat_map (clean_one c s0) l) = true.
Proof.
  induction l as [|f l IH]; intros s Hnd Hb Hv Hd; [reflexivity|].
  inversion Hnd as [|? ? Hn1 Hn2]; subst.
  cbn [flat_map]. rewrite all_ok_app.
  assert (Hf : lookup f (dir s) <> None) by (apply Hb; now left).
  assert (Hone : all_ok s (clean_one c s0 f) = true /\
                 forallb ru (clean_one c s0 f) = true /\
                 forall o n, In o (clean_one c s0 f) -> In n (touch o) -> n = f).
  { split; [|split; [apply clean_one_ru|]].
    - unfold clean_one. destruct (is_own c f); [reflexivity|].
      destruct (visible s0 f); [|reflexivity].
      assert (Hr : ok s (ReadFirstLine f) = true) by (cbn; destruct (lookup f (dir s)); congruence).
      assert (Hs : step s (ReadFirstLine f) = s) by (unfold step; now rewrite Hr).
      destruct (is_aio (first_line b)); [cbn [all_ok]; now rewrite Hr|].
      destruct (gen_sel c b); cbn [all_ok]; rewrite Hr, Hs, Hr, ?Hs; [|reflexivity].
      cbn. destruct (lookup f (dir s)); [reflexivity|congruence].
    - intros o n Ho Hn. now destruct (clean_one_touch c s0 f o n Ho Hn). }
  destruct Hone as (H1 & H2 & H3). rewrite H1. cbn.
  destruct (exec_ru _ s H2) as (Ed & _ & _ & _).
  apply IH; auto.
  - intros g Hg. rewrite exec_untouched; [apply Hb; now right|].
    intros o Ho Hin. apply (H3 o g Ho) in Hin. subst g. contradiction.
  - intros g Hg. unfold visible. rewrite Ed. rewrite exec_untouched.
    + apply Hv. now right.
    + intros o Ho Hin. apply (H3 o g Ho) in Hin. subst g. contradiction.
  - congruence.
Qed.

Theorem plan_all_ok c init outs : good c init outs -> keys_nodup (dir init) ->
  all_ok init (plan1 c init outs) = true.
Proof.
  intros G Hk. unfold plan1. rewrite all_ok_app, (plan_all_ok_writes c init outs G). cbn.
  set (s1 := exec init (write_ops (c_fd c) outs)).
  unfold clean_ops. destruct (c_clean c); [|reflexivity].
  apply clean_loop_ok; auto.
  - apply matches_nodup. now apply exec_keys.
  - intros f Hf. now apply matches_In in Hf.
Qed.

(* -------------------------------------- directory states given as file lists *)
Lemma lookup_mk n i files :
  lookup n (fold_right (fun f d => bind (fst (fst f)) (snd (fst f)) d) [] files) = Some i ->
  In i (map (fun f : name * inode * bytes => snd (fst f)) files).
Proof.
  induction files as [|f r IH]; cbn [fold_right map]; [discriminate|].
  destruct (String.eqb_spec n (fst (fst f))) as [->|Hne].
  - rewrite lookup_bind_eq. intros E. injection E as <-. now left.
  - rewrite lookup_bind_neq by exact Hne. intros H. right. now apply IH.
Qed.

Lemma max_ge i (files : list (name * inode * bytes)) :
  In i (map (fun f => snd (fst f)) files) ->
  i <= fold_right (fun f m => Nat.max (snd (fst f)) m) 0 files.
Proof.
  induction files as [|f r IH]; cbn [fold_right map In]; [tauto|]. intros [<-|H]; [apply Nat.le_max_l|].
  etransitivity; [exact (IH H)|apply Nat.le_max_r].
Qed.

Theorem mk_init_wf files :
  nofds (mk_init files) /\ dir_wf (mk_init files) /\ keys_nodup (dir (mk_init files)).
Proof.
  split; [|split].
  - intros h. reflexivity.
  - intros n i H. unfold mk_init in *. cbn [dir next] in *. apply lookup_mk, max_ge in H.
    apply Nat.lt_succ_r. exact H.
  - cbn. induction files as [|f r IH]; cbn; [constructor|]. now apply bind_nodup.
Qed.

(* crash points: prefixes are exactly the [firstn k] *)
Lemma prefix_is_firstn {A} (p l : list A) : prefix_of p l -> p = firstn (length p) l.
Proof.
  intros [r ->]. rewrite firstn_app, firstn_all, Nat.sub_diag. cbn. now rewrite app_nil_r.
Qed.

(* ------------------------------------------- output names are path components *)
Lemma noslash_app a b : noslash (a ++ b) = noslash a && noslash b.
Proof. induction a as [|c a IH]; cbn; [reflexivity|]. rewrite IH. now rewrite andb_assoc. Qed.

Lemma to_lower_noslash c : Nat.eqb (nat_of_ascii (to_lower_c c)) 47 = Nat.eqb (nat_of_ascii c) 47.
Proof.
  unfold to_lower_c. destruct (Nat.leb 65 (nat_of_ascii c) && Nat.leb (nat_of_ascii c) 90) eqn:E; [|reflexivity].
  apply andb_true_iff in E as [E1 E2]. apply Nat.leb_le in E1. apply Nat.leb_le in E2.
  rewrite nat_ascii_embedding by lia.
  destruct (Nat.eqb_spec (nat_of_ascii c + 32) 47), (Nat.eqb_spec (nat_of_ascii c) 47); try reflexivity; lia.
Qed.

Lemma lower_noslash s : noslash (lower s) = noslash s.
Proof. induction s as [|c s IH]; cbn; [reflexivity|]. now rewrite to_lower_noslash, IH. Qed.

Lemma trim_go_spec f : f = trim_go f \/ f = trim_go f ++ ".go".
Proof.
  unfold trim_go. destruct (sprefix "og." (srev f)) eqn:E; [|now left]. right.
  destruct (sprefix_spec _ _ E) as [r Hr]. rewrite Hr. change 3 with (String.length "og.").
  rewrite sdrop_app. rewrite <- (srev_involutive f) at 1. rewrite Hr, srev_app. reflexivity.
Qed.

Lemma trim_go_noslash f : noslash f = true -> noslash (trim_go f) = true.
Proof.
  intros H. destruct (trim_go_spec f) as [E|E]; [now rewrite <- E|].
  rewrite E, noslash_app in H. now apply andb_true_iff in H as [H _].
Qed.

Theorem file_name_noslash cmd gofile T :
  noslash cmd = true -> noslash gofile = true -> noslash T = true ->
  noslash (file_name cmd gofile T) = true.
Proof.
  intros Hc Hg HT. unfold file_name. destruct T as [|c T].
  - rewrite !noslash_app, (trim_go_noslash _ Hg), Hc. reflexivity.
  - rewrite !noslash_app, (trim_go_noslash _ Hg), Hc, lower_noslash.
    destruct (is_exported (String c T)); [rewrite HT; reflexivity|].
    rewrite noslash_app, HT. reflexivity.
Qed.

Lemma digits_noslash r : all_digits r = true -> noslash r = true.
Proof.
  induction r as [|c r IH]; [reflexivity|]. cbn [all_digits noslash]. intros H.
  apply andb_true_iff in H as [Hc Hr]. apply andb_true_iff in Hc as [H1 H2].
  apply Nat.leb_le in H1. rewrite (IH Hr), andb_true_r.
  destruct (Nat.eqb_spec (nat_of_ascii c) 47) as [E|E]; [rewrite E in H1; cbn in H1; lia|reflexivity].
Qed.

Theorem tmp_name_noslash f r : noslash f = true -> all_digits r = true -> noslash (tmp_name f r) = true.
Proof.
  intros Hf Hr. unfold tmp_name. rewrite !noslash_app, Hf, (digits_noslash _ Hr). reflexivity.
Qed.

(* --------------------------------------------- the order of the outputs (Go map) *)
Theorem order_independent c init outs outs' :
  Permutation outs outs' -> good c init outs -> good c init outs' ->
  forall n, visible (exec init (plan1 c init outs)) n = visible (exec init (plan1 c init outs')) n.
Proof.
  intros HP G G' n.
  destruct (final_state c init outs G) as (A & B & C & D & _).
  destruct (final_state c init outs' G') as (A' & B' & C' & D' & _).
  destruct (in_dec String.string_dec n (names outs)) as [Hn|Hn].
  - apply in_map_iff in Hn as (o & <- & Ho).
    rewrite (A o Ho), (A' o (Permutation_in _ HP Ho)). reflexivity.
  - assert (Hn' : ~ In n (names outs')).
    { intros H. apply Hn. unfold names in *. apply (Permutation_in n (Permutation_sym (Permutation_map o_name HP)) H). }
    destruct (in_dec String.string_dec n (temps outs)) as [Ht|Ht].
    + assert (Ht' : In n (temps outs')) by (unfold temps in *; apply (Permutation_in n (Permutation_map o_tmp HP) Ht)).
      unfold visible. now rewrite (B n Ht), (B' n Ht').
    + assert (Ht' : ~ In n (temps outs')).
      { intros H. apply Ht. unfold temps in *. apply (Permutation_in n (Permutation_sym (Permutation_map o_tmp HP)) H). }
      destruct (victim_spec c init n) eqn:V.
      * pose proof (proj2 (victims_char c init outs G n Hn) V) as Hv.
        pose proof (proj2 (victims_char c init outs' G' n Hn') V) as Hv'.
        unfold visible. now rewrite (C n Hv), (C' n Hv').
      * assert (Hv : ~ In n (victims c (exec init (write_ops (c_fd c) outs)))).
        { intros H. apply (victims_char c init outs G n Hn) in H. congruence. }
        assert (Hv' : ~ In n (victims c (exec init (write_ops (c_fd c) outs')))).
        { intros H. apply (victims_char c init outs' G' n Hn') in H. congruence. }
        destruct (D n Hn Ht Hv) as [_ E]. destruct (D' n Hn' Ht' Hv') as [_ E']. congruence.
Qed.

(* ----------------------------------------------------- after a crash: run again *)
(* the process is gone, its descriptors with it; the directory stays as it was *)
Definition reboot (s : fs) : fs := mkfs (dir s) (data s) (fun _ => None) (next s).

Lemma step_dir_wf s o : dir_wf s -> dir_wf (step s o).
Proof.
  intros H. unfold step. destruct (negb (ok s o)); [exact H|].
  destruct o as [h t|h b|h|a b|m|m|h m|w]; cbn; auto.
  - intros n i L. cbn in *. destruct (String.eqb_spec n t) as [->|Hne].
    + rewrite lookup_bind_eq in L. injection L as <-. lia.
    + rewrite lookup_bind_neq in L by exact Hne. apply H in L. lia.
  - destruct (fds s h); exact H.
  - destruct (lookup a (dir s)) as [j|] eqn:E; [|exact H]. destruct (String.eqb a b); [exact H|].
    intros n i L. cbn in *. destruct (String.eqb_spec n b) as [->|Hne].
    + rewrite lookup_bind_eq in L. injection L as <-. exact (H a j E).
    + rewrite lookup_bind_neq in L by exact Hne.
      destruct (String.eqb_spec n a) as [->|Hne2]; [rewrite lookup_remove_eq in L; discriminate|].
      rewrite lookup_remove_neq in L by exact Hne2. exact (H n i L).
  - intros n i L. cbn in *. destruct (String.eqb_spec n m) as [->|Hne]; [rewrite lookup_remove_eq in L; discriminate|].
    rewrite lookup_remove_neq in L by exact Hne. exact (H n i L).
  - destruct (lookup m (dir s)) eqn:E; cbn; [exact H|].
    intros n i L. cbn in *. destruct (String.eqb_spec n m) as [->|Hne].
    + rewrite lookup_bind_eq in L. injection L as <-. lia.
    + rewrite lookup_bind_neq in L by exact Hne. apply H in L. lia.
Qed.

Lemma exec_dir_wf ops : forall s, dir_wf s -> dir_wf (exec s ops).
Proof. induction ops as [|o ops IH]; intros s H; cbn; [exact H|]. now apply IH, step_dir_wf. Qed.

(* the state a killed run leaves behind meets the guards on directory states again,
   so every theorem applies to the next run (whose temporaries O_EXCL makes fresh);
   what the killed run left - a temporary, some outputs new, some victims gone - is
   simply part of that state *)
Theorem crash_state_is_a_state init p :
  dir_wf init -> keys_nodup (dir init) ->
  let s := reboot (exec init p) in
  nofds s /\ dir_wf s /\ keys_nodup (dir s) /\
  (forall n, visible s n = visible (exec init p) n).
Proof.
  intros H K. cbn zeta. split; [intros h; reflexivity|]. split; [|split].
  - exact (exec_dir_wf p init H).
  - exact (exec_keys p init K).
  - reflexivity.
Qed.

(* ------------------------------------------------ the current code meets [spares] *)
(* main writes exactly srcMap; when Clean is active (not Separate) srcMap has the single
   key fileName of the empty type name = genfile.  With the base-name comparison of the
   current code Clean skips it for every Dir. *)
Definition aio_shape (c : cfg) (outs : list output) : Prop :=
  c_clean c = true -> forall o, In o outs -> o_name o = c_genfile c.

Lemma current_code_spares c outs : c_fixed c = true -> aio_shape c outs ->
  forall o, In o outs -> spares c o = true.
Proof.
  intros F A o Ho. destruct (c_clean c) eqn:E.
  - apply own_spares; [rewrite F; apply orb_true_r|]. unfold aio_shape in A. rewrite E in A. exact (A eq_refl o Ho).
  - unfold spares. now rewrite E.
Qed.

Theorem current_code_good c init outs :
  c_fixed c = true -> aio_shape c outs -> nofds init -> dir_wf init -> okouts init outs -> good c init outs.
Proof. intros F A H1 H2 H3. split; auto. now apply current_code_spares. Qed.

(* ------------------------------------- a file is removed only once it is superseded *)
(* if, at any crash point, some file selected by Clean is already gone, then every output
   of the run already shows its complete new content *)
Theorem removed_only_when_superseded c init outs p n o :
  good c init outs -> prefix_of p (plan1 c init outs) ->
  In n (victims c (exec init (write_ops (c_fd c) outs))) -> lookup n (dir (exec init p)) = None ->
  In o outs -> visible (exec init p) (o_name o) = Some (new_bytes o).
Proof.
  intros G Hp Hv Hgone Ho.
  pose proof (proj1 (victims_spec _ _ _) Hv) as (_ & _ & Hb & _).
  destruct (s1_facts c init outs G) as (F1 & F2 & F3 & F4 & F5 & F6 & F7 & F8).
  assert (Hnn : ~ In n (names outs)).
  { intros Hx. apply in_map_iff in Hx as (o' & <- & Ho'). now apply (output_not_victim c init outs G o' Ho'). }
  assert (Hnt : ~ In n (temps outs)) by (intros Hx; now apply (temp_not_victim c init outs G n Hx)).
  destruct (plan_prefix c init outs p Hp) as [Hw|(q & -> & Hq)].
  - (* still in the write loop: the victim is untouched, hence not gone *)
    exfalso. pose proof G as [H1 H2 H3 _].
    destruct (write_prefix_state (c_fd c) outs init p H1 H2 H3 Hw) as (_ & B & _).
    rewrite (B n Hnn Hnt) in Hgone. rewrite (F3 n Hnn Hnt) in Hb. contradiction.
  - rewrite exec_app.
    destruct (clean_prefix_facts c init outs q Hq) as [Hru Hunt].
    destruct (exec_ru q (exec init (write_ops (c_fd c) outs)) Hru) as (Ed & _ & _ & _).
    destruct (F1 o Ho) as (i & L & _ & D).
    unfold visible. rewrite (Hunt _ (output_not_victim c init outs G o Ho)), L, Ed, D. reflexivity.
Qed.

(* --------------------------------------- "superseded", declaratively (issue: the text) *)
(* the repaired Clean (c_supfix) removes only superseded files *)
Theorem repaired_only_superseded c init n : c_supfix c = true -> victim_spec c init n = true ->
  exists b, visible init n = Some b /\ superseded c b = true.
Proof.
  unfold victim_spec, gen_sel. intros F H. apply andb_true_iff in H as [_ H].
  destruct (visible init n) as [b|]; [|discriminate]. exists b. split; [reflexivity|].
  apply andb_true_iff in H as [_ H]. apply andb_true_iff in H as [_ H]. rewrite F in H. exact H.
Qed.

(* the current Clean does so exactly on the directory states in which every file it would select
   is for types of this run - the complement of the input class of finding K_clean_not_superseded *)
Definition all_selected_superseded (c : cfg) (init : fs) : Prop :=
  forall n b, victim_spec c init n = true -> visible init n = Some b -> superseded c b = true.

Theorem only_superseded_partial c init n : all_selected_superseded c init -> victim_spec c init n = true ->
  exists b, visible init n = Some b /\ superseded c b = true.
Proof.
  intros A H. pose proof H as H'. unfold victim_spec in H'. apply andb_true_iff in H' as [_ H'].
  destruct (visible init n) as [b|] eqn:V; [|discriminate]. exists b. split; [reflexivity|].
  apply (A n b H). exact V.
Qed.

(* ------------------------------------------------------- failing system calls *)
Lemma last_temp_In h p t : last_temp h p = Some t -> In (CreateTemp h t) p.
Proof.
  induction p as [|o r IH]; cbn; [discriminate|].
  destruct (last_temp h r) as [t'|] eqn:E.
  - intros H. injection H as <-. right. now apply IH.
  - destruct o as [h' t'| | | | | | |]; try discriminate.
    destruct (Nat.eqb_spec h' h) as [->|]; [|discriminate]. intros H. injection H as <-. now left.
Qed.

Lemma last_temp_app h a b :
  last_temp h (a ++ b) = match last_temp h b with Some t => Some t | None => last_temp h a end.
Proof.
  induction a as [|o a IH]; cbn.
  - destruct (last_temp h b); reflexivity.
  - rewrite IH. destruct (last_temp h b); reflexivity.
Qed.

Lemma last_temp_none h l : (forall o, In o l -> exists b, o = Write h b) -> last_temp h l = None.
Proof.
  induction l as [|o l IH]; intros H; [reflexivity|]. cbn.
  rewrite IH by (intros o' Ho'; apply H; now right).
  destruct (H o (or_introl eq_refl)) as [b ->]. reflexivity.
Qed.

Lemma firstn_S_nth {A} (l : list A) : forall k x, nth_error l k = Some x -> firstn (S k) l = (firstn k l ++ [x])%list.
Proof.
  induction l as [|y l IH]; intros k x H; destruct k; cbn in *; try discriminate.
  - injection H as ->. reflexivity.
  - now rewrite (IH k x H).
Qed.

Lemma last_cases {A} (l : list A) : l = [] \/ exists l' a, l = (l' ++ [a])%list.
Proof.
  induction l as [|x l IH]; [now left|]. right. destruct IH as [->|(l' & a & ->)].
  - exists [], x. reflexivity.
  - exists (x :: l'), a. reflexivity.
Qed.

Lemma write_ops_last h done p x : write_ops h done = (p ++ [x])%list -> is_rename x = true.
Proof.
  destruct (last_cases done) as [->|(d' & o & ->)].
  - cbn. intros E. now apply app_cons_not_nil in E.
  - rewrite write_ops_app. unfold write_ops at 2. cbn [flat_map]. rewrite app_nil_r, note_down_split, app_assoc.
    intros E. apply app_inj_tail in E as [_ <-]. reflexivity.
Qed.

Lemma unlink_gone s n : lookup n (dir (step s (Unlink n))) = None.
Proof.
  unfold step. destruct (negb (ok s (Unlink n))) eqn:Hok.
  - apply negb_true_iff in Hok. cbn in Hok. destruct (lookup n (dir s)); [discriminate|reflexivity].
  - cbn. apply lookup_remove_eq.
Qed.

Lemma plan_createtemp c init outs h t : In (CreateTemp h t) (plan1 c init outs) -> In t (temps outs).
Proof.
  unfold plan1. intros H. apply in_app_or in H as [H|H].
  - unfold write_ops in H. apply in_flat_map in H as (o & Ho & H). unfold note_down in H.
    destruct H as [H|H].
    + injection H as _ <-. now apply in_map.
    + apply in_app_or in H as [H|[H|[H|[]]]]; try discriminate.
      apply in_map_iff in H as (b & H & _). discriminate.
  - pose proof (clean_ops_ru c (exec init (write_ops (c_fd c) outs))) as R.
    rewrite forallb_forall in R. specialize (R _ H). discriminate.
Qed.

Lemma recover_props c init outs k x : nth_error (plan1 c init outs) k = Some x ->
  let cl := recover x (firstn k (plan1 c init outs)) in
  forallb safe cl = true /\ forall o n, In o cl -> In n (touch o) -> In n (temps outs).
Proof.
  intros Hx. cbn zeta. destruct x as [h t|h b|h|a b|m|m|h m|w]; cbn [recover]; try (split; [reflexivity|intros o n []]).
  destruct (last_temp h (firstn k (plan1 c init outs))) as [t|] eqn:E; [|split; [reflexivity|intros o n []]].
  split; [reflexivity|]. intros o n [<-|[<-|[]]]; cbn; [intros []|].
  intros [<-|[]]. apply last_temp_In in E. apply (plan_createtemp c init outs h).
  exact (prefix_of_In _ _ _ (prefix_of_firstn k _) E).
Qed.

Lemma faulted_safe c init outs k : forallb safe (faulted (plan1 c init outs) k) = true.
Proof.
  unfold faulted. destruct (nth_error (plan1 c init outs) k) as [x|] eqn:E; [|apply plan_safe].
  rewrite forallb_app, (prefix_safe (prefix_of_firstn k _)).
  now destruct (recover_props c init outs k x E) as [-> _].
Qed.

Section Faults.
  Variables (c : cfg) (init : fs) (outs : list output).
  Hypothesis G : good c init outs.

  (* what a name other than a temporary shows after the recovery calls is what it showed at the crash point *)
  Lemma vis_after_recover k x n : nth_error (plan1 c init outs) k = Some x -> ~ In n (temps outs) ->
    let p := firstn k (plan1 c init outs) in
    lookup n (dir (exec init (p ++ recover x p))) = lookup n (dir (exec init p)) /\
    visible (exec init (p ++ recover x p)) n = visible (exec init p) n.
  Proof.
    intros Hx Hn. cbn zeta. set (p := firstn k (plan1 c init outs)).
    destruct (recover_props c init outs k x Hx) as [Hs Ht]. fold p in Hs, Ht.
    rewrite exec_app.
    assert (L : lookup n (dir (exec (exec init p) (recover x p))) = lookup n (dir (exec init p))).
    { apply exec_untouched. intros o Ho Hin. apply Hn. exact (Ht o n Ho Hin). }
    split; [exact L|]. unfold visible. rewrite L.
    destruct (lookup n (dir (exec init p))) as [i|] eqn:E; [|reflexivity]. f_equal.
    destruct (prefix_state c init outs G p (prefix_of_firstn k _)) as (_ & _ & _ & C & _).
    apply exec_closed; [exact Hs|exact (C n i Hn E)].
  Qed.

  (* every statement about crash points also holds after a failing call and its recovery *)
  Theorem faulted_invariants k :
    let s := exec init (faulted (plan1 c init outs) k) in
    (forall o, In o outs -> visible s (o_name o) = visible init (o_name o) \/ visible s (o_name o) = Some (new_bytes o)) /\
    (forall n, ~ In n (names outs) -> ~ In n (temps outs) -> ~ In n (victims c (exec init (write_ops (c_fd c) outs))) ->
       lookup n (dir s) = lookup n (dir init) /\ visible s n = visible init n) /\
    (forall n, In n (victims c (exec init (write_ops (c_fd c) outs))) -> visible s n = visible init n \/ visible s n = None) /\
    (forall j, j < next init -> data s j = data init j).
  Proof.
    cbn zeta. split; [|split; [|split]].
    - intros o Ho. unfold faulted. destruct (nth_error (plan1 c init outs) k) as [x|] eqn:E.
      + assert (Hn : ~ In (o_name o) (temps outs)).
        { intros H. apply (k_disj _ _ (g_ok _ _ _ G) _ H). now apply in_map. }
        destruct (vis_after_recover k x (o_name o) E Hn) as [_ ->].
        exact (atomic c init outs G _ o (prefix_of_firstn k _) Ho).
      + exact (atomic c init outs G _ o (prefix_of_refl _) Ho).
    - intros n H1 H2 H3. unfold faulted. destruct (nth_error (plan1 c init outs) k) as [x|] eqn:E.
      + destruct (vis_after_recover k x n E H2) as [-> ->].
        exact (frame c init outs G _ n (prefix_of_firstn k _) H1 H2 H3).
      + exact (frame c init outs G _ n (prefix_of_refl _) H1 H2 H3).
    - intros n Hv. unfold faulted. destruct (nth_error (plan1 c init outs) k) as [x|] eqn:E.
      + assert (Hn : ~ In n (temps outs)) by (intros H; now apply (temp_not_victim c init outs G n H)).
        destruct (vis_after_recover k x n E Hn) as [_ ->].
        exact (victim_old_or_gone c init outs G _ n (prefix_of_firstn k _) Hv).
      + exact (victim_old_or_gone c init outs G _ n (prefix_of_refl _) Hv).
    - intros j Hj. apply exec_closed; [apply faulted_safe|]. apply init_closed; [apply G|exact Hj].
  Qed.

  (* no temporary file is left unless it is the rename that failed *)
  Theorem faulted_no_temp_left k x t :
    nth_error (plan1 c init outs) k = Some x -> can_fail x = true -> is_rename x = false ->
    In t (temps outs) -> lookup t (dir (exec init (faulted (plan1 c init outs) k))) = None.
  Proof.
    intros Hx Hcf Hnr Ht. unfold faulted. rewrite Hx.
    set (p := firstn k (plan1 c init outs)).
    assert (Hpx : prefix_of (p ++ [x]) (plan1 c init outs)).
    { unfold p. rewrite <- (firstn_S_nth _ k x Hx). apply prefix_of_firstn. }
    pose proof G as [G1 G2 G3 _].
    destruct (plan_prefix c init outs _ Hpx) as [Hw|(q & E & Hq)].
    - destruct (prefix_write (c_fd c) outs _ Hw) as (done & rest & q & Eo & E & Hq).
      assert (Hokd : okouts init done) by (rewrite Eo in G3; exact (okouts_prefix _ _ _ G3)).
      destruct (write_phase (c_fd c) done init G1 G2 Hokd) as (W1 & W2 & W3 & W4 & W5 & W6 & W7 & W8).
      set (sd := exec init (write_ops (c_fd c) done)) in *.
      (* in the state after the complete blocks no temporary of the run is bound *)
      assert (Hsd : forall t', In t' (temps outs) -> lookup t' (dir sd) = None).
      { intros t' Ht'. destruct G3 as [Hn Htn Hfr Hdj].
        pose proof Ht' as Hsplit. rewrite Eo in Hsplit. unfold temps in Hsplit. rewrite map_app in Hsplit.
        apply in_app_or in Hsplit as [Hd|Hr]; [now apply W2|].
        rewrite W3.
        - now apply Hfr.
        - intros Hx'. apply (Hdj t' Ht'). rewrite Eo. unfold names in *. rewrite map_app. apply in_or_app. now left.
        - intros Hx'. pose proof Htn as Htn'. rewrite Eo in Htn'. unfold temps in Htn'. rewrite map_app in Htn'.
          exact (NoDup_app_disj _ _ _ Htn' Hx' Hr). }
      destruct (last_cases q) as [->|(q0 & y & ->)].
      + rewrite app_nil_r in E. symmetry in E. apply write_ops_last in E. congruence.
      + destruct Hq as [Hq|(o & rest' & -> & Hq)]; [symmetry in Hq; now apply app_cons_not_nil in Hq|].
        rewrite app_assoc in E. apply app_inj_tail in E as [Ep <-]. fold p in Ep.
        unfold pre_ops in Hq. destruct q0 as [|y0 q1].
        * (* the failing call is CreateTemp: nothing was created *)
          destruct Hq as [r Hr]. cbn in Hr. injection Hr as <- _. cbn [recover]. rewrite app_nil_r in *.
          rewrite Ep. now apply Hsd.
        * destruct Hq as [r Hr]. cbn in Hr. injection Hr as <- Hr.
          assert (Hq1 : prefix_of (q1 ++ [x]) (map (Write (c_fd c)) (o_chunks o) ++ [Close (c_fd c)])) by (exists r; exact Hr).
          (* x is a Write and q1 consists of Writes *)
          assert (Hxw : (exists b, x = Write (c_fd c) b) /\ forall o', In o' q1 -> exists b, o' = Write (c_fd c) b).
          { apply prefix_of_app in Hq1 as [Hq1|(q2 & E2 & Hq2)].
            - assert (A : forall o', In o' (q1 ++ [x]) -> exists b, o' = Write (c_fd c) b).
              { intros o' Ho'. apply (prefix_of_In _ _ _ Hq1) in Ho'. apply in_map_iff in Ho' as (b & <- & _). now exists b. }
              split; [apply A; apply in_or_app; right; now left|intros o' Ho'; apply A; apply in_or_app; now left].
            - apply prefix_singleton in Hq2 as [->| ->].
              + rewrite app_nil_r in E2.
                assert (A : forall o', In o' (q1 ++ [x]) -> exists b, o' = Write (c_fd c) b).
                { intros o' Ho'. rewrite E2 in Ho'. apply in_map_iff in Ho' as (b & <- & _). now exists b. }
                split; [apply A; apply in_or_app; right; now left|intros o' Ho'; apply A; apply in_or_app; now left].
              + apply app_inj_tail in E2 as [_ ->]. discriminate. }
          destruct Hxw as [[b ->] Hws].
          assert (Elt : last_temp (c_fd c) p = Some (o_tmp o)).
          { rewrite Ep, last_temp_app. cbn [last_temp]. rewrite (last_temp_none _ _ Hws), Nat.eqb_refl. reflexivity. }
          cbn [recover]. rewrite Elt, Ep, !exec_app. fold sd.
          destruct (String.eqb_spec t (o_tmp o)) as [->|Hne].
          -- cbn [exec]. apply unlink_gone.
          -- rewrite <- !exec_app. rewrite exec_untouched; [now apply Hsd|].
             intros o' Ho' Hin. apply in_app_or in Ho' as [Ho'|[<-|[<-|[]]]].
             ++ destruct Ho' as [<-|Ho']; [cbn in Hin; destruct Hin as [<-|[]]; congruence|].
                destruct (Hws o' Ho') as [b' ->]. destruct Hin.
             ++ destruct Hin.
             ++ cbn in Hin. destruct Hin as [<-|[]]. congruence.
    - (* the failing call belongs to Clean *)
      destruct (s1_facts c init outs G) as (_ & F2 & _).
      destruct (last_cases q) as [->|(q0 & y & ->)].
      + rewrite app_nil_r in E. symmetry in E. apply write_ops_last in E. congruence.
      + rewrite app_assoc in E. apply app_inj_tail in E as [Ep <-]. fold p in Ep.
        assert (Hq0 : prefix_of q0 (clean_ops c (exec init (write_ops (c_fd c) outs)))).
        { destruct Hq as [r Hr]. exists ([x] ++ r)%list. now rewrite app_assoc. }
        destruct (clean_prefix_facts c init outs q0 Hq0) as [Hru _].
        assert (Hrx : ru x = true).
        { pose proof (clean_ops_ru c (exec init (write_ops (c_fd c) outs))) as R. rewrite forallb_forall in R.
          apply R. apply (prefix_of_In _ _ _ Hq). apply in_or_app. right. now left. }
        assert (Hrec : recover x p = []) by (destruct x; try discriminate; reflexivity).
        rewrite Hrec, app_nil_r, Ep, exec_app.
        destruct (exec_ru q0 (exec init (write_ops (c_fd c) outs)) Hru) as (_ & _ & _ & El).
        destruct (El t) as [El'|El']; [rewrite El'; now apply F2|exact El'].
  Qed.
End Faults.

(* ------------------------------------ the whole run: nothing generated, no cleanup *)
(* [plan c init outs] = [plan1 (reached c outs) init outs]: every statement above transfers *)
Lemma good_reached c init outs : good c init outs -> good (reached c outs) init outs.
Proof.
  intros [H1 H2 H3 H4]. split; auto. intros o Ho.
  destruct outs as [|x l]; [destruct Ho|].
  specialize (H4 o Ho). unfold spares, is_own, gen_sel, superseded in *.
  cbn [reached c_clean c_cmd c_dirdot c_fixed c_supfix c_tags c_covered c_genfile is_nil negb].
  rewrite andb_true_r. exact H4.
Qed.

Lemma plan_nothing_generated c init : plan c init [] = [].
Proof. unfold plan, plan1, clean_ops. cbn. now rewrite andb_false_r. Qed.

Lemma removed_nothing_generated c init : removed c init [] = [].
Proof. unfold removed, victims. cbn. now rewrite andb_false_r. Qed.

Lemma reached_perm c outs outs' : Permutation outs outs' -> reached c outs = reached c outs'.
Proof.
  intros HP. destruct outs as [|x l], outs' as [|y m]; try reflexivity.
  - now apply Permutation_nil_cons in HP.
  - apply Permutation_sym in HP. now apply Permutation_nil_cons in HP.
Qed.

Theorem order_independent_plan c init outs outs' :
  Permutation outs outs' -> good c init outs -> good c init outs' ->
  forall n, visible (exec init (plan c init outs)) n = visible (exec init (plan c init outs')) n.
Proof.
  intros HP G G' n. unfold plan. rewrite <- (reached_perm c outs outs' HP).
  apply order_independent; [exact HP|now apply good_reached|].
  rewrite (reached_perm c outs outs' HP). now apply good_reached.
Qed.
