(* Proofs about Model/Fs.v (C17). *)
From Coq Require Import String Ascii List Bool Arith Lia.
From Shoot Require Import Model.Fs.
Import ListNotations.
Local Open Scope string_scope.

Lemma exec_app s a b : exec s (a ++ b) = exec (exec s a) b.
Proof. revert s. induction a as [|o a IH]; intros s; cbn; auto. Qed.
