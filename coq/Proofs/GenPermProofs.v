(* C08, second sentence: the order of names in -type=A,B changes no file content (for generators that do not read
   generated files; new -getset with embedding is the open finding K_embed_order). *)
From Coq Require Import List ListDec String Ascii Bool Arith Lia Permutation.
From Shoot Require Import Model.Gen Proofs.GenBaseProofs Proofs.GenProofs Proofs.GenSigmaProofs Proofs.GenMapSigmaProofs Proofs.GenSeqProofs.
Import ListNotations.
Local Open Scope string_scope.

(* confirmTypes for an explicit list, in closed form *)
Lemma confirm_fold : forall c o v l ts fm,
  fold_left (fun (a : option (list string * list (string * string))) T =>
               match a with
               | None => None
               | Some (ts0, fm0) =>
                   let gofile := get_go_file o v T in
                   if c_file c =? "" then Some (ts0, upsert T gofile fm0)
                   else if c_file c =? gofile then Some (ts0, fm0) else None
               end) l (Some (ts, fm)) =
  if c_file c =? "" then Some (ts, fold_left (fun fm T => upsert T (get_go_file o v T) fm) l fm)
  else if forallb (fun T => c_file c =? get_go_file o v T) l then Some (ts, fm) else None.
Proof.
  intros c o v. destruct (c_file c =? "") eqn:Ef.
  - induction l as [|T l IH]; intros ts fm; cbn [fold_left]; auto.
  - induction l as [|T l IH]; intros ts fm; cbn [fold_left forallb]; auto.
    destruct (c_file c =? get_go_file o v T) eqn:Eg; cbn [andb]; [apply IH|].
    clear. induction l as [|x l IHl]; cbn; auto.
Qed.

Lemma confirm_specified_spec : forall lt c o v,
  specified c = true ->
  confirm_types lt c o v =
  if c_file c =? "" then Some (c_types c, fold_left (fun fm T => upsert T (get_go_file o v T) fm) (c_types c) [])
  else if forallb (fun T => c_file c =? get_go_file o v T) (c_types c) then Some (c_types c, []) else None.
Proof. intros lt c o v Hs. unfold confirm_types. rewrite Hs. apply confirm_fold. Qed.

Lemma fmap_lookup : forall (g : string -> string) l T fm0,
  alookup T (fold_left (fun fm T => upsert T (g T) fm) l fm0) = if smem T l then Some (g T) else alookup T fm0.
Proof.
  induction l as [|x l IH]; intros T fm0; [reflexivity|].
  cbn [fold_left]. rewrite IH. unfold smem. cbn [existsb].
  destruct (String.eqb_spec T x) as [->|ne]; cbn [orb].
  - destruct (existsb (String.eqb x) l); auto. apply alookup_upsert_same.
  - destruct (existsb (String.eqb T) l); auto. apply alookup_upsert_other. auto.
Qed.

Lemma file_name_fmap_ext : forall c aio fm fm' T, alookup T fm = alookup T fm' -> file_name c aio fm T = file_name c aio fm' T.
Proof. intros. unfold file_name. rewrite H. reflexivity. Qed.

(* fileNameMap as confirmTypes builds it for an explicit -type list *)
Definition spec_fmap (c : cmd) (o : oracle) (v : view) : list (string * string) :=
  if c_file c =? "" then fold_left (fun fm T => upsert T (get_go_file o v T) fm) (c_types c) [] else [].

Definition nb (e : string * afile) : string * (list string * list adecl * list string) := (fst e, body (snd e)).

Lemma listing_nb : forall sm : gfiles, map nb (listing sm) = sort_by_key fst (map nb sm).
Proof.
  intros. unfold listing, sort_by_key.
  apply (isort_map nb (fun a b : string * afile => sleb (fst a) (fst b))
                   (fun a b : string * (list string * list adecl * list string) => sleb (fst a) (fst b))).
  intros a b. reflexivity.
Qed.

Section Perm.
  Context {St Data : Type}.
  Variable mk : cmd -> St -> pview -> string -> mres Data St.
  Variable render : St -> Data -> afile.
  Hypothesis Hmake : forall c st1 st2 v T, same_out render (mk c st1 v T) (mk c st2 v T).
  Variable hw : list hfile.
  Hypothesis Hblind : forall c, blind_at (hand_of hw) (mk c).
  Variable lt : view -> list string.
  Variables c c' : cmd.
  Hypothesis Hspec : specified c = true.
  Hypothesis Hspec' : specified c' = true.
  Hypothesis Hperm : Permutation (c_types c) (c_types c').
  Hypothesis Hfile : c_file c = c_file c'.
  Hypothesis Hsub : c_sub c = c_sub c'.
  Hypothesis Hstar : c_star c = false /\ c_star c' = false.
  Hypothesis Hsim : forall T st v, same_body render render (mk c st v T) (mk c' st v T).
  Variable st0 : St.

  Lemma aio_none : all_in_one_file c (mk_view hw [] []) = "" /\ all_in_one_file c' (mk_view hw [] []) = "".
  Proof. unfold all_in_one_file. destruct Hstar as [-> ->]. rewrite !andb_false_r. auto. Qed.

  Lemma out_name_eq : forall fm fm' T, alookup T fm = alookup T fm' -> out_name hw c fm T = out_name hw c' fm' T.
  Proof.
    intros fm fm' T H. unfold out_name. destruct aio_none as [-> ->]. unfold file_name. rewrite Hfile, Hsub, H. reflexivity.
  Qed.

  (* lookups in the (name, source) list of a type list *)
  Lemma sources_lookup : forall cc fm types l,
    sources (mk cc) render hw cc st0 fm types = Some l ->
    forall T, In T types ->
      match alone (mk cc) hw st0 T with
      | MOk d _ s => In (out_name hw cc fm T, render s d) l
      | MSkip _ => True
      | MFatal => False
      end.
  Proof.
    intros cc fm. induction types as [|x r IH]; intros l H T HT; [destruct HT|].
    cbn [sources] in H. destruct (alone (mk cc) hw st0 x) as [d s st'|st'|] eqn:E; [| |discriminate].
    - destruct (sources (mk cc) render hw cc st0 fm r) as [l'|] eqn:E'; [|discriminate]. injection H as <-.
      destruct HT as [<-|HT].
      + rewrite E. left. reflexivity.
      + specialize (IH l' eq_refl T HT). destruct (alone (mk cc) hw st0 T); auto. right. exact IH.
    - destruct HT as [<-|HT]; [rewrite E; exact I|]. exact (IH l H T HT).
  Qed.

  Lemma sources_in : forall cc fm types l e,
    sources (mk cc) render hw cc st0 fm types = Some l -> In e l ->
    exists T d b s, In T types /\ alone (mk cc) hw st0 T = MOk d b s /\ e = (out_name hw cc fm T, render s d).
  Proof.
    intros cc fm. induction types as [|x r IH]; intros l e H He.
    - cbn in H. injection H as <-. destruct He.
    - cbn [sources] in H. destruct (alone (mk cc) hw st0 x) as [d s st'|st'|] eqn:E; [| |discriminate].
      + destruct (sources (mk cc) render hw cc st0 fm r) as [l'|] eqn:E'; [|discriminate]. injection H as <-.
        destruct He as [<-|He].
        * exists x, d, s, st'. split; [left; auto|]. split; auto.
        * destruct (IH l' e eq_refl He) as [T [d' [b [s' [HT [Ha Hee]]]]]]. exists T, d', b, s'. split; [right; auto|]. auto.
      + destruct (IH l e H He) as [T [d' [b [s' [HT [Ha Hee]]]]]]. exists T, d', b, s'. split; [right; auto|]. auto.
  Qed.

  Lemma sources_none : forall cc fm types,
    sources (mk cc) render hw cc st0 fm types = None <-> exists T, In T types /\ alone (mk cc) hw st0 T = MFatal.
  Proof.
    intros cc fm. induction types as [|x r IH]; cbn [sources].
    - split; [discriminate | intros [T [[] _]]].
    - destruct (alone (mk cc) hw st0 x) as [d s st'|st'|] eqn:E.
      + destruct (sources (mk cc) render hw cc st0 fm r) as [l'|] eqn:E'.
        * split; [discriminate|]. intros [T [[<-|HT] Ha]]; [congruence|].
          destruct IH as [_ IH2]. specialize (IH2 (ex_intro _ T (conj HT Ha))). discriminate.
        * split; auto. intros _. destruct IH as [IH1 _]. destruct (IH1 eq_refl) as [T [HT Ha]].
          exists T. split; [right; auto | auto].
      + rewrite IH. split.
        * intros [T [HT Ha]]. exists T. split; [right; auto | auto].
        * intros [T [[<-|HT] Ha]]; [congruence|]. exists T. split; auto.
      + split; auto. intros _. exists x. split; [left; auto | auto].
  Qed.

  Definition genb (cc : cmd) (T : string) : bool := match alone (mk cc) hw st0 T with MOk _ _ _ => true | _ => false end.

  Lemma sources_keys : forall cc fm types l,
    sources (mk cc) render hw cc st0 fm types = Some l -> keys l = map (out_name hw cc fm) (filter (genb cc) types).
  Proof.
    intros cc fm. induction types as [|x r IH]; intros l H.
    - cbn in H. injection H as <-. reflexivity.
    - cbn [sources] in H. cbn [filter]. unfold genb at 1.
      destruct (alone (mk cc) hw st0 x) as [d s st'|st'|] eqn:E; [| |discriminate].
      + destruct (sources (mk cc) render hw cc st0 fm r) as [l'|] eqn:E'; [|discriminate]. injection H as <-.
        unfold keys in *. cbn [map fst]. rewrite (IH l' eq_refl). reflexivity.
      + apply IH. exact H.
  Qed.

  Lemma sources_keys_nodup : forall cc fm types l,
    NoDup (map (out_name hw cc fm) types) -> sources (mk cc) render hw cc st0 fm types = Some l -> NoDup (keys l).
  Proof.
    intros cc fm. induction types as [|x r IH]; intros l Hn H.
    - cbn in H. injection H as <-. constructor.
    - cbn [sources] in H. cbn [map] in Hn. inversion Hn as [|? ? Hx Hr]; subst.
      destruct (alone (mk cc) hw st0 x) as [d s st'|st'|] eqn:E; [| |discriminate].
      + destruct (sources (mk cc) render hw cc st0 fm r) as [l'|] eqn:E'; [|discriminate]. injection H as <-.
        cbn. constructor; [|apply IH; auto].
        intros Hin. apply in_map_iff in Hin. destruct Hin as [e [He Hin]].
        destruct (sources_in cc fm r l' e E' Hin) as [T [d' [b [s' [HT [Ha ->]]]]]]. cbn in He.
        apply Hx. rewrite <- He. apply in_map. exact HT.
      + apply IH; auto.
  Qed.
End Perm.

(* one direction of the lookup transfer between the two runs *)
Section Transfer.
  Context {St Data : Type}.
  Variable mk : cmd -> St -> pview -> string -> mres Data St.
  Variable render : St -> Data -> afile.
  Variable hw : list hfile.
  Variable st0 : St.

  Lemma lookup_transfer : forall c c' fm fm' L L' l l' k src,
    (forall T, In T L -> In T L') ->
    (forall T, In T L -> out_name hw c fm T = out_name hw c' fm' T) ->
    (forall T, same_body render render (alone (mk c) hw st0 T) (alone (mk c') hw st0 T)) ->
    sources (mk c) render hw c st0 fm L = Some l ->
    sources (mk c') render hw c' st0 fm' L' = Some l' ->
    NoDup (keys l') ->
    In (k, src) l -> exists src', alookup k l' = Some src' /\ body src = body src'.
  Proof.
    intros c c' fm fm' L L' l l' k src Hsub Hname Hsim Hl Hl' Hnd Hin.
    destruct (sources_in mk render hw st0 c fm L l (k, src) Hl Hin) as [T [d [b [s [HT [Ha He]]]]]].
    injection He as -> ->.
    pose proof (sources_lookup mk render hw st0 c' fm' L' l' Hl' T (Hsub T HT)) as Hl2.
    pose proof (Hsim T) as Hs. rewrite Ha in Hs.
    destruct (alone (mk c') hw st0 T) as [d' b' s'|s'|]; cbn in Hs; try contradiction.
    destruct Hs as [_ Hb]. exists (render s' d'). split; [|exact Hb].
    apply alookup_in; auto. rewrite (Hname T HT). exact Hl2.
  Qed.
End Transfer.


(* the strict source map: Some exactly when the file names are pairwise distinct (and new) *)
Lemma fold_strict_ok : forall (l m : gfiles),
  NoDup (keys l) -> (forall k, In k (keys l) -> ~ In k (keys m)) -> fold_strict l m = Some (fold_left ups l m).
Proof.
  induction l as [|[k v] l IH]; intros m Hn Hd; cbn [fold_strict fold_left]; auto.
  inversion Hn as [|? ? Hk Hn']; subst. cbn [fst snd].
  assert (Ea : ahas k m = false).
  { destruct (ahas k m) eqn:E; auto. apply ahas_in in E. exfalso. apply (Hd k); [left; auto | exact E]. }
  rewrite Ea. apply IH; auto.
  intros k' Hk' Hin. apply (upsert_keys_in k v m k') in Hin. destruct Hin as [->|Hin]; [contradiction|].
  apply (Hd k'); [right; auto | exact Hin].
Qed.

Lemma fold_strict_some : forall (l m x : gfiles), fold_strict l m = Some x -> NoDup (keys l).
Proof.
  induction l as [|[k v] l IH]; intros m x H; cbn [fold_strict] in H; [constructor|].
  cbn [fst snd] in H. destruct (ahas k m) eqn:Ea; [discriminate|].
  constructor; [|eapply IH; eauto].
  intros Hin. clear IH.
  assert (G : forall l0 m0 x0, In k (keys l0) -> In k (keys m0) -> fold_strict l0 m0 = Some x0 -> False).
  { induction l0 as [|[k' v'] l0 IHl]; intros m0 x0 Hl Hm Hf; [destruct Hl|].
    cbn [fold_strict fst snd] in Hf. destruct (ahas k' m0) eqn:E'; [discriminate|].
    destruct Hl as [E|Hl].
    - cbn in E. subst k'. apply ahas_in in Hm. congruence.
    - eapply IHl; [exact Hl | | exact Hf]. apply (upsert_keys_in k' v' m0 k). right. exact Hm. }
  eapply G; [exact Hin | | exact H]. apply (upsert_keys_in k v m k). left. reflexivity.
Qed.

Lemma Permutation_filter_ : forall {A} (f : A -> bool) l l', Permutation l l' -> Permutation (filter f l) (filter f l').
Proof.
  intros A f l l' H. induction H; cbn; auto.
  - destruct (f x); auto.
  - destruct (f x), (f y); auto. apply perm_swap.
  - eapply perm_trans; eauto.
Qed.

Lemma same_body_sym : forall {D S} (r : S -> D -> afile) (a b : mres D S), same_body r r a b -> same_body r r b a.
Proof. intros D S r [d1 s1 st1|st1|] [d2 s2 st2|st2|]; cbn; auto. intros [-> H]. auto. Qed.

Section PermMain.
  Context {St Data : Type}.
  Variable mk : cmd -> St -> pview -> string -> mres Data St.
  Variable render : St -> Data -> afile.
  Hypothesis Hmake : forall c st1 st2 v T, same_out render (mk c st1 v T) (mk c st2 v T).
  Variable hw : list hfile.
  Hypothesis Hblind : forall c, blind_at (hand_of hw) (mk c).
  Variable lt : view -> list string.

  (* C08, second sentence *)
  Theorem permutation_changes_no_content : forall c c' o disk st st',
    specified c = true -> specified c' = true ->
    Permutation (c_types c) (c_types c') -> c_file c = c_file c' -> c_sub c = c_sub c' ->
    c_star c = false -> c_star c' = false ->
    (forall T st0 v, same_body render render (mk c st0 v T) (mk c' st0 v T)) ->
    match generate (mk c) render lt c o hw disk st, generate (mk c') render lt c' o hw disk st' with
    | Some sm, Some sm' => map nb (listing sm) = map nb (listing sm')
    | None, None => True
    | _, _ => False
    end.
  Proof.
    intros c c' o disk st st' Hs Hs' Hperm Hfile Hsub Hst Hst' Hsim.
    rewrite (generate_blind (mk c) render (Hmake c) hw (Hblind c) lt c o st disk st).
    rewrite (generate_blind (mk c') render (Hmake c') hw (Hblind c') lt c' o st disk st').
    rewrite (confirm_specified_spec lt c o _ Hs), (confirm_specified_spec lt c' o _ Hs'). rewrite <- Hfile.
    set (g := get_go_file o (mk_view hw disk [])).
    assert (Hin : forall T, In T (c_types c) <-> In T (c_types c')).
    { intros T. split; intros H; [eapply Permutation_in; [exact Hperm | exact H] | eapply Permutation_in; [apply Permutation_sym; exact Hperm | exact H]]. }
    assert (Hall : forallb (fun T => c_file c =? g T) (c_types c) = forallb (fun T => c_file c =? g T) (c_types c')).
    { destruct (forallb (fun T => c_file c =? g T) (c_types c)) eqn:E1; symmetry.
      - rewrite forallb_forall in *. intros T HT. apply E1. apply Hin. auto.
      - destruct (forallb (fun T => c_file c =? g T) (c_types c')) eqn:E2; auto.
        rewrite forallb_forall in E2. assert (E1' : forallb (fun T => c_file c =? g T) (c_types c) = true).
        { apply forallb_forall. intros T HT. apply E2. apply Hin. auto. } congruence. }
    assert (Hsepc : separate c = true) by (unfold separate; rewrite Hs; reflexivity).
    assert (Hsepc' : separate c' = true) by (unfold separate; rewrite Hs'; reflexivity).
    assert (Main : forall fm fm',
               (forall T, alookup T fm = alookup T fm') ->
               match match sources (mk c) render hw c st fm (c_types c) with
                     | Some l => if separate c then fold_strict l [] else
                                   match merge (map snd l) with Some m => Some [(out_name hw c fm "", m)] | None => Some [] end
                     | None => None
                     end,
                     match sources (mk c') render hw c' st fm' (c_types c') with
                     | Some l => if separate c' then fold_strict l [] else
                                   match merge (map snd l) with Some m => Some [(out_name hw c' fm' "", m)] | None => Some [] end
                     | None => None
                     end with
               | Some sm, Some sm' => map nb (listing sm) = map nb (listing sm')
               | None, None => True
               | _, _ => False
               end).
    { intros fm fm' Hfm. rewrite Hsepc, Hsepc'.
      assert (Hsim0 : forall T, same_body render render (alone (mk c) hw st T) (alone (mk c') hw st T))
        by (intros T; apply Hsim).
      assert (Hnm : forall T, out_name hw c fm T = out_name hw c' fm' T).
      { intros T. unfold out_name, all_in_one_file. rewrite Hst, Hst', !andb_false_r. unfold file_name. rewrite Hfile, Hsub, Hfm. reflexivity. }
      destruct (sources (mk c) render hw c st fm (c_types c)) as [l|] eqn:El;
        destruct (sources (mk c') render hw c' st fm' (c_types c')) as [l'|] eqn:El'; auto.
      - (* both analyses succeed *)
        assert (Hk : Permutation (keys l) (keys l')).
        { rewrite (sources_keys mk render hw st c fm _ _ El), (sources_keys mk render hw st c' fm' _ _ El').
          assert (Eg : forall T, genb mk hw st c' T = genb mk hw st c T).
          { intros T. unfold genb. pose proof (Hsim0 T) as H0.
            destruct (alone (mk c) hw st T); destruct (alone (mk c') hw st T); cbn in H0; try contradiction; reflexivity. }
          rewrite (filter_ext _ _ Eg).
          assert (Em : map (out_name hw c' fm') (filter (genb mk hw st c) (c_types c')) =
                       map (out_name hw c fm) (filter (genb mk hw st c) (c_types c')))
            by (apply map_ext; intros T; symmetry; apply Hnm).
          rewrite Em. apply Permutation_map, Permutation_filter_. exact Hperm. }
        destruct (NoDup_dec string_dec (keys l)) as [Nl|Nnl].
        + assert (Nl' : NoDup (keys l')) by (eapply Permutation_NoDup; eauto).
          rewrite (fold_strict_ok l [] Nl), (fold_strict_ok l' [] Nl') by (intros k _ []).
          rewrite !listing_nb. apply sorted_assoc_eq.
          * unfold keys. rewrite map_map. cbn. apply (fold_ups_nodup l []). constructor.
          * unfold keys. rewrite map_map. cbn. apply (fold_ups_nodup l' []). constructor.
          * intros k. unfold nb. rewrite !alookup_map_snd, !alookup_fold_ups by auto. cbn [alookup].
            destruct (alookup k l) as [src|] eqn:Ek.
            -- apply (alookup_in k src l Nl) in Ek.
               destruct (lookup_transfer mk render hw st c c' fm fm' (c_types c) (c_types c') l l' k src
                           (fun T H => proj1 (Hin T) H) (fun T _ => Hnm T) Hsim0 El El' Nl' Ek) as [src' [E' Hb]].
               rewrite E'. cbn. rewrite Hb. reflexivity.
            -- destruct (alookup k l') as [src'|] eqn:Ek'; auto.
               apply (alookup_in k src' l' Nl') in Ek'.
               destruct (lookup_transfer mk render hw st c' c fm' fm (c_types c') (c_types c) l' l k src'
                           (fun T H => proj2 (Hin T) H) (fun T _ => eq_sym (Hnm T))
                           (fun T => same_body_sym render _ _ (Hsim0 T)) El' El Nl Ek') as [src2 [E2 _]].
               congruence.
        + (* two selected types share an output file: both runs refuse *)
          destruct (fold_strict l []) as [x|] eqn:F1; [exfalso; apply Nnl; eapply fold_strict_some; eauto|].
          destruct (fold_strict l' []) as [x'|] eqn:F2; [|exact I].
          exfalso. apply Nnl. eapply Permutation_NoDup; [apply Permutation_sym; exact Hk | eapply fold_strict_some; eauto].
      - (* c generates, c' is fatal *)
        apply (sources_none mk render hw st c' fm' (c_types c')) in El'. destruct El' as [T [HT Ha]].
        pose proof (sources_lookup mk render hw st c fm (c_types c) l El T (proj2 (Hin T) HT)) as Hl.
        pose proof (Hsim0 T) as Hs0. rewrite Ha in Hs0. destruct (alone (mk c) hw st T); cbn in Hs0; contradiction.
      - apply (sources_none mk render hw st c fm (c_types c)) in El. destruct El as [T [HT Ha]].
        pose proof (sources_lookup mk render hw st c' fm' (c_types c') l' El' T (proj1 (Hin T) HT)) as Hl.
        pose proof (Hsim0 T) as Hs0. rewrite Ha in Hs0. destruct (alone (mk c') hw st T); cbn in Hs0; contradiction. }
    destruct (c_file c =? "") eqn:Ef.
    - apply Main. intros T. rewrite !fmap_lookup.
      assert (Esm : smem T (c_types c) = smem T (c_types c')).
      { destruct (smem T (c_types c)) eqn:E1; symmetry.
        - apply smem_in. apply Hin. apply smem_in. exact E1.
        - destruct (smem T (c_types c')) eqn:E2; auto. apply smem_in in E2. apply Hin in E2. apply smem_in in E2. congruence. }
      rewrite Esm. reflexivity.
    - rewrite <- Hall. destruct (forallb (fun T => c_file c =? g T) (c_types c)); [|exact I].
      apply Main. reflexivity.
  Qed.
End PermMain.

(* instances *)
Theorem enum_permutation : forall c c' hw o disk st st',
  specified c = true -> specified c' = true ->
  Permutation (c_types c) (c_types c') -> c_file c = c_file c' -> c_sub c = c_sub c' ->
  c_star c = false -> c_star c' = false -> c_ejson c = c_ejson c' -> c_etext c = c_etext c' ->
  match generate (enum_make c) enum_render (list_types_of CEnum) c o hw disk st,
        generate (enum_make c') enum_render (list_types_of CEnum) c' o hw disk st' with
  | Some sm, Some sm' => map nb (listing sm) = map nb (listing sm')
  | None, None => True
  | _, _ => False
  end.
Proof.
  intros c c' hw o disk st st' Hs Hs' Hp Hf Hsub H1 H2 Hj Ht.
  apply (permutation_changes_no_content enum_make enum_render enum_same_out hw (fun c0 => enum_blind c0 _) (list_types_of CEnum)
           c c' o disk st st' Hs Hs' Hp Hf Hsub H1 H2); auto.
  intros T st0 v. apply enum_cmd_sim; auto. congruence.
Qed.

Theorem rest_permutation : forall ro c c' hw o disk st st',
  specified c = true -> specified c' = true ->
  Permutation (c_types c) (c_types c') -> c_file c = c_file c' -> c_sub c = c_sub c' ->
  c_star c = false -> c_star c' = false ->
  match generate (rest_make ro c) rrender (list_types_of CRest) c o hw disk st,
        generate (rest_make ro c') rrender (list_types_of CRest) c' o hw disk st' with
  | Some sm, Some sm' => map nb (listing sm) = map nb (listing sm')
  | None, None => True
  | _, _ => False
  end.
Proof.
  intros ro c c' hw o disk st st' Hs Hs' Hp Hf Hsub H1 H2.
  apply (permutation_changes_no_content (rest_make ro) rrender (rest_same_out ro) hw (fun c0 => rest_blind ro c0 _) (list_types_of CRest)
           c c' o disk st st' Hs Hs' Hp Hf Hsub H1 H2); auto.
  intros T st0 v. apply rest_cmd_sim.
Qed.

(* ---------------------------------------------------------------- generators that never feed a source back *)
(* When MakeData never reports stale (new without -getset, enum, rest, map) the overlay stays empty: every type of the run
   is analysed against the directory as it was found.  The run then equals the run of the generator whose view is pinned
   to that directory, which is blind by construction -- so the permutation theorem holds without any guard on embedding or
   on what the generator reads from generated files. *)
Section NoStale.
  Context {St Data : Type}.
  Variable mk : cmd -> St -> pview -> string -> mres Data St.
  Variable render : St -> Data -> afile.
  Hypothesis Hmake : forall c st1 st2 v T, same_out render (mk c st1 v T) (mk c st2 v T).
  Variable hw : list hfile.
  Variable disk : gfiles.

  Definition pinned (c : cmd) : St -> pview -> string -> mres Data St :=
    fun st _ T => mk c st (pview_of (mk_view hw disk [])) T.

  Lemma pinned_same_out : forall c st1 st2 v T, same_out render (pinned c st1 v T) (pinned c st2 v T).
  Proof. intros. unfold pinned. apply Hmake. Qed.

  Lemma pinned_blind : forall c H, blind_at H (pinned c).
  Proof. intros c H st v v' T _ _. reflexivity. Qed.

  Lemma gen_loop_pinned : forall c, (forall st v T d s st', mk c st v T = MOk d s st' -> s = false) ->
    forall types fmap st sm sl,
      gen_loop (mk c) render c hw disk types fmap st [] sm sl = gen_loop (pinned c) render c hw disk types fmap st [] sm sl.
  Proof.
    intros c Hns. induction types as [|T r IH]; intros fmap st sm sl; cbn [gen_loop]; auto.
    unfold pinned at 1.
    destruct (mk c st (pview_of (mk_view hw disk [])) T) as [d s st'|st'|] eqn:E; auto.
    rewrite (Hns _ _ _ _ _ _ E). cbn [andb].
    destruct (separate c); [destruct (ahas _ sm); auto|]; apply IH.
  Qed.

  Lemma generate_pinned : forall c lt o st, (forall st v T d s st', mk c st v T = MOk d s st' -> s = false) ->
    generate (mk c) render lt c o hw disk st = generate (pinned c) render lt c o hw disk st.
  Proof.
    intros c lt o st Hns. unfold generate.
    destruct (confirm_types lt c o (mk_view hw disk [])) as [[types fmap]|]; auto.
    rewrite (gen_loop_pinned c Hns). reflexivity.
  Qed.

  Theorem permutation_nostale : forall lt c c' o st st',
    (forall st v T d s st', mk c st v T = MOk d s st' -> s = false) ->
    (forall st v T d s st', mk c' st v T = MOk d s st' -> s = false) ->
    specified c = true -> specified c' = true ->
    Permutation (c_types c) (c_types c') -> c_file c = c_file c' -> c_sub c = c_sub c' ->
    c_star c = false -> c_star c' = false ->
    (forall T st0 v, same_body render render (mk c st0 v T) (mk c' st0 v T)) ->
    match generate (mk c) render lt c o hw disk st, generate (mk c') render lt c' o hw disk st' with
    | Some sm, Some sm' => map nb (listing sm) = map nb (listing sm')
    | None, None => True
    | _, _ => False
    end.
  Proof.
    intros lt c c' o st st' Hn Hn' Hs Hs' Hp Hf Hsub H1 H2 Hsim.
    rewrite (generate_pinned c lt o st Hn), (generate_pinned c' lt o st' Hn').
    apply (permutation_changes_no_content pinned render pinned_same_out hw (fun c0 => pinned_blind c0 _) lt c c' o disk st st'); auto.
    intros T st0 v. unfold pinned. apply Hsim.
  Qed.
End NoStale.
