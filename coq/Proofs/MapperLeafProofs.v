(* Structure of the leaf / embedded-pointer tables of Model/MapperSafe.v
   (rleaves, rhops) under well-formed declarations: a leaf is determined by its
   path, no leaf lies below another leaf, the embedded pointers of a leaf are
   exactly the embedded-pointer positions strictly above it, in order of
   increasing length. *)
From Coq Require Import String Ascii List Bool Arith Lia.
From Shoot Require Import Base.Str Model.MapVal Model.Mapper Model.MapperEval Model.MapperSafe
     Proofs.MapperValProofs Proofs.MapperSafeProofs Proofs.MapperOrderProofs.
Import ListNotations.
Local Open Scope string_scope.
Local Open Scope list_scope.

(* the contribution of one struct field *)
Definition leaves_of_field (e : env) (fuel : nat) (f : sfield) : list rleaf :=
  if sf_emb f then
    match sf_ty f with
    | TNamed p n =>
        match lookup_decl e p n with
        | Some (DStruct gs) => map (rl_under (sf_name f) false) (rleaves e fuel gs)
        | _ => []
        end
    | TPtr (TNamed p n) =>
        match lookup_decl e p n with
        | Some (DStruct gs) => map (rl_under (sf_name f) true) (rleaves e fuel gs)
        | _ => []
        end
    | _ => []
    end
  else [{| rl_path := [sf_name f]; rl_ty := sf_ty f; rl_hops := [] |}].

Definition hops_of_field (e : env) (fuel : nat) (f : sfield) : list (path * ty) :=
  if sf_emb f then
    match sf_ty f with
    | TNamed p n =>
        match lookup_decl e p n with
        | Some (DStruct gs) => map (fun h => (sf_name f :: fst h, snd h)) (rhops e fuel gs)
        | _ => []
        end
    | TPtr (TNamed p n) =>
        match lookup_decl e p n with
        | Some (DStruct gs) =>
            ([sf_name f], TNamed p n) :: map (fun h => (sf_name f :: fst h, snd h)) (rhops e fuel gs)
        | _ => []
        end
    | _ => []
    end
  else [].

Lemma rleaves_S e fuel fs : rleaves e (S fuel) fs = flat_map (leaves_of_field e fuel) fs.
Proof. reflexivity. Qed.
Lemma rhops_S e fuel fs : rhops e (S fuel) fs = flat_map (hops_of_field e fuel) fs.
Proof. reflexivity. Qed.

Lemma leaf_head e fuel f l : In l (leaves_of_field e fuel f) -> exists rest, rl_path l = sf_name f :: rest.
Proof.
  unfold leaves_of_field. destruct (sf_emb f).
  - destruct (sf_ty f) as [|p n|t| |]; try contradiction.
    + destruct (lookup_decl e p n) as [[|gs]|]; try contradiction.
      intros H. apply in_map_iff in H. destruct H as (l' & <- & _). simpl. eauto.
    + destruct t as [|p n| | |]; try contradiction. destruct (lookup_decl e p n) as [[|gs]|]; try contradiction.
      intros H. apply in_map_iff in H. destruct H as (l' & <- & _). simpl. eauto.
  - intros [<-|[]]. simpl. eauto.
Qed.

Lemma hop_head e fuel f h : In h (hops_of_field e fuel f) -> exists rest, fst h = sf_name f :: rest.
Proof.
  unfold hops_of_field. destruct (sf_emb f); [|contradiction].
  destruct (sf_ty f) as [|p n|t| |]; try contradiction.
  - destruct (lookup_decl e p n) as [[|gs]|]; try contradiction.
    intros H. apply in_map_iff in H. destruct H as (h' & <- & _). simpl. eauto.
  - destruct t as [|p n| | |]; try contradiction. destruct (lookup_decl e p n) as [[|gs]|]; try contradiction.
    intros [<-|H]; simpl; eauto. apply in_map_iff in H. destruct H as (h' & <- & _). simpl. eauto.
Qed.

(* with distinct field names the field a path starts in is determined *)
Lemma nodup_field_unique fs f1 f2 :
  nodup_strs (map sf_name fs) = true -> In f1 fs -> In f2 fs -> sf_name f1 = sf_name f2 -> f1 = f2.
Proof.
  induction fs as [|f fs IH]; intros N I1 I2 E; [contradiction|].
  simpl in N. apply nodup_strs_cons in N. destruct N as (N1 & N2).
  destruct I1 as [->|I1], I2 as [->|I2]; auto.
  - exfalso. apply N1. rewrite E. apply in_map. auto.
  - exfalso. apply N1. rewrite <- E. apply in_map. auto.
Qed.

Section Struct.
  Variable e : env.
  Hypothesis Eok : env_ok e = true.

  (* a leaf is determined by its path *)
  Lemma leaf_unique : forall fuel fs l1 l2,
    nodup_strs (map sf_name fs) = true -> In l1 (rleaves e fuel fs) -> In l2 (rleaves e fuel fs) ->
    rl_path l1 = rl_path l2 -> l1 = l2.
  Proof.
    induction fuel as [|fuel IH]; intros fs l1 l2 N I1 I2 E; [contradiction|].
    rewrite rleaves_S in I1, I2. apply in_flat_map in I1, I2.
    destruct I1 as (f1 & F1 & I1). destruct I2 as (f2 & F2 & I2).
    destruct (leaf_head _ _ _ _ I1) as (r1 & P1). destruct (leaf_head _ _ _ _ I2) as (r2 & P2).
    assert (f1 = f2). { apply (nodup_field_unique fs); auto. rewrite P1, P2 in E. inversion E. auto. }
    subst f2. unfold leaves_of_field in I1, I2. destruct (sf_emb f1).
    - destruct (sf_ty f1) as [|p n|t| |]; try contradiction.
      + destruct (lookup_decl e p n) as [[|gs]|] eqn:L; try contradiction.
        apply in_map_iff in I1, I2. destruct I1 as (a & <- & A). destruct I2 as (b & <- & B).
        f_equal. apply (IH gs); auto. { eapply env_ok_lookup; eauto. } simpl in E. inversion E. auto.
      + destruct t as [|p n| | |]; try contradiction. destruct (lookup_decl e p n) as [[|gs]|] eqn:L; try contradiction.
        apply in_map_iff in I1, I2. destruct I1 as (a & <- & A). destruct I2 as (b & <- & B).
        f_equal. apply (IH gs); auto. { eapply env_ok_lookup; eauto. } simpl in E. inversion E. auto.
    - destruct I1 as [<-|[]]. destruct I2 as [<-|[]]. reflexivity.
  Qed.

  (* nothing lies below a leaf: neither another leaf nor an embedded pointer *)
  Lemma below_leaf : forall fuel fs l,
    nodup_strs (map sf_name fs) = true -> In l (rleaves e fuel fs) ->
    (forall l2 r, In l2 (rleaves e fuel fs) -> rl_path l2 = rl_path l ++ r -> r = [])
    /\ (forall h r, In h (rhops e fuel fs) -> fst h = rl_path l ++ r -> False).
  Proof.
    induction fuel as [|fuel IH]; intros fs l N I; [contradiction|].
    rewrite rleaves_S in I. apply in_flat_map in I. destruct I as (f & F & I).
    destruct (leaf_head _ _ _ _ I) as (rest & P).
    split.
    - intros l2 r I2 E. rewrite rleaves_S in I2. apply in_flat_map in I2. destruct I2 as (f2 & F2 & I2).
      destruct (leaf_head _ _ _ _ I2) as (rest2 & P2).
      assert (f2 = f). { apply (nodup_field_unique fs); auto. rewrite P, P2 in E. simpl in E. inversion E. auto. }
      subst f2. unfold leaves_of_field in I, I2. destruct (sf_emb f).
      + destruct (sf_ty f) as [|p n|t| |]; try contradiction.
        * destruct (lookup_decl e p n) as [[|gs]|] eqn:L; try contradiction.
          apply in_map_iff in I, I2. destruct I as (a & <- & A). destruct I2 as (b & <- & B).
          simpl in E. inversion E. destruct (IH gs a (env_ok_lookup _ _ _ _ Eok L) A) as (X & _). eapply X; eauto.
        * destruct t as [|p n| | |]; try contradiction. destruct (lookup_decl e p n) as [[|gs]|] eqn:L; try contradiction.
          apply in_map_iff in I, I2. destruct I as (a & <- & A). destruct I2 as (b & <- & B).
          simpl in E. inversion E. destruct (IH gs a (env_ok_lookup _ _ _ _ Eok L) A) as (X & _). eapply X; eauto.
      + destruct I as [<-|[]]. destruct I2 as [<-|[]]. simpl in E. inversion E. reflexivity.
    - intros h r I2 E. rewrite rhops_S in I2. apply in_flat_map in I2. destruct I2 as (f2 & F2 & I2).
      destruct (hop_head _ _ _ _ I2) as (rest2 & P2).
      assert (f2 = f). { apply (nodup_field_unique fs); auto. rewrite P, P2 in E. simpl in E. inversion E. auto. }
      subst f2. unfold leaves_of_field in I. unfold hops_of_field in I2. destruct (sf_emb f); [|contradiction].
      destruct (sf_ty f) as [|p n|t| |]; try contradiction.
      + destruct (lookup_decl e p n) as [[|gs]|] eqn:L; try contradiction.
        apply in_map_iff in I, I2. destruct I as (a & <- & A). destruct I2 as (b & <- & B).
        simpl in E. inversion E. destruct (IH gs a (env_ok_lookup _ _ _ _ Eok L) A) as (_ & X). eapply X; eauto.
      + destruct t as [|p n| | |]; try contradiction. destruct (lookup_decl e p n) as [[|gs]|] eqn:L; try contradiction.
        apply in_map_iff in I. destruct I as (a & <- & A). destruct I2 as [<-|I2].
        * simpl in E. inversion E.
          destruct fuel; [contradiction|]. rewrite rleaves_S in A. apply in_flat_map in A. destruct A as (g & _ & A).
          destruct (leaf_head _ _ _ _ A) as (rr & Pg). rewrite Pg in H0. discriminate.
        * apply in_map_iff in I2. destruct I2 as (b & <- & B).
          simpl in E. inversion E. destruct (IH gs a (env_ok_lookup _ _ _ _ Eok L) A) as (_ & X). eapply X; eauto.
  Qed.

  (* the embedded pointers of a leaf = the embedded-pointer positions strictly above it *)
  Lemma hops_iff : forall fuel fs l,
    nodup_strs (map sf_name fs) = true -> In l (rleaves e fuel fs) ->
    forall q, In q (rl_hops l) <-> (exists t r, In (q, t) (rhops e fuel fs) /\ rl_path l = q ++ r /\ r <> []).
  Proof.
    induction fuel as [|fuel IH]; intros fs l N I q; [contradiction|].
    rewrite rleaves_S in I. apply in_flat_map in I. destruct I as (f & F & I).
    assert (HopIn : forall h, In h (hops_of_field e fuel f) -> In h (rhops e (S fuel) fs)).
    { intros h Hh. rewrite rhops_S. apply in_flat_map. eauto. }
    assert (HopField : forall q' t r, In (q', t) (rhops e (S fuel) fs) -> rl_path l = q' ++ r -> q' <> [] ->
                                 In (q', t) (hops_of_field e fuel f)).
    { intros q' t r Hq E NE. rewrite rhops_S in Hq. apply in_flat_map in Hq. destruct Hq as (f2 & F2 & Hq).
      destruct (hop_head _ _ _ _ Hq) as (r2 & P2). destruct (leaf_head _ _ _ _ I) as (r1 & P1). simpl in P2.
      assert (f2 = f). { apply (nodup_field_unique fs); auto. rewrite P1, P2 in E. simpl in E. inversion E. auto. }
      subst f2. exact Hq. }
    assert (HopNE : forall fuel' gs q' t, In (q', t) (rhops e fuel' gs) -> q' <> []).
    { intros fuel' gs q' t Hq. destruct fuel'; [contradiction|]. rewrite rhops_S in Hq. apply in_flat_map in Hq.
      destruct Hq as (g & _ & Hq). destruct (hop_head _ _ _ _ Hq) as (rr & X). simpl in X. rewrite X. discriminate. }
    unfold leaves_of_field in I. unfold hops_of_field in HopIn, HopField. destruct (sf_emb f).
    - destruct (sf_ty f) as [|p n|t0| |]; try contradiction.
      + destruct (lookup_decl e p n) as [[|gs]|] eqn:L; try contradiction.
        apply in_map_iff in I. destruct I as (a & <- & A). simpl. split.
        * intros Hq. apply in_map_iff in Hq. destruct Hq as (q0 & <- & Hq0).
          apply (IH gs a (env_ok_lookup _ _ _ _ Eok L) A) in Hq0. destruct Hq0 as (t & r & H1 & H2 & H3).
          exists t, r. split; [|split; auto]. { apply HopIn. apply in_map_iff. exists (q0, t). auto. } rewrite H2. reflexivity.
        * intros (t & r & H1 & H2 & H3).
          pose proof (HopField q t r H1 H2 (HopNE (S fuel) fs _ _ H1)) as X. apply in_map_iff in X. destruct X as ((q0, t0') & X & Y).
          simpl in X. inversion X; subst. apply in_map. apply (IH gs a (env_ok_lookup _ _ _ _ Eok L) A).
          exists t, r. simpl in H2. inversion H2. auto.
      + destruct t0 as [|p n| | |]; try contradiction. destruct (lookup_decl e p n) as [[|gs]|] eqn:L; try contradiction.
        apply in_map_iff in I. destruct I as (a & <- & A). simpl. split.
        * intros [<-|Hq].
          -- exists (TNamed p n), (rl_path a). split; [apply HopIn; left; auto|]. split; auto.
             destruct fuel; [contradiction|]. rewrite rleaves_S in A. apply in_flat_map in A. destruct A as (g & _ & A).
             destruct (leaf_head _ _ _ _ A) as (rr & Pg). rewrite Pg. discriminate.
          -- apply in_map_iff in Hq. destruct Hq as (q0 & <- & Hq0).
             apply (IH gs a (env_ok_lookup _ _ _ _ Eok L) A) in Hq0. destruct Hq0 as (t & r & H1 & H2 & H3).
             exists t, r. split; [|split; auto]. { apply HopIn. right. apply in_map_iff. exists (q0, t). auto. } rewrite H2. reflexivity.
        * intros (t & r & H1 & H2 & H3).
          pose proof (HopField q t r H1 H2 (HopNE (S fuel) fs _ _ H1)) as X. destruct X as [X|X].
          -- inversion X; subst. left; auto.
          -- apply in_map_iff in X. destruct X as ((q0, t0') & X & Y). simpl in X. inversion X; subst. right.
             apply in_map. apply (IH gs a (env_ok_lookup _ _ _ _ Eok L) A). exists t, r. simpl in H2. inversion H2. auto.
    - destruct I as [<-|[]]. simpl. split; [contradiction|].
      intros (t & r & H1 & H2 & H3). exfalso.
      pose proof (HopField q t r H1 H2 (HopNE (S fuel) fs _ _ H1)) as X. contradiction.
  Qed.
End Struct.

(* ------------------------------------------ order of a leaf's embedded pointers *)
(* strictly increasing lengths *)
Fixpoint incr_len (hs : list path) : Prop :=
  match hs with
  | [] => True
  | x :: r => (forall y, In y r -> length x < length y) /\ incr_len r
  end.

Lemma incr_len_map n hs : incr_len hs -> incr_len (map (cons n) hs).
Proof.
  induction hs as [|x r IH]; simpl; auto. intros (A & B). split; auto.
  intros y Y. apply in_map_iff in Y. destruct Y as (y0 & <- & Y0). simpl. specialize (A y0 Y0). lia.
Qed.

Lemma hops_nonempty : forall e fuel fs l q, In l (rleaves e fuel fs) -> In q (rl_hops l) -> q <> [].
Proof.
  induction fuel as [|fuel IH]; intros fs l q I Hq; [contradiction|].
  rewrite rleaves_S in I. apply in_flat_map in I. destruct I as (f & _ & I). unfold leaves_of_field in I.
  destruct (sf_emb f).
  - destruct (sf_ty f) as [|p n|t| |]; try contradiction.
    + destruct (lookup_decl e p n) as [[|gs]|]; try contradiction.
      apply in_map_iff in I. destruct I as (a & <- & A). simpl in Hq. apply in_map_iff in Hq.
      destruct Hq as (x & <- & _). discriminate.
    + destruct t as [|p n| | |]; try contradiction. destruct (lookup_decl e p n) as [[|gs]|]; try contradiction.
      apply in_map_iff in I. destruct I as (a & <- & A). simpl in Hq. destruct Hq as [<-|Hq]; [discriminate|].
      apply in_map_iff in Hq. destruct Hq as (x & <- & _). discriminate.
  - destruct I as [<-|[]]. contradiction.
Qed.

Lemma leaf_hops_incr : forall e fuel fs l, In l (rleaves e fuel fs) -> incr_len (rl_hops l).
Proof.
  induction fuel as [|fuel IH]; intros fs l I; [contradiction|].
  rewrite rleaves_S in I. apply in_flat_map in I. destruct I as (f & _ & I). unfold leaves_of_field in I.
  destruct (sf_emb f).
  - destruct (sf_ty f) as [|p n|t| |]; try contradiction.
    + destruct (lookup_decl e p n) as [[|gs]|]; try contradiction.
      apply in_map_iff in I. destruct I as (a & <- & A). simpl. apply incr_len_map. eapply IH; eauto.
    + destruct t as [|p n| | |]; try contradiction. destruct (lookup_decl e p n) as [[|gs]|]; try contradiction.
      apply in_map_iff in I. destruct I as (a & <- & A). simpl. split; [|apply incr_len_map; eapply IH; eauto].
      intros y Y. apply in_map_iff in Y. destruct Y as (y0 & <- & Y0). simpl.
      pose proof (hops_nonempty _ _ _ _ _ A Y0). destruct y0; [congruence|simpl; lia].
  - destruct I as [<-|[]]. simpl. auto.
Qed.

Lemma proper_prefix_length q p : proper_prefix q p = true -> length q < length p.
Proof.
  intros H. apply proper_prefix_app in H. destruct H as (r & -> & N). rewrite app_length.
  destruct r; [congruence|simpl; lia].
Qed.

Lemma incr_len_app_inv a b : incr_len (a ++ b) ->
  incr_len a /\ incr_len b /\ forall x y, In x a -> In y b -> length x < length y.
Proof.
  induction a as [|h a IH]; simpl.
  - intros H. repeat split; auto. intros x y [].
  - intros (A & B). destruct (IH B) as (I1 & I2 & I3). split; [split; auto|].
    + intros y Y. apply A. apply in_or_app. auto.
    + split; auto. intros x y [<-|X] Y; auto. apply A. apply in_or_app. auto.
Qed.

Lemma chain_ok_incr : forall g pre done,
  incr_len (pre ++ g) -> (forall q, In q pre -> In q done) -> chain_ok (pre ++ g) done g = true.
Proof.
  induction g as [|h g IH]; intros pre done I D; simpl; auto.
  apply andb_true_iff. split.
  - apply forallb_forall. intros q Hq. destruct (proper_prefix q h) eqn:P; simpl; auto.
    apply mem_path_in. apply D. apply proper_prefix_length in P.
    apply in_app_or in Hq. destruct Hq as [Hq|[<-|Hq]]; auto; exfalso.
    + lia.
    + apply incr_len_app_inv in I. destruct I as (_ & (I & _) & _). specialize (I q Hq). lia.
  - replace (pre ++ h :: g) with ((pre ++ [h]) ++ g) in * by (rewrite <- app_assoc; reflexivity).
    apply IH; auto. intros q Hq. apply in_app_or in Hq. destruct Hq as [Hq|[<-|[]]]; [right; auto|left; auto].
Qed.

Lemma leaf_chain_ok e fuel fs l : In l (rleaves e fuel fs) -> chain_ok (rl_hops l) [] (rl_hops l) = true.
Proof.
  intros I. apply (chain_ok_incr (rl_hops l) [] []); [|intros q []]. simpl. eapply leaf_hops_incr; eauto.
Qed.

(* two prefixes of one path: the shorter is a prefix of the longer *)
Lemma prefixes_ordered : forall (p a b ra rb : path), p = a ++ ra -> p = b ++ rb -> length a < length b ->
  exists r, b = a ++ r /\ r <> [].
Proof.
  intros p a. revert p. induction a as [|x a IH]; intros p b ra rb E1 E2 L.
  - exists b. split; auto. destruct b; simpl in L; [lia|discriminate].
  - destruct b as [|y b]; [simpl in L; lia|]. subst p. simpl in E2. inversion E2; subst.
    destruct (IH _ b ra rb eq_refl H1) as (r & -> & N). { simpl in L. lia. }
    exists r. auto.
Qed.

Lemma leaf_hops_sorted e fuel fs l : In l (rleaves e fuel fs) -> ssorted (rl_hops l).
Proof.
  intros I. pose proof (leaf_hops_incr _ _ _ _ I) as IL.
  assert (P : forall q, In q (rl_hops l) -> exists r, rl_path l = q ++ r).
  { intros q Hq. destruct (hops_prefix _ _ _ _ _ I Hq) as (r & E & _). eauto. }
  revert IL P. generalize (rl_hops l). induction l0 as [|x r IH]; simpl; auto.
  intros (A & B) P. split; [|apply IH; auto].
  intros y Y. apply path_ltb_asym.
  destruct (P x (or_introl eq_refl)) as (rx & Ex). destruct (P y (or_intror Y)) as (ry & Ey).
  destruct (prefixes_ordered _ _ _ _ _ Ex Ey (A y Y)) as (r0 & -> & N). apply path_ltb_extension. auto.
Qed.

Lemma incr_len_nodup hs : incr_len hs -> NoDup hs.
Proof.
  induction hs as [|x r IH]; simpl; intros H; constructor.
  - destruct H as (A & _). intros X. specialize (A x X). lia.
  - apply IH. tauto.
Qed.

(* a duplicate-free strongly sorted list is determined by its members *)
Lemma sorted_unique : forall a b, ssorted a -> ssorted b -> NoDup a -> NoDup b ->
  (forall x, In x a <-> In x b) -> a = b.
Proof.
  induction a as [|x a IH]; intros b Sa Sb Na Nb M.
  - destruct b as [|y b]; auto. exfalso. apply (M y). left; auto.
  - destruct b as [|y b]. { exfalso. apply (M x). left; auto. }
    destruct Sa as (Sa1 & Sa2). destruct Sb as (Sb1 & Sb2). inversion Na; subst. inversion Nb; subst.
    assert (x = y).
    { destruct (proj1 (M x) (or_introl eq_refl)) as [E|X]; auto.
      destruct (proj2 (M y) (or_introl eq_refl)) as [E|Y]; auto.
      apply path_ltb_total; [apply Sb1|apply Sa1]; auto. }
    subst y. f_equal. apply IH; auto. intros z. split; intros Z.
    + destruct (proj1 (M z) (or_intror Z)) as [E|X]; auto. subst. contradiction.
    + destruct (proj2 (M z) (or_intror Z)) as [E|X]; auto. subst. contradiction.
Qed.
