(* Concrete pair specifications used by the Examples / refutation witnesses of
   Properties/C05.v, C09.v (rendered by harness/mapgen.py from hand-written specs). *)
From Coq Require Import String List ZArith Bool.
From Shoot Require Import Model.MapVal Model.Mapper Model.MapperEval Model.MapperSpec Corr.MapperCorr.
Import ListNotations.
Local Open Scope string_scope.
Local Open Scope list_scope.

Definition ex1 : pairspec :=
(let E : env := [((PSrc, "Inner"), DStruct [{| sf_name := "A"; sf_emb := false; sf_ty := (TBasic BInt); sf_tag := "" |}; {| sf_name := "B"; sf_emb := false; sf_ty := (TBasic BString); sf_tag := "" |}]);
  ((PSrc, "Deep"), DStruct [{| sf_name := "DP"; sf_emb := false; sf_ty := (TBasic BString); sf_tag := "" |}]);
  ((PSrc, "EmbP"), DStruct [{| sf_name := "EP"; sf_emb := false; sf_ty := (TBasic BInt32); sf_tag := "" |}; {| sf_name := "Deep"; sf_emb := true; sf_ty := (TPtr (TNamed PSrc "Deep")); sf_tag := "" |}]);
  ((PSrc, "Mapper"), DStruct []);
  ((PSrc, "T"), DStruct [{| sf_name := "Mapper"; sf_emb := true; sf_ty := (TNamed PSrc "Mapper"); sf_tag := "" |}; {| sf_name := "EmbP"; sf_emb := true; sf_ty := (TPtr (TNamed PSrc "EmbP")); sf_tag := "" |}; {| sf_name := "ID"; sf_emb := false; sf_ty := (TBasic BInt); sf_tag := "" |}; {| sf_name := "UserID"; sf_emb := false; sf_ty := (TBasic BInt64); sf_tag := "" |}; {| sf_name := "N8"; sf_emb := false; sf_ty := (TBasic BInt8); sf_tag := "" |}; {| sf_name := "S2"; sf_emb := false; sf_ty := (TBasic BString); sf_tag := "Str" |}; {| sf_name := "Skip"; sf_emb := false; sf_ty := (TBasic BInt); sf_tag := "-" |}; {| sf_name := "Amount"; sf_emb := false; sf_ty := (TBasic BString); sf_tag := "" |}; {| sf_name := "In"; sf_emb := false; sf_ty := (TNamed PSrc "Inner"); sf_tag := "" |}; {| sf_name := "InP"; sf_emb := false; sf_ty := (TPtr (TNamed PSrc "Inner")); sf_tag := "" |}; {| sf_name := "Ins"; sf_emb := false; sf_ty := (TSlice (TNamed PSrc "Inner")); sf_tag := "" |}; {| sf_name := "InPs"; sf_emb := false; sf_ty := (TSlice (TPtr (TNamed PSrc "Inner"))); sf_tag := "" |}; {| sf_name := "Lv"; sf_emb := false; sf_ty := (TNamed (POth "common") "Level"); sf_tag := "" |}]);
  ((PDst, "Status"), DBasic BInt);
  ((PDst, "Inner"), DStruct [{| sf_name := "A"; sf_emb := false; sf_ty := (TBasic BInt64); sf_tag := "" |}; {| sf_name := "B"; sf_emb := false; sf_ty := (TBasic BString); sf_tag := "" |}]);
  ((PDst, "Deep"), DStruct [{| sf_name := "DP"; sf_emb := false; sf_ty := (TBasic BString); sf_tag := "" |}]);
  ((PDst, "EmbV"), DStruct [{| sf_name := "EP"; sf_emb := false; sf_ty := (TBasic BInt64); sf_tag := "" |}; {| sf_name := "Deep"; sf_emb := true; sf_ty := (TPtr (TNamed PDst "Deep")); sf_tag := "" |}]);
  ((PDst, "T"), DStruct [{| sf_name := "EmbV"; sf_emb := true; sf_ty := (TNamed PDst "EmbV"); sf_tag := "" |}; {| sf_name := "ID"; sf_emb := false; sf_ty := (TBasic BInt); sf_tag := "" |}; {| sf_name := "UserId"; sf_emb := false; sf_ty := (TBasic BInt); sf_tag := "" |}; {| sf_name := "N8"; sf_emb := false; sf_ty := (TBasic BString); sf_tag := "" |}; {| sf_name := "Str"; sf_emb := false; sf_ty := (TBasic BString); sf_tag := "" |}; {| sf_name := "Skip"; sf_emb := false; sf_ty := (TBasic BInt); sf_tag := "" |}; {| sf_name := "Amount"; sf_emb := false; sf_ty := (TBasic BInt64); sf_tag := "" |}; {| sf_name := "In"; sf_emb := false; sf_ty := (TPtr (TNamed PDst "Inner")); sf_tag := "" |}; {| sf_name := "InP"; sf_emb := false; sf_ty := (TNamed PDst "Inner"); sf_tag := "" |}; {| sf_name := "Ins"; sf_emb := false; sf_ty := (TSlice (TPtr (TNamed PDst "Inner"))); sf_tag := "" |}; {| sf_name := "InPs"; sf_emb := false; sf_ty := (TSlice (TNamed PDst "Inner")); sf_tag := "" |}; {| sf_name := "Lv"; sf_emb := false; sf_ty := (TNamed PDst "Status"); sf_tag := "" |}; {| sf_name := "Extra"; sf_emb := false; sf_ty := (TBasic BBool); sf_tag := "" |}]);
  (((POth "common"), "Level"), DBasic BInt);
  (((POth "common"), "Code"), DBasic BString);
  (((POth "common"), "Ratio"), DBasic BFloat64);
  (((POth "common"), "Flag"), DBasic BBool);
  (((POth "common"), "Tiny"), DBasic BInt8);
  (((POth "common"), "Money"), DStruct [{| sf_name := "Units"; sf_emb := false; sf_ty := (TBasic BInt64); sf_tag := "" |}; {| sf_name := "Cur"; sf_emb := false; sf_ty := (TBasic BString); sf_tag := "" |}])] in let FN : list mfunc := [{| mf_name := "StrToI64"; mf_param := (TBasic BString); mf_result := (TBasic BInt64) |}; {| mf_name := "I64ToStr"; mf_param := (TBasic BInt64); mf_result := (TBasic BString) |}] in {| ps_env := E; ps_fuel := 18; ps_jobs := [{| j_env := E; j_fuel := 18; j_src := "Inner"; j_dst := "Inner"; j_funcs := []; j_ic := false; j_src_acc := []; j_dst_acc := []; j_src_ctor := []; j_dst_ctor := []; j_src_shootnew := false; j_manual_to := None; j_manual_from := None; j_mapper_hop := None |};
  {| j_env := E; j_fuel := 18; j_src := "T"; j_dst := "T"; j_funcs := FN; j_ic := false; j_src_acc := []; j_dst_acc := []; j_src_ctor := []; j_dst_ctor := []; j_src_shootnew := false; j_manual_to := None; j_manual_from := None; j_mapper_hop := None |}]; ps_funcs := [("StrToI64", (FLen BInt64 (3)%Z)); ("I64ToStr", (FParity "#p"))]; ps_manual_to := []; ps_manual_from := []; ps_way := WBoth |}).

Definition ex2 : pairspec :=
(let E : env := [((PSrc, "Emb"), DStruct [{| sf_name := "X"; sf_emb := false; sf_ty := (TBasic BInt); sf_tag := "" |}]);
  ((PSrc, "T"), DStruct [{| sf_name := "Emb"; sf_emb := true; sf_ty := (TPtr (TNamed PSrc "Emb")); sf_tag := "" |}; {| sf_name := "ID"; sf_emb := false; sf_ty := (TBasic BInt); sf_tag := "" |}; {| sf_name := "Name"; sf_emb := false; sf_ty := (TBasic BString); sf_tag := "" |}; {| sf_name := "Tags"; sf_emb := false; sf_ty := (TSlice (TBasic BString)); sf_tag := "" |}]);
  ((PDst, "Emb"), DStruct [{| sf_name := "X"; sf_emb := false; sf_ty := (TBasic BInt); sf_tag := "" |}]);
  ((PDst, "T"), DStruct [{| sf_name := "Emb"; sf_emb := true; sf_ty := (TPtr (TNamed PDst "Emb")); sf_tag := "" |}; {| sf_name := "ID"; sf_emb := false; sf_ty := (TBasic BInt); sf_tag := "" |}; {| sf_name := "Name"; sf_emb := false; sf_ty := (TBasic BString); sf_tag := "" |}; {| sf_name := "Tags"; sf_emb := false; sf_ty := (TSlice (TBasic BString)); sf_tag := "" |}]);
  (((POth "common"), "Level"), DBasic BInt);
  (((POth "common"), "Code"), DBasic BString);
  (((POth "common"), "Ratio"), DBasic BFloat64);
  (((POth "common"), "Flag"), DBasic BBool);
  (((POth "common"), "Tiny"), DBasic BInt8);
  (((POth "common"), "Money"), DStruct [{| sf_name := "Units"; sf_emb := false; sf_ty := (TBasic BInt64); sf_tag := "" |}; {| sf_name := "Cur"; sf_emb := false; sf_ty := (TBasic BString); sf_tag := "" |}])] in let FN : list mfunc := [] in {| ps_env := E; ps_fuel := 12; ps_jobs := [{| j_env := E; j_fuel := 12; j_src := "T"; j_dst := "T"; j_funcs := []; j_ic := false; j_src_acc := []; j_dst_acc := []; j_src_ctor := []; j_dst_ctor := []; j_src_shootnew := false; j_manual_to := None; j_manual_from := None; j_mapper_hop := None |}]; ps_funcs := []; ps_manual_to := []; ps_manual_from := []; ps_way := WBoth |}).

Definition ex3 : pairspec :=
(let E : env := [((PSrc, "T"), DStruct [{| sf_name := "A"; sf_emb := false; sf_ty := (TBasic BInt); sf_tag := "X" |}; {| sf_name := "X"; sf_emb := false; sf_ty := (TBasic BInt); sf_tag := "" |}]);
  ((PDst, "T"), DStruct [{| sf_name := "X"; sf_emb := false; sf_ty := (TBasic BInt); sf_tag := "" |}]);
  (((POth "common"), "Level"), DBasic BInt);
  (((POth "common"), "Code"), DBasic BString);
  (((POth "common"), "Ratio"), DBasic BFloat64);
  (((POth "common"), "Flag"), DBasic BBool);
  (((POth "common"), "Tiny"), DBasic BInt8);
  (((POth "common"), "Money"), DStruct [{| sf_name := "Units"; sf_emb := false; sf_ty := (TBasic BInt64); sf_tag := "" |}; {| sf_name := "Cur"; sf_emb := false; sf_ty := (TBasic BString); sf_tag := "" |}])] in let FN : list mfunc := [] in {| ps_env := E; ps_fuel := 10; ps_jobs := [{| j_env := E; j_fuel := 10; j_src := "T"; j_dst := "T"; j_funcs := []; j_ic := false; j_src_acc := []; j_dst_acc := []; j_src_ctor := []; j_dst_ctor := []; j_src_shootnew := false; j_manual_to := None; j_manual_from := None; j_mapper_hop := None |}]; ps_funcs := []; ps_manual_to := []; ps_manual_from := []; ps_way := WBoth |}).

Definition ex4 : pairspec :=
(let E : env := [((PSrc, "Base"), DStruct [{| sf_name := "Secret"; sf_emb := false; sf_ty := (TBasic BInt); sf_tag := "-" |}]);
  ((PSrc, "T"), DStruct [{| sf_name := "Base"; sf_emb := true; sf_ty := (TNamed PSrc "Base"); sf_tag := "" |}; {| sf_name := "ID"; sf_emb := false; sf_ty := (TBasic BInt); sf_tag := "" |}]);
  ((PDst, "T"), DStruct [{| sf_name := "ID"; sf_emb := false; sf_ty := (TBasic BInt); sf_tag := "" |}; {| sf_name := "Secret"; sf_emb := false; sf_ty := (TBasic BInt); sf_tag := "" |}]);
  (((POth "common"), "Level"), DBasic BInt);
  (((POth "common"), "Code"), DBasic BString);
  (((POth "common"), "Ratio"), DBasic BFloat64);
  (((POth "common"), "Flag"), DBasic BBool);
  (((POth "common"), "Tiny"), DBasic BInt8);
  (((POth "common"), "Money"), DStruct [{| sf_name := "Units"; sf_emb := false; sf_ty := (TBasic BInt64); sf_tag := "" |}; {| sf_name := "Cur"; sf_emb := false; sf_ty := (TBasic BString); sf_tag := "" |}])] in let FN : list mfunc := [] in {| ps_env := E; ps_fuel := 11; ps_jobs := [{| j_env := E; j_fuel := 11; j_src := "T"; j_dst := "T"; j_funcs := []; j_ic := false; j_src_acc := []; j_dst_acc := []; j_src_ctor := []; j_dst_ctor := []; j_src_shootnew := false; j_manual_to := None; j_manual_from := None; j_mapper_hop := None |}]; ps_funcs := []; ps_manual_to := []; ps_manual_from := []; ps_way := WBoth |}).


Definition ex1_v : val := (VStruct [("Mapper", (VStruct [])); ("EmbP", (VPtr (VStruct [("EP", (VInt (-5)%Z)); ("Deep", (VPtr (VStruct [("DP", (VStr "deep"))])))]))); ("ID", (VInt (7)%Z)); ("UserID", (VInt (77)%Z)); ("N8", (VInt (-3)%Z)); ("S2", (VStr "tagged")); ("Skip", (VInt (99)%Z)); ("Amount", (VStr "12345")); ("In", (VStruct [("A", (VInt (1)%Z)); ("B", (VStr "in"))])); ("InP", (VPtr (VStruct [("A", (VInt (2)%Z)); ("B", (VStr "inp"))]))); ("Ins", (VList [(VStruct [("A", (VInt (3)%Z)); ("B", (VStr "a"))]); (VStruct [("A", (VInt (4)%Z)); ("B", (VStr "b"))])])); ("InPs", (VList [(VPtr (VStruct [("A", (VInt (5)%Z)); ("B", (VStr "c"))])); VNil])); ("Lv", (VInt (4)%Z))]).
Definition ex1_v_nils : val := (VStruct [("Mapper", (VStruct [])); ("EmbP", VNil); ("ID", (VInt (7)%Z)); ("UserID", (VInt (1099511627781)%Z)); ("N8", (VInt (-3)%Z)); ("S2", (VStr "tagged")); ("Skip", (VInt (99)%Z)); ("Amount", (VStr "")); ("In", (VStruct [("A", (VInt (1)%Z)); ("B", (VStr "in"))])); ("InP", VNil); ("Ins", VNil); ("InPs", (VList [VNil])); ("Lv", (VInt (4)%Z))]).
Definition ex2_v : val := (VStruct [("Emb", (VPtr (VStruct [("X", (VInt (3)%Z))]))); ("ID", (VInt (1)%Z)); ("Name", (VStr "n")); ("Tags", (VList [(VStr "a"); (VStr "b")]))]).
Definition ex2_v_nil : val := (VStruct [("Emb", VNil); ("ID", (VInt (1)%Z)); ("Name", (VStr "n")); ("Tags", VNil)]).

(* ex5: the source is a shoot-new type (constructor NewT(note, count), getters Note/Count, setter SetCount);
   the constructor argument for note goes through the mapper method F *)
Definition ex5 : pairspec :=
(let E : env := [((PSrc, "Mapper"), DStruct []);
  ((PSrc, "T"), DStruct [{| sf_name := "Mapper"; sf_emb := true; sf_ty := (TNamed PSrc "Mapper"); sf_tag := "" |}; {| sf_name := "note"; sf_emb := false; sf_ty := (TBasic BString); sf_tag := "" |}; {| sf_name := "count"; sf_emb := false; sf_ty := (TBasic BInt); sf_tag := "" |}]);
  ((PDst, "T"), DStruct [{| sf_name := "Note"; sf_emb := false; sf_ty := (TBasic BUint16); sf_tag := "" |}; {| sf_name := "Count"; sf_emb := false; sf_ty := (TBasic BInt); sf_tag := "" |}]);
  (((POth "common"), "Level"), DBasic BInt);
  (((POth "common"), "Code"), DBasic BString);
  (((POth "common"), "Ratio"), DBasic BFloat64);
  (((POth "common"), "Flag"), DBasic BBool);
  (((POth "common"), "Tiny"), DBasic BInt8);
  (((POth "common"), "Money"), DStruct [{| sf_name := "Units"; sf_emb := false; sf_ty := (TBasic BInt64); sf_tag := "" |}; {| sf_name := "Cur"; sf_emb := false; sf_ty := (TBasic BString); sf_tag := "" |}])] in let FN : list mfunc := [{| mf_name := "F"; mf_param := (TBasic BUint16); mf_result := (TBasic BString) |}] in {| ps_env := E; ps_fuel := 11; ps_jobs := [{| j_env := E; j_fuel := 11; j_src := "T"; j_dst := "T"; j_funcs := FN; j_ic := false; j_src_acc := [{| ac_name := "Count"; ac_ty := (TBasic BInt); ac_set := false; ac_path := ["count"] |}; {| ac_name := "Note"; ac_ty := (TBasic BString); ac_set := false; ac_path := ["note"] |}; {| ac_name := "SetCount"; ac_ty := (TBasic BInt); ac_set := true; ac_path := ["count"] |}]; j_dst_acc := []; j_src_ctor := [{| cp_field := "note"; cp_path := ["note"]; cp_ty := (TBasic BString) |}; {| cp_field := "count"; cp_path := ["count"]; cp_ty := (TBasic BInt) |}]; j_dst_ctor := []; j_src_shootnew := true; j_manual_to := None; j_manual_from := None; j_mapper_hop := None |}]; ps_funcs := [("F", (FParity "#v"))]; ps_manual_to := []; ps_manual_from := []; ps_way := WBoth |}).
Definition ex5_d : val := (VStruct [("Note", (VInt (3)%Z)); ("Count", (VInt (9)%Z))]).
Definition ex5_dirty : val := (VStruct [("Mapper", (VStruct [])); ("note", (VStr "old")); ("count", (VInt (1)%Z))]).

(* ex6: the destination is a flat shoot-new type (constructor over all fields; count is get-only; in has a setter);
   ex6p is the same pair with plain exported fields; ex7 shows the two constructor findings *)
Definition ex6 : pairspec :=
(let E : env := [((PSrc, "Inner"), DStruct [{| sf_name := "A"; sf_emb := false; sf_ty := (TBasic BInt); sf_tag := "" |}]);
  ((PSrc, "Mapper"), DStruct []);
  ((PSrc, "T"), DStruct [{| sf_name := "Mapper"; sf_emb := true; sf_ty := (TNamed PSrc "Mapper"); sf_tag := "" |}; {| sf_name := "ID"; sf_emb := false; sf_ty := (TBasic BInt); sf_tag := "" |}; {| sf_name := "Name"; sf_emb := false; sf_ty := (TBasic BString); sf_tag := "" |}; {| sf_name := "Count"; sf_emb := false; sf_ty := (TBasic BInt32); sf_tag := "" |}; {| sf_name := "In"; sf_emb := false; sf_ty := (TNamed PSrc "Inner"); sf_tag := "" |}; {| sf_name := "Amount"; sf_emb := false; sf_ty := (TBasic BString); sf_tag := "" |}]);
  ((PDst, "Inner"), DStruct [{| sf_name := "A"; sf_emb := false; sf_ty := (TBasic BInt64); sf_tag := "" |}; {| sf_name := "B"; sf_emb := false; sf_ty := (TBasic BInt); sf_tag := "" |}]);
  ((PDst, "T"), DStruct [{| sf_name := "id"; sf_emb := false; sf_ty := (TBasic BInt); sf_tag := "" |}; {| sf_name := "name"; sf_emb := false; sf_ty := (TBasic BString); sf_tag := "" |}; {| sf_name := "count"; sf_emb := false; sf_ty := (TBasic BInt64); sf_tag := "" |}; {| sf_name := "in"; sf_emb := false; sf_ty := (TNamed PDst "Inner"); sf_tag := "" |}; {| sf_name := "amount"; sf_emb := false; sf_ty := (TBasic BInt16); sf_tag := "" |}]);
  (((POth "common"), "Level"), DBasic BInt);
  (((POth "common"), "Code"), DBasic BString);
  (((POth "common"), "Ratio"), DBasic BFloat64);
  (((POth "common"), "Flag"), DBasic BBool);
  (((POth "common"), "Tiny"), DBasic BInt8);
  (((POth "common"), "Money"), DStruct [{| sf_name := "Units"; sf_emb := false; sf_ty := (TBasic BInt64); sf_tag := "" |}; {| sf_name := "Cur"; sf_emb := false; sf_ty := (TBasic BString); sf_tag := "" |}])] in let FN : list mfunc := [{| mf_name := "F0"; mf_param := (TBasic BString); mf_result := (TBasic BInt16) |}; {| mf_name := "F1"; mf_param := (TBasic BInt16); mf_result := (TBasic BString) |}] in {| ps_env := E; ps_fuel := 13; ps_jobs := [{| j_env := E; j_fuel := 13; j_src := "Inner"; j_dst := "Inner"; j_funcs := []; j_ic := false; j_src_acc := []; j_dst_acc := []; j_src_ctor := []; j_dst_ctor := []; j_src_shootnew := false; j_manual_to := None; j_manual_from := None; j_mapper_hop := None |};
  {| j_env := E; j_fuel := 13; j_src := "T"; j_dst := "T"; j_funcs := FN; j_ic := false; j_src_acc := []; j_dst_acc := [{| ac_name := "Amount"; ac_ty := (TBasic BInt16); ac_set := false; ac_path := ["amount"] |}; {| ac_name := "Count"; ac_ty := (TBasic BInt64); ac_set := false; ac_path := ["count"] |}; {| ac_name := "Id"; ac_ty := (TBasic BInt); ac_set := false; ac_path := ["id"] |}; {| ac_name := "In"; ac_ty := (TNamed PDst "Inner"); ac_set := false; ac_path := ["in"] |}; {| ac_name := "Name"; ac_ty := (TBasic BString); ac_set := false; ac_path := ["name"] |}; {| ac_name := "SetAmount"; ac_ty := (TBasic BInt16); ac_set := true; ac_path := ["amount"] |}; {| ac_name := "SetId"; ac_ty := (TBasic BInt); ac_set := true; ac_path := ["id"] |}; {| ac_name := "SetIn"; ac_ty := (TNamed PDst "Inner"); ac_set := true; ac_path := ["in"] |}; {| ac_name := "SetName"; ac_ty := (TBasic BString); ac_set := true; ac_path := ["name"] |}]; j_src_ctor := []; j_dst_ctor := [{| cp_field := "id"; cp_path := ["id"]; cp_ty := (TBasic BInt) |}; {| cp_field := "name"; cp_path := ["name"]; cp_ty := (TBasic BString) |}; {| cp_field := "count"; cp_path := ["count"]; cp_ty := (TBasic BInt64) |}; {| cp_field := "in"; cp_path := ["in"]; cp_ty := (TNamed PDst "Inner") |}; {| cp_field := "amount"; cp_path := ["amount"]; cp_ty := (TBasic BInt16) |}]; j_src_shootnew := false; j_manual_to := None; j_manual_from := None; j_mapper_hop := None |}]; ps_funcs := [("F0", (FLen BInt16 (2)%Z)); ("F1", (FParity "#a"))]; ps_manual_to := []; ps_manual_from := []; ps_way := WBoth |}).

Definition ex6p : pairspec :=
(let E : env := [((PSrc, "Inner"), DStruct [{| sf_name := "A"; sf_emb := false; sf_ty := (TBasic BInt); sf_tag := "" |}]);
  ((PSrc, "Mapper"), DStruct []);
  ((PSrc, "T"), DStruct [{| sf_name := "Mapper"; sf_emb := true; sf_ty := (TNamed PSrc "Mapper"); sf_tag := "" |}; {| sf_name := "ID"; sf_emb := false; sf_ty := (TBasic BInt); sf_tag := "" |}; {| sf_name := "Name"; sf_emb := false; sf_ty := (TBasic BString); sf_tag := "" |}; {| sf_name := "Count"; sf_emb := false; sf_ty := (TBasic BInt32); sf_tag := "" |}; {| sf_name := "In"; sf_emb := false; sf_ty := (TNamed PSrc "Inner"); sf_tag := "" |}; {| sf_name := "Amount"; sf_emb := false; sf_ty := (TBasic BString); sf_tag := "" |}]);
  ((PDst, "Inner"), DStruct [{| sf_name := "A"; sf_emb := false; sf_ty := (TBasic BInt64); sf_tag := "" |}; {| sf_name := "B"; sf_emb := false; sf_ty := (TBasic BInt); sf_tag := "" |}]);
  ((PDst, "T"), DStruct [{| sf_name := "Id"; sf_emb := false; sf_ty := (TBasic BInt); sf_tag := "" |}; {| sf_name := "Name"; sf_emb := false; sf_ty := (TBasic BString); sf_tag := "" |}; {| sf_name := "Count"; sf_emb := false; sf_ty := (TBasic BInt64); sf_tag := "" |}; {| sf_name := "In"; sf_emb := false; sf_ty := (TNamed PDst "Inner"); sf_tag := "" |}; {| sf_name := "Amount"; sf_emb := false; sf_ty := (TBasic BInt16); sf_tag := "" |}]);
  (((POth "common"), "Level"), DBasic BInt);
  (((POth "common"), "Code"), DBasic BString);
  (((POth "common"), "Ratio"), DBasic BFloat64);
  (((POth "common"), "Flag"), DBasic BBool);
  (((POth "common"), "Tiny"), DBasic BInt8);
  (((POth "common"), "Money"), DStruct [{| sf_name := "Units"; sf_emb := false; sf_ty := (TBasic BInt64); sf_tag := "" |}; {| sf_name := "Cur"; sf_emb := false; sf_ty := (TBasic BString); sf_tag := "" |}])] in let FN : list mfunc := [{| mf_name := "F0"; mf_param := (TBasic BString); mf_result := (TBasic BInt16) |}; {| mf_name := "F1"; mf_param := (TBasic BInt16); mf_result := (TBasic BString) |}] in {| ps_env := E; ps_fuel := 13; ps_jobs := [{| j_env := E; j_fuel := 13; j_src := "Inner"; j_dst := "Inner"; j_funcs := []; j_ic := false; j_src_acc := []; j_dst_acc := []; j_src_ctor := []; j_dst_ctor := []; j_src_shootnew := false; j_manual_to := None; j_manual_from := None; j_mapper_hop := None |};
  {| j_env := E; j_fuel := 13; j_src := "T"; j_dst := "T"; j_funcs := FN; j_ic := false; j_src_acc := []; j_dst_acc := []; j_src_ctor := []; j_dst_ctor := []; j_src_shootnew := false; j_manual_to := None; j_manual_from := None; j_mapper_hop := None |}]; ps_funcs := [("F0", (FLen BInt16 (2)%Z)); ("F1", (FParity "#a"))]; ps_manual_to := []; ps_manual_from := []; ps_way := WBoth |}).

Definition ex7 : pairspec :=
(let E : env := [((PSrc, "Inner"), DStruct [{| sf_name := "A"; sf_emb := false; sf_ty := (TBasic BInt); sf_tag := "" |}]);
  ((PSrc, "Mapper"), DStruct []);
  ((PSrc, "T"), DStruct [{| sf_name := "Mapper"; sf_emb := true; sf_ty := (TNamed PSrc "Mapper"); sf_tag := "" |}; {| sf_name := "A"; sf_emb := false; sf_ty := (TBasic BInt); sf_tag := "" |}; {| sf_name := "In"; sf_emb := false; sf_ty := (TNamed PSrc "Inner"); sf_tag := "" |}]);
  ((PDst, "Inner"), DStruct [{| sf_name := "A"; sf_emb := false; sf_ty := (TBasic BInt); sf_tag := "" |}; {| sf_name := "B"; sf_emb := false; sf_ty := (TBasic BInt); sf_tag := "" |}]);
  ((PDst, "T"), DStruct [{| sf_name := "a"; sf_emb := false; sf_ty := (TBasic BInt64); sf_tag := "" |}; {| sf_name := "in"; sf_emb := false; sf_ty := (TNamed PDst "Inner"); sf_tag := "" |}]);
  (((POth "common"), "Level"), DBasic BInt);
  (((POth "common"), "Code"), DBasic BString);
  (((POth "common"), "Ratio"), DBasic BFloat64);
  (((POth "common"), "Flag"), DBasic BBool);
  (((POth "common"), "Tiny"), DBasic BInt8);
  (((POth "common"), "Money"), DStruct [{| sf_name := "Units"; sf_emb := false; sf_ty := (TBasic BInt64); sf_tag := "" |}; {| sf_name := "Cur"; sf_emb := false; sf_ty := (TBasic BString); sf_tag := "" |}])] in let FN : list mfunc := [{| mf_name := "F"; mf_param := (TBasic BInt); mf_result := (TBasic BInt64) |}] in {| ps_env := E; ps_fuel := 13; ps_jobs := [{| j_env := E; j_fuel := 13; j_src := "Inner"; j_dst := "Inner"; j_funcs := []; j_ic := false; j_src_acc := []; j_dst_acc := []; j_src_ctor := []; j_dst_ctor := []; j_src_shootnew := false; j_manual_to := None; j_manual_from := None; j_mapper_hop := None |};
  {| j_env := E; j_fuel := 13; j_src := "T"; j_dst := "T"; j_funcs := FN; j_ic := false; j_src_acc := []; j_dst_acc := [{| ac_name := "A"; ac_ty := (TBasic BInt64); ac_set := false; ac_path := ["a"] |}; {| ac_name := "In"; ac_ty := (TNamed PDst "Inner"); ac_set := false; ac_path := ["in"] |}]; j_src_ctor := []; j_dst_ctor := [{| cp_field := "a"; cp_path := ["a"]; cp_ty := (TBasic BInt64) |}; {| cp_field := "in"; cp_path := ["in"]; cp_ty := (TNamed PDst "Inner") |}]; j_src_shootnew := false; j_manual_to := None; j_manual_from := None; j_mapper_hop := None |}]; ps_funcs := [("F", (FAdd BInt64 (5)%Z))]; ps_manual_to := []; ps_manual_from := []; ps_way := WBoth |}).

Definition ex6_v : val := (VStruct [("Mapper", (VStruct [])); ("ID", (VInt (7)%Z)); ("Name", (VStr "n")); ("Count", (VInt (-3)%Z)); ("In", (VStruct [("A", (VInt (4)%Z))])); ("Amount", (VStr "abc"))]).
Definition ex7_v : val := (VStruct [("Mapper", (VStruct [])); ("A", (VInt (1)%Z)); ("In", (VStruct [("A", (VInt (4)%Z))]))]).

(* ex8: two mapper methods of one signature and a constructor parameter (K_map_ctor_func_last) *)
Definition ex8 : pairspec :=
(let E : env := [((PSrc, "Mapper"), DStruct []);
  ((PSrc, "T"), DStruct [{| sf_name := "Mapper"; sf_emb := true; sf_ty := (TNamed PSrc "Mapper"); sf_tag := "" |}; {| sf_name := "Ratio"; sf_emb := false; sf_ty := (TBasic BString); sf_tag := "" |}]);
  ((PDst, "T"), DStruct [{| sf_name := "ratio"; sf_emb := false; sf_ty := (TBasic BInt8); sf_tag := "" |}]);
  (((POth "common"), "Level"), DBasic BInt);
  (((POth "common"), "Code"), DBasic BString);
  (((POth "common"), "Ratio"), DBasic BFloat64);
  (((POth "common"), "Flag"), DBasic BBool);
  (((POth "common"), "Tiny"), DBasic BInt8);
  (((POth "common"), "Money"), DStruct [{| sf_name := "Units"; sf_emb := false; sf_ty := (TBasic BInt64); sf_tag := "" |}; {| sf_name := "Cur"; sf_emb := false; sf_ty := (TBasic BString); sf_tag := "" |}])] in let FN : list mfunc := [{| mf_name := "F0"; mf_param := (TBasic BString); mf_result := (TBasic BInt8) |}; {| mf_name := "F1"; mf_param := (TBasic BString); mf_result := (TBasic BInt8) |}] in {| ps_env := E; ps_fuel := 11; ps_jobs := [{| j_env := E; j_fuel := 11; j_src := "T"; j_dst := "T"; j_funcs := FN; j_ic := false; j_src_acc := []; j_dst_acc := [{| ac_name := "Ratio"; ac_ty := (TBasic BInt8); ac_set := false; ac_path := ["ratio"] |}; {| ac_name := "SetRatio"; ac_ty := (TBasic BInt8); ac_set := true; ac_path := ["ratio"] |}]; j_src_ctor := []; j_dst_ctor := [{| cp_field := "ratio"; cp_path := ["ratio"]; cp_ty := (TBasic BInt8) |}]; j_src_shootnew := false; j_manual_to := None; j_manual_from := None; j_mapper_hop := None |}]; ps_funcs := [("F0", (FLen BInt8 (1)%Z)); ("F1", (FLen BInt8 (7)%Z))]; ps_manual_to := []; ps_manual_from := []; ps_way := WBoth |}).
Definition ex8_v : val := (VStruct [("Mapper", (VStruct [])); ("Ratio", (VStr "ab"))]).

(* ex9: the mapper type is embedded BY POINTER in the source type and its methods
   have value receivers (K_map_mapper_ptr_embedded):
     src:  type Mapper struct{}; func (Mapper) StrToI8(string) int8; func (Mapper) I8ToStr(int8) string
           type T struct { *Mapper; ID int; Amt string }
     dest: type T struct { ID int; Amt int8 } *)
Definition ex9 : pairspec :=
(let E : env := [((PSrc, "Mapper"), DStruct []);
  ((PSrc, "T"), DStruct [{| sf_name := "Mapper"; sf_emb := true; sf_ty := (TPtr (TNamed PSrc "Mapper")); sf_tag := "" |}; {| sf_name := "ID"; sf_emb := false; sf_ty := (TBasic BInt); sf_tag := "" |}; {| sf_name := "Amt"; sf_emb := false; sf_ty := (TBasic BString); sf_tag := "" |}]);
  ((PDst, "T"), DStruct [{| sf_name := "ID"; sf_emb := false; sf_ty := (TBasic BInt); sf_tag := "" |}; {| sf_name := "Amt"; sf_emb := false; sf_ty := (TBasic BInt8); sf_tag := "" |}])] in
 let FN : list mfunc := [{| mf_name := "StrToI8"; mf_param := (TBasic BString); mf_result := (TBasic BInt8) |}; {| mf_name := "I8ToStr"; mf_param := (TBasic BInt8); mf_result := (TBasic BString) |}] in
 {| ps_env := E; ps_fuel := 6; ps_jobs := [{| j_env := E; j_fuel := 6; j_src := "T"; j_dst := "T"; j_funcs := FN; j_ic := false; j_src_acc := []; j_dst_acc := []; j_src_ctor := []; j_dst_ctor := []; j_src_shootnew := false; j_manual_to := None; j_manual_from := None; j_mapper_hop := Some ["Mapper"] |}]; ps_funcs := [("StrToI8", (FLen BInt8 (0)%Z)); ("I8ToStr", (FParity "#x"))]; ps_manual_to := []; ps_manual_from := []; ps_way := WBoth |}).

Definition ex9_d : val := VStruct [("ID", VInt 2); ("Amt", VInt 3)].
Definition ex9_dirty : val := VStruct [("Mapper", VPtr (VStruct [])); ("ID", VInt 9); ("Amt", VStr "old")].
Definition ex9_v : val := VStruct [("Mapper", VPtr (VStruct [])); ("ID", VInt 1); ("Amt", VStr "ab")].
Definition ex9_v_nil : val := VStruct [("Mapper", VNil); ("ID", VInt 1); ("Amt", VStr "ab")].

(* ex10: corpus pair 14 (K_map_tag_underscore); ex11: corpus pair 15 (K_map_embedded_nonstruct) *)
Definition ex10 : pairspec :=
(let E : env := [((PSrc, "T"), DStruct [{| sf_name := "User_Name"; sf_emb := false; sf_ty := (TBasic BString); sf_tag := "Title" |}; {| sf_name := "Alpha"; sf_emb := false; sf_ty := (TBasic BString); sf_tag := "Nick_name" |}; {| sf_name := "Beta"; sf_emb := false; sf_ty := (TBasic BInt); sf_tag := "zip_code" |}; {| sf_name := "ID"; sf_emb := false; sf_ty := (TBasic BInt); sf_tag := "" |}]);
  ((PDst, "T"), DStruct [{| sf_name := "Title"; sf_emb := false; sf_ty := (TBasic BString); sf_tag := "" |}; {| sf_name := "Nick_name"; sf_emb := false; sf_ty := (TBasic BString); sf_tag := "" |}; {| sf_name := "ZipCode"; sf_emb := false; sf_ty := (TBasic BInt); sf_tag := "" |}; {| sf_name := "ID"; sf_emb := false; sf_ty := (TBasic BInt); sf_tag := "" |}]);
  (((POth "common"), "Level"), DBasic BInt);
  (((POth "common"), "Code"), DBasic BString);
  (((POth "common"), "Ratio"), DBasic BFloat64);
  (((POth "common"), "Flag"), DBasic BBool);
  (((POth "common"), "Tiny"), DBasic BInt8);
  (((POth "common"), "Money"), DStruct [{| sf_name := "Units"; sf_emb := false; sf_ty := (TBasic BInt64); sf_tag := "" |}; {| sf_name := "Cur"; sf_emb := false; sf_ty := (TBasic BString); sf_tag := "" |}])] in let FN : list mfunc := [] in {| ps_env := E; ps_fuel := 10; ps_jobs := [{| j_env := E; j_fuel := 10; j_src := "T"; j_dst := "T"; j_funcs := []; j_ic := false; j_src_acc := []; j_dst_acc := []; j_src_ctor := []; j_dst_ctor := []; j_src_shootnew := false; j_manual_to := None; j_manual_from := None; j_mapper_hop := None |}]; ps_funcs := []; ps_manual_to := []; ps_manual_from := []; ps_way := WBoth |}).
Definition ex11 : pairspec :=
(let E : env := [((PSrc, "T"), DStruct [{| sf_name := "Level"; sf_emb := true; sf_ty := (TNamed (POth "common") "Level"); sf_tag := "" |}; {| sf_name := "ID"; sf_emb := false; sf_ty := (TBasic BInt); sf_tag := "" |}]);
  ((PDst, "T"), DStruct [{| sf_name := "Level"; sf_emb := false; sf_ty := (TBasic BInt16); sf_tag := "" |}; {| sf_name := "ID"; sf_emb := false; sf_ty := (TBasic BInt); sf_tag := "" |}]);
  (((POth "common"), "Level"), DBasic BInt);
  (((POth "common"), "Code"), DBasic BString);
  (((POth "common"), "Ratio"), DBasic BFloat64);
  (((POth "common"), "Flag"), DBasic BBool);
  (((POth "common"), "Tiny"), DBasic BInt8);
  (((POth "common"), "Money"), DStruct [{| sf_name := "Units"; sf_emb := false; sf_ty := (TBasic BInt64); sf_tag := "" |}; {| sf_name := "Cur"; sf_emb := false; sf_ty := (TBasic BString); sf_tag := "" |}])] in let FN : list mfunc := [] in {| ps_env := E; ps_fuel := 10; ps_jobs := [{| j_env := E; j_fuel := 10; j_src := "T"; j_dst := "T"; j_funcs := []; j_ic := false; j_src_acc := []; j_dst_acc := []; j_src_ctor := []; j_dst_ctor := []; j_src_shootnew := false; j_manual_to := None; j_manual_from := None; j_mapper_hop := None |}]; ps_funcs := []; ps_manual_to := []; ps_manual_from := []; ps_way := WBoth |}).

(* ex12: accessor tables that no `shoot new -getset` run produces: two setters and a
   constructor parameter on ONE backing field (the counter-model of the C15 review) *)
Definition ex12_env : env :=
  [((PSrc, "T"), DStruct [{| sf_name := "A"; sf_emb := false; sf_ty := TBasic BInt; sf_tag := "" |};
                          {| sf_name := "B"; sf_emb := false; sf_ty := TBasic BInt; sf_tag := "" |}]);
   ((PDst, "T"), DStruct [{| sf_name := "x"; sf_emb := false; sf_ty := TBasic BInt; sf_tag := "" |}])].
Definition ex12_job : job :=
  {| j_env := ex12_env; j_fuel := 5; j_src := "T"; j_dst := "T"; j_funcs := []; j_ic := false; j_src_acc := [];
     j_dst_acc := [{| ac_name := "SetA"; ac_ty := TBasic BInt; ac_set := true; ac_path := ["x"] |};
                   {| ac_name := "SetB"; ac_ty := TBasic BInt; ac_set := true; ac_path := ["x"] |}];
     j_src_ctor := []; j_dst_ctor := [{| cp_field := "b"; cp_path := ["x"]; cp_ty := TBasic BInt |}];
     j_src_shootnew := false; j_manual_to := None; j_manual_from := None; j_mapper_hop := None |}.
