(* shoot's flattening (fields.go) = pairwise shadow marking applied to the plain
   depth-first list of field occurrences.

   raw_type / raw_fields / raw_top : the depth-first list WITHOUT marking.
   flatten_is_marked_raw           : flatten = COk (mark raw, has_new_spec)
   shadowed_in                     : "some entry of the same name is shallower" *)
From Coq Require Import String Ascii List Bool Arith Lia.
From Shoot Require Import Base.Str Base.GoVal Model.Transfer Model.CtorDirective Model.Ctor Model.CtorSpec.
Import ListNotations.
Local Open Scope list_scope.

(* ------------------------------------------------------------ the raw list *)
Definition raw_fields_with (rt : nat -> path -> ty -> bool -> option (list field))
           (depth : nat) (pre : path) (is_new : bool) : list tfield -> option (list field) :=
  fix go (fs : list tfield) : option (list field) :=
    match fs with
    | [] => Some []
    | (n, ft, emb) :: fs' =>
        match (if emb : bool then rt depth pre ft is_new else Some [promoted_entry n ft depth is_new pre]), go fs' with
        | Some a, Some b => Some (a ++ b)
        | _, _ => None
        end
    end.

Fixpoint raw_type (pkg : pkg_spec) (fuel : nat) (depth : nat) (pre : path) (t : ty) (is_new : bool)
  : option (list field) :=
  match struct_of pkg t with
  | None => Some []
  | Some si =>
      match fuel with
      | O => None
      | S fuel' =>
          let e := embedded_entry t depth pre in
          option_map (cons e)
            (raw_fields_with (raw_type pkg fuel') (S depth) (f_path e) is_new (struct_fields si))
      end
  end.

Definition raw_fields (pkg : pkg_spec) (fuel : nat) := raw_fields_with (raw_type pkg fuel).

Lemma raw_fields_cons : forall pkg fuel depth pre is_new n ft emb fs,
  raw_fields pkg fuel depth pre is_new ((n, ft, emb) :: fs) =
  match (if emb : bool then raw_type pkg fuel depth pre ft is_new else Some [promoted_entry n ft depth is_new pre]),
        raw_fields pkg fuel depth pre is_new fs with
  | Some a, Some b => Some (a ++ b)
  | _, _ => None
  end.
Proof. reflexivity. Qed.

Lemma raw_type_unfold : forall pkg fuel depth pre t is_new,
  raw_type pkg fuel depth pre t is_new =
  match struct_of pkg t with
  | None => Some []
  | Some si =>
      match fuel with
      | O => None
      | S fuel' =>
          option_map (cons (embedded_entry t depth pre))
            (raw_fields pkg fuel' (S depth) (f_path (embedded_entry t depth pre)) is_new (struct_fields si))
      end
  end.
Proof. intros. destruct fuel; reflexivity. Qed.

Definition csa := check_shadow_and_append.

(* the literal expansion only ever appends, one entry at a time *)
Lemma expand_is_fold : forall pkg fuel depth pre t is_new acc,
  expand_if_struct pkg fuel depth pre t is_new acc =
  option_map (fun l => fold_left csa l acc) (raw_type pkg fuel depth pre t is_new).
Proof.
  intros pkg fuel. induction fuel as [|fuel IH]; intros depth pre t is_new acc.
  - simpl. destruct (struct_of pkg t); reflexivity.
  - rewrite raw_type_unfold. simpl. destruct (struct_of pkg t) as [si|]; [|reflexivity].
    set (e := embedded_entry t depth pre).
    assert (G : forall fs acc1,
      (fix extract (fs : list tfield) (fields : list field) {struct fs} : option (list field) :=
         match fs with
         | [] => Some fields
         | (n, ft, emb) :: fs' =>
             if emb
             then match expand_if_struct pkg fuel (S depth) (f_path e) ft is_new fields with
                  | Some fields' => extract fs' fields'
                  | None => None
                  end
             else extract fs' (check_shadow_and_append fields (promoted_entry n ft (S depth) is_new (f_path e)))
         end) fs acc1 =
      option_map (fun l => fold_left csa l acc1) (raw_fields pkg fuel (S depth) (f_path e) is_new fs)).
    { induction fs as [|[[n ft] emb] fs IHfs]; intros acc1.
      - reflexivity.
      - rewrite raw_fields_cons. destruct emb.
        + rewrite IH. destruct (raw_type pkg fuel (S depth) (f_path e) ft is_new) as [a|]; simpl.
          * rewrite IHfs. destruct (raw_fields pkg fuel (S depth) (f_path e) is_new fs) as [b|]; simpl; auto.
            rewrite fold_left_app. reflexivity.
          * reflexivity.
        + rewrite IHfs. destruct (raw_fields pkg fuel (S depth) (f_path e) is_new fs) as [b|]; simpl; auto. }
    rewrite G.
    destruct (raw_fields pkg fuel (S depth) (f_path e) is_new (struct_fields si)); reflexivity.
Qed.

(* the entries of the struct's own named fields (filters and directives applied) *)
Fixpoint raw_names (fl : ctor_flags) (fd : fdecl) (is_new : bool) (names : list ident) : cres (list field) :=
  match names with
  | [] => COk []
  | n :: names' =>
      if String.prefix "_" n then raw_names fl fd is_new names'
      else if tag_is_dash (fd_tag fd) then raw_names fl fd is_new names'
      else
        match (if fl_getset fl then parse_get_set (fd_doc fd) n else Some (false, false)) with
        | None => CFatal ("exported field " ++ n ++ " should not has get/set flag")%string
        | Some (get, set) =>
            let defv := parse_def (fd_doc fd) in
            let tag := match fd_tag fd with
                       | Some t => if fl_json fl then parse_json_tag t else ""%string
                       | None => ""%string end in
            match raw_names fl fd is_new names' with
            | COk r => COk (top_entry n (fd_ty fd) get set is_new defv tag :: r)
            | e => e
            end
        end
  end.

Lemma top_names_is_fold : forall fl fd is_new names acc,
  top_names fl fd is_new names acc =
  match raw_names fl fd is_new names with
  | COk l => COk (fold_left csa l acc)
  | CFatal m => CFatal m
  | COutOfFuel => COutOfFuel
  end.
Proof.
  intros fl fd is_new names. induction names as [|n names IH]; intros acc; simpl; auto.
  destruct (String.prefix "_" n); [apply IH|].
  destruct (tag_is_dash (fd_tag fd)); [apply IH|].
  destruct (if fl_getset fl then parse_get_set (fd_doc fd) n else Some (false, false)) as [[get set]|]; auto.
  rewrite IH. destruct (raw_names fl fd is_new names); reflexivity.
Qed.

Definition raw_decl (pkg : pkg_spec) (fl : ctor_flags) (fuel : nat) (fd : fdecl) : cres (list field) :=
  let is_new := parse_new_comment (fd_doc fd) in
  match fd_names fd with
  | [] => match raw_type pkg fuel 0 [] (fd_ty fd) is_new with Some l => COk l | None => COutOfFuel end
  | names => raw_names fl fd is_new names
  end.

Fixpoint raw_top (pkg : pkg_spec) (fl : ctor_flags) (fuel : nat) (fds : list fdecl) : cres (list field) :=
  match fds with
  | [] => COk []
  | fd :: r =>
      match raw_decl pkg fl fuel fd with
      | COk a => match raw_top pkg fl fuel r with COk b => COk (a ++ b) | e => e end
      | e => e
      end
  end.

Lemma extract_top_is_fold : forall pkg fl fuel fds acc hn,
  extract_top_fields pkg fl fuel fds acc hn =
  match raw_top pkg fl fuel fds with
  | COk l => COk (fold_left csa l acc, hn || existsb (fun fd => parse_new_comment (fd_doc fd)) fds)
  | CFatal m => CFatal m
  | COutOfFuel => COutOfFuel
  end.
Proof.
  intros pkg fl fuel fds. induction fds as [|fd fds IH]; intros acc hn.
  - simpl. rewrite orb_false_r. reflexivity.
  - cbn [extract_top_fields raw_top existsb]. unfold raw_decl.
    assert (HN : forall rest, (if parse_new_comment (fd_doc fd) then true else hn) || rest
                              = hn || (parse_new_comment (fd_doc fd) || rest)).
    { intros rest. destruct (parse_new_comment (fd_doc fd)), hn; reflexivity. }
    destruct (fd_names fd) as [|n names] eqn:EN.
    + rewrite expand_is_fold.
      destruct (raw_type pkg fuel 0 [] (fd_ty fd) (parse_new_comment (fd_doc fd))) as [a|]; simpl; auto.
      rewrite IH. destruct (raw_top pkg fl fuel fds); auto.
      rewrite fold_left_app, HN. reflexivity.
    + rewrite top_names_is_fold.
      destruct (raw_names fl fd (parse_new_comment (fd_doc fd)) (n :: names)) as [a| |]; auto.
      rewrite IH. destruct (raw_top pkg fl fuel fds); auto.
      rewrite fold_left_app, HN. reflexivity.
Qed.

(* ------------------------------------------------------------------ marking *)
Definition same_name (a b : field) : bool := String.eqb (f_name a) (f_name b).

(* some entry of l has e's name and is strictly shallower *)
Definition shadowed_in (l : list field) (e : field) : bool :=
  existsb (fun f => same_name f e && Nat.ltb (f_depth f) (f_depth e)) l.

Definition mark_with (l : list field) (e : field) : field :=
  if shadowed_in l e then set_shadowed e else e.

Definition markmap (l r : list field) : list field := map (mark_with l) r.

Lemma set_shadowed_idem : forall e, set_shadowed (set_shadowed e) = set_shadowed e.
Proof. reflexivity. Qed.

Lemma set_shadowed_noop : forall e, f_shadowed e = true -> set_shadowed e = e.
Proof. intros [] H; simpl in *; subst; reflexivity. Qed.

Lemma mark_pass_spec : forall l x,
  mark_pass l x =
  (map (fun f => if same_name f x && Nat.ltb (f_depth x) (f_depth f) then set_shadowed f else f) l,
   if existsb (fun f => same_name f x && Nat.ltb (f_depth f) (f_depth x)) l then set_shadowed x else x).
Proof.
  induction l as [|f l IH]; intros x.
  - reflexivity.
  - unfold same_name in *. cbn [mark_pass map existsb].
    destruct (String.eqb (f_name f) (f_name x)) eqn:EN; cbn [negb andb orb].
    + destruct (Nat.ltb (f_depth x) (f_depth f)) eqn:L1.
      * assert (L2 : Nat.ltb (f_depth f) (f_depth x) = false).
        { apply Nat.ltb_ge. apply Nat.ltb_lt in L1. lia. }
        rewrite L2. rewrite IH. reflexivity.
      * destruct (Nat.ltb (f_depth f) (f_depth x)) eqn:L2.
        -- rewrite IH. cbn [f_name f_depth set_shadowed]. f_equal.
           destruct (existsb _ l); reflexivity.
        -- rewrite IH. reflexivity.
    + rewrite IH. reflexivity.
Qed.

Lemma mark_pass_spec' : forall l x,
  mark_pass l x =
  (map (fun f => if same_name f x && Nat.ltb (f_depth x) (f_depth f) then set_shadowed f else f) l,
   if shadowed_in l x then set_shadowed x else x).
Proof. intros. apply mark_pass_spec. Qed.

Definition unmarked (l : list field) : Prop := forall e, In e l -> f_shadowed e = false.

Lemma same_name_set_shadowed_l : forall a b, same_name (set_shadowed a) b = same_name a b.
Proof. reflexivity. Qed.

Lemma shadowed_in_app : forall l1 l2 e, shadowed_in (l1 ++ l2) e = shadowed_in l1 e || shadowed_in l2 e.
Proof. intros. unfold shadowed_in. apply existsb_app. Qed.

Lemma same_name_sym : forall a b, same_name a b = same_name b a.
Proof. intros. unfold same_name. apply String.eqb_sym. Qed.

Lemma mark_with_name : forall l f, f_name (mark_with l f) = f_name f.
Proof. intros. unfold mark_with. destruct (shadowed_in l f); reflexivity. Qed.
Lemma mark_with_depth : forall l f, f_depth (mark_with l f) = f_depth f.
Proof. intros. unfold mark_with. destruct (shadowed_in l f); reflexivity. Qed.

Lemma shadowed_in_markmap : forall l r x, shadowed_in (map (mark_with l) r) x = shadowed_in r x.
Proof.
  intros l r x. unfold shadowed_in. induction r as [|a r IH]; simpl; auto.
  rewrite IH. unfold same_name. rewrite mark_with_name, mark_with_depth. reflexivity.
Qed.

(* one append keeps "every flag = shadowed_in the whole list" *)
Lemma csa_markmap : forall r x, f_shadowed x = false ->
  csa (markmap r r) x = markmap (r ++ [x]) (r ++ [x]).
Proof.
  intros r x Hx. unfold csa, check_shadow_and_append.
  rewrite mark_pass_spec'.
  unfold markmap. rewrite map_app. f_equal.
  - rewrite map_map. apply map_ext. intros f.
    unfold same_name. rewrite mark_with_name, mark_with_depth. fold (same_name f x).
    unfold mark_with. rewrite shadowed_in_app.
    assert (E : shadowed_in [x] f = same_name f x && Nat.ltb (f_depth x) (f_depth f)).
    { unfold shadowed_in. cbn [existsb]. rewrite orb_false_r, (same_name_sym x f). reflexivity. }
    rewrite E.
    destruct (shadowed_in r f); cbn [orb];
      destruct (same_name f x && Nat.ltb (f_depth x) (f_depth f)); reflexivity.
  - simpl. f_equal. rewrite shadowed_in_markmap. unfold mark_with. rewrite shadowed_in_app.
    assert (Self : shadowed_in [x] x = false).
    { unfold shadowed_in. simpl. rewrite Nat.ltb_irrefl, andb_false_r. reflexivity. }
    rewrite Self, orb_false_r. reflexivity.
Qed.

Lemma fold_csa_markmap : forall l r, unmarked l ->
  fold_left csa l (markmap r r) = markmap (r ++ l) (r ++ l).
Proof.
  induction l as [|x l IH]; intros r Hu; simpl.
  - rewrite app_nil_r. reflexivity.
  - rewrite csa_markmap by (apply Hu; left; reflexivity).
    rewrite IH by (intros e He; apply Hu; right; exact He).
    rewrite <- app_assoc. reflexivity.
Qed.

Definition mark (l : list field) : list field := markmap l l.

Lemma fold_csa_mark : forall l, unmarked l -> fold_left csa l [] = mark l.
Proof. intros l Hu. apply (fold_csa_markmap l [] Hu). Qed.

(* ------------------------------------------------ raw lists carry no marks *)
Lemma raw_type_unmarked : forall pkg fuel depth pre t is_new l,
  raw_type pkg fuel depth pre t is_new = Some l -> unmarked l.
Proof.
  intros pkg fuel. induction fuel as [|fuel IH]; intros depth pre t is_new l H; rewrite raw_type_unfold in H.
  - destruct (struct_of pkg t); inversion H; subst. intros e [].
  - destruct (struct_of pkg t) as [si|]; [|inversion H; subst; intros e []].
    set (e0 := embedded_entry t depth pre) in *.
    assert (G : forall fs l', raw_fields pkg fuel (S depth) (f_path e0) is_new fs = Some l' -> unmarked l').
    { induction fs as [|[[n ft] emb] fs IHfs]; intros l' H'.
      - inversion H'; subst. intros e [].
      - rewrite raw_fields_cons in H'.
        destruct emb.
        + destruct (raw_type pkg fuel (S depth) (f_path e0) ft is_new) as [a|] eqn:Ea; [|discriminate].
          destruct (raw_fields pkg fuel (S depth) (f_path e0) is_new fs) as [b|] eqn:Eb; [|discriminate].
          inversion H'; subst. intros e He. apply in_app_or in He. destruct He as [He|He].
          * eapply IH; eauto.
          * eapply IHfs; eauto.
        + destruct (raw_fields pkg fuel (S depth) (f_path e0) is_new fs) as [b|] eqn:Eb; [|discriminate].
          inversion H'; subst. intros e [He|He]; [subst; reflexivity|eapply IHfs; eauto]. }
    destruct (raw_fields pkg fuel (S depth) (f_path e0) is_new (struct_fields si)) as [l'|] eqn:E; [|discriminate].
    inversion H; subst. intros e [He|He].
    + subst e. unfold e0, embedded_entry. destruct (qualified_name t). reflexivity.
    + eapply G; eauto.
Qed.

Lemma raw_names_unmarked : forall fl fd is_new names l,
  raw_names fl fd is_new names = COk l -> unmarked l.
Proof.
  intros fl fd is_new names. induction names as [|n names IH]; intros l H; simpl in H.
  - inversion H; subst. intros e [].
  - destruct (String.prefix "_" n); [eauto|].
    destruct (tag_is_dash (fd_tag fd)); [eauto|].
    destruct (if fl_getset fl then parse_get_set (fd_doc fd) n else Some (false, false)) as [[get set]|]; [|discriminate].
    destruct (raw_names fl fd is_new names) as [r| |]; try discriminate.
    inversion H; subst. intros e [He|He].
    + subst e. unfold top_entry. destruct (qualified_name (fd_ty fd)). reflexivity.
    + eapply IH; eauto.
Qed.

Lemma raw_top_unmarked : forall pkg fl fuel fds l, raw_top pkg fl fuel fds = COk l -> unmarked l.
Proof.
  intros pkg fl fuel fds. induction fds as [|fd fds IH]; intros l H; simpl in H.
  - inversion H; subst. intros e [].
  - destruct (raw_decl pkg fl fuel fd) as [a| |] eqn:Ea; try discriminate.
    destruct (raw_top pkg fl fuel fds) as [b| |] eqn:Eb; try discriminate.
    inversion H; subst. intros e He. apply in_app_or in He. destruct He as [He|He]; [|eapply IH; eauto].
    unfold raw_decl in Ea. destruct (fd_names fd).
    + destruct (raw_type pkg fuel 0 [] (fd_ty fd) (parse_new_comment (fd_doc fd))) eqn:Er; [|discriminate].
      inversion Ea; subst. eapply raw_type_unmarked; eauto.
    + eapply raw_names_unmarked; eauto.
Qed.

(* flatten = marking applied to the plain depth-first list *)
Theorem flatten_is_marked_raw : forall pkg fl fuel sd fs hn,
  flatten pkg fl fuel sd = COk (fs, hn) ->
  exists raw, raw_top pkg fl fuel (sd_fields sd) = COk raw /\ fs = mark raw /\ hn = has_new_spec sd.
Proof.
  intros pkg fl fuel sd fs hn H. unfold flatten in H. rewrite extract_top_is_fold in H.
  destruct (raw_top pkg fl fuel (sd_fields sd)) as [raw| |] eqn:E; try discriminate.
  inversion H; subst. exists raw. split; [reflexivity|]. split.
  - apply fold_csa_mark. eapply raw_top_unmarked; eauto.
  - reflexivity.
Qed.

Lemma flatten_of_raw : forall pkg fl fuel sd raw,
  raw_top pkg fl fuel (sd_fields sd) = COk raw ->
  flatten pkg fl fuel sd = COk (mark raw, has_new_spec sd).
Proof.
  intros. unfold flatten. rewrite extract_top_is_fold, H.
  rewrite fold_csa_mark by (eapply raw_top_unmarked; eauto). reflexivity.
Qed.

(* what marking preserves *)
Lemma mark_with_path : forall l f, f_path (mark_with l f) = f_path f.
Proof. intros. unfold mark_with. destruct (shadowed_in l f); reflexivity. Qed.
Lemma mark_with_embedded : forall l f, f_embedded (mark_with l f) = f_embedded f.
Proof. intros. unfold mark_with. destruct (shadowed_in l f); reflexivity. Qed.
Lemma mark_with_ptr : forall l f, f_ptr (mark_with l f) = f_ptr f.
Proof. intros. unfold mark_with. destruct (shadowed_in l f); reflexivity. Qed.
Lemma mark_with_new : forall l f, f_new (mark_with l f) = f_new f.
Proof. intros. unfold mark_with. destruct (shadowed_in l f); reflexivity. Qed.
Lemma mark_with_def : forall l f, f_def (mark_with l f) = f_def f.
Proof. intros. unfold mark_with. destruct (shadowed_in l f); reflexivity. Qed.
Lemma mark_with_qtype : forall l f, f_qtype (mark_with l f) = f_qtype f.
Proof. intros. unfold mark_with. destruct (shadowed_in l f); reflexivity. Qed.
Lemma mark_with_ty : forall l f, f_ty (mark_with l f) = f_ty f.
Proof. intros. unfold mark_with. destruct (shadowed_in l f); reflexivity. Qed.
Lemma mark_with_shadowed : forall l f, f_shadowed f = false -> f_shadowed (mark_with l f) = shadowed_in l f.
Proof. intros. unfold mark_with. destruct (shadowed_in l f) eqn:E; simpl; auto. Qed.
