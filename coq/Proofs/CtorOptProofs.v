(* C13: options are single-field assignments; With = defaults, then the options in
   order; the last assignment to a field wins; nothing else changes. *)
From Coq Require Import String Ascii List Bool Arith ZArith Lia.
From Shoot Require Import Base.Str Base.GoVal Model.Transfer Model.CtorDirective Model.Ctor Model.CtorSpec Model.CtorOpt.
From Shoot Require Import Proofs.GoValProofs Proofs.CtorFlattenProofs Proofs.CtorResolveProofs Proofs.CtorNewProofs
                          Proofs.CtorC02Proofs.
Import ListNotations.
Local Open Scope list_scope.

(* ------------------------------------------------ runs of path assignments *)
Fixpoint run (l : list (path * val)) (v : val) : res val :=
  match l with
  | [] => Ok v
  | (p, x) :: r => bind (update v p x) (run r)
  end.

(* the value of the last assignment to path q, if any *)
Fixpoint last_assign (q : path) (l : list (path * val)) : option val :=
  match l with
  | [] => None
  | (p, x) :: r => match last_assign q r with
                   | Some y => Some y
                   | None => if path_eqb p q then Some x else None
                   end
  end.

Definition apart (p q : path) : Prop := p = q \/ diverge p q = true.

Lemma diverge_neq : forall p q, diverge p q = true -> p <> q.
Proof.
  intros p q D E. subst. unfold diverge in D. rewrite is_prefix_refl in D. discriminate.
Qed.

Lemma run_last_wins : forall l v v' q,
  run l v = Ok v' ->
  (forall p, In p (map fst l) -> apart p q) ->
  lookup v' q = match last_assign q l with Some x => Ok x | None => lookup v q end.
Proof.
  induction l as [|[p x] r IH]; intros v v' q H A; simpl in *.
  - inversion H; subst. reflexivity.
  - destruct (update v p x) as [v1| |] eqn:U; simpl in H; try discriminate.
    rewrite (IH v1 v' q H) by (intros p' Hp'; apply A; right; exact Hp').
    destruct (last_assign q r); auto.
    destruct (A p (or_introl eq_refl)) as [E|D].
    + subst q. rewrite path_eqb_refl. eapply lookup_update_same; eauto.
    + assert (path_eqb p q = false).
      { apply not_true_is_false. intros E. apply path_eqb_eq in E. exact (diverge_neq _ _ D E). }
      rewrite H0. eapply lookup_update_diverge; eauto.
Qed.

Lemma run_ok : forall l v,
  (forall p, In p (map fst l) -> exists y, lookup v p = Ok y) ->
  (forall p q, In p (map fst l) -> In q (map fst l) -> apart p q) ->
  exists v', run l v = Ok v'.
Proof.
  induction l as [|[p x] r IH]; intros v L A; simpl.
  - eauto.
  - destruct (update_ok_of_lookup p v x (L p (or_introl eq_refl))) as [v1 U]. rewrite U. simpl.
    apply IH.
    + intros q Hq. destruct (A p q (or_introl eq_refl) (or_intror Hq)) as [E|D].
      * subst q. exists x. eapply lookup_update_same; eauto.
      * rewrite (lookup_update_diverge _ _ _ _ _ U D). apply L. right. exact Hq.
    + intros a b Ha Hb. apply A; right; assumption.
Qed.

(* ------------------------------------------------ options as path assignments *)
Definition opt_field (o : optv) : ident := match o with OptV f _ => f end.
Definition opt_value (o : optv) : val := match o with OptV _ x => x end.

(* every assignment succeeded, so every field resolved *)
Lemma apply_opts_run : forall pkg fuel sd opts v v',
  apply_opts pkg fuel sd opts v = Ok v' ->
  exists ps, Forall2 (fun o px => resolve pkg fuel sd (opt_field o) = Some (fst px) /\ snd px = opt_value o) opts ps /\
             run ps v = Ok v'.
Proof.
  intros pkg fuel sd opts. induction opts as [|[f x] r IH]; intros v v' H; simpl in H.
  - inversion H; subst. exists []. split; [constructor|reflexivity].
  - unfold assign in H. destruct (resolve pkg fuel sd f) as [p|] eqn:R; [|discriminate].
    destruct (update v p x) as [v1| |] eqn:U; simpl in H; try discriminate.
    destruct (IH v1 v' H) as [ps [F Rn]]. exists ((p, x) :: ps). split.
    + constructor; auto.
    + simpl. rewrite U. exact Rn.
Qed.

Definition def_opts (defs : list (ident * string)) : list optv := map (fun d => OptV (fst d) (VDef (snd d))) defs.

Lemma set_default_is_opts : forall pkg fuel sd defs v,
  set_default pkg fuel sd defs v = apply_opts pkg fuel sd (def_opts defs) v.
Proof.
  intros pkg fuel sd defs. induction defs as [|[f t] r IH]; intros v; simpl; auto.
  destruct (assign pkg fuel sd v f (VDef t)); simpl; auto.
Qed.

Lemma apply_opts_app : forall pkg fuel sd a b v,
  apply_opts pkg fuel sd (a ++ b) v = bind (apply_opts pkg fuel sd a v) (apply_opts pkg fuel sd b).
Proof.
  intros pkg fuel sd a. induction a as [|[f x] a IH]; intros b v; simpl; auto.
  destruct (assign pkg fuel sd v f x); simpl; auto.
Qed.

(* With = one run: the defaults (if the type has any), then the options, in order *)
Definition with_sequence (od : opt_data) (opts : list optv) : list optv :=
  (if od_has_default od then def_opts (od_defaults od) else []) ++ opts.

Lemma with_is_apply : forall pkg fuel sd od v opts,
  with_ pkg fuel sd od v opts = apply_opts pkg fuel sd (with_sequence od opts) v.
Proof.
  intros. unfold with_, with_sequence. rewrite apply_opts_app.
  destruct (od_has_default od); simpl; auto. rewrite set_default_is_opts. reflexivity.
Qed.

(* the last option (by field name) in a sequence *)
Fixpoint last_opt (f : ident) (l : list optv) : option val :=
  match l with
  | [] => None
  | OptV g x :: r => match last_opt f r with
                     | Some y => Some y
                     | None => if String.eqb g f then Some x else None
                     end
  end.

(* the paths of two option fields never overlap unless the fields are the same *)
Definition fields_apart (pkg : pkg_spec) (fuel : nat) (sd : sdecl) (fs : list ident) : Prop :=
  forall f g p q, In f fs -> In g fs -> resolve pkg fuel sd f = Some p -> resolve pkg fuel sd g = Some q ->
                  (f = g) \/ diverge p q = true.

Lemma last_assign_last_opt : forall pkg fuel sd opts ps f q,
  Forall2 (fun o px => resolve pkg fuel sd (opt_field o) = Some (fst px) /\ snd px = opt_value o) opts ps ->
  resolve pkg fuel sd f = Some q ->
  fields_apart pkg fuel sd (f :: map opt_field opts) ->
  last_assign q ps = last_opt f opts.
Proof.
  intros pkg fuel sd opts ps f q F R A. induction F as [|[g x] [p y] opts ps [Hr Hv] F IH]; simpl; auto.
  simpl in Hr, Hv. subst y.
  rewrite IH.
  2:{ intros a b pa pb Ha Hb. apply A; simpl in *; tauto. }
  destruct (last_opt f opts); auto.
  destruct (A g f p q) as [E|D]; simpl; auto.
  - subst g. rewrite Hr in R. inversion R; subst. rewrite path_eqb_refl, String.eqb_refl. reflexivity.
  - assert (path_eqb p q = false).
    { apply not_true_is_false. intros E. apply path_eqb_eq in E. exact (diverge_neq _ _ D E). }
    rewrite H. destruct (String.eqb g f) eqn:E; auto.
    apply String.eqb_eq in E. subst g. rewrite Hr in R. inversion R; subst.
    rewrite path_eqb_refl in H. discriminate.
Qed.

(* the theorem about sequences: after With, a field holds the value of the LAST
   assignment to it in (defaults ++ options); a field never assigned is unchanged *)
Theorem with_last_wins : forall pkg fuel sd od v opts v' f q,
  with_ pkg fuel sd od v opts = Ok v' ->
  resolve pkg fuel sd f = Some q ->
  fields_apart pkg fuel sd (f :: map opt_field (with_sequence od opts)) ->
  lookup v' q = match last_opt f (with_sequence od opts) with
                | Some x => Ok x
                | None => lookup v q
                end.
Proof.
  intros pkg fuel sd od v opts v' f q H R A. rewrite with_is_apply in H.
  destruct (apply_opts_run _ _ _ _ _ _ H) as [ps [F Rn]].
  rewrite <- (last_assign_last_opt pkg fuel sd _ ps f q F R A).
  apply run_last_wins; auto.
  intros p Hp. apply in_map_iff in Hp. destruct Hp as [[p' y] [E Hin]]. simpl in E. subst p'.
  (* p is the path of some option field g *)
  assert (exists o, In o (with_sequence od opts) /\ resolve pkg fuel sd (opt_field o) = Some p).
  { clear - F Hin. induction F as [|o px os ps [Hr Hv] F IH]; [destruct Hin|].
    destruct Hin as [Hin|Hin].
    - subst px. exists o. split; [left; auto|exact Hr].
    - destruct (IH Hin) as [o' [Ho' Hr']]. exists o'. split; [right; auto|exact Hr']. }
  destruct H0 as [o [Ho Hr]].
  destruct (A (opt_field o) f p q) as [E|D]; auto.
  - right. apply in_map. exact Ho.
  - left. reflexivity.
  - left. rewrite E in Hr. rewrite Hr in R. inversion R. reflexivity.
  - right. exact D.
Qed.

(* one option: it sets its field and changes no other *)
Theorem option_sets_exactly_its_field : forall pkg fuel sd v f x v' p,
  assign pkg fuel sd v f x = Ok v' -> resolve pkg fuel sd f = Some p ->
  lookup v' p = Ok x /\ forall q, diverge p q = true -> lookup v' q = lookup v q.
Proof.
  intros pkg fuel sd v f x v' p H R. unfold assign in H. rewrite R in H. split.
  - eapply lookup_update_same; eauto.
  - intros q D. eapply lookup_update_diverge; eauto.
Qed.

(* NewWith is With applied to new(T), when *T's SetDefault is T's own *)
Theorem new_with_is_with_on_zero : forall pkg fuel sd od opts,
  new_with pkg fuel sd od (od_has_default od) opts =
  with_ pkg fuel sd od (VPtr (zero_struct pkg fuel (self_inst sd))) opts.
Proof. reflexivity. Qed.

(* With never fails on a value in which every option / default field can be read
   (e.g. the value NewT returned: all embedded pointers allocated) *)
Theorem with_succeeds : forall pkg fuel sd od v opts,
  (forall o, In o (with_sequence od opts) ->
     exists p y, resolve pkg fuel sd (opt_field o) = Some p /\ lookup v p = Ok y) ->
  fields_apart pkg fuel sd (map opt_field (with_sequence od opts)) ->
  exists v', with_ pkg fuel sd od v opts = Ok v'.
Proof.
  intros pkg fuel sd od v opts L A. rewrite with_is_apply.
  set (seq := with_sequence od opts) in *.
  assert (G : forall l v0, (forall o, In o l -> In o seq) ->
             (forall o, In o l -> exists p y, resolve pkg fuel sd (opt_field o) = Some p /\ lookup v0 p = Ok y) ->
             exists v', apply_opts pkg fuel sd l v0 = Ok v').
  { induction l as [|[g x] l IH]; intros v0 Sub L0; simpl; [eauto|].
    destruct (L0 (OptV g x) (or_introl eq_refl)) as [p [y [R Lk]]]. simpl in R.
    unfold assign. rewrite R.
    destruct (update_ok_of_lookup p v0 x (ex_intro _ y Lk)) as [v1 U]. rewrite U. simpl.
    apply IH.
    - intros o Ho. apply Sub. right. exact Ho.
    - intros o Ho. destruct (L0 o (or_intror Ho)) as [q [z [Rq Lq]]].
      exists q.
      assert (Hg : In g (map opt_field seq)).
      { apply in_map_iff. exists (OptV g x). split; auto. apply Sub. left. reflexivity. }
      assert (Ho' : In (opt_field o) (map opt_field seq)).
      { apply in_map. apply Sub. right. exact Ho. }
      destruct (A g (opt_field o) p q Hg Ho' R Rq) as [E|D].
      + assert (q = p) by (rewrite <- E in Rq; rewrite R in Rq; inversion Rq; reflexivity). subst q.
        exists x. split; [exact Rq|]. eapply lookup_update_same; eauto.
      + exists z. split; [exact Rq|]. rewrite (lookup_update_diverge _ _ _ _ _ U D). exact Lq. }
  apply G; auto.
Qed.

(* ------------------------------------------- the option data and the field list *)
Definition oentry (e : field) : bool := negb (f_shadowed e) && negb (f_embedded e).

Lemma loop_all : forall hn fs a,
  a_all (make_new_loop hn fs a) = a_all a ++ map f_name (filter oentry fs).
Proof.
  intros hn fs. induction fs as [|f fs IH]; intros a; simpl.
  - rewrite app_nil_r. reflexivity.
  - unfold oentry at 1. destruct (f_shadowed f); simpl; [apply IH|].
    destruct (f_embedded f); simpl; [apply IH|].
    destruct (hn && negb (f_new f)); rewrite IH; simpl; rewrite <- app_assoc; reflexivity.
Qed.

Definition dentry (e : field) : bool := oentry e && negb (String.eqb (f_def e) "").

Lemma loop_defs : forall hn fs a,
  a_defs (make_new_loop hn fs a) = a_defs a ++ map f_name (filter dentry fs).
Proof.
  intros hn fs. induction fs as [|f fs IH]; intros a; simpl.
  - rewrite app_nil_r. reflexivity.
  - unfold dentry at 1, oentry at 1. destruct (f_shadowed f); simpl; [apply IH|].
    destruct (f_embedded f); simpl; [apply IH|].
    destruct (hn && negb (f_new f)); rewrite IH; simpl;
      destruct (negb (String.eqb (f_def f) "")); simpl; rewrite <- ?app_assoc; reflexivity.
Qed.

Lemma loop_defmap_untouched : forall hn fs a n,
  (forall e, In e (filter dentry fs) -> f_name e <> n) ->
  assoc n (a_defmap (make_new_loop hn fs a)) = assoc n (a_defmap a).
Proof.
  intros hn fs. induction fs as [|f fs IH]; intros a n H; simpl; auto.
  simpl in H. unfold dentry at 1, oentry at 1 in H.
  destruct (f_shadowed f); simpl in *; [apply IH; auto|].
  destruct (f_embedded f); simpl in *; [apply IH; auto|].
  destruct (negb (String.eqb (f_def f) "")) eqn:D; simpl in H.
  - assert (Hn : f_name f <> n) by (apply H; left; reflexivity).
    destruct (hn && negb (f_new f)); rewrite IH by (intros e He; apply H; right; exact He); simpl;
      rewrite assoc_map_put; destruct (String.eqb n (f_name f)) eqn:E; auto;
      apply String.eqb_eq in E; congruence.
  - destruct (hn && negb (f_new f)); rewrite IH by auto; reflexivity.
Qed.

Lemma loop_defmap : forall hn fs a e,
  In e (filter dentry fs) ->
  (forall e', In e' (filter dentry fs) -> f_name e' = f_name e -> f_def e' = f_def e) ->
  assoc (f_name e) (a_defmap (make_new_loop hn fs a)) = Some (f_def e).
Proof.
  intros hn fs. induction fs as [|f fs IH]; intros a e He U; [destruct He|].
  assert (Later : existsb (fun e' => dentry e' && String.eqb (f_name e') (f_name e)) fs = true ->
                  forall a1, assoc (f_name e) (a_defmap (make_new_loop hn fs a1)) = Some (f_def e)).
  { intros Ex a1. apply existsb_exists in Ex. destruct Ex as [e2 [I2 C2]].
    apply andb_true_iff in C2. destruct C2 as [D2 N2]. apply String.eqb_eq in N2.
    assert (F2 : In e2 (filter dentry fs)) by (apply filter_In; auto).
    rewrite <- N2. rewrite (IH a1 e2 F2).
    - f_equal. apply U; auto. simpl. destruct (dentry f); [right|]; exact F2.
    - intros e' He' Hn'. rewrite (U e'), (U e2); auto.
      + simpl. destruct (dentry f); [right|]; exact F2.
      + simpl. destruct (dentry f); [right|]; exact He'.
      + congruence. }
  destruct (existsb (fun e' => dentry e' && String.eqb (f_name e') (f_name e)) fs) eqn:Ex.
  { simpl. destruct (f_shadowed f); simpl; [apply Later; auto|].
    destruct (f_embedded f); simpl; [apply Later; auto|].
    destruct (hn && negb (f_new f)); apply Later; auto. }
  assert (NoLater : forall e', In e' (filter dentry fs) -> f_name e' <> f_name e).
  { intros e' He' Hn'. apply filter_In in He'. destruct He' as [I' D'].
    assert (existsb (fun e'0 => dentry e'0 && String.eqb (f_name e'0) (f_name e)) fs = true).
    { apply existsb_exists. exists e'. split; auto. rewrite D', Hn', String.eqb_refl. reflexivity. }
    congruence. }
  simpl in He. destruct (dentry f) eqn:Df.
  - destruct He as [He|He]; [|exfalso; apply (NoLater e He); reflexivity]. subst f.
    unfold dentry, oentry in Df. apply andb_true_iff in Df. destruct Df as [Df Dd].
    apply andb_true_iff in Df. destruct Df as [Ds De].
    apply negb_true_iff in Ds. apply negb_true_iff in De.
    simpl. rewrite Ds, De. simpl. rewrite Dd.
    destruct (hn && negb (f_new e)); rewrite loop_defmap_untouched by exact NoLater; simpl;
      rewrite assoc_map_put, String.eqb_refl; reflexivity.
  - exfalso. apply (NoLater e He). reflexivity.
Qed.

Lemma in_filter_oentry : forall e fs, In e (filter oentry fs) <-> In e fs /\ f_shadowed e = false /\ f_embedded e = false.
Proof.
  intros. rewrite filter_In. unfold oentry. rewrite andb_true_iff, !negb_true_iff. tauto.
Qed.

(* the last path component of an entry is its name *)
Lemma level_fields_last : forall pkg n fs pre o,
  In o (level_fields pkg n fs pre) -> exists pre', fst o = pre' ++ [tf_name (snd o)].
Proof.
  intros pkg n. induction n as [|n IH]; intros fs pre o H; simpl in H.
  - apply in_map_iff in H. destruct H as [tf [E _]]. subst o. exists pre. reflexivity.
  - apply in_flat_map in H. destruct H as [[[nm ft] emb] [_ H]]. destruct emb; [|destruct H].
    destruct (struct_of pkg ft); [|destruct H]. eapply IH; eauto.
Qed.

Lemma raw_path_last : forall pkg fl fuel sd raw e0,
  raw_top pkg fl fuel (sd_fields sd) = COk raw ->
  depth_bounded pkg fuel sd = true -> wf_structs pkg fuel sd = true ->
  unambiguous pkg fuel sd = true -> no_embedded_nonstruct pkg fuel sd = true ->
  no_excluded_shadow pkg fuel sd = true ->
  In e0 raw -> exists pre, f_path e0 = pre ++ [f_name e0].
Proof.
  intros pkg fl fuel sd raw e0 Hraw GB GW GU GN GX He0.
  pose proof (raw_levels pkg fl fuel sd raw e0 Hraw GB GW GU GN GX He0 (f_depth e0)) as LV.
  assert (Hin : In (f_path e0) (map f_path (filter (nd (f_name e0) (f_depth e0)) raw))).
  { apply in_map. apply in_filter_nd. auto. }
  rewrite LV in Hin. apply in_map_iff in Hin. destruct Hin as [o [Eo Ho]].
  unfold candidates in Ho. apply filter_In in Ho. destruct Ho as [Ho Hn].
  rewrite level_is_fields in Ho. destruct (level_fields_last _ _ _ _ _ Ho) as [pre Hp].
  exists pre. rewrite <- Eo, Hp. f_equal. f_equal.
  unfold named in Hn. apply String.eqb_eq in Hn. exact Hn.
Qed.

Lemma is_prefix_split : forall p q, is_prefix p q = true -> exists r, q = p ++ r.
Proof.
  induction p as [|a p IH]; intros q H; simpl in H.
  - exists q. reflexivity.
  - destruct q as [|b q]; [discriminate|]. apply andb_true_iff in H. destruct H as [E H].
    apply String.eqb_eq in E. subst b. destruct (IH q H) as [r Hr]. exists r. simpl. congruence.
Qed.

Definition is_leaf_val (v : val) : Prop :=
  match v with VSent _ | VZero | VDef _ => True | _ => False end.

Lemma lookup_leaf_stuck : forall v r, is_leaf_val v -> r <> [] -> forall y, lookup v r <> Ok y.
Proof.
  intros v r Hv Hr y. destruct r as [|a r]; [congruence|]. simpl.
  destruct v; simpl in *; try contradiction; discriminate.
Qed.

(* two option fields: the same field, or paths that do not overlap *)
Theorem option_paths_apart : forall pkg fl fuel sd fs hn,
  flatten pkg fl fuel sd = COk (fs, hn) ->
  c02_guard pkg fuel sd = true ->
  forall e1 e2, In e1 (filter oentry fs) -> In e2 (filter oentry fs) ->
  f_name e1 = f_name e2 \/ diverge (f_path e1) (f_path e2) = true.
Proof.
  intros pkg fl fuel sd fs hn H G e1 e2 H1 H2.
  destruct (c02_guard_parts _ _ _ G) as [GB [GW [GU [GN [GP [GD [GX [GI [GPP GPN]]]]]]]]].
  apply in_filter_oentry in H1. apply in_filter_oentry in H2.
  destruct H1 as [I1 [S1 E1]]. destruct H2 as [I2 [S2 E2]].
  destruct (new_master pkg fl fuel sd fs hn (fun _ => VSent 0) H GB GW GU GN GX) as [kv [_ [U [_ [LK _]]]]].
  destruct (LK e1 I1) as [v1 [L1 V1]]. destruct (LK e2 I2) as [v2 [L2 V2]].
  rewrite E1 in V1. rewrite E2 in V2.
  assert (Leaf : forall e, is_leaf_val (leafv (name_map hn fs) (fun _ => VSent 0) e)).
  { intros e. unfold leafv, dv. destruct (assoc (f_name e) (name_map hn fs)).
    - destruct (negb (f_shadowed e)); simpl; auto. destruct (String.eqb (f_def e) ""); simpl; auto.
    - destruct (String.eqb (f_def e) ""); simpl; auto. }
  destruct (flatten_is_marked_raw _ _ _ _ _ _ H) as [raw [Hraw [Hfs Hhn]]].
  assert (Last : forall e, In e fs -> exists pre, f_path e = pre ++ [f_name e]).
  { intros e He. subst fs. destruct (in_mark _ _ He) as [e0 [He0 Ee]]. subst e.
    rewrite mark_with_path, mark_with_name. eapply raw_path_last; eauto. }
  unfold diverge.
  destruct (is_prefix (f_path e1) (f_path e2)) eqn:P12.
  - destruct (is_prefix_split _ _ P12) as [r Hr]. destruct r as [|a r].
    + rewrite app_nil_r in Hr. left.
      destruct (Last e1 I1) as [p1 Q1]. destruct (Last e2 I2) as [p2 Q2].
      rewrite Q1, Q2 in Hr. apply (f_equal (@rev ident)) in Hr. rewrite !rev_app_distr in Hr. simpl in Hr.
      inversion Hr. auto.
    + exfalso. rewrite Hr, lookup_app, L1 in L2. cbn [bind] in L2.
      subst v1. eapply lookup_leaf_stuck; [apply Leaf| |exact L2]. discriminate.
  - destruct (is_prefix (f_path e2) (f_path e1)) eqn:P21; [|right; reflexivity].
    destruct (is_prefix_split _ _ P21) as [r Hr]. destruct r as [|a r].
    + rewrite app_nil_r in Hr. rewrite Hr, is_prefix_refl in P12. discriminate.
    + exfalso. rewrite Hr, lookup_app, L2 in L1. cbn [bind] in L1.
      subst v2. eapply lookup_leaf_stuck; [apply Leaf| |exact L1]. discriminate.
Qed.

(* --------------------------------------------------------- final statements *)
Lemma nd_all_spec : forall sd hn fs, nd_all (make_new sd hn fs) = map f_name (filter oentry fs).
Proof. intros. unfold make_new. cbn [nd_all]. rewrite loop_all. reflexivity. Qed.

Lemma nd_def_list_spec : forall sd hn fs, nd_def_list (make_new sd hn fs) = map f_name (filter dentry fs).
Proof. intros. unfold make_new. cbn [nd_def_list]. rewrite loop_defs. reflexivity. Qed.

Lemma dentry_oentry : forall e, dentry e = true -> oentry e = true.
Proof. intros e H. unfold dentry in H. apply andb_true_iff in H. tauto. Qed.

(* the options: one per unshadowed leaf entry, named after it; the defaults: one per
   such entry that carries a def= text, with that text *)
Theorem options_exist_exactly : forall pkg fl fuel sd fs hn,
  flatten pkg fl fuel sd = COk (fs, hn) ->
  c02_guard pkg fuel sd = true ->
  let nd := make_new sd hn fs in
  let od := make_opt fl sd nd in
  map (fun o => snd (fst o)) (od_options od) = map f_name (filter oentry fs) /\
  (forall o, In o (od_options od) ->
     fst (fst o) = opt_fn_name (fl_short fl) (tmpl_type_name sd nd) (snd (fst o))) /\
  map fst (od_defaults od) = map f_name (filter dentry fs) /\
  (forall e, In e (filter dentry fs) -> In (f_name e, f_def e) (od_defaults od)) /\
  (forall e, In e fs -> (oentry e = true <->
      f_embedded e = false /\ resolve pkg fuel sd (f_name e) = Some (f_path e))).
Proof.
  intros pkg fl fuel sd fs hn H G nd od.
  destruct (c02_guard_parts _ _ _ G) as [GB [GW [GU [GN [GP [GD [GX [GI [GPP GPN]]]]]]]]].
  destruct (new_master pkg fl fuel sd fs hn (fun _ => VZero) H GB GW GU GN GX) as [kv [_ [U _]]].
  split; [|split; [|split; [|split]]].
  - unfold od, make_opt. cbn [od_options]. rewrite map_map. cbn [fst snd]. rewrite map_id.
    apply nd_all_spec.
  - intros o Ho. unfold od, make_opt in Ho. cbn [od_options] in Ho. apply in_map_iff in Ho.
    destruct Ho as [f [E _]]. subst o. reflexivity.
  - unfold od, make_opt. cbn [od_defaults]. rewrite map_map. cbn [fst]. rewrite map_id.
    apply nd_def_list_spec.
  - intros e He. unfold od, make_opt. cbn [od_defaults]. apply in_map_iff. exists (f_name e). split.
    + f_equal. unfold assoc_str, nd, make_new. cbn [nd_def_map]. fold empty_acc.
      rewrite (loop_defmap hn fs empty_acc e He); auto.
      intros e' He' Hn. f_equal. apply filter_In in He. apply filter_In in He'.
      destruct He as [I1 D1]. destruct He' as [I2 D2].
      apply dentry_oentry in D1. apply dentry_oentry in D2.
      unfold oentry in D1, D2. apply andb_true_iff in D1. apply andb_true_iff in D2.
      destruct D1 as [S1 _]. destruct D2 as [S2 _]. apply negb_true_iff in S1. apply negb_true_iff in S2.
      apply U; auto.
    + unfold nd. rewrite nd_def_list_spec. apply in_map. exact He.
  - intros e He. unfold oentry. rewrite andb_true_iff, !negb_true_iff.
    rewrite (shadow_refines_selector pkg fl fuel sd fs hn e H GB GW GU GN GX He). tauto.
Qed.

(* for ALL option sequences over the type's options, from any start value in which the
   option fields can be read: With succeeds, and every option field ends up with the
   value of the last option on it, else its default, else what it held before *)
Theorem with_all_sequences : forall pkg fl fuel sd fs hn v opts,
  flatten pkg fl fuel sd = COk (fs, hn) ->
  c02_guard pkg fuel sd = true ->
  let nd := make_new sd hn fs in
  let od := make_opt fl sd nd in
  (forall e, In e (filter oentry fs) -> exists y, lookup v (f_path e) = Ok y) ->
  (forall o, In o opts -> In (opt_field o) (nd_all nd)) ->
  exists v', with_ pkg fuel sd od v opts = Ok v' /\
    forall e, In e (filter oentry fs) ->
      lookup v' (f_path e) = match last_opt (f_name e) (with_sequence od opts) with
                             | Some x => Ok x
                             | None => lookup v (f_path e)
                             end.
Proof.
  intros pkg fl fuel sd fs hn v opts H G nd od RD OK.
  destruct (c02_guard_parts _ _ _ G) as [GB [GW [GU [GN [GP [GD [GX [GI [GPP GPN]]]]]]]]].
  destruct (options_exist_exactly pkg fl fuel sd fs hn H G) as [OA [_ [DA [_ OE]]]].
  fold nd od in OA, DA.
  (* every field of the sequence is the name of an unshadowed leaf entry *)
  assert (SeqIn : forall o, In o (with_sequence od opts) -> exists e, In e (filter oentry fs) /\ f_name e = opt_field o).
  { intros o Ho. unfold with_sequence in Ho. apply in_app_or in Ho. destruct Ho as [Ho|Ho].
    - destruct (od_has_default od); [|destruct Ho]. unfold def_opts in Ho. apply in_map_iff in Ho.
      destruct Ho as [d [Ed Hd]]. subst o. simpl.
      assert (In (fst d) (map fst (od_defaults od))) by (apply in_map; exact Hd).
      rewrite DA in H0. apply in_map_iff in H0. destruct H0 as [e [En He]].
      exists e. split; auto. apply filter_In in He. apply filter_In. destruct He as [I D].
      split; auto. apply dentry_oentry. exact D.
    - specialize (OK o Ho). unfold nd in OK. rewrite nd_all_spec in OK. apply in_map_iff in OK.
      destruct OK as [e [En He]]. exists e. split; auto. }
  assert (Res : forall e, In e (filter oentry fs) -> resolve pkg fuel sd (f_name e) = Some (f_path e)).
  { intros e He. apply filter_In in He. destruct He as [I O]. apply (OE e I) in O. tauto. }
  assert (Apart : forall names, (forall n, In n names -> exists e, In e (filter oentry fs) /\ f_name e = n) ->
                  fields_apart pkg fuel sd names).
  { intros names HN f g p q Hf Hg Rf Rg.
    destruct (HN f Hf) as [ef [Ief Nf]]. destruct (HN g Hg) as [eg [Ieg Ng]].
    rewrite <- Nf, (Res ef Ief) in Rf. rewrite <- Ng, (Res eg Ieg) in Rg.
    inversion Rf; inversion Rg; subst p q.
    destruct (option_paths_apart pkg fl fuel sd fs hn H G ef eg Ief Ieg) as [E|D]; [left; congruence|right; exact D]. }
  destruct (with_succeeds pkg fuel sd od v opts) as [v' W].
  { intros o Ho. destruct (SeqIn o Ho) as [e [Ie Ne]]. destruct (RD e Ie) as [y Ly].
    exists (f_path e), y. rewrite <- Ne. split; [apply Res; exact Ie|exact Ly]. }
  { apply Apart. intros n Hn. apply in_map_iff in Hn. destruct Hn as [o [En Ho]].
    destruct (SeqIn o Ho) as [e [Ie Ne]]. exists e. split; auto. congruence. }
  exists v'. split; [exact W|]. intros e Ie.
  apply (with_last_wins pkg fuel sd od v opts v' (f_name e) (f_path e) W (Res e Ie)).
  apply Apart. intros n [Hn|Hn].
  - exists e. split; auto.
  - apply in_map_iff in Hn. destruct Hn as [o [En Ho]].
    destruct (SeqIn o Ho) as [e' [Ie' Ne']]. exists e'. split; auto. congruence.
Qed.

(* the value NewT returns is such a start value *)
Theorem new_value_readable : forall pkg fl fuel sd fs hn args,
  flatten pkg fl fuel sd = COk (fs, hn) ->
  c02_guard pkg fuel sd = true ->
  exists v, eval_new pkg fuel sd (nd_body (make_new sd hn fs)) args = Ok v /\
            forall e, In e (filter oentry fs) -> exists y, lookup v (f_path e) = Ok y.
Proof.
  intros pkg fl fuel sd fs hn args H G.
  destruct (c02_guard_parts _ _ _ G) as [GB [GW [GU [GN [GP [GD [GX [GI [GPP GPN]]]]]]]]].
  destruct (new_master pkg fl fuel sd fs hn args H GB GW GU GN GX) as [kv [EV [_ [_ [LK _]]]]].
  exists (VPtr (VStruct kv)). split; [exact EV|].
  intros e He. apply filter_In in He. destruct He as [I _]. destruct (LK e I) as [y [Ly _]]. eauto.
Qed.
