(* Proofs about Model/CtorGetSet.v (shoot new -getset), part 1:
     accessor_table            makeGetSet's GetterList / SetterList = the declarative directive table
     exported_directive_fatal  an exported field with a get/set directive: the run is refused, and only then
     accessor names            Pascal-cased, exported, pairwise distinct
   The literal loop visits the flattened list once per NAME; under the guard every field of the struct
   itself is the first entry of its name, and entries below the top level never carry get/set marks. *)
From Coq Require Import String Ascii List Bool Arith Lia.
From Shoot Require Import Base.Str Base.GoVal Model.Transfer Model.CtorDirective Model.Ctor Model.CtorSpec Model.CtorGetSet.
From Shoot Require Import Proofs.GoValProofs Proofs.CtorFlattenProofs Proofs.CtorResolveProofs Proofs.CtorNewProofs
                          Proofs.CtorC02Proofs Proofs.CtorOrderProofs Proofs.CtorOptProofs.
Import ListNotations.
Local Open Scope list_scope.

(* ------------------------------------------------------------- the loop *)
Definition acc_of (e : field) : acc_field := {| af_name := f_name e; af_ty := f_ty e |}.
Definition is_get (getter : bool) (e : field) : bool := negb (f_embedded e) && (f_get e && getter).
Definition is_set (setter : bool) (e : field) : bool := negb (f_embedded e) && (f_set e && setter).
Definition gets_of (getter : bool) (l : list field) : list acc_field := map acc_of (filter (is_get getter) l).
Definition sets_of (setter : bool) (l : list field) : list acc_field := map acc_of (filter (is_set setter) l).
Definition relevant (e : field) : bool := negb (f_embedded e) && (f_get e || f_set e).

Lemma embed_get_keeps : forall pkg v fuel f a,
  ga_once (embed_get pkg v fuel f a) = ga_once a /\ ga_get (embed_get pkg v fuel f a) = ga_get a /\
  ga_set (embed_get pkg v fuel f a) = ga_set a /\ ga_seti (embed_get pkg v fuel f a) = ga_seti a.
Proof.
  intros. unfold embed_get. destruct (find_iface v (f_name f) true); auto.
  destruct (assignable_to_iface pkg v fuel (f_ty f) v0 true) as [[args [|]]|]; auto.
Qed.

Lemma embed_set_keeps : forall pkg v fuel f a,
  ga_once (embed_set pkg v fuel f a) = ga_once a /\ ga_get (embed_set pkg v fuel f a) = ga_get a /\
  ga_set (embed_set pkg v fuel f a) = ga_set a /\ ga_geti (embed_set pkg v fuel f a) = ga_geti a.
Proof.
  intros. unfold embed_set. destruct (find_iface v (f_name f) false); auto.
  destruct (assignable_to_iface pkg v fuel (f_ty f) v0 false) as [[args [|]]|]; auto.
Qed.

Lemma existsb_eqb_in : forall x l, existsb (String.eqb x) l = true <-> In x l.
Proof.
  intros x l. rewrite existsb_exists. split.
  - intros [y [Hy E]]. apply String.eqb_eq in E. subst. auto.
  - intros H. exists x. split; auto. apply String.eqb_refl.
Qed.

(* if every entry that carries a get/set mark is the first entry of its name, the lists are the marked
   entries in order *)
Lemma loop_lists : forall pkg v fuel G S l a,
  (forall l1 e l2, l = l1 ++ e :: l2 -> relevant e = true ->
                   ~ In (f_name e) (ga_once a) /\ ~ In (f_name e) (map f_name l1)) ->
  ga_get (make_getset_loop pkg v fuel G S l a) = ga_get a ++ gets_of G l /\
  ga_set (make_getset_loop pkg v fuel G S l a) = ga_set a ++ sets_of S l.
Proof.
  intros pkg v fuel G S l. induction l as [|f r IH]; intros a H.
  - simpl. unfold gets_of, sets_of. simpl. rewrite !app_nil_r. auto.
  - cbn [make_getset_loop].
    assert (Hr : forall a', (ga_once a' = ga_once a \/ ga_once a' = f_name f :: ga_once a) ->
                 forall l1 e l2, r = l1 ++ e :: l2 -> relevant e = true ->
                 ~ In (f_name e) (ga_once a') /\ ~ In (f_name e) (map f_name l1)).
    { intros a' Ha l1 e l2 E R. destruct (H (f :: l1) e l2) as [N1 N2]; [rewrite E; reflexivity|exact R|].
      simpl in N2. split.
      - destruct Ha as [Ha|Ha]; rewrite Ha; [exact N1|]. intros [I|I]; [apply N2; left; exact I|exact (N1 I)].
      - intros I. apply N2. right. exact I. }
    destruct (existsb (String.eqb (f_name f)) (ga_once a)) eqn:Once.
    + (* a later entry of a name already seen: it carries no mark *)
      assert (Rf : relevant f = false).
      { destruct (relevant f) eqn:R; auto. exfalso.
        destruct (H [] f r eq_refl R) as [N _]. apply N. apply existsb_eqb_in. exact Once. }
      destruct (IH a (Hr a (or_introl eq_refl))) as [I1 I2]. rewrite I1, I2.
      unfold gets_of, sets_of, relevant, is_get, is_set in *. cbn [filter].
      destruct (f_embedded f); simpl in *; auto.
      apply orb_false_iff in Rf. destruct Rf as [-> ->]. simpl. auto.
    + destruct (f_embedded f) eqn:Emb.
      * set (a0 := add_once (f_name f) a).
        set (a1 := if G then embed_get pkg v fuel f a0 else a0).
        set (a2 := if S then embed_set pkg v fuel f a1 else a1).
        assert (K1 : ga_once a1 = ga_once a0 /\ ga_get a1 = ga_get a0 /\ ga_set a1 = ga_set a0).
        { unfold a1. destruct G; auto. destruct (embed_get_keeps pkg v fuel f a0) as [? [? [? ?]]]. auto. }
        assert (K2 : ga_once a2 = ga_once a1 /\ ga_get a2 = ga_get a1 /\ ga_set a2 = ga_set a1).
        { unfold a2. destruct S; auto. destruct (embed_set_keeps pkg v fuel f a1) as [? [? [? ?]]]. auto. }
        destruct K1 as [O1 [G1 S1]]. destruct K2 as [O2 [G2 S2]].
        destruct (IH a2) as [I1 I2].
        { apply Hr. right. rewrite O2, O1. reflexivity. }
        rewrite I1, I2, G2, G1, S2, S1. unfold gets_of, sets_of, is_get, is_set. cbn [filter]. rewrite Emb. simpl. auto.
      * set (a0 := add_once (f_name f) a).
        set (a1 := if f_get f && G then add_get f a0 else a0).
        set (a2 := if f_set f && S then add_set f a1 else a1).
        destruct (IH a2) as [I1 I2].
        { apply Hr. right. unfold a2, a1. destruct (f_set f && S), (f_get f && G); reflexivity. }
        rewrite I1, I2. unfold gets_of, sets_of, is_get, is_set. cbn [filter]. rewrite Emb. cbn [negb andb].
        unfold a2, a1. destruct (f_get f && G), (f_set f && S); cbn [ga_get ga_set add_get add_set add_once a0 map app];
          rewrite <- ?app_assoc; auto.
Qed.

(* the loop does not read the shadow marks *)
Lemma loop_keeps : forall pkg v fuel G S g, keeps g -> forall l a,
  make_getset_loop pkg v fuel G S (map g l) a = make_getset_loop pkg v fuel G S l a.
Proof.
  intros pkg v fuel G S g K l. induction l as [|f r IH]; intros a; [reflexivity|].
  cbn [map]. destruct (K f) as [E|E]; rewrite E.
  - cbn [make_getset_loop]. destruct (existsb (String.eqb (f_name f)) (ga_once a)); [apply IH|].
    destruct (f_embedded f); apply IH.
  - cbn [make_getset_loop]. cbn [set_shadowed f_name f_embedded f_get f_set].
    destruct (existsb (String.eqb (f_name f)) (ga_once a)); [apply IH|].
    destruct (f_embedded f); apply IH.
Qed.

(* ------------------------------------------ entries below the top level carry no marks *)
Definition unmarked_gs (l : list field) : Prop := forall e, In e l -> f_get e = false /\ f_set e = false.

Lemma raw_type_no_gs : forall pkg fuel depth pre t is_new l,
  raw_type pkg fuel depth pre t is_new = Some l -> unmarked_gs l.
Proof.
  intros pkg fuel. induction fuel as [|fuel IH]; intros depth pre t is_new l H; rewrite raw_type_unfold in H.
  - destruct (struct_of pkg t); inversion H; subst. intros e [].
  - destruct (struct_of pkg t) as [si|]; [|inversion H; subst; intros e []].
    set (e0 := embedded_entry t depth pre) in *.
    assert (Gx : forall fs l', raw_fields pkg fuel (S depth) (f_path e0) is_new fs = Some l' -> unmarked_gs l').
    { induction fs as [|[[n ft] emb] fs IHfs]; intros l' H'.
      - inversion H'; subst. intros e [].
      - rewrite raw_fields_cons in H'.
        destruct emb.
        + destruct (raw_type pkg fuel (S depth) (f_path e0) ft is_new) as [a|] eqn:Ea; [|discriminate].
          destruct (raw_fields pkg fuel (S depth) (f_path e0) is_new fs) as [b|] eqn:Eb; [|discriminate].
          inversion H'; subst. intros e He. apply in_app_or in He. destruct He as [He|He].
          * eapply IH; eauto.
          * eapply IHfs; eauto.
        + destruct (raw_fields pkg fuel (S depth) (f_path e0) is_new fs) as [b|] eqn:Eb; [|discriminate].
          inversion H'; subst. intros e [He|He]; [subst; split; reflexivity|eapply IHfs; eauto]. }
    destruct (raw_fields pkg fuel (S depth) (f_path e0) is_new (struct_fields si)) as [l'|] eqn:E; [|discriminate].
    inversion H; subst. intros e [He|He].
    + subst e. unfold e0, embedded_entry. destruct (qualified_name t). split; reflexivity.
    + eapply Gx; eauto.
Qed.

Lemma filter_none : forall A (p : A -> bool) l, (forall x, In x l -> p x = false) -> filter p l = [].
Proof.
  intros A p l. induction l as [|x r IH]; intros H; simpl; auto.
  rewrite (H x (or_introl eq_refl)). apply IH. intros y Hy. apply H. right. exact Hy.
Qed.

Lemma gets_of_app : forall G a b, gets_of G (a ++ b) = gets_of G a ++ gets_of G b.
Proof. intros. unfold gets_of. rewrite filter_app, map_app. reflexivity. Qed.
Lemma sets_of_app : forall S a b, sets_of S (a ++ b) = sets_of S a ++ sets_of S b.
Proof. intros. unfold sets_of. rewrite filter_app, map_app. reflexivity. Qed.

Lemma unmarked_gs_none : forall G S l, unmarked_gs l -> gets_of G l = [] /\ sets_of S l = [].
Proof.
  intros G S l H. unfold gets_of, sets_of. rewrite !filter_none; auto.
  - intros x Hx. destruct (H x Hx) as [_ Hs]. unfold is_set. rewrite Hs. destruct (f_embedded x); reflexivity.
  - intros x Hx. destruct (H x Hx) as [Hg _]. unfold is_get. rewrite Hg. destruct (f_embedded x); reflexivity.
Qed.

(* ------------------------------------------------ the named declarations *)
(* the (get, set) pair the analysis computes for the name n of declaration fd *)
Definition pgs (fl : ctor_flags) (fd : fdecl) (n : ident) : bool * bool :=
  match (if fl_getset fl then parse_get_set (fd_doc fd) n else Some (false, false)) with
  | Some p => p
  | None => (false, false)
  end.

Definition table_names (fl : ctor_flags) (fd : fdecl) (on : bool) (getter : bool) (names : list ident) : list acc_field :=
  flat_map (fun n => if (if getter then fst (pgs fl fd n) else snd (pgs fl fd n)) && on
                     then [{| af_name := n; af_ty := fd_ty fd |}] else []) names.

Lemma top_entry_get : forall n t g s nw d tg, f_get (top_entry n t g s nw d tg) = g.
Proof. intros. unfold top_entry. destruct (qualified_name t). reflexivity. Qed.
Lemma top_entry_set : forall n t g s nw d tg, f_set (top_entry n t g s nw d tg) = s.
Proof. intros. unfold top_entry. destruct (qualified_name t). reflexivity. Qed.
Lemma top_entry_ty : forall n t g s nw d tg, f_ty (top_entry n t g s nw d tg) = t.
Proof. intros. unfold top_entry. destruct (qualified_name t). reflexivity. Qed.

Lemma raw_names_lists : forall fl fd is_new G S names a,
  raw_names fl fd is_new names = COk a ->
  (forall n, In n names -> excluded_decl fd n = false) ->
  gets_of G a = table_names fl fd G true names /\ sets_of S a = table_names fl fd S false names.
Proof.
  intros fl fd is_new G S names. induction names as [|n names IH]; intros a H NX; simpl in H.
  - inversion H; subst. split; reflexivity.
  - assert (NXn := NX n (or_introl eq_refl)). unfold excluded_decl in NXn. apply orb_false_iff in NXn.
    destruct NXn as [E1 E2]. rewrite E1, E2 in H.
    unfold table_names. cbn [flat_map]. unfold pgs at 1 3.
    destruct (if fl_getset fl then parse_get_set (fd_doc fd) n else Some (false, false)) as [[get set]|] eqn:EP; [|discriminate].
    destruct (raw_names fl fd is_new names) as [r| |] eqn:Er; try discriminate.
    inversion H; subst a.
    destruct (IH r eq_refl (fun m Hm => NX m (or_intror Hm))) as [I1 I2].
    unfold gets_of, sets_of in *. cbn [filter]. unfold is_get at 1, is_set at 1.
    rewrite top_entry_emb, top_entry_get, top_entry_set. cbn [negb andb fst snd].
    split.
    + destruct (get && G); cbn [map app]; rewrite I1; [|reflexivity].
      unfold acc_of. rewrite top_entry_name, top_entry_ty. reflexivity.
    + destruct (set && S); cbn [map app]; rewrite I2; [|reflexivity].
      unfold acc_of. rewrite top_entry_name, top_entry_ty. reflexivity.
Qed.

(* on a run that is not refused, the computed pair is what the property text grants *)
Lemma pgs_wants : forall fl sd fd n,
  (if fl_getset fl then parse_get_set (fd_doc fd) n else Some (false, false)) <> None ->
  fst (wants fl sd fd n) = fst (pgs fl fd n) && fst (type_switch fl sd) /\
  snd (wants fl sd fd n) = snd (pgs fl fd n) && snd (type_switch fl sd).
Proof.
  intros fl sd fd n H. unfold wants, pgs in *. destruct (fl_getset fl); simpl; [|auto].
  unfold parse_get_set, dir_get_set in *.
  destruct (parse_getset_comment (fd_doc fd)) as [g s].
  destruct g, s, (is_exported n); simpl in *; try congruence; auto.
Qed.

Lemma raw_names_ok_all : forall fl fd is_new names a,
  raw_names fl fd is_new names = COk a ->
  (forall n, In n names -> excluded_decl fd n = false) ->
  forall n, In n names -> (if fl_getset fl then parse_get_set (fd_doc fd) n else Some (false, false)) <> None.
Proof.
  intros fl fd is_new names. induction names as [|m names IH]; intros a H NX n Hn; [destruct Hn|].
  simpl in H. assert (NXm := NX m (or_introl eq_refl)). unfold excluded_decl in NXm. apply orb_false_iff in NXm.
  destruct NXm as [E1 E2]. rewrite E1, E2 in H.
  destruct (if fl_getset fl then parse_get_set (fd_doc fd) m else Some (false, false)) as [[get set]|] eqn:EP; [|discriminate].
  destruct (raw_names fl fd is_new names) as [r| |] eqn:Er; try discriminate.
  destruct Hn as [Hn|Hn].
  - subst m. rewrite EP. discriminate.
  - eapply IH; eauto. intros k Hk. apply NX. right. exact Hk.
Qed.

Definition spec_decl (fl : ctor_flags) (sd : sdecl) (getter : bool) (fd : fdecl) : list acc_field :=
  flat_map (fun n => if (if getter then fst (wants fl sd fd n) else snd (wants fl sd fd n))
                     then [{| af_name := n; af_ty := fd_ty fd |}] else []) (fd_names fd).

Lemma spec_accessors_unfold : forall fl sd getter,
  spec_accessors fl sd getter = flat_map (spec_decl fl sd getter) (sd_fields sd).
Proof. reflexivity. Qed.

Lemma flat_map_ext_in : forall A B (f g : A -> list B) l, (forall x, In x l -> f x = g x) -> flat_map f l = flat_map g l.
Proof.
  intros A B f g l. induction l as [|x r IH]; intros H; simpl; auto.
  rewrite (H x (or_introl eq_refl)), IH; auto. intros y Hy. apply H. right. exact Hy.
Qed.

(* the marked entries of the raw list are the table, declaration by declaration *)
Lemma raw_top_lists : forall pkg fl fuel sd fds raw,
  raw_top pkg fl fuel fds = COk raw ->
  (forall fd n, In fd fds -> In n (fd_names fd) -> excluded_decl fd n = false) ->
  gets_of (fst (type_switch fl sd)) raw = flat_map (spec_decl fl sd true) fds /\
  sets_of (snd (type_switch fl sd)) raw = flat_map (spec_decl fl sd false) fds.
Proof.
  intros pkg fl fuel sd fds. induction fds as [|fd fds IH]; intros raw H NX; simpl in H.
  - inversion H; subst. split; reflexivity.
  - destruct (raw_decl pkg fl fuel fd) as [a| |] eqn:Ea; try discriminate.
    destruct (raw_top pkg fl fuel fds) as [b| |] eqn:Eb; try discriminate.
    inversion H; subst raw.
    destruct (IH b eq_refl (fun fd' n Hf Hn => NX fd' n (or_intror Hf) Hn)) as [I1 I2].
    rewrite gets_of_app, sets_of_app, I1, I2. cbn [flat_map].
    unfold raw_decl in Ea.
    destruct (fd_names fd) as [|x names] eqn:EN.
    + destruct (raw_type pkg fuel 0 [] (fd_ty fd) (parse_new_comment (fd_doc fd))) as [l|] eqn:Er; [|discriminate].
      inversion Ea; subst a.
      destruct (unmarked_gs_none (fst (type_switch fl sd)) (snd (type_switch fl sd)) l (raw_type_no_gs _ _ _ _ _ _ _ Er)) as [-> ->].
      unfold spec_decl. rewrite EN. split; reflexivity.
    + assert (NXd : forall n, In n (x :: names) -> excluded_decl fd n = false).
      { intros n Hn. apply (NX fd n (or_introl eq_refl)). rewrite EN. exact Hn. }
      destruct (raw_names_lists fl fd (parse_new_comment (fd_doc fd)) (fst (type_switch fl sd)) (snd (type_switch fl sd))
                                (x :: names) a Ea NXd) as [R1 R2].
      rewrite R1, R2. unfold table_names, spec_decl. rewrite EN.
      split; f_equal; apply flat_map_ext_in; intros n Hn;
        destruct (pgs_wants fl sd fd n (raw_names_ok_all _ _ _ _ _ Ea NXd n Hn)) as [W1 W2];
        rewrite ?W1, ?W2; reflexivity.
Qed.

(* ---------------------------------------- every marked entry is the first of its name *)
Lemma relevant_top : forall pkg fl fuel fds raw e,
  raw_top pkg fl fuel fds = COk raw -> In e raw -> relevant e = true ->
  f_depth e = 0 /\ In (f_name e) (flat_map fd_names fds).
Proof.
  intros pkg fl fuel fds. induction fds as [|fd fds IH]; intros raw e H He R; simpl in H.
  - inversion H; subst. destruct He.
  - destruct (raw_decl pkg fl fuel fd) as [a| |] eqn:Ea; try discriminate.
    destruct (raw_top pkg fl fuel fds) as [b| |] eqn:Eb; try discriminate.
    inversion H; subst raw. cbn [flat_map]. apply in_app_or in He. destruct He as [He|He].
    + unfold raw_decl in Ea. destruct (fd_names fd) as [|x names] eqn:EN.
      * destruct (raw_type pkg fuel 0 [] (fd_ty fd) (parse_new_comment (fd_doc fd))) as [l|] eqn:Er; [|discriminate].
        inversion Ea; subst a. destruct (raw_type_no_gs _ _ _ _ _ _ _ Er e He) as [Hg Hs].
        unfold relevant in R. rewrite Hg, Hs, andb_false_r in R. discriminate.
      * destruct (raw_names_facts _ _ _ _ _ _ Ea He) as [Hd [_ [_ [Hn _]]]]. split; auto.
        apply in_or_app. left. exact Hn.
    + destruct (IH b e eq_refl He R) as [Hd Hn]. split; auto. apply in_or_app. right. exact Hn.
Qed.

Lemma filter_two : forall A (p : A -> bool) l1 x l2 y,
  In y l1 -> p y = true -> p x = true -> 2 <= length (filter p (l1 ++ x :: l2)).
Proof.
  intros A p l1 x l2 y Hy Py Px. rewrite filter_app, app_length. cbn [filter]. rewrite Px. cbn [length].
  assert (1 <= length (filter p l1)).
  { assert (In y (filter p l1)) by (apply filter_In; auto). destruct (filter p l1); [destruct H|simpl; lia]. }
  lia.
Qed.

Lemma filter_nodup_le1 : forall (l : list tfield) x,
  NoDup (map tf_name l) -> length (filter (fun tf => String.eqb (tf_name tf) x) l) <= 1.
Proof.
  intros l x. induction l as [|tf r IH]; intros ND; simpl; [lia|].
  inversion ND; subst. destruct (String.eqb (tf_name tf) x) eqn:E.
  - apply String.eqb_eq in E. simpl.
    rewrite filter_none; [simpl; lia|].
    intros y Hy. apply String.eqb_neq. intros Ey. apply H1. rewrite E, <- Ey. apply in_map. exact Hy.
  - apply IH. assumption.
Qed.

Lemma filter_map_length : forall A B (f : A -> B) (p : B -> bool) l,
  length (filter p (map f l)) = length (filter (fun x => p (f x)) l).
Proof.
  intros A B f p l. induction l as [|x r IH]; simpl; auto. destruct (p (f x)); simpl; rewrite IH; reflexivity.
Qed.

Lemma c03_guard_parts : forall pkg fl fuel sd, c03_guard pkg fl fuel sd = true ->
  c02_guard pkg fuel sd = true /\ no_excluded_fields sd = true /\ own_names_fresh pkg fuel sd = true /\
  embedded_names_fresh pkg fuel sd = true /\ accessor_fields_ok fl sd = true.
Proof.
  intros pkg fl fuel sd H. unfold c03_guard in H.
  do 5 (apply andb_true_iff in H; destruct H as [H ?]). repeat split; assumption.
Qed.

(* every entry below an embedded field of type t carries one of the names of t's closure *)
Lemma raw_fields_names : forall pkg fuel depth pre is_new fs l e,
  raw_fields pkg fuel depth pre is_new fs = Some l -> emb_named fs -> In e l ->
  exists n o, n <= fuel /\ In o (level_fields pkg n fs pre) /\ occ_name o = f_name e.
Proof.
  intros pkg fuel. induction fuel as [|fuel IHf]; intros depth pre is_new fs.
  - induction fs as [|[[nm ft] emb] fs IH]; intros l e H EN He.
    + inversion H; subst. destruct He.
    + rewrite raw_fields_cons in H. assert (ENt := emb_named_tail _ _ EN). destruct emb.
      * rewrite raw_type_unfold in H. destruct (struct_of pkg ft); [discriminate|].
        destruct (raw_fields pkg 0 depth pre is_new fs) as [b|] eqn:Eb; [|discriminate].
        inversion H; subst l. cbn [app] in He.
        destruct (IH b e eq_refl ENt He) as [n [o [A [B C]]]]. exists n, o. split; auto. split; auto.
        rewrite level_fields_cons. apply in_or_app. right. exact B.
      * destruct (raw_fields pkg 0 depth pre is_new fs) as [b|] eqn:Eb; [|discriminate].
        inversion H; subst l. destruct He as [He|He].
        -- subst e. exists 0, (pre ++ [nm], (nm, ft, false)). split; [lia|]. split; [|reflexivity].
           cbn [level_fields map]. left. reflexivity.
        -- destruct (IH b e eq_refl ENt He) as [n [o [A [B C]]]]. exists n, o. split; auto. split; auto.
           rewrite level_fields_cons. apply in_or_app. right. exact B.
  - induction fs as [|[[nm ft] emb] fs IH]; intros l e H EN He.
    + inversion H; subst. destruct He.
    + rewrite raw_fields_cons in H. assert (ENt := emb_named_tail _ _ EN). destruct emb.
      * assert (Hnm : nm = short_name ft) by (apply EN; left; reflexivity).
        destruct (raw_type pkg (S fuel) depth pre ft is_new) as [a|] eqn:Ea; [|discriminate].
        destruct (raw_fields pkg (S fuel) depth pre is_new fs) as [b|] eqn:Eb; [|discriminate].
        inversion H; subst l. apply in_app_or in He. destruct He as [He|He].
        -- rewrite raw_type_unfold in Ea. destruct (struct_of pkg ft) as [si|] eqn:Es; [|inversion Ea; subst; destruct He].
           destruct (raw_fields pkg fuel (S depth) (f_path (embedded_entry ft depth pre)) is_new (struct_fields si)) as [l'|] eqn:El;
             [|discriminate].
           inversion Ea; subst a. destruct He as [He|He].
           ++ subst e. exists 0, (pre ++ [nm], (nm, ft, true)). split; [lia|]. split.
              ** cbn [level_fields map]. left. reflexivity.
              ** rewrite embedded_entry_name. unfold occ_name. cbn [snd fst]. exact Hnm.
           ++ rewrite embedded_entry_path in El.
              destruct (IHf (S depth) (pre ++ [short_name ft]) is_new (struct_fields si) l' e El
                            (struct_fields_emb_named si) He) as [n [o [A [B C]]]].
              exists (S n), o. split; [lia|]. split; auto.
              rewrite level_fields_cons. apply in_or_app. left. cbn [level_fields flat_map]. rewrite Es, app_nil_r.
              subst nm. exact B.
        -- destruct (IH b e eq_refl ENt He) as [n [o [A [B C]]]]. exists n, o. split; auto. split; auto.
           rewrite level_fields_cons. apply in_or_app. right. exact B.
      * destruct (raw_fields pkg (S fuel) depth pre is_new fs) as [b|] eqn:Eb; [|discriminate].
        inversion H; subst l. destruct He as [He|He].
        -- subst e. exists 0, (pre ++ [nm], (nm, ft, false)). split; [lia|]. split; [|reflexivity].
           cbn [level_fields map]. left. reflexivity.
        -- destruct (IH b e eq_refl ENt He) as [n [o [A [B C]]]]. exists n, o. split; auto. split; auto.
           rewrite level_fields_cons. apply in_or_app. right. exact B.
Qed.

(* the fields at a level do not depend on the path prefix *)
Lemma level_fields_reprefix : forall pkg m fs p1 p2 x,
  In x (level_fields pkg m fs p1) -> exists y, In y (level_fields pkg m fs p2) /\ snd y = snd x.
Proof.
  intros pkg m. induction m as [|m IHm]; intros fs p1 p2 x Hx; simpl in Hx.
  - apply in_map_iff in Hx. destruct Hx as [tf [E Htf]]. subst x. exists (p2 ++ [fst (fst tf)], tf). split; auto.
    simpl. apply in_map_iff. exists tf. auto.
  - apply in_flat_map in Hx. destruct Hx as [[[nm ft] emb] [Htf Hx]]. destruct emb; [|destruct Hx].
    destruct (struct_of pkg ft) as [si'|] eqn:E; [|destruct Hx].
    destruct (IHm _ _ (p2 ++ [nm]) _ Hx) as [y [Hy Ey]]. exists y. split; auto.
    simpl. apply in_flat_map. exists (nm, ft, true). split; auto. rewrite E. exact Hy.
Qed.

Lemma raw_type_names : forall pkg fuel t is_new l e,
  raw_type pkg fuel 0 [] t is_new = Some l -> In e l -> In (f_name e) (names_below pkg fuel t).
Proof.
  intros pkg fuel t is_new l e H He. unfold names_below. rewrite raw_type_unfold in H.
  destruct (struct_of pkg t) as [si|] eqn:Es; [|inversion H; subst; destruct He].
  destruct fuel as [|fuel]; [discriminate|].
  destruct (raw_fields pkg fuel 1 (f_path (embedded_entry t 0 [])) is_new (struct_fields si)) as [l'|] eqn:El; [|discriminate].
  inversion H; subst l. destruct He as [He|He].
  - subst e. left. symmetry. apply embedded_entry_name.
  - right. destruct (raw_fields_names _ _ _ _ _ _ _ _ El (struct_fields_emb_named si) He) as [n [o [A [B C]]]].
    destruct (level_fields_reprefix _ _ _ _ [] _ B) as [y [Hy Ey]].
    apply in_flat_map. exists n. split; [apply in_seq; lia|].
    apply in_map_iff. exists y. split.
    + rewrite <- C. unfold occ_name. rewrite Ey. reflexivity.
    + rewrite level_is_fields. exact Hy.
Qed.

Lemma raw_names_nodup : forall fl fd is_new names a,
  raw_names fl fd is_new names = COk a -> NoDup names -> NoDup (map f_name a) /\ (forall e, In e a -> In (f_name e) names).
Proof.
  intros fl fd is_new names. induction names as [|n names IH]; intros a H ND; simpl in H.
  - inversion H; subst. split; [constructor|intros e []].
  - inversion ND; subst.
    destruct (String.prefix "_" n).
    { destruct (IH a H H3) as [I1 I2]. split; auto. intros e He. right. auto. }
    destruct (tag_is_dash (fd_tag fd)).
    { destruct (IH a H H3) as [I1 I2]. split; auto. intros e He. right. auto. }
    destruct (if fl_getset fl then parse_get_set (fd_doc fd) n else Some (false, false)) as [[get set]|]; [|discriminate].
    destruct (raw_names fl fd is_new names) as [r| |] eqn:Er; try discriminate.
    inversion H; subst a. destruct (IH r eq_refl H3) as [I1 I2]. split.
    + simpl. rewrite top_entry_name. constructor; auto. intros Hin. apply in_map_iff in Hin.
      destruct Hin as [e [En He]]. apply H2. rewrite <- En. apply I2. exact He.
    + intros e [He|He]; [subst e; rewrite top_entry_name; left; reflexivity|right; auto].
Qed.

Lemma app_eq_split : forall A (a b l1 l2 : list A) (e : A),
  a ++ b = l1 ++ e :: l2 ->
  (exists a2, a = l1 ++ e :: a2 /\ l2 = a2 ++ b) \/ (exists l1', l1 = a ++ l1' /\ b = l1' ++ e :: l2).
Proof.
  intros A a. induction a as [|x a IH]; intros b l1 l2 e H; simpl in H.
  - right. exists l1. auto.
  - destruct l1 as [|y l1]; simpl in H; inversion H; subst.
    + left. exists a. auto.
    + destruct (IH _ _ _ _ H2) as [[a2 [E1 E2]]|[l1' [E1 E2]]].
      * left. exists a2. subst. auto.
      * right. exists l1'. subst. auto.
Qed.

(* under the order-aware guard every marked entry is the first entry of its name *)
Lemma raw_top_first : forall pkg fl fuel fds raw seen,
  raw_top pkg fl fuel fds = COk raw ->
  own_first pkg fuel fds seen = true ->
  NoDup (map tf_name (flat_map tfields_of_decl fds)) ->
  forall l1 e l2, raw = l1 ++ e :: l2 -> relevant e = true ->
    ~ In (f_name e) (map f_name l1) /\ ~ In (f_name e) seen.
Proof.
  intros pkg fl fuel fds. induction fds as [|fd fds IH]; intros raw seen H OF ND l1 e l2 E R; simpl in H.
  - inversion H; subst. destruct l1; discriminate.
  - destruct (raw_decl pkg fl fuel fd) as [a| |] eqn:Ea; try discriminate.
    destruct (raw_top pkg fl fuel fds) as [b| |] eqn:Eb; try discriminate.
    injection H as Hab. rewrite <- Hab in E. clear Hab.
    cbn [flat_map] in ND. rewrite map_app in ND.
    assert (NDb : NoDup (map tf_name (flat_map tfields_of_decl fds))) by (eapply NoDup_app_tail; eauto).
    cbn [own_first] in OF. unfold raw_decl in Ea.
    destruct (app_eq_split _ _ _ _ _ _ E) as [[a2 [E1 E2]]|[l1' [E1 E2]]].
    + (* the marked entry belongs to this declaration: it must be a named one *)
      destruct (fd_names fd) as [|x names] eqn:EN.
      * destruct (raw_type pkg fuel 0 [] (fd_ty fd) (parse_new_comment (fd_doc fd))) as [l|] eqn:Er; [|discriminate].
        assert (El : l = a) by (inversion Ea; reflexivity).
        assert (He : In e l) by (rewrite El, E1; apply in_or_app; right; left; reflexivity).
        destruct (raw_type_no_gs _ _ _ _ _ _ _ Er e He) as [Hg Hs].
        unfold relevant in R. rewrite Hg, Hs, andb_false_r in R. discriminate.
      * apply andb_true_iff in OF. destruct OF as [OF1 OF2].
        assert (NDn : NoDup (x :: names)).
        { unfold tfields_of_decl in ND. rewrite EN in ND. apply NoDup_app_head in ND.
          rewrite map_map in ND. unfold tf_name in ND. cbn [fst] in ND. rewrite map_id in ND. exact ND. }
        destruct (raw_names_nodup _ _ _ _ _ Ea NDn) as [N1 N2].
        rewrite E1 in N1. rewrite map_app in N1. cbn [map] in N1. split.
        -- intros Hin. apply NoDup_remove_2 in N1. apply N1. apply in_or_app. left. exact Hin.
        -- rewrite forallb_forall in OF1.
           assert (He : In e a) by (rewrite E1; apply in_or_app; right; left; reflexivity).
           specialize (OF1 _ (N2 e He)). apply negb_true_iff in OF1. intros Hin.
           assert (existsb (String.eqb (f_name e)) seen = true) by (apply existsb_eqb_in; exact Hin). congruence.
    + (* the marked entry belongs to a later declaration *)
      assert (Heb : In e b) by (rewrite E2; apply in_or_app; right; left; reflexivity).
      destruct (relevant_top _ _ _ _ _ _ Eb Heb R) as [_ Hown].
      destruct (fd_names fd) as [|x names] eqn:EN.
      * destruct (raw_type pkg fuel 0 [] (fd_ty fd) (parse_new_comment (fd_doc fd))) as [l|] eqn:Er; [|discriminate].
        inversion Ea; subst a.
        destruct (IH b (names_below pkg fuel (fd_ty fd) ++ seen) eq_refl OF NDb l1' e l2 E2 R) as [I1 I2].
        split.
        -- rewrite E1, map_app. intros Hin. apply in_app_or in Hin. destruct Hin as [Hin|Hin]; [|exact (I1 Hin)].
           apply in_map_iff in Hin. destruct Hin as [e' [En He']]. apply I2. apply in_or_app. left.
           rewrite <- En. eapply raw_type_names; eauto.
        -- intros Hin. apply I2. apply in_or_app. right. exact Hin.
      * apply andb_true_iff in OF. destruct OF as [OF1 OF2].
        destruct (IH b seen eq_refl OF2 NDb l1' e l2 E2 R) as [I1 I2]. split; [|exact I2].
        rewrite E1, map_app. intros Hin. apply in_app_or in Hin. destruct Hin as [Hin|Hin]; [|exact (I1 Hin)].
        (* a name of this declaration equals a name of a later declaration: the struct declares it twice *)
        apply in_map_iff in Hin. destruct Hin as [e' [En He']].
        destruct (raw_names_facts _ _ _ _ _ _ Ea He') as [_ [_ [_ [Hn' _]]]].
        rewrite En in Hn'.
        apply (NoDup_app_disjoint _ _ _ (f_name e) ND).
        -- unfold tfields_of_decl. rewrite EN. rewrite map_map. unfold tf_name. cbn [fst]. rewrite map_id. exact Hn'.
        -- clear - Hown. induction fds as [|f fds IHf]; [destruct Hown|].
           cbn [flat_map] in *. rewrite map_app. apply in_or_app. apply in_app_or in Hown. destruct Hown as [Ho|Ho]; [left|right; auto].
           rewrite tfields_of_decl_names. destruct (fd_names f); [destruct Ho|exact Ho].
Qed.

Lemma raw_first_of_name : forall pkg fl fuel sd raw,
  raw_top pkg fl fuel (sd_fields sd) = COk raw -> c03_guard pkg fl fuel sd = true ->
  forall l1 e l2, raw = l1 ++ e :: l2 -> relevant e = true -> ~ In (f_name e) (map f_name l1).
Proof.
  intros pkg fl fuel sd raw Hraw G l1 e l2 E R.
  destruct (c03_guard_parts _ _ _ _ G) as [G2 [_ [GO _]]].
  destruct (c02_guard_parts _ _ _ G2) as [_ [GW _]].
  assert (ND := top_names_nodup _ _ _ GW). unfold top_tfields in ND.
  unfold own_names_fresh in GO.
  destruct (raw_top_first pkg fl fuel (sd_fields sd) raw [] Hraw GO ND l1 e l2 E R) as [I _]. exact I.
Qed.

(* ------------------------------------------------------------ the accessor table *)
Lemma no_excluded_names : forall sd, no_excluded_fields sd = true ->
  forall fd n, In fd (sd_fields sd) -> In n (fd_names fd) -> excluded_decl fd n = false.
Proof.
  intros sd H fd n Hfd Hn. unfold no_excluded_fields, struct_clean in H. rewrite forallb_forall in H.
  specialize (H fd Hfd). rewrite forallb_forall in H. specialize (H n Hn). apply negb_true_iff in H. exact H.
Qed.

Theorem accessor_table : forall pkg v fl fuel sd fields d nd,
  getset_of pkg v fl fuel sd = COk (fields, d, nd) ->
  c03_guard pkg fl fuel sd = true ->
  gs_getters d = spec_accessors fl sd true /\ gs_setters d = spec_accessors fl sd false.
Proof.
  intros pkg v fl fuel sd fields d nd H G. unfold getset_of in H.
  destruct (flatten pkg fl fuel sd) as [[fs hn]| |] eqn:EF; try discriminate.
  inversion H; subst fields d nd. clear H.
  destruct (flatten_is_marked_raw _ _ _ _ _ _ EF) as [raw [Hraw [Hfs _]]]. subst fs.
  destruct (c03_guard_parts _ _ _ _ G) as [_ [GE _]].
  unfold make_getset. destruct (type_switch fl sd) as [gt st] eqn:ES. cbn [gs_getters gs_setters].
  unfold mark, markmap. rewrite (loop_keeps pkg v fuel gt st (mark_with raw) (mark_with_keeps raw)).
  destruct (loop_lists pkg v fuel gt st raw empty_gs_acc) as [L1 L2].
  { intros l1 e l2 E R. split; [intros []|]. eapply raw_first_of_name; eauto. }
  rewrite L1, L2. cbn [ga_get ga_set empty_gs_acc app].
  destruct (raw_top_lists pkg fl fuel sd (sd_fields sd) raw Hraw (no_excluded_names sd GE)) as [R1 R2].
  rewrite ES in R1, R2. cbn [fst snd] in R1, R2. rewrite R1, R2, !spec_accessors_unfold. auto.
Qed.

(* ---------------------------------------------- exported field with a directive: fatal *)
Lemma raw_names_fatal_iff : forall fl fd is_new names,
  fl_getset fl = true ->
  (forall n, In n names -> excluded_decl fd n = false) ->
  ((exists m, raw_names fl fd is_new names = CFatal m) <->
   existsb (fun n => is_exported n && negb (excluded_decl fd n) &&
                     (fst (parse_getset_comment (fd_doc fd)) || snd (parse_getset_comment (fd_doc fd)))) names = true) /\
  raw_names fl fd is_new names <> COutOfFuel.
Proof.
  intros fl fd is_new names GS. induction names as [|n names IH]; intros NX.
  - simpl. split; [split; [intros [m Hm]; discriminate|discriminate]|discriminate].
  - assert (NXn := NX n (or_introl eq_refl)).
    destruct (IH (fun m Hm => NX m (or_intror Hm))) as [IH1 IH2].
    cbn [raw_names existsb]. rewrite NXn. cbn [negb]. rewrite andb_true_r.
    unfold excluded_decl in NXn. apply orb_false_iff in NXn. destruct NXn as [E1 E2]. rewrite E1, E2, GS.
    unfold parse_get_set. destruct (parse_getset_comment (fd_doc fd)) as [g s]. cbn [fst snd] in *.
    destruct (is_exported n) eqn:EX; cbn [andb].
    + destruct (g || s) eqn:GSs; cbn [orb].
      * destruct (if Bool.eqb g s then (true, true) else (g, s)). split; [split; eauto|discriminate].
      * destruct (if Bool.eqb g s then (true, true) else (g, s)).
        destruct (raw_names fl fd is_new names) as [r| |] eqn:Er.
        -- split; [|discriminate]. rewrite <- IH1. split; intros [m Hm]; discriminate.
        -- split; [|discriminate]. rewrite <- IH1. split; intros [m' Hm]; eauto.
        -- exfalso. apply IH2. reflexivity.
    + destruct (if Bool.eqb g s then (true, true) else (g, s)) as [get set].
      destruct (raw_names fl fd is_new names) as [r| |] eqn:Er.
      * split; [|discriminate]. rewrite <- IH1. split; intros [m Hm]; discriminate.
      * split; [|discriminate]. rewrite <- IH1. split; intros [m' Hm]; eauto.
      * exfalso. apply IH2. reflexivity.
Qed.

Lemma raw_top_fatal_iff : forall pkg fl fuel fds,
  fl_getset fl = true ->
  (forall fd n, In fd fds -> In n (fd_names fd) -> excluded_decl fd n = false) ->
  raw_top pkg fl fuel fds <> COutOfFuel ->
  ((exists m, raw_top pkg fl fuel fds = CFatal m) <->
   existsb (fun fd => existsb (fun n => is_exported n && negb (excluded_decl fd n) &&
                        (fst (parse_getset_comment (fd_doc fd)) || snd (parse_getset_comment (fd_doc fd))))
                              (fd_names fd)) fds = true).
Proof.
  intros pkg fl fuel fds GS. induction fds as [|fd fds IH]; intros NX NF.
  - simpl. split; [intros [m Hm]; discriminate|discriminate].
  - cbn [raw_top existsb] in *. unfold raw_decl in *.
    destruct (fd_names fd) as [|x names] eqn:EN.
    + cbn [existsb orb].
      destruct (raw_type pkg fuel 0 [] (fd_ty fd) (parse_new_comment (fd_doc fd))) as [l|]; [|exfalso; apply NF; reflexivity].
      destruct (raw_top pkg fl fuel fds) as [b| |] eqn:Eb.
      * rewrite <- IH; [|intros; eapply NX; eauto; right; assumption|discriminate].
        split; intros [m Hm]; discriminate.
      * rewrite <- IH; [|intros; eapply NX; eauto; right; assumption|discriminate].
        split; intros [m' Hm]; eauto.
      * exfalso. apply NF. reflexivity.
    + assert (NXd : forall n, In n (x :: names) -> excluded_decl fd n = false).
      { intros n Hn. apply (NX fd n (or_introl eq_refl)). rewrite EN. exact Hn. }
      destruct (raw_names_fatal_iff fl fd (parse_new_comment (fd_doc fd)) (x :: names) GS NXd) as [F1 F2].
      destruct (raw_names fl fd (parse_new_comment (fd_doc fd)) (x :: names)) as [a| |] eqn:Ea.
      * assert (F1' : existsb (fun n => is_exported n && negb (excluded_decl fd n) &&
                        (fst (parse_getset_comment (fd_doc fd)) || snd (parse_getset_comment (fd_doc fd)))) (x :: names) = false).
        { apply not_true_is_false. intros T. apply F1 in T. destruct T as [m Hm]. discriminate. }
        rewrite F1'. cbn [orb].
        destruct (raw_top pkg fl fuel fds) as [b| |] eqn:Eb.
        -- rewrite <- IH; [|intros; eapply NX; eauto; right; assumption|discriminate].
           split; intros [m Hm]; discriminate.
        -- rewrite <- IH; [|intros; eapply NX; eauto; right; assumption|discriminate].
           split; intros [m' Hm]; eauto.
        -- exfalso. apply NF. reflexivity.
      * assert (T : existsb (fun n => is_exported n && negb (excluded_decl fd n) &&
                        (fst (parse_getset_comment (fd_doc fd)) || snd (parse_getset_comment (fd_doc fd)))) (x :: names) = true)
          by (apply F1; eauto).
        rewrite T. cbn [orb]. split; eauto.
      * exfalso. apply F2. reflexivity.
Qed.

Theorem exported_directive_fatal : forall pkg fl fuel sd,
  fl_getset fl = true -> depth_bounded pkg fuel sd = true -> no_excluded_fields sd = true ->
  ((exists m, flatten pkg fl fuel sd = CFatal m) <-> directive_on_exported sd = true).
Proof.
  intros pkg fl fuel sd GS GB GE.
  pose proof (flatten_terminates pkg fl fuel sd GB) as NT.
  unfold flatten in *. rewrite extract_top_is_fold in *.
  assert (NF : raw_top pkg fl fuel (sd_fields sd) <> COutOfFuel).
  { intros E. rewrite E in NT. apply NT. reflexivity. }
  unfold directive_on_exported.
  rewrite <- (raw_top_fatal_iff pkg fl fuel (sd_fields sd) GS (no_excluded_names sd GE) NF).
  destruct (raw_top pkg fl fuel (sd_fields sd)) as [raw| |]; split; intros [m Hm]; try discriminate; eauto.
Qed.

Lemma flat_map_nil : forall A B (f : A -> list B) l, (forall x, In x l -> f x = []) -> flat_map f l = [].
Proof.
  intros A B f l. induction l as [|x r IH]; intros H; simpl; auto.
  rewrite (H x (or_introl eq_refl)), IH; auto. intros y Hy. apply H. right. exact Hy.
Qed.

(* without -getset nothing is ever refused and no accessor exists *)
Theorem no_getset_no_accessors : forall fl sd getter, fl_getset fl = false -> spec_accessors fl sd getter = [].
Proof.
  intros fl sd getter H. unfold spec_accessors.
  apply flat_map_nil. intros fd _. apply flat_map_nil. intros n _.
  unfold wants. rewrite H. destruct getter; reflexivity.
Qed.

(* ------------------------------------------------- names and types of the emitted accessors *)
(* TypeMap: the printed type of the LAST unshadowed leaf entry of the name *)
Definition last_typed (n : ident) (fs : list field) (acc : option string) : option string :=
  fold_left (fun acc f => if oentry f && String.eqb (f_name f) n then Some (star_type f) else acc) fs acc.

Lemma loop_types : forall hn fs a n,
  assoc n (a_types (make_new_loop hn fs a)) = last_typed n fs (assoc n (a_types a)).
Proof.
  intros hn fs. induction fs as [|f fs IH]; intros a n; simpl; auto.
  unfold oentry at 1.
  destruct (f_shadowed f); simpl; [apply IH|].
  destruct (f_embedded f); simpl; [apply IH|].
  destruct (hn && negb (f_new f)); rewrite IH; simpl; rewrite assoc_map_put, String.eqb_sym; reflexivity.
Qed.

Lemma last_typed_stable : forall n fs s,
  (forall e, In e (filter oentry fs) -> f_name e = n -> star_type e = s) ->
  last_typed n fs (Some s) = Some s.
Proof.
  intros n fs s. unfold last_typed. induction fs as [|f fs IH]; intros H; simpl; auto.
  simpl in H. destruct (oentry f) eqn:Of; simpl.
  - destruct (String.eqb (f_name f) n) eqn:En.
    + apply String.eqb_eq in En. rewrite (H f (or_introl eq_refl) En). apply IH. intros e He. apply H. right. exact He.
    + apply IH. intros e He. apply H. right. exact He.
  - apply IH. exact H.
Qed.

Lemma last_typed_found : forall n fs s acc e,
  In e (filter oentry fs) -> f_name e = n ->
  (forall e', In e' (filter oentry fs) -> f_name e' = n -> star_type e' = s) ->
  last_typed n fs acc = Some s.
Proof.
  intros n fs s. induction fs as [|f fs IH]; intros acc e He Hn H; [destruct He|].
  unfold last_typed. simpl. simpl in He, H. destruct (oentry f) eqn:Of; simpl.
  - destruct (String.eqb (f_name f) n) eqn:En.
    + apply String.eqb_eq in En. rewrite (H f (or_introl eq_refl) En).
      apply last_typed_stable. intros e' He'. apply H. right. exact He'.
    + destruct He as [He|He]; [subst f; rewrite Hn, String.eqb_refl in En; discriminate|].
      apply (IH acc e He Hn). intros e' He'. apply H. right. exact He'.
  - apply (IH acc e He Hn). exact H.
Qed.

Lemma raw_names_star : forall fl fd is_new names l e,
  raw_names fl fd is_new names = COk l -> In e l -> star_type e = star_of_ty (f_ty e).
Proof.
  intros fl fd is_new names. induction names as [|n names IH]; intros l e H He; simpl in H.
  - inversion H; subst. destruct He.
  - destruct (String.prefix "_" n); [eauto|].
    destruct (tag_is_dash (fd_tag fd)); [eauto|].
    destruct (if fl_getset fl then parse_get_set (fd_doc fd) n else Some (false, false)) as [[get set]|]; [|discriminate].
    destruct (raw_names fl fd is_new names) as [r| |] eqn:Er; try discriminate.
    inversion H; subst l. destruct He as [He|He]; [|eapply IH; eauto].
    subst e. rewrite top_entry_ty. unfold top_entry, star_type, star_of_ty.
    destruct (qualified_name (fd_ty fd)). reflexivity.
Qed.

Lemma relevant_star : forall pkg fl fuel fds raw e,
  raw_top pkg fl fuel fds = COk raw -> In e raw -> relevant e = true -> star_type e = star_of_ty (f_ty e).
Proof.
  intros pkg fl fuel fds. induction fds as [|fd fds IH]; intros raw e H He R; simpl in H.
  - inversion H; subst. destruct He.
  - destruct (raw_decl pkg fl fuel fd) as [a| |] eqn:Ea; try discriminate.
    destruct (raw_top pkg fl fuel fds) as [b| |] eqn:Eb; try discriminate.
    inversion H; subst raw. apply in_app_or in He. destruct He as [He|He]; [|eapply IH; eauto].
    unfold raw_decl in Ea. destruct (fd_names fd) as [|x names] eqn:EN.
    + destruct (raw_type pkg fuel 0 [] (fd_ty fd) (parse_new_comment (fd_doc fd))) as [l|] eqn:Er; [|discriminate].
      inversion Ea; subst a. destruct (raw_type_no_gs _ _ _ _ _ _ _ Er e He) as [Hg Hs].
      unfold relevant in R. rewrite Hg, Hs, andb_false_r in R. discriminate.
    + eapply raw_names_star; eauto.
Qed.

Definition acc_row (getter : bool) (a : acc_field) : string * mkind * string :=
  (if getter then getter_name (af_name a) else setter_name (af_name a), if getter then MGet else MSet, star_of_ty (af_ty a)).

(* the accessors the template emits: one per table entry, named Pascal f / Set + Pascal f, typed like the field *)
Theorem emitted_accessors_table : forall pkg v fl fuel sd fields d nd,
  getset_of pkg v fl fuel sd = COk (fields, d, nd) ->
  c03_guard pkg fl fuel sd = true ->
  emitted_accessors fl nd d =
  if fl_getset fl then map (acc_row true) (spec_accessors fl sd true) ++ map (acc_row false) (spec_accessors fl sd false)
  else [].
Proof.
  intros pkg v fl fuel sd fields d nd H G.
  destruct (accessor_table _ _ _ _ _ _ _ _ H G) as [T1 T2].
  unfold emitted_accessors. destruct (fl_getset fl) eqn:GS; [|reflexivity].
  unfold getset_of in H.
  destruct (flatten pkg fl fuel sd) as [[fs hn]| |] eqn:EF; try discriminate.
  inversion H; subst fields d nd. clear H.
  destruct (flatten_is_marked_raw _ _ _ _ _ _ EF) as [raw [Hraw [Hfs Hhn]]]. subst fs hn.
  destruct (c03_guard_parts _ _ _ _ G) as [G2 [GE _]].
  destruct (c02_guard_parts _ _ _ G2) as [GB [GW [GU [GN [_ [_ [GX _]]]]]]].
  (* the type map at a marked entry's name *)
  assert (TM : forall e0, In e0 raw -> relevant e0 = true ->
               assoc_s (f_name e0) (nd_type_map (make_new sd (has_new_spec sd) (mark raw))) = star_of_ty (f_ty e0)).
  { intros e0 He0 R. unfold assoc_s, make_new. cbn [nd_type_map]. rewrite loop_types. cbn [a_types assoc].
    destruct (relevant_top _ _ _ _ _ _ Hraw He0 R) as [Hd _].
    assert (Ua : unmarked raw) by (eapply raw_top_unmarked; eauto).
    set (e := mark_with raw e0).
    assert (Ie : In e (mark raw)) by (unfold mark, markmap; apply in_map; exact He0).
    assert (Se : f_shadowed e = false).
    { unfold e. rewrite mark_with_shadowed by (apply Ua; exact He0).
      apply shadowed_in_false_iff. intros x _ _. lia. }
    assert (Oe : oentry e = true).
    { unfold oentry. rewrite Se. unfold e. rewrite mark_with_embedded.
      unfold relevant in R. apply andb_true_iff in R. destruct R as [R _]. rewrite R. reflexivity. }
    rewrite (last_typed_found (f_name e0) (mark raw) (star_type e) None e).
    - unfold e, star_type. rewrite mark_with_ptr, mark_with_qtype. fold (star_type e0).
      rewrite (relevant_star _ _ _ _ _ _ Hraw He0 R). reflexivity.
    - apply filter_In. auto.
    - unfold e. apply mark_with_name.
    - intros e' He' Hn'. apply filter_In in He'. destruct He' as [I' O'].
      unfold oentry in O'. apply andb_true_iff in O'. destruct O' as [S' _]. apply negb_true_iff in S'.
      f_equal. apply (unique_unshadowed_mark _ _ _ _ _ Hraw GB GW GU GN GX); auto.
      rewrite Hn'. unfold e. symmetry. apply mark_with_name. }
  (* the lists are the marked entries *)
  unfold make_getset in *. destruct (type_switch fl sd) as [gt st] eqn:ES. cbn [gs_getters gs_setters] in *.
  assert (LM : forall a, make_getset_loop pkg v fuel gt st (mark raw) a = make_getset_loop pkg v fuel gt st raw a).
  { intros a. unfold mark, markmap. apply (loop_keeps pkg v fuel gt st (mark_with raw) (mark_with_keeps raw)). }
  rewrite !LM in *.
  destruct (loop_lists pkg v fuel gt st raw empty_gs_acc) as [L1 L2].
  { intros l1 e l2 E R. split; [intros []|]. eapply raw_first_of_name; eauto. }
  rewrite L1 in T1 |- *. rewrite L2 in T2 |- *. cbn [ga_get ga_set empty_gs_acc app] in *.
  rewrite <- T1, <- T2. unfold gets_of, sets_of. rewrite !map_map.
  f_equal; apply map_ext_in; intros e0 He0; apply filter_In in He0; destruct He0 as [I0 P0];
    unfold acc_row, acc_of; cbn [af_name af_ty]; f_equal; apply TM; auto; unfold relevant.
  - unfold is_get in P0. apply andb_true_iff in P0. destruct P0 as [P1 P2]. apply andb_true_iff in P2.
    destruct P2 as [P2 _]. rewrite P1, P2. reflexivity.
  - unfold is_set in P0. apply andb_true_iff in P0. destruct P0 as [P1 P2]. apply andb_true_iff in P2.
    destruct P2 as [P2 _]. rewrite P1, P2, orb_true_r. reflexivity.
Qed.
