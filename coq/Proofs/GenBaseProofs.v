(* Order and sorting facts used by the C08 / C07 proofs: the byte order of strings is a total order,
   insertion sort returns a sorted permutation, a sorted permutation is unique when the order is
   antisymmetric on the elements ("sorting two permutations of a duplicate-free list gives equal lists"),
   filtering commutes with (stable) insertion sort, association-list facts. *)
From Coq Require Import List String Ascii Bool Arith Lia Permutation Sorting.Sorted.
From Shoot Require Import Model.Gen.
Import ListNotations.
Local Open Scope string_scope.

(* ---------------------------------------------------------------- byte order *)
Lemma lex_leb_cons : forall x a y b,
  lex_leb (x :: a) (y :: b) = true <-> (x < y \/ (x = y /\ lex_leb a b = true)).
Proof.
  intros. cbn [lex_leb].
  destruct (Nat.ltb_spec x y) as [H|H]; [split; auto|].
  destruct (Nat.ltb_spec y x) as [H'|H'].
  - split; [discriminate | intros [?|[? _]]; lia].
  - split; [intros; right; split; auto; lia | intros [?|[_ ?]]; auto; lia].
Qed.

Lemma lex_leb_refl : forall a, lex_leb a a = true.
Proof. induction a as [|x a IH]; auto. apply lex_leb_cons. auto. Qed.

Lemma lex_leb_total : forall a b, lex_leb a b = true \/ lex_leb b a = true.
Proof.
  induction a as [|x a IH]; intros [|y b]; auto.
  rewrite !lex_leb_cons. destruct (IH b); destruct (Nat.lt_total x y) as [?|[?|?]]; auto.
Qed.

Lemma lex_leb_trans : forall a b c, lex_leb a b = true -> lex_leb b c = true -> lex_leb a c = true.
Proof.
  induction a as [|x a IH]; intros [|y b] [|z c]; auto; try discriminate.
  rewrite !lex_leb_cons. intros [H1|[H1 H1']] [H2|[H2 H2']]; try (left; lia).
  right. split; [lia|]. eapply IH; eauto.
Qed.

Lemma lex_leb_antisym : forall a b, lex_leb a b = true -> lex_leb b a = true -> a = b.
Proof.
  induction a as [|x a IH]; intros [|y b]; auto; try discriminate.
  rewrite !lex_leb_cons. intros [H1|[H1 H1']] [H2|[H2 H2']]; try lia.
  subst. f_equal. auto.
Qed.

Lemma codes_inj : forall a b, codes a = codes b -> a = b.
Proof.
  induction a as [|c a IH]; intros [|d b]; cbn; auto; try discriminate.
  intros H. injection H as H1 H2. f_equal; auto.
  rewrite <- (ascii_nat_embedding c), <- (ascii_nat_embedding d). congruence.
Qed.

Lemma sleb_refl : forall a, sleb a a = true.
Proof. intros; apply lex_leb_refl. Qed.
Lemma sleb_total : forall a b, sleb a b = true \/ sleb b a = true.
Proof. intros; apply lex_leb_total. Qed.
Lemma sleb_trans : forall a b c, sleb a b = true -> sleb b c = true -> sleb a c = true.
Proof. intros a b c; apply lex_leb_trans. Qed.
Lemma sleb_antisym : forall a b, sleb a b = true -> sleb b a = true -> a = b.
Proof. intros a b H1 H2. apply codes_inj. apply lex_leb_antisym; auto. Qed.

(* ---------------------------------------------------------------- insertion sort *)
Section Sorting.
  Context {A : Type} (leb : A -> A -> bool).
  Hypothesis leb_total : forall a b, leb a b = true \/ leb b a = true.
  Hypothesis leb_trans : forall a b c, leb a b = true -> leb b c = true -> leb a c = true.

  Definition le (a b : A) : Prop := leb a b = true.

  Lemma insert_perm : forall x l, Permutation (insert leb x l) (x :: l).
  Proof.
    induction l as [|y l IH]; cbn; auto.
    destruct (leb x y); auto.
    eapply perm_trans; [apply perm_skip, IH | apply perm_swap].
  Qed.

  Lemma isort_perm : forall l, Permutation (isort leb l) l.
  Proof.
    induction l as [|x l IH]; cbn; auto.
    eapply perm_trans; [apply insert_perm | apply perm_skip, IH].
  Qed.

  Lemma insert_sorted : forall x l, StronglySorted le l -> StronglySorted le (insert leb x l).
  Proof.
    induction l as [|y l IH]; cbn; intros Hs.
    - constructor; auto.
    - inversion Hs as [|? ? Hs' Hall]; subst.
      destruct (leb x y) eqn:E.
      + constructor; auto. constructor; auto.
        eapply Forall_impl; [|exact Hall]. intros z Hz. eapply leb_trans; eauto.
      + constructor; auto.
        assert (Hyx : leb y x = true) by (destruct (leb_total x y); congruence).
        eapply Permutation_Forall; [apply Permutation_sym, insert_perm|].
        constructor; auto.
  Qed.

  Lemma isort_sorted : forall l, StronglySorted le (isort leb l).
  Proof. induction l as [|x l IH]; cbn; [constructor | apply insert_sorted; auto]. Qed.

  (* a sorted permutation is unique when the order is antisymmetric on the elements *)
  Lemma sorted_perm_unique : forall l1 l2,
    StronglySorted le l1 -> StronglySorted le l2 -> Permutation l1 l2 ->
    (forall a b, In a l1 -> In b l1 -> leb a b = true -> leb b a = true -> a = b) ->
    l1 = l2.
  Proof.
    induction l1 as [|x l1 IH]; intros l2 H1 H2 Hp Hanti.
    - apply Permutation_nil in Hp. auto.
    - destruct l2 as [|y l2]; [apply Permutation_sym, Permutation_nil in Hp; discriminate|].
      inversion H1 as [|? ? H1' Hall1]; subst. inversion H2 as [|? ? H2' Hall2]; subst.
      assert (x = y) as ->.
      { assert (Hx : In x (y :: l2)) by (eapply Permutation_in; [exact Hp | left; auto]).
        assert (Hy : In y (x :: l1)) by (eapply Permutation_in; [apply Permutation_sym; exact Hp | left; auto]).
        destruct Hx as [->|Hx]; auto. destruct Hy as [->|Hy]; auto.
        apply Hanti; [left; auto | right; auto | |].
        - rewrite Forall_forall in Hall1. apply Hall1; auto.
        - rewrite Forall_forall in Hall2. apply Hall2; auto. }
      f_equal. apply IH; auto.
      + eapply Permutation_cons_inv; eauto.
      + intros a b Ha Hb. apply Hanti; right; auto.
  Qed.

  Lemma isort_perm_eq : forall l1 l2,
    Permutation l1 l2 ->
    (forall a b, In a l1 -> In b l1 -> leb a b = true -> leb b a = true -> a = b) ->
    isort leb l1 = isort leb l2.
  Proof.
    intros l1 l2 Hp Hanti. apply sorted_perm_unique; try apply isort_sorted.
    - eapply perm_trans; [apply isort_perm|]. eapply perm_trans; [exact Hp|]. apply Permutation_sym, isort_perm.
    - intros a b Ha Hb. apply Hanti; eapply Permutation_in; try apply isort_perm; auto.
  Qed.

  (* filtering commutes with insertion sort *)
  Lemma insert_below : forall x l, Forall (le x) l -> insert leb x l = x :: l.
  Proof. intros x [|y l] H; cbn; auto. inversion H; subst. unfold le in *. rewrite H2. auto. Qed.

  Lemma filter_insert : forall p x l, StronglySorted le l ->
    filter p (insert leb x l) = if p x then insert leb x (filter p l) else filter p l.
  Proof.
    induction l as [|y l IH]; intros Hs.
    - cbn. destruct (p x); auto.
    - inversion Hs as [|? ? Hs' Hall]; subst. cbn [insert].
      destruct (leb x y) eqn:E.
      + change (filter p (x :: y :: l)) with (if p x then x :: filter p (y :: l) else filter p (y :: l)).
        destruct (p x) eqn:Px; auto.
        symmetry. apply insert_below.
        assert (Hxl : Forall (le x) (y :: l)).
        { constructor; auto. eapply Forall_impl; [|exact Hall]. intros z Hz. eapply leb_trans; eauto. }
        apply Forall_forall. intros z Hz. apply filter_In in Hz. destruct Hz as [Hz _].
        rewrite Forall_forall in Hxl. auto.
      + cbn [filter]. rewrite IH; auto. destruct (p y) eqn:Py; destruct (p x) eqn:Px; auto.
        cbn [insert]. rewrite E. auto.
  Qed.

  Lemma filter_isort : forall p l, filter p (isort leb l) = isort leb (filter p l).
  Proof.
    induction l as [|x l IH]; cbn; auto.
    rewrite filter_insert by apply isort_sorted. rewrite IH. destruct (p x); auto.
  Qed.
End Sorting.

(* sort.Strings on two orders of the same duplicate-free slice *)
Lemma sort_strings_perm : forall l1 l2, Permutation l1 l2 -> sort_strings l1 = sort_strings l2.
Proof.
  intros. apply isort_perm_eq; auto.
  - exact sleb_total.
  - exact sleb_trans.
  - intros a b _ _. apply sleb_antisym.
Qed.

(* sorting by a key that is injective on the list *)
Lemma sort_by_key_perm : forall {A} (key : A -> string) l1 l2,
  Permutation l1 l2 ->
  (forall a b, In a l1 -> In b l1 -> key a = key b -> a = b) ->
  sort_by_key key l1 = sort_by_key key l2.
Proof.
  intros A key l1 l2 Hp Hinj. unfold sort_by_key. apply isort_perm_eq; auto.
  - intros a b. apply sleb_total.
  - intros a b c. apply sleb_trans.
  - intros a b Ha Hb H1 H2. apply Hinj; auto. apply sleb_antisym; auto.
Qed.

Lemma sort_by_key_filter : forall {A} (key : A -> string) p l,
  filter p (sort_by_key key l) = sort_by_key key (filter p l).
Proof.
  intros. unfold sort_by_key. apply filter_isort.
  - intros a b. apply sleb_total.
  - intros a b c. apply sleb_trans.
Qed.

(* ---------------------------------------------------------------- association lists *)
Lemma alookup_upsert_same : forall {A} k (v : A) m, alookup k (upsert k v m) = Some v.
Proof.
  induction m as [|[k' v'] m IH]; cbn.
  - rewrite String.eqb_refl. auto.
  - destruct (k' =? k) eqn:E; cbn; [rewrite String.eqb_refl | rewrite E]; auto.
Qed.

Lemma alookup_upsert_other : forall {A} k k' (v : A) m, k' <> k -> alookup k' (upsert k v m) = alookup k' m.
Proof.
  induction m as [|[k2 v2] m IH]; cbn; intros Hne.
  - destruct (k =? k') eqn:E; auto. apply String.eqb_eq in E. congruence.
  - destruct (k2 =? k) eqn:E; cbn.
    + apply String.eqb_eq in E. subst. destruct (k =? k') eqn:E2; auto. apply String.eqb_eq in E2. congruence.
    + destruct (k2 =? k'); auto.
Qed.

Lemma smem_in : forall x l, smem x l = true <-> In x l.
Proof.
  unfold smem. intros. rewrite existsb_exists. split.
  - intros [y [Hy E]]. apply String.eqb_eq in E. subst. auto.
  - intros H. exists x. split; auto. apply String.eqb_refl.
Qed.

(* ---------------------------------------------------------------- maps as association lists *)
Definition keys {A} (m : list (string * A)) : list string := map fst m.

Lemma upsert_keys_in : forall {A} k (v : A) m x, In x (keys (upsert k v m)) <-> x = k \/ In x (keys m).
Proof.
  induction m as [|[k' v'] m IH]; intros x; cbn.
  - intuition.
  - destruct (String.eqb_spec k' k) as [->|ne]; cbn.
    + intuition.
    + rewrite IH. intuition.
Qed.

Lemma upsert_nodup : forall {A} k (v : A) m, NoDup (keys m) -> NoDup (keys (upsert k v m)).
Proof.
  induction m as [|[k' v'] m IH]; intros H; cbn.
  - constructor; [intros []|constructor].
  - inversion H as [|? ? Hn Hd]; subst.
    destruct (String.eqb_spec k' k) as [->|ne]; cbn.
    + constructor; auto.
    + constructor; auto. intros Hin. apply (upsert_keys_in k v m k') in Hin. destruct Hin as [->|Hin]; auto.
Qed.

Lemma alookup_in : forall {A} k (v : A) m, NoDup (keys m) -> (alookup k m = Some v <-> In (k, v) m).
Proof.
  induction m as [|[k' v'] m IH]; intros H; cbn.
  - split; [discriminate | tauto].
  - inversion H as [|? ? Hn Hd]; subst.
    destruct (String.eqb_spec k' k) as [->|ne].
    + split.
      * intros E. injection E as ->. auto.
      * intros [E|Hin]; [injection E as ->; auto|]. exfalso. apply Hn. change k with (fst (k, v)). apply in_map. auto.
    + rewrite IH by auto. split; auto. intros [E|Hin]; auto. injection E as -> ->. congruence.
Qed.

Lemma alookup_none : forall {A} k (m : list (string * A)), alookup k m = None <-> ~ In k (keys m).
Proof.
  induction m as [|[k' v'] m IH]; cbn.
  - tauto.
  - destruct (String.eqb_spec k' k) as [->|ne].
    + split; [discriminate | intros H; exfalso; apply H; auto].
    + rewrite IH. intuition.
Qed.

Definition ups {A} (d : list (string * A)) (e : string * A) := upsert (fst e) (snd e) d.

Lemma fold_ups_nodup : forall {A} (l m : list (string * A)), NoDup (keys m) -> NoDup (keys (fold_left ups l m)).
Proof.
  induction l as [|[k v] l IH]; intros m H; cbn; auto. apply IH. apply upsert_nodup. auto.
Qed.

Lemma alookup_fold_ups : forall {A} (l m : list (string * A)) k, NoDup (keys l) ->
  alookup k (fold_left ups l m) = match alookup k l with Some v => Some v | None => alookup k m end.
Proof.
  induction l as [|[k' v'] l IH]; intros m k H; cbn; auto.
  inversion H as [|? ? Hn Hd]; subst. rewrite IH by auto.
  destruct (String.eqb_spec k' k) as [->|ne].
  - destruct (alookup k l) eqn:E.
    + exfalso. apply Hn. apply (alookup_in k a l Hd) in E. change k with (fst (k, a)). apply in_map. auto.
    + unfold ups. cbn. apply alookup_upsert_same.
  - destruct (alookup k l); auto. unfold ups. cbn. apply alookup_upsert_other. auto.
Qed.

(* two maps with the same lookups and duplicate-free keys list the same *)
Lemma lookup_eq_perm : forall {A} (m1 m2 : list (string * A)),
  NoDup (keys m1) -> NoDup (keys m2) -> (forall k, alookup k m1 = alookup k m2) -> Permutation m1 m2.
Proof.
  intros A m1 m2 H1 H2 Heq. apply NoDup_Permutation.
  - clear - H1. induction m1 as [|[k v] m IH]; [constructor|]. inversion H1; subst. constructor; auto.
    intros Hin. apply H2. change k with (fst (k, v)). apply in_map. auto.
  - clear - H2. induction m2 as [|[k v] m IH]; [constructor|]. inversion H2; subst. constructor; auto.
    intros Hin. apply H1. change k with (fst (k, v)). apply in_map. auto.
  - intros [k v]. rewrite <- (alookup_in k v m1 H1), <- (alookup_in k v m2 H2), Heq. tauto.
Qed.

Lemma listing_eq : forall (m1 m2 : gfiles),
  NoDup (keys m1) -> NoDup (keys m2) -> (forall k, alookup k m1 = alookup k m2) -> listing m1 = listing m2.
Proof.
  intros m1 m2 H1 H2 Heq. unfold listing. apply sort_by_key_perm.
  - apply lookup_eq_perm; auto.
  - intros [k1 v1] [k2 v2] Ha Hb E. cbn in E. subst.
    apply (alookup_in k2 v1 m1 H1) in Ha. apply (alookup_in k2 v2 m1 H1) in Hb. congruence.
Qed.

(* the write loop of main.go: the directory afterwards does not depend on the order of the writes *)
Lemma alookup_perm : forall {A} (l1 l2 : list (string * A)) k,
  Permutation l1 l2 -> NoDup (keys l1) -> alookup k l1 = alookup k l2.
Proof.
  intros A l1 l2 k Hp Hn.
  assert (Hn2 : NoDup (keys l2)) by (eapply Permutation_NoDup; [apply Permutation_map; exact Hp | exact Hn]).
  destruct (alookup k l1) eqn:E1.
  - apply (alookup_in k a l1 Hn) in E1. symmetry. apply (alookup_in k a l2 Hn2). eapply Permutation_in; eauto.
  - symmetry. apply alookup_none. apply alookup_none in E1. intros Hin. apply E1.
    eapply Permutation_in; [apply Permutation_sym, Permutation_map; exact Hp | exact Hin].
Qed.

Lemma write_order_irrelevant : forall (l1 l2 prior : gfiles),
  Permutation l1 l2 -> NoDup (keys l1) -> NoDup (keys prior) ->
  listing (fold_left ups l1 prior) = listing (fold_left ups l2 prior).
Proof.
  intros l1 l2 prior Hp Hn Hpn.
  assert (Hn2 : NoDup (keys l2)) by (eapply Permutation_NoDup; [apply Permutation_map; exact Hp | exact Hn]).
  apply listing_eq; try apply fold_ups_nodup; auto.
  intros k. rewrite !alookup_fold_ups by auto. rewrite (alookup_perm l1 l2 k Hp Hn). reflexivity.
Qed.
