(* The boolean property [Pb] of Corr/RestHandleCorr.v (the oracle that decides
   whether an observation of the implementation is a violation of C10) is
   satisfied by the model on EVERY case: every declared result list the
   generator accepts, every status, body, decode outcome and failure. *)
From Coq Require Import List ZArith Bool String NArith Lia.
From Shoot Require Import Model.RestHandle Proofs.RestHandleProofs Corr.RestHandleCorr.
Import ListNotations.
Local Open Scope string_scope.
Local Open Scope Z_scope.

Definition with_obs (c : case) (o : obs) : case :=
  {| c_body_verb := c_body_verb c; c_results := c_results c; c_out := c_out c; c_zero := c_zero c; c_dec := c_dec c; c_obs := o |}.

Lemma oval_eqb_refl : forall a, oval_eqb a a = true.
Proof. destruct a; simpl; [reflexivity | apply String.eqb_refl]. Qed.

Lemma oval_eqb_eq : forall a b, oval_eqb a b = true -> a = b.
Proof. intros [|x] [|y] H; simpl in H; try discriminate; [reflexivity|]. apply String.eqb_eq in H. congruence. Qed.

Lemma ores_eqb_eq : forall a b, ores_eqb a b = true -> a = b.
Proof. intros [x|] [y|] H; simpl in H; try discriminate; [|reflexivity]. apply oval_eqb_eq in H. congruence. Qed.

Lemma oresp_eqb_eq : forall a b, oresp_eqb a b = true -> a = b.
Proof. intros [] [] H; simpl in H; try discriminate; reflexivity. Qed.

Lemma oerr_eqb_eq : forall a b, oerr_eqb a b = true -> a = b.
Proof.
  intros [|x|x|x] [|y|y|y] H; simpl in H; try discriminate; try reflexivity.
  - apply String.eqb_eq in H; congruence.
  - apply Nat.eqb_eq in H; congruence.
  - apply String.eqb_eq in H; congruence.
Qed.

Lemma pobs_eqb_eq : forall a b, pobs_eqb a b = true -> a = b.
Proof.
  intros [n1 r1 p1 e1] [n2 r2 p2 e2] H. unfold pobs_eqb in H; simpl in H.
  repeat (apply andb_true_iff in H; destruct H as [H ?]).
  apply Nat.eqb_eq in H. apply ores_eqb_eq in H2. apply oresp_eqb_eq in H1. apply oerr_eqb_eq in H0.
  congruence.
Qed.

Lemma pobs_eqb_refl : forall a, pobs_eqb a a = true.
Proof.
  intros [n r p e]. unfold pobs_eqb; simpl. rewrite Nat.eqb_refl.
  assert (ores_eqb r r = true) as -> by (destruct r; simpl; [apply oval_eqb_refl | reflexivity]).
  assert (oresp_eqb p p = true) as -> by (destruct p; reflexivity).
  assert (oerr_eqb e e = true) as ->
    by (destruct e; simpl; try reflexivity; try apply String.eqb_refl; apply Nat.eqb_refl).
  reflexivity.
Qed.

Lemma value_oval_ext : forall p v w, val_eqb v w = true -> value_oval p v = value_oval p w.
Proof.
  intros p v w H. unfold val_eqb in H. apply andb_true_iff in H as [Hj Hn].
  apply String.eqb_eq in Hj. apply Bool.eqb_prop in Hn.
  unfold value_oval. rewrite Hj, Hn. reflexivity.
Qed.

Lemma slot_value_oval : forall (p : bool) (v : val),
  slot_oval (if p then SAddr v else SVal v) = value_oval p v.
Proof. intros [] v; reflexivity. Qed.

Lemma model_obs_accepted : forall c o, model_obs c = Some o -> sig_accepted (c_results c).
Proof.
  intros c o H. unfold model_obs, method_returns in H.
  destruct (cook_results (c_results c)) as [f|ck] eqn:Hc; [discriminate|].
  apply sg_cook_results in Hc. tauto.
Qed.

(* the model's observation IS the expected one, on every case *)
Theorem model_obs_is_expected : forall c m,
  wf_results (c_results c) = true ->
  no_both nat (c_out c) = true -> law_ok c = true -> model_obs c = Some m -> pobs_of m = expected c.
Proof.
  intros c o Hwf Hnb Hlaw Hm.
  pose proof (model_obs_accepted c o Hm) as Hacc.
  unfold model_obs in Hm.
  destruct (scenario_ok (c_body_verb c) (c_out c)) eqn:Hsc.
  2:{ (* impossible scenario: the model returns nothing *)
      exfalso. destruct (c_out c) as [[] x|r|r x]; try discriminate Hsc.
      destruct (c_body_verb c); [discriminate Hsc|].
      rewrite (sg_impossible_scenario val nat (fun _ _ => c_dec c) (c_results c) x Hwf Hacc) in Hm.
      discriminate Hm. }
  rewrite (sg_refines_spec val nat (fun _ _ => c_dec c) (c_body_verb c) (c_results c) (c_out c) Hwf Hacc Hsc Hnb) in Hm.
  clear Hsc.
  unfold expected.
  rewrite declared_arity_values.
  unfold law_ok in Hlaw. unfold declared_shape in *. unfold sig_accepted in Hacc.
  destruct c as [bv rs0 out zero dec0 obs0]; simpl in *.
  clear Hwf. destruct (values rs0) as [|a [|b [|d [|e rest]]]]; simpl in Hacc; try contradiction.
  - (* (response, error) *)
    unfold spec_returns, spec_events in Hm. simpl in Hm.
    destruct out as [st x|r|r x]; [| |discriminate Hnb]; simpl in Hm.
    + inversion Hm; subst; reflexivity.
    + unfold status_error, class_of in Hm.
      destruct (Z.leb_spec 200 (r_status r)), (Z.ltb_spec (r_status r) 300),
               (Z.leb_spec 400 (r_status r)), (Z.ltb_spec (r_status r) 500), (Z.leb_spec 500 (r_status r));
        simpl in Hm; inversion Hm; subst; unfold pobs_of; simpl; rewrite ?Nat.eqb_refl; try reflexivity; lia.
  - (* (result, response, error) *)
    destruct Hacc as (_ & _ & _ & Hshape).
    assert (Hd : exists ty, declared_result [a; b; d] = Some (ty, match f_type a with TStar _ => true | _ => false end)).
    { unfold declared_result. destruct (f_type a); simpl in Hshape; try discriminate; eexists; reflexivity. }
    destruct Hd as (ty & Hd).
    unfold spec_returns, spec_events in Hm. rewrite Hd in Hm.
    set (p := match f_type a with TStar _ => true | _ => false end) in *.
    destruct out as [st x|r|r x]; [| |discriminate Hnb]; simpl in Hm.
    + inversion Hm; subst; reflexivity.
    + unfold status_error, class_of in Hm.
      destruct (Z.leb_spec 200 (r_status r)), (Z.ltb_spec (r_status r) 300),
               (Z.leb_spec 400 (r_status r)), (Z.ltb_spec (r_status r) 500), (Z.leb_spec 500 (r_status r));
        simpl in Hm; try lia.
      all: try (inversion Hm; subst; unfold pobs_of; simpl; rewrite ?Nat.eqb_refl; reflexivity).
      (* success: decode *)
      destruct dec0 as [v [[|x]|]]; simpl in Hm; inversion Hm; subst; unfold pobs_of; simpl;
        rewrite ?slot_value_oval, ?Nat.eqb_refl; simpl.
      * (* io.EOF *)
        destruct (empty_body (r_body r)); rewrite (value_oval_ext p v zero Hlaw); reflexivity.
      * (* other decode error *)
        destruct (empty_body (r_body r)); [discriminate|]. reflexivity.
      * (* decoded *)
        destruct (empty_body (r_body r)); [discriminate|]. reflexivity.
Qed.

Theorem model_satisfies_Pb : forall c o,
  wf_results (c_results c) = true ->
  no_both nat (c_out c) = true -> law_ok c = true -> model_obs c = Some o -> Pb (with_obs c o) = true.
Proof.
  intros c o Hwf Hnb Hlaw Hm. unfold Pb.
  change (c_obs (with_obs c o)) with o.
  change (expected (with_obs c o)) with (expected c).
  rewrite (model_obs_is_expected c o Hwf Hnb Hlaw Hm). apply pobs_eqb_refl.
Qed.

(* the boolean property holds of an observation exactly when it agrees with the
   model on the four observables the property speaks about: a verdict "model and
   implementation differ but the property holds" can only stem from the body
   events (read / Close), which are not part of the property text *)
Theorem Pb_iff_agrees_with_model : forall c m,
  wf_results (c_results c) = true ->
  no_both nat (c_out c) = true -> law_ok c = true -> model_obs c = Some m ->
  (Pb c = true <-> pobs_of (c_obs c) = pobs_of m).
Proof.
  intros c m Hwf Hnb Hlaw Hm. unfold Pb.
  rewrite (model_obs_is_expected c m Hwf Hnb Hlaw Hm). split.
  - apply pobs_eqb_eq.
  - intros ->. apply pobs_eqb_refl.
Qed.
