(* The boolean property [Pb] of Corr/RestHandleCorr.v (the oracle that decides
   whether an observation of the implementation is a violation of C10) is
   satisfied by the model on EVERY case: every declared result list the
   generator accepts, every status, body, decode outcome and failure. *)
From Coq Require Import List ZArith Bool String NArith Lia.
From Shoot Require Import Model.RestHandle Proofs.RestHandleProofs Corr.RestHandleCorr.
Import ListNotations.
Local Open Scope string_scope.
Local Open Scope Z_scope.

Definition with_obs (c : case) (o : obs) : case :=
  {| c_body_verb := c_body_verb c; c_results := c_results c; c_out := c_out c; c_zero := c_zero c; c_dec := c_dec c; c_obs := o |}.

Lemma oval_eqb_refl : forall a, oval_eqb a a = true.
Proof. destruct a; simpl; [reflexivity | apply String.eqb_refl]. Qed.

Lemma value_oval_eqb : forall p v w, val_eqb v w = true -> oval_eqb (value_oval p v) (value_oval p w) = true.
Proof.
  intros p v w H. unfold val_eqb in H. apply andb_true_iff in H as [Hj Hn].
  apply String.eqb_eq in Hj. apply Bool.eqb_prop in Hn.
  unfold value_oval. rewrite Hj, Hn. apply oval_eqb_refl.
Qed.

Lemma slot_value_oval : forall (p : bool) (v : val),
  slot_oval (if p then SAddr v else SVal v) = value_oval p v.
Proof. intros [] v; reflexivity. Qed.

Lemma model_obs_accepted : forall c o, model_obs c = Some o -> accepted (c_results c).
Proof.
  intros c o H. unfold model_obs, method_returns in H.
  destruct (cook_results (c_results c)) as [f|ck] eqn:Hc; [discriminate|].
  apply cook_results_accepts in Hc. tauto.
Qed.

Theorem model_satisfies_Pb : forall c o,
  wf_results (c_results c) = true -> single_names (c_results c) = true ->
  law_ok c = true -> model_obs c = Some o -> Pb (with_obs c o) = true.
Proof.
  intros c o Hwf Hsn Hlaw Hm.
  pose proof (model_obs_accepted c o Hm) as Hacc.
  unfold model_obs in Hm.
  destruct (scenario_ok (c_body_verb c) (c_out c)) eqn:Hsc.
  2:{ (* impossible scenario: the model returns nothing *)
      exfalso. destruct (c_out c) as [[] x|r]; try discriminate Hsc.
      destruct (c_body_verb c); [discriminate Hsc|].
      rewrite (mr_impossible_scenario val nat (fun _ _ => c_dec c) (c_results c) x Hwf Hacc) in Hm.
      discriminate Hm. }
  rewrite (method_returns_refines_spec val nat (fun _ _ => c_dec c) (c_body_verb c) (c_results c) (c_out c) Hwf Hacc Hsc) in Hm.
  clear Hsc.
  unfold Pb, with_obs; simpl.
  rewrite (declared_arity_single _ Hsn).
  unfold law_ok in Hlaw.
  destruct c as [bv rs out zero dec0 obs0]; simpl in *.
  destruct rs as [|a [|b [|d [|e rest]]]]; simpl in Hacc; try contradiction.
  - (* (response, error) *)
    unfold spec_returns, spec_events in Hm. simpl in Hm.
    destruct out as [st x|r]; simpl in Hm.
    + inversion Hm; subst; simpl. rewrite Nat.eqb_refl. reflexivity.
    + unfold status_error, class_of in Hm.
      destruct (Z.leb_spec 200 (r_status r)), (Z.ltb_spec (r_status r) 300),
               (Z.leb_spec 400 (r_status r)), (Z.ltb_spec (r_status r) 500), (Z.leb_spec 500 (r_status r));
        simpl in Hm; inversion Hm; subst; simpl; rewrite ?String.eqb_refl, ?Nat.eqb_refl; try reflexivity; lia.
  - (* (result, response, error) *)
    destruct Hacc as (_ & _ & _ & Hshape).
    assert (Hd : exists ty, declared_result [a; b; d] = Some (ty, match f_type a with TStar _ => true | _ => false end)).
    { unfold declared_result. destruct (f_type a); simpl in Hshape; try discriminate; eexists; reflexivity. }
    destruct Hd as (ty & Hd).
    unfold spec_returns, spec_events in Hm. rewrite Hd in Hm.
    set (p := match f_type a with TStar _ => true | _ => false end) in *.
    destruct out as [st x|r]; simpl in Hm.
    + inversion Hm; subst; simpl. rewrite Nat.eqb_refl. reflexivity.
    + unfold status_error, class_of in Hm.
      destruct (Z.leb_spec 200 (r_status r)), (Z.ltb_spec (r_status r) 300),
               (Z.leb_spec 400 (r_status r)), (Z.ltb_spec (r_status r) 500), (Z.leb_spec 500 (r_status r));
        simpl in Hm; try lia.
      all: try (inversion Hm; subst; simpl; rewrite ?String.eqb_refl, ?Nat.eqb_refl; reflexivity).
      (* success: decode *)
      destruct dec0 as [v [[|x]|]]; simpl in Hm; inversion Hm; subst; simpl;
        rewrite ?slot_value_oval, ?Nat.eqb_refl; simpl.
      * (* io.EOF *)
        destruct (String.eqb (b_data (r_body r)) "" && match b_fault (r_body r) with None => true | Some _ => false end);
          apply value_oval_eqb; assumption.
      * (* other decode error *)
        destruct (String.eqb (b_data (r_body r)) "" && match b_fault (r_body r) with None => true | Some _ => false end);
          [discriminate|]. rewrite ?Nat.eqb_refl. reflexivity.
      * (* decoded *)
        destruct (String.eqb (b_data (r_body r)) "" && match b_fault (r_body r) with None => true | Some _ => false end);
          [discriminate|]. apply oval_eqb_refl.
Qed.
