(* Lemmas about Base/GoVal.v: association lists, selection/assignment, and the
   frame lemmas for lookup/update along field paths. *)
From Coq Require Import String List Bool Arith Lia.
From Shoot Require Import Base.GoVal.
Import ListNotations.
Local Open Scope list_scope.

Lemma assoc_set_same : forall A k (a : A) l, has_key k l = true -> assoc k (assoc_set k a l) = Some a.
Proof.
  intros A k a l. unfold has_key. induction l as [|[k' a'] r IH]; simpl; [discriminate|].
  destruct (String.eqb k k') eqn:E; simpl; rewrite E; auto.
Qed.

Lemma assoc_set_other : forall A k k' (a : A) l, k <> k' -> assoc k' (assoc_set k a l) = assoc k' l.
Proof.
  intros A k k' a l Hne. induction l as [|[k2 a2] r IH]; simpl; auto.
  destruct (String.eqb k k2) eqn:E; simpl.
  - apply String.eqb_eq in E; subst k2.
    destruct (String.eqb k' k) eqn:E2; auto. apply String.eqb_eq in E2; congruence.
  - destruct (String.eqb k' k2); auto.
Qed.

Lemma has_key_assoc_set : forall A k k' (a : A) l, has_key k' (assoc_set k a l) = has_key k' l.
Proof.
  intros A k k' a l. unfold has_key. induction l as [|[k2 a2] r IH]; simpl; auto.
  destruct (String.eqb k k2) eqn:E; simpl.
  - destruct (String.eqb k' k2); auto.
  - destruct (String.eqb k' k2); auto.
Qed.

Lemma map_fst_assoc_set : forall A k (a : A) l, map fst (assoc_set k a l) = map fst l.
Proof.
  intros A k a l. induction l as [|[k2 a2] r IH]; simpl; auto.
  destruct (String.eqb k k2); simpl; congruence.
Qed.

Lemma has_key_in : forall A k (l : list (ident * A)), has_key k l = true <-> In k (map fst l).
Proof.
  intros A k l. unfold has_key. induction l as [|[k2 a2] r IH]; simpl.
  - split; [discriminate|tauto].
  - destruct (String.eqb k k2) eqn:E.
    + apply String.eqb_eq in E; subst. split; auto.
    + apply String.eqb_neq in E. rewrite IH. split; [auto|]. intros [H|H]; [congruence|auto].
Qed.

Lemma assoc_in_none : forall A k (l : list (ident * A)), ~ In k (map fst l) -> assoc k l = None.
Proof.
  intros A k l. induction l as [|[k2 a2] r IH]; simpl; auto.
  intros H. destruct (String.eqb k k2) eqn:E.
  - apply String.eqb_eq in E; subst. exfalso; auto.
  - apply IH; auto.
Qed.

(* ---- selection / assignment on struct values (directly or through one pointer) ---- *)
Definition struct_like (v : val) (fs : list (ident * val)) : Prop := v = VStruct fs \/ v = VPtr (VStruct fs).

Lemma sel_struct_like : forall v fs f, struct_like v fs ->
  sel v f = match assoc f fs with Some x => Ok x | None => Stuck end.
Proof. intros v fs f [H|H]; subst; reflexivity. Qed.

Lemma set_sel_same : forall v f w v', set_sel v f w = Ok v' -> sel v' f = Ok w.
Proof.
  intros v f w v' H. destruct v; simpl in H; try discriminate.
  - destruct v; simpl in H; try discriminate.
    destruct (has_key f fs) eqn:K; inversion H; subst; simpl. rewrite assoc_set_same; auto.
  - destruct (has_key f fs) eqn:K; inversion H; subst; simpl. rewrite assoc_set_same; auto.
Qed.

Lemma set_sel_other : forall v f g w v', set_sel v f w = Ok v' -> f <> g -> sel v' g = sel v g.
Proof.
  intros v f g w v' H Hne. destruct v; simpl in H; try discriminate.
  - destruct v; simpl in H; try discriminate.
    destruct (has_key f fs) eqn:K; inversion H; subst; simpl. rewrite assoc_set_other; auto.
  - destruct (has_key f fs) eqn:K; inversion H; subst; simpl. rewrite assoc_set_other; auto.
Qed.

Lemma set_sel_ok_iff : forall v f w, (exists v', set_sel v f w = Ok v') <-> (exists x, sel v f = Ok x).
Proof.
  intros v f w. unfold set_sel, sel, has_key. destruct v; try (split; intros [x H]; discriminate).
  - destruct v; try (split; intros [x H]; discriminate).
    destruct (assoc f fs); split; intros [x H]; try discriminate; eauto.
  - destruct (assoc f fs); split; intros [x H]; try discriminate; eauto.
Qed.

(* ---- frame lemmas ---- *)
Lemma lookup_app : forall p q v, lookup v (p ++ q) = bind (lookup v p) (fun x => lookup x q).
Proof.
  induction p as [|f p IH]; intros q v; simpl; auto.
  destruct (sel v f); simpl; auto.
Qed.

(* reading back what was written *)
Lemma lookup_update_same : forall p v w v', update v p w = Ok v' -> lookup v' p = Ok w.
Proof.
  induction p as [|f p IH]; intros v w v' H; simpl in *.
  - inversion H; auto.
  - destruct (sel v f) as [x| |] eqn:S; simpl in H; try discriminate.
    destruct (update x p w) as [x'| |] eqn:U; simpl in H; try discriminate.
    rewrite (set_sel_same _ _ _ _ H). simpl. eauto.
Qed.

(* a write does not change what is read along a path that leaves the written
   path at some point (neither is a prefix of the other) *)
Lemma lookup_update_diverge : forall p q v w v',
  update v p w = Ok v' -> diverge p q = true -> lookup v' q = lookup v q.
Proof.
  induction p as [|f p IH]; intros q v w v' H D.
  - unfold diverge in D. simpl in D. discriminate.
  - destruct q as [|g q].
    + unfold diverge in D. simpl in D. try rewrite andb_false_r in D. discriminate.
    + simpl in H. destruct (sel v f) as [x| |] eqn:S; simpl in H; try discriminate.
      destruct (update x p w) as [x'| |] eqn:U; simpl in H; try discriminate.
      simpl. destruct (String.eqb f g) eqn:E.
      * apply String.eqb_eq in E; subst g.
        rewrite (set_sel_same _ _ _ _ H). rewrite S. simpl.
        apply (IH q x w x' U).
        unfold diverge in *. simpl in D. rewrite String.eqb_refl in D. simpl in D. exact D.
      * apply String.eqb_neq in E. rewrite (set_sel_other _ _ _ _ _ H E). reflexivity.
Qed.

(* a successful write needs the path to exist, and then succeeds for every value *)
Lemma update_ok_of_lookup : forall p v w, (exists x, lookup v p = Ok x) -> exists v', update v p w = Ok v'.
Proof.
  induction p as [|f p IH]; intros v w [x H]; simpl in *.
  - eauto.
  - destruct (sel v f) as [y| |] eqn:S; simpl in H; try discriminate.
    destruct (IH y w (ex_intro _ x H)) as [y' U]. simpl. rewrite U. simpl.
    apply set_sel_ok_iff. eauto.
Qed.

Lemma is_prefix_refl : forall p, is_prefix p p = true.
Proof. induction p; simpl; auto. rewrite String.eqb_refl. auto. Qed.

Lemma path_eqb_eq : forall p q, path_eqb p q = true <-> p = q.
Proof.
  unfold path_eqb. induction p as [|a p IH]; intros [|b q]; simpl; split; intros H; auto; try discriminate.
  - apply andb_true_iff in H. destruct H as [H1 H2].
    apply andb_true_iff in H1. destruct H1 as [E H1].
    apply andb_true_iff in H2. destruct H2 as [_ H2].
    apply String.eqb_eq in E. subst. f_equal. apply IH. rewrite H1, H2. auto.
  - inversion H; subst. rewrite !String.eqb_refl. simpl.
    rewrite !is_prefix_refl. auto.
Qed.

Lemma path_eqb_refl : forall p, path_eqb p p = true.
Proof. intros. apply path_eqb_eq. auto. Qed.
