(* The two matching passes as a transition system: every state change of
   makeTypeMismatch / makeTypeMatch is a guarded to_claim or from_claim
   ([trans]); [passes_reach] shows the passes only make such steps.  Any
   property preserved by the two transitions is therefore an invariant of the
   passes ([reach_inv]) -- used for the invariants about readSrcMap/writeSrcMap
   and IsPtr that C09 needs, and for attribution in C05. *)
From Coq Require Import String Ascii List Bool Arith Lia.
From Shoot Require Import Base.Str Model.Transfer Model.MapVal Model.Mapper Proofs.MapperProofs.
Import ListNotations.
Local Open Scope string_scope.
Local Open Scope list_scope.

(* the pointer-ness the code stores in IsPtr: of the type, or of the element type of a slice *)
Definition ptrness (t : ty) : bool := fst (strip_ptr (unslice t)).

Section Reach.
  Variable e : env.
  Variable tm : tagmap.
  Variable ic : bool.
  Variable fns : list mfunc.

  (* what a claim does to the written field w (g) and to the field r it reads (h) *)
  Definition claim_ok (d : bool) (r w : field) (g h : field -> field) : Prop :=
    keeps_core g /\ keeps_target g /\ keeps_core h /\ keeps_target h /\ keeps_flags h
    /\ (f_isptr (g w) = f_isptr w \/ f_isptr (g w) = ptrness (f_ty w))
    /\ (forall x, f_isptr (h (set_target x r)) = f_isptr r \/ f_isptr (h (set_target x r)) = ptrness (f_ty r))
    /\ (flagcount w = 0 ->
        flagcount (g w) = 1 /\ just e fns d r (g w)
        /\ (f_canmap (g w) || f_caneach (g w) = true ->
            f_isptr (g w) = ptrness (f_ty w) /\ forall x, f_isptr (h (set_target x r)) = ptrness (f_ty r))).

  (* a guarded claim made while the loops are at the pair (i, j) *)
  Inductive trans_at (i j : nat) : st -> st -> Prop :=
  | T_to : forall s g h,
      in_range s i j -> dst_free s j = true ->
      can_name_match (src_at s i) (dst_at s j) tm ic = true ->
      claim_ok true (src_at s i) (dst_at s j) g h ->
      trans_at i j s (to_claim i j g h s)
  | T_from : forall s g h,
      in_range s i j -> src_free s i = true ->
      can_name_match (src_at s i) (dst_at s j) tm ic = true ->
      claim_ok false (dst_at s j) (src_at s i) g h ->
      trans_at i j s (from_claim i j g h s).

  Definition trans (s s' : st) : Prop := exists i j, trans_at i j s s'.

  Inductive reach : st -> st -> Prop :=
  | R_refl : forall s, reach s s
  | R_step : forall s s1 s2, trans s s1 -> reach s1 s2 -> reach s s2.

  (* ... all of them at the same pair *)
  Inductive reach_at (i j : nat) : st -> st -> Prop :=
  | RA_refl : forall s, reach_at i j s s
  | RA_step : forall s s1 s2, trans_at i j s s1 -> reach_at i j s1 s2 -> reach_at i j s s2.

  Lemma reach_trans a b c : reach a b -> reach b c -> reach a c.
  Proof. induction 1; intros; auto. econstructor; eauto. Qed.

  Lemma reach_one a b : trans a b -> reach a b.
  Proof. intros. econstructor; eauto. constructor. Qed.

  Lemma reach_at_trans i j a b c : reach_at i j a b -> reach_at i j b c -> reach_at i j a c.
  Proof. induction 1; intros; auto. econstructor; eauto. Qed.

  Lemma reach_at_one i j a b : trans_at i j a b -> reach_at i j a b.
  Proof. intros. econstructor; eauto. constructor. Qed.

  Lemma reach_at_reach i j a b : reach_at i j a b -> reach a b.
  Proof. induction 1; [constructor|]. econstructor; eauto. exists i, j. auto. Qed.

  (* any property kept by the transitions is kept by reach *)
  Lemma reach_inv (P : st -> Prop) :
    (forall s s', trans s s' -> P s -> P s') -> forall s s', reach s s' -> P s -> P s'.
  Proof. intros H s s' R. induction R; intros; auto. apply IHR. eapply H; eauto. Qed.

  Lemma reach_at_inv i j (P : st -> Prop) :
    (forall s s', trans_at i j s s' -> P s -> P s') -> forall s s', reach_at i j s s' -> P s -> P s'.
  Proof. intros H s s' R. induction R; intros; auto. apply IHR. eapply H; eauto. Qed.

  Lemma to_claim_core s i j g h :
    in_range s i j -> keeps_core g -> keeps_core h -> Core s (to_claim i j g h s).
  Proof.
    intros (Hi & Hj) Kg Kh. unfold Core, to_claim, src_at, dst_at. simpl. rewrite !upd_length.
    split; auto. split; auto. split; intros k.
    - fold (rd (s_src s) k). fold (rd (upd (s_src s) i (fun f => h (set_target (Some j) f))) k).
      rewrite rd_upd by auto. destruct (Nat.eqb_spec k i) as [->|]; [|apply core_eq_refl].
      apply (keeps_core_eq (fun f => h (set_target (Some j) f))). apply kc_comp; auto. apply kc_target.
    - fold (rd (s_dst s) k). fold (rd (upd (s_dst s) j g) k).
      rewrite rd_upd by auto. destruct (Nat.eqb_spec k j) as [->|]; [|apply core_eq_refl].
      apply keeps_core_eq; auto.
  Qed.

  Lemma from_claim_core s i j g h :
    in_range s i j -> keeps_core g -> keeps_core h -> Core s (from_claim i j g h s).
  Proof.
    intros (Hi & Hj) Kg Kh. unfold Core, from_claim, src_at, dst_at. simpl. rewrite !upd_length.
    split; auto. split; auto. split; intros k.
    - fold (rd (s_src s) k). fold (rd (upd (s_src s) i g) k).
      rewrite rd_upd by auto. destruct (Nat.eqb_spec k i) as [->|]; [|apply core_eq_refl].
      apply keeps_core_eq; auto.
    - fold (rd (s_dst s) k). fold (rd (upd (s_dst s) j (fun f => h (set_target (Some i) f))) k).
      rewrite rd_upd by auto. destruct (Nat.eqb_spec k j) as [->|]; [|apply core_eq_refl].
      apply (keeps_core_eq (fun f => h (set_target (Some i) f))). apply kc_comp; auto. apply kc_target.
  Qed.

  Lemma trans_core s s' : trans s s' -> Core s s'.
  Proof.
    intros (i & j & T). destruct T as [s g h R _ _ (Kg & _ & Kh & _) | s g h R _ _ (Kg & _ & Kh & _)].
    - apply to_claim_core; auto.
    - apply from_claim_core; auto.
  Qed.

  Lemma reach_core s s' : reach s s' -> Core s s'.
  Proof.
    induction 1; [apply Core_refl|]. eapply Core_trans; [apply trans_core; eauto | auto].
  Qed.

  Lemma reach_at_core i j s s' : reach_at i j s s' -> Core s s'.
  Proof. intros R. apply reach_core. eapply reach_at_reach; eauto. Qed.

  Definition NM (s : st) (i j : nat) : Prop := can_name_match (src_at s i) (dst_at s j) tm ic = true.

  Lemma NM_core s s' i j : Core s s' -> NM s i j -> NM s' i j.
  Proof. intros (_ & _ & A & B) H. unfold NM in *. rewrite <- H. apply can_name_match_core; auto. Qed.

  Lemma flagcount_func n f : n <> "" -> flagcount f = 0 -> flagcount (set_func n f) = 1.
  Proof.
    intros N Z. apply flag0 in Z. destruct Z as (a & b & c & d & x). unfold flagcount, has_func, b2n in *. simpl.
    rewrite a, b, d, x. destruct (String.eqb_spec n ""); [congruence|]. reflexivity.
  Qed.

  Hypothesis fn_names : forall fn, In fn fns -> mf_name fn <> "".

  Lemma claim_ok_func d r w fn :
    In fn fns -> type_equals (mf_param fn) (f_ty r) = true -> type_equals (mf_result fn) (f_ty w) = true ->
    claim_ok d r w (set_func (mf_name fn)) (fun f => f).
  Proof.
    intros I T1 T2. unfold claim_ok.
    split; [apply kc_func|]. split; [apply kt_func|]. split; [apply kc_id|]. split; [apply kt_id|].
    split; [apply kf_id|]. split; [left; reflexivity|]. split; [intros x; left; reflexivity|].
    intros Z. split; [apply flagcount_func; auto|].
    apply flag0 in Z. destruct Z as (z1&z2&z3&z4&z5). split.
    - unfold just, has_func. simpl. rewrite z1, z2, z4, z5.
      repeat split; try discriminate. intros _. exists fn. repeat split; auto.
    - simpl. rewrite z4, z5. discriminate.
  Qed.

  Lemma claim_ok_assign d r w :
    type_equals (f_ty r) (f_ty w) = true -> claim_ok d r w set_canassign (fun f => f).
  Proof.
    intros T. unfold claim_ok.
    split; [apply kc_canassign|]. split; [apply kt_canassign|]. split; [apply kc_id|]. split; [apply kt_id|].
    split; [apply kf_id|]. split; [left; reflexivity|]. split; [intros x; left; reflexivity|].
    intros Z. apply flag0 in Z. destruct Z as (z1&z2&z3&z4&z5). unfold has_func in z3. split; [|split].
    - unfold flagcount, has_func, b2n. simpl. rewrite z2, z3, z4, z5. reflexivity.
    - unfold just, has_func. simpl. rewrite z2, z3, z4, z5. repeat split; try discriminate. auto.
    - simpl. rewrite z4, z5. discriminate.
  Qed.

  Lemma claim_ok_conv d r w :
    type_equals (f_ty r) (f_ty w) = false -> convertible e (f_ty r) (f_ty w) = true ->
    may_mis_conv e (f_ty r) (f_ty w) = false ->
    claim_ok d r w (set_isconv (f_ty w)) (fun f => f).
  Proof.
    intros T1 T2 T3. unfold claim_ok.
    split; [apply kc_isconv|]. split; [apply kt_isconv|]. split; [apply kc_id|]. split; [apply kt_id|].
    split; [apply kf_id|]. split; [left; reflexivity|]. split; [intros x; left; reflexivity|].
    intros Z. apply flag0 in Z. destruct Z as (z1&z2&z3&z4&z5). unfold has_func in z3. split; [|split].
    - unfold flagcount, has_func, b2n. simpl. rewrite z1, z3, z4, z5. reflexivity.
    - unfold just, has_func. simpl. rewrite z1, z3, z4, z5. repeat split; try discriminate; auto.
    - simpl. rewrite z4, z5. discriminate.
  Qed.

  (* makeSubMap's claim of the written field w (of the destination side when d, else of the source side) *)
  Lemma claim_ok_submap (d : bool) r w (each : bool) (pr pw : bool) n1 n2 :
    (if each then exists e1 e2, (if d then f_ty r else f_ty w) = TSlice e1 /\ (if d then f_ty w else f_ty r) = TSlice e2
                               /\ strip_ptr e1 = ((if d then pr else pw), TNamed PSrc n1)
                               /\ strip_ptr e2 = ((if d then pw else pr), TNamed PDst n2)
     else strip_ptr (if d then f_ty r else f_ty w) = ((if d then pr else pw), TNamed PSrc n1)
          /\ strip_ptr (if d then f_ty w else f_ty r) = ((if d then pw else pr), TNamed PDst n2)) ->
    claim_ok d r w (fun f => set_isptr pw (set_submap each (if d then TNamed PDst n2 else TNamed PSrc n1) f)) (set_isptr pr).
  Proof.
    intros HT. unfold claim_ok.
    split; [apply kc_comp; [apply kc_isptr | apply kc_submap]|].
    split; [apply kt_comp; [apply kt_isptr | apply kt_submap]|].
    split; [apply kc_isptr|]. split; [apply kt_isptr|]. split; [apply kf_isptr|].
    assert (PW : pw = ptrness (f_ty w) /\ pr = ptrness (f_ty r)).
    { unfold ptrness. destruct each.
      - destruct HT as (e1 & e2 & A & B & C & D). destruct d; rewrite ?A, ?B; simpl; rewrite ?C, ?D; auto.
      - destruct HT as (A & B). destruct d.
        + assert (U1 : unslice (f_ty r) = f_ty r) by (destruct (f_ty r); simpl in *; auto; inversion A).
          assert (U2 : unslice (f_ty w) = f_ty w) by (destruct (f_ty w); simpl in *; auto; inversion B).
          rewrite U1, U2, A, B. auto.
        + assert (U1 : unslice (f_ty w) = f_ty w) by (destruct (f_ty w); simpl in *; auto; inversion A).
          assert (U2 : unslice (f_ty r) = f_ty r) by (destruct (f_ty r); simpl in *; auto; inversion B).
          rewrite U1, U2, A, B. auto. }
    destruct PW as (PW & PR).
    split; [right; simpl; exact PW|]. split; [intros x; right; simpl; exact PR|].
    intros Z. apply flag0 in Z. destruct Z as (z1&z2&z3&z4&z5). unfold has_func in z3. split; [|split].
    - unfold flagcount, has_func, b2n. simpl. rewrite z1, z2, z3. destruct each; rewrite ?z4, ?z5; reflexivity.
    - unfold just, has_func. simpl. rewrite z1, z2, z3. destruct each; simpl.
      + destruct HT as (e1 & e2 & A & B & C & D). rewrite z4.
        repeat split; try discriminate. intros _. exists e1, e2, n1, n2. rewrite C, D. simpl.
        destruct d; repeat split; auto.
      + destruct HT as (A & B). rewrite z5, A, B. simpl.
        repeat split; try discriminate. intros _. exists n1, n2. destruct d; repeat split; auto.
    - intros _. simpl. split; auto.
  Qed.

  (* ---------------------------------------------------------- makeFuncMap *)
  Lemma func_loop_reach : forall l s i j,
    (forall fn, In fn l -> In fn fns) -> in_range s i j -> NM s i j -> reach_at i j s (func_loop l i j s).
  Proof.
    induction l as [|fn l IH]; intros s i j Hin R N; simpl; [constructor|].
    set (t1 := f_ty (src_at s i)). set (t2 := f_ty (dst_at s j)).
    set (s1 := if dst_free s j && (type_equals (mf_param fn) t1 && type_equals (mf_result fn) t2)
               then to_claim i j (set_func (mf_name fn)) (fun f => f) s else s).
    assert (FN : mf_name fn <> "") by (apply fn_names; apply Hin; left; auto).
    assert (R1 : reach_at i j s s1).
    { unfold s1. destruct (dst_free s j && _) eqn:C; [|constructor].
      apply andb_true_iff in C. destruct C as (C1 & C2). apply andb_true_iff in C2. destruct C2 as (C2 & C3).
      apply reach_at_one. constructor; auto. apply claim_ok_func; auto. apply Hin. left; auto. }
    assert (C1 := reach_at_core _ _ _ _ R1).
    assert (Rg1 : in_range s1 i j) by (eapply in_range_core; eauto).
    assert (N1 : NM s1 i j) by (eapply NM_core; eauto).
    destruct (ty_core _ _ C1) as (TS & TD).
    set (s2 := if src_free s1 i && (type_equals (mf_param fn) t2 && type_equals (mf_result fn) t1)
               then from_claim i j (set_func (mf_name fn)) (fun f => f) s1 else s1).
    assert (R2 : reach_at i j s1 s2).
    { unfold s2. destruct (src_free s1 i && _) eqn:C; [|constructor].
      apply andb_true_iff in C. destruct C as (C1' & C2). apply andb_true_iff in C2. destruct C2 as (C2 & C3).
      apply reach_at_one. constructor; auto. apply claim_ok_func; [apply Hin; left; auto | rewrite TD; auto | rewrite TS; auto]. }
    assert (R02 : reach_at i j s s2) by (eapply reach_at_trans; eauto).
    assert (C2 := reach_at_core _ _ _ _ R02).
    destruct (f_target (src_at s2 i)); [destruct (f_target (dst_at s2 j))|]; auto;
      (eapply reach_at_trans; [exact R02 | apply IH; [intros f Hf; apply Hin; right; auto | eapply in_range_core; eauto | eapply NM_core; eauto]]).
  Qed.

  (* ----------------------------------------------------------- makeSubMap *)
  Lemma sub_map_reach s i j typ1 typ2 (is_slice : bool) :
    in_range s i j -> NM s i j ->
    (if is_slice then f_ty (src_at s i) = TSlice typ1 /\ f_ty (dst_at s j) = TSlice typ2
     else f_ty (src_at s i) = typ1 /\ f_ty (dst_at s j) = typ2) ->
    reach_at i j s (sub_map i j typ1 typ2 is_slice s).
  Proof.
    intros R N HT. unfold sub_map.
    destruct (strip_ptr typ1) as (isptr1, t1) eqn:S1. destruct (strip_ptr typ2) as (isptr2, t2) eqn:S2.
    destruct t1 as [| p1 n1 | | |]; try constructor. destruct p1; try constructor.
    destruct t2 as [| p2 n2 | | |]; try constructor. destruct p2; try constructor.
    set (s1 := if dst_free s j
               then to_claim i j (fun f => set_isptr isptr2 (set_submap is_slice (TNamed PDst n2) f)) (set_isptr isptr1) s
               else s).
    assert (R1 : reach_at i j s s1).
    { unfold s1. destruct (dst_free s j) eqn:C; [|constructor].
      apply reach_at_one. constructor; auto.
      apply (claim_ok_submap true (src_at s i) (dst_at s j) is_slice isptr1 isptr2 n1 n2).
      destruct is_slice.
      - destruct HT as (E1 & E2). exists typ1, typ2. auto.
      - destruct HT as (E1 & E2). rewrite E1, E2. auto. }
    assert (C1 := reach_at_core _ _ _ _ R1). destruct (ty_core _ _ C1) as (TS & TD).
    destruct (src_free s1 i) eqn:C; [|exact R1].
    eapply reach_at_trans; [exact R1|]. apply reach_at_one. constructor; auto.
    - eapply in_range_core; eauto.
    - eapply NM_core; eauto.
    - apply (claim_ok_submap false (dst_at s1 j) (src_at s1 i) is_slice isptr2 isptr1 n1 n2).
      rewrite TS, TD. destruct is_slice.
      + destruct HT as (E1 & E2). exists typ1, typ2. auto.
      + destruct HT as (E1 & E2). rewrite E1, E2. auto.
  Qed.

  Lemma sub_list_map_reach s i j : in_range s i j -> NM s i j -> reach_at i j s (sub_list_map i j s).
  Proof.
    intros R N. unfold sub_list_map.
    destruct (f_ty (src_at s i)) eqn:E1; try constructor.
    destruct (f_ty (dst_at s j)) eqn:E2; try constructor.
    apply sub_map_reach; auto.
  Qed.

  Lemma step_mismatch_reach s i j : in_range s i j -> reach_at i j s (step_mismatch tm ic fns i j s).
  Proof.
    intros R. unfold step_mismatch.
    destruct (can_name_match (src_at s i) (dst_at s j) tm ic) eqn:N; cbn [negb]; [|constructor].
    assert (R1 : reach_at i j s (func_loop fns i j s)) by (apply func_loop_reach; auto).
    set (s1 := func_loop fns i j s) in *. assert (C1 := reach_at_core _ _ _ _ R1).
    assert (R2 : reach_at i j s1 (sub_map i j (f_ty (src_at s1 i)) (f_ty (dst_at s1 j)) false s1)).
    { apply sub_map_reach; auto. - eapply in_range_core; eauto. - eapply NM_core; eauto. }
    set (s2 := sub_map i j (f_ty (src_at s1 i)) (f_ty (dst_at s1 j)) false s1) in *.
    assert (R02 : reach_at i j s s2) by (eapply reach_at_trans; eauto). assert (C2 := reach_at_core _ _ _ _ R02).
    eapply reach_at_trans; [exact R02|]. apply sub_list_map_reach.
    - eapply in_range_core; eauto.
    - eapply NM_core; eauto.
  Qed.

  Lemma step_match_reach s i j : in_range s i j -> reach_at i j s (step_match e tm ic i j s).
  Proof.
    intros R. unfold step_match.
    destruct (can_name_match (src_at s i) (dst_at s j) tm ic) eqn:N; cbn [negb]; [|constructor].
    set (t1 := f_ty (src_at s i)). set (t2 := f_ty (dst_at s j)).
    destruct (match_type e t1 t2) as (same, conv) eqn:M1.
    destruct (match_type e t2 t1) as (same', convback) eqn:M2.
    set (s1 := if dst_free s j && (same || conv)
               then to_claim i j (if same then set_canassign else set_isconv t2) (fun f => f) s else s).
    assert (R1 : reach_at i j s s1).
    { unfold s1. destruct (dst_free s j && (same || conv)) eqn:C; [|constructor].
      apply andb_true_iff in C. destruct C as (C1 & C2).
      apply reach_at_one. constructor; auto.
      destruct same eqn:S.
      - apply claim_ok_assign. fold t1 t2. rewrite <- (match_type_same _ _ _ _ _ M1). reflexivity.
      - simpl in C2. subst conv. destruct (match_type_conv _ _ _ _ _ M1 eq_refl eq_refl) as (a & b & c).
        apply claim_ok_conv; auto. }
    assert (C1 := reach_at_core _ _ _ _ R1). destruct (ty_core _ _ C1) as (TS & TD).
    destruct (src_free s1 i && (same || convback)) eqn:C; [|exact R1].
    apply andb_true_iff in C. destruct C as (C1' & C2).
    eapply reach_at_trans; [exact R1|]. apply reach_at_one. constructor; auto.
    - eapply in_range_core; eauto.
    - eapply NM_core; eauto.
    - destruct same eqn:S.
      + apply claim_ok_assign. rewrite TS, TD. fold t1 t2. rewrite type_equals_sym.
        rewrite <- (match_type_same _ _ _ _ _ M1). reflexivity.
      + simpl in C2. subst convback.
        assert (S' : same' = false).
        { rewrite (match_type_same _ _ _ _ _ M2), type_equals_sym, <- (match_type_same _ _ _ _ _ M1). reflexivity. }
        destruct (match_type_conv _ _ _ _ _ M2 S' eq_refl) as (a & b & c).
        assert (X : set_isconv t1 = set_isconv (f_ty (src_at s1 i))) by (rewrite TS; reflexivity).
        rewrite X. apply claim_ok_conv; rewrite ?TS, ?TD; auto.
  Qed.

  Lemma double_loop_reach step :
    (forall s i j, in_range s i j -> reach s (step i j s)) -> forall s, reach s (double_loop step s).
  Proof.
    intros Hstep s. unfold double_loop.
    assert (Inner : forall (js : list nat) s0 i, i < length (s_src s0) ->
              (forall j, In j js -> j < length (s_dst s0)) ->
              reach s0 (fold_left (fun s j => step i j s) js s0)).
    { induction js as [|j js IH]; intros s0 i Hi Hjs; simpl; [constructor|].
      assert (R1 : reach s0 (step i j s0)). { apply Hstep. split; auto. apply Hjs. left; auto. }
      destruct (reach_core _ _ R1) as (a & b & _).
      eapply reach_trans; [exact R1|]. apply IH.
      - rewrite a. auto.
      - intros k Hk. rewrite b. apply Hjs. right; auto. }
    assert (Outer : forall (is : list nat) s0, (forall i, In i is -> i < length (s_src s0)) ->
              reach s0 (fold_left (fun s i => fold_left (fun s j => step i j s) (seq 0 (length (s_dst s))) s) is s0)).
    { induction is as [|i is IH]; intros s0 His; simpl; [constructor|].
      assert (R1 : reach s0 (fold_left (fun s j => step i j s) (seq 0 (length (s_dst s0))) s0)).
      { apply Inner. - apply His. left; auto. - intros j Hj. apply in_seq in Hj. lia. }
      destruct (reach_core _ _ R1) as (a & _).
      eapply reach_trans; [exact R1|]. apply IH. intros k Hk. rewrite a. apply His. right; auto. }
    apply Outer. intros i Hi. apply in_seq in Hi. lia.
  Qed.

  (* the two passes only make guarded claims *)
  Theorem passes_reach s : reach s (run_passes e tm ic fns s).
  Proof.
    unfold run_passes. eapply reach_trans.
    - apply (double_loop_reach (step_mismatch tm ic fns)). intros; eapply reach_at_reach; apply step_mismatch_reach; auto.
    - apply (double_loop_reach (step_match e tm ic)). intros; eapply reach_at_reach; apply step_match_reach; auto.
  Qed.
End Reach.
