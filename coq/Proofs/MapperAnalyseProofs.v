(* The theorems about [analyse] (the whole MakeData pipeline of the model):
   the plans it produces are write-once and sound, for every job. *)
From Coq Require Import String Ascii List Bool Arith Lia.
From Shoot Require Import Base.Str Model.Transfer Model.MapVal Model.Mapper
     Proofs.MapperProofs Proofs.MapperPlanProofs Proofs.MapperFlattenProofs.
Import ListNotations.
Local Open Scope string_scope.
Local Open Scope list_scope.

(* accessor names are distinct and differ from the exported field names (Go
   rejects a type that has a field and a method of the same name; trivially
   true for plain struct types) *)
Definition acc_guard (jb : job) : Prop :=
  match parse_fields (j_env jb) (j_fuel jb) PSrc (j_src jb) true,
        parse_fields (j_env jb) (j_fuel jb) PDst (j_dst jb) false with
  | Some ps, Some pd =>
      acc_names_ok (exported_of (p_fields ps)) (j_src_acc jb)
      /\ acc_names_ok (exported_of (p_fields pd)) (j_dst_acc jb)
  | _, _ => True
  end.

Lemma inv_of_fresh e tm ic fns srcf dstf ws wd rm wm :
  Forall fresh srcf -> Forall fresh dstf -> Inv e tm ic fns ws wd (mkSt srcf dstf ws wd rm wm).
Proof.
  intros Fs Fd. rewrite Forall_forall in Fs, Fd.
  split; apply inv_init; simpl; intros k Hk.
  - apply (Fd (rd dstf k)). apply nth_In; auto.
  - apply (Fs (rd srcf k)). apply nth_In; auto.
  - apply (Fs (rd srcf k)). apply nth_In; auto.
  - apply (Fd (rd dstf k)). apply nth_In; auto.
Qed.

Lemma prepare_ok jb pr :
  prepare jb = Some pr -> acc_guard jb ->
  Inv (j_env jb) (p_tags (pr_src pr)) (j_ic jb) (j_funcs jb) (s_wsrc (pr_s0 pr)) (s_wdst (pr_s0 pr)) (pr_s0 pr)
  /\ NoDup (map f_name (s_src (pr_s0 pr))) /\ NoDup (map f_name (s_dst (pr_s0 pr))).
Proof.
  unfold prepare, acc_guard.
  destruct (parse_fields (j_env jb) (j_fuel jb) PSrc (j_src jb) true) as [ps|] eqn:Ps; [|discriminate].
  destruct (parse_fields (j_env jb) (j_fuel jb) PDst (j_dst jb) false) as [pd|] eqn:Pd; [|discriminate].
  destruct (make_ctor_match _ _ _ _ _ (map ctor_field (j_dst_ctor jb)) _) as [[dctor wdst1] use_d].
  destruct (make_ctor_match _ _ _ _ _ (map ctor_field (j_src_ctor jb)) _) as [[sctor wsrc1] use_s].
  intros H (As & Ad). inversion H; subst; clear H. simpl.
  pose proof (compatlize_ok _ _ (good_filter _ _ (parse_fields_ok _ _ _ _ _ _ Ps)) As) as (Ns & Fs).
  pose proof (compatlize_ok _ _ (good_filter _ _ (parse_fields_ok _ _ _ _ _ _ Pd)) Ad) as (Nd & Fd).
  split; [apply inv_of_fresh; auto|]. split; auto.
Qed.

Lemma core_names s s' : Core s s' ->
  map f_name (s_src s') = map f_name (s_src s) /\ map f_name (s_dst s') = map f_name (s_dst s).
Proof.
  intros (a & b & c & d). split; apply (map_nth_ext f_name _ _ fdummy); auto; intros k.
  - destruct (c k) as (X & _). exact X.
  - destruct (d k) as (X & _). exact X.
Qed.

Lemma analyse_state sigma jb a :
  analyse sigma jb = Some a ->
  exists pr, prepare jb = Some pr
             /\ a_state a = run_passes (j_env jb) (p_tags (pr_src pr)) (j_ic jb) (j_funcs jb) (pr_s0 pr)
             /\ a_src_parsed a = pr_src pr.
Proof.
  unfold analyse. destruct (prepare jb) as [pr|]; [|discriminate].
  intros H. inversion H; subst; clear H. exists pr. simpl. auto.
Qed.

Theorem analyse_inv sigma jb a pr :
  analyse sigma jb = Some a -> prepare jb = Some pr -> acc_guard jb ->
  Inv (j_env jb) (p_tags (a_src_parsed a)) (j_ic jb) (j_funcs jb)
      (s_wsrc (pr_s0 pr)) (s_wdst (pr_s0 pr)) (a_state a)
  /\ NoDup (map f_name (s_src (a_state a))) /\ NoDup (map f_name (s_dst (a_state a))).
Proof.
  intros H P0 G. destruct (analyse_state _ _ _ H) as (pr' & P & S & T). rewrite P0 in P. inversion P; subst pr'.
  rewrite S, T.
  destruct (prepare_ok _ _ P0 G) as (I0 & Ns & Nd).
  destruct (passes_ok _ _ _ _ _ _ _ I0) as (I2 & C). fold (run_passes (j_env jb) (p_tags (pr_src pr)) (j_ic jb) (j_funcs jb) (pr_s0 pr)) in *.
  destruct (core_names _ _ C) as (Es & Ed). rewrite Es, Ed. auto.
Qed.

Lemma analyse_prepare sigma jb a : analyse sigma jb = Some a -> exists pr, prepare jb = Some pr.
Proof. intros H. destruct (analyse_state _ _ _ H) as (pr & P & _). eauto. Qed.

Lemma analyse_stmts sigma jb a :
  analyse sigma jb = Some a ->
  (exists sp need, pl_stmts (a_to a) = to_stmts sp need (a_state a))
  /\ (exists dp need, pl_stmts (a_from a) = from_stmts dp need (a_state a)).
Proof.
  unfold analyse. destruct (prepare jb) as [pr|]; [|discriminate].
  intros H. inversion H; subst; clear H. simpl. split; eexists; eexists; reflexivity.
Qed.

(* C05 "no destination field is written twice" *)
Theorem analyse_write_once sigma jb a :
  analyse sigma jb = Some a -> acc_guard jb ->
  NoDup (map (fun st => r_name (st_dst st)) (pl_stmts (a_to a)))
  /\ NoDup (map (fun st => r_name (st_dst st)) (pl_stmts (a_from a))).
Proof.
  intros H G. destruct (analyse_prepare _ _ _ H) as (pr & P). destruct (analyse_inv _ _ _ _ H P G) as (I & Ns & Nd).
  destruct (analyse_stmts _ _ _ H) as ((sp & n1 & E1) & (dp & n2 & E2)). rewrite E1, E2.
  split; [eapply to_stmts_write_once | eapply from_stmts_write_once]; eauto.
Qed.

(* C05 "exactly the matching pairs, by the type rules": every emitted statement
   copies between two fields whose names match and uses a strategy applicable
   to their types *)
Theorem analyse_sound_to sigma jb a :
  analyse sigma jb = Some a -> acc_guard jb ->
  forall st, In st (pl_stmts (a_to a)) ->
  exists sf df, In sf (s_src (a_state a)) /\ In df (s_dst (a_state a))
                /\ st_src st = ref_of sf /\ st_dst st = ref_of df
                /\ can_name_match sf df (p_tags (a_src_parsed a)) (j_ic jb) = true
                /\ applicable (j_env jb) (j_funcs jb) true sf df (st_how st).
Proof.
  intros H G st Hst. destruct (analyse_prepare _ _ _ H) as (pr & P). destruct (analyse_inv _ _ _ _ H P G) as (I & _).
  destruct (analyse_stmts _ _ _ H) as ((sp & n1 & E1) & _). rewrite E1 in Hst.
  destruct (to_stmts_sound _ _ _ _ _ _ _ _ _ I st Hst) as (i & j & Hi & Hj & A & B & _ & C & D).
  exists (src_at (a_state a) i), (dst_at (a_state a) j).
  repeat split; auto; apply nth_In; auto.
Qed.

Theorem analyse_sound_from sigma jb a :
  analyse sigma jb = Some a -> acc_guard jb ->
  forall st, In st (pl_stmts (a_from a)) ->
  exists sf df, In sf (s_src (a_state a)) /\ In df (s_dst (a_state a))
                /\ st_src st = ref_of df /\ st_dst st = ref_of sf
                /\ can_name_match sf df (p_tags (a_src_parsed a)) (j_ic jb) = true
                /\ applicable (j_env jb) (j_funcs jb) false df sf (st_how st).
Proof.
  intros H G st Hst. destruct (analyse_prepare _ _ _ H) as (pr & P). destruct (analyse_inv _ _ _ _ H P G) as (I & _).
  destruct (analyse_stmts _ _ _ H) as (_ & (dp & n2 & E2)). rewrite E2 in Hst.
  destruct (from_stmts_sound _ _ _ _ _ _ _ _ _ I st Hst) as (i & j & Hi & Hj & A & B & _ & C & D).
  exists (src_at (a_state a) i), (dst_at (a_state a) j).
  repeat split; auto; apply nth_In; auto.
Qed.

(* plain struct types (no accessors): the accessor guard holds *)
Lemma plain_acc_guard jb : j_src_acc jb = [] -> j_dst_acc jb = [] -> acc_guard jb.
Proof.
  intros A B. unfold acc_guard. rewrite A, B.
  destruct (parse_fields (j_env jb) (j_fuel jb) PSrc (j_src jb) true) as [ps|] eqn:Ps; auto.
  destruct (parse_fields (j_env jb) (j_fuel jb) PDst (j_dst jb) false) as [pd|] eqn:Pd; auto.
  unfold acc_names_ok. simpl. rewrite !app_nil_r.
  split; apply good_filter; eapply parse_fields_ok; eauto.
Qed.

(* -way limits generation to the requested direction *)
Lemma way_methods w :
  (has_to w, has_from w) = match w with WBoth => (true, true) | WToOnly => (true, false) | WFromOnly => (false, true) end.
Proof. destruct w; reflexivity. Qed.
