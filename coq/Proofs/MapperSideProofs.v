(* check.go against the leaf tables, one side of a pair at a time: the read
   guard of an embedded field is exactly the list of embedded pointers above
   its leaf (prepareReadPaths + sort), and the allocation list of nilCheckWrite
   is closed under "embedded pointer above", ordered parents first, typed by
   the table and covers every written field. *)
From Coq Require Import String Ascii List Bool Arith Lia.
From Shoot Require Import Base.Str Model.Transfer Model.MapVal Model.Mapper Model.MapperEval Model.MapperSafe Model.MapperGen
     Proofs.MapperValProofs Proofs.MapperSafeProofs Proofs.MapperOrderProofs Proofs.MapperLeafProofs
     Proofs.MapperFlattenRel.
Import ListNotations.
Local Open Scope string_scope.
Local Open Scope list_scope.

Lemma ty_eqb_refl t : ty_eqb t t = true.
Proof.
  induction t as [b|p n|t IH|t IH|k IHk v IHv]; simpl; auto.
  - unfold basic_eqb. apply Nat.eqb_refl.
  - rewrite String.eqb_refl. destruct p; simpl; auto. rewrite String.eqb_refl. auto.
  - rewrite IHk, IHv. auto.
Qed.

(* ------------------------------------------------------------ prefixes_from *)
Lemma prefixes_from_cons done x y r :
  prefixes_from done (x :: y :: r) = (done ++ [x]) :: prefixes_from (done ++ [x]) (y :: r).
Proof. reflexivity. Qed.

Lemma prefixes_from_spec : forall rest done q,
  In q (prefixes_from done rest) <-> exists a b, q = done ++ a /\ rest = a ++ b /\ a <> [] /\ b <> [].
Proof.
  induction rest as [|x r IH]; intros done q.
  - simpl. split; [intros []|]. intros (a & b & _ & E & A & B). destruct a; [congruence|discriminate].
  - destruct r as [|y r'].
    + simpl. split; [intros []|]. intros (a & b & _ & E & A & B).
      destruct a as [|a0 a]; [congruence|]. inversion E. destruct a; [|discriminate]. simpl in H1. congruence.
    + rewrite prefixes_from_cons. cbn [In]. rewrite IH. split.
      * intros [<-|(a & b & -> & E & A & B)].
        -- exists [x], (y :: r'). repeat split; auto; discriminate.
        -- exists (x :: a), b. rewrite <- app_assoc. simpl. rewrite E. repeat split; auto. discriminate.
      * intros (a & b & -> & E & A & B). destruct a as [|a0 a]; [congruence|]. inversion E; subst.
        destruct a as [|a1 a].
        -- left. reflexivity.
        -- right. exists (a1 :: a), b. rewrite <- app_assoc. simpl. repeat split; auto. discriminate.
Qed.

Lemma prefixes_from_incr : forall rest done, incr_len (prefixes_from done rest).
Proof.
  induction rest as [|x r IH]; intros done; [simpl; auto|].
  destruct r as [|y r']; [simpl; auto|]. rewrite prefixes_from_cons. split; [|apply IH].
  intros q Hq. apply (prefixes_from_spec (y :: r') (done ++ [x]) q) in Hq.
  destruct Hq as (a & b & -> & _ & A & _). rewrite !app_length. destruct a; [congruence|simpl; lia].
Qed.

(* ----------------------------------------------------------------- paths_map *)
Definition pm_step (pm : ptrmap) (m : list (string * list path)) (f : field) :=
  match read_paths pm f with [] => m | ps => (f_name f, ps) :: m end.

Lemma paths_map_eq pm fs : paths_map pm fs = fold_left (pm_step pm) fs [].
Proof. reflexivity. Qed.

Lemma pm_fold_other pm k : forall fs m, ~ In k (map f_name fs) ->
  pmap_get (fold_left (pm_step pm) fs m) k = pmap_get m k.
Proof.
  induction fs as [|g fs IH]; intros m N; simpl; auto.
  rewrite IH by (intros X; apply N; right; auto).
  unfold pm_step. destruct (read_paths pm g); auto. simpl.
  destruct (String.eqb_spec (f_name g) k); auto. exfalso. apply N. left. auto.
Qed.

Lemma pm_fold_get pm f : forall fs m, NoDup (map f_name fs) -> In f fs ->
  pmap_get (fold_left (pm_step pm) fs m) (f_name f) =
  match read_paths pm f with [] => pmap_get m (f_name f) | ps => Some ps end.
Proof.
  induction fs as [|g fs IH]; intros m N I; [contradiction|]. simpl. inversion N; subst.
  destruct I as [->|I].
  - rewrite pm_fold_other by auto. unfold pm_step. destruct (read_paths pm f); auto.
    simpl. rewrite String.eqb_refl. auto.
  - rewrite IH by auto. destruct (read_paths pm f); auto.
    unfold pm_step. destruct (read_paths pm g); auto. simpl.
    destruct (String.eqb_spec (f_name g) (f_name f)) as [E|]; auto.
    exfalso. apply H1. rewrite E. apply in_map. auto.
Qed.

Lemma paths_map_get pm fs f : NoDup (map f_name fs) -> In f fs ->
  pmap_get (paths_map pm fs) (f_name f) = match read_paths pm f with [] => None | ps => Some ps end.
Proof. intros N I. rewrite paths_map_eq, pm_fold_get; auto. Qed.

(* the guard the template prints for a field that is read and has a Target *)
Lemma guard_of_read pm fs f :
  NoDup (map f_name fs) -> In f fs ->
  guard_of (match pmap_get (paths_map pm fs) (f_name f) with Some _ => true | None => false end)
           (paths_map pm fs) (f_name f) = sort_paths (read_paths pm f).
Proof.
  intros N I. unfold guard_of. rewrite paths_map_get by auto.
  destruct (read_paths pm f); reflexivity.
Qed.

(* -------------------------------------------------------------- ptr_path_list *)
Definition al_inner (f : field) (acc : list path) (pt : path * ty) : list path :=
  if existsb (path_eqb (fst pt)) acc then acc
  else if covered_by f (fst pt) then acc ++ [fst pt] else acc.
Definition al_step (pts : list (path * ty)) (written : field -> bool) (acc : list path) (f : field) : list path :=
  if written f && is_embedded f then fold_left (al_inner f) pts acc else acc.

Lemma ptr_path_list_eq sigma pm fs written :
  ptr_path_list sigma pm fs written = sort_paths (fold_left (al_step (sigma pm) written) fs []).
Proof. reflexivity. Qed.

Lemma al_inner_in f q : forall pts acc,
  In q (fold_left (al_inner f) pts acc) <->
  In q acc \/ exists t, In (q, t) pts /\ covered_by f q = true.
Proof.
  induction pts as [|[p t] pts IH]; intros acc; simpl.
  - split; auto. intros [H|(t & [] & _)]; auto.
  - rewrite IH. unfold al_inner. simpl. destruct (existsb (path_eqb p) acc) eqn:E.
    + split.
      * intros [H|(t' & H & C)]; auto. right. eauto.
      * intros [H|(t' & [H|H] & C)]; auto.
        -- inversion H; subst. left. apply existsb_exists in E. destruct E as (x & X & Y).
           apply path_eqb_eq in Y. subst. auto.
        -- right. eauto.
    + destruct (covered_by f p) eqn:C.
      * split.
        -- intros [H|(t' & H & C')]; [|right; eauto]. apply in_app_or in H.
           destruct H as [H|[<-|[]]]; auto. right. exists t. auto.
        -- intros [H|(t' & [H|H] & C')].
           ++ left. apply in_or_app. auto.
           ++ inversion H; subst. left. apply in_or_app. right. left. auto.
           ++ right. eauto.
      * split.
        -- intros [H|(t' & H & C')]; auto. right. eauto.
        -- intros [H|(t' & [H|H] & C')]; auto.
           ++ inversion H; subst. congruence.
           ++ right. eauto.
Qed.

Lemma al_step_in pts written q : forall fs acc,
  In q (fold_left (al_step pts written) fs acc) <->
  In q acc \/ exists f t, In f fs /\ written f = true /\ is_embedded f = true
                          /\ In (q, t) pts /\ covered_by f q = true.
Proof.
  induction fs as [|g fs IH]; intros acc; simpl.
  - split; auto. intros [H|(f & t & [] & _)]; auto.
  - rewrite IH.
    change (al_step pts written acc g) with (if written g && is_embedded g then fold_left (al_inner g) pts acc else acc).
    destruct (written g && is_embedded g) eqn:E.
    + apply andb_true_iff in E. destruct E as (E1 & E2). rewrite al_inner_in. split.
      * intros [[H|(t & H & C)]|(f & t & H)]; auto.
        -- right. exists g, t. auto.
        -- right. destruct H as (a & b). exists f, t. auto.
      * intros [H|(f & t & [<-|H] & W & Em & P & C)]; auto.
        -- left. right. eauto.
        -- right. exists f, t. auto.
    + split.
      * intros [H|(f & t & H)]; auto. right. destruct H as (a & b). exists f, t. auto.
      * intros [H|(f & t & [<-|H] & W & Em & P & C)]; auto.
        -- rewrite W, Em in E. discriminate.
        -- right. exists f, t. auto.
Qed.

Lemma ptr_path_list_in sigma pm fs written q :
  In q (ptr_path_list sigma pm fs written) <->
  exists f t, In f fs /\ written f = true /\ is_embedded f = true
              /\ In (q, t) (sigma pm) /\ covered_by f q = true.
Proof.
  rewrite ptr_path_list_eq, sort_in, al_step_in. split; [intros [[]|H]; auto | auto].
Qed.

(* ------------------------------------------------------------------ alloc_ok *)
Lemma alloc_ok_intro whops : forall al done,
  (forall p t, In (p, t) al -> In (p, t) whops) ->
  (forall l1 p t l2 h, al = l1 ++ (p, t) :: l2 -> In h whops -> proper_prefix (fst h) p = true ->
                       In (fst h) done \/ In (fst h) (map fst l1)) ->
  alloc_ok whops done al = true.
Proof.
  induction al as [|[p t] al IH]; intros done A B; simpl; auto.
  apply andb_true_iff. split; [apply andb_true_iff; split|].
  - apply existsb_exists. exists (p, t). split; [apply A; left; auto|]. simpl.
    rewrite ty_eqb_refl. assert (path_eqb p p = true) by (apply path_eqb_eq; auto). rewrite H. auto.
  - apply forallb_forall. intros h Hh. destruct (proper_prefix (fst h) p) eqn:P; simpl; auto.
    apply mem_path_in. destruct (B [] p t al h eq_refl Hh P) as [X|[]]. auto.
  - apply IH.
    + intros; apply A; right; auto.
    + intros l1 p' t' l2 h E Hh P. destruct (B ((p, t) :: l1) p' t' l2 h) as [X|X]; auto.
      * simpl. rewrite E. reflexivity.
      * left. right. auto.
      * simpl in X. destruct X as [<-|X]; auto. left. left. auto.
Qed.

(* ================================================================= one side *)
Section Side.
  Variable e : env.
  Hypothesis Ewf : emb_wf e = true.
  Hypothesis Eok : env_ok e = true.
  Variable F : nat.
  Variable p : pkg.
  Variable n : string.
  Variable dfs : list sfield.
  Hypothesis Lk : lookup_decl e p n = Some (DStruct dfs).
  Variable wt : bool.
  Variable ps : parsed.
  Hypothesis Parse : parse_fields e F p n wt = Some ps.

  Notation LF := (rleaves e (S F) dfs).
  Notation HP := (rhops e (S F) dfs).
  Notation pm := (p_ptr ps).

  Lemma Nd : nodup_strs (map sf_name dfs) = true.
  Proof. eapply env_ok_lookup; eauto. Qed.

  Lemma pm_sound x : In x pm -> In x HP.
  Proof. destruct (parse_rel e Ewf F p n dfs Lk wt ps Parse) as (A & _). auto. Qed.

  Lemma pm_complete l q : In l LF -> In q (rl_hops l) -> pm_has pm q = true.
  Proof. destruct (parse_rel e Ewf F p n dfs Lk wt ps Parse) as (_ & _ & A). apply A. Qed.

  Lemma parsed_fld_ok : Forall (fld_ok LF) (p_fields ps).
  Proof. destruct (parse_rel e Ewf F p n dfs Lk wt ps Parse) as (_ & A & _). auto. Qed.

  (* the members of prepareReadPaths(f) are the embedded pointers of f's leaf *)
  Lemma read_paths_in f l :
    In l LF -> rl_path l = f_path f ->
    forall q, In q (read_paths pm f) <-> In q (rl_hops l).
  Proof.
    intros I P q. unfold read_paths. split.
    - intros H. destruct (is_embedded f); [|contradiction]. apply filter_In in H. destruct H as (H1 & H2).
      apply prefixes_from_spec in H1. destruct H1 as (a & b & -> & E & A & B). simpl in *.
      apply pm_has_in in H2. destruct H2 as (t & H2). apply pm_sound in H2.
      apply (hops_iff e Eok (S F) dfs l Nd I). exists t, b. rewrite P. auto.
    - intros H. destruct (hops_prefix _ _ _ _ _ I H) as (r & E & R).
      pose proof (hops_nonempty _ _ _ _ _ I H) as Q.
      assert (Em : is_embedded f = true).
      { unfold is_embedded. rewrite <- P, E, app_length. apply Nat.ltb_lt.
        destruct q; [congruence|]. destruct r; [congruence|]. simpl. lia. }
      rewrite Em. apply filter_In. split.
      + apply prefixes_from_spec. exists q, r. rewrite <- P. auto.
      + eapply pm_complete; eauto.
  Qed.

  Lemma read_paths_nodup f : NoDup (read_paths pm f).
  Proof.
    unfold read_paths. destruct (is_embedded f); [|constructor].
    apply NoDup_filter. apply incr_len_nodup. apply prefixes_from_incr.
  Qed.

  Theorem read_guard f l :
    In l LF -> rl_path l = f_path f -> sort_paths (read_paths pm f) = rl_hops l.
  Proof.
    intros I P. apply sorted_unique.
    - apply sort_sorted.
    - eapply leaf_hops_sorted; eauto.
    - apply sort_nodup. apply read_paths_nodup.
    - apply incr_len_nodup. eapply leaf_hops_incr; eauto.
    - intros x. rewrite sort_in. apply read_paths_in; auto.
  Qed.

  (* ---------------------------------------------------------- allocations *)
  Variable sigma : oracle.
  Hypothesis Sigma : forall m x, In x (sigma m) <-> In x m.
  (* CoveredBy's suffix rule cannot fire: no field is named like an embedded struct *)
  Hypothesis Suffix : forall l h, In l LF -> In h HP -> last (rl_path l) "" <> last (fst h) "".
  Hypothesis ZeroHops : forall h, In h HP -> zero_wf e (S F) (snd h) = true.

  Variable fl : list field.
  Hypothesis Fl : Forall (fld_ok LF) fl.
  Variable written : field -> bool.

  Notation AL := (ptr_path_list sigma pm fl written).
  Definition with_ty (l : list path) : list (path * ty) :=
    map (fun q => (q, match pm_get pm q with Some t => t | None => TBasic BBool end)) l.

  Lemma fl_leaf f : In f fl -> exists l, In l LF /\ rl_path l = f_path f /\ rl_ty l = f_ty f.
  Proof. intros I. rewrite Forall_forall in Fl. destruct (Fl f I) as (X & _). exact X. Qed.

  (* an allocated path lies strictly above the written field that caused it *)
  Lemma covered_above f l q t :
    In l LF -> rl_path l = f_path f -> In (q, t) HP -> covered_by f q = true ->
    exists r, f_path f = q ++ r /\ r <> [].
  Proof.
    intros I P H C. unfold covered_by in C. apply orb_true_iff in C. destruct C as [C|C].
    - apply orb_true_iff in C. destruct C as [C|C].
      + apply path_eqb_eq in C. exfalso.
        destruct (below_leaf e Eok (S F) dfs l Nd I) as (_ & X). apply (X (q, t) [] H).
        simpl. rewrite app_nil_r. congruence.
      + apply andb_true_iff in C. destruct C as (C1 & C2). apply path_prefix_app in C1.
        destruct C1 as (r & E). exists r. split; auto. intros ->. rewrite app_nil_r in E.
        apply Nat.ltb_lt in C2. rewrite E in C2. lia.
    - apply andb_true_iff in C. destruct C as (_ & C). apply String.eqb_eq in C. exfalso.
      apply (Suffix l (q, t) I H). rewrite P. exact C.
  Qed.

  Lemma above_covered f q r : f_path f = q ++ r -> r <> [] -> q <> [] ->
    covered_by f q = true /\ is_embedded f = true.
  Proof.
    intros E R Q. split.
    - unfold covered_by. apply orb_true_iff. left. apply orb_true_iff. right. apply andb_true_iff. split.
      + apply path_prefix_app. eauto.
      + apply Nat.ltb_lt. rewrite E, app_length. destruct r; [congruence|simpl; lia].
    - unfold is_embedded. apply Nat.ltb_lt. rewrite E, app_length.
      destruct q; [congruence|]. destruct r; [congruence|]. simpl. lia.
  Qed.

  (* every embedded pointer above a written field is allocated *)
  Theorem alloc_covers f l q :
    In f fl -> written f = true -> In l LF -> rl_path l = f_path f -> In q (rl_hops l) -> In q AL.
  Proof.
    intros I W Il P Hq. apply ptr_path_list_in.
    destruct (hops_prefix _ _ _ _ _ Il Hq) as (r & E & R). rewrite P in E.
    destruct (above_covered f q r E R (hops_nonempty _ _ _ _ _ Il Hq)) as (C & Em).
    pose proof (pm_complete l q Il Hq) as H. apply pm_has_in in H. destruct H as (t & H).
    exists f, t. repeat split; auto. apply (proj2 (Sigma _ _)). auto.
  Qed.

  Lemma with_ty_fst l : map fst (with_ty l) = l.
  Proof. unfold with_ty. rewrite map_map. simpl. apply map_id. Qed.

  Lemma AL_typed q : In q AL -> exists t, pm_get pm q = Some t /\ In (q, t) HP.
  Proof.
    intros H. apply ptr_path_list_in in H. destruct H as (f & t & _ & _ & _ & H & _).
    apply (proj1 (Sigma _ _)) in H. assert (X : pm_has pm q = true) by (apply pm_has_in; eauto).
    apply pm_has_get in X. destruct X as (t' & X). exists t'. split; auto.
    apply pm_sound. apply pm_get_in. auto.
  Qed.

  Theorem alloc_list_ok :
    alloc_ok HP [] (with_ty AL) = true
    /\ forallb (fun a => zero_wf e (S F) (snd a)) (with_ty AL) = true.
  Proof.
    split.
    - apply alloc_ok_intro.
      + intros q t H. unfold with_ty in H. apply in_map_iff in H. destruct H as (q' & E & H).
        inversion E; subst. destruct (AL_typed q H) as (t & G & X). rewrite G. exact X.
      + intros l1 q t l2 h E Hh P. right.
        assert (EA : AL = map fst l1 ++ q :: map fst l2).
        { rewrite <- (with_ty_fst AL), E, map_app. reflexivity. }
        assert (Hq : In q AL) by (rewrite EA; apply in_or_app; right; left; auto).
        pose proof Hq as Hq0. apply ptr_path_list_in in Hq. destruct Hq as (f & t0 & If & W & Em & Hs & C).
        destruct (fl_leaf f If) as (l & Il & Pl & _).
        destruct (AL_typed q Hq0) as (tq & _ & HPq).
        destruct (covered_above f l q tq Il Pl HPq C) as (r & Ef & R).
        apply proper_prefix_app in P. destruct P as (r' & Eq & R').
        destruct h as [hq ht]. simpl in *.
        assert (Hin : In hq (rl_hops l)).
        { apply (hops_iff e Eok (S F) dfs l Nd Il). exists ht, (r' ++ r). split; auto.
          rewrite Pl, Ef, Eq, <- app_assoc. split; auto. intros X. apply app_eq_nil in X. tauto. }
        assert (HA : In hq AL) by (eapply alloc_covers; eauto).
        apply (sorted_before (map fst l1) q (map fst l2) hq).
        * rewrite <- EA. rewrite ptr_path_list_eq. apply sort_sorted.
        * rewrite <- EA. exact HA.
        * rewrite Eq. apply path_ltb_extension. auto.
    - apply forallb_forall. intros a H. unfold with_ty in H. apply in_map_iff in H. destruct H as (q & <- & H).
      destruct (AL_typed q H) as (t & G & X). simpl. rewrite G. apply (ZeroHops (q, t) X).
  Qed.

  (* writing a leaf: nothing lies below it *)
  Lemma write_leaf_ok l :
    In l LF ->
    forallb (fun l' => negb (proper_prefix (rl_path l) (rl_path l'))) LF = true
    /\ forallb (fun h => negb (path_prefix (rl_path l) (fst h))) HP = true.
  Proof.
    intros I. destruct (below_leaf e Eok (S F) dfs l Nd I) as (A & B). split; apply forallb_forall.
    - intros l' I'. destruct (proper_prefix (rl_path l) (rl_path l')) eqn:P; auto.
      apply proper_prefix_app in P. destruct P as (r & E & R). exfalso. apply R. eapply A; eauto.
    - intros h Hh. destruct (path_prefix (rl_path l) (fst h)) eqn:P; auto.
      apply path_prefix_app in P. destruct P as (r & E). exfalso. eapply B; eauto.
  Qed.

  Lemma find_leaf_path l : In l LF -> find_leaf LF (rl_path l) = Some l.
  Proof.
    intros I.
    assert (X : forall ls, In l ls -> exists l', find_leaf ls (rl_path l) = Some l').
    { induction ls as [|a ls IH]; intros H; [contradiction|]. simpl.
      destruct (path_eqb (rl_path a) (rl_path l)) eqn:E; eauto. destruct H as [->|H]; auto.
      assert (path_eqb (rl_path l) (rl_path l) = true) by (apply path_eqb_eq; auto). congruence. }
    destruct (X _ I) as (l' & E). rewrite E. f_equal.
    apply find_leaf_in in E. destruct E as (I' & P).
    apply (leaf_unique e Eok (S F) dfs); auto. apply Nd.
  Qed.
End Side.
