(* Invariants of the two matching passes of Model/Mapper.v (makeTypeMismatch,
   makeTypeMatch) over ARBITRARY field arrays, mapper-method lists, tag maps
   and flags: write-once, and soundness of every emitted pair.

   The passes change the state only through [to_claim] / [from_claim].  Seen
   from one direction ("view": readers R, written fields W, write set ws) a
   transition is either a CLAIM of that direction or a step of the OTHER
   direction; both preserve the view invariant.  ToX uses the view
   (s_src, s_dst, s_wdst), FromX the view (s_dst, s_src, s_wsrc). *)
From Coq Require Import String Ascii List Bool Arith Lia.
From Shoot Require Import Base.Str Model.Transfer Model.MapVal Model.Mapper.
Import ListNotations.
Local Open Scope string_scope.
Local Open Scope list_scope.

(* ------------------------------------------------------------ list helpers *)
Lemma upd_length {A} (l : list A) i g : length (upd l i g) = length l.
Proof. revert i. induction l as [|x l IH]; intros [|i]; simpl; auto. Qed.

Lemma nth_upd_same {A} (l : list A) i g d : i < length l -> nth i (upd l i g) d = g (nth i l d).
Proof. revert i. induction l as [|x l IH]; intros [|i] H; simpl in *; try lia; auto. apply IH. lia. Qed.

Lemma nth_upd_other {A} (l : list A) i k g d : k <> i -> nth k (upd l i g) d = nth k l d.
Proof.
  revert i k. induction l as [|x l IH]; intros [|i] [|k] H; simpl; auto; try congruence.
Qed.

Lemma nth_upd {A} (l : list A) i k g d :
  i < length l -> nth k (upd l i g) d = if Nat.eqb k i then g (nth i l d) else nth k l d.
Proof.
  intros H. destruct (Nat.eqb_spec k i) as [->|N].
  - apply nth_upd_same; auto.
  - apply nth_upd_other; auto.
Qed.

Lemma s_has_add ws x y : s_has (s_add ws x) y = String.eqb y x || s_has ws y.
Proof. reflexivity. Qed.

Lemma s_has_add_mono ws x y : s_has ws y = true -> s_has (s_add ws x) y = true.
Proof. intros H. rewrite s_has_add, H. apply orb_true_r. Qed.

Lemma s_has_add_same ws x : s_has (s_add ws x) x = true.
Proof. rewrite s_has_add, String.eqb_refl. reflexivity. Qed.

(* ------------------------------------------------------------ field facts *)
Definition b2n (b : bool) : nat := if b then 1 else 0.

Definition has_func (f : field) : bool := negb (String.eqb (f_func f) "").

(* number of strategy flags set on a field *)
Definition flagcount (f : field) : nat :=
  b2n (f_canassign f) + b2n (f_isconv f) + b2n (has_func f) + b2n (f_canmap f) + b2n (f_caneach f).

(* g keeps what name matching and type matching look at *)
Definition keeps_core (g : field -> field) : Prop :=
  forall f, f_name (g f) = f_name f /\ f_ty (g f) = f_ty f
            /\ f_isget (g f) = f_isget f /\ f_isset (g f) = f_isset f /\ f_backing (g f) = f_backing f
            /\ f_path (g f) = f_path f.

(* ... and the Target (a step of the other direction, seen on a reader) *)
Definition keeps_target (g : field -> field) : Prop := forall f, f_target (g f) = f_target f.

(* ... and the strategy flags (a step of the other direction, seen on a written field) *)
Definition keeps_flags (g : field -> field) : Prop :=
  forall f, f_canassign (g f) = f_canassign f /\ f_isconv (g f) = f_isconv f /\ f_func (g f) = f_func f
            /\ f_canmap (g f) = f_canmap f /\ f_caneach (g f) = f_caneach f /\ f_type (g f) = f_type f.

Lemma keeps_flags_count g f : keeps_flags g -> flagcount (g f) = flagcount f.
Proof.
  intros K. destruct (K f) as (A&B&C&D&E&_).
  unfold flagcount, has_func. rewrite A, B, C, D, E. reflexivity.
Qed.

Ltac kc := let f := fresh "f" in intros f; repeat split.

Lemma kc_id : keeps_core (fun f => f). Proof. kc. Qed.
Lemma kc_isptr b : keeps_core (set_isptr b). Proof. kc. Qed.
Lemma kc_target x : keeps_core (set_target x). Proof. kc. Qed.
Lemma kc_func n : keeps_core (set_func n). Proof. kc. Qed.
Lemma kc_canassign : keeps_core set_canassign. Proof. kc. Qed.
Lemma kc_isconv t : keeps_core (set_isconv t). Proof. kc. Qed.
Lemma kc_submap b t : keeps_core (set_submap b t). Proof. kc. Qed.
Lemma kc_comp g h : keeps_core g -> keeps_core h -> keeps_core (fun f => g (h f)).
Proof.
  intros G H f. destruct (G (h f)) as (a1&a2&a3&a4&a5&a6). destruct (H f) as (b1&b2&b3&b4&b5&b6).
  repeat split; congruence.
Qed.
Lemma kc_ite (c : bool) g h : keeps_core g -> keeps_core h -> keeps_core (if c then g else h).
Proof. destruct c; auto. Qed.

Lemma kt_id : keeps_target (fun f => f). Proof. kc. Qed.
Lemma kt_isptr b : keeps_target (set_isptr b). Proof. kc. Qed.
Lemma kt_func n : keeps_target (set_func n). Proof. kc. Qed.
Lemma kt_canassign : keeps_target set_canassign. Proof. kc. Qed.
Lemma kt_isconv t : keeps_target (set_isconv t). Proof. kc. Qed.
Lemma kt_submap b t : keeps_target (set_submap b t). Proof. kc. Qed.
Lemma kt_comp g h : keeps_target g -> keeps_target h -> keeps_target (fun f => g (h f)).
Proof. intros G H f. rewrite G, H. reflexivity. Qed.
Lemma kt_ite (c : bool) g h : keeps_target g -> keeps_target h -> keeps_target (if c then g else h).
Proof. destruct c; auto. Qed.

Lemma kf_id : keeps_flags (fun f => f). Proof. kc. Qed.
Lemma kf_isptr b : keeps_flags (set_isptr b). Proof. kc. Qed.
Lemma kf_target x : keeps_flags (set_target x). Proof. kc. Qed.
Lemma kf_comp g h : keeps_flags g -> keeps_flags h -> keeps_flags (fun f => g (h f)).
Proof.
  intros G H f. destruct (G (h f)) as (a1&a2&a3&a4&a5&a6). destruct (H f) as (b1&b2&b3&b4&b5&b6).
  repeat split; congruence.
Qed.

(* ------------------------------------------------------------------- views *)
Definition rd (R : list field) i := nth i R fdummy.

Lemma rd_upd R i k g : i < length R -> rd (upd R i g) k = if Nat.eqb k i then g (rd R i) else rd R k.
Proof. intros H. unfold rd. apply nth_upd; auto. Qed.

Section View.
  (* NM r w : the names of reader r and written field w match;
     J r w  : the strategy flags of w are justified by reading r.
     Both may look at name/type/accessor kind of r and w, J also at the flags,
     Type and Func of w. *)
  Variable NM : field -> field -> Prop.
  Variable J : field -> field -> Prop.
  (* the write set before the passes (manual pre-marks and constructor-covered names) *)
  Variable W0 : sset.
  Hypothesis NM_r : forall g r w, keeps_core g -> NM r w -> NM (g r) w.
  Hypothesis NM_w : forall g r w, keeps_core g -> NM r w -> NM r (g w).
  Hypothesis J_r : forall g r w, keeps_core g -> J r w -> J (g r) w.
  Hypothesis J_w : forall g r w, keeps_core g -> keeps_flags g -> J r w -> J r (g w).

  Record InvV (R W : list field) (ws : sset) : Prop := {
    iv_count : forall j, j < length W -> flagcount (rd W j) <= 1;
    iv_flag_ws : forall j, j < length W -> 1 <= flagcount (rd W j) -> s_has ws (f_name (rd W j)) = true;
    iv_tgt : forall i j, i < length R -> f_target (rd R i) = Some j ->
                         j < length W /\ s_has ws (f_name (rd W j)) = true
                         /\ NM (rd R i) (rd W j) /\ J (rd R i) (rd W j);
    iv_inj : forall i i' j, i < length R -> i' < length R ->
                            f_target (rd R i) = Some j -> f_target (rd R i') = Some j -> i = i';
    iv_mono : forall x, s_has W0 x = true -> s_has ws x = true;
    iv_fresh : forall j, j < length W -> 1 <= flagcount (rd W j) -> s_has W0 (f_name (rd W j)) = false
  }.

  (* a claim of this direction: reader i takes the written field j, which is free *)
  Lemma inv_claim R W ws i j g h :
    InvV R W ws -> i < length R -> j < length W ->
    s_has ws (f_name (rd W j)) = false ->
    keeps_core h -> keeps_target h -> keeps_core g ->
    (flagcount (rd W j) = 0 -> flagcount (g (rd W j)) <= 1) ->
    NM (rd R i) (rd W j) ->
    (flagcount (rd W j) = 0 -> J (rd R i) (g (rd W j))) ->
    InvV (upd R i (fun f => h (set_target (Some j) f))) (upd W j g) (s_add ws (f_name (rd W j))).
  Proof.
    intros I Hi Hj Hfree Kh Th Kg Gcount Hnm HJ.
    assert (Z0 : flagcount (rd W j) = 0).
    { destruct (flagcount (rd W j)) eqn:E; auto.
      assert (s_has ws (f_name (rd W j)) = true) by (apply (iv_flag_ws _ _ _ I); auto; lia). congruence. }
    assert (Kht : keeps_core (fun f => h (set_target (Some j) f))) by (apply kc_comp; auto; apply kc_target).
    assert (Gname : f_name (g (rd W j)) = f_name (rd W j)) by (destruct (Kg (rd W j)) as (A&_); exact A).
    assert (Tnew : f_target (h (set_target (Some j) (rd R i))) = Some j) by (rewrite Th; reflexivity).
    assert (NoOld : forall a, a < length R -> f_target (rd R a) = Some j -> False).
    { intros a Ha Hab. destruct (iv_tgt _ _ _ I a j Ha Hab) as (_&H&_). congruence. }
    constructor.
    - intros k Hk. rewrite upd_length in Hk. rewrite rd_upd by auto.
      destruct (Nat.eqb_spec k j) as [->|N]; [apply Gcount; auto | apply (iv_count _ _ _ I); auto].
    - intros k Hk Hf. rewrite upd_length in Hk. rewrite rd_upd in * by auto.
      destruct (Nat.eqb_spec k j) as [->|N].
      + rewrite Gname. apply s_has_add_same.
      + apply s_has_add_mono. apply (iv_flag_ws _ _ _ I); auto.
    - intros a b Ha Hab. rewrite upd_length in Ha. rewrite rd_upd in Hab by auto.
      rewrite (rd_upd R) by auto. rewrite upd_length.
      destruct (Nat.eqb_spec a i) as [->|N].
      + assert (b = j) by congruence. subst b.
        rewrite rd_upd by auto. rewrite Nat.eqb_refl. rewrite Gname.
        split; [auto|]. split; [apply s_has_add_same|]. split.
        * apply (NM_r (fun f => h (set_target (Some j) f))); auto.
        * apply (J_r (fun f => h (set_target (Some j) f))); auto.
      + destruct (iv_tgt _ _ _ I a b Ha Hab) as (B1&B2&B3&B4).
        assert (b <> j) by (intros ->; congruence).
        rewrite rd_upd by auto. destruct (Nat.eqb_spec b j); [congruence|].
        split; [auto|]. split; [apply s_has_add_mono; auto|]. split; auto.
    - intros a a' b Ha Ha' Hab Hab'. rewrite upd_length in Ha, Ha'.
      rewrite rd_upd in Hab, Hab' by auto.
      destruct (Nat.eqb_spec a i) as [->|N]; destruct (Nat.eqb_spec a' i) as [->|N']; auto.
      + assert (b = j) by congruence. subst b. exfalso. apply (NoOld a' Ha' Hab').
      + assert (b = j) by congruence. subst b. exfalso. apply (NoOld a Ha Hab).
      + apply (iv_inj _ _ _ I a a' b Ha Ha' Hab Hab').
    - intros x Hx. apply s_has_add_mono. apply (iv_mono _ _ _ I); auto.
    - intros k Hk Hf. rewrite upd_length in Hk. rewrite rd_upd in * by auto.
      destruct (Nat.eqb_spec k j) as [->|N].
      + rewrite Gname. destruct (s_has W0 (f_name (rd W j))) eqn:E; auto.
        apply (iv_mono _ _ _ I) in E. congruence.
      + apply (iv_fresh _ _ _ I); auto.
  Qed.

  (* a step of the other direction: a reader keeps its Target, a written field its flags *)
  Lemma inv_other R W ws i j g1 g2 :
    InvV R W ws -> i < length R -> j < length W ->
    keeps_core g1 -> keeps_target g1 -> keeps_core g2 -> keeps_flags g2 ->
    InvV (upd R i g1) (upd W j g2) ws.
  Proof.
    intros I Hi Hj K1 T1 K2 F2.
    assert (N2 : forall f, f_name (g2 f) = f_name f) by (intros f; destruct (K2 f) as (A&_); exact A).
    assert (RW : forall k, f_name (rd (upd W j g2) k) = f_name (rd W k) /\
                           flagcount (rd (upd W j g2) k) = flagcount (rd W k)).
    { intros k. rewrite rd_upd by auto. destruct (Nat.eqb_spec k j) as [->|]; auto.
      split; [apply N2 | apply keeps_flags_count; auto]. }
    assert (RT : forall k, f_target (rd (upd R i g1) k) = f_target (rd R k)).
    { intros k. rewrite rd_upd by auto. destruct (Nat.eqb_spec k i) as [->|]; auto. }
    constructor.
    - intros k Hk. rewrite upd_length in Hk. destruct (RW k) as (_&->). apply (iv_count _ _ _ I); auto.
    - intros k Hk Hf. rewrite upd_length in Hk. destruct (RW k) as (->&E). rewrite E in Hf.
      apply (iv_flag_ws _ _ _ I); auto.
    - intros a b Ha Hab. rewrite upd_length in Ha. rewrite RT in Hab.
      destruct (iv_tgt _ _ _ I a b Ha Hab) as (B1&B2&B3&B4).
      rewrite upd_length. destruct (RW b) as (->&_). split; auto. split; auto.
      assert (X : forall (P : field -> field -> Prop),
                 (forall g r w, keeps_core g -> P r w -> P (g r) w) ->
                 (forall r w, P r w -> P r (g2 w)) ->
                 P (rd R a) (rd W b) -> P (rd (upd R i g1) a) (rd (upd W j g2) b)).
      { intros P Pr Pw H. rewrite !rd_upd by auto.
        destruct (Nat.eqb_spec a i) as [->|]; destruct (Nat.eqb_spec b j) as [->|]; auto;
          apply (Pr g1); auto. }
      split; apply X; auto.
    - intros a a' b Ha Ha' Hab Hab'. rewrite upd_length in Ha, Ha'. rewrite RT in Hab, Hab'.
      eapply (iv_inj _ _ _ I); eauto.
    - apply (iv_mono _ _ _ I).
    - intros k Hk Hf. rewrite upd_length in Hk. destruct (RW k) as (->&E). rewrite E in Hf.
      apply (iv_fresh _ _ _ I); auto.
  Qed.

  (* nothing planned yet *)
  Lemma inv_init R W :
    (forall j, j < length W -> flagcount (rd W j) = 0) ->
    (forall i, i < length R -> f_target (rd R i) = None) ->
    InvV R W W0.
  Proof.
    intros HW HR. constructor.
    - intros j Hj. rewrite HW; auto.
    - intros j Hj H. rewrite HW in H; auto. lia.
    - intros i j Hi H. rewrite HR in H; auto. discriminate.
    - intros i i' j Hi Hi' H. rewrite HR in H; auto. discriminate.
    - auto.
    - intros j Hj H. rewrite HW in H; auto. lia.
  Qed.
End View.

(* ------------------------------------------------- the passes on the state *)
Definition core_eq (f f' : field) : Prop :=
  f_name f' = f_name f /\ f_ty f' = f_ty f /\ f_isget f' = f_isget f /\ f_isset f' = f_isset f
  /\ f_backing f' = f_backing f /\ f_path f' = f_path f.

Lemma core_eq_refl f : core_eq f f.
Proof. repeat split. Qed.
Lemma core_eq_trans a b c : core_eq a b -> core_eq b c -> core_eq a c.
Proof. intros (a1&a2&a3&a4&a5&a6) (b1&b2&b3&b4&b5&b6). repeat split; congruence. Qed.
Lemma keeps_core_eq g f : keeps_core g -> core_eq f (g f).
Proof. intros K. destruct (K f) as (a1&a2&a3&a4&a5&a6). repeat split; auto. Qed.

(* lengths and the immutable part of every field are kept *)
Definition Core (s s' : st) : Prop :=
  length (s_src s') = length (s_src s) /\ length (s_dst s') = length (s_dst s)
  /\ (forall k, core_eq (src_at s k) (src_at s' k)) /\ (forall k, core_eq (dst_at s k) (dst_at s' k)).

Lemma Core_refl s : Core s s.
Proof. repeat split; intros; apply core_eq_refl. Qed.
Lemma Core_trans a b c : Core a b -> Core b c -> Core a c.
Proof.
  intros (a1&a2&a3&a4) (b1&b2&b3&b4). split; [congruence|]. split; [congruence|].
  split; intros k; eapply core_eq_trans; eauto.
Qed.

Lemma can_name_match_core f1 f1' f2 f2' tm ic :
  core_eq f1 f1' -> core_eq f2 f2' -> can_name_match f1' f2' tm ic = can_name_match f1 f2 tm ic.
Proof.
  intros (a1&a2&a3&a4&a5&a6) (b1&b2&b3&b4&b5&b6).
  unfold can_name_match, matching_name. rewrite a1, a3, a4, a5, b1, b3, b4, b5. reflexivity.
Qed.

Section Passes.
  Variable e : env.
  Variable tm : tagmap.
  Variable ic : bool.
  Variable fns : list mfunc.
  Hypothesis fn_names : forall fn, In fn fns -> mf_name fn <> "".
  (* the write sets before the passes *)
  Variables W0s W0d : sset.

  (* r = source field, w = destination field *)
  Definition NMto (r w : field) : Prop := can_name_match r w tm ic = true.
  (* r = destination field, w = source field *)
  Definition NMfrom (r w : field) : Prop := can_name_match w r tm ic = true.

  (* the strategy flags of the written field w are applicable to (r, w) *)
  Definition just (to_dir : bool) (r w : field) : Prop :=
    let st := if to_dir then f_ty r else f_ty w in
    let dt := if to_dir then f_ty w else f_ty r in
    (f_canassign w = true -> type_equals (f_ty r) (f_ty w) = true)
    /\ (f_isconv w = true ->
        type_equals (f_ty r) (f_ty w) = false /\ convertible e (f_ty r) (f_ty w) = true
        /\ may_mis_conv e (f_ty r) (f_ty w) = false /\ f_type w = Some (f_ty w))
    /\ (has_func w = true ->
        exists fn, In fn fns /\ mf_name fn = f_func w
                   /\ type_equals (mf_param fn) (f_ty r) = true /\ type_equals (mf_result fn) (f_ty w) = true)
    /\ (f_canmap w = true ->
        exists n1 n2, snd (strip_ptr st) = TNamed PSrc n1 /\ snd (strip_ptr dt) = TNamed PDst n2
                      /\ f_type w = Some (if to_dir then TNamed PDst n2 else TNamed PSrc n1))
    /\ (f_caneach w = true ->
        exists e1 e2 n1 n2, st = TSlice e1 /\ dt = TSlice e2
                            /\ snd (strip_ptr e1) = TNamed PSrc n1 /\ snd (strip_ptr e2) = TNamed PDst n2
                            /\ f_type w = Some (if to_dir then TNamed PDst n2 else TNamed PSrc n1)).

  Lemma NMto_r g r w : keeps_core g -> NMto r w -> NMto (g r) w.
  Proof. intros K H. unfold NMto in *. rewrite <- H. apply can_name_match_core; [apply keeps_core_eq; auto | apply core_eq_refl]. Qed.
  Lemma NMto_w g r w : keeps_core g -> NMto r w -> NMto r (g w).
  Proof. intros K H. unfold NMto in *. rewrite <- H. apply can_name_match_core; [apply core_eq_refl | apply keeps_core_eq; auto]. Qed.
  Lemma NMfrom_r g r w : keeps_core g -> NMfrom r w -> NMfrom (g r) w.
  Proof. intros K H. unfold NMfrom in *. rewrite <- H. apply can_name_match_core; [apply core_eq_refl | apply keeps_core_eq; auto]. Qed.
  Lemma NMfrom_w g r w : keeps_core g -> NMfrom r w -> NMfrom r (g w).
  Proof. intros K H. unfold NMfrom in *. rewrite <- H. apply can_name_match_core; [apply keeps_core_eq; auto | apply core_eq_refl]. Qed.

  Lemma just_r d g r w : keeps_core g -> just d r w -> just d (g r) w.
  Proof.
    intros K H. destruct (K r) as (_&T&_). unfold just in *. rewrite T. exact H.
  Qed.
  Lemma just_w d g r w : keeps_core g -> keeps_flags g -> just d r w -> just d r (g w).
  Proof.
    intros K F H. destruct (K w) as (_&T&_). destruct (F w) as (a1&a2&a3&a4&a5&a6).
    unfold just, has_func in *. rewrite T, a1, a2, a3, a4, a5, a6. exact H.
  Qed.

  Definition VTo (s : st) : Prop := InvV NMto (just true) W0d (s_src s) (s_dst s) (s_wdst s).
  Definition VFrom (s : st) : Prop := InvV NMfrom (just false) W0s (s_dst s) (s_src s) (s_wsrc s).
  Definition Inv (s : st) : Prop := VTo s /\ VFrom s.

  Definition in_range (s : st) (i j : nat) : Prop := i < length (s_src s) /\ j < length (s_dst s).

  Lemma to_claim_ok s i j g h :
    Inv s -> in_range s i j -> dst_free s j = true ->
    keeps_core g -> keeps_target g -> keeps_core h -> keeps_target h -> keeps_flags h ->
    (flagcount (dst_at s j) = 0 -> flagcount (g (dst_at s j)) <= 1) ->
    NMto (src_at s i) (dst_at s j) ->
    (flagcount (dst_at s j) = 0 -> just true (src_at s i) (g (dst_at s j))) ->
    Inv (to_claim i j g h s) /\ Core s (to_claim i j g h s).
  Proof.
    intros (IT & IF) (Hi & Hj) Hfree Kg Tg Kh Th Fh Gc Hnm HJ.
    unfold dst_free in Hfree. apply andb_true_iff in Hfree. destruct Hfree as (Hf & _).
    apply negb_true_iff in Hf.
    split; [split|].
    - unfold VTo, to_claim. simpl.
      apply (inv_claim NMto (just true) W0d NMto_r NMto_w (just_r true)); auto.
    - unfold VFrom, to_claim. simpl.
      apply (inv_other NMfrom (just false) W0s NMfrom_r NMfrom_w (just_r false) (just_w false)); auto.
      + apply kc_comp; auto. apply kc_target.
      + apply kf_comp; auto. apply kf_target.
    - unfold Core, to_claim, src_at, dst_at. simpl. rewrite !upd_length.
      split; auto. split; auto. split; intros k.
      + fold (rd (s_src s) k). fold (rd (upd (s_src s) i (fun f => h (set_target (Some j) f))) k).
        rewrite rd_upd by auto. destruct (Nat.eqb_spec k i) as [->|]; [|apply core_eq_refl].
        apply (keeps_core_eq (fun f => h (set_target (Some j) f))). apply kc_comp; auto. apply kc_target.
      + fold (rd (s_dst s) k). fold (rd (upd (s_dst s) j g) k).
        rewrite rd_upd by auto. destruct (Nat.eqb_spec k j) as [->|]; [|apply core_eq_refl].
        apply keeps_core_eq; auto.
  Qed.

  Lemma from_claim_ok s i j g h :
    Inv s -> in_range s i j -> src_free s i = true ->
    keeps_core g -> keeps_target g -> keeps_core h -> keeps_target h -> keeps_flags h ->
    (flagcount (src_at s i) = 0 -> flagcount (g (src_at s i)) <= 1) ->
    NMto (src_at s i) (dst_at s j) ->
    (flagcount (src_at s i) = 0 -> just false (dst_at s j) (g (src_at s i))) ->
    Inv (from_claim i j g h s) /\ Core s (from_claim i j g h s).
  Proof.
    intros (IT & IF) (Hi & Hj) Hfree Kg Tg Kh Th Fh Gc Hnm HJ.
    unfold src_free in Hfree. apply andb_true_iff in Hfree. destruct Hfree as (Hf & _).
    apply negb_true_iff in Hf.
    split; [split|].
    - unfold VTo, from_claim. simpl.
      apply (inv_other NMto (just true) W0d NMto_r NMto_w (just_r true) (just_w true)); auto.
      + apply kc_comp; auto. apply kc_target.
      + apply kf_comp; auto. apply kf_target.
    - unfold VFrom, from_claim. simpl.
      apply (inv_claim NMfrom (just false) W0s NMfrom_r NMfrom_w (just_r false)); auto.
    - unfold Core, from_claim, src_at, dst_at. simpl. rewrite !upd_length.
      split; auto. split; auto. split; intros k.
      + fold (rd (s_src s) k). fold (rd (upd (s_src s) i g) k).
        rewrite rd_upd by auto. destruct (Nat.eqb_spec k i) as [->|]; [|apply core_eq_refl].
        apply keeps_core_eq; auto.
      + fold (rd (s_dst s) k). fold (rd (upd (s_dst s) j (fun f => h (set_target (Some i) f))) k).
        rewrite rd_upd by auto. destruct (Nat.eqb_spec k j) as [->|]; [|apply core_eq_refl].
        apply (keeps_core_eq (fun f => h (set_target (Some i) f))). apply kc_comp; auto. apply kc_target.
  Qed.
  (* flag setters: on a flag-free field exactly one flag afterwards *)
  Lemma fc_func n f : flagcount f = 0 -> flagcount (set_func n f) <= 1.
  Proof. unfold flagcount, has_func, b2n. simpl. destruct (f_canassign f), (f_isconv f), (f_canmap f), (f_caneach f), (String.eqb (f_func f) ""), (String.eqb n ""); simpl; lia. Qed.
  Lemma fc_canassign f : flagcount f = 0 -> flagcount (set_canassign f) <= 1.
  Proof. unfold flagcount, has_func, b2n. simpl. destruct (f_canassign f), (f_isconv f), (f_canmap f), (f_caneach f), (String.eqb (f_func f) ""); simpl; lia. Qed.
  Lemma fc_isconv t f : flagcount f = 0 -> flagcount (set_isconv t f) <= 1.
  Proof. unfold flagcount, has_func, b2n. simpl. destruct (f_canassign f), (f_isconv f), (f_canmap f), (f_caneach f), (String.eqb (f_func f) ""); simpl; lia. Qed.
  Lemma fc_submap b p t f : flagcount f = 0 -> flagcount (set_isptr p (set_submap b t f)) <= 1.
  Proof. unfold flagcount, has_func, b2n. simpl. destruct b, (f_canassign f), (f_isconv f), (f_canmap f), (f_caneach f), (String.eqb (f_func f) ""); simpl; lia. Qed.

  Lemma flag0 f : flagcount f = 0 ->
    f_canassign f = false /\ f_isconv f = false /\ has_func f = false /\ f_canmap f = false /\ f_caneach f = false.
  Proof. unfold flagcount, b2n. destruct (f_canassign f), (f_isconv f), (has_func f), (f_canmap f), (f_caneach f); simpl; intros; try lia; auto. Qed.

  Definition Step (f : st -> st) (s : st) : Prop := Inv (f s) /\ Core s (f s).

  Lemma in_range_core s s' i j : Core s s' -> in_range s i j -> in_range s' i j.
  Proof. intros (a&b&_) (c&d). unfold in_range. rewrite a, b. auto. Qed.

  Lemma NMto_core s s' i j : Core s s' -> NMto (src_at s i) (dst_at s j) -> NMto (src_at s' i) (dst_at s' j).
  Proof.
    intros (_&_&A&B) H. unfold NMto in *. rewrite <- H. apply can_name_match_core; auto.
  Qed.

  (* makeFuncMap *)
  Lemma func_loop_ok : forall (l : list mfunc) s i j,
    (forall fn, In fn l -> In fn fns) ->
    Inv s -> in_range s i j -> NMto (src_at s i) (dst_at s j) ->
    Inv (func_loop l i j s) /\ Core s (func_loop l i j s).
  Proof.
    induction l as [|fn rest IH]; intros s i j Hin I R N; simpl.
    - split; auto. apply Core_refl.
    - set (t1 := f_ty (src_at s i)). set (t2 := f_ty (dst_at s j)).
      (* first half: ToX *)
      set (s1 := if dst_free s j && (type_equals (mf_param fn) t1 && type_equals (mf_result fn) t2)
                 then to_claim i j (set_func (mf_name fn)) (fun f => f) s else s).
      assert (H1 : Inv s1 /\ Core s s1).
      { unfold s1. destruct (dst_free s j && _) eqn:C; [|split; auto; apply Core_refl].
        apply andb_true_iff in C. destruct C as (C1 & C2). apply andb_true_iff in C2. destruct C2 as (C2 & C3).
        apply to_claim_ok; auto using kc_func, kt_func, kc_id, kt_id, kf_id, fc_func.
        intros Z. apply flag0 in Z. destruct Z as (z1&z2&z3&z4&z5).
        unfold just, has_func in *. simpl. rewrite z1, z2, z4, z5.
        repeat split; try discriminate. intros _. exists fn. repeat split; auto. apply Hin. left; auto. }
      destruct H1 as (I1 & C1).
      set (s2 := if src_free s1 i && (type_equals (mf_param fn) t2 && type_equals (mf_result fn) t1)
                 then from_claim i j (set_func (mf_name fn)) (fun f => f) s1 else s1).
      assert (H2 : Inv s2 /\ Core s1 s2).
      { unfold s2. destruct (src_free s1 i && _) eqn:C; [|split; auto; apply Core_refl].
        apply andb_true_iff in C. destruct C as (C1' & C2). apply andb_true_iff in C2. destruct C2 as (C2 & C3).
        assert (T1 : f_ty (src_at s1 i) = t1) by (destruct C1 as (_&_&A&_); destruct (A i) as (_&X&_); exact X).
        assert (T2 : f_ty (dst_at s1 j) = t2) by (destruct C1 as (_&_&_&A); destruct (A j) as (_&X&_); exact X).
        apply from_claim_ok; auto using kc_func, kt_func, kc_id, kt_id, kf_id, fc_func.
        - eapply in_range_core; eauto.
        - eapply NMto_core; eauto.
        - intros Z. apply flag0 in Z. destruct Z as (z1&z2&z3&z4&z5).
          unfold just, has_func in *. simpl. rewrite z1, z2, z4, z5, T1, T2.
          repeat split; try discriminate. intros _. exists fn. repeat split; auto. apply Hin. left; auto. }
      destruct H2 as (I2 & C2).
      assert (C02 : Core s s2) by (eapply Core_trans; eauto).
      destruct (f_target (src_at s2 i)); [destruct (f_target (dst_at s2 j))|].
      + split; auto.
      + destruct (IH s2 i j) as (I3 & C3); auto.
        * intros f Hf. apply Hin. right; auto.
        * eapply in_range_core; eauto.
        * eapply NMto_core; eauto.
        * split; auto. eapply Core_trans; eauto.
      + destruct (IH s2 i j) as (I3 & C3); auto.
        * intros f Hf. apply Hin. right; auto.
        * eapply in_range_core; eauto.
        * eapply NMto_core; eauto.
        * split; auto. eapply Core_trans; eauto.
  Qed.
  Lemma ty_core s s' : Core s s' ->
    (forall k, f_ty (src_at s' k) = f_ty (src_at s k)) /\ (forall k, f_ty (dst_at s' k) = f_ty (dst_at s k)).
  Proof.
    intros (_&_&A&B). split; intros k; [destruct (A k) as (_&X&_) | destruct (B k) as (_&X&_)]; exact X.
  Qed.

  (* makeSubMap, called on the field types themselves or on the element types of two slices *)
  Lemma sub_map_ok s i j typ1 typ2 (is_slice : bool) :
    Inv s -> in_range s i j -> NMto (src_at s i) (dst_at s j) ->
    (if is_slice then f_ty (src_at s i) = TSlice typ1 /\ f_ty (dst_at s j) = TSlice typ2
     else f_ty (src_at s i) = typ1 /\ f_ty (dst_at s j) = typ2) ->
    Inv (sub_map i j typ1 typ2 is_slice s) /\ Core s (sub_map i j typ1 typ2 is_slice s).
  Proof.
    intros I R N HT. unfold sub_map.
    destruct (strip_ptr typ1) as (isptr1, t1) eqn:S1. destruct (strip_ptr typ2) as (isptr2, t2) eqn:S2.
    assert (Dflt : Inv s /\ Core s s) by (split; auto; apply Core_refl).
    destruct t1 as [| p1 n1 | | |]; auto. destruct p1; auto.
    destruct t2 as [| p2 n2 | | |]; auto. destruct p2; auto.
    set (s1 := if dst_free s j
               then to_claim i j (fun f => set_isptr isptr2 (set_submap is_slice (TNamed PDst n2) f)) (set_isptr isptr1) s
               else s).
    assert (H1 : Inv s1 /\ Core s s1).
    { unfold s1. destruct (dst_free s j) eqn:C; auto.
      apply to_claim_ok; auto using kc_isptr, kt_isptr, kf_isptr, kc_comp, kt_comp, kc_submap, kt_submap.
      - apply fc_submap.
      - intros Z. apply flag0 in Z. destruct Z as (z1&z2&z3&z4&z5).
        unfold just, has_func in *. simpl. simpl in z3. rewrite z1, z2, z3.
        destruct is_slice; simpl.
        + destruct HT as (E1 & E2). rewrite z4.
          repeat split; try discriminate. intros _.
          exists typ1, typ2, n1, n2. rewrite S1, S2. simpl. repeat split; auto.
        + destruct HT as (E1 & E2). rewrite z5, E1, E2, S1, S2. simpl.
          repeat split; try discriminate. intros _. exists n1, n2. repeat split; auto. }
    destruct H1 as (I1 & C1).
    destruct (src_free s1 i) eqn:C; [|split; auto].
    destruct (ty_core _ _ C1) as (TS & TD).
    destruct (from_claim_ok s1 i j (fun f => set_isptr isptr1 (set_submap is_slice (TNamed PSrc n1) f)) (set_isptr isptr2))
      as (I2 & C2); auto using kc_isptr, kt_isptr, kf_isptr, kc_comp, kt_comp, kc_submap, kt_submap.
    - eapply in_range_core; eauto.
    - apply fc_submap.
    - eapply NMto_core; eauto.
    - intros Z. apply flag0 in Z. destruct Z as (z1&z2&z3&z4&z5).
      unfold just, has_func in *. simpl. simpl in z3. rewrite z1, z2, z3, TS, TD.
      destruct is_slice; simpl.
      + destruct HT as (E1 & E2). rewrite z4.
        repeat split; try discriminate. intros _.
        exists typ1, typ2, n1, n2. rewrite S1, S2. simpl. repeat split; auto.
      + destruct HT as (E1 & E2). rewrite z5, E1, E2, S1, S2. simpl.
        repeat split; try discriminate. intros _. exists n1, n2. repeat split; auto.
    - split; auto. eapply Core_trans; eauto.
  Qed.

  Lemma sub_list_map_ok s i j :
    Inv s -> in_range s i j -> NMto (src_at s i) (dst_at s j) ->
    Inv (sub_list_map i j s) /\ Core s (sub_list_map i j s).
  Proof.
    intros I R N. unfold sub_list_map.
    destruct (f_ty (src_at s i)) eqn:E1; try (split; auto; apply Core_refl).
    destruct (f_ty (dst_at s j)) eqn:E2; try (split; auto; apply Core_refl).
    apply sub_map_ok; auto.
  Qed.

  Lemma step_mismatch_ok s i j :
    Inv s -> in_range s i j ->
    Inv (step_mismatch tm ic fns i j s) /\ Core s (step_mismatch tm ic fns i j s).
  Proof.
    intros I R. unfold step_mismatch.
    destruct (can_name_match (src_at s i) (dst_at s j) tm ic) eqn:N; simpl; [|split; auto; apply Core_refl].
    destruct (func_loop_ok fns s i j) as (I1 & C1); auto.
    set (s1 := func_loop fns i j s) in *.
    destruct (sub_map_ok s1 i j (f_ty (src_at s1 i)) (f_ty (dst_at s1 j)) false) as (I2 & C2); auto.
    { eapply in_range_core; eauto. } { eapply NMto_core; eauto. }
    set (s2 := sub_map i j (f_ty (src_at s1 i)) (f_ty (dst_at s1 j)) false s1) in *.
    assert (C02 : Core s s2) by (eapply Core_trans; eauto).
    destruct (sub_list_map_ok s2 i j) as (I3 & C3); auto.
    { eapply in_range_core; eauto. } { eapply NMto_core; eauto. }
    split; auto. eapply Core_trans; eauto.
  Qed.

  Lemma match_type_conv t1 t2 same conv :
    match_type e t1 t2 = (same, conv) -> same = false -> conv = true ->
    type_equals t1 t2 = false /\ convertible e t1 t2 = true /\ may_mis_conv e t1 t2 = false.
  Proof.
    unfold match_type. intros H S C. inversion H as [[H1 H2]]. subst same.
    rewrite H1 in H2. simpl in H2. rewrite H1. split; auto.
    destruct (convertible e t1 t2); simpl in H2; [|congruence].
    destruct (may_mis_conv e t1 t2); [congruence|auto].
  Qed.

  Lemma match_type_same t1 t2 same conv : match_type e t1 t2 = (same, conv) -> same = type_equals t1 t2.
  Proof. unfold match_type. intros H. inversion H. reflexivity. Qed.

  Lemma type_equals_sym a b : type_equals a b = type_equals b a.
  Proof.
    unfold type_equals. revert b. induction a as [x|p n|x IH|x IH|k IHk v IHv]; intros [y|q m|y|y|k' v']; simpl; auto.
    - unfold basic_eqb. apply Nat.eqb_sym.
    - rewrite (String.eqb_sym n m). f_equal. destruct p, q; simpl; auto. apply String.eqb_sym.
    - rewrite IHk, IHv. reflexivity.
  Qed.

  Lemma step_match_ok s i j :
    Inv s -> in_range s i j ->
    Inv (step_match e tm ic i j s) /\ Core s (step_match e tm ic i j s).
  Proof.
    intros I R. unfold step_match.
    destruct (can_name_match (src_at s i) (dst_at s j) tm ic) eqn:N; cbn [negb]; [|split; auto; apply Core_refl].
    set (t1 := f_ty (src_at s i)). set (t2 := f_ty (dst_at s j)).
    destruct (match_type e t1 t2) as (same, conv) eqn:M1.
    destruct (match_type e t2 t1) as (same', convback) eqn:M2.
    assert (Dflt : Inv s /\ Core s s) by (split; auto; apply Core_refl).
    set (s1 := if dst_free s j && (same || conv)
               then to_claim i j (if same then set_canassign else set_isconv t2) (fun f => f) s else s).
    assert (H1 : Inv s1 /\ Core s s1).
    { unfold s1. destruct (dst_free s j && (same || conv)) eqn:C; auto.
      apply andb_true_iff in C. destruct C as (C1 & C2).
      apply to_claim_ok; auto using kc_id, kt_id, kf_id, kc_ite, kt_ite, kc_canassign, kc_isconv, kt_canassign, kt_isconv.
      - intros Z. destruct same; [apply fc_canassign | apply fc_isconv]; auto.
      - intros Z. apply flag0 in Z. destruct Z as (z1&z2&z3&z4&z5).
        unfold just, has_func in *. simpl in z3. destruct same eqn:S; simpl.
        + rewrite z2, z3, z4, z5. repeat split; try discriminate. intros _.
          fold t1 t2. rewrite <- (match_type_same _ _ _ _ M1). reflexivity.
        + simpl in C2. subst conv. rewrite z1, z3, z4, z5. repeat split; try discriminate;
            fold t1 t2; destruct (match_type_conv _ _ _ _ M1 eq_refl eq_refl) as (a&b&c); auto. }
    destruct H1 as (I1 & C1).
    destruct (src_free s1 i && (same || convback)) eqn:C; [|split; auto].
    apply andb_true_iff in C. destruct C as (C1' & C2).
    destruct (ty_core _ _ C1) as (TS & TD).
    destruct (from_claim_ok s1 i j (if same then set_canassign else set_isconv t1) (fun f => f)) as (I2 & C2');
      auto using kc_id, kt_id, kf_id, kc_ite, kt_ite, kc_canassign, kc_isconv, kt_canassign, kt_isconv.
    - eapply in_range_core; eauto.
    - intros Z. destruct same; [apply fc_canassign | apply fc_isconv]; auto.
    - eapply NMto_core; eauto.
    - intros Z. apply flag0 in Z. destruct Z as (z1&z2&z3&z4&z5).
      unfold just, has_func in *. simpl in z3. destruct same eqn:S; simpl; rewrite ?TS, ?TD; fold t1 t2.
      + rewrite z2, z3, z4, z5. repeat split; try discriminate. intros _.
        rewrite type_equals_sym. rewrite <- (match_type_same _ _ _ _ M1). reflexivity.
      + simpl in C2. subst convback. rewrite z1, z3, z4, z5.
        assert (S' : same' = false).
        { rewrite (match_type_same _ _ _ _ M2), type_equals_sym, <- (match_type_same _ _ _ _ M1). reflexivity. }
        repeat split; try discriminate;
          destruct (match_type_conv _ _ _ _ M2 S' eq_refl) as (a&b&c); auto.
    - split; [exact I2 | eapply Core_trans; [exact C1 | exact C2']].
  Qed.

  (* the nested loops *)
  Lemma double_loop_ok (step : nat -> nat -> st -> st) :
    (forall s i j, Inv s -> in_range s i j -> Inv (step i j s) /\ Core s (step i j s)) ->
    forall s, Inv s -> Inv (double_loop step s) /\ Core s (double_loop step s).
  Proof.
    intros Hstep s I. unfold double_loop.
    assert (Inner : forall (js : list nat) s0 i, Inv s0 -> i < length (s_src s0) ->
              (forall j, In j js -> j < length (s_dst s0)) ->
              Inv (fold_left (fun s j => step i j s) js s0) /\ Core s0 (fold_left (fun s j => step i j s) js s0)).
    { induction js as [|j js IH]; intros s0 i I0 Hi Hjs; simpl.
      - split; auto. apply Core_refl.
      - destruct (Hstep s0 i j I0) as (I1 & C1). { split; auto. apply Hjs. left; auto. }
        destruct (IH (step i j s0) i I1) as (I2 & C2).
        + destruct C1 as (a&_). rewrite a. auto.
        + intros k Hk. destruct C1 as (_&b&_). rewrite b. apply Hjs. right; auto.
        + split; auto. eapply Core_trans; eauto. }
    assert (Outer : forall (is : list nat) s0, Inv s0 -> (forall i, In i is -> i < length (s_src s0)) ->
              Inv (fold_left (fun s i => fold_left (fun s j => step i j s) (seq 0 (length (s_dst s))) s) is s0)
              /\ Core s0 (fold_left (fun s i => fold_left (fun s j => step i j s) (seq 0 (length (s_dst s))) s) is s0)).
    { induction is as [|i is IH]; intros s0 I0 His; simpl.
      - split; auto. apply Core_refl.
      - destruct (Inner (seq 0 (length (s_dst s0))) s0 i I0) as (I1 & C1).
        + apply His. left; auto.
        + intros j Hj. apply in_seq in Hj. lia.
        + destruct (IH _ I1) as (I2 & C2).
          * intros k Hk. destruct C1 as (a&_). rewrite a. apply His. right; auto.
          * split; auto. eapply Core_trans; eauto. }
    apply Outer; auto. intros i Hi. apply in_seq in Hi. lia.
  Qed.

  (* both passes, from any state satisfying the invariant *)
  Theorem passes_ok s :
    Inv s ->
    let s2 := double_loop (step_match e tm ic) (double_loop (step_mismatch tm ic fns) s) in
    Inv s2 /\ Core s s2.
  Proof.
    intros I. simpl.
    destruct (double_loop_ok (step_mismatch tm ic fns) step_mismatch_ok s I) as (I1 & C1).
    destruct (double_loop_ok (step_match e tm ic) step_match_ok _ I1) as (I2 & C2).
    split; auto. eapply Core_trans; eauto.
  Qed.
End Passes.
