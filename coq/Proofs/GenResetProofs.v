(* Every per-type reset is needed: with one reset switched off, the output for a type depends on what the
   generator processed before.  Concrete witnesses (the shapes of the repaired findings K_hasnew_leak,
   K_getsetmethods_leak, K_map_state_leak), evaluated with vm_compute. *)
From Coq Require Import List String Ascii Bool Arith ZArith.
From Shoot Require Import Model.Gen.
Import ListNotations.
Local Open Scope string_scope.

Definition fld (n ty : string) : sfield :=
  {| sf_name := n; sf_ty := ty; sf_ptr := false; sf_hasdoc := false; sf_dget := false; sf_dset := false; sf_dnew := false;
     sf_def := ""; sf_newskip := false; sf_jsontag := ""; sf_maptag := "" |}.
Definition fld_new (n ty : string) : sfield :=
  {| sf_name := n; sf_ty := ty; sf_ptr := false; sf_hasdoc := true; sf_dget := false; sf_dset := false; sf_dnew := true;
     sf_def := ""; sf_newskip := false; sf_jsontag := ""; sf_maptag := "" |}.
Definition fld_setonly (n ty : string) : sfield :=
  {| sf_name := n; sf_ty := ty; sf_ptr := false; sf_hasdoc := true; sf_dget := false; sf_dset := true; sf_dnew := false;
     sf_def := ""; sf_newskip := false; sf_jsontag := ""; sf_maptag := "" |}.
Definition strct (n : string) (items : list sitem) : hdecl :=
  HStruct {| ss_name := n; ss_tparams := []; ss_hasdoc := false; ss_dgetter := false; ss_dsetter := false; ss_items := items |}.
Definition hfile1 (n : string) (ds : list hdecl) : hfile := {| h_name := n; h_imports := []; h_gen := []; h_decls := ds |}.

Definition cmd_new (line : string) (types : list string) (getset json : bool) : cmd :=
  {| c_sub := CNew; c_line := line; c_types := types; c_star := false; c_file := ""; c_sepflag := false;
     c_getset := getset; c_json := json; c_opt := false; c_short := false; c_ejson := false; c_etext := false; c_toonly := false; c_fromonly := false |}.
Definition cmd_map (line : string) (types : list string) : cmd :=
  {| c_sub := CMap; c_line := line; c_types := types; c_star := false; c_file := ""; c_sepflag := false;
     c_getset := false; c_json := false; c_opt := false; c_short := false; c_ejson := false; c_etext := false; c_toonly := false; c_fromonly := false |}.

Definition with_reset (f : resets -> resets) : resets := f all_resets.
Definition no_hasnew : resets :=
  {| rs_hasnew := false; rs_gsm := true; rs_getset := true; rs_mfields := true; rs_mtags := true; rs_mctor := true;
     rs_mmeth := true; rs_msets := true; rs_mmaps := true; rs_mfuncs := true |}.
Definition no_gsm : resets :=
  {| rs_hasnew := true; rs_gsm := false; rs_getset := true; rs_mfields := true; rs_mtags := true; rs_mctor := true;
     rs_mmeth := true; rs_msets := true; rs_mmaps := true; rs_mfuncs := true |}.
Definition no_mctor : resets :=
  {| rs_hasnew := true; rs_gsm := true; rs_getset := true; rs_mfields := true; rs_mtags := true; rs_mctor := false;
     rs_mmeth := true; rs_msets := true; rs_mmaps := true; rs_mfuncs := true |}.
Definition no_mmeth : resets :=
  {| rs_hasnew := true; rs_gsm := true; rs_getset := true; rs_mfields := true; rs_mtags := true; rs_mctor := true;
     rs_mmeth := false; rs_msets := true; rs_mmaps := true; rs_mfuncs := true |}.
Definition no_getset : resets :=
  {| rs_hasnew := true; rs_gsm := true; rs_getset := false; rs_mfields := true; rs_mtags := true; rs_mctor := true;
     rs_mmeth := true; rs_msets := true; rs_mmaps := true; rs_mfuncs := true |}.
Definition no_mtags : resets :=
  {| rs_hasnew := true; rs_gsm := true; rs_getset := true; rs_mfields := true; rs_mtags := false; rs_mctor := true;
     rs_mmeth := true; rs_msets := true; rs_mmaps := true; rs_mfuncs := true |}.
Definition no_mmaps : resets :=
  {| rs_hasnew := true; rs_gsm := true; rs_getset := true; rs_mfields := true; rs_mtags := true; rs_mctor := true;
     rs_mmeth := true; rs_msets := true; rs_mmaps := false; rs_mfuncs := true |}.
Definition no_mfuncs : resets :=
  {| rs_hasnew := true; rs_gsm := true; rs_getset := true; rs_mfields := true; rs_mtags := true; rs_mctor := true;
     rs_mmeth := true; rs_msets := true; rs_mmaps := true; rs_mfuncs := false |}.
Definition no_mfields : resets :=
  {| rs_hasnew := true; rs_gsm := true; rs_getset := true; rs_mfields := false; rs_mtags := true; rs_mctor := true;
     rs_mmeth := true; rs_msets := true; rs_mmaps := true; rs_mfuncs := true |}.
Definition no_msets : resets :=
  {| rs_hasnew := true; rs_gsm := true; rs_getset := true; rs_mfields := true; rs_mtags := true; rs_mctor := true;
     rs_mmeth := true; rs_msets := false; rs_mmaps := true; rs_mfuncs := true |}.

Definition state_after {D S} (r : mres D S) (dflt : S) : S :=
  match r with MOk _ _ s => s | MSkip s => s | MFatal => dflt end.
Definition params_of (r : mres ndata nstate) : string := match r with MOk d _ _ => nd_params d | _ => "?" end.
Definition jsonget_of (r : mres ndata nstate) : list string := match r with MOk d _ _ => nd_jsonget d | _ => ["?"] end.

(* K_hasnew_leak: A has a `shoot: new` field, B has none *)
Definition hw_ab : list hfile :=
  [hfile1 "a.go" [strct "A" [IField (fld_new "x" "int"); IField (fld "y" "int")]; strct "B" [IField (fld "z" "string")]]].
Definition v_ab : pview := pview_of (mk_view hw_ab [] []).
Definition c_ab := cmd_new "shoot new -type=A,B" ["A"; "B"] false false.

Lemma reset_hasnew_needed :
  params_of (new_make_gen no_hasnew c_ab (state_after (new_make_gen no_hasnew c_ab nstate0 v_ab "A") nstate0) v_ab "B")
  <> params_of (new_make_gen no_hasnew c_ab nstate0 v_ab "B").
Proof. vm_compute. discriminate. Qed.

Lemma reset_hasnew_effective :
  new_make c_ab (state_after (new_make c_ab nstate0 v_ab "A") nstate0) v_ab "B" = new_make c_ab nstate0 v_ab "B".
Proof. reflexivity. Qed.

(* K_getsetmethods_leak: Son embeds Base (whose accessors exist already); Other has a set-only field z *)
Definition hw_gs : list hfile :=
  [hfile1 "a.go" [strct "Base" [IField (fld "z" "string")];
                  strct "Son" [IEmbed "Base" false false; IField (fld "k" "int")];
                  strct "Other" [IField (fld_setonly "z" "string")]]].
Definition c_gs := cmd_new "shoot new -getset -json -type=Base,Son,Other" ["Base"; "Son"; "Other"] true true.
Definition disk_gs : gfiles :=
  match generate (new_make c_gs) (fun _ d => new_render d) (list_types_of CNew)
                 (cmd_new "shoot new -getset -json -type=Base" ["Base"] true true) id_oracle hw_gs [] nstate0 with
  | Some fs => fs
  | None => []
  end.
Definition v_gs : pview := pview_of (mk_view hw_gs disk_gs []).

Lemma reset_getsetmethods_needed :
  jsonget_of (new_make_gen no_gsm c_gs (state_after (new_make_gen no_gsm c_gs nstate0 v_gs "Son") nstate0) v_gs "Other")
  <> jsonget_of (new_make_gen no_gsm c_gs nstate0 v_gs "Other").
Proof. vm_compute. discriminate. Qed.

(* K_map_state_leak: Order2 has a shoot-new destination (constructor + accessors), Order a plain one *)
Definition mfld (n ty : string) : sitem := IField (fld n ty).
Definition hw_src : list hfile :=
  [hfile1 "model.go" [strct "Order2" [mfld "Id" "string"; mfld "Amount" "int"]; strct "Order" [mfld "Id" "string"; mfld "Amount" "int"]]].
Definition hw_dest : list hfile :=
  [hfile1 "dest.go" [strct "Order2" [mfld "id" "string"; mfld "amount" "int"]; strct "Order" [mfld "Id" "string"; mfld "Amount" "int"]]].
Definition destaux : gfiles :=
  match generate (new_make c_gs) (fun _ d => new_render d) (list_types_of CNew)
                 (cmd_new "shoot new -getset -type=Order2" ["Order2"] true false) id_oracle hw_dest [] nstate0 with
  | Some fs => fs
  | None => []
  end.
Definition v_src : pview := pview_of (mk_view hw_src [] []).
Definition v_dest : pview := pview_of (mk_view hw_dest destaux []).
Definition c_map := cmd_map "shoot map -path=../dest -type=Order2,Order" ["Order2"; "Order"].
Definition toks_of (r : mres mdata mstate) : list (list string) :=
  match r with MOk d _ s => map d_toks (a_decls (map_render s d)) | _ => [["?"]] end.

Lemma reset_map_ctor_needed :
  toks_of (map_make_gen no_mctor id_oracle c_map "dest" v_dest
             (state_after (map_make_gen no_mctor id_oracle c_map "dest" v_dest mstate0 v_src "Order2") mstate0) v_src "Order")
  <> toks_of (map_make_gen no_mctor id_oracle c_map "dest" v_dest mstate0 v_src "Order").
Proof. vm_compute. discriminate. Qed.

Lemma reset_map_fields_needed :
  toks_of (map_make_gen no_mfields id_oracle c_map "dest" v_dest
             (state_after (map_make_gen no_mfields id_oracle c_map "dest" v_dest mstate0 v_src "Order2") mstate0) v_src "Order")
  <> toks_of (map_make_gen no_mfields id_oracle c_map "dest" v_dest mstate0 v_src "Order").
Proof. vm_compute. discriminate. Qed.

Lemma reset_map_sets_needed :
  toks_of (map_make_gen no_msets id_oracle c_map "dest" v_dest
             (state_after (map_make_gen no_msets id_oracle c_map "dest" v_dest mstate0 v_src "Order2") mstate0) v_src "Order")
  <> toks_of (map_make_gen no_msets id_oracle c_map "dest" v_dest mstate0 v_src "Order").
Proof. vm_compute. discriminate. Qed.

(* with all resets the same two calls agree (an instance of map_make_state_indep, on the nose) *)
Lemma reset_map_effective :
  toks_of (map_make id_oracle c_map "dest" v_dest (state_after (map_make id_oracle c_map "dest" v_dest mstate0 v_src "Order2") mstate0) v_src "Order")
  = toks_of (map_make id_oracle c_map "dest" v_dest mstate0 v_src "Order").
Proof. vm_compute. reflexivity. Qed.

(* g.getter = true; g.setter = true: A carries the type-level directive `shoot: setter`, B has none *)
Definition hw_tl : list hfile :=
  [hfile1 "a.go" [HStruct {| ss_name := "A"; ss_tparams := []; ss_hasdoc := true; ss_dgetter := false; ss_dsetter := true;
                             ss_items := [IField (fld "x" "int")] |};
                  strct "B" [IField (fld "z" "string")]]].
Definition v_tl : pview := pview_of (mk_view hw_tl [] []).
Definition c_tl := cmd_new "shoot new -getset -type=A,B" ["A"; "B"] true false.
Definition getters_of (r : mres ndata nstate) : list string * list string :=
  match r with MOk d _ _ => (nd_getters d, nd_setters d) | _ => (["?"], []) end.
Lemma reset_getter_setter_needed :
  getters_of (new_make_gen no_getset c_tl (state_after (new_make_gen no_getset c_tl nstate0 v_tl "A") nstate0) v_tl "B")
  <> getters_of (new_make_gen no_getset c_tl nstate0 v_tl "B").
Proof. vm_compute. discriminate. Qed.

(* the mapper's accessor lists: Order2 has a shoot-new destination, Order a plain one *)
Lemma reset_map_methods_needed :
  toks_of (map_make_gen no_mmeth id_oracle c_map "dest" v_dest
             (state_after (map_make_gen no_mmeth id_oracle c_map "dest" v_dest mstate0 v_src "Order2") mstate0) v_src "Order")
  <> toks_of (map_make_gen no_mmeth id_oracle c_map "dest" v_dest mstate0 v_src "Order").
Proof. vm_compute. discriminate. Qed.

(* g.srcTagMap: Tagged renames Name to Label through a map tag; Plain has Name and the destination has both *)
Definition mfld_tag (n ty tag : string) : sitem :=
  IField {| sf_name := n; sf_ty := ty; sf_ptr := false; sf_hasdoc := false; sf_dget := false; sf_dset := false; sf_dnew := false;
            sf_def := ""; sf_newskip := false; sf_jsontag := ""; sf_maptag := tag |}.
Definition hw_src_tg : list hfile :=
  [hfile1 "model.go" [strct "Tagged" [mfld_tag "Name" "string" "Label"]; strct "Plain" [mfld "Name" "string"]]].
Definition hw_dest_tg : list hfile :=
  [hfile1 "dest.go" [strct "Tagged" [mfld "Label" "string"]; strct "Plain" [mfld "Name" "string"; mfld "Label" "string"]]].
Definition v_src_tg : pview := pview_of (mk_view hw_src_tg [] []).
Definition v_dest_tg : pview := pview_of (mk_view hw_dest_tg [] []).
Definition c_map_tg := cmd_map "shoot map -path=../dest -type=Tagged,Plain" ["Tagged"; "Plain"].
Lemma reset_map_tags_needed :
  toks_of (map_make_gen no_mtags id_oracle c_map_tg "dest" v_dest_tg
             (state_after (map_make_gen no_mtags id_oracle c_map_tg "dest" v_dest_tg mstate0 v_src_tg "Tagged") mstate0) v_src_tg "Plain")
  <> toks_of (map_make_gen no_mtags id_oracle c_map_tg "dest" v_dest_tg mstate0 v_src_tg "Plain").
Proof. vm_compute. discriminate. Qed.

(* g.mappingFuncList: WithM embeds the mapper struct, NoM does not *)
Definition hw_src_fn : list hfile :=
  [hfile1 "model.go" [strct "Mapper" []; HFuncs "Mapper" [("IntToStr", "int64", "string")];
                      strct "WithM" [IEmbed "Mapper" false false; mfld "V" "int64"]; strct "NoM" [mfld "V" "int64"]]].
Definition hw_dest_fn : list hfile :=
  [hfile1 "dest.go" [strct "WithM" [mfld "V" "string"]; strct "NoM" [mfld "V" "string"]]].
Definition v_src_fn : pview := pview_of (mk_view hw_src_fn [] []).
Definition v_dest_fn : pview := pview_of (mk_view hw_dest_fn [] []).
Definition c_map_fn := cmd_map "shoot map -path=../dest -type=WithM,NoM" ["WithM"; "NoM"].
Lemma reset_map_funcs_needed :
  toks_of (map_make_gen no_mfuncs id_oracle c_map_fn "dest" v_dest_fn
             (state_after (map_make_gen no_mfuncs id_oracle c_map_fn "dest" v_dest_fn mstate0 v_src_fn "WithM") mstate0) v_src_fn "NoM")
  <> toks_of (map_make_gen no_mfuncs id_oracle c_map_fn "dest" v_dest_fn mstate0 v_src_fn "NoM").
Proof. vm_compute. discriminate. Qed.

(* g.readSrcMap / g.writeSrcMap: First maps the promoted field Deep of its embedded *Inner, Second embeds *Inner too but its
   destination has no Deep *)
Definition hw_src_mm : list hfile :=
  [hfile1 "model.go" [strct "Inner" [mfld "Deep" "string"];
                      strct "First" [IEmbed "Inner" true false; mfld "Id" "int"];
                      strct "Second" [IEmbed "Inner" true false; mfld "Id" "int"]]].
Definition hw_dest_mm : list hfile :=
  [hfile1 "dest.go" [strct "First" [mfld "Id" "int"; mfld "Deep" "string"]; strct "Second" [mfld "Id" "int"]]].
Definition v_src_mm : pview := pview_of (mk_view hw_src_mm [] []).
Definition v_dest_mm : pview := pview_of (mk_view hw_dest_mm [] []).
Definition c_map_mm := cmd_map "shoot map -path=../dest -type=First,Second" ["First"; "Second"].
Lemma reset_map_maps_needed :
  toks_of (map_make_gen no_mmaps id_oracle c_map_mm "dest" v_dest_mm
             (state_after (map_make_gen no_mmaps id_oracle c_map_mm "dest" v_dest_mm mstate0 v_src_mm "First") mstate0) v_src_mm "Second")
  <> toks_of (map_make_gen no_mmaps id_oracle c_map_mm "dest" v_dest_mm mstate0 v_src_mm "Second").
Proof. vm_compute. discriminate. Qed.
