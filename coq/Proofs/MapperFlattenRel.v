(* parseFields against the declarative tables of Model/MapperSafe.v: every
   flattened field sits on a leaf of the struct (same path and type), every
   ptrTypeMap entry is an embedded-pointer position with its type, and every
   embedded pointer above a leaf is in ptrTypeMap. *)
From Coq Require Import String Ascii List Bool Arith Lia.
From Shoot Require Import Base.Str Model.Transfer Model.MapVal Model.Mapper Model.MapperEval Model.MapperSafe Model.MapperGen
     Proofs.MapperValProofs Proofs.MapperSafeProofs Proofs.MapperFlattenProofs Proofs.MapperLeafProofs.
Import ListNotations.
Local Open Scope string_scope.
Local Open Scope list_scope.

Lemma emb_wf_lookup e p n fs f : emb_wf e = true -> lookup_decl e p n = Some (DStruct fs) -> In f fs ->
  sf_emb f = true -> type_name (sf_ty f) = sf_name f.
Proof.
  unfold emb_wf. intros H L I Em. induction e as [|[[q m] d] e IH]; simpl in *; [discriminate|].
  apply andb_true_iff in H. destruct H as (H1 & H2).
  destruct (pkg_eqb p q && String.eqb n m).
  - inversion L; subst. rewrite forallb_forall in H1. specialize (H1 f I). rewrite Em in H1. simpl in H1.
    apply String.eqb_eq in H1. auto.
  - apply IH; auto.
Qed.

(* the struct an embedded field of type t brings in: (pointer?, package, name, fields) *)
Definition emb_decl (e : env) (t : ty) : option (bool * pkg * string * list sfield) :=
  match t with
  | TNamed p n => match lookup_decl e p n with Some (DStruct gs) => Some (false, p, n, gs) | _ => None end
  | TPtr (TNamed p n) => match lookup_decl e p n with Some (DStruct gs) => Some (true, p, n, gs) | _ => None end
  | _ => None
  end.

Lemma emb_decl_lookup e t ptr p n gs : emb_decl e t = Some (ptr, p, n, gs) -> lookup_decl e p n = Some (DStruct gs).
Proof.
  unfold emb_decl. destruct t as [|p' n'|t'| |]; try discriminate.
  - destruct (lookup_decl e p' n') as [[|gs']|] eqn:L; try discriminate. intros H. inversion H; subst. auto.
  - destruct t' as [|p' n'| | |]; try discriminate.
    destruct (lookup_decl e p' n') as [[|gs']|] eqn:L; try discriminate. intros H. inversion H; subst. auto.
Qed.

Lemma leaves_of_field_eq e fuel f :
  leaves_of_field e fuel f =
  if sf_emb f then
    match emb_decl e (sf_ty f) with
    | Some (ptr, _, _, gs) => map (rl_under (sf_name f) ptr) (rleaves e fuel gs)
    | None => []
    end
  else [{| rl_path := [sf_name f]; rl_ty := sf_ty f; rl_hops := [] |}].
Proof.
  unfold leaves_of_field, emb_decl. destruct (sf_emb f); auto.
  destruct (sf_ty f) as [|p n|t| |]; auto.
  - destruct (lookup_decl e p n) as [[|gs]|]; auto.
  - destruct t as [|p n| | |]; auto. destruct (lookup_decl e p n) as [[|gs]|]; auto.
Qed.

Lemma hops_of_field_eq e fuel f :
  hops_of_field e fuel f =
  if sf_emb f then
    match emb_decl e (sf_ty f) with
    | Some (ptr, p, n, gs) =>
        (if ptr then [([sf_name f], TNamed p n)] else [])
        ++ map (fun h => (sf_name f :: fst h, snd h)) (rhops e fuel gs)
    | None => []
    end
  else [].
Proof.
  unfold hops_of_field, emb_decl. destruct (sf_emb f); auto.
  destruct (sf_ty f) as [|p n|t| |]; auto.
  - destruct (lookup_decl e p n) as [[|gs]|]; auto.
  - destruct t as [|p n| | |]; auto. destruct (lookup_decl e p n) as [[|gs]|]; auto.
Qed.

Definition expand_step (e : env) (fuel : nat) (pre : path) (depth : nat)
           (acc : ptrmap * list field) (f : sfield) : ptrmap * list field :=
  if sf_emb f
  then expand_if_struct e fuel (pre ++ [type_name (sf_ty f)]) (S depth) (sf_ty f) acc
  else (fst acc, append_or_replace (snd acc) (new_field (sf_name f) (pre ++ [sf_name f]) (sf_ty f) depth)).

Lemma expand_S e fuel pre depth t acc :
  expand_if_struct e (S fuel) pre depth t acc =
  match emb_decl e t with
  | Some (ptr, p, n, gs) =>
      fold_left (expand_step e fuel pre depth) gs
                (if ptr then (pm_set (fst acc) pre (TNamed p n), snd acc) else acc)
  | None => acc
  end.
Proof.
  unfold emb_decl. simpl. destruct t as [|p n|t| |]; auto.
  - destruct (lookup_decl e p n) as [[|gs]|]; auto.
  - destruct t as [|p n| | |]; auto. destruct (lookup_decl e p n) as [[|gs]|]; auto.
Qed.

(* ------------------------------------------------------------ ptrTypeMap *)
Lemma pm_has_in m p : pm_has m p = true <-> exists t, In (p, t) m.
Proof.
  induction m as [|[q t] m IH]; simpl.
  - split; [discriminate|intros (t & [])].
  - rewrite orb_true_iff, IH, path_eqb_eq. split.
    + intros [->|(t' & H)]; eauto.
    + intros (t' & [H|H]); [inversion H; auto|eauto].
Qed.

Lemma pm_get_in m p t : pm_get m p = Some t -> In (p, t) m.
Proof.
  induction m as [|[q t'] m IH]; simpl; [discriminate|].
  destruct (path_eqb p q) eqn:E.
  - apply path_eqb_eq in E. intros H. inversion H; subst. auto.
  - auto.
Qed.

Lemma pm_has_get m p : pm_has m p = true -> exists t, pm_get m p = Some t.
Proof.
  induction m as [|[q t'] m IH]; simpl; [discriminate|].
  destruct (path_eqb p q); simpl; eauto.
Qed.

Lemma pm_set_in m p t x : In x (pm_set m p t) -> In x m \/ x = (p, t).
Proof.
  unfold pm_set. destruct (pm_has m p).
  - intros H. apply in_map_iff in H. destruct H as (y & <- & Y). destruct (path_eqb (fst y) p); auto.
  - intros H. apply in_app_or in H. destruct H as [H|[<-|[]]]; auto.
Qed.

Lemma pm_set_has m p t q : pm_has (pm_set m p t) q = true <-> (q = p \/ pm_has m q = true).
Proof.
  unfold pm_set. destruct (pm_has m p) eqn:H.
  - split.
    + intros X. right. apply pm_has_in in X. destruct X as (t' & X). apply in_map_iff in X.
      destruct X as ((a, b) & E & Y). simpl in E. destruct (path_eqb a p) eqn:A.
      * inversion E; subst. exact H.
      * inversion E; subst. apply pm_has_in. eauto.
    + intros [->|X].
      * apply pm_has_in in H. destruct H as (t' & H). apply pm_has_in. exists t. apply in_map_iff.
        exists (p, t'). simpl. assert (path_eqb p p = true) by (apply path_eqb_eq; auto). rewrite H0. auto.
      * apply pm_has_in in X. destruct X as (t' & X). apply pm_has_in.
        destruct (path_eqb q p) eqn:A.
        -- exists t. apply in_map_iff. exists (q, t'). simpl. rewrite A. apply path_eqb_eq in A. subst. auto.
        -- exists t'. apply in_map_iff. exists (q, t'). simpl. rewrite A. auto.
  - rewrite pm_has_in. split.
    + intros (t' & X). apply in_app_or in X. destruct X as [X|[X|[]]].
      * right. apply pm_has_in. eauto.
      * inversion X. auto.
    + intros [->|X].
      * exists t. apply in_or_app. right. left. auto.
      * apply pm_has_in in X. destruct X as (t' & X). exists t'. apply in_or_app. auto.
Qed.

Section Rel.
  Variable e : env.
  Hypothesis Ewf : emb_wf e = true.
  Variable LF : list rleaf.
  Variable HP : list (path * ty).

  (* a flattened field sits on a leaf *)
  Definition fld_ok (f : field) : Prop :=
    (exists l, In l LF /\ rl_path l = f_path f /\ rl_ty l = f_ty f)
    /\ f_isget f = false /\ f_isset f = false.

  Definition acc_ok (acc : ptrmap * list field) : Prop :=
    (forall x, In x (fst acc) -> In x HP) /\ Forall fld_ok (snd acc).

  Lemma aor_scan_fld : forall fs nf found,
    Forall fld_ok fs -> fld_ok nf -> Forall fld_ok (fst (aor_scan fs nf found)).
  Proof.
    induction fs as [|f r IH]; intros nf found F N; simpl; auto.
    inversion F; subst.
    destruct (String.eqb (f_name f) (f_name nf)).
    - destruct (Nat.ltb (f_depth nf) (f_depth f)); simpl.
      + constructor; auto. destruct N as (L & _). destruct H1 as (_ & G & S). split; auto.
      + specialize (IH nf true H2 N). destruct (aor_scan r nf true). simpl in *. constructor; auto.
    - specialize (IH nf found H2 N). destruct (aor_scan r nf found). simpl in *. constructor; auto.
  Qed.

  Lemma aor_fld fs nf : Forall fld_ok fs -> fld_ok nf -> Forall fld_ok (append_or_replace fs nf).
  Proof.
    intros F N. unfold append_or_replace. pose proof (aor_scan_fld fs nf false F N) as X.
    destruct (aor_scan fs nf false) as (fs', fd). simpl in X. destruct fd; auto.
    apply Forall_app. split; auto.
  Qed.

  (* what the table must contain below a prefix for an embedded field of type t *)
  Definition sub_leaves (fuel : nat) (t : ty) : list rleaf :=
    match emb_decl e t with Some (_, _, _, gs) => rleaves e fuel gs | None => [] end.
  Definition sub_hops (fuel : nat) (t : ty) : list (path * ty) :=
    match emb_decl e t with Some (_, _, _, gs) => rhops e fuel gs | None => [] end.

  Definition Sub (pre : path) (fuel : nat) (t : ty) : Prop :=
    (forall l, In l (sub_leaves fuel t) -> exists l', In l' LF /\ rl_path l' = pre ++ rl_path l /\ rl_ty l' = rl_ty l)
    /\ (forall h, In h (sub_hops fuel t) -> In (pre ++ fst h, snd h) HP)
    /\ (forall p n gs, emb_decl e t = Some (true, p, n, gs) -> In (pre, TNamed p n) HP).

  Lemma Sub_step pre fuel t ptr p n gs g :
    Sub pre (S fuel) t -> emb_decl e t = Some (ptr, p, n, gs) -> In g gs -> sf_emb g = true ->
    Sub (pre ++ [type_name (sf_ty g)]) fuel (sf_ty g).
  Proof.
    intros (S1 & S2 & S3) D I Em.
    rewrite (emb_wf_lookup e p n gs g Ewf (emb_decl_lookup _ _ _ _ _ _ D) I Em).
    unfold sub_leaves, sub_hops in *. rewrite D in S1, S2.
    split; [|split].
    - intros l Hl. unfold sub_leaves in Hl.
      destruct (emb_decl e (sf_ty g)) as [[[[ptr' p'] n'] gs']|] eqn:Dg; [|contradiction].
      destruct (S1 (rl_under (sf_name g) ptr' l)) as (l' & A & B & C).
      { rewrite rleaves_S. apply in_flat_map. exists g. split; auto. rewrite leaves_of_field_eq, Em, Dg.
        apply in_map. auto. }
      exists l'. split; auto. split; auto. rewrite B. simpl. rewrite <- app_assoc. reflexivity.
    - intros h Hh. unfold sub_hops in Hh.
      destruct (emb_decl e (sf_ty g)) as [[[[ptr' p'] n'] gs']|] eqn:Dg; [|contradiction].
      assert (X : In (sf_name g :: fst h, snd h) (rhops e (S fuel) gs)).
      { rewrite rhops_S. apply in_flat_map. exists g. split; auto. rewrite hops_of_field_eq, Em, Dg.
        apply in_or_app. right. apply in_map_iff. exists h. auto. }
      apply S2 in X. simpl in X. rewrite <- app_assoc. exact X.
    - intros p' n' gs' Dg.
      assert (X : In ([sf_name g], TNamed p' n') (rhops e (S fuel) gs)).
      { rewrite rhops_S. apply in_flat_map. exists g. split; auto. rewrite hops_of_field_eq, Em, Dg.
        simpl. left. auto. }
      apply S2 in X. exact X.
  Qed.

  Lemma expand_sound : forall fuel pre depth t acc,
    Sub pre fuel t -> acc_ok acc -> acc_ok (expand_if_struct e fuel pre depth t acc).
  Proof.
    induction fuel as [|fuel IH]; intros pre depth t acc SB A; [exact A|].
    rewrite expand_S. destruct (emb_decl e t) as [[[[ptr p] n] gs]|] eqn:D; auto.
    assert (A1 : acc_ok (if ptr then (pm_set (fst acc) pre (TNamed p n), snd acc) else acc)).
    { destruct ptr; auto. destruct A as (A1 & A2). split; auto. simpl. intros x X.
      apply pm_set_in in X. destruct X as [X| ->]; auto. destruct SB as (_ & _ & S3). eapply S3; eauto. }
    revert A1. generalize (if ptr then (pm_set (fst acc) pre (TNamed p n), snd acc) else acc).
    assert (G : forall g, In g gs -> In g gs) by auto. revert G. generalize gs at 1 3.
    induction gs0 as [|g gs0 IHg]; intros G a Aa; simpl; auto.
    apply IHg. { intros; apply G; right; auto. }
    unfold expand_step. destruct (sf_emb g) eqn:Em.
    - apply IH; auto. eapply Sub_step; eauto. apply G. left; auto.
    - destruct Aa as (A1 & A2). split; auto. simpl. apply aor_fld; auto.
      split; [|split; reflexivity]. simpl.
      destruct SB as (S1 & _). unfold sub_leaves in S1. rewrite D in S1.
      destruct (S1 {| rl_path := [sf_name g]; rl_ty := sf_ty g; rl_hops := [] |}) as (l' & X & Y & Z).
      { rewrite rleaves_S. apply in_flat_map. exists g. split; [apply G; left; auto|].
        rewrite leaves_of_field_eq, Em. left. auto. }
      exists l'. auto.
  Qed.

  (* completeness: the embedded pointers above every leaf are recorded *)
  Lemma expand_mono : forall fuel pre depth t acc q,
    pm_has (fst acc) q = true -> pm_has (fst (expand_if_struct e fuel pre depth t acc)) q = true.
  Proof.
    induction fuel as [|fuel IH]; intros pre depth t acc q H; [exact H|].
    rewrite expand_S. destruct (emb_decl e t) as [[[[ptr p] n] gs]|]; auto.
    assert (H1 : pm_has (fst (if ptr then (pm_set (fst acc) pre (TNamed p n), snd acc) else acc)) q = true).
    { destruct ptr; auto. simpl. apply pm_set_has. auto. }
    revert H1. generalize (if ptr then (pm_set (fst acc) pre (TNamed p n), snd acc) else acc).
    induction gs as [|g gs IHg]; intros a Ha; simpl; auto.
    apply IHg. unfold expand_step. destruct (sf_emb g); auto.
  Qed.

  Lemma fold_step_mono fuel pre depth gs : forall a q,
    pm_has (fst a) q = true -> pm_has (fst (fold_left (expand_step e fuel pre depth) gs a)) q = true.
  Proof.
    induction gs as [|g gs IHg]; intros a q Ha; simpl; auto.
    apply IHg. unfold expand_step. destruct (sf_emb g); auto. apply expand_mono. auto.
  Qed.

  Hypothesis Eok : env_ok e = true.

  Lemma expand_complete : forall fuel pre depth t acc l,
    In l (sub_leaves fuel t) ->
    (forall p n gs, emb_decl e t = Some (true, p, n, gs) ->
                    pm_has (fst (expand_if_struct e fuel pre depth t acc)) pre = true)
    /\ forall q, In q (rl_hops l) -> pm_has (fst (expand_if_struct e fuel pre depth t acc)) (pre ++ q) = true.
  Proof.
    induction fuel as [|fuel IH]; intros pre depth t acc l I.
    { unfold sub_leaves in I. destruct (emb_decl e t) as [[[[? ?] ?] ?]|]; contradiction. }
    unfold sub_leaves in I. rewrite expand_S.
    destruct (emb_decl e t) as [[[[ptr p] n] gs]|] eqn:D; [|contradiction].
    split.
    - intros p' n' gs' E. inversion E; subst. apply fold_step_mono. simpl. apply pm_set_has. auto.
    - intros q Hq. rewrite rleaves_S in I. apply in_flat_map in I. destruct I as (g & G & I).
      apply in_split in G. destruct G as (g1 & g2 & ->). rewrite fold_left_app. simpl.
      apply fold_step_mono.
      pose proof (emb_decl_lookup _ _ _ _ _ _ D) as L.
      rewrite leaves_of_field_eq in I. unfold expand_step at 1.
      destruct (sf_emb g) eqn:Em.
      + assert (Ig : In g (g1 ++ g :: g2)) by (apply in_or_app; right; left; auto).
        rewrite (emb_wf_lookup e p n _ g Ewf L Ig Em).
        destruct (emb_decl e (sf_ty g)) as [[[[ptr' p'] n'] gs']|] eqn:Dg; [|contradiction].
        apply in_map_iff in I. destruct I as (l' & <- & I'). simpl in Hq.
        match goal with |- context [expand_if_struct e fuel ?pre' ?d' ?t' ?a'] =>
          destruct (IH pre' d' t' a' l') as (C1 & C2) end.
        { unfold sub_leaves. rewrite Dg. exact I'. }
        apply in_app_or in Hq. destruct Hq as [Hq|Hq].
        * destruct ptr'; [|contradiction]. destruct Hq as [<-|[]]. eapply C1; eauto.
        * apply in_map_iff in Hq. destruct Hq as (q' & <- & Hq'). specialize (C2 q' Hq').
          rewrite <- app_assoc in C2. exact C2.
      + destruct I as [<-|[]]. contradiction.
  Qed.
End Rel.

(* --------------------------------------------------------------- top level *)
Section Top.
  Variable e : env.
  Hypothesis Ewf : emb_wf e = true.
  Hypothesis Eok : env_ok e = true.

  Definition top_step (fuel : nat) (with_tags : bool) (acc : ptrmap * list field * tagmap) (f : sfield) :=
    let '(pm, fl, tm) := acc in
    if sf_emb f then
      let '(pm', fl') := expand_if_struct e fuel [type_name (sf_ty f)] 1 (sf_ty f) (pm, fl) in
      (pm', fl', tm)
    else if String.eqb (sf_tag f) "-" then acc
    else
      let tm' := if negb (String.eqb (sf_tag f) "") && with_tags
                 then (to_pascal_case (sf_name f), to_pascal_case (sf_tag f)) :: tm
                 else tm in
      (pm, append_or_replace fl (new_field (sf_name f) [sf_name f] (sf_ty f) 0), tm').

  Lemma extract_top_eq fuel wt fs :
    extract_top e fuel wt fs =
    let '(pm, fl, tm) := fold_left (top_step fuel wt) fs ([], [], []) in
    {| p_fields := fl; p_ptr := pm; p_tags := tm |}.
  Proof. reflexivity. Qed.

  Lemma top_step_pf fuel wt acc f :
    fst (top_step fuel wt acc f) =
    if sf_emb f then expand_if_struct e fuel [type_name (sf_ty f)] 1 (sf_ty f) (fst acc)
    else if String.eqb (sf_tag f) "-" then fst acc
    else (fst (fst acc), append_or_replace (snd (fst acc)) (new_field (sf_name f) [sf_name f] (sf_ty f) 0)).
  Proof.
    destruct acc as [[pm fl] tm]. simpl. destruct (sf_emb f).
    - destruct (expand_if_struct e fuel [type_name (sf_ty f)] 1 (sf_ty f) (pm, fl)); reflexivity.
    - destruct (String.eqb (sf_tag f) "-"); reflexivity.
  Qed.

  Lemma top_mono fuel wt fs : forall acc q,
    pm_has (fst (fst acc)) q = true -> pm_has (fst (fst (fold_left (top_step fuel wt) fs acc))) q = true.
  Proof.
    induction fs as [|f fs IH]; intros acc q H; simpl; auto.
    apply IH. rewrite top_step_pf. destruct (sf_emb f); [apply expand_mono; auto|].
    destruct (String.eqb (sf_tag f) "-"); auto.
  Qed.

  Variable F : nat.
  Variable p : pkg.
  Variable n : string.
  Variable fs : list sfield.
  Hypothesis Lk : lookup_decl e p n = Some (DStruct fs).

  Notation LF := (rleaves e (S F) fs).
  Notation HP := (rhops e (S F) fs).

  Lemma top_sub f : In f fs -> sf_emb f = true -> Sub e LF HP [type_name (sf_ty f)] F (sf_ty f).
  Proof.
    intros I Em. rewrite (emb_wf_lookup e p n fs f Ewf Lk I Em). unfold Sub, sub_leaves, sub_hops.
    split; [|split].
    - intros l Hl. destruct (emb_decl e (sf_ty f)) as [[[[ptr' p'] n'] gs']|] eqn:Dg; [|contradiction].
      exists (rl_under (sf_name f) ptr' l). split; [|split; reflexivity].
      rewrite rleaves_S. apply in_flat_map. exists f. split; auto. rewrite leaves_of_field_eq, Em, Dg.
      apply in_map. auto.
    - intros h Hh. destruct (emb_decl e (sf_ty f)) as [[[[ptr' p'] n'] gs']|] eqn:Dg; [|contradiction].
      rewrite rhops_S. apply in_flat_map. exists f. split; auto. rewrite hops_of_field_eq, Em, Dg.
      apply in_or_app. right. apply in_map_iff. exists h. auto.
    - intros p' n' gs' Dg.
      rewrite rhops_S. apply in_flat_map. exists f. split; auto. rewrite hops_of_field_eq, Em, Dg.
      simpl. left. auto.
  Qed.

  Theorem parse_rel wt ps :
    parse_fields e F p n wt = Some ps ->
    (forall x, In x (p_ptr ps) -> In x HP)
    /\ Forall (fld_ok LF) (p_fields ps)
    /\ (forall l q, In l LF -> In q (rl_hops l) -> pm_has (p_ptr ps) q = true).
  Proof.
    unfold parse_fields. rewrite Lk. intros H. inversion H; subst ps; clear H. rewrite extract_top_eq.
    assert (SOUND : forall gs acc, (forall g, In g gs -> In g fs) -> acc_ok LF HP (fst acc) ->
                      acc_ok LF HP (fst (fold_left (top_step F wt) gs acc))).
    { induction gs as [|g gs IH]; intros acc G A; simpl; auto.
      apply IH. { intros; apply G; right; auto. }
      rewrite top_step_pf. destruct (sf_emb g) eqn:Em.
      - apply expand_sound; auto. apply top_sub; auto. apply G; left; auto.
      - destruct (String.eqb (sf_tag g) "-"); auto. destruct A as (A1 & A2). split; auto. cbn [snd fst].
        apply aor_fld; auto. split; [|split; reflexivity].
        exists {| rl_path := [sf_name g]; rl_ty := sf_ty g; rl_hops := [] |}. split; [|split; reflexivity].
        rewrite rleaves_S. apply in_flat_map. exists g. split; [apply G; left; auto|].
        rewrite leaves_of_field_eq, Em. left. auto. }
    assert (COMPL : forall l q, In l LF -> In q (rl_hops l) ->
                      pm_has (fst (fst (fold_left (top_step F wt) fs ([], [], [])))) q = true).
    { intros l q I Hq. rewrite rleaves_S in I. apply in_flat_map in I. destruct I as (g & G & I).
      pose proof G as G0. apply in_split in G. destruct G as (g1 & g2 & E). rewrite E at 1.
      rewrite fold_left_app. simpl. apply top_mono. rewrite top_step_pf.
      rewrite leaves_of_field_eq in I. destruct (sf_emb g) eqn:Em.
      - rewrite (emb_wf_lookup e p n fs g Ewf Lk G0 Em).
        destruct (emb_decl e (sf_ty g)) as [[[[ptr' p'] n'] gs']|] eqn:Dg; [|contradiction].
        apply in_map_iff in I. destruct I as (l' & <- & I'). simpl in Hq.
        match goal with |- context [expand_if_struct e F ?pre' ?d' ?t' ?a'] =>
          destruct (expand_complete e Ewf F pre' d' t' a' l') as (C1 & C2) end.
        { unfold sub_leaves. rewrite Dg. exact I'. }
        apply in_app_or in Hq. destruct Hq as [Hq|Hq].
        + destruct ptr'; [|contradiction]. destruct Hq as [<-|[]]. eapply C1; eauto.
        + apply in_map_iff in Hq. destruct Hq as (q' & <- & Hq'). apply (C2 q' Hq').
      - destruct I as [<-|[]]. contradiction. }
    specialize (SOUND fs ([], [], []) (fun g H => H)).
    destruct (fold_left (top_step F wt) fs ([], [], [])) as [[pm fl] tm]. simpl in *.
    destruct SOUND as (S1 & S2). { split; [intros x []|constructor]. }
    split; auto.
  Qed.
End Top.

(* ------------------------------------------------ the tag map of a parsed source type *)
Definition tag_entry (wt : bool) (f : sfield) : list (string * string) :=
  if negb (sf_emb f) && negb (String.eqb (sf_tag f) "-") && negb (String.eqb (sf_tag f) "") && wt
  then [(to_pascal_case (sf_name f), to_pascal_case (sf_tag f))] else [].

Lemma top_step_tags e fuel wt acc f : forall x,
  In x (snd (top_step e fuel wt acc f)) <-> In x (snd acc) \/ In x (tag_entry wt f).
Proof.
  intros x. destruct acc as [[pm fl] tm]. unfold top_step, tag_entry. destruct (sf_emb f); simpl.
  - destruct (expand_if_struct e fuel [type_name (sf_ty f)] 1 (sf_ty f) (pm, fl)). simpl. tauto.
  - destruct (String.eqb (sf_tag f) "-"); simpl; [tauto|].
    destruct (negb (String.eqb (sf_tag f) "") && wt); simpl; tauto.
Qed.

Lemma fold_top_tags e fuel wt : forall fs acc x,
  In x (snd (fold_left (top_step e fuel wt) fs acc)) <-> In x (snd acc) \/ exists f, In f fs /\ In x (tag_entry wt f).
Proof.
  induction fs as [|f fs IH]; intros acc x; simpl.
  - split; auto. intros [H|(f & [] & _)]; auto.
  - rewrite IH, top_step_tags. split.
    + intros [[H|H]|(g & G & H)]; auto; right; eauto.
    + intros [H|(g & [<-|G] & H)]; auto. right. eauto.
Qed.

Lemma tm_get_unique (l : tagmap) k v : In (k, v) l -> (forall v', In (k, v') l -> v' = v) -> tm_get l k = Some v.
Proof.
  induction l as [|[a b] l IH]; intros I U; [contradiction|]. simpl.
  destruct (String.eqb_spec a k) as [->|N].
  - f_equal. apply U. left; auto.
  - destruct I as [E|I]; [inversion E; congruence|]. apply IH; auto. intros v' I'. apply U. right; auto.
Qed.

(* a top-level source field with a tag is found in the tag map under its own name when the
   name is its own Pascal form (no `_`) and no other tagged field has that Pascal form *)
Theorem parsed_tag e fuel n fs ps f :
  lookup_decl e PSrc n = Some (DStruct fs) -> parse_fields e fuel PSrc n true = Some ps ->
  In f fs -> sf_emb f = false -> sf_tag f <> "" -> sf_tag f <> "-" ->
  to_pascal_case (sf_name f) = sf_name f ->
  (forall g, In g fs -> sf_emb g = false -> sf_tag g <> "" -> sf_tag g <> "-" ->
             to_pascal_case (sf_name g) = sf_name f -> sf_tag g = sf_tag f) ->
  tm_get (p_tags ps) (sf_name f) = Some (to_pascal_case (sf_tag f)).
Proof.
  intros L P I Em T1 T2 Pn U. unfold parse_fields in P. rewrite L in P. inversion P; subst ps; clear P.
  rewrite extract_top_eq.
  pose proof (fold_top_tags e fuel true fs ([], [], [])) as FT.
  destruct (fold_left (top_step e fuel true) fs ([], [], [])) as [[pm fl] tm]. simpl in *.
  apply tm_get_unique.
  - apply FT. right. exists f. split; auto. unfold tag_entry. rewrite Em. simpl.
    destruct (String.eqb_spec (sf_tag f) "-"); [congruence|]. destruct (String.eqb_spec (sf_tag f) ""); [congruence|].
    simpl. left. rewrite Pn. reflexivity.
  - intros v' Iv. apply FT in Iv. destruct Iv as [[]|(g & G & Iv)]. unfold tag_entry in Iv.
    destruct (sf_emb g) eqn:Eg; simpl in Iv; [contradiction|].
    destruct (String.eqb_spec (sf_tag g) "-"); simpl in Iv; [contradiction|].
    destruct (String.eqb_spec (sf_tag g) ""); simpl in Iv; [contradiction|].
    destruct Iv as [E|[]]. inversion E. rewrite (U g G Eg); auto.
Qed.
