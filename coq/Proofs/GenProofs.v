(* C08: state non-interference of the four generators, the Generate loop is a function of the views only,
   the package view with an overlay is the view of a directory holding those files, MergeSources is
   concatenation / union under the first header. *)
From Coq Require Import List String Ascii Bool Arith Lia Permutation.
From Shoot Require Import Model.Gen Proofs.GenBaseProofs.
Import ListNotations.
Local Open Scope string_scope.

(* ---------------------------------------------------------------- per-generator state non-interference *)
(* Whatever the generator object holds from earlier types (or from anything else), MakeData computes the same
   template data, the same stale flag and leaves the same state behind. *)
Lemma new_make_state_indep : forall c st1 st2 v T, new_make c st1 v T = new_make c st2 v T.
Proof. intros. reflexivity. Qed.

Lemma enum_make_state_indep : forall c st1 st2 v T, enum_make c st1 v T = enum_make c st2 v T.
Proof. intros. reflexivity. Qed.

Lemma rest_make_state_indep : forall o c st1 st2 v T, rest_make o c st1 v T = rest_make o c st2 v T.
Proof. intros. reflexivity. Qed.

(* two MakeData results that cannot be told apart by the rest of the run *)
Definition same_out {D S : Type} (render : S -> D -> afile) (a b : mres D S) : Prop :=
  match a, b with
  | MOk d1 s1 st1, MOk d2 s2 st2 => d1 = d2 /\ s1 = s2 /\ render st1 d1 = render st2 d2
  | MSkip _, MSkip _ => True
  | MFatal, MFatal => True
  | _, _ => False
  end.

Lemma same_out_refl : forall {D S} (render : S -> D -> afile) (a : mres D S), same_out render a a.
Proof. intros D S render [d s st| st |]; cbn; auto. Qed.

(* the mapper leaves old values in the components it did not reach when it skips a type (no destination type
   under -type=* / -file=); they are overwritten before they are read *)
Lemma map_make_state_indep : forall o c dp dv st1 st2 v T,
  same_out map_render (map_make o c dp dv st1 v T) (map_make o c dp dv st2 v T).
Proof.
  intros. unfold map_make, map_make_gen.
  cbn [all_resets rs_mfuncs rs_mtags rs_mfields rs_mctor rs_mmeth rs_msets rs_mmaps].
  destruct (mparse_fields v "" T true []) as [[[[e u] tg] sp]|]; [|exact I].
  destruct (mparse_fields dv (dp ++ ".") T false []) as [[[[de du] dtg] dsp]|].
  - apply same_out_refl.
  - destruct (specified c); exact I.
Qed.

(* ---------------------------------------------------------------- the Generate loop *)
Section LoopProofs.
  Context {St Data : Type}.
  Variable make : St -> pview -> string -> mres Data St.
  Variable render : St -> Data -> afile.
  Hypothesis Hmake : forall st1 st2 v T, same_out render (make st1 v T) (make st2 v T).
  Variable list_types : view -> list string.
  Variable c : cmd.
  Variable o : oracle.
  Variable hw : list hfile.
  Variable disk : gfiles.

  Definition drop_state (r : option (gfiles * list afile * gfiles * St)) : option (gfiles * list afile * gfiles) :=
    match r with Some (a, _) => Some a | None => None end.

  (* whatever the generator object holds when the loop reaches a type, the rest of the loop produces the same *)
  Lemma gen_loop_state_indep : forall types fmap st1 st2 ov sm sl,
    drop_state (gen_loop make render c hw disk types fmap st1 ov sm sl) =
    drop_state (gen_loop make render c hw disk types fmap st2 ov sm sl).
  Proof.
    induction types as [|T rest IH]; intros; cbn [gen_loop]; auto.
    pose proof (Hmake st1 st2 (pview_of (mk_view hw disk ov)) T) as H.
    destruct (make st1 (pview_of (mk_view hw disk ov)) T) as [d1 s1 st1'|st1'|];
      destruct (make st2 (pview_of (mk_view hw disk ov)) T) as [d2 s2 st2'|st2'|]; cbn in H; try contradiction; auto.
    destruct H as [-> [-> Hr]]. rewrite Hr.
    destruct (separate c); [destruct (ahas _ sm); [reflexivity|]|]; apply IH.
  Qed.

  (* the loop written without any generator state: every type is analysed by a generator in state [st0] *)
  Fixpoint pure_loop (st0 : St) (types : list string) (fmap : list (string * string)) (ov sm : gfiles) (sl : list afile)
    : option (gfiles * list afile * gfiles) :=
    match types with
    | [] => Some (sm, sl, ov)
    | T :: rest =>
        let v := mk_view hw disk ov in
        match make st0 (pview_of v) T with
        | MFatal => None
        | MSkip _ => pure_loop st0 rest fmap ov sm sl
        | MOk d stale st' =>
            let src := render st' d in
            let fname := file_name c (all_in_one_file c v) fmap T in
            let ov' := if stale && match rest with [] => false | _ => true end then upsert fname src ov else ov in
            if separate c then
              if ahas fname sm then None else pure_loop st0 rest fmap ov' (upsert fname src sm) sl
            else pure_loop st0 rest fmap ov' sm (sl ++ [src])
        end
    end.

  Lemma gen_loop_pure : forall st0 types fmap st ov sm sl,
    drop_state (gen_loop make render c hw disk types fmap st ov sm sl) = pure_loop st0 types fmap ov sm sl.
  Proof.
    induction types as [|T rest IH]; intros; cbn [gen_loop pure_loop]; auto.
    pose proof (Hmake st st0 (pview_of (mk_view hw disk ov)) T) as H.
    destruct (make st (pview_of (mk_view hw disk ov)) T) as [d1 s1 st1'|st1'|];
      destruct (make st0 (pview_of (mk_view hw disk ov)) T) as [d2 s2 st2'|st2'|]; cbn in H; try contradiction; auto.
    destruct H as [-> [-> Hr]]. rewrite Hr.
    destruct (separate c); [destruct (ahas _ sm); [reflexivity|]|]; apply IH.
  Qed.

  (* Generate does not depend on the state the generator object starts in *)
  Lemma generate_state_indep : forall st1 st2,
    generate make render list_types c o hw disk st1 = generate make render list_types c o hw disk st2.
  Proof.
    intros. unfold generate.
    destruct (confirm_types list_types c o (mk_view hw disk [])) as [[types fmap]|]; auto.
    pose proof (gen_loop_state_indep types fmap st1 st2 [] [] []) as H.
    destruct (gen_loop make render c hw disk types fmap st1 [] [] []) as [[[[sm1 sl1] ov1] s1]|];
      destruct (gen_loop make render c hw disk types fmap st2 [] [] []) as [[[[sm2 sl2] ov2] s2]|]; cbn in H; try discriminate; auto.
    injection H as -> -> ->. reflexivity.
  Qed.
End LoopProofs.

(* ---------------------------------------------------------------- views *)
Definition is_hand (f : vfile) : bool := match snd f with FHand _ => true | FGen _ => false end.

Lemma hand_decls_filter : forall v, hand_decls v = hand_decls (filter is_hand v).
Proof.
  unfold hand_decls. induction v as [|[n fc] v IH]; [reflexivity|].
  destruct fc as [h|a]; simpl; rewrite IH; reflexivity.
Qed.

Lemma gen_decls_filter : forall v, gen_decls v = gen_decls (filter (fun f => negb (is_hand f)) v).
Proof.
  unfold gen_decls. induction v as [|[n fc] v IH]; [reflexivity|].
  destruct fc as [h|a]; simpl; rewrite IH; reflexivity.
Qed.

Lemma filter_hand_app : forall (hw : list hfile) (g : gfiles),
  filter is_hand (map (fun h => (h_name h, FHand h)) hw ++ map (fun e => (fst e, FGen (snd e))) g) =
  map (fun h => (h_name h, FHand h)) hw.
Proof.
  intros. rewrite filter_app.
  assert (H1 : forall l : list hfile, filter is_hand (map (fun h => (h_name h, FHand h)) l) = map (fun h => (h_name h, FHand h)) l)
    by (induction l as [|x l IHl]; simpl; [reflexivity | rewrite IHl; reflexivity]).
  assert (H2 : forall l : gfiles, filter is_hand (map (fun e => (fst e, FGen (snd e))) l) = [])
    by (induction l as [|x l IHl]; simpl; auto).
  rewrite H1, H2, app_nil_r. reflexivity.
Qed.

Lemma filter_gen_app : forall (hw : list hfile) (g : gfiles),
  filter (fun f => negb (is_hand f)) (map (fun h => (h_name h, FHand h)) hw ++ map (fun e => (fst e, FGen (snd e))) g) =
  map (fun e => (fst e, FGen (snd e))) g.
Proof.
  intros. rewrite filter_app.
  assert (H1 : forall l : list hfile, filter (fun f => negb (is_hand f)) (map (fun h => (h_name h, FHand h)) l) = [])
    by (induction l as [|x l IHl]; simpl; auto).
  assert (H2 : forall l : gfiles, filter (fun f => negb (is_hand f)) (map (fun e => (fst e, FGen (snd e))) l) = map (fun e => (fst e, FGen (snd e))) l)
    by (induction l as [|x l IHl]; simpl; [reflexivity | rewrite IHl; reflexivity]).
  rewrite H1, H2. reflexivity.
Qed.

(* the hand-written part of the loaded package does not depend on what generated files exist *)
Lemma hand_decls_mk_view : forall hw disk ov, hand_decls (mk_view hw disk ov) = hand_decls (mk_view hw [] []).
Proof.
  intros. rewrite (hand_decls_filter (mk_view hw disk ov)), (hand_decls_filter (mk_view hw [] [])).
  unfold mk_view. rewrite !sort_by_key_filter, !filter_hand_app. reflexivity.
Qed.

(* ... and the generated part only on the generated files *)
Lemma gen_decls_mk_view : forall hw disk ov, gen_decls (mk_view hw disk ov) = gen_decls (mk_view [] (overlay_apply disk ov) []).
Proof.
  intros. rewrite (gen_decls_filter (mk_view hw disk ov)), (gen_decls_filter (mk_view [] _ [])).
  unfold mk_view. rewrite !sort_by_key_filter, !filter_gen_app. reflexivity.
Qed.

(* overlay = on-disk view: loading with an overlay is loading a directory that holds the overlay files *)
Lemma view_overlay_is_disk : forall hw disk ov, mk_view hw disk ov = mk_view hw (overlay_apply disk ov) [].
Proof. reflexivity. Qed.

Lemma all_in_one_file_filter : forall c v, all_in_one_file c v = all_in_one_file c (filter is_hand v).
Proof.
  intros. unfold all_in_one_file. destruct ((c_file c =? "") && c_star c); auto.
  induction v as [|[n fc] v IH]; [reflexivity|]. destruct fc as [h|a]; simpl.
  - destruct (existsb (ends_with (c_line c)) (h_gen h)); auto.
  - exact IH.
Qed.

Lemma all_in_one_file_mk_view : forall c hw disk ov,
  all_in_one_file c (mk_view hw disk ov) = all_in_one_file c (mk_view hw [] []).
Proof.
  intros. rewrite (all_in_one_file_filter c (mk_view hw disk ov)), (all_in_one_file_filter c (mk_view hw [] [])).
  unfold mk_view. rewrite !sort_by_key_filter, !filter_hand_app. reflexivity.
Qed.

(* ---------------------------------------------------------------- MergeSources *)
Lemma merge_decls : forall fs m, merge fs = Some m -> a_decls m = flat_map a_decls fs.
Proof. intros [|f fs] m H; inversion H; reflexivity. Qed.

Lemma merge_imports : forall fs m, merge fs = Some m -> a_imports m = dedup (flat_map a_imports fs).
Proof. intros [|f fs] m H; inversion H; reflexivity. Qed.

Lemma merge_header : forall f fs m, merge (f :: fs) = Some m -> a_cmd m = a_cmd f.
Proof. intros f fs m H; inversion H; reflexivity. Qed.

Lemma merge_none : forall fs, merge fs = None <-> fs = [].
Proof. intros [|f fs]; cbn; split; intros; congruence. Qed.

(* free-floating comments appear only after a declaration that ends with a comment and before one without doc *)
Definition stray_free (ds : list adecl) : Prop :=
  forall d, In d ds -> d_tail d = true -> forall d', In d' ds -> d_doc d' = true.

Lemma strays_nil : forall ds, (forall d, In d ds -> d_tail d = false \/ forall d', In d' ds -> d_doc d' = true) -> strays ds = [].
Proof.
  induction ds as [|d1 ds IH]; intros H; cbn; auto.
  destruct ds as [|d2 r]; auto.
  rewrite IH.
  - destruct (H d1 (or_introl eq_refl)) as [Ht|Hd].
    + rewrite Ht. reflexivity.
    + rewrite (Hd d2) by (right; left; auto). rewrite andb_false_r. reflexivity.
  - intros d Hin. destruct (H d (or_intror Hin)) as [Ht|Hd]; auto.
    right. intros d' Hd'. apply Hd. right. auto.
Qed.

Lemma dedup_in : forall x l, In x (dedup l) <-> In x l.
Proof.
  induction l as [|y l IH]; cbn; [tauto|].
  rewrite filter_In, IH. split.
  - intros [->|[H _]]; auto.
  - intros [->|H]; auto. destruct (String.eqb_spec x y) as [e|ne]; [left; auto|]. right. split; [exact H|]. reflexivity.
Qed.

(* the import set of the merged file is the union of the import sets *)
Lemma merge_imports_union : forall fs m x, merge fs = Some m -> (In x (a_imports m) <-> exists f, In f fs /\ In x (a_imports f)).
Proof.
  intros fs m x H. rewrite (merge_imports _ _ H), dedup_in, in_flat_map. tauto.
Qed.

(* ---------------------------------------------------------------- generators that do not look at generated files *)
(* ... as long as the hand-written part of the package is H *)
Definition blind_at {St Data : Type} (H : list (string * hfile * hdecl)) (make : St -> pview -> string -> mres Data St) : Prop :=
  forall st v v' T, pv_hand v = H -> pv_hand v' = H -> make st v T = make st v' T.
Definition blind {St Data : Type} (make : St -> pview -> string -> mres Data St) : Prop := forall H, blind_at H make.
Definition hand_of (hw : list hfile) := hand_decls (mk_view hw [] []).

Lemma enum_blind : forall c, blind (enum_make c).
Proof. intros c H0 st v v' T H H'. unfold enum_make, enum_values. rewrite H, H'. reflexivity. Qed.

Lemma find_struct_hand : forall v v' T, pv_hand v = pv_hand v' -> find_struct v T = find_struct v' T.
Proof. intros v v' T H. unfold find_struct. rewrite H. reflexivity. Qed.

Lemma rest_param_hand : forall v v' h vb pp p acc, pv_hand v = pv_hand v' ->
  rest_param v h vb pp p acc = rest_param v' h vb pp p acc.
Proof.
  intros v v' h vb pp p acc H. unfold rest_param.
  destruct acc as [[[[[q ptr] al] body] dict] ctx]. destruct (rp_kind p); try reflexivity.
  rewrite (find_struct_hand v v' tname H). reflexivity.
Qed.

Lemma fold_left_ext : forall {A B} (f g : A -> B -> A) l a, (forall a x, f a x = g a x) -> fold_left f l a = fold_left g l a.
Proof. induction l as [|x l IH]; intros a H; cbn; auto. rewrite H. apply IH. exact H. Qed.

Lemma rest_method_hand : forall o v v' h m, pv_hand v = pv_hand v' -> rest_method o v h m = rest_method o v' h m.
Proof.
  intros o v v' h m H. unfold rest_method.
  match goal with |- context [fold_left ?f (rm_params m) ?a] =>
    match goal with |- context [fold_left ?g (rm_params m) a] =>
      tryif constr_eq f g then fail else (assert (E : fold_left f (rm_params m) a = fold_left g (rm_params m) a))
    end
  end.
  { apply fold_left_ext. intros a p. destruct a as [acc|]; auto. apply rest_param_hand. exact H. }
  rewrite E. reflexivity.
Qed.

Lemma rest_blind : forall o c, blind (rest_make o c).
Proof.
  intros o c H0 st v v' T H H'. unfold rest_make, find_iface_decl. rewrite H, H'.
  match goal with |- match ?x with _ => _ end = _ => destruct x as [[[fn h] r]|] end; auto.
  assert (E : forall acc,
    fold_left (fun a m => match a with
                          | None => None
                          | Some ms => if rm_hasdoc m then match rest_method o v h m with Some x => Some (ms ++ [x])%list | None => None end else Some ms
                          end) (ri_methods r) acc =
    fold_left (fun a m => match a with
                          | None => None
                          | Some ms => if rm_hasdoc m then match rest_method o v' h m with Some x => Some (ms ++ [x])%list | None => None end else Some ms
                          end) (ri_methods r) acc).
  { intros acc. apply fold_left_ext. intros a m. destruct a; auto.
    rewrite (rest_method_hand o v v' h m) by congruence. reflexivity. }
  rewrite E. reflexivity.
Qed.

Section Blind.
  Context {St Data : Type}.
  Variable make : St -> pview -> string -> mres Data St.
  Variable render : St -> Data -> afile.
  Variable hw : list hfile.
  Hypothesis Hblind : blind_at (hand_of hw) make.
  Variable c : cmd.
  Variable st0 : St.

  (* what a fresh generator makes of T on the tree without any generated file *)
  Definition alone (T : string) : mres Data St := make st0 (pview_of (mk_view hw [] [])) T.
  Definition out_name (fmap : list (string * string)) (T : string) : string :=
    file_name c (all_in_one_file c (mk_view hw [] [])) fmap T.

  (* (file name, source) of every type that generates, in order; None if one of them is fatal *)
  Fixpoint sources (fmap : list (string * string)) (types : list string) : option gfiles :=
    match types with
    | [] => Some []
    | T :: r =>
        match alone T with
        | MFatal => None
        | MSkip _ => sources fmap r
        | MOk d _ st' => match sources fmap r with Some l => Some ((out_name fmap T, render st' d) :: l) | None => None end
        end
    end.

  (* the source map of a separate-files run: a second type mapping to an already used file name is fatal *)
  Fixpoint fold_strict (l : gfiles) (sm : gfiles) : option gfiles :=
    match l with
    | [] => Some sm
    | e :: r => if ahas (fst e) sm then None else fold_strict r (upsert (fst e) (snd e) sm)
    end.

  Definition drop_ov (r : option (gfiles * list afile * gfiles)) : option (gfiles * list afile) :=
    match r with Some (a, _) => Some a | None => None end.

  Lemma fold_ups_cons : forall (l : gfiles) e m, fold_left ups (e :: l) m = fold_left ups l (upsert (fst e) (snd e) m).
  Proof. reflexivity. Qed.

  Lemma pure_loop_blind : forall disk types fmap ov sm sl,
    drop_ov (pure_loop make render c hw disk st0 types fmap ov sm sl) =
    match sources fmap types with
    | None => None
    | Some l => if separate c then match fold_strict l sm with Some sm' => Some (sm', sl) | None => None end
                else Some (sm, (sl ++ map snd l)%list)
    end.
  Proof.
    induction types as [|T r IH]; intros fmap ov sm sl.
    - cbn. destruct (separate c); cbn; rewrite ?app_nil_r; reflexivity.
    - cbn [pure_loop sources].
      assert (E : make st0 (pview_of (mk_view hw disk ov)) T = alone T).
      { unfold alone. apply Hblind; cbn; [apply hand_decls_mk_view | reflexivity]. }
      rewrite E. rewrite (all_in_one_file_mk_view c hw disk ov).
      destruct (alone T) as [d s st'|st'|]; auto.
      fold (out_name fmap T).
      destruct (separate c) eqn:Es.
      + destruct (ahas (out_name fmap T) sm) eqn:Ea.
        * destruct (sources fmap r); auto. cbn [fold_strict fst]. rewrite Ea. reflexivity.
        * rewrite IH. destruct (sources fmap r); auto. cbn [fold_strict fst snd]. rewrite Ea. reflexivity.
      + rewrite IH. destruct (sources fmap r); auto. cbn. rewrite <- app_assoc. reflexivity.
  Qed.
End Blind.

(* ---------------------------------------------------------------- consequences for blind generators *)
Definition body (f : afile) : list string * list adecl * list string := (a_imports f, a_decls f, a_stray f).

Section BlindRun.
  Context {St Data : Type}.
  Variable make : St -> pview -> string -> mres Data St.
  Variable render : St -> Data -> afile.
  Hypothesis Hmake : forall st1 st2 v T, same_out render (make st1 v T) (make st2 v T).
  Variable hw : list hfile.
  Hypothesis Hblind : blind_at (hand_of hw) make.
  Variable list_types : view -> list string.
  Variable c : cmd.
  Variable o : oracle.
  Variable st0 : St.

  (* Generate of a blind generator, in closed form *)
  Lemma generate_blind : forall disk st,
    generate make render list_types c o hw disk st =
    match confirm_types list_types c o (mk_view hw disk []) with
    | None => None
    | Some (types, fmap) =>
        match sources make render hw c st0 fmap types with
        | None => None
        | Some l =>
            if separate c then fold_strict l []
            else match merge (map snd l) with
                 | None => Some []
                 | Some m => Some [(out_name hw c fmap "", m)]
                 end
        end
    end.
  Proof.
    intros. unfold generate.
    destruct (confirm_types list_types c o (mk_view hw disk [])) as [[types fmap]|]; auto.
    pose proof (gen_loop_pure make render Hmake c hw disk st0 types fmap st [] [] []) as Hp.
    pose proof (pure_loop_blind make render hw Hblind c st0 disk types fmap [] [] []) as Hb.
    destruct (gen_loop make render c hw disk types fmap st [] [] []) as [[[[sm sl] ov] s]|]; cbn in Hp.
    - rewrite <- Hp in Hb. cbn in Hb.
      destruct (sources make render hw c st0 fmap types) as [l|]; [|discriminate].
      destruct (separate c).
      + destruct (fold_strict l []) as [sm'|]; [|discriminate]. injection Hb as -> ->. cbn. reflexivity.
      + injection Hb as -> ->. cbn [app]. destruct (merge (map snd l)); auto.
        rewrite all_in_one_file_mk_view. reflexivity.
    - rewrite <- Hp in Hb. cbn in Hb. destruct (sources make render hw c st0 fmap types) as [l|]; auto.
      destruct (separate c); [|discriminate]. destruct (fold_strict l []); [discriminate | reflexivity].
  Qed.

End BlindRun.

(* with -file= / -type=* the type list does not depend on the generated files either, so the whole run of a blind
   generator is a function of the hand-written files and the command line: neither what earlier runs left in the
   directory, nor the state of the generator object, nor the iteration order of any map matters *)
Lemma hand_decls_filter_name : forall q hw disk,
  hand_decls (filter (fun f : vfile => q (fst f)) (mk_view hw disk [])) =
  hand_decls (filter (fun f : vfile => q (fst f)) (mk_view hw [] [])).
Proof.
  intros.
  rewrite (hand_decls_filter (filter _ (mk_view hw disk []))), (hand_decls_filter (filter _ (mk_view hw [] []))).
  assert (E : forall v : view, filter is_hand (filter (fun f : vfile => q (fst f)) v) =
                               filter (fun f : vfile => q (fst f)) (filter is_hand v)).
  { induction v as [|x v IH]; simpl; auto. destruct (q (fst x)) eqn:Q; destruct (is_hand x) eqn:Hh; simpl; rewrite ?Q, ?Hh, IH; auto. }
  rewrite !E. unfold mk_view. rewrite !sort_by_key_filter, !filter_hand_app. reflexivity.
Qed.

(* no generated file in the directory declares a type the subcommand would select (enum, rest: never the case) *)
Definition no_eligible_gen (sc : subcmd) (disk : gfiles) : Prop := forall e, In e disk -> eligible_gen sc (snd e) = [].

Lemma eligible_gen_enum_rest : forall sc a, sc = CEnum \/ sc = CRest -> eligible_gen sc a = [].
Proof.
  intros sc a H. unfold eligible_gen. induction (a_decls a) as [|d l IH]; [reflexivity|].
  cbn. rewrite IH. destruct H as [-> | ->]; destruct (d_kind d); reflexivity.
Qed.

Lemma list_types_of_filter_hand : forall sc (v : view),
  (forall n a, In (n, FGen a) v -> eligible_gen sc a = []) ->
  list_types_of sc v = list_types_of sc (filter is_hand v).
Proof.
  intros sc. unfold list_types_of. induction v as [|[n fc] v IH]; intros H; [reflexivity|].
  destruct fc as [h|a]; simpl.
  - rewrite IH; [reflexivity|]. intros n' a' Hin. eapply H. right. exact Hin.
  - rewrite (H n a) by (left; reflexivity). simpl. apply IH. intros n' a' Hin. eapply H. right. exact Hin.
Qed.

Lemma in_mk_view_gen : forall hw disk n a, In (n, FGen a) (mk_view hw disk []) -> In (n, a) disk.
Proof.
  intros hw disk n a H. unfold mk_view in H.
  assert (Hp : Permutation (sort_by_key fst (map (fun h : hfile => (h_name h, FHand h)) hw ++ map (fun e : string * afile => (fst e, FGen (snd e))) (overlay_apply disk [])))
                           (map (fun h : hfile => (h_name h, FHand h)) hw ++ map (fun e : string * afile => (fst e, FGen (snd e))) (overlay_apply disk []))).
  { unfold sort_by_key. apply isort_perm. }
  apply (Permutation_in _ Hp) in H. apply in_app_or in H. destruct H as [H|H].
  - apply in_map_iff in H. destruct H as [h [E _]]. discriminate.
  - apply in_map_iff in H. destruct H as [[k v] [E Hin]]. cbn in E. injection E as -> ->. exact Hin.
Qed.

Lemma list_types_of_disk : forall sc c hw disk,
  no_eligible_gen sc disk ->
  list_types_of sc (filter (fun f => (c_file c =? "") || (fst f =? c_file c)) (mk_view hw disk [])) =
  list_types_of sc (filter (fun f => (c_file c =? "") || (fst f =? c_file c)) (mk_view hw [] [])).
Proof.
  intros sc c hw disk Hne.
  rewrite (list_types_of_filter_hand sc (filter _ (mk_view hw disk []))).
  - rewrite (list_types_of_filter_hand sc (filter _ (mk_view hw [] []))).
    + assert (E : forall v : view, filter is_hand (filter (fun f : string * fcontent => (c_file c =? "") || (fst f =? c_file c)) v) =
                                   filter (fun f : string * fcontent => (c_file c =? "") || (fst f =? c_file c)) (filter is_hand v)).
      { induction v as [|x v IH]; simpl; auto.
        destruct ((c_file c =? "") || (fst x =? c_file c)) eqn:Q; destruct (is_hand x) eqn:Hh; simpl; rewrite ?Q, ?Hh, IH; auto. }
      rewrite !E. unfold mk_view. rewrite !sort_by_key_filter, !filter_hand_app. reflexivity.
    + intros n a Hin. apply filter_In in Hin. destruct Hin as [Hin _]. apply in_mk_view_gen in Hin. destruct Hin.
  - intros n a Hin. apply filter_In in Hin. destruct Hin as [Hin _]. apply in_mk_view_gen in Hin.
    apply (Hne (n, a)). exact Hin.
Qed.

Lemma confirm_unspecified : forall sc c o v, specified c = false ->
  confirm_types (list_types_of sc) c o v =
  Some (list_types_of sc (filter (fun f => (c_file c =? "") || (fst f =? c_file c)) v), []).
Proof. intros. unfold confirm_types. rewrite H. reflexivity. Qed.

Section BlindHistory.
  Context {St Data : Type}.
  Variable make : St -> pview -> string -> mres Data St.
  Variable render : St -> Data -> afile.
  Hypothesis Hmake : forall st1 st2 v T, same_out render (make st1 v T) (make st2 v T).
  Variable hw : list hfile.
  Hypothesis Hblind : blind_at (hand_of hw) make.

  Lemma generate_blind_history : forall sc c, specified c = false ->
    forall o1 o2 disk1 disk2 st1 st2,
      no_eligible_gen sc disk1 -> no_eligible_gen sc disk2 ->
      generate make render (list_types_of sc) c o1 hw disk1 st1 =
      generate make render (list_types_of sc) c o2 hw disk2 st2.
  Proof.
    intros sc c Hs o1 o2 disk1 disk2 st1 st2 Hn1 Hn2.
    rewrite (generate_blind make render Hmake hw Hblind (list_types_of sc) c o1 st1 disk1 st1).
    rewrite (generate_blind make render Hmake hw Hblind (list_types_of sc) c o2 st1 disk2 st2).
    rewrite !confirm_unspecified by auto. rewrite (list_types_of_disk sc c hw disk1 Hn1), (list_types_of_disk sc c hw disk2 Hn2).
    reflexivity.
  Qed.
End BlindHistory.

(* ---------------------------------------------------------------- two runs whose generators agree on every type *)
Definition same_src {D1 S1 D2 S2 : Type} (r1 : S1 -> D1 -> afile) (r2 : S2 -> D2 -> afile) (a : mres D1 S1) (b : mres D2 S2) : Prop :=
  match a, b with
  | MOk d1 s1 st1, MOk d2 s2 st2 => s1 = s2 /\ r1 st1 d1 = r2 st2 d2
  | MSkip _, MSkip _ => True
  | MFatal, MFatal => True
  | _, _ => False
  end.

Lemma same_out_src : forall {D S} (r : S -> D -> afile) a b, same_out r a b -> same_src r r a b.
Proof. intros D S r [d1 s1 st1|st1|] [d2 s2 st2|st2|]; cbn; auto. intros [-> [-> H]]. auto. Qed.

Section LoopRel.
  Context {S1 D1 S2 D2 : Type}.
  Variable make1 : S1 -> pview -> string -> mres D1 S1.
  Variable render1 : S1 -> D1 -> afile.
  Variable make2 : S2 -> pview -> string -> mres D2 S2.
  Variable render2 : S2 -> D2 -> afile.
  Variable c : cmd.
  Variable hw : list hfile.
  Variable disk : gfiles.
  Hypothesis Hrel : forall st1 st2 ov T,
    same_src render1 render2 (make1 st1 (pview_of (mk_view hw disk ov)) T) (make2 st2 (pview_of (mk_view hw disk ov)) T).

  Definition drop1 (r : option (gfiles * list afile * gfiles * S1)) := match r with Some (a, _) => Some a | None => None end.
  Definition drop2 (r : option (gfiles * list afile * gfiles * S2)) := match r with Some (a, _) => Some a | None => None end.

  Lemma gen_loop_rel : forall types fmap st1 st2 ov sm sl,
    drop1 (gen_loop make1 render1 c hw disk types fmap st1 ov sm sl) =
    drop2 (gen_loop make2 render2 c hw disk types fmap st2 ov sm sl).
  Proof.
    induction types as [|T rest IH]; intros; cbn [gen_loop]; auto.
    pose proof (Hrel st1 st2 ov T) as H.
    destruct (make1 st1 (pview_of (mk_view hw disk ov)) T) as [d1 s1 st1'|st1'|];
      destruct (make2 st2 (pview_of (mk_view hw disk ov)) T) as [d2 s2 st2'|st2'|]; cbn in H; try contradiction; auto.
    destruct H as [-> Hr]. rewrite Hr.
    destruct (separate c); [destruct (ahas _ sm); [reflexivity|]|]; apply IH.
  Qed.

  Lemma generate_rel : forall lt o st1 st2,
    generate make1 render1 lt c o hw disk st1 = generate make2 render2 lt c o hw disk st2.
  Proof.
    intros. unfold generate.
    destruct (confirm_types lt c o (mk_view hw disk [])) as [[types fmap]|]; auto.
    pose proof (gen_loop_rel types fmap st1 st2 [] [] []) as H.
    destruct (gen_loop make1 render1 c hw disk types fmap st1 [] [] []) as [[[[sm1 sl1] ov1] s1]|];
      destruct (gen_loop make2 render2 c hw disk types fmap st2 [] [] []) as [[[[sm2 sl2] ov2] s2]|]; cbn in H; try discriminate; auto.
    injection H as -> -> ->. reflexivity.
  Qed.
End LoopRel.

(* ---------------------------------------------------------------- all-in-one = the one-at-a-time outputs, in order, under one header *)
Definition same_body {D1 S1 D2 S2 : Type} (r1 : S1 -> D1 -> afile) (r2 : S2 -> D2 -> afile) (a : mres D1 S1) (b : mres D2 S2) : Prop :=
  match a, b with
  | MOk d1 s1 st1, MOk d2 s2 st2 => s1 = s2 /\ body (r1 st1 d1) = body (r2 st2 d2)
  | MSkip _, MSkip _ => True
  | MFatal, MFatal => True
  | _, _ => False
  end.

(* the same, except that the all-in-one run may silently skip a type that an explicit -type=T refuses *)
Definition sim_body {D1 S1 D2 S2 : Type} (r1 : S1 -> D1 -> afile) (r2 : S2 -> D2 -> afile) (a : mres D1 S1) (b : mres D2 S2) : Prop :=
  match a, b with
  | MSkip _, MFatal => True
  | _, _ => same_body r1 r2 a b
  end.

Lemma body_eq : forall x y, body x = body y -> a_imports x = a_imports y /\ a_decls x = a_decls y /\ a_stray x = a_stray y.
Proof. unfold body. intros x y H. inversion H. auto. Qed.

Lemma map_body_flat : forall l1 l2, map body l1 = map body l2 ->
  flat_map a_decls l1 = flat_map a_decls l2 /\ flat_map a_imports l1 = flat_map a_imports l2 /\
  flat_map (fun f => strays (a_decls f)) l1 = flat_map (fun f => strays (a_decls f)) l2.
Proof.
  induction l1 as [|x l1 IH]; intros [|y l2] H; try discriminate; [repeat split|].
  change (body x :: map body l1 = body y :: map body l2) in H.
  pose proof (f_equal (@hd _ (body x)) H) as Hx. pose proof (f_equal (@tl _) H) as Hr. cbn [hd tl] in Hx, Hr.
  apply body_eq in Hx. destruct Hx as [Hi [Hd Hs]].
  destruct (IH l2 Hr) as [I1 [I2 I3]].
  change (flat_map a_decls (x :: l1)) with (a_decls x ++ flat_map a_decls l1)%list.
  change (flat_map a_decls (y :: l2)) with (a_decls y ++ flat_map a_decls l2)%list.
  change (flat_map a_imports (x :: l1)) with (a_imports x ++ flat_map a_imports l1)%list.
  change (flat_map a_imports (y :: l2)) with (a_imports y ++ flat_map a_imports l2)%list.
  change (flat_map (fun f => strays (a_decls f)) (x :: l1)) with (strays (a_decls x) ++ flat_map (fun f => strays (a_decls f)) l1)%list.
  change (flat_map (fun f => strays (a_decls f)) (y :: l2)) with (strays (a_decls y) ++ flat_map (fun f => strays (a_decls f)) l2)%list.
  rewrite Hi, Hd, I1, I2, I3. auto.
Qed.

(* the content of the only file a -type=T run wrote (nothing if it wrote none) *)
Definition single_file (r : option gfiles) : list afile :=
  match r with Some [(_, f)] => [f] | _ => [] end.

Section AioVsSingles.
  Context {St Data : Type}.
  Variable mk : cmd -> St -> pview -> string -> mres Data St.
  Variable render : St -> Data -> afile.
  Hypothesis Hmake : forall c st1 st2 v T, same_out render (mk c st1 v T) (mk c st2 v T).
  Variable hw : list hfile.
  Hypothesis Hblind : forall c, blind_at (hand_of hw) (mk c).
  Variable lt : view -> list string.
  Variable c : cmd.                       (* the all-in-one command *)
  Variable cT : string -> cmd.            (* the command used for T alone *)
  Hypothesis HcT_types : forall T, c_types (cT T) = [T].
  Hypothesis HcT_file : forall T, c_file (cT T) = "".
  Hypothesis Hsim : forall T st v, sim_body render render (mk c st v T) (mk (cT T) st v T).
  Variable st0 : St.

  Lemma single_run : forall T o disk st,
    generate (mk (cT T)) render lt (cT T) o hw disk st =
    match alone (mk (cT T)) hw st0 T with
    | MFatal => None
    | MSkip _ => Some []
    | MOk d _ s => Some [(out_name hw (cT T) [(T, get_go_file o (mk_view hw disk []) T)] T, render s d)]
    end.
  Proof.
    intros. rewrite (generate_blind (mk (cT T)) render (Hmake (cT T)) hw (Hblind (cT T)) lt (cT T) o st0 disk st).
    unfold confirm_types, specified, separate, specified. rewrite HcT_types. cbn [fold_left]. rewrite HcT_file. cbn [String.eqb upsert].
    cbn [sources]. destruct (alone (mk (cT T)) hw st0 T) as [d s st'|st'|]; reflexivity.
  Qed.

  (* the sources of the all-in-one run, type by type, have the bodies of the single runs *)
  Lemma sources_vs_singles : forall fmap types l,
    sources (mk c) render hw c st0 fmap types = Some l ->
    (forall T o disk st, In T types -> generate (mk (cT T)) render lt (cT T) o hw disk st = None ->
                         exists s, alone (mk c) hw st0 T = MSkip s) /\
    forall o disk st,
      map body (map snd l) =
      map body (flat_map (fun T => single_file (generate (mk (cT T)) render lt (cT T) o hw disk st)) types).
  Proof.
    induction types as [|T r IH]; intros l H.
    - cbn in H. injection H as <-. split; [intros ? ? ? ? []|reflexivity].
    - cbn [sources] in H.
      pose proof (Hsim T st0 (pview_of (mk_view hw [] []))) as Hs. unfold alone in H.
      destruct (mk c st0 (pview_of (mk_view hw [] [])) T) as [d s st'|st'|] eqn:E; [| |discriminate].
      + destruct (sources (mk c) render hw c st0 fmap r) as [l'|] eqn:E'; [|discriminate]. injection H as <-.
        destruct (IH l' eq_refl) as [IH1 IH2]. split.
        * intros T' o disk st [<-|Hin]; [|apply IH1; auto].
          rewrite single_run. unfold alone.
          destruct (mk (cT T) st0 (pview_of (mk_view hw [] [])) T); cbn in Hs; try contradiction; discriminate.
        * intros o disk st. cbn [flat_map map]. rewrite map_app, <- IH2. rewrite single_run. unfold alone.
          destruct (mk (cT T) st0 (pview_of (mk_view hw [] [])) T) as [d2 s2 st2|st2|]; cbn in Hs; try contradiction.
          destruct Hs as [_ Hb]. cbn. rewrite Hb. reflexivity.
      + destruct (IH l H) as [IH1 IH2]. split.
        * intros T' o disk st [<-|Hin]; [|apply IH1; auto].
          intros _. exists st'. unfold alone. exact E.
        * intros o disk st. cbn [flat_map]. rewrite map_app, <- IH2. rewrite single_run. unfold alone.
          destruct (mk (cT T) st0 (pview_of (mk_view hw [] [])) T) as [d2 s2 st2|st2|]; cbn in Hs; try contradiction; reflexivity.
  Qed.

  (* C08, first sentence, for a blind generator *)
  Theorem aio_is_concatenation : forall o disk st types fmap sm,
    separate c = false ->
    confirm_types lt c o (mk_view hw disk []) = Some (types, fmap) ->
    generate (mk c) render lt c o hw disk st = Some sm ->
    (forall T o' disk' st', In T types -> generate (mk (cT T)) render lt (cT T) o' hw disk' st' = None ->
                            exists s, alone (mk c) hw st0 T = MSkip s) /\
    forall o' disk' st',
      let singles := flat_map (fun T => single_file (generate (mk (cT T)) render lt (cT T) o' hw disk' st')) types in
      match sm with
      | [] => singles = []
      | [(n, m)] =>
          a_decls m = flat_map a_decls singles /\
          a_imports m = dedup (flat_map a_imports singles) /\
          a_stray m = flat_map (fun f => strays (a_decls f)) singles /\
          n = out_name hw c fmap ""
      | _ => False
      end.
  Proof.
    intros o disk st types fmap sm Hsep Hconf Hgen.
    rewrite (generate_blind (mk c) render (Hmake c) hw (Hblind c) lt c o st0 disk st) in Hgen.
    rewrite Hconf, Hsep in Hgen.
    destruct (sources (mk c) render hw c st0 fmap types) as [l|] eqn:El; [|discriminate].
    destruct (sources_vs_singles fmap types l El) as [H1 H2]. split; [exact H1|].
    intros o' disk' st' singles. specialize (H2 o' disk' st'). fold singles in H2.
    destruct (map_body_flat _ _ H2) as [Hd [Hi Hs]].
    destruct (merge (map snd l)) as [m|] eqn:Em.
    - injection Hgen as <-. rewrite (merge_decls _ _ Em), (merge_imports _ _ Em), Hd, Hi.
      repeat split; auto.
      destruct (map snd l) as [|f0 fs0]; [discriminate|]. cbn in Em. injection Em as <-. cbn [a_stray]. exact Hs.
    - injection Hgen as <-. apply merge_none in Em. rewrite Em in H2. cbn in H2.
      destruct singles; [reflexivity | discriminate].
  Qed.
End AioVsSingles.

(* ---------------------------------------------------------------- enum and rest *)
Lemma enum_same_out : forall c st1 st2 v T, same_out enum_render (enum_make c st1 v T) (enum_make c st2 v T).
Proof. intros. rewrite (enum_make_state_indep c st1 st2). apply same_out_refl. Qed.

Lemma rest_same_out : forall o c st1 st2 v T,
  same_out (fun (_ : rstate) d => rest_render d) (rest_make o c st1 v T) (rest_make o c st2 v T).
Proof. intros. rewrite (rest_make_state_indep o c st1 st2). apply same_out_refl. Qed.

Lemma new_same_out : forall c st1 st2 v T,
  same_out (fun (_ : nstate) d => new_render d) (new_make c st1 v T) (new_make c st2 v T).
Proof. intros. rewrite (new_make_state_indep c st1 st2). apply same_out_refl. Qed.

(* the command line enters the output of a type only through the header *)
Lemma enum_cmd_sim : forall c c' st v T,
  c_ejson c = c_ejson c' -> c_etext c = c_etext c' -> specified c = specified c' ->
  same_body enum_render enum_render (enum_make c st v T) (enum_make c' st v T).
Proof.
  intros c c' st v T Hj Ht Hs. unfold enum_make. destruct (enum_values v T) as [|x vals].
  - rewrite Hs. destruct (specified c'); exact I.
  - cbn. split; auto. unfold body, enum_render, mk_file. cbn. rewrite Hj, Ht. reflexivity.
Qed.

(* an all-in-one command (-file= or -type=star) against the explicit -type=T: a type without constants is skipped by the
   first and refused by the second *)
Lemma enum_cmd_sim_aio : forall c c' st v T,
  c_ejson c = c_ejson c' -> c_etext c = c_etext c' -> specified c = false ->
  sim_body enum_render enum_render (enum_make c st v T) (enum_make c' st v T).
Proof.
  intros c c' st v T Hj Ht Hs. unfold enum_make. destruct (enum_values v T) as [|x vals].
  - rewrite Hs. destruct (specified c'); exact I.
  - cbn. split; auto. unfold body, enum_render, mk_file. cbn. rewrite Hj, Ht. reflexivity.
Qed.

Lemma same_sim_body : forall {D1 S1 D2 S2} (r1 : S1 -> D1 -> afile) (r2 : S2 -> D2 -> afile) a b,
  same_body r1 r2 a b -> sim_body r1 r2 a b.
Proof. intros D1 S1 D2 S2 r1 r2 [d1 s1 st1|st1|] [d2 s2 st2|st2|]; cbn; auto. Qed.

Lemma rest_cmd_sim : forall o c c' st v T,
  same_body (fun (_ : rstate) d => rest_render d) (fun (_ : rstate) d => rest_render d) (rest_make o c st v T) (rest_make o c' st v T).
Proof.
  intros. unfold rest_make. destruct (find_iface_decl v T) as [[[fn h] r]|]; [|exact I].
  match goal with |- context [fold_left ?f (ri_methods r) (Some [])] => destruct (fold_left f (ri_methods r) (Some [])) as [ms|] end; [|exact I].
  cbn. split; auto.
Qed.

(* C08, first sentence, for enum and rest: the declarations, imports (and free comments) of the single file written
   by -file= / -type=* are those of the files that -type=T writes for the same types one at a time, in the same
   order -- whatever the directory holds when each of those runs, and whatever the map iteration orders *)
Theorem enum_aio_is_concatenation : forall c (cT : string -> cmd) hw o disk st types fmap sm,
  (forall T, c_types (cT T) = [T] /\ c_file (cT T) = "" /\ c_ejson (cT T) = c_ejson c /\ c_etext (cT T) = c_etext c) ->
  separate c = false ->
  confirm_types (list_types_of CEnum) c o (mk_view hw disk []) = Some (types, fmap) ->
  generate (enum_make c) enum_render (list_types_of CEnum) c o hw disk st = Some sm ->
  (forall T o' disk' st', In T types ->
     generate (enum_make (cT T)) enum_render (list_types_of CEnum) (cT T) o' hw disk' st' = None ->
     exists s, alone (enum_make c) hw estate0 T = MSkip s) /\
  forall o' disk' st',
    let singles := flat_map (fun T => single_file (generate (enum_make (cT T)) enum_render (list_types_of CEnum) (cT T) o' hw disk' st')) types in
    match sm with
    | [] => singles = []
    | [(n, m)] =>
        a_decls m = flat_map a_decls singles /\ a_imports m = dedup (flat_map a_imports singles) /\
        a_stray m = flat_map (fun f => strays (a_decls f)) singles /\ n = out_name hw c fmap ""
    | _ => False
    end.
Proof.
  intros c cT hw o disk st types fmap sm HcT.
  assert (H1 : forall T, c_types (cT T) = [T]) by (intros T; apply HcT).
  assert (H2 : forall T, c_file (cT T) = "") by (intros T; apply HcT).
  intros Hsep.
  assert (Hus : specified c = false) by (unfold separate in Hsep; destruct (specified c); [discriminate | reflexivity]).
  assert (H3 : forall T st' v, sim_body enum_render enum_render (enum_make c st' v T) (enum_make (cT T) st' v T)).
  { intros T st' v. destruct (HcT T) as [_ [_ [Hj Ht]]]. apply enum_cmd_sim_aio; auto. }
  revert Hsep.
  exact (aio_is_concatenation enum_make enum_render enum_same_out hw (fun c0 => enum_blind c0 _) (list_types_of CEnum) c cT H1 H2 H3 estate0
           o disk st types fmap sm).
Qed.

Theorem rest_aio_is_concatenation : forall ro c (cT : string -> cmd) hw o disk st types fmap sm,
  (forall T, c_types (cT T) = [T] /\ c_file (cT T) = "") ->
  separate c = false ->
  confirm_types (list_types_of CRest) c o (mk_view hw disk []) = Some (types, fmap) ->
  generate (rest_make ro c) (fun _ d => rest_render d) (list_types_of CRest) c o hw disk st = Some sm ->
  (forall T o' disk' st', In T types ->
     generate (rest_make ro (cT T)) (fun _ d => rest_render d) (list_types_of CRest) (cT T) o' hw disk' st' = None ->
     exists s, alone (rest_make ro c) hw rstate0 T = MSkip s) /\
  forall o' disk' st',
    let singles := flat_map (fun T => single_file (generate (rest_make ro (cT T)) (fun _ d => rest_render d) (list_types_of CRest) (cT T) o' hw disk' st')) types in
    match sm with
    | [] => singles = []
    | [(n, m)] =>
        a_decls m = flat_map a_decls singles /\ a_imports m = dedup (flat_map a_imports singles) /\
        a_stray m = flat_map (fun f => strays (a_decls f)) singles /\ n = out_name hw c fmap ""
    | _ => False
    end.
Proof.
  intros ro c cT hw o disk st types fmap sm HcT.
  assert (H1 : forall T, c_types (cT T) = [T]) by (intros T; apply HcT).
  assert (H2 : forall T, c_file (cT T) = "") by (intros T; apply HcT).
  exact (aio_is_concatenation (rest_make ro) (fun _ d => rest_render d) (rest_same_out ro) hw (fun c0 => rest_blind ro c0 _) (list_types_of CRest) c cT
           H1 H2 (fun T st' v => same_sim_body _ _ _ _ (rest_cmd_sim ro c (cT T) st' v T)) rstate0 o disk st types fmap sm).
Qed.

(* ---------------------------------------------------------------- statements as used by Properties/C08.v *)
Lemma loop_state_free :
  forall (St Data : Type) (make : St -> pview -> string -> mres Data St) (render : St -> Data -> afile),
  (forall st1 st2 v T, same_out render (make st1 v T) (make st2 v T)) ->
  forall c hw disk st0 types fmap st ov sm sl,
    drop_state (gen_loop make render c hw disk types fmap st ov sm sl) = pure_loop make render c hw disk st0 types fmap ov sm sl.
Proof. intros St Data make render H c hw disk st0. exact (gen_loop_pure make render H c hw disk st0). Qed.

Lemma view_split : forall hw disk ov,
  hand_decls (mk_view hw disk ov) = hand_decls (mk_view hw [] []) /\
  gen_decls (mk_view hw disk ov) = gen_decls (mk_view [] (overlay_apply disk ov) []).
Proof. intros. split; [apply hand_decls_mk_view | apply gen_decls_mk_view]. Qed.

Lemma merge_spec : forall f fs m, merge (f :: fs) = Some m ->
  a_cmd m = a_cmd f /\ a_decls m = flat_map a_decls (f :: fs) /\
  (forall x, In x (a_imports m) <-> exists g, In g (f :: fs) /\ In x (a_imports g)) /\
  a_stray m = flat_map (fun g => strays (a_decls g)) (f :: fs).
Proof.
  intros f fs m H. split; [eapply merge_header; eauto|]. split; [eapply merge_decls; eauto|].
  split; [intros x; eapply merge_imports_union; eauto|]. inversion H. reflexivity.
Qed.

(* the four generators started in any state *)
Lemma run_state_free_new : forall c o hw disk st,
  generate (new_make c) (fun _ d => new_render d) (list_types_of CNew) c o hw disk st =
  generate (new_make c) (fun _ d => new_render d) (list_types_of CNew) c o hw disk nstate0.
Proof. intros. apply generate_state_indep. apply new_same_out. Qed.
Lemma run_state_free_enum : forall c o hw disk st,
  generate (enum_make c) enum_render (list_types_of CEnum) c o hw disk st =
  generate (enum_make c) enum_render (list_types_of CEnum) c o hw disk estate0.
Proof. intros. apply generate_state_indep. apply enum_same_out. Qed.
Lemma run_state_free_rest : forall ro c o hw disk st,
  generate (rest_make ro c) (fun _ d => rest_render d) (list_types_of CRest) c o hw disk st =
  generate (rest_make ro c) (fun _ d => rest_render d) (list_types_of CRest) c o hw disk rstate0.
Proof. intros. apply generate_state_indep. apply rest_same_out. Qed.
Lemma run_state_free_map : forall ro c dp dv o hw disk st,
  generate (map_make ro c dp dv) map_render (list_types_of CMap) c o hw disk st =
  generate (map_make ro c dp dv) map_render (list_types_of CMap) c o hw disk mstate0.
Proof. intros. apply generate_state_indep. apply map_make_state_indep. Qed.
