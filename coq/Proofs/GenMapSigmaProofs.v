(* C07 for the mapper: check.go nilCheckWrite ranges over the pointer-type maps and sorts afterwards; the
   result does not depend on the iteration order. *)
From Coq Require Import List String Ascii Bool Arith Lia Permutation.
From Shoot Require Import Model.Gen Proofs.GenBaseProofs Proofs.GenProofs Proofs.GenSigmaProofs.
Import ListNotations.
Local Open Scope string_scope.

Definition emb_path (f : mfield) : bool := match m_path f with _ :: _ :: _ => true | _ => false end.

(* one field: every pointer path (in some order) that covers it and is not yet recorded *)
Definition ncw_step (f : mfield) (a : list (string * string) * list string) (pt : string * string) :=
  if ahas (fst pt) (fst a) then a
  else if covered_by f (fst pt) then (upsert (fst pt) (snd pt) (fst a), (snd a ++ [fst pt])%list)
  else a.
Definition ncw_inner (f : mfield) (q : list (string * string)) (a : list (string * string) * list string) :=
  fold_left (ncw_step f) q a.

Record ncw_inv (ptrs : list (string * string)) (a : list (string * string) * list string) : Prop := {
  inv_keys : snd a = keys (fst a);
  inv_nodup : NoDup (snd a);
  inv_sub : forall e, In e (fst a) -> In e ptrs
}.

Lemma upsert_new : forall {A} k (v : A) m, ~ In k (keys m) -> upsert k v m = (m ++ [(k, v)])%list.
Proof.
  induction m as [|[k' v'] m IH]; intros H; cbn; auto.
  destruct (String.eqb_spec k' k) as [->|ne]; [exfalso; apply H; left; auto|].
  rewrite IH; auto. intros Hin. apply H. right. auto.
Qed.

Lemma ahas_in : forall {A} k (m : list (string * A)), ahas k m = true <-> In k (keys m).
Proof.
  intros. unfold ahas. destruct (alookup k m) eqn:E.
  - split; auto. intros _. destruct (in_dec string_dec k (keys m)); auto. apply alookup_none in n. congruence.
  - split; [discriminate|]. intros H. apply alookup_none in E. contradiction.
Qed.

Lemma ncw_inner_spec : forall ptrs f q a,
  (forall e, In e q -> In e ptrs) -> ncw_inv ptrs a ->
  ncw_inv ptrs (ncw_inner f q a) /\
  forall k, In k (snd (ncw_inner f q a)) <-> In k (snd a) \/ (In k (keys q) /\ covered_by f k = true).
Proof.
  induction q as [|[k0 v0] q IH]; intros a Hq Ha.
  - cbn. split; [exact Ha | intros k; cbn; tauto].
  - change (ncw_inner f ((k0, v0) :: q) a) with (ncw_inner f q (ncw_step f a (k0, v0))).
    unfold ncw_step. cbn [fst snd].
    destruct Ha as [Hk Hn Hs].
    destruct (ahas k0 (fst a)) eqn:Eh.
    + destruct (IH a) as [I1 I2]; [intros e He; apply Hq; right; auto | constructor; auto|].
      split; [exact I1|]. intros k. rewrite I2. cbn. split; [tauto|].
      intros [H|[[<-|H] Hc]]; auto. left. rewrite Hk. apply ahas_in. exact Eh.
    + assert (Hnot : ~ In k0 (keys (fst a))) by (intros Hin; apply ahas_in in Hin; congruence).
      destruct (covered_by f k0) eqn:Ec.
      * destruct (IH (upsert k0 v0 (fst a), (snd a ++ [k0])%list)) as [I1 I2].
        { intros e He. apply Hq. right. auto. }
        { constructor; cbn.
          - rewrite (upsert_new k0 v0 (fst a) Hnot). unfold keys. rewrite map_app. cbn. rewrite Hk. reflexivity.
          - eapply Permutation_NoDup; [apply Permutation_cons_append|]. constructor; auto. rewrite Hk. exact Hnot.
          - intros e He. rewrite (upsert_new k0 v0 (fst a) Hnot) in He. apply in_app_or in He.
            destruct He as [He|[<-|[]]]; auto. apply Hq. left. auto. }
        split; [exact I1|]. intros k. rewrite I2. cbn. rewrite in_app_iff. cbn. split.
        -- intros [[H|[<-|[]]]|[H Hc]]; auto.
        -- intros [H|[[<-|H] Hc]]; auto.
      * destruct (IH a) as [I1 I2]; [intros e He; apply Hq; right; auto | constructor; auto|].
        split; [exact I1|]. intros k. rewrite I2. cbn. split; [tauto|].
        intros [H|[[<-|H] Hc]]; auto. congruence.
Qed.

(* the whole of nilCheckWrite before the sort *)
Definition ncw_outer (o : oracle) (fs : list mfield) (sel : mfield -> bool) (ptrs : list (string * string))
  (a : list (string * string) * list string) :=
  fold_left (fun a f => if sel f && emb_path f then ncw_inner f (o _ ptrs) a else a) fs a.

Lemma nil_check_write_unfold : forall o fs sel ptrs,
  nil_check_write o fs sel ptrs =
  (fst (ncw_outer o fs sel ptrs ([], [])), sort_strings (snd (ncw_outer o fs sel ptrs ([], [])))).
Proof.
  intros. unfold nil_check_write, ncw_outer, ncw_inner, ncw_step, emb_path.
  match goal with |- (let '(m, l) := ?x in _) = _ => destruct x as [m l] end. reflexivity.
Qed.

Lemma ncw_outer_spec : forall o ptrs sel fs a,
  legal o -> NoDup (keys ptrs) -> ncw_inv ptrs a ->
  ncw_inv ptrs (ncw_outer o fs sel ptrs a) /\
  forall k, In k (snd (ncw_outer o fs sel ptrs a)) <->
            In k (snd a) \/ (In k (keys ptrs) /\ existsb (fun f => sel f && emb_path f && covered_by f k) fs = true).
Proof.
  intros o ptrs sel fs. induction fs as [|f fs IH]; intros a Ho Hn Ha.
  - cbn. split; [exact Ha | intros k; cbn; intuition discriminate].
  - change (ncw_outer o (f :: fs) sel ptrs a) with
      (ncw_outer o fs sel ptrs (if sel f && emb_path f then ncw_inner f (o _ ptrs) a else a)).
    destruct (sel f && emb_path f) eqn:Es.
    + destruct (ncw_inner_spec ptrs f (o _ ptrs) a) as [I1 I2]; auto.
      { intros e He. eapply Permutation_in; [apply Ho | exact He]. }
      destruct (IH _ Ho Hn I1) as [J1 J2]. split; [exact J1|].
      intros k. rewrite J2, I2. cbn [existsb]. rewrite Es. cbn.
      assert (Hk : In k (keys (o _ ptrs)) <-> In k (keys ptrs)).
      { split; intros H; (eapply Permutation_in; [|exact H]); apply Permutation_map; [apply Ho | apply Permutation_sym, Ho]. }
      rewrite Hk. rewrite orb_true_iff. tauto.
    + destruct (IH _ Ho Hn Ha) as [J1 J2]. split; [exact J1|].
      intros k. rewrite J2. cbn [existsb]. rewrite Es. cbn. tauto.
Qed.

Lemma ncw_inv_nil : forall ptrs, ncw_inv ptrs ([], []).
Proof. intros. constructor; cbn; [reflexivity | constructor | intros e []]. Qed.

(* check.go nilCheckWrite: the sorted path list and the lookups of the type map do not depend on the map order *)
Theorem nil_check_write_oracle : forall o1 o2 fs sel ptrs,
  legal o1 -> legal o2 -> NoDup (keys ptrs) ->
  snd (nil_check_write o1 fs sel ptrs) = snd (nil_check_write o2 fs sel ptrs) /\
  forall k, alookup k (fst (nil_check_write o1 fs sel ptrs)) = alookup k (fst (nil_check_write o2 fs sel ptrs)).
Proof.
  intros o1 o2 fs sel ptrs H1 H2 Hn. rewrite !nil_check_write_unfold. cbn [fst snd].
  destruct (ncw_outer_spec o1 ptrs sel fs ([], []) H1 Hn (ncw_inv_nil ptrs)) as [[K1 N1 S1] M1].
  destruct (ncw_outer_spec o2 ptrs sel fs ([], []) H2 Hn (ncw_inv_nil ptrs)) as [[K2 N2 S2] M2].
  split.
  - apply sort_strings_perm. apply NoDup_Permutation; auto. intros k. rewrite M1, M2. tauto.
  - intros k.
    assert (L : forall (m : list (string * string)) l, l = keys m -> NoDup l -> (forall e, In e m -> In e ptrs) ->
                alookup k m = if in_dec string_dec k l then alookup k ptrs else None).
    { intros m l Hl Hnd Hs. destruct (in_dec string_dec k l) as [Hin|Hnin].
      - subst l. destruct (alookup k m) eqn:E.
        + apply (alookup_in k s m Hnd) in E. symmetry. apply (alookup_in k s ptrs Hn). apply Hs. exact E.
        + apply alookup_none in E. contradiction.
      - subst l. apply alookup_none. exact Hnin. }
    rewrite (L _ _ K1 N1 S1), (L _ _ K2 N2 S2).
    destruct (in_dec string_dec k (snd (ncw_outer o1 fs sel ptrs ([], []))));
      destruct (in_dec string_dec k (snd (ncw_outer o2 fs sel ptrs ([], [])))); auto.
    + exfalso. apply n. apply M2. apply M1 in i. exact i.
    + exfalso. apply n. apply M1. apply M2 in i. exact i.
Qed.

(* the pointer-type maps have distinct keys (they are Go maps) *)
Lemma mexpand_nodup : forall fuel v qual pre depth tname ptr acc,
  NoDup (keys (snd acc)) -> NoDup (keys (snd (mexpand fuel v qual pre depth tname ptr acc))).
Proof.
  induction fuel as [|fu IH]; intros v qual pre depth tname ptr acc H; cbn [mexpand]; auto.
  destruct (find_struct v tname) as [[[fn h] s]|]; auto.
  set (acc1 := if ptr then (fst acc, upsert (pkey pre) (qual ++ tname) (snd acc)) else acc).
  assert (H1 : NoDup (keys (snd acc1))) by (unfold acc1; destruct ptr; cbn; [apply upsert_nodup|]; exact H).
  clearbody acc1. revert acc1 H1. induction (ss_items s) as [|it items IHi]; intros a Ha; cbn; auto.
  apply IHi. destruct it as [f|n p dn]; cbn; [exact Ha | apply IH; exact Ha].
Qed.

Lemma mparse_fields_nodup : forall v qual T wt tags0 e u tg ptrs,
  mparse_fields v qual T wt tags0 = Some (e, u, tg, ptrs) -> NoDup (keys ptrs).
Proof.
  intros v qual T wt tags0 e u tg ptrs H. unfold mparse_fields in H.
  destruct (find_struct v T) as [[[fn h] s]|]; [|discriminate].
  match type of H with context [fold_left ?f (ss_items s) ?a] => destruct (fold_left f (ss_items s) a) as [[fs tags] ps] eqn:E end.
  injection H as _ _ _ <-.
  match type of E with fold_left ?f _ _ = _ =>
    assert (G : forall items (a : list mfield * list (string * string) * list (string * string)),
               NoDup (keys (snd a)) -> NoDup (keys (snd (fold_left f items a))))
  end.
  { induction items as [|it items IH]; intros a Ha; cbn [fold_left]; auto.
    apply IH. destruct a as [[fs0 tags1] ptrs0]. destruct it as [f|n p dn].
    - destruct (sf_maptag f =? "-"); cbn; auto.
    - pose proof (mexpand_nodup (S (List.length (pv_hand v))) v qual [n] 1 n p (fs0, ptrs0) Ha) as Hm.
      destruct (mexpand (S (List.length (pv_hand v))) v qual [n] 1 n p (fs0, ptrs0)) as [fs' ptrs']. cbn in *. exact Hm. }
  specialize (G (ss_items s) ([], tags0, [])). rewrite E in G. apply G. constructor.
Qed.

(* the template reads the two type maps only through lookups *)
Lemma map_render_ext : forall st d1 d2,
  md_cmd d1 = md_cmd d2 -> md_type d1 = md_type d2 -> md_qdest d1 = md_qdest d2 -> md_destpkg d1 = md_destpkg d2 ->
  md_toonly d1 = md_toonly d2 -> md_fromonly d1 = md_fromonly d2 ->
  md_srcctor d1 = md_srcctor d2 -> md_destctor d1 = md_destctor d2 ->
  md_srcfields d1 = md_srcfields d2 -> md_destfields d1 = md_destfields d2 ->
  md_srcptrlist d1 = md_srcptrlist d2 -> md_destptrlist d1 = md_destptrlist d2 ->
  md_srcread d1 = md_srcread d2 -> md_destread d1 = md_destread d2 ->
  (forall k, alookup k (md_srcptrmap d1) = alookup k (md_srcptrmap d2)) ->
  (forall k, alookup k (md_destptrmap d1) = alookup k (md_destptrmap d2)) ->
  map_render st d1 = map_render st d2.
Proof.
  intros st d1 d2 E1 E2 E3 E4 E5 E6 E7 E8 E9 E10 E11 E12 E13 E14 L1 L2.
  unfold map_render. rewrite E1, E2, E3, E4, E5, E6, E7, E8, E9, E10, E11, E12, E13, E14.
  assert (M1 : map (fun p => p ++ ":" ++ match alookup p (md_destptrmap d1) with Some t => t | None => "" end) (md_destptrlist d2) =
               map (fun p => p ++ ":" ++ match alookup p (md_destptrmap d2) with Some t => t | None => "" end) (md_destptrlist d2))
    by (apply map_ext; intros p; rewrite L2; reflexivity).
  assert (M2 : map (fun p => p ++ ":" ++ match alookup p (md_srcptrmap d1) with Some t => t | None => "" end) (md_srcptrlist d2) =
               map (fun p => p ++ ":" ++ match alookup p (md_srcptrmap d2) with Some t => t | None => "" end) (md_srcptrlist d2))
    by (apply map_ext; intros p; rewrite L1; reflexivity).
  rewrite M1, M2. reflexivity.
Qed.

(* mapper.Generator.MakeData + template: no dependence on the iteration order of srcPtrTypeMap / destPtrTypeMap *)
Theorem map_make_oracle : forall o1 o2 c dp dv st v T,
  legal o1 -> legal o2 ->
  same_src map_render map_render (map_make o1 c dp dv st v T) (map_make o2 c dp dv st v T).
Proof.
  intros o1 o2 c dp dv st v T H1 H2. unfold map_make, map_make_gen.
  cbn [all_resets rs_mfuncs rs_mtags rs_mfields rs_mctor rs_mmeth rs_msets rs_mmaps].
  destruct (mparse_fields v "" T true []) as [[[[e u] tg] sp]|] eqn:Es; [|exact I].
  destruct (mparse_fields dv (dp ++ ".") T false []) as [[[[de du] dtg] dsp]|] eqn:Ed; [|destruct (specified c); exact I].
  pose proof (mparse_fields_nodup _ _ _ _ _ _ _ _ _ Es) as Nsp.
  pose proof (mparse_fields_nodup _ _ _ _ _ _ _ _ _ Ed) as Ndsp.
  repeat match goal with
         | |- context [ctor_match ?a ?b ?c ?d ?e ?f] => destruct (ctor_match a b c d e f) as [[? ?] ?]
         end.
  match goal with
  | |- context [for_pairs ?t (type_match_pair ?q) ?p] => destruct (for_pairs t (type_match_pair q) p) as [[[[[? ?] ?] ?] ?] ?]
  end.
  match goal with
  | |- context [nil_check_write o1 ?fs ?sel sp] =>
      destruct (nil_check_write_oracle o1 o2 fs sel sp H1 H2 Nsp) as [Ls Ms];
      destruct (nil_check_write o1 fs sel sp) as [pm1 pl1]; destruct (nil_check_write o2 fs sel sp) as [pm2 pl2]
  end.
  match goal with
  | |- context [nil_check_write o1 ?fs ?sel dsp] =>
      destruct (nil_check_write_oracle o1 o2 fs sel dsp H1 H2 Ndsp) as [Ld Md];
      destruct (nil_check_write o1 fs sel dsp) as [pm3 pl3]; destruct (nil_check_write o2 fs sel dsp) as [pm4 pl4]
  end.
  cbn [fst snd] in *. subst pl2 pl4.
  cbn. split; [reflexivity|].
  match goal with |- map_render ?s1 ?d1 = map_render ?s2 ?d2 =>
    transitivity (map_render s1 d2); [apply map_render_ext; cbn; auto | unfold map_render; reflexivity] end.
Qed.

(* ---------------------------------------------------------------- schedule independence of a whole run *)
Lemma generate_oracle_unspecified : forall {St Data : Type} (make : St -> pview -> string -> mres Data St) render sc c o1 o2 hw disk st,
  specified c = false ->
  generate make render (list_types_of sc) c o1 hw disk st = generate make render (list_types_of sc) c o2 hw disk st.
Proof. intros. unfold generate. rewrite !confirm_unspecified by auto. reflexivity. Qed.

(* for -file= / -type=*, all four subcommands: two runs from the same directory state that differ only in the
   iteration order of every Go map produce the same source map (rest: outside the class of K_rest_alias_dup) *)
Theorem schedule_independent_unspecified : forall p prior c o1 o2,
  legal o1 -> legal o2 -> specified c = false ->
  (c_sub c = CRest -> rest_pkg_ok (p_hw p)) ->
  run_generate o1 p prior c = run_generate o2 p prior c.
Proof.
  intros p prior c o1 o2 H1 H2 Hs Hrest. unfold run_generate.
  destruct (c_sub c) eqn:Ec.
  - apply generate_oracle_unspecified; auto.
  - apply generate_oracle_unspecified; auto.
  - transitivity (generate (rest_make o2 c) rrender (list_types_of CRest) c o1 (p_hw p) (disk_of p prior) rstate0).
    + exact (generate_rel (rest_make o1 c) rrender (rest_make o2 c) rrender c (p_hw p) (disk_of p prior)
               (fun s1 s2 ov T => rest_make_rel o1 o2 c (p_hw p) (disk_of p prior) s1 s2 ov T H1 H2 (Hrest eq_refl))
               (list_types_of CRest) o1 rstate0 rstate0).
    + apply (generate_oracle_unspecified (rest_make o2 c) rrender CRest c o1 o2); auto.
  - set (dv := pview_of (mk_view (p_dest p) (p_destaux p) [])).
    assert (Hrel : forall s1 s2 ov T,
      same_src map_render map_render
        (map_make o1 c (p_destname p) dv s1 (pview_of (mk_view (p_hw p) (disk_of p prior) ov)) T)
        (map_make o2 c (p_destname p) dv s2 (pview_of (mk_view (p_hw p) (disk_of p prior) ov)) T)).
    { intros s1 s2 ov T.
      pose proof (map_make_state_indep o1 c (p_destname p) dv s1 s2 (pview_of (mk_view (p_hw p) (disk_of p prior) ov)) T) as Hst.
      pose proof (map_make_oracle o1 o2 c (p_destname p) dv s2 (pview_of (mk_view (p_hw p) (disk_of p prior) ov)) T H1 H2) as Ho.
      destruct (map_make o1 c (p_destname p) dv s1 (pview_of (mk_view (p_hw p) (disk_of p prior) ov)) T) as [d1 b1 t1|t1|];
        destruct (map_make o1 c (p_destname p) dv s2 (pview_of (mk_view (p_hw p) (disk_of p prior) ov)) T) as [d2 b2 t2|t2|]; cbn in Hst; try contradiction;
        destruct (map_make o2 c (p_destname p) dv s2 (pview_of (mk_view (p_hw p) (disk_of p prior) ov)) T) as [d3 b3 t3|t3|]; cbn in Ho; try contradiction; cbn; auto.
      destruct Hst as [-> [-> Hr]]. destruct Ho as [-> Hr2]. split; auto. rewrite Hr. exact Hr2. }
    transitivity (generate (map_make o2 c (p_destname p) dv) map_render (list_types_of CMap) c o1 (p_hw p) (disk_of p prior) mstate0).
    + exact (generate_rel (map_make o1 c (p_destname p) dv) map_render (map_make o2 c (p_destname p) dv) map_render c (p_hw p) (disk_of p prior)
               Hrel (list_types_of CMap) o1 mstate0 mstate0).
    + apply (generate_oracle_unspecified (map_make o2 c (p_destname p) dv) map_render CMap c o1 o2); auto.
Qed.

(* ---------------------------------------------------------------- C08 for map *)
From Shoot Require Import Proofs.GenSeqProofs.

(* the command line enters the mapper's output only through -way and the header; an explicit -type=T refuses a type
   without destination that the listing run skips *)
Lemma map_cmd_sim : forall o c c' dp dv st v T,
  c_toonly c = c_toonly c' -> c_fromonly c = c_fromonly c' -> specified c = false ->
  sim_body map_render map_render (map_make o c dp dv st v T) (map_make o c' dp dv st v T).
Proof.
  intros o c c' dp dv st v T Ht Hf Hs. unfold map_make, map_make_gen.
  cbn [all_resets rs_mfuncs rs_mtags rs_mfields rs_mctor rs_mmeth rs_msets rs_mmaps].
  destruct (mparse_fields v "" T true []) as [[[[e u] tg] sp]|]; [|exact I].
  destruct (mparse_fields dv (dp ++ ".") T false []) as [[[[de du] dtg] dsp]|].
  - repeat match goal with
           | |- context [ctor_match ?a ?b ?c0 ?d ?e0 ?f] => destruct (ctor_match a b c0 d e0 f) as [[? ?] ?]
           end.
    match goal with
    | |- context [for_pairs ?t (type_match_pair ?q) ?p] => destruct (for_pairs t (type_match_pair q) p) as [[[[[? ?] ?] ?] ?] ?]
    end.
    repeat match goal with
           | |- context [nil_check_write o ?fs ?sel ?pp] => destruct (nil_check_write o fs sel pp) as [? ?]
           end.
    cbn. split; [reflexivity|]. unfold body, map_render, mk_file. cbn. rewrite Ht, Hf. reflexivity.
  - rewrite Hs. destruct (specified c'); exact I.
Qed.

Lemma map_nostale : forall o c dp dv st v T d s st', map_make o c dp dv st v T = MOk d s st' -> s = false.
Proof.
  intros o c dp dv st v T d s st' H. unfold map_make, map_make_gen in H.
  cbn [all_resets rs_mfuncs rs_mtags rs_mfields rs_mctor rs_mmeth rs_msets rs_mmaps] in H.
  destruct (mparse_fields v "" T true []) as [[[[e u] tg] sp]|]; [|discriminate].
  destruct (mparse_fields dv (dp ++ ".") T false []) as [[[[de du] dtg] dsp]|]; [|destruct (specified c); discriminate].
  repeat match type of H with
         | context [ctor_match ?a ?b ?c0 ?d0 ?e0 ?f] => destruct (ctor_match a b c0 d0 e0 f) as [[? ?] ?]
         end.
  match type of H with
  | context [for_pairs ?t (type_match_pair ?q) ?p] => destruct (for_pairs t (type_match_pair q) p) as [[[[[? ?] ?] ?] ?] ?]
  end.
  repeat match type of H with
         | context [nil_check_write o ?fs ?sel ?pp] => destruct (nil_check_write o fs sel pp) as [? ?]
         end.
  injection H as _ <- _. reflexivity.
Qed.

(* C08, first sentence, for map (no guard): the single file of -file= / -type=* has the declarations, imports and free
   comments of the files -type=T writes for the same types, each run in the directory as the all-in-one run found it *)
Theorem map_aio_is_concatenation : forall ro c (cT : string -> cmd) dp dv hw disk fmap o st st' types sm,
  (forall T, c_toonly (cT T) = c_toonly c /\ c_fromonly (cT T) = c_fromonly c) ->
  separate c = false ->
  confirm_types (list_types_of CMap) c o (mk_view hw disk []) = Some (types, fmap) ->
  generate (map_make ro c dp dv) map_render (list_types_of CMap) c o hw disk st = Some sm ->
  let fs := same_dir_files (fun c0 => map_make ro c0 dp dv) map_render cT hw disk st' types in
  match sm with
  | [] => fs = []
  | [(n, m)] =>
      a_decls m = flat_map a_decls fs /\ a_imports m = dedup (flat_map a_imports fs) /\
      a_stray m = flat_map (fun f => strays (a_decls f)) fs /\ n = nm c hw fmap ""
  | _ => False
  end.
Proof.
  intros ro c cT dp dv hw disk fmap o st st' types sm HcT Hsep Hconf Hgen.
  assert (Hus : specified c = false) by (unfold separate in Hsep; destruct (specified c); [discriminate | reflexivity]).
  exact (aio_is_concat_same_dir (fun c0 => map_make ro c0 dp dv) map_render
           (fun c0 s1 s2 v T => map_make_state_indep ro c0 dp dv s1 s2 v T) (list_types_of CMap) c cT
           (fun T s v => map_cmd_sim ro c (cT T) dp dv s v T (eq_sym (proj1 (HcT T))) (eq_sym (proj2 (HcT T))) Hus)
           (fun s v T d b s' => map_nostale ro c dp dv s v T d b s') hw disk fmap Hsep o st st' types sm Hconf Hgen).
Qed.
