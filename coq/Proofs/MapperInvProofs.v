(* Further invariants of the passes, obtained through the transition system
   of MapperReach.v: the pass invariant [Inv] itself, what readSrcMap /
   writeSrcMap record about the final Targets, and that IsPtr of the two ends
   of a sub-struct pair is the pointer-ness of their types. *)
From Coq Require Import String Ascii List Bool Arith Lia.
From Shoot Require Import Base.Str Model.Transfer Model.MapVal Model.Mapper
     Proofs.MapperProofs Proofs.MapperPlanProofs Proofs.MapperReach.
Import ListNotations.
Local Open Scope string_scope.
Local Open Scope list_scope.

Section Inv2.
  Variable e : env.
  Variable tm : tagmap.
  Variable ic : bool.
  Variable fns : list mfunc.
  Variables W0s W0d : sset.

  Notation INV := (Inv e tm ic fns W0s W0d).
  Notation TRANS := (trans e tm ic fns).
  Notation REACH := (reach e tm ic fns).

  Definition submap_flag (f : field) : bool := f_canmap f || f_caneach f.

  Record Inv2 (s : st) : Prop := {
    i2_inv : INV s;
    (* readSrcMap has an entry for every source field with a Target, and the pair itself *)
    i2_nds : NoDup (map f_name (s_src s));
    i2_rmap : forall i j, i < length (s_src s) -> f_target (src_at s i) = Some j ->
                m_get (s_rmap s) (f_name (src_at s i)) = Some (f_name (dst_at s j));
    (* writeSrcMap maps a written source field to the destination field that targets it *)
    i2_wmap : forall j i, j < length (s_dst s) -> f_target (dst_at s j) = Some i ->
                m_get (s_wmap s) (f_name (src_at s i)) = Some (f_name (dst_at s j));
    i2_ptr_to : forall i j, i < length (s_src s) -> f_target (src_at s i) = Some j ->
                submap_flag (dst_at s j) = true ->
                f_isptr (src_at s i) = ptrness (f_ty (src_at s i)) /\ f_isptr (dst_at s j) = ptrness (f_ty (dst_at s j));
    i2_ptr_from : forall j i, j < length (s_dst s) -> f_target (dst_at s j) = Some i ->
                submap_flag (src_at s i) = true ->
                f_isptr (dst_at s j) = ptrness (f_ty (dst_at s j)) /\ f_isptr (src_at s i) = ptrness (f_ty (src_at s i));
    (* a field that is written (it is some reader's Target) is not a getter pseudo-field *)
    i2_get_to : forall i j, i < length (s_src s) -> f_target (src_at s i) = Some j -> f_isget (dst_at s j) = false;
    i2_get_from : forall j i, j < length (s_dst s) -> f_target (dst_at s j) = Some i -> f_isget (src_at s i) = false
  }.

  Lemma src_at_to_claim s i j g h k : i < length (s_src s) ->
    src_at (to_claim i j g h s) k = if Nat.eqb k i then h (set_target (Some j) (src_at s i)) else src_at s k.
  Proof. intros H. unfold to_claim, src_at. simpl. rewrite nth_upd by auto. reflexivity. Qed.
  Lemma dst_at_to_claim s i j g h k : j < length (s_dst s) ->
    dst_at (to_claim i j g h s) k = if Nat.eqb k j then g (dst_at s j) else dst_at s k.
  Proof. intros H. unfold to_claim, dst_at. simpl. rewrite nth_upd by auto. reflexivity. Qed.
  Lemma src_at_from_claim s i j g h k : i < length (s_src s) ->
    src_at (from_claim i j g h s) k = if Nat.eqb k i then g (src_at s i) else src_at s k.
  Proof. intros H. unfold from_claim, src_at. simpl. rewrite nth_upd by auto. reflexivity. Qed.
  Lemma dst_at_from_claim s i j g h k : j < length (s_dst s) ->
    dst_at (from_claim i j g h s) k = if Nat.eqb k j then h (set_target (Some i) (dst_at s j)) else dst_at s k.
  Proof. intros H. unfold from_claim, dst_at. simpl. rewrite nth_upd by auto. reflexivity. Qed.

  Lemma free_flag0_dst s j : INV s -> j < length (s_dst s) -> dst_free s j = true -> flagcount (dst_at s j) = 0.
  Proof.
    intros (IT & _) Hj F. unfold dst_free in F. apply andb_true_iff in F. destruct F as (F & _). apply negb_true_iff in F.
    destruct (flagcount (dst_at s j)) eqn:E; auto.
    assert (s_has (s_wdst s) (f_name (dst_at s j)) = true); [|congruence].
    apply (iv_flag_ws _ _ _ _ _ _ IT j Hj). unfold rd, dst_at in *. lia.
  Qed.
  Lemma free_flag0_src s i : INV s -> i < length (s_src s) -> src_free s i = true -> flagcount (src_at s i) = 0.
  Proof.
    intros (_ & IF) Hi F. unfold src_free in F. apply andb_true_iff in F. destruct F as (F & _). apply negb_true_iff in F.
    destruct (flagcount (src_at s i)) eqn:E; auto.
    assert (s_has (s_wsrc s) (f_name (src_at s i)) = true); [|congruence].
    apply (iv_flag_ws _ _ _ _ _ _ IF i Hi). unfold rd, src_at in *. lia.
  Qed.

  Lemma m_get_set m k v k' : m_get (m_set m k v) k' = if String.eqb k k' then Some v else m_get m k'.
  Proof. reflexivity. Qed.

  Lemma kc_name g f : keeps_core g -> f_name (g f) = f_name f.
  Proof. intros K. destruct (K f) as (X & _). exact X. Qed.
  Lemma kc_ty g f : keeps_core g -> f_ty (g f) = f_ty f.
  Proof. intros K. destruct (K f) as (_ & X & _). exact X. Qed.
  Lemma kf_submap g f : keeps_flags g -> submap_flag (g f) = submap_flag f.
  Proof. intros K. destruct (K f) as (_ & _ & _ & A & B & _). unfold submap_flag. rewrite A, B. reflexivity. Qed.

  Lemma inv2_to s i0 j0 g h :
    Inv2 s -> in_range s i0 j0 -> dst_free s j0 = true ->
    can_name_match (src_at s i0) (dst_at s j0) tm ic = true ->
    claim_ok e fns true (src_at s i0) (dst_at s j0) g h ->
    Inv2 (to_claim i0 j0 g h s).
  Proof.
    intros I2 (Hi0 & Hj0) F N (Kg & Tg & Kh & Th & Fh & Pg & Ph & Cl).
    pose proof (i2_inv _ I2) as I.
    pose proof (free_flag0_dst s j0 I Hj0 F) as Z0. destruct (Cl Z0) as (FC1 & J & PP).
    assert (Khs : keeps_core (fun f => h (set_target (Some j0) f))) by (apply kc_comp; auto; apply kc_target).
    assert (LS : length (s_src (to_claim i0 j0 g h s)) = length (s_src s)) by (unfold to_claim; simpl; apply upd_length).
    assert (LD : length (s_dst (to_claim i0 j0 g h s)) = length (s_dst s)) by (unfold to_claim; simpl; apply upd_length).
    assert (NS : forall k, f_name (src_at (to_claim i0 j0 g h s) k) = f_name (src_at s k)).
    { intros k. rewrite src_at_to_claim by auto. destruct (Nat.eqb_spec k i0) as [->|]; auto. apply (kc_name _ _ Khs). }
    assert (ND : forall k, f_name (dst_at (to_claim i0 j0 g h s) k) = f_name (dst_at s k)).
    { intros k. rewrite dst_at_to_claim by auto. destruct (Nat.eqb_spec k j0) as [->|]; auto. apply kc_name; auto. }
    assert (TYS : forall k, f_ty (src_at (to_claim i0 j0 g h s) k) = f_ty (src_at s k)).
    { intros k. rewrite src_at_to_claim by auto. destruct (Nat.eqb_spec k i0) as [->|]; auto. apply (kc_ty _ _ Khs). }
    assert (TYD : forall k, f_ty (dst_at (to_claim i0 j0 g h s) k) = f_ty (dst_at s k)).
    { intros k. rewrite dst_at_to_claim by auto. destruct (Nat.eqb_spec k j0) as [->|]; auto. apply kc_ty; auto. }
    assert (TD : forall k, f_target (dst_at (to_claim i0 j0 g h s) k) = f_target (dst_at s k)).
    { intros k. rewrite dst_at_to_claim by auto. destruct (Nat.eqb_spec k j0) as [->|]; auto. }
    assert (NotJ0 : forall i j, i < length (s_src s) -> f_target (src_at s i) = Some j -> j <> j0).
    { intros i j Hi T ->. destruct I as (IT & _).
      destruct (iv_tgt _ _ _ _ _ _ IT i j0 Hi T) as (_ & W & _).
      unfold dst_free in F. apply andb_true_iff in F. destruct F as (F & _). apply negb_true_iff in F.
      unfold rd, dst_at in *. congruence. }
    constructor.
    - destruct (to_claim_ok e tm ic fns W0s W0d s i0 j0 g h I) as (X & _); auto.
      + split; auto.
      + intros _. lia.
    - assert (MS : map f_name (s_src (to_claim i0 j0 g h s)) = map f_name (s_src s)).
      { apply (map_nth_ext f_name _ _ fdummy); auto. }
      rewrite MS. apply (i2_nds _ I2).
    - intros i j Hi T. rewrite LS in Hi. rewrite NS. rewrite dst_at_to_claim by auto.
      assert (RM : s_rmap (to_claim i0 j0 g h s) = m_set (s_rmap s) (f_name (src_at s i0)) (f_name (dst_at s j0))) by reflexivity.
      rewrite RM.
      rewrite src_at_to_claim in T by auto. rewrite m_get_set.
      destruct (Nat.eqb_spec i i0) as [->|Ne].
      + rewrite Th in T. simpl in T. inversion T; subst j. rewrite String.eqb_refl. rewrite Nat.eqb_refl.
        destruct (Kg (dst_at s j0)) as (X & _). rewrite X. reflexivity.
      + pose proof (i2_rmap _ I2 i j Hi T) as A.
        assert (Nj : j <> j0) by (eapply NotJ0; eauto).
        destruct (Nat.eqb_spec j j0); [congruence|].
        destruct (String.eqb_spec (f_name (src_at s i0)) (f_name (src_at s i))) as [E|]; [|exact A].
        exfalso. apply Ne. symmetry. apply (NoDup_map_nth f_name (s_src s) fdummy i0 i (i2_nds _ I2)); auto.
    - intros j i Hj T. rewrite LD in Hj. rewrite TD in T. rewrite NS, ND.
      assert (WM : s_wmap (to_claim i0 j0 g h s) = s_wmap s) by reflexivity. rewrite WM.
      apply (i2_wmap _ I2 j i Hj T).
    - intros i j Hi T SF. rewrite LS in Hi. rewrite TYS, TYD.
      rewrite src_at_to_claim in T |- * by auto. rewrite dst_at_to_claim in SF |- * by auto.
      destruct (Nat.eqb_spec i i0) as [->|Ne].
      + rewrite Th in T. simpl in T. inversion T; subst j. rewrite Nat.eqb_refl in *.
        destruct (PP SF) as (P1 & P2). split; auto.
      + assert (Nj : j <> j0) by (eapply NotJ0; eauto).
        destruct (Nat.eqb_spec j j0); [congruence|]. apply (i2_ptr_to _ I2 i j Hi T SF).
    - intros j i Hj T SF. rewrite LD in Hj. rewrite TD in T. rewrite TYS, TYD.
      assert (SF0 : submap_flag (src_at s i) = true).
      { rewrite src_at_to_claim in SF by auto. destruct (Nat.eqb_spec i i0) as [->|]; auto.
        rewrite (kf_submap (fun f => h (set_target (Some j0) f))) in SF; auto. apply kf_comp; auto. apply kf_target. }
      destruct (i2_ptr_from _ I2 j i Hj T SF0) as (A & B).
      rewrite src_at_to_claim, dst_at_to_claim by auto. split.
      + destruct (Nat.eqb_spec j j0) as [->|]; auto. destruct Pg as [X|X]; congruence.
      + destruct (Nat.eqb_spec i i0) as [->|]; auto. destruct (Ph (Some j0)) as [X|X]; congruence.
    - intros i j Hi T. rewrite LS in Hi. rewrite src_at_to_claim in T by auto. rewrite dst_at_to_claim by auto.
      destruct (Nat.eqb_spec i i0) as [->|Ne].
      + rewrite Th in T. simpl in T. inversion T; subst j. rewrite Nat.eqb_refl.
        destruct (Kg (dst_at s j0)) as (_ & _ & X & _). rewrite X.
        unfold dst_free in F. apply andb_true_iff in F. destruct F as (_ & F). apply negb_true_iff in F. exact F.
      + assert (Nj : j <> j0) by (eapply NotJ0; eauto).
        destruct (Nat.eqb_spec j j0); [congruence|]. apply (i2_get_to _ I2 i j Hi T).
    - intros j i Hj T. rewrite LD in Hj. rewrite TD in T. rewrite src_at_to_claim by auto.
      pose proof (i2_get_from _ I2 j i Hj T) as X.
      destruct (Nat.eqb_spec i i0) as [->|]; auto.
      destruct (Khs (src_at s i0)) as (_ & _ & Y & _). rewrite Y. exact X.
  Qed.

  Lemma inv2_from s i0 j0 g h :
    Inv2 s -> in_range s i0 j0 -> src_free s i0 = true ->
    can_name_match (src_at s i0) (dst_at s j0) tm ic = true ->
    claim_ok e fns false (dst_at s j0) (src_at s i0) g h ->
    Inv2 (from_claim i0 j0 g h s).
  Proof.
    intros I2 (Hi0 & Hj0) F N (Kg & Tg & Kh & Th & Fh & Pg & Ph & Cl).
    pose proof (i2_inv _ I2) as I.
    pose proof (free_flag0_src s i0 I Hi0 F) as Z0. destruct (Cl Z0) as (FC1 & J & PP).
    assert (Khs : keeps_core (fun f => h (set_target (Some i0) f))) by (apply kc_comp; auto; apply kc_target).
    assert (LS : length (s_src (from_claim i0 j0 g h s)) = length (s_src s)) by (unfold from_claim; simpl; apply upd_length).
    assert (LD : length (s_dst (from_claim i0 j0 g h s)) = length (s_dst s)) by (unfold from_claim; simpl; apply upd_length).
    assert (NS : forall k, f_name (src_at (from_claim i0 j0 g h s) k) = f_name (src_at s k)).
    { intros k. rewrite src_at_from_claim by auto. destruct (Nat.eqb_spec k i0) as [->|]; auto. apply kc_name; auto. }
    assert (ND : forall k, f_name (dst_at (from_claim i0 j0 g h s) k) = f_name (dst_at s k)).
    { intros k. rewrite dst_at_from_claim by auto. destruct (Nat.eqb_spec k j0) as [->|]; auto. apply (kc_name _ _ Khs). }
    assert (TYS : forall k, f_ty (src_at (from_claim i0 j0 g h s) k) = f_ty (src_at s k)).
    { intros k. rewrite src_at_from_claim by auto. destruct (Nat.eqb_spec k i0) as [->|]; auto. apply kc_ty; auto. }
    assert (TYD : forall k, f_ty (dst_at (from_claim i0 j0 g h s) k) = f_ty (dst_at s k)).
    { intros k. rewrite dst_at_from_claim by auto. destruct (Nat.eqb_spec k j0) as [->|]; auto. apply (kc_ty _ _ Khs). }
    assert (TS : forall k, f_target (src_at (from_claim i0 j0 g h s) k) = f_target (src_at s k)).
    { intros k. rewrite src_at_from_claim by auto. destruct (Nat.eqb_spec k i0) as [->|]; auto. }
    assert (Fr : s_has (s_wsrc s) (f_name (src_at s i0)) = false).
    { unfold src_free in F. apply andb_true_iff in F. destruct F as (F & _). apply negb_true_iff in F. exact F. }
    assert (NotI0 : forall j i, j < length (s_dst s) -> f_target (dst_at s j) = Some i ->
                      i <> i0 /\ f_name (src_at s i) <> f_name (src_at s i0)).
    { intros j i Hj T. destruct I as (_ & IF).
      destruct (iv_tgt _ _ _ _ _ _ IF j i Hj T) as (_ & W & _). unfold rd, src_at in *.
      split; intros X; [subst i|rewrite X in W]; congruence. }
    constructor.
    - destruct (from_claim_ok e tm ic fns W0s W0d s i0 j0 g h I) as (X & _); auto.
      + split; auto.
      + intros _. lia.
    - assert (MS : map f_name (s_src (from_claim i0 j0 g h s)) = map f_name (s_src s)).
      { apply (map_nth_ext f_name _ _ fdummy); auto. }
      rewrite MS. apply (i2_nds _ I2).
    - intros i j Hi T. rewrite LS in Hi. rewrite TS in T. rewrite NS, ND.
      assert (RM : s_rmap (from_claim i0 j0 g h s) = s_rmap s) by reflexivity. rewrite RM.
      apply (i2_rmap _ I2 i j Hi T).
    - intros j i Hj T. rewrite LD in Hj. rewrite NS, ND.
      assert (WM : s_wmap (from_claim i0 j0 g h s) = m_set (s_wmap s) (f_name (src_at s i0)) (f_name (dst_at s j0))) by reflexivity.
      rewrite WM, m_get_set. rewrite dst_at_from_claim in T by auto.
      destruct (Nat.eqb_spec j j0) as [->|Ne].
      + rewrite Th in T. simpl in T. inversion T; subst i. rewrite String.eqb_refl. reflexivity.
      + destruct (NotI0 j i Hj T) as (_ & Nn).
        destruct (String.eqb_spec (f_name (src_at s i0)) (f_name (src_at s i))); [congruence|].
        apply (i2_wmap _ I2 j i Hj T).
    - intros i j Hi T SF. rewrite LS in Hi. rewrite TS in T. rewrite TYS, TYD.
      assert (SF0 : submap_flag (dst_at s j) = true).
      { rewrite dst_at_from_claim in SF by auto. destruct (Nat.eqb_spec j j0) as [->|]; auto.
        rewrite (kf_submap (fun f => h (set_target (Some i0) f))) in SF; auto. apply kf_comp; auto. apply kf_target. }
      destruct (i2_ptr_to _ I2 i j Hi T SF0) as (A & B).
      rewrite src_at_from_claim, dst_at_from_claim by auto. split.
      + destruct (Nat.eqb_spec i i0) as [->|]; auto. destruct Pg as [X|X]; congruence.
      + destruct (Nat.eqb_spec j j0) as [->|]; auto. destruct (Ph (Some i0)) as [X|X]; congruence.
    - intros j i Hj T SF. rewrite LD in Hj. rewrite TYS, TYD.
      rewrite dst_at_from_claim in T |- * by auto. rewrite src_at_from_claim in SF |- * by auto.
      destruct (Nat.eqb_spec j j0) as [->|Ne].
      + rewrite Th in T. simpl in T. inversion T; subst i. rewrite Nat.eqb_refl in *.
        destruct (PP SF) as (P1 & P2). split; auto.
      + destruct (NotI0 j i Hj T) as (Ni & _).
        destruct (Nat.eqb_spec i i0); [congruence|]. apply (i2_ptr_from _ I2 j i Hj T SF).
    - intros i j Hi T. rewrite LS in Hi. rewrite TS in T. rewrite dst_at_from_claim by auto.
      pose proof (i2_get_to _ I2 i j Hi T) as X.
      destruct (Nat.eqb_spec j j0) as [->|]; auto.
      destruct (Khs (dst_at s j0)) as (_ & _ & Y & _). rewrite Y. exact X.
    - intros j i Hj T. rewrite LD in Hj. rewrite dst_at_from_claim in T by auto. rewrite src_at_from_claim by auto.
      destruct (Nat.eqb_spec j j0) as [->|Ne].
      + rewrite Th in T. simpl in T. inversion T; subst i. rewrite Nat.eqb_refl.
        destruct (Kg (src_at s i0)) as (_ & _ & X & _). rewrite X.
        unfold src_free in F. apply andb_true_iff in F. destruct F as (_ & F'). apply negb_true_iff in F'. exact F'.
      + destruct (NotI0 j i Hj T) as (Ni & _).
        destruct (Nat.eqb_spec i i0); [congruence|]. apply (i2_get_from _ I2 j i Hj T).
  Qed.

  Lemma inv2_trans s s' : TRANS s s' -> Inv2 s -> Inv2 s'.
  Proof.
    intros (i & j & T) I. destruct T as [s g h R F N C | s g h R F N C].
    - apply inv2_to; auto.
    - apply inv2_from; auto.
  Qed.

  Lemma inv2_reach s s' : REACH s s' -> Inv2 s -> Inv2 s'.
  Proof. apply reach_inv. apply inv2_trans. Qed.

  (* before the passes: no Target anywhere *)
  Lemma inv2_init s :
    INV s -> NoDup (map f_name (s_src s)) -> (forall i, i < length (s_src s) -> f_target (src_at s i) = None) ->
    (forall j, j < length (s_dst s) -> f_target (dst_at s j) = None) -> Inv2 s.
  Proof.
    intros I NDS HS HD. constructor; auto.
    - intros i j Hi T. rewrite HS in T; auto. discriminate.
    - intros j i Hj T. rewrite HD in T; auto. discriminate.
    - intros i j Hi T. rewrite HS in T; auto. discriminate.
    - intros j i Hj T. rewrite HD in T; auto. discriminate.
    - intros i j Hi T. rewrite HS in T; auto. discriminate.
    - intros j i Hj T. rewrite HD in T; auto. discriminate.
  Qed.
End Inv2.

(* the live entries of a map contain what a lookup finds *)
Lemma m_get_live m k v : m_get m k = Some v -> In (k, v) (m_live m).
Proof.
  unfold m_get. induction m as [|[a b] m IH]; simpl; [discriminate|].
  destruct (String.eqb_spec a k) as [->|N].
  - intros H. inversion H. left. reflexivity.
  - intros H. right. apply filter_In. split; [apply IH; exact H|]. simpl.
    destruct (String.eqb_spec k a); [congruence|reflexivity].
Qed.
