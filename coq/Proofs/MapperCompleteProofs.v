(* C05 completeness, first half: under one-to-one name matching every
   destination field that has a name-matching source with an applicable
   strategy ends up in the write-once set (it is claimed by the passes, or was
   covered before them by the constructor call / a manual method). *)
From Coq Require Import String Ascii List Bool Arith Lia.
From Shoot Require Import Base.Str Model.Transfer Model.MapVal Model.Mapper
     Proofs.MapperProofs Proofs.MapperPlanProofs Proofs.MapperFlattenProofs Proofs.MapperAnalyseProofs.
Import ListNotations.
Local Open Scope string_scope.
Local Open Scope list_scope.

(* a generic "the loop passes through x" principle *)
Lemma fold_visit {A} (f : nat -> A -> A) (Pre Post : A -> Prop) (x : nat) : forall l,
  (forall y a, In y l -> Pre a -> Pre (f y a)) ->
  (forall a, Pre a -> Post (f x a)) ->
  (forall y a, In y l -> Post a -> Post (f y a)) ->
  forall a, In x l -> Pre a -> Post (fold_left (fun a y => f y a) l a).
Proof.
  induction l as [|y l IH]; intros HP HX HQ a I P; [contradiction|]. simpl.
  destruct I as [->|I].
  - assert (Q : Post (f x a)) by auto.
    assert (K : forall l' b, (forall z, In z l' -> In z (x :: l)) -> Post b -> Post (fold_left (fun a y => f y a) l' b)).
    { induction l' as [|z l' IHl]; intros b Sub Qb; simpl; auto.
      apply IHl. - intros w W. apply Sub. right; auto. - apply HQ; auto. apply Sub. left; auto. }
    apply K; auto. intros z Z. right; auto.
  - apply IH; auto.
    + intros z b Z. apply HP. right; auto.
    + intros z b Z. apply HQ. right; auto.
    + apply HP; auto. left; auto.
Qed.

Section Complete.
  Variable e : env.
  Variable tm : tagmap.
  Variable ic : bool.
  Variable fns : list mfunc.
  Variables W0s W0d : sset.

  Notation INV := (Inv e tm ic fns W0s W0d).

  (* the destination write set only grows *)
  Definition grows (s s' : st) : Prop := forall x, s_has (s_wdst s) x = true -> s_has (s_wdst s') x = true.
  Lemma grows_refl s : grows s s. Proof. intros x H; auto. Qed.
  Lemma grows_trans a b c : grows a b -> grows b c -> grows a c. Proof. intros H1 H2 x H; auto. Qed.
  Lemma grows_to i j g h s : grows s (to_claim i j g h s).
  Proof. intros x H. unfold to_claim. simpl. apply s_has_add_mono. auto. Qed.
  Lemma grows_from i j g h s : grows s (from_claim i j g h s).
  Proof. intros x H. unfold from_claim. simpl. auto. Qed.

  Lemma grows_ite (c : bool) a b s : grows s a -> grows s b -> grows s (if c then a else b).
  Proof. destruct c; auto. Qed.

  Lemma to_claim_has i j g h s : s_has (s_wdst (to_claim i j g h s)) (f_name (dst_at s j)) = true.
  Proof. unfold to_claim. simpl. apply s_has_add_same. Qed.

  Lemma grows_func_loop : forall l i j s, grows s (func_loop l i j s).
  Proof.
    induction l as [|fn l IH]; intros i j s; simpl; [apply grows_refl|].
    set (s1 := if dst_free s j && _ then _ else s).
    set (s2 := if src_free s1 i && _ then _ else s1).
    assert (G1 : grows s s1) by (unfold s1; destruct (dst_free s j && _); [apply grows_to | apply grows_refl]).
    assert (G2 : grows s1 s2) by (unfold s2; destruct (src_free s1 i && _); [apply grows_from | apply grows_refl]).
    assert (G12 : grows s s2) by (eapply grows_trans; eauto).
    destruct (f_target (src_at s2 i)); [destruct (f_target (dst_at s2 j))|]; auto;
      (eapply grows_trans; [exact G12 | apply IH]).
  Qed.

  Lemma grows_sub_map i j t1 t2 b s : grows s (sub_map i j t1 t2 b s).
  Proof.
    unfold sub_map. destruct (strip_ptr t1) as (p1, u1). destruct (strip_ptr t2) as (p2, u2).
    destruct u1 as [| q1 n1 | | |]; try apply grows_refl. destruct q1; try apply grows_refl.
    destruct u2 as [| q2 n2 | | |]; try apply grows_refl. destruct q2; try apply grows_refl.
    set (s1 := if dst_free s j then _ else s).
    assert (G1 : grows s s1) by (unfold s1; destruct (dst_free s j); [apply grows_to | apply grows_refl]).
    destruct (src_free s1 i); [eapply grows_trans; [exact G1 | apply grows_from] | exact G1].
  Qed.

  Lemma grows_sub_list_map i j s : grows s (sub_list_map i j s).
  Proof.
    unfold sub_list_map. destruct (f_ty (src_at s i)); try apply grows_refl.
    destruct (f_ty (dst_at s j)); try apply grows_refl. apply grows_sub_map.
  Qed.

  Lemma grows_step_mismatch i j s : grows s (step_mismatch tm ic fns i j s).
  Proof.
    unfold step_mismatch. destruct (negb _); [apply grows_refl|].
    eapply grows_trans; [|apply grows_sub_list_map]. eapply grows_trans; [|apply grows_sub_map]. apply grows_func_loop.
  Qed.

  Lemma grows_step_match i j s : grows s (step_match e tm ic i j s).
  Proof.
    unfold step_match. destruct (negb _); [apply grows_refl|].
    destruct (match_type e (f_ty (src_at s i)) (f_ty (dst_at s j))) as (same, conv).
    destruct (match_type e (f_ty (dst_at s j)) (f_ty (src_at s i))) as (same', convback).
    set (s1 := if dst_free s j && _ then _ else s).
    assert (G1 : grows s s1) by (unfold s1; destruct (dst_free s j && _); [apply grows_to | apply grows_refl]).
    destruct (src_free s1 i && _); [eapply grows_trans; [exact G1 | apply grows_from] | exact G1].
  Qed.

  (* one-to-one name matching, on the current arrays *)
  Definition match_inj (s : st) : Prop :=
    forall i j j', i < length (s_src s) -> j < length (s_dst s) -> j' < length (s_dst s) ->
      can_name_match (src_at s i) (dst_at s j) tm ic = true ->
      can_name_match (src_at s i) (dst_at s j') tm ic = true -> j = j'.

  Lemma match_inj_core s s' : Core s s' -> match_inj s -> match_inj s'.
  Proof.
    intros C M i j j' Hi Hj Hj' N1 N2. destruct C as (a & b & c & d). rewrite a in Hi. rewrite b in Hj, Hj'.
    apply (M i j j'); auto.
    - rewrite <- N1. symmetry. apply can_name_match_core; auto.
    - rewrite <- N2. symmetry. apply can_name_match_core; auto.
  Qed.

  Definition claimed (s : st) (j : nat) : Prop := s_has (s_wdst s) (f_name (dst_at s j)) = true.

  Lemma claimed_core_grows s s' j : Core s s' -> grows s s' -> claimed s j -> claimed s' j.
  Proof.
    intros (_ & _ & _ & d) G H. unfold claimed in *. destruct (d j) as (N & _). rewrite N. apply G. exact H.
  Qed.

  Lemma not_free_claimed s j : f_isget (dst_at s j) = false -> dst_free s j = false -> claimed s j.
  Proof.
    unfold dst_free, claimed. intros G H. rewrite G in H. simpl in H. rewrite andb_true_r in H.
    apply negb_false_iff in H. exact H.
  Qed.

  (* makeFuncMap claims the destination when some method fits *)
  Lemma func_loop_progress : forall l s i j,
    (forall fn, In fn l -> In fn fns) ->
    INV s -> in_range s i j -> NMto tm ic (src_at s i) (dst_at s j) -> match_inj s ->
    f_isget (dst_at s j) = false ->
    (exists fn, In fn l /\ type_equals (mf_param fn) (f_ty (src_at s i)) = true
                        /\ type_equals (mf_result fn) (f_ty (dst_at s j)) = true) ->
    claimed (func_loop l i j s) j.
  Proof.
    induction l as [|fn l IH]; intros s i j Hin I R N MI G (f0 & If0 & A1 & A2); [contradiction|].
    assert (ST := func_loop_ok e tm ic fns W0s W0d (fn :: l) s i j Hin I R N). destruct ST as (_ & CT).
    simpl. simpl in CT.
    set (t1 := f_ty (src_at s i)) in *. set (t2 := f_ty (dst_at s j)) in *.
    set (s1 := if dst_free s j && (type_equals (mf_param fn) t1 && type_equals (mf_result fn) t2)
               then to_claim i j (set_func (mf_name fn)) (fun f => f) s else s) in *.
    set (s2 := if src_free s1 i && (type_equals (mf_param fn) t2 && type_equals (mf_result fn) t1)
               then from_claim i j (set_func (mf_name fn)) (fun f => f) s1 else s1) in *.
    (* re-establish the invariant on s1, s2 through the one-element loop *)
    assert (H2 : INV s2 /\ Core s s2).
    { pose proof (func_loop_ok e tm ic fns W0s W0d [fn] s i j) as X. simpl in X. fold t1 t2 s1 s2 in X.
      assert (Y : INV (match f_target (src_at s2 i) with Some _ => match f_target (dst_at s2 j) with Some _ => s2 | None => s2 end | None => s2 end)
                  /\ Core s (match f_target (src_at s2 i) with Some _ => match f_target (dst_at s2 j) with Some _ => s2 | None => s2 end | None => s2 end)).
      { apply X; auto. intros f [<-|[]]. apply Hin. left; auto. }
      destruct (f_target (src_at s2 i)); [destruct (f_target (dst_at s2 j))|]; exact Y. }
    destruct H2 as (I2 & C2).
    assert (G12 : grows s s2).
    { apply (grows_trans s s1 s2).
      - unfold s1. apply grows_ite; [apply grows_to | apply grows_refl].
      - unfold s2. apply grows_ite; [apply grows_from | apply grows_refl]. }
    (* already claimed after this method? *)
    assert (Now : (type_equals (mf_param fn) t1 && type_equals (mf_result fn) t2) = true -> claimed s2 j).
    { intros E. destruct (dst_free s j) eqn:F.
      - assert (claimed s1 j).
        { unfold s1. rewrite E. simpl. unfold claimed.
          assert (Nm : f_name (dst_at (to_claim i j (set_func (mf_name fn)) (fun f => f) s) j) = f_name (dst_at s j)).
          { unfold to_claim, dst_at. simpl. destruct R as (_ & Hj). fold (rd (s_dst s) j). fold (rd (upd (s_dst s) j (set_func (mf_name fn))) j).
            rewrite rd_upd by auto. rewrite Nat.eqb_refl. reflexivity. }
          rewrite Nm. apply to_claim_has. }
        unfold s2. destruct (src_free s1 i && _); auto.
        unfold claimed in *. unfold from_claim. simpl.
        destruct R as (_ & Hj).
        assert (Nm : f_name (nth j (upd (s_dst s1) j (fun f => set_target (Some i) f)) fdummy) = f_name (dst_at s1 j)).
        { unfold dst_at. destruct (Nat.lt_ge_cases j (length (s_dst s1))) as [L|L].
          - rewrite nth_upd_same by auto. reflexivity.
          - rewrite !nth_overflow; rewrite ?upd_length; auto. }
        unfold dst_at at 1. simpl. rewrite Nm. exact H.
      - eapply claimed_core_grows; eauto. apply not_free_claimed; auto. }
    destruct (type_equals (mf_param fn) t1 && type_equals (mf_result fn) t2) eqn:E.
    - (* this method fits: claimed now, and stays claimed *)
      specialize (Now eq_refl).
      destruct (f_target (src_at s2 i)); [destruct (f_target (dst_at s2 j))|]; auto;
        (eapply claimed_core_grows; [| apply grows_func_loop | exact Now];
         destruct (func_loop_ok e tm ic fns W0s W0d l s2 i j) as (_ & X); auto;
         [intros f Hf; apply Hin; right; auto | eapply in_range_core; eauto | eapply NMto_core; eauto]).
    - (* it does not: the fitting method is further down, unless the loop breaks *)
      assert (Rest : exists fn', In fn' l /\ type_equals (mf_param fn') (f_ty (src_at s2 i)) = true
                                       /\ type_equals (mf_result fn') (f_ty (dst_at s2 j)) = true).
      { destruct If0 as [<-|If0].
        - fold t1 t2 in A1, A2. rewrite A1, A2 in E. discriminate.
        - destruct (ty_core _ _ C2) as (TS & TD). exists f0. rewrite TS, TD. auto. }
      assert (R2 : in_range s2 i j) by (eapply in_range_core; eauto).
      assert (N2 : NMto tm ic (src_at s2 i) (dst_at s2 j)) by (eapply NMto_core; eauto).
      assert (G2 : f_isget (dst_at s2 j) = false).
      { destruct C2 as (_ & _ & _ & d). destruct (d j) as (_ & _ & X & _). rewrite X. exact G. }
      assert (Go : claimed (func_loop l i j s2) j).
      { apply IH; auto. - intros f Hf. apply Hin. right; auto. - eapply match_inj_core; eauto. }
      destruct (f_target (src_at s2 i)) as [x|] eqn:T; [destruct (f_target (dst_at s2 j))|]; auto.
      (* break: the source already claimed its only counterpart *)
      destruct I2 as (IT & _). destruct R2 as (Hi2 & Hj2).
      destruct (iv_tgt _ _ _ _ _ _ IT i x Hi2 T) as (Hx & Hw & Nx & _).
      assert (x = j).
      { apply (match_inj_core _ _ C2 MI i x j); auto. }
      subst x. exact Hw.
  Qed.

  Lemma claimed_to_claim i j g h s : j < length (s_dst s) -> keeps_core g -> claimed (to_claim i j g h s) j.
  Proof.
    intros Hj Kg. unfold claimed.
    assert (Nm : f_name (dst_at (to_claim i j g h s) j) = f_name (dst_at s j)).
    { unfold to_claim, dst_at. simpl. fold (rd (s_dst s) j). fold (rd (upd (s_dst s) j g) j).
      rewrite rd_upd by auto. rewrite Nat.eqb_refl. destruct (Kg (rd (s_dst s) j)) as (X & _). exact X. }
    rewrite Nm. apply to_claim_has.
  Qed.

  Lemma claimed_from_claim i j' j g h s : keeps_core h -> claimed s j -> claimed (from_claim i j' g h s) j.
  Proof.
    intros Kh H. unfold claimed in *. unfold from_claim. simpl.
    assert (Nm : f_name (dst_at (claim_src (f_name (src_at s i)) (f_name (dst_at s j'))
                                  (on_src i g (on_dst j' (fun f => h (set_target (Some i) f)) s))) j) = f_name (dst_at s j)).
    { unfold dst_at. simpl. destruct (Nat.lt_ge_cases j' (length (s_dst s))) as [L|L].
      - rewrite nth_upd by auto. destruct (Nat.eqb_spec j j') as [->|]; auto.
        destruct (Kh (set_target (Some i) (nth j' (s_dst s) fdummy))) as (X & _). rewrite X. reflexivity.
      - assert (E : upd (s_dst s) j' (fun f => h (set_target (Some i) f)) = s_dst s).
        { clear - L. revert j' L. induction (s_dst s) as [|x l IH]; intros [|k] L; simpl in *; auto; try lia. f_equal. apply IH. lia. }
        rewrite E. reflexivity. }
    unfold from_claim in Nm. rewrite Nm. exact H.
  Qed.

  (* makeSubMap claims the destination when the two types are a sub-struct pair *)
  Lemma sub_map_progress s i j typ1 typ2 b n1 n2 :
    in_range s i j -> f_isget (dst_at s j) = false ->
    snd (strip_ptr typ1) = TNamed PSrc n1 -> snd (strip_ptr typ2) = TNamed PDst n2 ->
    claimed (sub_map i j typ1 typ2 b s) j.
  Proof.
    intros (Hi & Hj) G S1 S2. unfold sub_map.
    destruct (strip_ptr typ1) as (p1, u1). destruct (strip_ptr typ2) as (p2, u2). simpl in S1, S2. subst u1 u2.
    set (s1 := if dst_free s j then _ else s).
    assert (C1 : claimed s1 j).
    { unfold s1. destruct (dst_free s j) eqn:F.
      - apply claimed_to_claim; auto. apply kc_comp; [apply kc_isptr | apply kc_submap].
      - apply not_free_claimed; auto. }
    destruct (src_free s1 i); auto. apply claimed_from_claim; auto. apply kc_isptr.
  Qed.

  (* what makes makeTypeMismatch claim a pair *)
  Definition mismatch_applicable (t1 t2 : ty) : Prop :=
    (exists fn, In fn fns /\ type_equals (mf_param fn) t1 = true /\ type_equals (mf_result fn) t2 = true)
    \/ (exists n1 n2, snd (strip_ptr t1) = TNamed PSrc n1 /\ snd (strip_ptr t2) = TNamed PDst n2)
    \/ (exists e1 e2 n1 n2, t1 = TSlice e1 /\ t2 = TSlice e2
                            /\ snd (strip_ptr e1) = TNamed PSrc n1 /\ snd (strip_ptr e2) = TNamed PDst n2).

  Lemma isget_core s s' j : Core s s' -> f_isget (dst_at s' j) = f_isget (dst_at s j).
  Proof. intros (_ & _ & _ & d). destruct (d j) as (_ & _ & X & _). exact X. Qed.

  Lemma step_mismatch_progress s i j :
    INV s -> in_range s i j -> NMto tm ic (src_at s i) (dst_at s j) -> match_inj s ->
    f_isget (dst_at s j) = false ->
    mismatch_applicable (f_ty (src_at s i)) (f_ty (dst_at s j)) ->
    claimed (step_mismatch tm ic fns i j s) j.
  Proof.
    intros I R N MI G A. unfold step_mismatch. unfold NMto in N. rewrite N. cbn [negb].
    destruct (func_loop_ok e tm ic fns W0s W0d fns s i j) as (I1 & C1); auto.
    set (s1 := func_loop fns i j s) in *.
    assert (R1 : in_range s1 i j) by (eapply in_range_core; eauto).
    assert (N1 : NMto tm ic (src_at s1 i) (dst_at s1 j)) by (eapply NMto_core; eauto).
    destruct (sub_map_ok e tm ic fns W0s W0d s1 i j (f_ty (src_at s1 i)) (f_ty (dst_at s1 j)) false) as (I2 & C2); auto.
    set (s2 := sub_map i j (f_ty (src_at s1 i)) (f_ty (dst_at s1 j)) false s1) in *.
    assert (R2 : in_range s2 i j) by (eapply in_range_core; eauto).
    assert (N2 : NMto tm ic (src_at s2 i) (dst_at s2 j)) by (eapply NMto_core; eauto).
    destruct (sub_list_map_ok e tm ic fns W0s W0d s2 i j) as (I3 & C3); auto.
    destruct (ty_core _ _ C1) as (TS1 & TD1). destruct (ty_core _ _ C2) as (TS2 & TD2).
    destruct A as [A|[(n1 & n2 & A1 & A2)|(e1 & e2 & n1 & n2 & E1 & E2 & A1 & A2)]].
    - (* a mapper method *)
      assert (claimed s1 j) by (apply func_loop_progress; auto).
      eapply claimed_core_grows; [exact C3 | apply grows_sub_list_map |].
      eapply claimed_core_grows; [exact C2 | apply grows_sub_map | exact H].
    - (* sub-struct *)
      assert (claimed s2 j).
      { unfold s2. eapply sub_map_progress; eauto.
        - rewrite (isget_core _ _ j C1). exact G.
        - rewrite TS1. exact A1.
        - rewrite TD1. exact A2. }
      eapply claimed_core_grows; [exact C3 | apply grows_sub_list_map | exact H].
    - (* slices of sub-structs *)
      unfold sub_list_map. rewrite TS2, TS1, TD2, TD1, E1, E2.
      eapply sub_map_progress; eauto.
      rewrite (isget_core _ _ j C2), (isget_core _ _ j C1). exact G.
  Qed.

  Lemma step_match_progress s i j :
    in_range s i j -> NMto tm ic (src_at s i) (dst_at s j) -> f_isget (dst_at s j) = false ->
    (let '(same, conv) := match_type e (f_ty (src_at s i)) (f_ty (dst_at s j)) in same || conv = true) ->
    claimed (step_match e tm ic i j s) j.
  Proof.
    intros (Hi & Hj) N G A. unfold step_match. unfold NMto in N. rewrite N. cbn [negb].
    destruct (match_type e (f_ty (src_at s i)) (f_ty (dst_at s j))) as (same, conv).
    destruct (match_type e (f_ty (dst_at s j)) (f_ty (src_at s i))) as (same', convback).
    set (s1 := if dst_free s j && (same || conv) then _ else s).
    assert (C1 : claimed s1 j).
    { unfold s1. rewrite A. rewrite andb_true_r. destruct (dst_free s j) eqn:F.
      - apply claimed_to_claim; auto. destruct same; [apply kc_canassign | apply kc_isconv].
      - apply not_free_claimed; auto. }
    destruct (src_free s1 i && (same || convback)); auto. apply claimed_from_claim; auto. apply kc_id.
  Qed.

  (* ------------------------------------------------------------ the loops *)
  Lemma fold_keep {A} (f : nat -> A -> A) (P : A -> Prop) :
    (forall y a, P a -> P (f y a)) -> forall l a, P a -> P (fold_left (fun a y => f y a) l a).
  Proof. intros H. induction l as [|y l IH]; intros a Pa; simpl; auto. Qed.

  Section Loop.
    Variable s0 : st.
    Variable step : nat -> nat -> st -> st.
    Hypothesis step_ok : forall s i j, INV s -> in_range s i j -> INV (step i j s) /\ Core s (step i j s).
    Hypothesis step_grows : forall s i j, grows s (step i j s).

    Definition PreL (s : st) : Prop := INV s /\ Core s0 s.
    Definition PostL (j : nat) (s : st) : Prop := PreL s /\ claimed s j.

    Lemma row_pre i s : PreL s -> i < length (s_src s) ->
      PreL (fold_left (fun s j => step i j s) (seq 0 (length (s_dst s))) s).
    Proof.
      intros P Hi.
      assert (X : forall js s1, PreL s1 -> (forall j, In j js -> j < length (s_dst s1)) -> i < length (s_src s1) ->
                    PreL (fold_left (fun s j => step i j s) js s1)).
      { induction js as [|j js IH]; intros s1 (I1 & C1) Hjs Hi1; simpl; [split; auto|].
        destruct (step_ok s1 i j I1) as (I2 & C2). { split; auto. apply Hjs. left; auto. }
        apply IH.
        - split; auto. eapply Core_trans; eauto.
        - intros k Hk. destruct C2 as (_ & b & _). rewrite b. apply Hjs. right; auto.
        - destruct C2 as (a & _). rewrite a. auto. }
      apply X; auto. intros j Hj. apply in_seq in Hj. lia.
    Qed.

    Lemma row_post i j s : PostL j s -> i < length (s_src s) ->
      PostL j (fold_left (fun s j => step i j s) (seq 0 (length (s_dst s))) s).
    Proof.
      intros (P & Cl) Hi.
      assert (X : forall js s1, PostL j s1 -> (forall k, In k js -> k < length (s_dst s1)) -> i < length (s_src s1) ->
                    PostL j (fold_left (fun s j => step i j s) js s1)).
      { induction js as [|k js IH]; intros s1 ((I1 & C1) & Cl1) Hjs Hi1; simpl; [exact (conj (conj I1 C1) Cl1)|].
        destruct (step_ok s1 i k I1) as (I2 & C2). { split; auto. apply Hjs. left; auto. }
        apply IH.
        - split; [split; auto; eapply Core_trans; eauto|]. eapply claimed_core_grows; eauto.
        - intros k' Hk. destruct C2 as (_ & b & _). rewrite b. apply Hjs. right; auto.
        - destruct C2 as (a & _). rewrite a. auto. }
      apply X; auto. { split; auto. } intros k Hk. apply in_seq in Hk. lia.
    Qed.

    (* if the step at (i, j) claims j, the whole double loop leaves j claimed *)
    Lemma double_loop_visit i j :
      i < length (s_src s0) -> j < length (s_dst s0) ->
      (forall s, PreL s -> claimed (step i j s) j) ->
      INV s0 -> PostL j (double_loop step s0).
    Proof.
      intros Hi Hj Hit I0. unfold double_loop.
      assert (P0 : PreL s0) by (split; auto; apply Core_refl).
      assert (Len : forall s, PreL s -> length (s_src s) = length (s_src s0) /\ length (s_dst s) = length (s_dst s0)).
      { intros s (_ & (a & b & _)). auto. }
      apply (fold_visit (fun i' s => fold_left (fun s j' => step i' j' s) (seq 0 (length (s_dst s))) s)
                        (fun s => PreL s) (PostL j) i).
      - intros y a Y P. apply in_seq in Y. apply row_pre; auto. destruct (Len a P) as (L1 & _). rewrite L1. lia.
      - intros a P. destruct (Len a P) as (L1 & L2).
        apply (fold_visit (fun j' s => step i j' s) (fun s => PreL s) (PostL j) j).
        + intros y b Y (Ib & Cb). apply in_seq in Y. destruct (Len b (conj Ib Cb)) as (M1 & M2).
          destruct (step_ok b i y Ib) as (I2 & C2). { split; [rewrite M1 | rewrite M2, <- L2]; lia. }
          split; auto. eapply Core_trans; eauto.
        + intros b (Ib & Cb). destruct (Len b (conj Ib Cb)) as (M1 & M2).
          destruct (step_ok b i j Ib) as (I2 & C2). { split; [rewrite M1 | rewrite M2]; lia. }
          split; [split; auto; eapply Core_trans; eauto|]. apply Hit. split; auto.
        + intros y b Y ((Ib & Cb) & Clb). apply in_seq in Y. destruct (Len b (conj Ib Cb)) as (M1 & M2).
          destruct (step_ok b i y Ib) as (I2 & C2). { split; [rewrite M1 | rewrite M2, <- L2]; lia. }
          split; [split; auto; eapply Core_trans; eauto|]. eapply claimed_core_grows; eauto.
        + apply in_seq. rewrite L2. lia.
        + exact P.
      - intros y a Y Q. apply in_seq in Y. apply row_post; auto. destruct Q as (P & _). destruct (Len a P) as (L1 & _). rewrite L1. lia.
      - apply in_seq. lia.
      - exact P0.
    Qed.
  End Loop.

  Lemma grows_double_loop step s :
    (forall s i j, grows s (step i j s)) -> grows s (double_loop step s).
  Proof.
    intros G. unfold double_loop.
    apply (fold_keep (fun i a => fold_left (fun s j => step i j s) (seq 0 (length (s_dst a))) a) (fun a => grows s a)).
    - intros i a Ga. apply (fold_keep (fun j b => step i j b) (fun b => grows s b)); auto.
      intros j b Gb. eapply grows_trans; eauto.
    - apply grows_refl.
  Qed.

  (* what makes makeTypeMatch claim a pair *)
  Definition match_applicable (t1 t2 : ty) : Prop :=
    let '(same, conv) := match_type e t1 t2 in same || conv = true.

  (* under one-to-one name matching: a non-getter destination field with a
     name-matching source and some applicable strategy is in the write-once set
     after the two passes *)
  Theorem passes_complete s0 i j :
    INV s0 -> match_inj s0 -> i < length (s_src s0) -> j < length (s_dst s0) ->
    NMto tm ic (src_at s0 i) (dst_at s0 j) -> f_isget (dst_at s0 j) = false ->
    mismatch_applicable (f_ty (src_at s0 i)) (f_ty (dst_at s0 j))
    \/ match_applicable (f_ty (src_at s0 i)) (f_ty (dst_at s0 j)) ->
    claimed (run_passes e tm ic fns s0) j.
  Proof.
    intros I0 MI Hi Hj N G A. unfold run_passes.
    destruct (double_loop_ok e tm ic fns W0s W0d (step_mismatch tm ic fns)
                (step_mismatch_ok e tm ic fns W0s W0d) s0 I0) as (I1 & C1).
    set (s1 := double_loop (step_mismatch tm ic fns) s0) in *.
    destruct (double_loop_ok e tm ic fns W0s W0d (step_match e tm ic)
                (step_match_ok e tm ic fns W0s W0d) s1 I1) as (I2 & C2).
    destruct A as [A|A].
    - (* claimed by makeTypeMismatch, kept by makeTypeMatch *)
      assert (P1 : PostL s0 j s1).
      { apply (double_loop_visit s0 (step_mismatch tm ic fns) (step_mismatch_ok e tm ic fns W0s W0d)
                 (fun s i j => grows_step_mismatch i j s) i j); auto.
        intros s (Is & Cs). destruct (ty_core _ _ Cs) as (TS & TD).
        apply step_mismatch_progress; auto.
        - destruct Cs as (a & b & _). split; [rewrite a | rewrite b]; auto.
        - eapply NMto_core; eauto.
        - eapply match_inj_core; eauto.
        - rewrite (isget_core _ _ j Cs). exact G.
        - rewrite TS, TD. exact A. }
      destruct P1 as (_ & Cl1).
      eapply claimed_core_grows; [exact C2 | apply grows_double_loop; intros; apply grows_step_match | exact Cl1].
    - (* claimed by makeTypeMatch *)
      assert (P2 : PostL s1 j (double_loop (step_match e tm ic) s1)).
      { pose proof C1 as C1'. destruct C1' as (a & b & _).
        apply (double_loop_visit s1 (step_match e tm ic) (step_match_ok e tm ic fns W0s W0d)
                 (fun s i j => grows_step_match i j s) i j); auto; try (rewrite ?a, ?b; auto; fail).
        intros s (Is & Cs).
        assert (C0s : Core s0 s) by (eapply Core_trans; [exact C1 | exact Cs]).
        destruct (ty_core _ _ C0s) as (TS & TD).
        apply step_match_progress.
        - destruct C0s as (a' & b' & _). split; [rewrite a' | rewrite b']; auto.
        - eapply NMto_core; eauto.
        - rewrite (isget_core _ _ j C0s). exact G.
        - rewrite TS, TD. exact A. }
      destruct P2 as (_ & Cl2). exact Cl2.
  Qed.
End Complete.

(* on [analyse] *)
Theorem analyse_complete_to sigma jb a pr i j :
  analyse sigma jb = Some a -> prepare jb = Some pr -> acc_guard jb ->
  match_inj (p_tags (pr_src pr)) (j_ic jb) (pr_s0 pr) ->
  i < length (s_src (pr_s0 pr)) -> j < length (s_dst (pr_s0 pr)) ->
  can_name_match (src_at (pr_s0 pr) i) (dst_at (pr_s0 pr) j) (p_tags (pr_src pr)) (j_ic jb) = true ->
  f_isget (dst_at (pr_s0 pr) j) = false ->
  mismatch_applicable (j_funcs jb) (f_ty (src_at (pr_s0 pr) i)) (f_ty (dst_at (pr_s0 pr) j))
  \/ match_applicable (j_env jb) (f_ty (src_at (pr_s0 pr) i)) (f_ty (dst_at (pr_s0 pr) j)) ->
  s_has (s_wdst (a_state a)) (f_name (dst_at (pr_s0 pr) j)) = true.
Proof.
  intros H P G MI Hi Hj N Gt A.
  destruct (analyse_state _ _ _ H) as (pr' & P' & S & T). rewrite P in P'. inversion P'; subst pr'.
  destruct (prepare_ok _ _ P G) as (I0 & _).
  pose proof (passes_complete (j_env jb) (p_tags (pr_src pr)) (j_ic jb) (j_funcs jb) _ _ (pr_s0 pr) i j I0 MI Hi Hj N Gt A) as C.
  rewrite <- S in C. unfold claimed in C.
  destruct (passes_ok _ _ _ _ _ _ _ I0) as (_ & CR).
  fold (run_passes (j_env jb) (p_tags (pr_src pr)) (j_ic jb) (j_funcs jb) (pr_s0 pr)) in CR. rewrite <- S in CR.
  destruct CR as (_ & _ & _ & d). destruct (d j) as (Nm & _). rewrite <- Nm. exact C.
Qed.

(* a decidable form of match_inj, for Examples *)
Definition match_inj_b (tm : tagmap) (ic : bool) (s : st) : bool :=
  forallb (fun i => forallb (fun j => forallb (fun j' =>
    negb (can_name_match (src_at s i) (dst_at s j) tm ic && can_name_match (src_at s i) (dst_at s j') tm ic)
    || Nat.eqb j j') (seq 0 (length (s_dst s)))) (seq 0 (length (s_dst s)))) (seq 0 (length (s_src s))).

Lemma match_inj_b_sound tm ic s : match_inj_b tm ic s = true -> match_inj tm ic s.
Proof.
  unfold match_inj_b, match_inj. intros H i j j' Hi Hj Hj' N1 N2.
  rewrite forallb_forall in H. specialize (H i). rewrite in_seq in H. specialize (H (conj (Nat.le_0_l _) Hi)).
  rewrite forallb_forall in H. specialize (H j). rewrite in_seq in H. specialize (H (conj (Nat.le_0_l _) Hj)).
  rewrite forallb_forall in H. specialize (H j'). rewrite in_seq in H. specialize (H (conj (Nat.le_0_l _) Hj')).
  rewrite N1, N2 in H. simpl in H. apply Nat.eqb_eq. exact H.
Qed.
