(* Proofs about Model/RetryStack.v: refinement to Model/Retry.v over the wire, and the laws of
   stacking RetryMiddleware / LoggingMiddleware instances. *)
From Coq Require Import List ZArith Bool Lia.
From Shoot Require Import Model.Retry Model.RetryStack Proofs.RetryProofs.
Import ListNotations.

Lemma acceptable_res_as_result o : acceptable_res (as_result o) = acceptable o.
Proof. destruct o as [r | e [r|]]; reflexivity. Qed.

Lemma acceptable_res_shape r : acceptable_res r = true -> (fst r, None) = r.
Proof. destruct r as [[rp|] [e|]]; cbn; intros H; try discriminate; reflexivity. Qed.

Lemma calls_pre_call a ev :
  calls (match a with O => [] | S _ => [ESleep] end ++ ECall a :: ev) = S (calls ev).
Proof. destruct a; reflexivity. Qed.

(* ---- over the wire the transformer IS the model of Model/Retry.v ---- *)
Lemma loop_tr_wire script : forall fuel a last,
  loop_tr (wire script) fuel a last a =
  (fst (loop script fuel a last), snd (loop script fuel a last),
   a + calls (fst (loop script fuel a last))).
Proof.
  induction fuel as [|fuel IH]; intros a last.
  - cbn. f_equal. lia.
  - cbn [loop_tr loop wire]. rewrite acceptable_res_as_result.
    destruct (acceptable (script a)) eqn:Hacc.
    + cbn [fst snd]. rewrite calls_pre_call. cbn [calls filter length]. f_equal. lia.
    + rewrite (IH (S a) (as_result (script a))).
      destruct (loop script fuel (S a) (as_result (script a))) as [ev r].
      cbn [fst snd app]. rewrite calls_pre_call. f_equal. lia.
Qed.

Lemma retry_tr_wire n script :
  retry_tr n (wire script) 0 =
  (fst (retry n script), snd (retry n script), calls (fst (retry n script))).
Proof. unfold retry_tr, retry. rewrite loop_tr_wire. reflexivity. Qed.

(* ---- bound on wire calls, compositional ---- *)
Definition bounded (next : tr) (k : nat) : Prop :=
  forall c, c <= snd (next c) <= c + k.

Lemma wire_bounded script : bounded (wire script) 1.
Proof. intros c. cbn. lia. Qed.

Lemma loop_tr_bound next k : bounded next k -> forall fuel a last c,
  c <= snd (loop_tr next fuel a last c) <= c + fuel * k.
Proof.
  intros Hb. induction fuel as [|fuel IH]; intros a last c.
  - cbn. lia.
  - cbn [loop_tr]. pose proof (Hb c) as Hc.
    destruct (next c) as [[ev1 r] c1]. cbn [snd] in Hc.
    destruct (acceptable_res r).
    + cbn [snd]. lia.
    + pose proof (IH (S a) r c1) as Hi.
      destruct (loop_tr next fuel (S a) r c1) as [[ev r'] c2]. cbn [snd] in *. lia.
Qed.

Lemma retry_tr_bounded n next k :
  bounded next k -> bounded (retry_tr n next) (Z.to_nat (n + 1) * k).
Proof. intros Hb c. unfold retry_tr. apply loop_tr_bound. exact Hb. Qed.

Lemma nested_retry_bound n m script c :
  (0 <= n)%Z -> (0 <= m)%Z ->
  wire_calls (retry_tr n (retry_tr m (wire script))) c <= Z.to_nat ((n + 1) * (m + 1)).
Proof.
  intros Hn Hm. unfold wire_calls.
  pose proof (retry_tr_bounded n _ _ (retry_tr_bounded m _ _ (wire_bounded script)) c) as H.
  rewrite Z2Nat.inj_mul by lia. lia.
Qed.

(* ---- extensionality and the neutral instance ---- *)
Lemma loop_tr_ext f g : (forall c, f c = g c) -> forall fuel a last c,
  loop_tr f fuel a last c = loop_tr g fuel a last c.
Proof.
  intros E. induction fuel as [|fuel IH]; intros a last c; [reflexivity|].
  cbn [loop_tr]. rewrite (E c). destruct (g c) as [[ev1 r] c1].
  destruct (acceptable_res r); [reflexivity|]. rewrite IH. reflexivity.
Qed.

Lemma retry_tr_ext n f g : (forall c, f c = g c) -> forall c, retry_tr n f c = retry_tr n g c.
Proof. intros E c. unfold retry_tr. apply loop_tr_ext. exact E. Qed.

(* RetryMiddleware(0, d) is the identity on RoundTrippers *)
Lemma retry_tr_zero next c : retry_tr 0 next c = next c.
Proof.
  unfold retry_tr. change (Z.to_nat (0 + 1)) with 1%nat. cbn [loop_tr app].
  destruct (next c) as [[ev1 r] c1]. destruct (acceptable_res r) eqn:Ha.
  - rewrite (acceptable_res_shape r Ha). reflexivity.
  - rewrite app_nil_r. reflexivity.
Qed.

Lemma retry_zero_outside n next c : retry_tr 0 (retry_tr n next) c = retry_tr n next c.
Proof. apply retry_tr_zero. Qed.

Lemma retry_zero_inside n next c : retry_tr n (retry_tr 0 next) c = retry_tr n next c.
Proof. apply retry_tr_ext. intros c0. apply retry_tr_zero. Qed.

(* ---- a stack never manufactures (nil, nil) ---- *)
Definition ok_tr (t : tr) : Prop := forall c, ok_res (snd (fst (t c))) = true.

Lemma wire_ok script : ok_tr (wire script).
Proof. intros c. cbn. destruct (script c) as [r | e [r|]]; reflexivity. Qed.

Lemma loop_tr_ok next : ok_tr next -> forall fuel a last c,
  (fuel = 0 -> ok_res last = true) -> ok_res (snd (fst (loop_tr next fuel a last c))) = true.
Proof.
  intros Hok. induction fuel as [|fuel IH]; intros a last c Hl.
  - cbn. apply Hl. reflexivity.
  - cbn [loop_tr]. pose proof (Hok c) as Hc. destruct (next c) as [[ev1 r] c1]. cbn [fst snd] in Hc.
    destruct (acceptable_res r) eqn:Ha.
    + cbn [fst snd]. rewrite (acceptable_res_shape r Ha). exact Hc.
    + pose proof (IH (S a) r c1 (fun _ => Hc)) as Hi.
      destruct (loop_tr next fuel (S a) r c1) as [[ev r'] c2]. exact Hi.
Qed.

Lemma retry_tr_ok n next : (0 <= n)%Z -> ok_tr next -> ok_tr (retry_tr n next).
Proof.
  intros Hn Hok c. unfold retry_tr. apply loop_tr_ok; [exact Hok|].
  intros H0. exfalso. assert (0 < Z.to_nat (n + 1)) by lia. lia.
Qed.

(* ---- logging is invisible to a retry around it ---- *)
Definition logres (r : result) : result :=
  match r with (_, Some e) => (None, Some e) | _ => r end.

Lemma acceptable_logres r : acceptable_res (logres r) = acceptable_res r.
Proof. destruct r as [[rp|] [e|]]; reflexivity. Qed.

Lemma logres_accepted r : acceptable_res r = true -> logres r = r.
Proof. destruct r as [[rp|] [e|]]; cbn; intros H; try discriminate; reflexivity. Qed.

Lemma log_tr_spec next c :
  log_tr next c = (fst (fst (next c)), logres (snd (fst (next c))), snd (next c)).
Proof. unfold log_tr, logres. destruct (next c) as [[ev r] c1]. reflexivity. Qed.

Lemma loop_tr_log next : forall fuel a last c,
  loop_tr (log_tr next) fuel a (logres last) c =
  (fst (fst (loop_tr next fuel a last c)), logres (snd (fst (loop_tr next fuel a last c))),
   snd (loop_tr next fuel a last c)).
Proof.
  induction fuel as [|fuel IH]; intros a last c; [reflexivity|].
  cbn [loop_tr]. rewrite log_tr_spec. destruct (next c) as [[ev1 r] c1]. cbn [fst snd].
  rewrite acceptable_logres. destruct (acceptable_res r) eqn:Ha.
  - cbn [fst snd]. rewrite (logres_accepted r Ha). rewrite (acceptable_res_shape r Ha).
    rewrite (logres_accepted r Ha). reflexivity.
  - rewrite (IH (S a) r c1). destruct (loop_tr next fuel (S a) r c1) as [[ev r'] c2]. reflexivity.
Qed.

(* retry around logging = logging around retry: same events, same wire calls, and the result
   differs only by logging's dropping of a response that accompanies an error *)
Lemma retry_log_commute n next c : retry_tr n (log_tr next) c = log_tr (retry_tr n next) c.
Proof.
  rewrite log_tr_spec. unfold retry_tr.
  change (@None resp, @None nat) with (logres (None, None)) at 1. apply loop_tr_log.
Qed.

(* ---- the first-acceptable / exhausted characterisation over an ARBITRARY stateful RoundTripper:
   [st next c i] is the wire state after i invocations of [next] from state c, [res next c i] the
   result of invocation i ---- *)
Fixpoint st (next : tr) (c i : nat) : nat :=
  match i with O => c | S i' => st next (snd (next c)) i' end.
Definition res (next : tr) (c i : nat) : result := snd (fst (next (st next c i))).

Lemma loop_tr_hit next : forall fuel a last c j,
  j < fuel ->
  (forall i, i < j -> acceptable_res (res next c i) = false) ->
  acceptable_res (res next c j) = true ->
  snd (fst (loop_tr next fuel a last c)) = res next c j /\
  snd (loop_tr next fuel a last c) = st next c (S j).
Proof.
  induction fuel as [|fuel IH]; intros a last c j Hj Hbefore Hacc; [lia|].
  cbn [loop_tr].
  assert (Hr0 : res next c 0 = snd (fst (next c))) by reflexivity.
  destruct (next c) as [[ev1 r] c1] eqn:E. cbn [fst snd] in Hr0.
  destruct j as [|j].
  - rewrite Hr0 in Hacc. rewrite Hacc. cbn [fst snd].
    rewrite (acceptable_res_shape r Hacc). split; [symmetry; exact Hr0|].
    cbn [st]. rewrite E. reflexivity.
  - pose proof (Hbefore 0 ltac:(lia)) as H0. rewrite Hr0 in H0. rewrite H0.
    assert (Hshift : forall i, res next c (S i) = res next c1 i).
    { intros i. unfold res. cbn [st]. rewrite E. reflexivity. }
    destruct (IH (S a) r c1 j ltac:(lia)) as [Hres Hst].
    + intros i Hi. rewrite <- Hshift. apply Hbefore. lia.
    + rewrite <- Hshift. exact Hacc.
    + destruct (loop_tr next fuel (S a) r c1) as [[ev r'] c2]. cbn [fst snd] in *.
      split; [rewrite Hshift; exact Hres|].
      change (st next c (S (S j))) with (st next (snd (next c)) (S j)). rewrite E. exact Hst.
Qed.

Lemma loop_tr_miss next : forall fuel a last c,
  (forall i, i < fuel -> acceptable_res (res next c i) = false) ->
  snd (fst (loop_tr next fuel a last c)) = match fuel with O => last | S f => res next c f end /\
  snd (loop_tr next fuel a last c) = st next c fuel.
Proof.
  induction fuel as [|fuel IH]; intros a last c Hnone; [split; reflexivity|].
  cbn [loop_tr].
  assert (Hr0 : res next c 0 = snd (fst (next c))) by reflexivity.
  destruct (next c) as [[ev1 r] c1] eqn:E. cbn [fst snd] in Hr0.
  pose proof (Hnone 0 ltac:(lia)) as H0. rewrite Hr0 in H0. rewrite H0.
  assert (Hshift : forall i, res next c (S i) = res next c1 i).
  { intros i. unfold res. cbn [st]. rewrite E. reflexivity. }
  destruct (IH (S a) r c1) as [Hres Hst].
  { intros i Hi. rewrite <- Hshift. apply Hnone. lia. }
  destruct (loop_tr next fuel (S a) r c1) as [[ev r'] c2]. cbn [fst snd] in *.
  split.
  - rewrite Hres. destruct fuel as [|f]; [symmetry; exact Hr0|]. symmetry. apply Hshift.
  - change (st next c (S fuel)) with (st next (snd (next c)) fuel). rewrite E. exact Hst.
Qed.

Lemma retry_tr_hit n next c j : (0 <= n)%Z ->
  j < Z.to_nat (n + 1) ->
  (forall i, i < j -> acceptable_res (res next c i) = false) ->
  acceptable_res (res next c j) = true ->
  snd (fst (retry_tr n next c)) = res next c j /\ snd (retry_tr n next c) = st next c (S j).
Proof. intros _. unfold retry_tr. apply loop_tr_hit. Qed.

Lemma retry_tr_miss n next c : (0 <= n)%Z ->
  (forall i, i < Z.to_nat (n + 1) -> acceptable_res (res next c i) = false) ->
  snd (fst (retry_tr n next c)) = res next c (Z.to_nat n) /\
  snd (retry_tr n next c) = st next c (Z.to_nat (n + 1)).
Proof.
  intros Hn Hnone. unfold retry_tr. destruct (loop_tr_miss next (Z.to_nat (n + 1)) 0 (None, None) c Hnone) as [Hres Hst].
  split; [|exact Hst]. rewrite Hres.
  replace (Z.to_nat (n + 1)) with (S (Z.to_nat n)) by lia. reflexivity.
Qed.
