(* Parse-of-render for the directive grammar (property C06): the doc comment that is the canonical rendering of
   a structured directive

       shoot: <Verb>(<path or "path">)
       shoot: alias={k1:v1},{k2:v2},...          (absent when there is no alias)

   is parsed by the model's parsePath / parseAlias (Model/Directive.v: the literal regular expressions run by the
   backtracking matcher) to exactly that directive.  This discharges the hypothesis [linked] of the main theorem
   for every method documented in the canonical form (Lemma canonical_linked).

   Part 1: facts about the matcher (greedy / lazy class stars, literals, capture preservation);
   Part 2: the request line; Part 3: placeholders; Part 4: trimming and the path check;
   Part 5: the alias line and its entries; Part 6: the canonical comment. *)
From Coq Require Import String Ascii List Bool Arith Lia.
From Shoot Require Import Base.Str Model.Directive Model.Rest Model.RestSpec Proofs.RestBase Proofs.RestProofs.
Import ListNotations.
Local Open Scope string_scope.
Local Open Scope list_scope.


(* ------------------------------------------------------------------ *)

Definition mk (pos : nat) (prev : option ascii) (rest : string) (caps : list (nat * (nat * nat))) : mstate :=
  {| ms_pos := pos; ms_prev := prev; ms_rest := rest; ms_caps := caps |}.

(* the byte before the position after consuming s (prev if s is empty) *)
Fixpoint last_of (prev : option ascii) (s : string) : option ascii :=
  match s with EmptyString => prev | String c r => last_of (Some c) r end.

Lemma last_of_app : forall a b p, last_of p (a ++ b)%string = last_of (last_of p a) b.
Proof. induction a as [|c a IH]; intros; simpl; [reflexivity | apply IH]. Qed.

Lemma length_sapp : forall a b : string, String.length (a ++ b)%string = String.length a + String.length b.
Proof. induction a as [|c a IH]; intros; simpl; [reflexivity | rewrite IH; reflexivity]. Qed.

(* ---- greedy class star ---- *)
Definition stops (p : ascii -> bool) (rest : string) : Prop :=
  match rest with EmptyString => True | String c _ => p c = false end.

(* the star takes the whole run first; if the continuation accepts there, that is the result *)
Lemma star_greedy_full : forall p run pos prev rest caps k e,
  sall p run = true -> stops p rest ->
  k (mk (pos + String.length run) (last_of prev run) rest caps) = Some e ->
  star_c true p pos prev (run ++ rest)%string caps k = Some e.
Proof.
  intros p. induction run as [|c run IH]; intros pos prev rest caps k e Hall Hst Hk; simpl in *.
  - rewrite Nat.add_0_r in Hk. destruct rest as [|c r]; simpl.
    + exact Hk.
    + simpl in Hst. rewrite Hst. exact Hk.
  - apply andb_true_iff in Hall. destruct Hall as [Hc Hall]. rewrite Hc.
    rewrite (IH (S pos) (Some c) rest caps k e Hall Hst); [reflexivity|].
    replace (S pos + String.length run) with (pos + S (String.length run)) by lia. exact Hk.
Qed.

(* the continuation refuses the full run ++ c but accepts one byte earlier *)
Lemma star_greedy_back1 : forall p run c pos prev rest caps k e,
  sall p run = true -> p c = true -> stops p rest ->
  k (mk (pos + String.length run + 1) (Some c) rest caps) = None ->
  k (mk (pos + String.length run) (last_of prev run) (String c rest) caps) = Some e ->
  star_c true p pos prev (run ++ String c rest)%string caps k = Some e.
Proof.
  intros p. induction run as [|x run IH]; intros c pos prev rest caps k e Hall Hc Hst Hn Hk; simpl in *.
  - rewrite Nat.add_0_r in *. rewrite Hc.
    assert (E : star_c true p (S pos) (Some c) rest caps k = None).
    { destruct rest as [|d r]; simpl.
      - replace (S pos) with (pos + 1) by lia. exact Hn.
      - simpl in Hst. rewrite Hst. replace (S pos) with (pos + 1) by lia. exact Hn. }
    rewrite E. simpl. exact Hk.
  - apply andb_true_iff in Hall. destruct Hall as [Hx Hall]. rewrite Hx.
    rewrite (IH c (S pos) (Some x) rest caps k e Hall Hc Hst); [reflexivity| |].
    + replace (S pos + String.length run + 1) with (pos + S (String.length run) + 1) by lia. exact Hn.
    + replace (S pos + String.length run) with (pos + S (String.length run)) by lia. exact Hk.
Qed.

(* if the continuation accepts right here, the star yields some result *)
Lemma star_some_here : forall g p s pos prev caps k e,
  k (mk pos prev s caps) = Some e -> exists e', star_c g p pos prev s caps k = Some e'.
Proof.
  intros g p s pos prev caps k e Hk. destruct s as [|c r]; simpl; [eauto|].
  destruct (p c); [|eauto]. destruct g.
  - destruct (star_c true p (S pos) (Some c) r caps k); simpl; eauto.
  - unfold mk in Hk. rewrite Hk. simpl. eauto.
Qed.

(* ---- literals ---- *)
Lemma mt_ch : forall x pos prev r caps k,
  mt (ch x) (mk pos prev (String x r) caps) k = k (mk (S pos) (Some x) r caps).
Proof. intros. simpl. rewrite Ascii.eqb_refl. reflexivity. Qed.

Lemma mt_ch_fail : forall x y pos prev r caps k, x <> y -> mt (ch x) (mk pos prev (String y r) caps) k = None.
Proof. intros. simpl. destruct (Ascii.eqb x y) eqn:E; [apply Ascii.eqb_eq in E; contradiction | reflexivity]. Qed.

Lemma mt_lit : forall s pos prev r caps k,
  s <> EmptyString ->
  mt (lit s) (mk pos prev (s ++ r)%string caps) k = k (mk (pos + String.length s) (last_of prev s) r caps).
Proof.
  induction s as [|c s IH]; intros pos prev r caps k Hne; [contradiction|].
  destruct s as [|d s'].
  - simpl. rewrite Ascii.eqb_refl. unfold step, mk. simpl. replace (pos + 1) with (S pos) by lia. reflexivity.
  - change (lit (String c (String d s'))) with (RCat (ch c) (lit (String d s'))).
    cbn [mt]. change ((String c (String d s') ++ r)%string) with (String c (String d s' ++ r)%string).
    fold (mk pos prev (String c (String d s' ++ r)%string) caps). rewrite mt_ch.
    rewrite IH by discriminate. simpl String.length. simpl last_of.
    replace (S pos + S (String.length s')) with (pos + S (S (String.length s'))) by lia. reflexivity.
Qed.


(* ------------------------------------------------------------------ *)

Fixpoint nogroup (n : nat) (r : re) : bool :=
  match r with
  | RCat a b | RAlt a b => nogroup n a && nogroup n b
  | RStar _ a => nogroup n a
  | RGroup m a => negb (Nat.eqb m n) && nogroup n a
  | _ => true
  end.

Lemma star_c_inv : forall g p s pos prev caps k e,
  star_c g p pos prev s caps k = Some e -> exists pos' prev' s', k (mk pos' prev' s' caps) = Some e.
Proof.
  intros g p. induction s as [|c r IH]; intros pos prev caps k e H; simpl in H.
  - eauto.
  - destruct (p c); [|eauto]. destruct g.
    + destruct (star_c true p (S pos) (Some c) r caps k) eqn:E; simpl in H.
      * inversion H; subst. eapply IH. exact E.
      * eauto.
    + match type of H with orelse ?a _ = _ => destruct a eqn:E end; simpl in H.
      * inversion H; subst. eauto.
      * eapply IH. exact H.
Qed.

(* a sub-expression without group n leaves the capture of group n alone *)
Lemma mt_nogroup : forall n r, nogroup n r = true ->
  forall st k e, mt r st k = Some e ->
  exists st', k st' = Some e /\ cap_lookup n (ms_caps st') = cap_lookup n (ms_caps st).
Proof.
  intros n. induction r as [|p|a IHa b IHb|a IHa b IHb|g p|g a IHa|m a IHa|m|m]; intros Hng st k e H; simpl in Hng.
  - exists st. auto.
  - simpl in H. destruct (ms_rest st) as [|c s']; [discriminate|]. destruct (p c); [|discriminate].
    eexists. split; [exact H | reflexivity].
  - apply andb_true_iff in Hng. destruct Hng as [Ha Hb]. cbn [mt] in H.
    destruct (IHa Ha _ _ _ H) as [s1 [H1 C1]]. destruct (IHb Hb _ _ _ H1) as [s2 [H2 C2]].
    exists s2. split; [exact H2 | congruence].
  - apply andb_true_iff in Hng. destruct Hng as [Ha Hb]. cbn [mt] in H.
    destruct (mt a st k) eqn:E; simpl in H.
    + inversion H; subst. apply (IHa Ha _ _ _ E).
    + apply (IHb Hb _ _ _ H).
  - cbn [mt] in H. apply star_c_inv in H. destruct H as [pos' [prev' [s' H]]].
    eexists. split; [exact H | reflexivity].
  - cbn [mt] in H. revert H. generalize (S (String.length (ms_rest st))) as fuel. intros fuel. revert st.
    induction fuel as [|f IHf]; intros st H; [simpl in H; discriminate|].
    cbn [star_loop] in H.
    destruct g.
    + match type of H with orelse ?A _ = _ => destruct A eqn:E end; simpl in H.
      * inversion H; subst. destruct (IHa Hng _ _ _ E) as [s1 [H1 C1]].
        destruct (Nat.eqb (ms_pos s1) (ms_pos st)); [discriminate|].
        destruct (IHf _ H1) as [s2 [H2 C2]]. exists s2. split; [exact H2 | congruence].
      * exists st. auto.
    + match type of H with orelse ?A _ = _ => destruct A eqn:E end; simpl in H.
      * inversion H; subst. exists st. auto.
      * destruct (IHa Hng _ _ _ H) as [s1 [H1 C1]].
        destruct (Nat.eqb (ms_pos s1) (ms_pos st)); [discriminate|].
        destruct (IHf _ H1) as [s2 [H2 C2]]. exists s2. split; [exact H2 | congruence].
  - apply andb_true_iff in Hng. destruct Hng as [Hm Ha]. cbn [mt] in H.
    destruct (IHa Ha _ _ _ H) as [s1 [H1 C1]]. eexists. split; [exact H1|].
    simpl. apply negb_true_iff in Hm. rewrite Hm. exact C1.
  - simpl in H. destruct (ms_prev st) as [c|]; [destruct (m && is_nl c); [|discriminate]|]; exists st; auto.
  - simpl in H. destruct (ms_rest st) as [|c r]; [|destruct (m && is_nl c); [|discriminate]]; exists st; auto.
Qed.


(* ------------------------------------------------------------------ *)

Definition final (x : mstate) : option mstate := Some x.
Definition nls : string := String nl EmptyString.
Definition verb_spellings : list string :=
  ["Get"; "GET"; "get"; "Post"; "POST"; "post"; "Put"; "PUT"; "put"; "Patch"; "PATCH"; "patch"; "Delete"; "DELETE"; "delete"].
Definition re_verbs : re :=
  RAlt (liti "get") (RAlt (liti "post") (RAlt (liti "put") (RAlt (liti "patch") (liti "delete")))).

Lemma mt_verbs : forall v, In v verb_spellings ->
  forall pos prev r caps k,
  mt re_verbs (mk pos prev (v ++ String "(" r)%string caps) k
  = k (mk (pos + String.length v) (last_of prev v) (String "(" r) caps).
Proof.
  intros v Hin pos prev r caps k. unfold verb_spellings in Hin. simpl in Hin.
  repeat (destruct Hin as [Hin|Hin];
          [subst v; unfold re_verbs; simpl; unfold step, mk; simpl; rewrite (Nat.add_comm pos); simpl;
           match goal with |- context [k ?s] => destruct (k s); reflexivity end |]).
  contradiction.
Qed.

Definition TAIL : re := RSeq [ch ")"; RStarC true not_word; ROpt (ch ";"); RStarC true not_word; REol true].

Lemma tail_ok : forall pos prev rest caps,
  exists e, mt TAIL (mk pos prev (String ")" (String nl rest)) caps) final = Some e /\
            forall n, cap_lookup n (ms_caps e) = cap_lookup n caps.
Proof.
  intros pos prev rest caps.
  assert (Ex : exists e, mt TAIL (mk pos prev (String ")" (String nl rest)) caps) final = Some e).
  { unfold TAIL, RSeq, ROpt. cbn [mt]. rewrite mt_ch. cbn [mk ms_pos ms_prev ms_rest ms_caps].
    match goal with |- exists e, star_c true not_word ?a ?b ?c ?d ?k = Some e =>
      assert (Hk : exists e1, k (mk a b c d) = Some e1) end.
    { rewrite mt_ch_fail by (intros X; inversion X). cbn [orelse mk ms_pos ms_prev ms_rest ms_caps].
      match goal with |- exists e1, star_c true not_word ?a ?b ?c ?d ?k = Some e1 =>
        destruct (star_some_here true not_word c a b d k (mk a b c d)) as [e2 He2]; [reflexivity | exists e2; exact He2] end. }
    destruct Hk as [e1 He1].
    match goal with |- exists e, star_c true not_word ?a ?b ?c ?d ?k = Some e =>
      destruct (star_some_here true not_word c a b d k e1 He1) as [e2 He2]; exists e2; exact He2 end. }
  destruct Ex as [e He]. exists e. split; [exact He|].
  intros n. destruct (mt_nogroup n TAIL eq_refl _ _ _ He) as [st' [H1 H2]].
  unfold final in H1. inversion H1; subst. exact H2.
Qed.

Lemma verb_head : forall v, In v verb_spellings -> exists c v', v = String c v' /\ not_word c = false.
Proof.
  intros v Hin. unfold verb_spellings in Hin. simpl in Hin.
  repeat (destruct Hin as [Hin|Hin]; [subst v; eexists; eexists; split; [reflexivity | reflexivity] |]).
  contradiction.
Qed.

Lemma sall_not_nl_paren : not_nl ")" = true. Proof. reflexivity. Qed.

Definition R1 : re :=
  RSeq [RGroup 1 re_verbs; ch "("; RGroup 2 (RStarC true not_nl); ch ")"; RStarC true not_word; ROpt (ch ";");
        RStarC true not_word; REol true].

Lemma re_req_shape : re_req = RCat (RBol true) (RCat (liti "shoot:") (RCat (RPlusC true not_word) R1)).
Proof. reflexivity. Qed.

Lemma shoot_prefix : forall (R : re) c X' K,
  not_word c = false ->
  mt (RCat (RBol true) (RCat (liti "shoot:") (RCat (RPlusC true not_word) R)))
     (mk 0 None ("shoot: " ++ String c X')%string []) K
  = mt R (mk 7 (Some " "%char) (String c X') []) K.
Proof.
  intros R c X' K Hc. unfold RPlusC. cbn [mt mk ms_prev]. unfold liti, chi. cbn [mt].
  simpl. rewrite Hc. reflexivity.
Qed.

(* the request line `shoot: Verb(inner)` at the start of a comment: groups 1 and 2 *)
Lemma req_line_match : forall v inner rest,
  In v verb_spellings -> sall not_nl inner = true ->
  exists e, mt re_req (mk 0 None ("shoot: " ++ v ++ "(" ++ inner ++ ")" ++ nls ++ rest)%string []) final = Some e /\
            cap_lookup 1 (ms_caps e) = Some (7, 7 + String.length v) /\
            cap_lookup 2 (ms_caps e) = Some (8 + String.length v, 8 + String.length v + String.length inner).
Proof.
  intros v inner rest Hv Hin.
  destruct (verb_head v Hv) as [c [v' [Ev Hc]]].
  rewrite re_req_shape.
  replace ("shoot: " ++ v ++ "(" ++ inner ++ ")" ++ nls ++ rest)%string
    with ("shoot: " ++ String c (v' ++ "(" ++ inner ++ ")" ++ nls ++ rest))%string by (rewrite Ev; reflexivity).
  rewrite shoot_prefix by exact Hc.
  replace (String c (v' ++ "(" ++ inner ++ ")" ++ nls ++ rest))%string
    with (v ++ String "(" (inner ++ String ")" (String nl rest)))%string by (rewrite Ev; reflexivity).
  unfold R1, RSeq. cbn [mt].
  rewrite (mt_verbs v Hv). cbn [mk ms_pos ms_prev ms_rest ms_caps].
  match goal with |- context [mt (ch "(") ?st ?k] => change st with (mk (7 + String.length v) (last_of (Some " "%char) v) (String "(" (inner ++ String ")" (String nl rest))%string) ((1, (7, 7 + String.length v)) :: [])) end.
  rewrite mt_ch. cbn [mk ms_pos ms_prev ms_rest ms_caps].
  match goal with |- context [star_c true not_nl ?a ?b _ ?d ?k] =>
    destruct (tail_ok (a + String.length inner) (last_of b inner) rest ((2, (a, a + String.length inner)) :: d)) as [e [He Hcap]];
    exists e; split;
    [ apply (star_greedy_back1 not_nl inner ")" a b (String nl rest) d k e Hin eq_refl eq_refl) | ]
  end.
  - cbn [mk ms_pos ms_prev ms_rest ms_caps]. rewrite mt_ch_fail by (intros X; inversion X). reflexivity.
  - cbn [mk ms_pos ms_prev ms_rest ms_caps]. exact He.
  - rewrite !Hcap. simpl cap_lookup. split; f_equal; f_equal; lia.
Qed.


(* ------------------------------------------------------------------ *)

Lemma substring_0_app : forall b c, substring 0 (String.length b) (b ++ c)%string = b.
Proof. induction b as [|x b IH]; intros c; simpl; [destruct c; reflexivity | rewrite IH; reflexivity]. Qed.

Lemma substring_mid : forall a b c, substring (String.length a) (String.length b) (a ++ b ++ c)%string = b.
Proof. induction a as [|x a IH]; intros b c; simpl; [apply substring_0_app | apply IH]. Qed.

Lemma search_first : forall r pos prev s e,
  mt r (mk pos prev s []) final = Some e -> search_from r pos prev s = Some (pos, e).
Proof. intros r pos prev s e H. destruct s; simpl; unfold mk, final in H; rewrite H; reflexivity. Qed.

Lemma mt_param_fail : forall c pos prev r caps k,
  c <> "{"%char -> mt re_path_param (mk pos prev (String c r) caps) k = None.
Proof.
  intros. unfold re_path_param, RSeq. cbn [mt]. apply mt_ch_fail. intros E. apply H. symmetry. exact E.
Qed.

(* a search for `{(\w+)}` walks over bytes that are not an opening brace *)
Lemma search_skip : forall l pos prev y,
  no_char "{" l = true ->
  search_from re_path_param pos prev (l ++ y)%string = search_from re_path_param (pos + String.length l) (last_of prev l) y.
Proof.
  induction l as [|c l IH]; intros pos prev y H.
  - simpl. rewrite Nat.add_0_r. reflexivity.
  - unfold no_char in H. cbn [sall] in H. apply andb_true_iff in H. destruct H as [Hc H].
    change ((String c l ++ y)%string) with (String c (l ++ y)%string). cbn [search_from].
    fold (mk pos prev (String c (l ++ y)%string) []).
    rewrite mt_param_fail.
    + rewrite IH by exact H. cbn [String.length last_of].
      replace (S pos + String.length l) with (pos + S (String.length l)) by lia. reflexivity.
    + intros E. subst c. simpl in Hc. discriminate.
Qed.

Definition word_name (h : string) : bool := nonempty h && sall is_word h.

Lemma hole_match : forall h pos prev y,
  word_name h = true ->
  mt re_path_param (mk pos prev ("{" ++ h ++ "}" ++ y)%string []) final
  = Some (mk (pos + String.length h + 2) (Some "}"%char) y [(1, (S pos, S pos + String.length h))]).
Proof.
  intros h pos prev y Hw. unfold word_name in Hw. apply andb_true_iff in Hw. destruct Hw as [Hne Hall].
  destruct h as [|c h]; [discriminate|]. simpl in Hall. apply andb_true_iff in Hall. destruct Hall as [Hc Hall].
  unfold re_path_param, RSeq, RPlusC. cbn [mt].
  change ("{" ++ String c h ++ "}" ++ y)%string with (String "{" (String c (h ++ String "}" y))).
  rewrite mt_ch. cbn [mt mk ms_pos ms_prev ms_rest ms_caps]. rewrite Hc. cbn [step ms_pos ms_prev ms_rest ms_caps].
  erewrite (star_greedy_full is_word h (S (S pos)) (Some c) (String "}" y)); [reflexivity | exact Hall | reflexivity |].
  cbn [mk ms_pos ms_prev ms_rest ms_caps]. rewrite mt_ch. unfold final, mk. simpl String.length.
  f_equal. f_equal; try lia. f_equal. f_equal. f_equal. lia.
Qed.

Definition wf_toks (ts : list ptok) : bool :=
  forallb (fun t => match t with PLit l => no_char "{" l | PHole h => word_name h end) ts.

Lemma drop_str_app' : forall a b, drop_str (String.length a) (a ++ b)%string = b.
Proof. exact drop_str_app. Qed.

Lemma search_empty : forall pos prev, search_from re_path_param pos prev EmptyString = None.
Proof. reflexivity. Qed.

Lemma find_all_holes_aux : forall ts pre lit fuel,
  wf_toks ts = true -> no_char "{" lit = true -> List.length (holes ts) < fuel ->
  map (fun m => group (pre ++ lit ++ render_toks ts)%string m 1)
      (find_all_aux fuel re_path_param (pre ++ lit ++ render_toks ts)%string (String.length pre))
  = holes ts.
Proof.
  induction ts as [|t ts IH]; intros pre lit fuel Hwf Hlit Hfuel.
  - destruct fuel as [|f]; [reflexivity|]. cbn [find_all_aux].
    rewrite drop_str_app'. change (render_toks []) with EmptyString.
    rewrite search_skip by exact Hlit. rewrite search_empty. reflexivity.
  - simpl in Hwf. apply andb_true_iff in Hwf. destruct Hwf as [Ht Hwf].
    rewrite render_toks_cons. destruct t as [l|h].
    + simpl render_tok. simpl holes.
      replace (pre ++ lit ++ l ++ render_toks ts)%string with (pre ++ (lit ++ l) ++ render_toks ts)%string
        by (rewrite !sapp_assoc; reflexivity).
      apply IH; [exact Hwf | rewrite no_char_app, Hlit, Ht; reflexivity | exact Hfuel].
    + change (holes (PHole h :: ts)) with (h :: holes ts) in *. simpl in Hfuel.
      destruct fuel as [|f]; [lia|]. cbn [find_all_aux].
      rewrite drop_str_app'. simpl render_tok.
      rewrite search_skip by exact Hlit.
      match goal with |- context [search_from re_path_param ?p ?pv ?str] =>
        replace str with ("{" ++ h ++ "}" ++ render_toks ts)%string by (simpl; rewrite sapp_assoc; reflexivity) end.
      rewrite (search_first _ _ _ _ _ (hole_match h _ _ _ Ht)).
      cbn [mk ms_pos].
      replace (Nat.leb (String.length pre + String.length lit + String.length h + 2) (String.length pre)) with false
        by (symmetry; apply Nat.leb_gt; lia).
      cbn [map]. f_equal.
      * unfold group. cbn [mk ms_caps cap_lookup Nat.eqb].
        replace (S (String.length pre + String.length lit) + String.length h - S (String.length pre + String.length lit))
          with (String.length h) by lia.
        replace (pre ++ lit ++ "{" ++ h ++ "}" ++ render_toks ts)%string
          with ((pre ++ lit ++ "{") ++ h ++ ("}" ++ render_toks ts))%string by (rewrite !sapp_assoc; reflexivity).
        replace (S (String.length pre + String.length lit)) with (String.length (pre ++ lit ++ "{")%string)
          by (rewrite !length_sapp; simpl; lia).
        apply substring_mid.
      * replace (pre ++ lit ++ "{" ++ h ++ "}" ++ render_toks ts)%string
          with ((pre ++ lit ++ "{" ++ h ++ "}") ++ "" ++ render_toks ts)%string by (rewrite !sapp_assoc; reflexivity).
        replace (String.length pre + String.length lit + String.length h + 2)
          with (String.length (pre ++ lit ++ "{" ++ h ++ "}")%string) by (rewrite !length_sapp; simpl; lia).
        apply IH; [exact Hwf | reflexivity | lia].
Qed.


(* ------------------------------------------------------------------ *)

(* ---- reversal and trimming ---- *)
Lemma los_app : forall a b, list_of_string (a ++ b)%string = list_of_string a ++ list_of_string b.
Proof. induction a as [|c a IH]; intros; simpl; [reflexivity | rewrite IH; reflexivity]. Qed.
Lemma sol_app : forall x y, string_of_list (x ++ y) = (string_of_list x ++ string_of_list y)%string.
Proof. induction x as [|c x IH]; intros; simpl; [reflexivity | rewrite IH; reflexivity]. Qed.
Lemma sol_los : forall s, string_of_list (list_of_string s) = s.
Proof. induction s as [|c s IH]; simpl; [reflexivity | rewrite IH; reflexivity]. Qed.
Lemma los_sol : forall l, list_of_string (string_of_list l) = l.
Proof. induction l as [|c l IH]; simpl; [reflexivity | rewrite IH; reflexivity]. Qed.
Lemma srev_app : forall a b, srev (a ++ b)%string = (srev b ++ srev a)%string.
Proof. intros. unfold srev. rewrite los_app, rev_app_distr, sol_app. reflexivity. Qed.
Lemma srev_invol : forall s, srev (srev s) = s.
Proof. intros. unfold srev. rewrite los_sol, rev_involutive, sol_los. reflexivity. Qed.
Lemma srev_single : forall c, srev (String c EmptyString) = String c EmptyString.
Proof. reflexivity. Qed.

Definition first_ok (q : ascii -> bool) (s : string) : bool :=
  match s with String c _ => negb (q c) | EmptyString => false end.
Definition last_ok (q : ascii -> bool) (s : string) : bool := first_ok q (srev s).

Lemma trim_left_id : forall q s, first_ok q s = true -> trim_left_p q s = s.
Proof. intros q s H. destruct s as [|c r]; [discriminate|]. simpl in *. apply negb_true_iff in H. rewrite H. reflexivity. Qed.

Lemma trim_id : forall q s, first_ok q s = true -> last_ok q s = true -> trim_p q s = s.
Proof.
  intros q s H1 H2. unfold trim_p. rewrite (trim_left_id q s H1). unfold trim_right_p.
  rewrite (trim_left_id q (srev s) H2). apply srev_invol.
Qed.

Definition dq : string := String dquote EmptyString.

Lemma first_ok_app : forall q a b, first_ok q a = true -> first_ok q (a ++ b)%string = true.
Proof. intros q a b H. destruct a; [discriminate | exact H]. Qed.

(* strings.TrimSpace leaves a quoted text alone; strings.Trim(_, quote) removes exactly the two quotes *)
Lemma trim_space_quoted : forall p, trim_space (dq ++ p ++ dq)%string = (dq ++ p ++ dq)%string.
Proof.
  intros p. apply trim_id.
  - reflexivity.
  - unfold last_ok. rewrite !srev_app. reflexivity.
Qed.

Lemma trim_dquotes_quoted : forall p,
  first_ok (Ascii.eqb dquote) p = true -> last_ok (Ascii.eqb dquote) p = true ->
  trim_dquotes (dq ++ p ++ dq)%string = p.
Proof.
  intros p H1 H2. unfold trim_dquotes, trim_p.
  change (dq ++ p ++ dq)%string with (String dquote (p ++ dq)%string). cbn [trim_left_p]. rewrite Ascii.eqb_refl.
  rewrite (trim_left_id _ (p ++ dq)%string) by (apply first_ok_app; exact H1).
  unfold trim_right_p. rewrite srev_app. change (srev dq) with dq.
  change (dq ++ srev p)%string with (String dquote (srev p)). cbn [trim_left_p]. rewrite Ascii.eqb_refl.
  rewrite (trim_left_id _ (srev p)) by exact H2. apply srev_invol.
Qed.

Definition no_dq (s : string) : bool := sall (not_c dquote) s.

Lemma star_greedy_end : forall p run pos prev caps k e,
  sall p run = true ->
  k (mk (pos + String.length run) (last_of prev run) EmptyString caps) = Some e ->
  star_c true p pos prev run caps k = Some e.
Proof.
  intros. rewrite <- (sapp_nil_r run) at 1. apply star_greedy_full; [assumption | exact I | assumption].
Qed.

Lemma re_path_plain : forall c p1, no_dq (String c p1) = true -> matches re_path (String c p1) = true.
Proof.
  intros c p1 H. unfold no_dq in H. cbn [sall] in H. apply andb_true_iff in H. destruct H as [Hc Hp].
  unfold matches, find.
  assert (E : exists e, mt re_path (mk 0 None (String c p1) []) final = Some e).
  { unfold re_path, RSeq, RPlusC. cbn [mt mk ms_prev ms_pos ms_rest ms_caps]. unfold orelse at 1.
    rewrite mt_ch_fail.
    - cbn [mt mk ms_prev ms_pos ms_rest ms_caps]. rewrite Hc. cbn [step mk ms_prev ms_pos ms_rest ms_caps].
      eexists. apply (star_greedy_end (not_c dquote) p1 1 (Some c)); [exact Hp|].
      cbn [mk ms_prev ms_pos ms_rest ms_caps]. reflexivity.
    - intros X. subst c. unfold not_c in Hc. rewrite Ascii.eqb_refl in Hc. discriminate. }
  destruct E as [e He]. rewrite (search_first _ _ _ _ _ He). reflexivity.
Qed.

Lemma re_path_quoted : forall c p1, no_dq (String c p1) = true -> matches re_path (dq ++ String c p1 ++ dq)%string = true.
Proof.
  intros c p1 H. unfold no_dq in H. cbn [sall] in H. apply andb_true_iff in H. destruct H as [Hc Hp].
  unfold matches, find.
  assert (E : exists e, mt re_path (mk 0 None (dq ++ String c p1 ++ dq)%string []) final = Some e).
  { unfold re_path, RSeq, RPlusC. cbn [mt mk ms_prev ms_pos ms_rest ms_caps]. unfold orelse at 1.
    change (dq ++ String c p1 ++ dq)%string with (String dquote (String c (p1 ++ dq)%string)).
    rewrite mt_ch. cbn [mt mk ms_prev ms_pos ms_rest ms_caps]. rewrite Hc. cbn [step mk ms_prev ms_pos ms_rest ms_caps].
    match goal with |- exists e, match ?X with Some x => Some x | None => _ end = Some e =>
      assert (Ex : exists e, X = Some e) end.
    { eexists. apply (star_greedy_full (not_c dquote) p1 2 (Some c) dq); [exact Hp | unfold stops, dq, not_c; rewrite Ascii.eqb_refl; reflexivity|].
      cbn [mk ms_prev ms_pos ms_rest ms_caps]. unfold dq. rewrite mt_ch. cbn [mk ms_prev ms_pos ms_rest ms_caps]. reflexivity. }
    destruct Ex as [e He]. rewrite He. eauto. }
  destruct E as [e He]. rewrite (search_first _ _ _ _ _ He). reflexivity.
Qed.

Definition path_ok (p : string) : bool :=
  sall not_nl p && no_dq p && first_ok is_go_space p && last_ok is_go_space p
  && first_ok (Ascii.eqb dquote) p && last_ok (Ascii.eqb dquote) p.
Definition quote_of (quoted : bool) : string := if quoted then dq else EmptyString.
Definition req_line (v : string) (quoted : bool) (p : string) : string :=
  ("shoot: " ++ v ++ "(" ++ quote_of quoted ++ p ++ quote_of quoted ++ ")")%string.

Lemma sall_app : forall q a b, sall q (a ++ b)%string = sall q a && sall q b.
Proof. intros q. induction a as [|c a IH]; intros b; simpl; [reflexivity | rewrite IH, andb_assoc; reflexivity]. Qed.

Lemma holes_le_length : forall ts, List.length (holes ts) <= String.length (render_toks ts).
Proof.
  induction ts as [|t ts IH]; [simpl; lia|]. rewrite render_toks_cons, length_sapp.
  destruct t as [l|h]; simpl holes; simpl List.length; [lia|]. simpl render_tok. simpl String.length. lia.
Qed.

Lemma find_all_holes : forall ts, wf_toks ts = true ->
  map (fun m => group (render_toks ts) m 1) (find_all re_path_param (render_toks ts)) = holes ts.
Proof.
  intros ts H. unfold find_all.
  pose proof (find_all_holes_aux ts EmptyString EmptyString (S (String.length (render_toks ts))) H eq_refl) as X.
  simpl in X. apply X. pose proof (holes_le_length ts). lia.
Qed.

(* parsePath on the canonical request line, followed by anything *)
Lemma parse_path_canonical : forall v quoted ts rest,
  In v verb_spellings -> wf_toks ts = true -> path_ok (render_toks ts) = true ->
  parse_path (req_line v quoted (render_toks ts) ++ nls ++ rest)%string = PathOk (upper v) (render_toks ts) (holes ts).
Proof.
  intros v quoted ts rest Hv Hwf Hok. set (p := render_toks ts) in *.
  unfold path_ok in Hok. repeat (apply andb_true_iff in Hok; let H := fresh "K" in destruct Hok as [Hok H]).
  rename Hok into Knl.
  set (inner := (quote_of quoted ++ p ++ quote_of quoted)%string).
  assert (Hinner : sall not_nl inner = true).
  { unfold inner. rewrite !sall_app, Knl. destruct quoted; reflexivity. }
  assert (Edoc : (req_line v quoted p ++ nls ++ rest)%string = ("shoot: " ++ v ++ "(" ++ inner ++ ")" ++ nls ++ rest)%string).
  { unfold req_line, inner. rewrite !sapp_assoc. reflexivity. }
  rewrite Edoc. clear Edoc.
  destruct (req_line_match v inner rest Hv Hinner) as [e [He [C1 C2]]].
  unfold parse_path, find. rewrite (search_first _ _ _ _ _ He).
  assert (G1 : group ("shoot: " ++ v ++ "(" ++ inner ++ ")" ++ nls ++ rest)%string e 1 = v).
  { unfold group. rewrite C1. replace (7 + String.length v - 7) with (String.length v) by lia.
    change 7 with (String.length "shoot: "). apply substring_mid. }
  assert (G2 : group ("shoot: " ++ v ++ "(" ++ inner ++ ")" ++ nls ++ rest)%string e 2 = inner).
  { unfold group. rewrite C2.
    replace (8 + String.length v + String.length inner - (8 + String.length v)) with (String.length inner) by lia.
    replace ("shoot: " ++ v ++ "(" ++ inner ++ ")" ++ nls ++ rest)%string
      with (("shoot: " ++ v ++ "(") ++ inner ++ (")" ++ nls ++ rest))%string by (rewrite !sapp_assoc; reflexivity).
    replace (8 + String.length v) with (String.length ("shoot: " ++ v ++ "(")%string) by (rewrite !length_sapp; simpl; lia).
    apply substring_mid. }
  rewrite G1, G2.
  assert (Hp : exists c p1, p = String c p1).
  { destruct p as [|c p1]; [discriminate | eauto]. }
  destruct Hp as [c [p1 Ep]].
  destruct quoted.
  - unfold inner, quote_of. rewrite trim_space_quoted.
    rewrite Ep at 1. rewrite re_path_quoted by (rewrite <- Ep; exact K3). cbn [negb].
    rewrite trim_dquotes_quoted by assumption.
    unfold p. rewrite find_all_holes by exact Hwf. reflexivity.
  - unfold inner, quote_of. cbn [append]. rewrite sapp_nil_r.
    unfold trim_space. rewrite trim_id by assumption.
    rewrite Ep at 1. rewrite re_path_plain by (rewrite <- Ep; exact K3). cbn [negb].
    unfold trim_dquotes. rewrite trim_id by assumption.
    unfold p. rewrite find_all_holes by exact Hwf. reflexivity.
Qed.


(* ------------------------------------------------------------------ *)

Lemma mt_lit_fail : forall s pos prev r caps k,
  s <> EmptyString -> String.prefix s r = false -> mt (lit s) (mk pos prev r caps) k = None.
Proof.
  induction s as [|c s IH]; intros pos prev r caps k Hne Hp; [contradiction|].
  destruct r as [|d r]; [destruct s; reflexivity|].
  simpl in Hp. destruct (ascii_dec c d) as [E|N].
  - subst d. destruct s as [|c2 s'].
    + destruct r; discriminate.
    + change (lit (String c (String c2 s'))) with (RCat (ch c) (lit (String c2 s'))). cbn [mt]. rewrite mt_ch.
      apply IH; [discriminate | exact Hp].
  - destruct s as [|c2 s']; [apply mt_ch_fail; exact N|].
    change (lit (String c (String c2 s'))) with (RCat (ch c) (lit (String c2 s'))). cbn [mt]. apply mt_ch_fail. exact N.
Qed.

(* does kw occur in s *)
Fixpoint has_kw (kw s : string) : bool :=
  String.prefix kw s || match s with String _ r => has_kw kw r | EmptyString => false end.

(* a keyword without newline that is a prefix of b ++ newline ++ r is a prefix of b *)
Lemma prefix_before_nl : forall kw b r,
  sall not_nl kw = true -> String.prefix kw (b ++ String nl r)%string = true -> String.prefix kw b = true.
Proof.
  induction kw as [|c kw IH]; intros b r Hk Hp; [destruct b; reflexivity|].
  simpl in Hk. apply andb_true_iff in Hk. destruct Hk as [Hc Hk].
  destruct b as [|d b]; simpl in Hp |- *.
  - destruct (ascii_dec c nl) as [E|N]; [|discriminate]. subst c. discriminate.
  - destruct (ascii_dec c d); [eapply IH; eassumption | discriminate].
Qed.

Lemma has_kw_suffix : forall kw a b, has_kw kw (a ++ b)%string = false -> has_kw kw b = false.
Proof.
  intros kw. induction a as [|c a IH]; intros b H; [exact H|].
  simpl in H. apply orb_false_iff in H. destruct H as [_ H]. apply IH. exact H.
Qed.

Lemma has_kw_no_prefix : forall kw s, has_kw kw s = false -> String.prefix kw s = false.
Proof. intros kw s H. destruct s; simpl in H; apply orb_false_iff in H; tauto. Qed.

Lemma lazy_star_all_fail : forall p run pos prev rest caps k,
  sall p run = true -> stops p rest ->
  (forall a b, run = (a ++ b)%string -> k (mk (pos + String.length a) (last_of prev a) (b ++ rest)%string caps) = None) ->
  star_c false p pos prev (run ++ rest)%string caps k = None.
Proof.
  intros p. induction run as [|c run IH]; intros pos prev rest caps k Hall Hst Hk.
  - pose proof (Hk EmptyString EmptyString eq_refl) as H0. simpl in H0. rewrite Nat.add_0_r in H0.
    simpl. destruct rest as [|d r]; simpl; [exact H0|]. simpl in Hst. rewrite Hst. exact H0.
  - cbn [sall] in Hall. apply andb_true_iff in Hall. destruct Hall as [Hc Hall].
    change ((String c run ++ rest)%string) with (String c (run ++ rest)%string). cbn [star_c]. rewrite Hc.
    pose proof (Hk EmptyString (String c run) eq_refl) as H0. simpl in H0. rewrite Nat.add_0_r in H0.
    unfold mk in H0. rewrite H0. cbn [orelse].
    apply IH; [exact Hall | exact Hst|].
    intros a b E. specialize (Hk (String c a) b). simpl in Hk.
    replace (S pos + String.length a) with (pos + S (String.length a)) by lia. apply Hk. rewrite E. reflexivity.
Qed.

(* the part of re_alias after the lazy `.*?` *)
Definition RA2 : re :=
  RSeq [RChar not_word; lit "alias=";
        RGroup 1 (RPlusC true (fun c => negb (Ascii.eqb c ";") && not_nl c));
        RGroup 2 (RAlt (RCat (ch ";") (RStarC true not_nl)) (RStarC true is_space_re));
        REol true].
Lemma re_alias_shape : re_alias = RCat (RBol true) (RCat (lit "shoot:") (RCat (RStarC false not_nl) RA2)).
Proof. reflexivity. Qed.

Lemma ra2_fail : forall pos prev s caps k,
  match s with String c r => String.prefix "alias=" r = false | EmptyString => True end ->
  mt RA2 (mk pos prev s caps) k = None.
Proof.
  intros pos prev s caps k H. unfold RA2, RSeq. cbn [mt mk ms_rest].
  destruct s as [|c r]; [reflexivity|]. destruct (not_word c); [|reflexivity].
  cbn [step mk ms_pos ms_prev ms_rest ms_caps].
  match goal with |- mt (lit "alias=") ?st ?kk = None => change st with (mk (S pos) (Some c) r caps) end.
  apply mt_lit_fail; [discriminate | exact H].
Qed.

(* a line "shoot:<tl>" without the keyword: the expression does not match at its start *)
Lemma alias_line_start_fails : forall tl tail,
  sall not_nl tl = true -> has_kw "alias=" tl = false -> String.prefix "alias=" tail = false ->
  mt re_alias (mk 0 None ("shoot:" ++ tl ++ String nl tail)%string []) final = None.
Proof.
  intros tl tail Hnl Hkw Htail. rewrite re_alias_shape. cbn [mt mk ms_prev].
  rewrite mt_lit by discriminate. cbn [mt mk ms_pos ms_prev ms_rest ms_caps].
  apply lazy_star_all_fail; [exact Hnl | reflexivity|].
  intros a b E. apply ra2_fail.
  destruct b as [|c b']; simpl.
  - exact Htail.
  - destruct (String.prefix "alias=" (b' ++ String nl tail)%string) eqn:P; [|reflexivity].
    apply prefix_before_nl in P; [|reflexivity].
    assert (X : has_kw "alias=" (String c b') = false) by (apply (has_kw_suffix _ a); rewrite <- E; exact Hkw).
    simpl in X. apply orb_false_iff in X. destruct X as [_ X]. apply has_kw_no_prefix in X. congruence.
Qed.

(* positions that do not follow a newline cannot start a match of an expression anchored with (?m)^ *)
Lemma bol_skip : forall R l pos c y,
  is_nl c = false -> sall not_nl l = true ->
  search_from (RCat (RBol true) R) pos (Some c) (l ++ y)%string
  = match l with
    | EmptyString => search_from (RCat (RBol true) R) pos (Some c) y
    | _ => search_from (RCat (RBol true) R) (pos + String.length l) (last_of (Some c) l) y
    end.
Proof.
  intros R. induction l as [|x l IH]; intros pos c y Hc Hl; [reflexivity|].
  cbn [sall] in Hl. apply andb_true_iff in Hl. destruct Hl as [Hx Hl].
  change ((String x l ++ y)%string) with (String x (l ++ y)%string). cbn [search_from mt ms_prev].
  rewrite Hc. cbn [andb].
  assert (Hx' : is_nl x = false) by (unfold not_nl in Hx; apply negb_true_iff in Hx; exact Hx).
  rewrite IH by assumption. cbn [String.length last_of].
  destruct l as [|x2 l2].
  - simpl. replace (pos + 1) with (S pos) by lia. reflexivity.
  - replace (S pos + String.length (String x2 l2)) with (pos + S (String.length (String x2 l2))) by lia. reflexivity.
Qed.

Lemma bol_skip1 : forall R x l pos c y,
  is_nl c = false -> sall not_nl (String x l) = true ->
  search_from (RCat (RBol true) R) pos (Some c) (String x (l ++ y)%string)
  = search_from (RCat (RBol true) R) (pos + S (String.length l)) (last_of (Some x) l) y.
Proof.
  intros R x l pos c y Hc Hl. change (String x (l ++ y)%string) with ((String x l ++ y)%string).
  rewrite bol_skip by assumption. reflexivity.
Qed.

Lemma last_of_not_nl : forall l c, is_nl c = false -> sall not_nl l = true ->
  exists c', last_of (Some c) l = Some c' /\ is_nl c' = false.
Proof.
  induction l as [|x l IH]; intros c Hc Hl; [exists c; auto|].
  cbn [sall] in Hl. apply andb_true_iff in Hl. destruct Hl as [Hx Hl]. simpl.
  apply IH; [unfold not_nl in Hx; apply negb_true_iff in Hx; exact Hx | exact Hl].
Qed.

Lemma alias_search_end : forall R pos c, is_nl c = false ->
  search_from (RCat (RBol true) (RCat (lit "shoot:") R)) pos (Some c) nls = None.
Proof. intros R pos c Hc. unfold nls. cbn [search_from mt ms_prev ms_rest]. rewrite Hc. reflexivity. Qed.

Definition no_alias_kw (tl : string) : bool := sall not_nl tl && negb (has_kw "alias=" tl).

(* parseAlias finds nothing in a comment that consists of one line without the keyword *)
Lemma parse_alias_none : forall tl,
  no_alias_kw tl = true -> parse_alias ("shoot:" ++ tl ++ nls)%string = [].
Proof.
  intros tl H. unfold no_alias_kw in H. apply andb_true_iff in H. destruct H as [Hnl Hkw]. apply negb_true_iff in Hkw.
  unfold parse_alias, find.
  change ("shoot:" ++ tl ++ nls)%string with (String "s" ("hoot:" ++ tl ++ nls)%string). cbn [search_from].
  change (String "s" ("hoot:" ++ tl ++ nls)%string) with ("shoot:" ++ tl ++ String nl EmptyString)%string.
  fold (mk 0 None ("shoot:" ++ tl ++ String nl "")%string []). fold final.
  rewrite alias_line_start_fails by (try assumption; reflexivity).
  rewrite re_alias_shape.
  change ("hoot:" ++ tl ++ nls)%string with (String "h" (("oot:" ++ tl) ++ nls)%string).
  rewrite bol_skip1; [|reflexivity | cbn [sall]; rewrite sall_app, Hnl; reflexivity].
  destruct (last_of_not_nl ("oot:" ++ tl)%string "h" eq_refl) as [c' [E1 E2]]; [rewrite sall_app, Hnl; reflexivity|].
  rewrite E1. rewrite alias_search_end by exact E2. reflexivity.
Qed.


(* ------------------------------------------------------------------ *)

Lemma star_stop : forall g p s pos prev caps k, stops p s -> star_c g p pos prev s caps k = k (mk pos prev s caps).
Proof. intros g p s pos prev caps k H. destruct s as [|c r]; [reflexivity|]. simpl in H. simpl. rewrite H. reflexivity. Qed.

Definition key_ok (k : string) : bool := nonempty k && sall kv_key_c k.
Definition val_ok (v : string) : bool :=
  match v with String c _ => is_word c | EmptyString => false end && sall (not_c "}") v.
Definition entry (kv : string * string) : string := ("{" ++ fst kv ++ ":" ++ snd kv ++ "}")%string.

Lemma mt_kv_fail : forall c pos prev r caps k, c <> "{"%char -> mt re_kv (mk pos prev (String c r) caps) k = None.
Proof. intros. unfold re_kv, RSeq. cbn [mt]. apply mt_ch_fail. intros E. apply H. symmetry. exact E. Qed.

Lemma kv_search_skip : forall l pos prev y,
  no_char "{" l = true ->
  search_from re_kv pos prev (l ++ y)%string = search_from re_kv (pos + String.length l) (last_of prev l) y.
Proof.
  induction l as [|c l IH]; intros pos prev y H.
  - simpl. rewrite Nat.add_0_r. reflexivity.
  - unfold no_char in H. cbn [sall] in H. apply andb_true_iff in H. destruct H as [Hc H].
    change ((String c l ++ y)%string) with (String c (l ++ y)%string). cbn [search_from].
    fold (mk pos prev (String c (l ++ y)%string) []).
    rewrite mt_kv_fail.
    + rewrite IH by exact H. cbn [String.length last_of].
      replace (S pos + String.length l) with (pos + S (String.length l)) by lia. reflexivity.
    + intros E. subst c. simpl in Hc. discriminate.
Qed.

Lemma kv_match : forall k v pos prev y,
  key_ok k = true -> val_ok v = true ->
  mt re_kv (mk pos prev ("{" ++ k ++ ":" ++ v ++ "}" ++ y)%string []) final
  = Some (mk (pos + String.length k + String.length v + 3) (Some "}"%char) y
             [(2, (pos + String.length k + 2, pos + String.length k + 2 + String.length v)); (1, (S pos, S pos + String.length k))]).
Proof.
  intros k v pos prev y Hk Hv.
  unfold key_ok in Hk. apply andb_true_iff in Hk. destruct Hk as [Hkne Hkall].
  destruct k as [|kc k]; [discriminate|]. cbn [sall] in Hkall. apply andb_true_iff in Hkall. destruct Hkall as [Hkc Hkall].
  unfold val_ok in Hv. apply andb_true_iff in Hv. destruct Hv as [Hv1 Hvall].
  destruct v as [|vc v]; [discriminate|]. cbn [sall] in Hvall. apply andb_true_iff in Hvall. destruct Hvall as [Hvc Hvall].
  assert (Hvw : not_word vc = false) by (unfold not_word; rewrite Hv1; reflexivity).
  assert (Hvs : is_space_re vc = false).
  { unfold is_word in Hv1. unfold is_space_re, is_upper, is_lower, is_digit in *.
    destruct (Nat.eqb (code vc) 9) eqn:E1; [apply Nat.eqb_eq in E1; rewrite E1 in Hv1; simpl in Hv1|].
    - destruct (Ascii.eqb vc "_") eqn:E; [apply Ascii.eqb_eq in E; subst; discriminate | discriminate].
    - destruct (Nat.eqb (code vc) 10) eqn:E2; [apply Nat.eqb_eq in E2; rewrite E2 in Hv1; simpl in Hv1;
        destruct (Ascii.eqb vc "_") eqn:E; [apply Ascii.eqb_eq in E; subst; discriminate | discriminate]|].
      destruct (Nat.eqb (code vc) 12) eqn:E3; [apply Nat.eqb_eq in E3; rewrite E3 in Hv1; simpl in Hv1;
        destruct (Ascii.eqb vc "_") eqn:E; [apply Ascii.eqb_eq in E; subst; discriminate | discriminate]|].
      destruct (Nat.eqb (code vc) 13) eqn:E4; [apply Nat.eqb_eq in E4; rewrite E4 in Hv1; simpl in Hv1;
        destruct (Ascii.eqb vc "_") eqn:E; [apply Ascii.eqb_eq in E; subst; discriminate | discriminate]|].
      destruct (Nat.eqb (code vc) 32) eqn:E5; [apply Nat.eqb_eq in E5; rewrite E5 in Hv1; simpl in Hv1;
        destruct (Ascii.eqb vc "_") eqn:E; [apply Ascii.eqb_eq in E; subst; discriminate | discriminate]|].
      reflexivity. }
  assert (Hvcolon : vc <> ":"%char) by (intros E; subst vc; discriminate).
  unfold re_kv, RSeq, RPlusC. cbn [mt].
  change ("{" ++ String kc k ++ ":" ++ String vc v ++ "}" ++ y)%string
    with (String "{" (String kc (k ++ String ":" (String vc (v ++ String "}" y))))).
  rewrite mt_ch. cbn [mt mk ms_pos ms_prev ms_rest ms_caps]. rewrite Hkc. cbn [step ms_pos ms_prev ms_rest ms_caps].
  erewrite (star_greedy_full kv_key_c k (S (S pos)) (Some kc) (String ":" (String vc (v ++ String "}" y))));
    [reflexivity | exact Hkall | reflexivity |].
  cbn [mk ms_pos ms_prev ms_rest ms_caps].
  (* \W* takes the colon and has to give it back *)
  match goal with |- star_c true not_word ?a ?b _ ?d ?kk = _ =>
    apply (star_greedy_back1 not_word EmptyString ":" a b (String vc (v ++ String "}" y)) d kk) end;
    [reflexivity | reflexivity | simpl; exact Hvw | |].
  - cbn [mk ms_pos ms_prev ms_rest ms_caps String.length]. apply mt_ch_fail. intros E. apply Hvcolon. symmetry. exact E.
  - cbn [mk ms_pos ms_prev ms_rest ms_caps String.length last_of append]. rewrite mt_ch.
    cbn [mk ms_pos ms_prev ms_rest ms_caps].
    rewrite star_stop by (simpl; exact Hvs).
    cbn [mt mk ms_pos ms_prev ms_rest ms_caps]. rewrite Hvc. cbn [step ms_pos ms_prev ms_rest ms_caps].
    erewrite (star_greedy_full (not_c "}") v _ (Some vc) (String "}" y));
      [reflexivity | exact Hvall | unfold stops, not_c; rewrite Ascii.eqb_refl; reflexivity |].
    cbn [mk ms_pos ms_prev ms_rest ms_caps]. rewrite mt_ch. unfold final, mk. simpl String.length.
    f_equal. f_equal; try lia.
    f_equal; [f_equal; f_equal; lia | f_equal; f_equal; f_equal; lia].
Qed.


(* ------------------------------------------------------------------ *)

(* the entries of an alias= / headers= directive, separated by commas *)
Fixpoint kv_body (al : list (string * string)) : string :=
  match al with
  | [] => EmptyString
  | [e] => entry e
  | e :: r => (entry e ++ "," ++ kv_body r)%string
  end.

Lemma kv_body_concat : forall al, kv_body al = String.concat "," (map entry al).
Proof. induction al as [|e [|e2 r] IH]; [reflexivity | reflexivity|]. simpl in *. rewrite IH. reflexivity. Qed.

Definition entries_ok (al : list (string * string)) : bool :=
  forallb (fun kv => key_ok (fst kv) && val_ok (snd kv)) al.

Lemma search_kv_empty : forall pos prev, search_from re_kv pos prev EmptyString = None.
Proof. reflexivity. Qed.

Lemma find_all_kv_aux : forall al pre lit fuel,
  entries_ok al = true -> no_char "{" lit = true -> List.length al < fuel ->
  map (fun m => (group (pre ++ lit ++ kv_body al)%string m 1, group (pre ++ lit ++ kv_body al)%string m 2))
      (find_all_aux fuel re_kv (pre ++ lit ++ kv_body al)%string (String.length pre))
  = al.
Proof.
  induction al as [|[k v] al IH]; intros pre lit fuel Hok Hlit Hfuel.
  - destruct fuel as [|f]; [reflexivity|]. cbn [find_all_aux kv_body].
    rewrite drop_str_app'. rewrite kv_search_skip by exact Hlit. rewrite search_kv_empty. reflexivity.
  - simpl in Hok. apply andb_true_iff in Hok. destruct Hok as [Hkv Hok]. apply andb_true_iff in Hkv. destruct Hkv as [Hk Hv].
    simpl in Hfuel. destruct fuel as [|f]; [lia|].
    set (sep := match al with [] => EmptyString | _ => ("," ++ kv_body al)%string end).
    assert (Ebody : kv_body ((k, v) :: al) = ("{" ++ k ++ ":" ++ v ++ "}" ++ sep)%string).
    { unfold sep. destruct al as [|e2 r].
      - reflexivity.
      - change (kv_body ((k, v) :: e2 :: r)) with (entry (k, v) ++ "," ++ kv_body (e2 :: r))%string.
        unfold entry. cbn [fst snd]. rewrite !sapp_assoc. reflexivity. }
    rewrite Ebody. cbn [find_all_aux]. rewrite drop_str_app'.
    rewrite kv_search_skip by exact Hlit.
    rewrite (search_first _ _ _ _ _ (kv_match k v _ _ sep Hk Hv)).
    cbn [mk ms_pos].
    match goal with |- context [Nat.leb ?a ?b] => replace (Nat.leb a b) with false by (symmetry; apply Nat.leb_gt; lia) end.
    cbn [map]. f_equal.
    + unfold group. cbn [mk ms_caps cap_lookup Nat.eqb]. f_equal.
      * match goal with |- substring ?a ?n ?s = k =>
          replace n with (String.length k) by lia;
          replace s with ((pre ++ lit ++ "{") ++ k ++ (":" ++ v ++ "}" ++ sep))%string by (rewrite !sapp_assoc; reflexivity);
          replace a with (String.length (pre ++ lit ++ "{")%string) by (rewrite !length_sapp; simpl; lia) end.
        apply substring_mid.
      * match goal with |- substring ?a ?n ?s = v =>
          replace n with (String.length v) by lia;
          replace s with ((pre ++ lit ++ "{" ++ k ++ ":") ++ v ++ ("}" ++ sep))%string by (rewrite !sapp_assoc; reflexivity);
          replace a with (String.length (pre ++ lit ++ "{" ++ k ++ ":")%string) by (rewrite !length_sapp; simpl; lia) end.
        apply substring_mid.
    + destruct al as [|e2 r].
      * unfold sep.
        replace (pre ++ lit ++ "{" ++ k ++ ":" ++ v ++ "}" ++ "")%string
          with ((pre ++ lit ++ "{" ++ k ++ ":" ++ v ++ "}") ++ "" ++ kv_body [])%string by (rewrite !sapp_assoc; reflexivity).
        match goal with |- context [find_all_aux f re_kv _ ?n] =>
          replace n with (String.length (pre ++ lit ++ "{" ++ k ++ ":" ++ v ++ "}")%string) by (rewrite !length_sapp; simpl; lia) end.
        apply IH; [reflexivity | reflexivity | simpl; lia].
      * unfold sep.
        replace (pre ++ lit ++ "{" ++ k ++ ":" ++ v ++ "}" ++ "," ++ kv_body (e2 :: r))%string
          with ((pre ++ lit ++ "{" ++ k ++ ":" ++ v ++ "}") ++ "," ++ kv_body (e2 :: r))%string by (rewrite !sapp_assoc; reflexivity).
        match goal with |- context [find_all_aux f re_kv _ ?n] =>
          replace n with (String.length (pre ++ lit ++ "{" ++ k ++ ":" ++ v ++ "}")%string) by (rewrite !length_sapp; simpl; lia) end.
        apply IH; [exact Hok | reflexivity | simpl in *; lia].
Qed.

Lemma fold_map_set : forall (A : Type) (f g : A -> string) l b,
  fold_left (fun m e => map_set m (f e) (g e)) l b = set_list (map (fun e => (f e, g e)) l) b.
Proof. intros A f g. induction l as [|x l IH]; intros b; [reflexivity|]. simpl. unfold set_list in *. simpl. apply IH. Qed.

Lemma kv_body_length : forall al, List.length al <= String.length (kv_body al).
Proof.
  induction al as [|e al IH]; [simpl; lia|].
  destruct al as [|e2 r].
  - cbn [kv_body List.length]. unfold entry. simpl. lia.
  - change (kv_body (e :: e2 :: r)) with (entry e ++ "," ++ kv_body (e2 :: r))%string.
    rewrite !length_sapp. change (String.length ",") with 1.
    change (List.length (e :: e2 :: r)) with (S (List.length (e2 :: r))). lia.
Qed.

(* parseKV on the canonical entries gives them back (distinct keys) *)
Lemma parse_kv_canonical : forall al,
  entries_ok al = true -> NoDup (map fst al) -> parse_kv (kv_body al) = al.
Proof.
  intros al Hok Hnd. unfold parse_kv. rewrite fold_map_set.
  unfold find_all.
  pose proof (find_all_kv_aux al EmptyString EmptyString (S (String.length (kv_body al))) Hok eq_refl) as X.
  change (("" ++ "" ++ kv_body al)%string) with (kv_body al) in X. change (String.length "") with 0 in X.
  rewrite X by (pose proof (kv_body_length al); lia).
  apply set_list_fresh. simpl. exact Hnd.
Qed.


(* ------------------------------------------------------------------ *)

Definition alias_c (c : ascii) : bool := negb (Ascii.eqb c ";") && not_nl c.

Lemma lazy_here : forall p s pos prev caps k e,
  k (mk pos prev s caps) = Some e -> star_c false p pos prev s caps k = Some e.
Proof.
  intros p s pos prev caps k e H. destruct s as [|c r]; simpl; [exact H|].
  destruct (p c); [unfold mk in H; rewrite H; reflexivity | exact H].
Qed.

(* one-step equations of the matcher, used instead of computation so that proof terms stay small *)
Lemma mt_cat : forall a b st k, mt (RCat a b) st k = mt a st (fun st' => mt b st' k).
Proof. reflexivity. Qed.
Lemma mt_bol_nl : forall m pos s caps k, mt (RBol m) (mk pos (Some nl) s caps) k = if m then k (mk pos (Some nl) s caps) else None.
Proof. intros. destruct m; reflexivity. Qed.
Lemma mt_starc : forall g p pos prev s caps k, mt (RStarC g p) (mk pos prev s caps) k = star_c g p pos prev s caps k.
Proof. reflexivity. Qed.
Lemma mt_rchar : forall p c pos prev r caps k, p c = true ->
  mt (RChar p) (mk pos prev (String c r) caps) k = k (mk (S pos) (Some c) r caps).
Proof. intros. cbn [mt mk ms_rest]. rewrite H. reflexivity. Qed.
Lemma mt_group : forall n a pos prev s caps k,
  mt (RGroup n a) (mk pos prev s caps) k
  = mt a (mk pos prev s caps) (fun st' => k (mk (ms_pos st') (ms_prev st') (ms_rest st') ((n, (pos, ms_pos st')) :: ms_caps st'))).
Proof. reflexivity. Qed.

Definition RA3 : re :=
  RCat (RGroup 2 (RAlt (RCat (ch ";") (RStarC true not_nl)) (RStarC true is_space_re))) (REol true).
Lemma RA2_shape : RA2 = RCat (RChar not_word) (RCat (lit "alias=") (RCat (RGroup 1 (RCat (RChar alias_c) (RStarC true alias_c))) RA3)).
Proof. reflexivity. Qed.

Lemma ra3_ok : forall pos prev caps,
  exists e, mt RA3 (mk pos prev nls caps) final = Some e /\ cap_lookup 1 (ms_caps e) = cap_lookup 1 caps.
Proof.
  intros pos prev caps.
  assert (Ex : exists e, mt RA3 (mk pos prev nls caps) final = Some e).
  { unfold RA3. cbn [mt]. unfold nls. rewrite mt_ch_fail by (intros X; inversion X). cbn [orelse mk ms_pos ms_prev ms_rest ms_caps].
    match goal with |- exists e, star_c true is_space_re ?a ?b ?c ?d ?k = Some e =>
      destruct (star_some_here true is_space_re c a b d k (mk a b c ((2, (a, a)) :: d))) as [e2 He2]; [reflexivity | exists e2; exact He2] end. }
  destruct Ex as [e He]. exists e. split; [exact He|].
  destruct (mt_nogroup 1 RA3 eq_refl _ _ _ He) as [st' [H1 H2]]. unfold final in H1. inversion H1; subst. exact H2.
Qed.

Lemma alias_line_match : forall pos c b1,
  sall alias_c (String c b1) = true ->
  exists e, mt re_alias (mk pos (Some nl) ("shoot: alias=" ++ String c b1 ++ nls)%string []) final = Some e /\
            cap_lookup 1 (ms_caps e) = Some (pos + 13, pos + 13 + String.length (String c b1)).
Proof.
  intros pos c b1 H. cbn [sall] in H. apply andb_true_iff in H. destruct H as [Hc Hb].
  destruct (ra3_ok (pos + 13 + String.length (String c b1)) (last_of (Some c) b1)
                   [(1, (pos + 13, pos + 13 + String.length (String c b1)))]) as [e [He Hcap]].
  exists e. split; [|rewrite Hcap; reflexivity].
  rewrite re_alias_shape. rewrite mt_cat, mt_bol_nl. rewrite mt_cat.
  change ("shoot: alias=" ++ String c b1 ++ nls)%string with ("shoot:" ++ (" alias=" ++ String c b1 ++ nls))%string.
  rewrite mt_lit by discriminate. rewrite mt_cat, mt_starc. apply lazy_here.
  rewrite RA2_shape. rewrite mt_cat.
  change (" alias=" ++ String c b1 ++ nls)%string with (String " " ("alias=" ++ (String c b1 ++ nls))%string).
  rewrite mt_rchar by reflexivity. rewrite mt_cat. rewrite mt_lit by discriminate.
  rewrite mt_cat, mt_group, mt_cat.
  change (String c b1 ++ nls)%string with (String c (b1 ++ nls)%string).
  rewrite mt_rchar by exact Hc. rewrite mt_starc.
  erewrite (star_greedy_full alias_c b1 _ _ nls); [reflexivity | exact Hb | reflexivity |].
  cbn [mk ms_pos ms_prev ms_rest ms_caps String.length last_of].
  match goal with |- mt RA3 (mk ?p ?pv nls [(1, (?a, ?b))]) final = _ =>
    replace p with (pos + 13 + S (String.length b1)) by lia;
    replace b with (pos + 13 + S (String.length b1)) by lia;
    replace a with (pos + 13) by lia end.
  exact He.
Qed.

Lemma kv_body_head : forall e r, exists b1, kv_body (e :: r) = String "{" b1.
Proof. intros e r. destruct r; cbn [kv_body]; unfold entry; simpl; eauto. Qed.

Lemma bol_fail_here : forall R pos c s, is_nl c = false ->
  mt (RCat (RBol true) R) (mk pos (Some c) s []) final = None.
Proof. intros. cbn [mt mk ms_prev]. rewrite H. reflexivity. Qed.

Lemma search_step : forall r pos prev c s,
  search_from r pos prev (String c s)
  = match mt r (mk pos prev (String c s) []) final with
    | Some e => Some (pos, e)
    | None => search_from r (S pos) (Some c) s
    end.
Proof. reflexivity. Qed.

(* parseAlias on a request line (without the keyword) followed by the canonical alias line *)
Lemma parse_alias_second : forall tl e r,
  no_alias_kw tl = true ->
  entries_ok (e :: r) = true -> NoDup (map fst (e :: r)) -> sall alias_c (kv_body (e :: r)) = true ->
  parse_alias ("shoot:" ++ tl ++ nls ++ "shoot: alias=" ++ kv_body (e :: r) ++ nls)%string = e :: r.
Proof.
  intros tl e r H Hok Hnd Hbody. set (al := e :: r) in *.
  unfold no_alias_kw in H. apply andb_true_iff in H. destruct H as [Hnl Hkw]. apply negb_true_iff in Hkw.
  destruct (kv_body_head e r) as [b1 Eb]. fold al in Eb.
  set (L2 := ("shoot: alias=" ++ kv_body al ++ nls)%string).
  assert (Efind : exists e0, find re_alias ("shoot:" ++ tl ++ nls ++ L2)%string = Some e0 /\
                  cap_lookup 1 (ms_caps e0) = Some (String.length ("shoot:" ++ tl ++ nls)%string + 13,
                                                    String.length ("shoot:" ++ tl ++ nls)%string + 13 + String.length (kv_body al))).
  { unfold find.
    change ("shoot:" ++ tl ++ nls ++ L2)%string with (String "s" ("hoot:" ++ tl ++ nls ++ L2)%string).
    rewrite search_step.
    change (String "s" ("hoot:" ++ tl ++ nls ++ L2)%string) with ("shoot:" ++ tl ++ String nl L2)%string.
    rewrite alias_line_start_fails by (try assumption; reflexivity).
    rewrite re_alias_shape.
    change ("hoot:" ++ tl ++ nls ++ L2)%string with (String "h" (("oot:" ++ tl) ++ String nl L2)%string).
    rewrite bol_skip1; [|reflexivity | cbn [sall]; rewrite sall_app, Hnl; reflexivity].
    destruct (last_of_not_nl ("oot:" ++ tl)%string "h" eq_refl) as [c' [E1 E2]]; [rewrite sall_app, Hnl; reflexivity|].
    rewrite E1. rewrite search_step. rewrite bol_fail_here by exact E2.
    rewrite <- re_alias_shape. unfold L2. rewrite Eb.
    match goal with |- context [search_from re_alias ?p (Some nl) _] =>
      destruct (alias_line_match p "{" b1) as [e0 [He0 Hc0]]; [rewrite <- Eb; exact Hbody|];
      exists e0; rewrite (search_first _ _ _ _ _ He0); split; [reflexivity|]; rewrite Hc0 end.
    rewrite !length_sapp. simpl String.length. f_equal. f_equal; lia. }
  destruct Efind as [e0 [Ef Hc0]].
  unfold parse_alias. rewrite Ef.
  assert (G : group ("shoot:" ++ tl ++ nls ++ L2)%string e0 1 = kv_body al).
  { unfold group. rewrite Hc0.
    match goal with |- substring ?a ?n ?s = _ =>
      replace n with (String.length (kv_body al)) by lia;
      replace s with (("shoot:" ++ tl ++ nls ++ "shoot: alias=") ++ kv_body al ++ nls)%string
        by (unfold L2; rewrite !sapp_assoc; reflexivity);
      replace a with (String.length ("shoot:" ++ tl ++ nls ++ "shoot: alias=")%string) by (rewrite !length_sapp; simpl; lia) end.
    apply substring_mid. }
  rewrite G. apply parse_kv_canonical; assumption.
Qed.


(* ------------------------------------------------------------------ *)

(* ---------------------------------------------- the canonical rendering of a directive *)
Definition alias_part (al : list (string * string)) : string :=
  match al with [] => EmptyString | _ => ("shoot: alias=" ++ kv_body al ++ nls)%string end.
Definition canonical_doc (v : string) (quoted : bool) (ts : list ptok) (al : list (string * string)) : string :=
  (req_line v quoted (render_toks ts) ++ nls ++ alias_part al)%string.
Definition req_tail (v : string) (quoted : bool) (p : string) : string :=
  (" " ++ v ++ "(" ++ quote_of quoted ++ p ++ quote_of quoted ++ ")")%string.

(* decidable conditions on the rendered text: a verb spelling, placeholders \w+, literal pieces without brace,
   a path without newline / quote that neither starts nor ends with white space or a quote, no "alias=" inside
   the request line, entries {key:value} with keys over [\w|-], values starting with a word character and free
   of "}", ";" and newline, distinct keys *)
Definition directive_ok (v : string) (quoted : bool) (ts : list ptok) (al : list (string * string)) : bool :=
  mem_str v verb_spellings && wf_toks ts && path_ok (render_toks ts)
  && no_alias_kw (req_tail v quoted (render_toks ts))
  && entries_ok al && nodup_str (map fst al) && sall alias_c (kv_body al).

Lemma canonical_parses : forall v quoted ts al,
  directive_ok v quoted ts al = true ->
  parse_path (canonical_doc v quoted ts al) = PathOk (upper v) (render_toks ts) (holes ts) /\
  parse_alias (canonical_doc v quoted ts al) = al.
Proof.
  intros v quoted ts al H. unfold directive_ok in H.
  repeat (apply andb_true_iff in H; let K := fresh "D" in destruct H as [H K]).
  apply mem_str_In in H. apply nodup_str_NoDup in D0.
  split.
  - unfold canonical_doc. apply parse_path_canonical; assumption.
  - unfold canonical_doc.
    change (req_line v quoted (render_toks ts)) with ("shoot:" ++ req_tail v quoted (render_toks ts))%string.
    destruct al as [|e r].
    + cbn [alias_part]. rewrite sapp_assoc. rewrite sapp_nil_r. rewrite <- sapp_assoc.
      replace (("shoot:" ++ req_tail v quoted (render_toks ts)) ++ nls)%string
        with ("shoot:" ++ req_tail v quoted (render_toks ts) ++ nls)%string by (rewrite sapp_assoc; reflexivity).
      apply parse_alias_none. assumption.
    + cbn [alias_part].
      replace (("shoot:" ++ req_tail v quoted (render_toks ts)) ++ nls ++ "shoot: alias=" ++ kv_body (e :: r) ++ nls)%string
        with ("shoot:" ++ req_tail v quoted (render_toks ts) ++ nls ++ "shoot: alias=" ++ kv_body (e :: r) ++ nls)%string
        by (rewrite !sapp_assoc; reflexivity).
      apply parse_alias_second; assumption.
Qed.

(* the hypothesis [linked] of the main theorem holds for every method whose doc comment is the canonical
   rendering of its directive *)
Lemma canonical_linked : forall E m v quoted ts al ps,
  directive_ok v quoted ts al = true ->
  env_ok E = true ->
  md_doc m = Some (canonical_doc v quoted ts al) ->
  typed_params E (upper v) m = map (fun pk => (fst pk, Some (snd pk))) ps ->
  linked E m {| s_verb := upper v; s_toks := ts; s_alias := al; s_params := ps |}.
Proof.
  intros E m v quoted ts al ps Hok HE Hdoc Hty. destruct (canonical_parses v quoted ts al Hok) as [H1 H2].
  split; [exact HE|]. exists (canonical_doc v quoted ts al). repeat split; assumption.
Qed.

(* the main theorem with [linked] discharged by the rendering *)
Lemma request_for_canonical :
  forall fmt_v join_path json_marshal url_query sigma_d (sigma sigma_h : oracle) E I m v quoted ts al ps base args,
  is_oracle sigma -> is_oracle sigma_h ->
  directive_ok v quoted ts al = true ->
  env_ok E = true ->
  md_doc m = Some (canonical_doc v quoted ts al) ->
  typed_params E (upper v) m = map (fun pk => (fst pk, Some (snd pk))) ps ->
  wf_mspec {| s_verb := upper v; s_toks := ts; s_alias := al; s_params := ps |} = true ->
  args_in_guard fmt_v {| s_verb := upper v; s_toks := ts; s_alias := al; s_params := ps |} args = true ->
  exists d, cook_method sigma E m = COk d /\
    exec fmt_v join_path json_marshal url_query sigma_d (iface_headers sigma_h I (d_verb d)) d base args
    = spec_request fmt_v join_path json_marshal url_query sigma_d
        {| s_verb := upper v; s_toks := ts; s_alias := al; s_params := ps |} (iface_directive I) base args.
Proof.
  intros. apply request_is_declared; try assumption. apply (canonical_linked E m v quoted ts al ps); assumption.
Qed.

(* non-vacuity: the first two methods of /repo/cmd/test/restclient/rest.go are documented in the canonical form *)
Lemma canonical_example_getuser :
  directive_ok "Get" true [PLit "/users/"; PHole "id"] [("userID", "id")] = true /\
  canonical_doc "Get" true [PLit "/users/"; PHole "id"] [("userID", "id")]
  = ("shoot: Get(""/users/{id}"")" ++ nls ++ "shoot: alias={userID:id}" ++ nls)%string.
Proof. split; vm_compute; reflexivity. Qed.
Lemma canonical_example_queryusers :
  directive_ok "Get" true [PLit "/users"] [("pageSize", "size"); ("pageIdx", "page_idx")] = true /\
  canonical_doc "Get" true [PLit "/users"] [("pageSize", "size"); ("pageIdx", "page_idx")]
  = ("shoot: Get(""/users"")" ++ nls ++ "shoot: alias={pageSize:size},{pageIdx:page_idx}" ++ nls)%string.
Proof. split; vm_compute; reflexivity. Qed.
