(* sort.Strings as modelled in Model/Mapper.v: [path_ltb] is a strict total
   order in which a path precedes all its extensions; [sort_paths] returns a
   sorted permutation. *)
From Coq Require Import String Ascii List Bool Arith Lia.
From Shoot Require Import Base.Str Model.MapVal Model.Mapper.
Import ListNotations.
Local Open Scope string_scope.
Local Open Scope list_scope.

Lemma code_inj x y : code x = code y -> x = y.
Proof. unfold code. intros H. rewrite <- (ascii_nat_embedding x), <- (ascii_nat_embedding y), H. reflexivity. Qed.

Lemma str_ltb_irrefl a : str_ltb a a = false.
Proof. induction a as [|c a IH]; simpl; auto. rewrite Nat.ltb_irrefl. exact IH. Qed.

Lemma str_ltb_trans : forall a b c, str_ltb a b = true -> str_ltb b c = true -> str_ltb a c = true.
Proof.
  induction a as [|x a IH]; intros [|y b] [|z c] H1 H2; simpl in *; try discriminate; auto.
  destruct (Nat.ltb_spec (code x) (code y)).
  - destruct (Nat.ltb_spec (code y) (code z)).
    + destruct (Nat.ltb_spec (code x) (code z)); auto. lia.
    + destruct (Nat.ltb_spec (code z) (code y)); [discriminate|].
      assert (code y = code z) by lia. destruct (Nat.ltb_spec (code x) (code z)); auto. lia.
  - destruct (Nat.ltb_spec (code y) (code x)); [discriminate|]. assert (code x = code y) by lia.
    destruct (Nat.ltb_spec (code y) (code z)).
    + destruct (Nat.ltb_spec (code x) (code z)); auto. lia.
    + destruct (Nat.ltb_spec (code z) (code y)); [discriminate|].
      destruct (Nat.ltb_spec (code x) (code z)); [auto|]. destruct (Nat.ltb_spec (code z) (code x)); [lia|].
      eapply IH; eauto.
Qed.

Lemma str_ltb_total : forall a b, str_ltb a b = false -> str_ltb b a = false -> a = b.
Proof.
  induction a as [|x a IH]; intros [|y b] H1 H2; simpl in *; try discriminate; auto.
  destruct (Nat.ltb_spec (code x) (code y)); [discriminate|].
  destruct (Nat.ltb_spec (code y) (code x)); [discriminate|].
  assert (E : code x = code y) by lia. apply code_inj in E. subst y. f_equal. apply IH; auto.
Qed.

Lemma str_ltb_asym a b : str_ltb a b = true -> str_ltb b a = false.
Proof.
  intros H. destruct (str_ltb b a) eqn:E; auto.
  pose proof (str_ltb_trans _ _ _ H E) as X. rewrite str_ltb_irrefl in X. discriminate.
Qed.

Lemma path_ltb_irrefl a : path_ltb a a = false.
Proof. induction a as [|x a IH]; simpl; auto. rewrite str_ltb_irrefl. exact IH. Qed.

Lemma path_ltb_trans : forall a b c, path_ltb a b = true -> path_ltb b c = true -> path_ltb a c = true.
Proof.
  induction a as [|x a IH]; intros [|y b] [|z c] H1 H2; simpl in *; try discriminate; auto.
  destruct (str_ltb x y) eqn:XY.
  - destruct (str_ltb y z) eqn:YZ.
    + rewrite (str_ltb_trans _ _ _ XY YZ). reflexivity.
    + destruct (str_ltb z y) eqn:ZY; [discriminate|]. assert (y = z) by (apply str_ltb_total; auto). subst z.
      rewrite XY. reflexivity.
  - destruct (str_ltb y x) eqn:YX; [discriminate|]. assert (x = y) by (apply str_ltb_total; auto). subst y.
    destruct (str_ltb x z) eqn:XZ; auto. destruct (str_ltb z x) eqn:ZX; [discriminate|]. eapply IH; eauto.
Qed.

Lemma path_ltb_total : forall a b, path_ltb a b = false -> path_ltb b a = false -> a = b.
Proof.
  induction a as [|x a IH]; intros [|y b] H1 H2; simpl in *; try discriminate; auto.
  destruct (str_ltb x y) eqn:XY; [discriminate|]. destruct (str_ltb y x) eqn:YX; [discriminate|].
  assert (x = y) by (apply str_ltb_total; auto). subst y. f_equal. apply IH; auto.
Qed.

Lemma path_ltb_asym a b : path_ltb a b = true -> path_ltb b a = false.
Proof.
  intros H. destruct (path_ltb b a) eqn:E; auto.
  pose proof (path_ltb_trans _ _ _ H E) as X. rewrite path_ltb_irrefl in X. discriminate.
Qed.

(* a path sorts before its proper extensions *)
Lemma path_ltb_extension : forall q r, r <> [] -> path_ltb q (q ++ r) = true.
Proof.
  induction q as [|x q IH]; intros r R; simpl.
  - destruct r; [congruence|reflexivity].
  - rewrite str_ltb_irrefl. apply IH; auto.
Qed.

(* strongly sorted: nothing later is smaller *)
Fixpoint ssorted (l : list path) : Prop :=
  match l with
  | [] => True
  | x :: r => (forall y, In y r -> path_ltb y x = false) /\ ssorted r
  end.

Lemma insert_in p l x : In x (insert_path p l) <-> x = p \/ In x l.
Proof.
  induction l as [|q l IH]; simpl.
  - split; intros [H|H]; auto; try contradiction.
  - destruct (path_ltb q p); simpl; rewrite ?IH.
    + tauto.
    + split; [intros [H|H]; subst; auto | intros [H|H]; subst; auto].
Qed.

Lemma insert_sorted p l : ssorted l -> ssorted (insert_path p l).
Proof.
  induction l as [|q l IH]; intros S; simpl.
  - split; auto. intros y [].
  - destruct S as (S1 & S2). destruct (path_ltb q p) eqn:E; simpl.
    + split; [|apply IH; auto]. intros y Y. apply insert_in in Y. destruct Y as [->|Y]; [|auto].
      apply path_ltb_asym. exact E.
    + split; [|split; auto]. intros y [<-|Y]; [exact E|].
      destruct (path_ltb y p) eqn:F; auto. specialize (S1 y Y).
      (* y < p, not (q < p), not (y < q): q <= p ... derive y < q or contradiction *)
      destruct (path_ltb p q) eqn:PQ.
      * rewrite (path_ltb_trans _ _ _ F PQ) in S1. discriminate.
      * assert (p = q) by (apply path_ltb_total; auto). subst q. congruence.
Qed.

Lemma sort_in l x : In x (sort_paths l) <-> In x l.
Proof.
  unfold sort_paths. induction l as [|p l IH]; simpl; [tauto|]. rewrite insert_in, IH. split; intros [H|H]; auto.
Qed.

Lemma sort_sorted l : ssorted (sort_paths l).
Proof. unfold sort_paths. induction l as [|p l IH]; simpl; auto. apply insert_sorted. exact IH. Qed.

Lemma insert_length p l : length (insert_path p l) = S (length l).
Proof. induction l as [|q l IH]; simpl; auto. destruct (path_ltb q p); simpl; auto. Qed.

Lemma insert_nodup p l : NoDup l -> ~ In p l -> NoDup (insert_path p l).
Proof.
  induction l as [|q l IH]; intros N H; simpl.
  - constructor; auto.
  - inversion N; subst. destruct (path_ltb q p).
    + constructor.
      * intros X. apply insert_in in X. destruct X as [->|X]; [apply H; left; auto | auto].
      * apply IH; auto. intros X. apply H. right; auto.
    + constructor; auto.
Qed.

Lemma sort_nodup l : NoDup l -> NoDup (sort_paths l).
Proof.
  unfold sort_paths. induction l as [|p l IH]; intros N; simpl; [constructor|]. inversion N; subst.
  apply insert_nodup; auto. fold (sort_paths l). rewrite sort_in. auto.
Qed.

(* in a sorted list without duplicates a smaller member comes earlier *)
Lemma sorted_before l1 p l2 h :
  ssorted (l1 ++ p :: l2) -> In h (l1 ++ p :: l2) -> path_ltb h p = true -> In h l1.
Proof.
  induction l1 as [|a l1 IH]; simpl; intros S I L.
  - destruct S as (S1 & _). destruct I as [<-|I].
    + rewrite path_ltb_irrefl in L. discriminate.
    + rewrite (S1 h I) in L. discriminate.
  - destruct S as (_ & S2). destruct I as [->|I]; auto.
Qed.

(* an already sorted list is left alone *)
Lemma insert_sorted_head p l : (forall y, In y l -> path_ltb y p = false) -> insert_path p l = p :: l.
Proof. destruct l as [|q l]; simpl; auto. intros H. rewrite (H q); auto. Qed.

Lemma sort_id l : ssorted l -> sort_paths l = l.
Proof.
  unfold sort_paths. induction l as [|p l IH]; intros S; simpl; auto. destruct S as (S1 & S2).
  rewrite IH by auto. apply insert_sorted_head. auto.
Qed.
