(* Lemmas for property C06 (statements: Properties/C06.v).
   Part 1: path substitution; Part 2: the parameter loop of cookClient;
   Part 3: the generated method against the declarative request. *)
From Coq Require Import String Ascii List Bool Arith ZArith Lia Permutation Sorted.
From Shoot Require Import Base.Str Model.Transfer Model.Directive Model.Rest Model.RestSpec Proofs.RestBase.
Import ListNotations.
Local Open Scope string_scope.
Local Open Scope list_scope.

(* =============================================================== Part 1 *)
(* the sequence of strings.Replace(path_, "{key}", value, 1) calls, on strings *)
Definition subst_seq (val : string -> string) (hs : list string) (path : string) : string :=
  fold_left (fun p h => replace_first p ("{" ++ h ++ "}")%string (val h)) hs path.

Lemma render_toks_cons : forall t ts, render_toks (t :: ts) = (render_tok t ++ render_toks ts)%string.
Proof. intros. unfold render_toks. simpl map. apply concat_nil_cons. Qed.

Lemma fill_cons : forall f t ts,
  fill f (t :: ts) = ((match t with PLit s => s | PHole n => f n end) ++ fill f ts)%string.
Proof. intros. unfold fill. simpl map. apply concat_nil_cons. Qed.

Definition lits_no_brace (ts : list ptok) : bool :=
  forallb (fun t => match t with PLit s => no_char "{" s | PHole _ => true end) ts.

Lemma subst_seq_cons : forall val h hs p,
  subst_seq val (h :: hs) p = subst_seq val hs (replace_first p ("{" ++ h ++ "}")%string (val h)).
Proof. reflexivity. Qed.

Lemma replace_hole : forall pre h rest v,
  no_char "{" pre = true ->
  replace_first (pre ++ render_tok (PHole h) ++ rest)%string ("{" ++ h ++ "}")%string v = (pre ++ v ++ rest)%string.
Proof.
  intros pre h rest v Hpre. simpl render_tok.
  change ("{" ++ h ++ "}")%string with (String "{" (h ++ "}")%string).
  rewrite replace_first_skip by exact Hpre. rewrite replace_first_hit. reflexivity.
Qed.

(* one Replace per placeholder, each on the result of the previous one, yields the path with
   every placeholder filled in -- provided no literal piece and no value contains a brace *)
Lemma subst_seq_fill : forall val ts pre,
  no_char "{" pre = true ->
  lits_no_brace ts = true ->
  (forall h, In h (holes ts) -> no_char "{" (val h) = true) ->
  subst_seq val (holes ts) (pre ++ render_toks ts)%string = (pre ++ fill val ts)%string.
Proof.
  intros val. induction ts as [|t ts IH]; intros pre Hpre Hl Hv.
  - reflexivity.
  - rewrite render_toks_cons, fill_cons. simpl in Hl. apply andb_true_iff in Hl. destruct Hl as [Ht Hl].
    destruct t as [s|h].
    + simpl holes. simpl render_tok. rewrite <- !sapp_assoc. apply IH.
      * rewrite no_char_app, Hpre, Ht. reflexivity.
      * exact Hl.
      * intros h Hin. apply Hv. simpl. exact Hin.
    + change (holes (PHole h :: ts)) with (h :: holes ts). rewrite subst_seq_cons.
      rewrite replace_hole by exact Hpre. rewrite <- !sapp_assoc. apply IH.
      * rewrite no_char_app, Hpre. simpl. apply Hv. left. reflexivity.
      * exact Hl.
      * intros h' Hin. apply Hv. right. exact Hin.
Qed.

(* the model's loop (restclient.tmpl:24-32) is that sequence when every path parameter is a
   scalar argument and its alias gives back the placeholder name *)
Definition path_key (alias : list (string * string)) (pm : string) : string :=
  match map_get alias pm with
  | Some a => if String.eqb a EmptyString then pm else a
  | None => pm
  end.

Lemma subst_path_seq : forall fmt_v alias args (res : string -> string) (val : string -> string) hs path,
  (forall h, In h hs -> path_key alias (res h) = h /\
                        exists v, arg_get args (res h) = Some (AScalar v) /\ fmt_v v = val h) ->
  subst_path fmt_v alias args (map res hs) path = Some (subst_seq val hs path).
Proof.
  intros fmt_v alias args res val. induction hs as [|h hs IH]; intros path H; [reflexivity|].
  simpl map. cbn [subst_path].
  destruct (H h (or_introl eq_refl)) as [Hk [v [Ha Hf]]].
  fold (path_key alias (res h)). rewrite Hk, Ha, Hf.
  unfold subst_seq. simpl fold_left. apply IH. intros h' Hin. apply H. right. exact Hin.
Qed.

(* ------------------------------------------------ alias reversal (cook.go:103-118) *)
Definition find_src (al : list (string * string)) (h : string) : option (string * string) :=
  List.find (fun kv => String.eqb (snd kv) h) al.

Lemma find_src_some : forall al h kv, find_src al h = Some kv -> In kv al /\ snd kv = h.
Proof.
  intros al h kv H. apply find_some in H. destruct H as [H1 H2]. apply String.eqb_eq in H2. tauto.
Qed.

Lemma find_src_none : forall al h, find_src al h = None -> ~ In h (map snd al).
Proof.
  intros al h H Hin. apply in_map_iff in Hin. destruct Hin as [kv [E Hin]].
  pose proof (find_none _ _ H kv Hin) as N. simpl in N. rewrite E, String.eqb_refl in N. discriminate.
Qed.

Lemma revers_map_get : forall (sigma : oracle) al h,
  is_oracle sigma -> NoDup (map snd al) ->
  map_get (revers_map sigma al) h = option_map fst (find_src al h).
Proof.
  intros sigma al h Hs Hnd. unfold revers_map.
  set (W := map (fun kv : string * string => (snd kv, fst kv)) (sigma al)).
  assert (EW : fold_left (fun r kv => map_set r (snd kv) (fst kv)) (sigma al) [] = set_list W []).
  { unfold set_list, W. generalize (@nil (string * string)). induction (sigma al) as [|x l IH]; intros b; simpl; [reflexivity | apply IH]. }
  rewrite EW.
  assert (HndW : NoDup (map fst W)).
  { unfold W. rewrite map_map. simpl. eapply Permutation_NoDup; [|exact Hnd].
    apply Permutation_sym. apply Permutation_map. apply Hs. }
  destruct (find_src al h) as [kv|] eqn:E; simpl.
  - apply find_src_some in E. destruct E as [Hin Hh].
    apply set_list_in; [exact HndW|]. unfold W. apply in_map_iff. exists kv. split.
    + rewrite Hh. reflexivity.
    + eapply Permutation_in; [apply Permutation_sym; apply Hs | exact Hin].
  - apply find_src_none in E. rewrite set_list_notin; [reflexivity|].
    unfold W. rewrite map_map. simpl. intros Hin. apply E.
    eapply Permutation_in; [apply Permutation_map; apply Hs | exact Hin].
Qed.

Lemma real_path_params_resolve : forall (sigma : oracle) al pps,
  is_oracle sigma -> NoDup (map snd al) ->
  real_path_params (revers_map sigma al) pps = map (resolve al) pps.
Proof.
  intros sigma al pps Hs Hnd. unfold real_path_params. apply map_ext. intros h.
  rewrite revers_map_get by assumption. unfold resolve. fold (find_src al h).
  destruct (find_src al h); reflexivity.
Qed.

(* =============================================================== Part 2 *)
(* the parameter loop, one (name, kind) at a time *)
Definition mark_ptr (ptr : bool) (n : string) (d : mdata) : mdata :=
  if ptr then with_is_ptr d (map_set (d_is_ptr d) n "true") else d.

Definition map_apply (name : string) (d : mdata) : mdata :=
  if String.eqb (d_verb d) "GET" || String.eqb (d_verb d) "DELETE" then with_dict d (Some name) else d.

Definition kapply (d : mdata) (nk : string * pkind) : mdata :=
  match snd nk with
  | KCtx => with_ctx d (Some (fst nk))
  | KScalar ptr => mark_ptr ptr (fst nk) (handle_scalar (fst nk) d)
  | KStruct ptr fs => mark_ptr ptr (fst nk) (fold_left (handle_field (fst nk)) fs (with_body d (Some (fst nk))))
  | KMap ptr => mark_ptr ptr (fst nk) (map_apply (fst nk) d)
  | KOpaque ptr => mark_ptr ptr (fst nk) (with_body d (Some (fst nk)))
  end.

Definition kptr (k : pkind) : bool :=
  match k with KCtx => false | KScalar p | KStruct p _ | KMap p | KOpaque p => p end.

Lemma handle_struct_nofields : forall E pkg n name d,
  assoc2 (e_structs E) pkg n = None -> handle_struct E pkg n name d = d.
Proof. intros. unfold handle_struct, struct_fields. rewrite H. reflexivity. Qed.

Lemma step_kapply : forall E t n k d,
  kind_of E (d_verb d) t = Some k ->
  bad_name n = false ->
  (is_struct k = true -> d_body d = None) ->
  (is_map k = true -> d_dict d = None) ->
  (forall pkg s, assoc2 (e_sel E) pkg s = Some SelBasic -> assoc2 (e_structs E) pkg s = None) ->
  handle_param_name E t (COk d) n = COk (kapply d (n, k)).
Proof.
  intros E t n k d Hk Hn Hb Hm Hbasic. unfold handle_param_name. cbn [cbind]. rewrite Hn.
  assert (Base : forall x ptr, kind_base E (d_verb d) x ptr = Some k ->
            cbind (handle_expr E x n d) (fun d' => COk (if ptr then with_is_ptr d' (map_set (d_is_ptr d') n "true") else d'))
            = COk (kapply d (n, k))).
  { intros x ptr Hx. destruct x as [s|pkg s| |y|]; simpl in Hx; try discriminate.
    - cbn [handle_expr]. unfold handle_ident. destruct (is_struct_type E s) eqn:Es.
      + inversion Hx; subst k. unfold set_body. rewrite (Hb eq_refl). cbn [cbind].
        unfold kapply, handle_struct, mark_ptr. simpl. reflexivity.
      + inversion Hx; subst k. unfold kapply, mark_ptr. simpl. reflexivity.
    - cbn [handle_expr]. unfold handle_selector. destruct (assoc2 (e_sel E) pkg s) as [[| | |]|] eqn:Ea; try discriminate.
      + destruct ptr; [discriminate|]. inversion Hx; subst k. reflexivity.
      + destruct (get_or_delete (d_verb d)) eqn:Eg.
        * inversion Hx; subst k. unfold kapply, mark_ptr. simpl. reflexivity.
        * inversion Hx; subst k. unfold set_body. rewrite (Hb eq_refl). cbn [cbind].
          rewrite handle_struct_nofields by (apply Hbasic; exact Ea).
          unfold kapply, mark_ptr. simpl. reflexivity.
      + destruct (assoc2 (e_structs E) pkg s) eqn:Est.
        * inversion Hx; subst k. unfold set_body. rewrite (Hb eq_refl). cbn [cbind].
          unfold kapply, handle_struct, mark_ptr. simpl. reflexivity.
        * inversion Hx; subst k. unfold set_body. rewrite (Hb eq_refl). cbn [cbind].
          rewrite handle_struct_nofields by exact Est.
          unfold kapply, mark_ptr. simpl. reflexivity.
    - inversion Hx; subst k. cbn [handle_expr]. unfold handle_map, kapply, map_apply, get_or_delete. cbn [fst snd].
      rewrite (Hm eq_refl). destruct (String.eqb (d_verb d) "GET" || String.eqb (d_verb d) "DELETE"); reflexivity. }
  destruct t as [s|pkg s| |y|]; try (apply (Base _ false); exact Hk).
  simpl in Hk. cbn [handle_expr is_star]. apply (Base y true). exact Hk.
Qed.

(* what kapply does to each component *)
Lemma mark_ptr_fields : forall ptr n d,
  d_verb (mark_ptr ptr n d) = d_verb d /\ d_path (mark_ptr ptr n d) = d_path d /\
  d_path_params (mark_ptr ptr n d) = d_path_params d /\ d_query_params (mark_ptr ptr n d) = d_query_params d /\
  d_alias (mark_ptr ptr n d) = d_alias d /\ d_body (mark_ptr ptr n d) = d_body d /\
  d_dict (mark_ptr ptr n d) = d_dict d /\ d_ctx (mark_ptr ptr n d) = d_ctx d /\
  d_is_ptr (mark_ptr ptr n d) = set_list (if ptr then [(n, "true")] else []) (d_is_ptr d).
Proof. intros ptr n d. destruct ptr; simpl; repeat split; reflexivity. Qed.

Definition field_aw (n : string) (f : field_info) : string * string := (expr_key (fexpr n f), field_key f).
Definition field_pw (n : string) (f : field_info) : list (string * string) :=
  if fi_ptr f then [(expr_key (fexpr n f), "true")] else [].

Lemma handle_fields_fields : forall n fs d,
  let d' := fold_left (handle_field n) fs d in
  d_verb d' = d_verb d /\ d_path d' = d_path d /\ d_path_params d' = d_path_params d /\
  d_query_params d' = d_query_params d ++ map (fexpr n) fs /\
  d_alias d' = set_list (map (field_aw n) fs) (d_alias d) /\ d_body d' = d_body d /\
  d_dict d' = d_dict d /\ d_ctx d' = d_ctx d /\
  d_is_ptr d' = set_list (flat_map (field_pw n) fs) (d_is_ptr d).
Proof.
  intros n. induction fs as [|f fs IH]; intros d; simpl.
  - rewrite app_nil_r. repeat split; reflexivity.
  - specialize (IH (handle_field n d f)). simpl in IH.
    destruct IH as (H1 & H2 & H3 & H4 & H5 & H6 & H7 & H8 & H9).
    rewrite H1, H2, H3, H4, H5, H6, H7, H8, H9. clear.
    unfold handle_field, field_aw, field_pw, fexpr, field_key.
    destruct (fi_exported f); destruct (fi_ptr f); simpl; rewrite <- ?app_assoc; simpl;
      rewrite ?set_list_app; repeat split; reflexivity.
Qed.

Definition q_of (hp : list string) (nk : string * pkind) : list gexpr :=
  match snd nk with
  | KScalar _ => if mem_str (fst nk) hp then [] else [EParam (fst nk)]
  | KStruct _ fs => map (fexpr (fst nk)) fs
  | _ => []
  end.
Definition aw_of (nk : string * pkind) : list (string * string) :=
  match snd nk with KStruct _ fs => map (field_aw (fst nk)) fs | _ => [] end.
Definition pw_of (nk : string * pkind) : list (string * string) :=
  (match snd nk with KStruct _ fs => flat_map (field_pw (fst nk)) fs | _ => [] end)
  ++ (if kptr (snd nk) then [(fst nk, "true")] else []).

Lemma kapply_fields : forall d nk,
  let d' := kapply d nk in
  d_verb d' = d_verb d /\ d_path d' = d_path d /\ d_path_params d' = d_path_params d /\
  d_query_params d' = d_query_params d ++ q_of (d_path_params d) nk /\
  d_alias d' = set_list (aw_of nk) (d_alias d) /\
  d_is_ptr d' = set_list (pw_of nk) (d_is_ptr d) /\
  d_body d' = (if is_struct (snd nk) then Some (fst nk) else d_body d) /\
  d_ctx d' = (if is_ctx (snd nk) then Some (fst nk) else d_ctx d) /\
  d_dict d' = (if is_map (snd nk) && (String.eqb (d_verb d) "GET" || String.eqb (d_verb d) "DELETE")
               then Some (fst nk) else d_dict d).
Proof.
  intros d [n k]. unfold kapply, q_of, aw_of, pw_of. cbn [fst snd].
  destruct k as [|ptr|ptr fs|ptr|ptr]; cbn [is_struct is_ctx is_map kptr andb].
  - simpl. rewrite app_nil_r. repeat split; reflexivity.
  - destruct (mark_ptr_fields ptr n (handle_scalar n d)) as (H1 & H2 & H3 & H4 & H5 & H6 & H7 & H8 & H9).
    rewrite H1, H2, H3, H4, H5, H6, H7, H8, H9. unfold handle_scalar.
    destruct (mem_str n (d_path_params d)); simpl; rewrite ?app_nil_r; repeat split; reflexivity.
  - destruct (mark_ptr_fields ptr n (fold_left (handle_field n) fs (with_body d (Some n))))
      as (H1 & H2 & H3 & H4 & H5 & H6 & H7 & H8 & H9).
    rewrite H1, H2, H3, H4, H5, H6, H7, H8, H9.
    destruct (handle_fields_fields n fs (with_body d (Some n))) as (G1 & G2 & G3 & G4 & G5 & G6 & G7 & G8 & G9).
    rewrite G1, G2, G3, G4, G5, G6, G7, G8, G9. rewrite set_list_app. simpl. repeat split; reflexivity.
  - destruct (mark_ptr_fields ptr n (map_apply n d)) as (H1 & H2 & H3 & H4 & H5 & H6 & H7 & H8 & H9).
    rewrite H1, H2, H3, H4, H5, H6, H7, H8, H9. unfold map_apply.
    destruct (String.eqb (d_verb d) "GET" || String.eqb (d_verb d) "DELETE"); simpl; rewrite ?app_nil_r;
      repeat split; reflexivity.
  - destruct (mark_ptr_fields ptr n (with_body d (Some n))) as (H1 & H2 & H3 & H4 & H5 & H6 & H7 & H8 & H9).
    rewrite H1, H2, H3, H4, H5, H6, H7, H8, H9. simpl. rewrite app_nil_r. repeat split; reflexivity.
Qed.

Definition flat_params (ps : list param_decl) : list (string * texpr) :=
  flat_map (fun p => map (fun n => (n, pd_type p)) (decl_names p)) ps.
Definition step_name (E : env) (a : cres mdata) (nt : string * texpr) : cres mdata :=
  handle_param_name E (snd nt) a (fst nt).

Lemma fold_params_flat : forall E ps acc,
  fold_left (handle_param E) ps acc = fold_left (step_name E) (flat_params ps) acc.
Proof.
  intros E. induction ps as [|p ps IH]; intros acc; simpl; [reflexivity|].
  unfold flat_params in *. simpl. rewrite fold_left_app. rewrite <- IH. f_equal.
  unfold handle_param. generalize (pd_type p) as t. intros t. generalize acc.
  induction (decl_names p) as [|n ns IHn]; intros a; simpl; [reflexivity | apply IHn].
Qed.

Lemma typed_params_flat : forall E verb m,
  typed_params E verb m = map (fun nt => (fst nt, kind_of E verb (snd nt))) (flat_params (md_params m)).
Proof.
  intros E verb m. unfold typed_params, flat_params. induction (md_params m) as [|p ps IH]; simpl; [reflexivity|].
  rewrite map_app, IH. f_equal. rewrite map_map. reflexivity.
Qed.

Definition body_count (d : mdata) : nat := match d_body d with Some _ => 1 | None => 0 end.
Definition dict_count (d : mdata) : nat := match d_dict d with Some _ => 1 | None => 0 end.

Definition basic_not_struct (E : env) : Prop :=
  forall pkg s, assoc2 (e_sel E) pkg s = Some SelBasic -> assoc2 (e_structs E) pkg s = None.

Lemma cook_fold : forall E l ks d,
  map (fun nt => (fst nt, kind_of E (d_verb d) (snd nt))) l = map (fun pk : string * pkind => (fst pk, Some (snd pk))) ks ->
  basic_not_struct E ->
  (forall n k, In (n, k) ks -> bad_name n = false) ->
  count_kind is_struct ks + body_count d <= 1 ->
  count_kind is_map ks + dict_count d <= 1 ->
  fold_left (step_name E) l (COk d) = COk (fold_left kapply ks d).
Proof.
  intros E. induction l as [|[n t] l IH]; intros ks d Hm HE Hnames Hc Hd.
  - destruct ks; [reflexivity | discriminate].
  - destruct ks as [|[n' k] ks]; [discriminate|]. simpl in Hm. inversion Hm as [[Hn Hk Hrest]]. subst n'.
    cbn [fold_left]. replace (step_name E (COk d) (n, t)) with (handle_param_name E t (COk d) n) by reflexivity.
    unfold count_kind in Hc, Hd. simpl filter in Hc, Hd. cbn [snd] in Hc, Hd.
    destruct (kapply_fields d (n, k)) as (Hv & _ & _ & _ & _ & _ & Hb & _ & Hdd). cbn [fst snd] in Hb, Hdd.
    rewrite (step_kapply E t n k d Hk).
    + apply IH; [rewrite Hv; exact Hrest | exact HE | intros n0 k0 Hin; apply (Hnames n0 k0); right; exact Hin | |].
      * unfold body_count in *. rewrite Hb. unfold count_kind.
        destruct (is_struct k); simpl in Hc |- *; destruct (d_body d); simpl in *; lia.
      * unfold dict_count in *. rewrite Hdd. unfold count_kind.
        destruct (is_map k); simpl in Hd |- *;
          destruct (String.eqb (d_verb d) "GET" || String.eqb (d_verb d) "DELETE"); destruct (d_dict d); simpl in *; lia.
    + apply (Hnames n k). left. reflexivity.
    + intros Hs. rewrite Hs in Hc. simpl in Hc. unfold body_count in Hc. destruct (d_body d); [lia | reflexivity].
    + intros Hs. rewrite Hs in Hd. simpl in Hd. unfold dict_count in Hd. destruct (d_dict d); [lia | reflexivity].
    + exact HE.
Qed.

Definition lastk (p : pkind -> bool) (ks : list (string * pkind)) (acc : option string) : option string :=
  fold_left (fun acc pk => if p (snd pk) then Some (fst pk) else acc) ks acc.

Lemma lastk_acc : forall p ks acc,
  lastk p ks acc = match last_of_kind p ks with Some x => Some x | None => acc end.
Proof.
  intros p. unfold last_of_kind. fold (lastk p).
  induction ks as [|[n k] ks IH]; intros acc; [reflexivity|].
  unfold lastk in *. simpl. rewrite IH. rewrite (IH (if p k then Some n else None)).
  destruct (fold_left _ ks None); [reflexivity|]. destruct (p k); reflexivity.
Qed.

Lemma fold_kapply_fields : forall ks d,
  let d' := fold_left kapply ks d in
  d_verb d' = d_verb d /\ d_path d' = d_path d /\ d_path_params d' = d_path_params d /\
  d_query_params d' = d_query_params d ++ flat_map (q_of (d_path_params d)) ks /\
  d_alias d' = set_list (flat_map aw_of ks) (d_alias d) /\
  d_is_ptr d' = set_list (flat_map pw_of ks) (d_is_ptr d) /\
  d_body d' = lastk is_struct ks (d_body d) /\
  d_ctx d' = lastk is_ctx ks (d_ctx d) /\
  d_dict d' = (if String.eqb (d_verb d) "GET" || String.eqb (d_verb d) "DELETE"
               then lastk is_map ks (d_dict d) else d_dict d).
Proof.
  induction ks as [|nk ks IH]; intros d; simpl.
  - rewrite app_nil_r. destruct (String.eqb (d_verb d) "GET" || String.eqb (d_verb d) "DELETE"); repeat split; reflexivity.
  - specialize (IH (kapply d nk)). simpl in IH. destruct IH as (H1 & H2 & H3 & H4 & H5 & H6 & H7 & H8 & H9).
    destruct (kapply_fields d nk) as (G1 & G2 & G3 & G4 & G5 & G6 & G7 & G8 & G9).
    rewrite H1, H2, H3, H4, H5, H6, H7, H8, H9. rewrite G1, G2, G3, G4, G5, G6, G7, G8, G9.
    rewrite <- app_assoc. rewrite !set_list_app. unfold lastk. simpl.
    destruct (String.eqb (d_verb d) "GET" || String.eqb (d_verb d) "DELETE"); rewrite ?andb_true_r, ?andb_false_r;
      repeat split; reflexivity.
Qed.

(* =============================================================== Part 3 *)
Lemma mem_str_In : forall x l, mem_str x l = true <-> In x l.
Proof. intros. unfold mem_str. apply existsb_eqb_In. Qed.

Lemma nodup_str_NoDup : forall l, nodup_str l = true -> NoDup l.
Proof.
  induction l as [|x l IH]; simpl; intros H; [constructor|].
  apply andb_true_iff in H. destruct H as [H1 H2]. constructor; [|apply IH; exact H2].
  intros Hin. apply mem_str_In in Hin. rewrite Hin in H1. discriminate.
Qed.

Lemma NoDup_map_inj_in : forall (A : Type) (g : A -> string) (l : list A) a b,
  NoDup (map g l) -> In a l -> In b l -> g a = g b -> a = b.
Proof.
  intros A g. induction l as [|x l IH]; intros a b Hnd Ha Hb He; simpl in *; [contradiction|].
  inversion Hnd as [|? ? Hni Hnd']; subst.
  destruct Ha as [Ha|Ha]; destruct Hb as [Hb|Hb]; subst.
  - reflexivity.
  - exfalso. apply Hni. rewrite He. apply in_map. exact Hb.
  - exfalso. apply Hni. rewrite <- He. apply in_map. exact Ha.
  - apply IH; assumption.
Qed.

(* a Go expression reading a field contains a dot, a parameter name does not *)
Lemma no_char_dot_expr : forall n f, no_char "." (expr_key (fexpr n f)) = false.
Proof.
  intros n f. unfold fexpr. destruct (fi_exported f); simpl; rewrite no_char_app;
    (destruct (no_char "." n); [simpl; reflexivity | reflexivity]).
Qed.

Lemma aw_keys_dotted : forall ks x, In x (map fst (flat_map aw_of ks)) -> no_char "." x = false.
Proof.
  induction ks as [|[n k] ks IH]; intros x Hin; simpl in Hin; [contradiction|].
  rewrite map_app, in_app_iff in Hin. destruct Hin as [Hin|Hin]; [|apply IH; exact Hin].
  unfold aw_of in Hin. cbn [fst snd] in Hin. destruct k; simpl in Hin; try contradiction.
  rewrite map_map in Hin. apply in_map_iff in Hin. destruct Hin as [f [E _]]. subst x.
  apply no_char_dot_expr.
Qed.

Lemma field_pw_keys : forall n fs x,
  In x (map fst (flat_map (field_pw n) fs)) <-> exists f, In f fs /\ fi_ptr f = true /\ x = expr_key (fexpr n f).
Proof.
  intros n. induction fs as [|f fs IH]; intros x; simpl.
  - split; [intros [] | intros [f [[] _]]].
  - rewrite map_app, in_app_iff, IH. unfold field_pw at 1. split.
    + intros [H|[f' [H1 [H2 H3]]]].
      * destruct (fi_ptr f) eqn:E; simpl in H; [|contradiction]. destruct H as [H|[]]. exists f. auto.
      * exists f'. auto.
    + intros [f' [[H1|H1] [H2 H3]]].
      * subst f'. left. rewrite H2. simpl. left. symmetry. exact H3.
      * right. exists f'. auto.
Qed.

Lemma pw_keys : forall ks x,
  In x (map fst (flat_map pw_of ks)) <->
  (exists n ptr fs f, In (n, KStruct ptr fs) ks /\ In f fs /\ fi_ptr f = true /\ x = expr_key (fexpr n f))
  \/ (exists k, In (x, k) ks /\ kptr k = true).
Proof.
  induction ks as [|[n k] ks IH]; intros x; simpl.
  - split; [intros [] | intros [[? [? [? [? [[] _]]]]]|[? [[] _]]]].
  - rewrite map_app, in_app_iff, IH. unfold pw_of at 1. cbn [fst snd]. rewrite map_app, in_app_iff. split.
    + intros [[H|H]|[H|H]].
      * destruct k as [|p|p fs|p|p]; simpl in H; try contradiction.
        apply field_pw_keys in H. destruct H as [f [H1 [H2 H3]]].
        left. exists n, p, fs, f. auto.
      * destruct (kptr k) eqn:E; simpl in H; [|contradiction]. destruct H as [H|[]]. subst x.
        right. exists k. auto.
      * destruct H as [n' [p [fs [f [H1 H2]]]]]. left. exists n', p, fs, f. split; [right; exact H1 | exact H2].
      * destruct H as [k' [H1 H2]]. right. exists k'. split; [right; exact H1 | exact H2].
    + intros [[n' [p [fs [f [[H1|H1] [H2 [H3 H4]]]]]]]|[k' [[H1|H1] H2]]].
      * inversion H1; subst. left. left. simpl. apply field_pw_keys. exists f. auto.
      * right. left. exists n', p, fs, f. auto.
      * inversion H1; subst. left. right. rewrite H2. simpl. left. reflexivity.
      * right. right. exists k'. auto.
Qed.

(* with at most one struct parameter, the alias entries of the fields are those of that struct *)
Lemma aw_of_no_struct : forall ks, count_kind is_struct ks = 0 -> flat_map aw_of ks = [].
Proof.
  induction ks as [|[n k] ks IH]; intros H; [reflexivity|].
  unfold count_kind in *. simpl in *. destruct k; simpl in *; try discriminate; apply IH; exact H.
Qed.

Lemma struct_in_count : forall ks n p fs, In (n, KStruct p fs) ks -> 1 <= count_kind is_struct ks.
Proof.
  unfold count_kind. induction ks as [|[a b] ks IH]; intros n p fs H; [contradiction|]. simpl in *.
  destruct H as [H|H].
  - inversion H; subst. simpl. lia.
  - destruct (is_struct b); simpl; [lia | eapply IH; exact H].
Qed.

Lemma aw_of_one_struct : forall ks n ptr fs,
  count_kind is_struct ks <= 1 -> In (n, KStruct ptr fs) ks -> flat_map aw_of ks = map (field_aw n) fs.
Proof.
  induction ks as [|[n' k] ks IH]; intros n ptr fs Hc Hin; [contradiction|].
  unfold count_kind in *. simpl in *. destruct Hin as [Hin|Hin].
  - inversion Hin; subst. simpl in Hc. unfold aw_of at 1. cbn [fst snd].
    rewrite aw_of_no_struct; [apply app_nil_r | unfold count_kind; lia].
  - destruct k as [|p|p fs'|p|p]; cbn [snd is_struct] in Hc; simpl in Hc;
      try (unfold aw_of at 1; cbn [fst snd app]; eapply IH; [exact Hc | exact Hin]);
    (pose proof (struct_in_count _ _ _ _ Hin) as X; unfold count_kind in X; lia).
Qed.

Lemma forallb_In : forall (A : Type) (p : A -> bool) l x, forallb p l = true -> In x l -> p x = true.
Proof. intros A p l x H Hin. rewrite forallb_forall in H. apply H. exact Hin. Qed.

Lemma kind_of_param_in : forall ms p k, kind_of_param ms p = Some k -> In (p, k) (s_params ms).
Proof.
  intros ms p k H. unfold kind_of_param in H.
  destruct (List.find (fun pk => String.eqb (fst pk) p) (s_params ms)) as [[n k']|] eqn:E; [|discriminate].
  inversion H; subst. apply find_some in E. destruct E as [E1 E2]. simpl in E2. apply String.eqb_eq in E2. subst. exact E1.
Qed.

Lemma in_nodup_fst_eq : forall (A : Type) (l : list (string * A)) n a b,
  NoDup (map fst l) -> In (n, a) l -> In (n, b) l -> a = b.
Proof.
  intros A l n a b Hnd Ha Hb.
  assert (E : (n, a) = (n, b)).
  { apply (NoDup_map_inj_in _ (fun x : string * A => fst x) l); auto. }
  inversion E. reflexivity.
Qed.

Lemma last_of_kind_in : forall p ks x, last_of_kind p ks = Some x -> exists k, In (x, k) ks /\ p k = true.
Proof.
  intros p ks x. unfold last_of_kind. fold (lastk p ks None).
  induction ks as [|[n k] ks IH] using rev_ind; intros H; [discriminate|].
  unfold lastk in *. rewrite fold_left_app in H. simpl in H.
  destruct (p k) eqn:E.
  - inversion H; subst. exists k. split; [apply in_or_app; right; left; reflexivity | exact E].
  - destruct (IH H) as [k' [H1 H2]]. exists k'. split; [apply in_or_app; left; exact H1 | exact H2].
Qed.

Lemma last_of_kind_none : forall p ks, last_of_kind p ks = None -> forall x k, In (x, k) ks -> p k = false.
Proof.
  intros p ks. unfold last_of_kind. fold (lastk p ks None).
  induction ks as [|[n k] ks IH] using rev_ind; intros H x k' Hin; [contradiction|].
  unfold lastk in *. rewrite fold_left_app in H. simpl in H.
  destruct (p k) eqn:E; [discriminate|].
  apply in_app_or in Hin. destruct Hin as [Hin|[Hin|[]]].
  - eapply IH; eassumption.
  - inversion Hin; subst. exact E.
Qed.

Lemma count_pos_last : forall p ks, 1 <= count_kind p ks -> exists x, last_of_kind p ks = Some x.
Proof.
  intros p ks H. destruct (last_of_kind p ks) eqn:E; [eexists; reflexivity|].
  exfalso. pose proof (last_of_kind_none p ks E) as N. unfold count_kind in H.
  assert (Z : filter (fun pk : string * pkind => p (snd pk)) ks = []).
  { clear - N. induction ks as [|[n k] ks IH]; [reflexivity|]. simpl.
    rewrite (N n k (or_introl eq_refl)). apply IH. intros x k' Hin. eapply N. right. exact Hin. }
  rewrite Z in H. simpl in H. lia.
Qed.

Lemma one_struct_unique : forall ks n p fs n' p' fs',
  count_kind is_struct ks <= 1 -> In (n, KStruct p fs) ks -> In (n', KStruct p' fs') ks ->
  (n', KStruct p' fs') = (n, KStruct p fs).
Proof.
  induction ks as [|[a b] ks IH]; intros n p fs n' p' fs' Hc H1 H2; [contradiction|].
  unfold count_kind in Hc. simpl in Hc, H1, H2.
  destruct H1 as [H1|H1]; destruct H2 as [H2|H2].
  - congruence.
  - inversion H1; subst. simpl in Hc. pose proof (struct_in_count _ _ _ _ H2) as X. unfold count_kind in X. lia.
  - inversion H2; subst. simpl in Hc. pose proof (struct_in_count _ _ _ _ H1) as X. unfold count_kind in X. lia.
  - eapply IH; [|exact H1|exact H2]. unfold count_kind. destruct (is_struct b); simpl in Hc; lia.
Qed.

Section Main.
Variable fmt_v : sval -> string.
Variable join_path : string -> string -> option string.
Variable json_marshal : aval -> option string.
Variable url_query : string -> list (string * string).
Variable sigma_d : list (string * sval) -> list (string * sval).
Variable ms : mspec.
Variable args : list (string * aval).

Let ps := s_params ms.
Let al := s_alias ms.
Let toks := s_toks ms.
Let hp := map (resolve al) (holes toks).

Definition d0 : mdata :=
  {| d_verb := s_verb ms; d_path := render_toks toks; d_alias := al; d_path_params := hp;
     d_query_params := []; d_is_ptr := []; d_body := None; d_dict := None; d_ctx := None |}.
Definition dfin : mdata := fold_left kapply ps d0.

Hypothesis Hwf : wf_mspec ms = true.
Hypothesis Hg : args_in_guard fmt_v ms args = true.

Lemma wf_unpack :
  forallb wf_tok toks = true /\ NoDup (map fst ps) /\
  (forall n k, In (n, k) ps -> (nonempty n = true /\ bad_name n = false) /\ no_char "." n = true /\ wf_kind n k = true) /\
  NoDup (map fst al) /\ NoDup (map snd al) /\
  (forall k v, In (k, v) al -> nonempty v = true /\ no_char "." k = true) /\
  (forall h, In h (holes toks) -> kind_of_param ms (resolve al h) = Some (KScalar false)) /\
  (forall h, In h (holes toks) -> resolve al h = h -> ~ In h (map fst al)) /\
  count_kind is_ctx ps <= 1 /\ count_kind is_struct ps <= 1 /\ count_kind is_map ps <= 1 /\
  (body_verb (s_verb ms) = true -> count_kind is_struct ps = 1) /\
  In (s_verb ms) ["GET"; "POST"; "PUT"; "PATCH"; "DELETE"].
Proof.
  pose proof Hwf as H. unfold wf_mspec in H. fold ps al toks in H.
  repeat (apply andb_true_iff in H; let H' := fresh "W" in destruct H as [H H']).
  repeat split.
  - exact H.
  - apply nodup_str_NoDup. exact W10.
  - pose proof (forallb_In _ _ _ _ W9 H0) as X. simpl in X.
    repeat (apply andb_true_iff in X; let Y := fresh "Y" in destruct X as [X Y]). exact X.
  - pose proof (forallb_In _ _ _ _ W9 H0) as X. simpl in X.
    repeat (apply andb_true_iff in X; let Y := fresh "Y" in destruct X as [X Y]).
    unfold bad_name, nonempty in *. destruct (String.eqb n EmptyString); [discriminate|].
    destruct (String.eqb n "_"); [discriminate | reflexivity].
  - pose proof (forallb_In _ _ _ _ W9 H0) as X. simpl in X.
    repeat (apply andb_true_iff in X; let Y := fresh "Y" in destruct X as [X Y]). assumption.
  - pose proof (forallb_In _ _ _ _ W9 H0) as X. simpl in X.
    repeat (apply andb_true_iff in X; let Y := fresh "Y" in destruct X as [X Y]). assumption.
  - apply nodup_str_NoDup. exact W8.
  - apply nodup_str_NoDup. exact W7.
  - pose proof (forallb_In _ _ _ _ W6 H0) as X. simpl in X. apply andb_true_iff in X. tauto.
  - pose proof (forallb_In _ _ _ _ W6 H0) as X. simpl in X. apply andb_true_iff in X. tauto.
  - intros h Hh. pose proof (forallb_In _ _ _ _ W5 Hh) as X. simpl in X.
    destruct (kind_of_param ms (resolve al h)) as [[|[|]| | |]|]; try discriminate. reflexivity.
  - intros h Hh Hr Hin. pose proof (forallb_In _ _ _ _ W4 Hh) as X. simpl in X.
    rewrite Hr, String.eqb_refl in X. simpl in X. apply mem_str_In in Hin. rewrite Hin in X. discriminate.
  - apply Nat.leb_le. exact W3.
  - apply Nat.leb_le. exact W2.
  - apply Nat.leb_le. exact W1.
  - intros Hb. rewrite Hb in W0. simpl in W0. apply Nat.eqb_eq. exact W0.
  - apply mem_str_In. exact W.
Qed.

Lemma dfin_fields :
  d_verb dfin = s_verb ms /\ d_path dfin = render_toks toks /\ d_path_params dfin = hp /\
  d_query_params dfin = flat_map (q_of hp) ps /\
  d_alias dfin = set_list (flat_map aw_of ps) al /\
  d_is_ptr dfin = set_list (flat_map pw_of ps) [] /\
  d_body dfin = last_of_kind is_struct ps /\
  d_ctx dfin = last_of_kind is_ctx ps /\
  d_dict dfin = (if String.eqb (s_verb ms) "GET" || String.eqb (s_verb ms) "DELETE"
                 then last_of_kind is_map ps else None).
Proof.
  destruct (fold_kapply_fields ps d0) as (H1 & H2 & H3 & H4 & H5 & H6 & H7 & H8 & H9).
  fold dfin in H1, H2, H3, H4, H5, H6, H7, H8, H9. simpl in *.
  rewrite !lastk_acc in *.
  repeat split; try assumption.
  - rewrite H7. destruct (last_of_kind is_struct ps); reflexivity.
  - rewrite H8. destruct (last_of_kind is_ctx ps); reflexivity.
  - rewrite H9. destruct (String.eqb (s_verb ms) "GET" || String.eqb (s_verb ms) "DELETE"); [|reflexivity].
    destruct (last_of_kind is_map ps); reflexivity.
Qed.

(* lookups in the final alias / pointer maps *)
Lemma alias_nodot : forall n, no_char "." n = true -> map_get (d_alias dfin) n = map_get al n.
Proof.
  intros n Hn. destruct dfin_fields as (_ & _ & _ & _ & Ha & _). rewrite Ha.
  apply set_list_notin. intros Hin. apply aw_keys_dotted in Hin. congruence.
Qed.

Lemma isptr_param : forall n k, In (n, k) ps -> is_true_key (d_is_ptr dfin) n = kptr k.
Proof.
  intros n k Hin. destruct wf_unpack as (_ & Hnd & Hps & _).
  destruct dfin_fields as (_ & _ & _ & _ & _ & Hp & _). rewrite Hp.
  rewrite is_true_key_set_list. simpl. rewrite orb_false_r.
  destruct (kptr k) eqn:Ek.
  - apply existsb_eqb_In. apply pw_keys. right. exists k. auto.
  - destruct (existsb (String.eqb n) (map fst (flat_map pw_of ps))) eqn:E; [|reflexivity].
    exfalso. apply existsb_eqb_In in E. apply pw_keys in E.
    destruct E as [[n' [p [fs [f [_ [_ [_ E]]]]]]]|[k' [H1 H2]]].
    + destruct (Hps n k Hin) as (_ & Hd & _). rewrite E, no_char_dot_expr in Hd. discriminate.
    + assert (k = k') by (eapply in_nodup_fst_eq; eassumption). subst. congruence.
Qed.

Lemma alias_field : forall n ptr fs f, In (n, KStruct ptr fs) ps -> In f fs ->
  map_get (d_alias dfin) (expr_key (fexpr n f)) = Some (field_key f).
Proof.
  intros n ptr fs f Hin Hf. destruct wf_unpack as (_ & _ & Hps & _ & _ & _ & _ & _ & _ & Hc & _).
  destruct dfin_fields as (_ & _ & _ & _ & Ha & _). rewrite Ha.
  rewrite (aw_of_one_struct ps n ptr fs Hc Hin).
  destruct (Hps _ _ Hin) as (_ & _ & Hk). simpl in Hk.
  apply andb_true_iff in Hk. destruct Hk as [_ Hk]. apply nodup_str_NoDup in Hk.
  apply set_list_in.
  - rewrite map_map. simpl. exact Hk.
  - apply in_map_iff. exists f. split; [reflexivity | exact Hf].
Qed.

Lemma isptr_field : forall n ptr fs f, In (n, KStruct ptr fs) ps -> In f fs ->
  is_true_key (d_is_ptr dfin) (expr_key (fexpr n f)) = fi_ptr f.
Proof.
  intros n ptr fs f Hin Hf. destruct wf_unpack as (_ & Hnd & Hps & _ & _ & _ & _ & _ & _ & Hc & _).
  destruct dfin_fields as (_ & _ & _ & _ & _ & Hp & _). rewrite Hp.
  rewrite is_true_key_set_list. simpl. rewrite orb_false_r.
  destruct (Hps _ _ Hin) as (_ & _ & Hk). simpl in Hk.
  apply andb_true_iff in Hk. destruct Hk as [_ Hk]. apply nodup_str_NoDup in Hk.
  destruct (fi_ptr f) eqn:Ef.
  - apply existsb_eqb_In. apply pw_keys. left. exists n, ptr, fs, f. auto.
  - destruct (existsb (String.eqb (expr_key (fexpr n f))) (map fst (flat_map pw_of ps))) eqn:E; [|reflexivity].
    exfalso. apply existsb_eqb_In in E. apply pw_keys in E.
    destruct E as [[n' [p [fs' [f' [H1 [H2 [H3 H4]]]]]]]|[k' [H1 H2]]].
    + (* the only struct parameter is (n, KStruct ptr fs) *)
      assert (Es : (n', KStruct p fs') = (n, KStruct ptr fs)) by (eapply one_struct_unique; eassumption).
      inversion Es; subst.
      assert (f' = f). { apply (NoDup_map_inj_in _ (fun f0 => expr_key (fexpr n f0)) fs); auto. }
      subst. congruence.
    + destruct (Hps _ _ H1) as (_ & Hd & _). rewrite no_char_dot_expr in Hd. discriminate.
Qed.

Lemma guard_unpack :
  args_typed ms args = true /\
  (forall h, In h (holes toks) -> exists v, arg_get args (resolve al h) = Some (AScalar v) /\ no_char "{" (fmt_v v) = true) /\
  (body_verb (s_verb ms) = false -> forall n fs, In (n, KStruct true fs) ps -> arg_get args n <> Some (AStruct true None)).
Proof.
  pose proof Hg as H. unfold args_in_guard in H. fold ps al toks in H.
  apply andb_true_iff in H. destruct H as [H H3]. apply andb_true_iff in H. destruct H as [H1 H2].
  split; [exact H1|]. split.
  - intros h Hh. pose proof (forallb_In _ _ _ _ H2 Hh) as X. simpl in X.
    destruct (arg_get args (resolve al h)) as [[v| | | |]|]; try discriminate. exists v. split; [reflexivity|].
    unfold path_text_safe in X. repeat (apply andb_true_iff in X; let Y := fresh "Y" in destruct X as [X Y]). assumption.
  - intros Hb n fs Hin E. rewrite Hb in H3. simpl in H3.
    pose proof (forallb_In _ _ _ _ H3 Hin) as X. simpl in X. rewrite E in X. discriminate.
Qed.

Definition valf (h : string) : string :=
  match scalar_text fmt_v args (resolve al h) with Some s => s | None => EmptyString end.

Lemma path_ok :
  subst_path fmt_v (d_alias dfin) args (d_path_params dfin) (d_path dfin) = Some (fill valf toks)
  /\ spec_path fmt_v ms args = Some (fill valf toks).
Proof.
  destruct wf_unpack as (Htok & Hnd & Hps & Hak & Hat & Hal & Hh & Hsrc & _).
  destruct guard_unpack as (_ & Hv & _).
  destruct dfin_fields as (_ & Hp & Hpp & _). rewrite Hp, Hpp. unfold hp.
  assert (Hval : forall h, In h (holes toks) -> exists v, arg_get args (resolve al h) = Some (AScalar v) /\
                   fmt_v v = valf h /\ no_char "{" (valf h) = true).
  { intros h Hin. destruct (Hv h Hin) as [v [H1 H2]]. exists v. unfold valf, scalar_text. rewrite H1. auto. }
  split.
  - rewrite (subst_path_seq fmt_v (d_alias dfin) args (resolve al) valf (holes toks) (render_toks toks)).
    + f_equal. change (render_toks toks) with (EmptyString ++ render_toks toks)%string.
      rewrite subst_seq_fill; [reflexivity | reflexivity | |].
      * unfold lits_no_brace. apply forallb_forall. intros t Ht.
        pose proof (forallb_In _ _ _ _ Htok Ht) as X. destruct t; [exact X | reflexivity].
      * intros h Hin. destruct (Hval h Hin) as [v [_ [_ H]]]. exact H.
    + intros h Hin. destruct (Hval h Hin) as [v [H1 [H2 _]]]. split; [|exists v; auto].
      pose proof (kind_of_param_in _ _ _ (Hh h Hin)) as Hpin. destruct (Hps _ _ Hpin) as (_ & Hdot & _).
      unfold path_key. rewrite (alias_nodot _ Hdot).
      unfold resolve in *. fold (find_src al h) in *. destruct (find_src al h) as [[p a]|] eqn:E; simpl in *.
      * apply find_src_some in E. destruct E as [E1 E2]. simpl in E2. subst a.
        rewrite (map_get_in_nodup al p h Hak E1). destruct (Hal _ _ E1) as [Hne _].
        unfold nonempty in Hne. destruct (String.eqb h EmptyString); [discriminate | reflexivity].
      * assert (N : map_get al h = None).
        { apply map_get_none_iff. apply Hsrc; [exact Hin|]. unfold resolve. fold (find_src al h). rewrite E. reflexivity. }
        rewrite N. reflexivity.
  - unfold spec_path. fold al toks.
    assert (F : forallb (fun h => match scalar_text fmt_v args (resolve al h) with Some _ => true | None => false end)
                        (holes toks) = true).
    { apply forallb_forall. intros h Hin. destruct (Hv h Hin) as [v [H1 _]]. unfold scalar_text. rewrite H1. reflexivity. }
    rewrite F. reflexivity.
Qed.

(* ---- the query parameters ---- *)
Lemma set_queries_app : forall d a b q,
  set_queries fmt_v d args (a ++ b) q =
  match set_queries fmt_v d args a q with QOk q' => set_queries fmt_v d args b q' | e => e end.
Proof.
  intros d. induction a as [|e a IH]; intros b q; [reflexivity|]. simpl.
  destruct (eval_q fmt_v args e _); try reflexivity; apply IH.
Qed.

Lemma wr_fold : forall (A : Type) (f : A -> wr) (g : A -> list (string * string)) l acc,
  (forall x, In x l -> f x = WOk (g x)) ->
  fold_left wr_app (map f l) (WOk acc) = WOk (acc ++ flat_map g l).
Proof.
  intros A f g. induction l as [|x l IH]; intros acc H; simpl.
  - rewrite app_nil_r. reflexivity.
  - rewrite (H x (or_introl eq_refl)). simpl. rewrite IH.
    + rewrite app_assoc. reflexivity.
    + intros y Hy. apply H. right. exact Hy.
Qed.

Definition field_ws (vs : list (string * fval)) (f : field_info) : list (string * string) :=
  match field_get vs (fi_name f) with
  | Some (FPlain v) | Some (FPtr (Some v)) => [(field_key f, fmt_v v)]
  | _ => []
  end.

Lemma field_write_typed : forall vs f, field_typed vs f = true -> field_write fmt_v vs f = WOk (field_ws vs f).
Proof.
  intros vs f H. unfold field_typed in H. unfold field_write, field_ws.
  destruct (field_get vs (fi_name f)) as [[v|[v|]]|]; destruct (fi_ptr f); try discriminate; reflexivity.
Qed.

Definition param_ws (pk : string * pkind) : list (string * string) :=
  match snd pk with
  | KScalar _ =>
      if mem_str (fst pk) hp then []
      else match arg_get args (fst pk) with
           | Some (AScalar v) | Some (APtr (Some v)) => [(alias_or_name al (fst pk), fmt_v v)]
           | _ => []
           end
  | KStruct _ fs =>
      match arg_get args (fst pk) with
      | Some (AStruct _ (Some vs)) => flat_map (field_ws vs) fs
      | _ => []
      end
  | _ => []
  end.

Definition not_nil_struct (pk : string * pkind) : Prop := arg_get args (fst pk) <> Some (AStruct true None).

Lemma param_writes_typed : forall pk,
  arg_typed args pk = true -> not_nil_struct pk -> param_writes fmt_v ms args pk = WOk (param_ws pk).
Proof.
  intros [n k] Ht Hn. unfold arg_typed in Ht. unfold not_nil_struct in Hn. cbn [fst snd] in *.
  unfold param_writes, param_ws. cbn [fst snd]. fold al toks hp.
  destruct k as [|ptr|ptr fs|ptr|ptr].
  - reflexivity.
  - destruct (mem_str n hp); [reflexivity|].
    destruct ptr; destruct (arg_get args n) as [[v|[v|]|? ?|?|?]|]; try discriminate; reflexivity.
  - destruct (arg_get args n) as [[v|o|ptr' [vs|]|?|?]|]; try (destruct ptr; discriminate).
    + assert (Ht' : Bool.eqb ptr ptr' && forallb (field_typed vs) fs = true) by (destruct ptr; destruct ptr'; exact Ht).
      clear Ht. apply andb_true_iff in Ht'. destruct Ht' as [Hp Hf]. rewrite Hp.
      rewrite (wr_fold _ (field_write fmt_v vs) (field_ws vs) fs []); [destruct ptr'; reflexivity|].
      intros f Hin. apply field_write_typed. apply (forallb_In _ _ _ _ Hf Hin).
    + destruct ptr'; [exfalso; apply Hn; reflexivity | destruct ptr; discriminate].
  - reflexivity.
  - reflexivity.
Qed.

Lemma set_queries_fields : forall n ptr fs ptr' vs,
  In (n, KStruct ptr fs) ps -> arg_get args n = Some (AStruct ptr' (Some vs)) ->
  forall fs0, incl fs0 fs -> forallb (field_typed vs) fs0 = true ->
  forall q, set_queries fmt_v dfin args (map (fexpr n) fs0) q = QOk (set_list (flat_map (field_ws vs) fs0) q).
Proof.
  intros n ptr fs ptr' vs Hin Ha.
  destruct wf_unpack as (_ & _ & Hps & _).
  induction fs0 as [|f fs0 IH]; intros Hincl Ht q; [reflexivity|].
  simpl in Ht. apply andb_true_iff in Ht. destruct Ht as [Htf Ht].
  assert (Hf : In f fs) by (apply Hincl; left; reflexivity).
  simpl map. cbn [set_queries].
  rewrite (alias_field n ptr fs f Hin Hf). rewrite (isptr_field n ptr fs f Hin Hf).
  destruct (Hps _ _ Hin) as (_ & _ & Hk). simpl in Hk.
  apply andb_true_iff in Hk. destruct Hk as [Hk _]. apply andb_true_iff in Hk. destruct Hk as [Hwfs _].
  pose proof (forallb_In _ _ _ _ Hwfs Hf) as Hwff. unfold wf_field in Hwff.
  apply andb_true_iff in Hwff. destruct Hwff as [Hne _]. unfold nonempty in Hne.
  destruct (String.eqb (field_key f) EmptyString) eqn:Ek; [discriminate|].
  assert (Ev : eval_q fmt_v args (fexpr n f) (fi_ptr f) =
               match field_ws vs f with [] => EvNil | (_, s) :: _ => EvVal s end).
  { unfold field_typed in Htf. unfold field_ws. unfold fexpr.
    destruct ptr'; destruct (fi_exported f); simpl; rewrite Ha;
      destruct (field_get vs (fi_name f)) as [[v|[v|]]|]; destruct (fi_ptr f); try discriminate; reflexivity. }
  rewrite Ev. simpl flat_map. rewrite set_list_app.
  assert (Hshape : field_ws vs f = [] \/ exists s, field_ws vs f = [(field_key f, s)]).
  { unfold field_ws. destruct (field_get vs (fi_name f)) as [[v|[v|]]|]; eauto. }
  destruct Hshape as [E|[s E]]; rewrite E.
  - apply IH; [intros x Hx; apply Hincl; right; exact Hx | exact Ht].
  - simpl. apply IH; [intros x Hx; apply Hincl; right; exact Hx | exact Ht].
Qed.

Lemma set_queries_params : forall l,
  incl l ps -> (forall pk, In pk l -> not_nil_struct pk) ->
  forall q, set_queries fmt_v dfin args (flat_map (q_of hp) l) q = QOk (set_list (flat_map param_ws l) q).
Proof.
  destruct wf_unpack as (_ & _ & Hps & Hak & _ & Hal & _).
  destruct guard_unpack as (Hty & _ & _). unfold args_typed in Hty. fold ps in Hty.
  induction l as [|[n k] l IH]; intros Hincl Hnn q; [reflexivity|].
  assert (Hin : In (n, k) ps) by (apply Hincl; left; reflexivity).
  pose proof (forallb_In _ _ _ _ Hty Hin) as Ht. unfold arg_typed in Ht. cbn [fst snd] in Ht.
  pose proof (Hnn _ (or_introl eq_refl)) as Hn1. unfold not_nil_struct in Hn1. cbn [fst] in Hn1.
  simpl flat_map. rewrite set_queries_app, set_list_app.
  assert (Hrest : forall q', set_queries fmt_v dfin args (flat_map (q_of hp) l) q' = QOk (set_list (flat_map param_ws l) q')).
  { intros q'. apply IH; [intros x Hx; apply Hincl; right; exact Hx | intros x Hx; apply Hnn; right; exact Hx]. }
  assert (Hhead : forall q', set_queries fmt_v dfin args (q_of hp (n, k)) q' = QOk (set_list (param_ws (n, k)) q')).
  { intros q'. unfold q_of, param_ws. cbn [fst snd].
    destruct k as [|ptr|ptr fs|ptr|ptr].
    - reflexivity.
    - destruct (mem_str n hp); [reflexivity|].
      destruct (Hps _ _ Hin) as (_ & Hdot & _).
      cbn [set_queries expr_key]. rewrite (alias_nodot _ Hdot). rewrite (isptr_param _ _ Hin). cbn [kptr].
      assert (Eal : match map_get al n with Some a => if String.eqb a EmptyString then n else a | None => n end
                    = alias_or_name al n).
      { unfold alias_or_name. destruct (map_get al n) as [a|] eqn:E; [|reflexivity].
        apply map_get_some_in in E. destruct (Hal _ _ E) as [Hne _]. unfold nonempty in Hne.
        destruct (String.eqb a EmptyString); [discriminate | reflexivity]. }
      rewrite Eal. unfold eval_q.
      destruct ptr; destruct (arg_get args n) as [[v|[v|]|? ?|?|?]|]; try discriminate; reflexivity.
    - destruct (arg_get args n) as [[v|o|ptr' [vs|]|?|?]|] eqn:Ea; try (destruct ptr; discriminate).
      + assert (Ht' : Bool.eqb ptr ptr' && forallb (field_typed vs) fs = true) by (destruct ptr; destruct ptr'; exact Ht).
        apply andb_true_iff in Ht'. destruct Ht' as [_ Hf].
        apply (set_queries_fields n ptr fs ptr' vs Hin Ea fs (incl_refl _) Hf).
      + destruct ptr'; [exfalso; apply Hn1; reflexivity | destruct ptr; discriminate].
    - reflexivity.
    - reflexivity. }
  rewrite Hhead. apply Hrest.
Qed.

(* ---- the map parameter ---- *)
Definition entries_of (p : string) : wr :=
  match arg_get args p with
  | Some (AMap es) => WOk (map (fun kv => (fst kv, fmt_v (snd kv))) (sigma_d es))
  | _ => WBad
  end.

Lemma map_entries_last :
  map_entries fmt_v sigma_d ms args = match last_of_kind is_map ps with Some p => entries_of p | None => WOk [] end.
Proof.
  unfold map_entries, last_of_kind. fold ps.
  assert (G : forall ks o acc,
    fold_left (fun (acc : wr) (pk : string * pkind) =>
       match snd pk with
       | KMap _ => match arg_get args (fst pk) with
                   | Some (AMap es) => WOk (map (fun kv => (fst kv, fmt_v (snd kv))) (sigma_d es))
                   | _ => WBad
                   end
       | _ => acc
       end) ks (match o with Some p => entries_of p | None => acc end)
    = match fold_left (fun acc pk => if is_map (snd pk) then Some (fst pk) else acc) ks o with
      | Some p => entries_of p | None => acc end).
  { induction ks as [|[n k] ks IH]; intros o acc; [reflexivity|]. simpl.
    destruct k; simpl; try apply IH.
    specialize (IH (Some n) acc). simpl in IH. unfold entries_of at 1 in IH. exact IH. }
  specialize (G ps None (WOk [])). simpl in G. exact G.
Qed.

Lemma fold_set_map : forall (es : list (string * sval)) q,
  fold_left (fun q' kv => map_set q' (fst kv) (fmt_v (snd kv))) es q
  = set_list (map (fun kv => (fst kv, fmt_v (snd kv))) es) q.
Proof. induction es as [|e es IH]; intros q; [reflexivity|]. simpl. unfold set_list in *. simpl. apply IH. Qed.

Lemma all_not_nil : body_verb (s_verb ms) = false -> forall pk, In pk ps -> not_nil_struct pk.
Proof.
  intros Hb [n k] Hin. unfold not_nil_struct. cbn [fst]. intros E.
  destruct guard_unpack as (Hty & _ & Hnil). unfold args_typed in Hty. fold ps in Hty.
  pose proof (forallb_In _ _ _ _ Hty Hin) as Ht. unfold arg_typed in Ht. cbn [fst snd] in Ht. rewrite E in Ht.
  destruct k as [|[|]|[|] fs|?|?]; try discriminate.
  apply (Hnil Hb n fs Hin E).
Qed.

Lemma has_source_false :
  has_query_source ms = false -> flat_map (q_of hp) ps = [] /\ last_of_kind is_map ps = None.
Proof.
  unfold has_query_source. fold ps al toks hp. intros H. split.
  - induction ps as [|[n k] l IH]; [reflexivity|]. simpl in H. apply orb_false_iff in H. destruct H as [H1 H2].
    simpl. rewrite (IH H2), app_nil_r. unfold q_of. cbn [fst snd].
    destruct k as [|ptr|ptr fs|ptr|ptr]; try reflexivity.
    + apply negb_false_iff in H1. rewrite H1. reflexivity.
    + destruct fs; [reflexivity | discriminate].
  - destruct (last_of_kind is_map ps) as [x|] eqn:E; [|reflexivity].
    apply last_of_kind_in in E. destruct E as [k [Hin Hk]]. destruct k; try discriminate.
    exfalso. rewrite <- not_true_iff_false in H. apply H. apply existsb_exists. exists (x, KMap ptr). auto.
Qed.

Lemma has_source_true :
  has_query_source ms = true -> flat_map (q_of hp) ps <> [] \/ last_of_kind is_map ps <> None.
Proof.
  unfold has_query_source. fold ps al toks hp. intros H.
  apply existsb_exists in H. destruct H as [[n k] [Hin Hk]]. cbn [fst snd] in Hk.
  destruct k as [|ptr|ptr fs|ptr|ptr]; try discriminate.
  - left. intros E. assert (X : In (EParam n) (flat_map (q_of hp) ps)).
    { apply in_flat_map. exists (n, KScalar ptr). split; [exact Hin|]. unfold q_of. cbn [fst snd].
      apply negb_true_iff in Hk. rewrite Hk. left. reflexivity. }
    rewrite E in X. contradiction.
  - left. intros E. destruct fs as [|f fs]; [discriminate|].
    assert (X : In (fexpr n f) (flat_map (q_of hp) ps)).
    { apply in_flat_map. exists (n, KStruct ptr (f :: fs)). split; [exact Hin|]. left. reflexivity. }
    rewrite E in X. contradiction.
  - right. intros E. pose proof (last_of_kind_none _ _ E n (KMap ptr) Hin) as X. discriminate.
Qed.

Lemma verb_cases : body_verb (s_verb ms) = false ->
  (String.eqb (s_verb ms) "GET" || String.eqb (s_verb ms) "DELETE") = true.
Proof.
  destruct wf_unpack as (_ & _ & _ & _ & _ & _ & _ & _ & _ & _ & _ & _ & Hv).
  intros Hb. simpl in Hv.
  destruct Hv as [E|[E|[E|[E|[E|[]]]]]]; rewrite <- E in *; try reflexivity; discriminate.
Qed.

Lemma static_ok_dfin : static_ok dfin = true.
Proof.
  destruct wf_unpack as (_ & _ & Hps & _ & _ & _ & _ & _ & _ & _ & _ & Hbody & _).
  destruct dfin_fields as (Hv & _ & _ & _ & _ & _ & Hb & _ & Hd).
  unfold static_ok. rewrite Hv, Hb, Hd.
  destruct (body_verb (s_verb ms)) eqn:Eb.
  - simpl. rewrite andb_true_r.
    destruct (count_pos_last is_struct ps) as [x Hx]; [rewrite (Hbody eq_refl); lia|]. rewrite Hx. reflexivity.
  - simpl. rewrite (verb_cases Eb).
    destruct (last_of_kind is_map ps) as [p|] eqn:E; [|reflexivity].
    apply last_of_kind_in in E. destruct E as [k [Hin Hk]]. rewrite (isptr_param _ _ Hin).
    destruct k as [|?|? ?|ptr|?]; try discriminate. destruct (Hps _ _ Hin) as (_ & _ & Hw). simpl in Hw.
    simpl. exact Hw.
Qed.

(* the generated method sends exactly the declared request *)
Lemma exec_is_spec : forall hdrs hd base,
  sort_kv hdrs = spec_headers (s_verb ms) hd ->
  exec fmt_v join_path json_marshal url_query sigma_d hdrs dfin base args
  = spec_request fmt_v join_path json_marshal url_query sigma_d ms hd base args.
Proof.
  intros hdrs hd base Hh.
  destruct dfin_fields as (Hv & Hp & Hpp & Hq & Ha & Hip & Hb & Hc & Hd).
  destruct path_ok as [P1 P2].
  destruct guard_unpack as (Hty & _ & _). unfold args_typed in Hty. fold ps in Hty.
  unfold exec, spec_request. rewrite static_ok_dfin. cbn [negb]. rewrite P1, P2.
  destruct (join_path base (fill valf toks)) as [url_|]; [|reflexivity].
  unfold body_of, ctx_of, query_of. rewrite Hv, Hb, Hc. fold ps.
  destruct (body_verb (s_verb ms)) eqn:Eb.
  - destruct (last_of_kind is_struct ps) as [p|]; [|reflexivity].
    destruct (arg_get args p) as [a|]; [|reflexivity].
    destruct (json_marshal a) as [j|]; [|reflexivity].
    destruct (last_of_kind is_ctx ps) as [c|].
    + destruct (arg_get args c) as [[?|?|? ?|?|[cv|]]|]; try reflexivity. rewrite Hh. reflexivity.
    + rewrite Hh. reflexivity.
  - rewrite Hq, Hd, (verb_cases Eb).
    destruct (has_query_source ms) eqn:Es.
    + (* some parameter feeds the query *)
      pose proof (has_source_true Es) as Hsrc.
      pose proof (set_queries_params ps (incl_refl _) (all_not_nil Eb) (url_query url_)) as SQ.
      assert (SW : fold_left wr_app (map (param_writes fmt_v ms args) ps) (WOk []) = WOk (flat_map param_ws ps)).
      { rewrite (wr_fold _ (param_writes fmt_v ms args) param_ws ps []); [reflexivity|].
        intros pk Hin. apply param_writes_typed; [apply (forallb_In _ _ _ _ Hty Hin) | apply (all_not_nil Eb _ Hin)]. }
      unfold spec_writes. fold ps. rewrite SW, map_entries_last.
      assert (Emain :
        match set_queries fmt_v dfin args (flat_map (q_of hp) ps) (url_query url_) with
        | QOk q =>
            match last_of_kind is_map ps with
            | Some p =>
                if is_true_key (d_is_ptr dfin) p then inl ONoCompile
                else match arg_get args p with
                     | Some (AMap es) =>
                         inr (Some (fold_left (fun q' kv => map_set q' (fst kv) (fmt_v (snd kv))) (sigma_d es) q))
                     | _ => inl OIllTyped
                     end
            | None => inr (Some q)
            end
        | QPanic => inl OPanic
        | QBad => inl OIllTyped
        end
        = match wr_app (WOk (flat_map param_ws ps))
                       (match last_of_kind is_map ps with Some p => entries_of p | None => WOk [] end) with
          | WOk ws => inr (Some (set_all (url_query url_) ws))
          | WPanic => inl OPanic
          | WBad => inl OIllTyped
          end).
      { rewrite SQ. destruct (last_of_kind is_map ps) as [p|] eqn:Em.
        - apply last_of_kind_in in Em. destruct Em as [k [Hin Hk]]. rewrite (isptr_param _ _ Hin).
          destruct wf_unpack as (_ & _ & Hps & _). destruct (Hps _ _ Hin) as (_ & _ & Hw).
          destruct k as [|?|? ?|ptr|?]; try discriminate. simpl in Hw. apply negb_true_iff in Hw. subst ptr. cbn [kptr].
          pose proof (forallb_In _ _ _ _ Hty Hin) as Ht. unfold arg_typed in Ht. cbn [fst snd] in Ht.
          unfold entries_of. destruct (arg_get args p) as [[?|?|? ?|es|?]|]; try discriminate.
          simpl. rewrite fold_set_map. unfold set_all. fold (set_list (flat_map param_ws ps ++ map (fun kv => (fst kv, fmt_v (snd kv))) (sigma_d es)) (url_query url_)).
          rewrite set_list_app. reflexivity.
        - simpl. rewrite app_nil_r. reflexivity. }
      rewrite Hh.
      destruct (flat_map (q_of hp) ps) as [|e qs] eqn:EQ.
      * destruct (last_of_kind is_map ps) as [p|] eqn:Em; [|destruct Hsrc as [X|X]; exfalso; apply X; reflexivity].
        cbv beta iota in Emain. rewrite Emain.
        destruct (wr_app (WOk (flat_map param_ws ps)) (entries_of p)); reflexivity.
      * cbv beta iota in Emain. rewrite Emain.
        destruct (wr_app (WOk (flat_map param_ws ps))
                         (match last_of_kind is_map ps with Some p => entries_of p | None => WOk [] end)); reflexivity.
    + destruct (has_source_false Es) as [E1 E2]. rewrite E1, E2.
      destruct (last_of_kind is_ctx ps) as [c|].
      * destruct (arg_get args c) as [[?|?|? ?|?|[cv|]]|]; try reflexivity. rewrite Hh. reflexivity.
      * rewrite Hh. reflexivity.
Qed.
End Main.

(* =============================================================== headers *)
Definition hdr_writes (sigma : oracle) (I : iface) : list (string * string) :=
  flat_map (fun it => match it with IEmbed (Some doc) => sigma (parse_headers doc) | _ => [] end) I.

Lemma iface_headers_writes : forall sigma I verb,
  iface_headers sigma I verb = set_list (hdr_writes sigma I) (default_headers verb).
Proof.
  intros sigma I verb. unfold iface_headers. generalize (default_headers verb) as b.
  induction I as [|it I IH]; intros b; [reflexivity|]. simpl. rewrite IH. unfold hdr_writes. simpl.
  rewrite set_list_app. destruct it as [[doc|]|m]; reflexivity.
Qed.

Lemma iface_directive_writes : forall I, iface_directive I = set_list (hdr_writes (fun l => l) I) [].
Proof.
  intros I. unfold iface_directive. generalize (@nil (string * string)) as b.
  induction I as [|it I IH]; intros b; [reflexivity|]. simpl. rewrite IH. unfold hdr_writes. simpl.
  rewrite set_list_app. destruct it as [[doc|]|m]; reflexivity.
Qed.

Lemma parse_kv_nodup : forall s, NoDup (map fst (parse_kv s)).
Proof.
  intros s. unfold parse_kv. generalize (find_all re_kv s) as l.
  assert (G : forall l b, NoDup (map fst b) ->
            NoDup (map fst (fold_left (fun m e => map_set m (group s e 1) (group s e 2)) l b))).
  { induction l as [|e l IH]; intros b Hb; [exact Hb|]. simpl. apply IH. apply map_set_nodup. exact Hb. }
  intros l. apply G. constructor.
Qed.

Lemma parse_headers_nodup : forall doc, NoDup (map fst (parse_headers doc)).
Proof. intros doc. unfold parse_headers. destruct (find re_headers doc); [apply parse_kv_nodup | constructor]. Qed.

Lemma parse_alias_nodup : forall doc, NoDup (map fst (parse_alias doc)).
Proof. intros doc. unfold parse_alias. destruct (find re_alias doc); [apply parse_kv_nodup | constructor]. Qed.

Lemma set_list_same_lookups : forall W b1 b2,
  (forall k, map_get b1 k = map_get b2 k) -> forall k, map_get (set_list W b1) k = map_get (set_list W b2) k.
Proof.
  induction W as [|[k0 v0] W IH]; intros b1 b2 H k; [apply H|].
  unfold set_list in *. simpl. apply IH. intros k'.
  destruct (string_dec k0 k') as [E|N].
  - subst. rewrite !map_get_set_same. reflexivity.
  - rewrite !map_get_set_other by exact N. apply H.
Qed.

(* the order in which the entries of one headers= directive are ranged over is irrelevant *)
Lemma hdr_lookups_oracle : forall (sigma : oracle) I b k,
  is_oracle sigma ->
  map_get (set_list (hdr_writes sigma I) b) k = map_get (set_list (hdr_writes (fun l => l) I) b) k.
Proof.
  intros sigma I b k Hs. revert b. induction I as [|it I IH]; intros b; [reflexivity|].
  unfold hdr_writes in *. simpl. rewrite !set_list_app. rewrite IH.
  apply set_list_same_lookups. intros k'.
  destruct it as [[doc|]|m]; try reflexivity.
  apply set_list_perm_get; [apply Hs | apply parse_headers_nodup].
Qed.

Lemma set_list_over_base : forall W base k,
  map_get (set_list W base) k = match map_get (set_list W []) k with Some v => Some v | None => map_get base k end.
Proof.
  intros W base k.
  assert (G : forall W b b0,
            (forall k, map_get b k = match map_get b0 k with Some v => Some v | None => map_get base k end) ->
            forall k, map_get (set_list W b) k = match map_get (set_list W b0) k with Some v => Some v | None => map_get base k end).
  { induction W0 as [|[k0 v0] W0 IH]; intros b b0 H k1; [apply H|].
    unfold set_list in *. simpl. apply IH. intros k'.
    destruct (string_dec k0 k') as [E|N].
    - subst. rewrite !map_get_set_same. reflexivity.
    - rewrite !map_get_set_other by exact N. apply H. }
  apply G. intros k'. reflexivity.
Qed.

Lemma default_headers_nodup : forall verb, NoDup (map fst (default_headers verb)).
Proof.
  intros verb. unfold default_headers.
  destruct (String.eqb verb "GET"); [repeat constructor; simpl; tauto|].
  destruct (String.eqb verb "POST" || String.eqb verb "PUT" || String.eqb verb "PATCH"); [|constructor].
  repeat constructor; simpl; try tauto. intros [H|[]]. discriminate.
Qed.

(* what the generated method Adds = the verb's defaults overridden by the interface directive, in key order *)
Lemma headers_ok : forall (sigma : oracle) I verb,
  is_oracle sigma -> sort_kv (iface_headers sigma I verb) = spec_headers verb (iface_directive I).
Proof.
  intros sigma I verb Hs. unfold spec_headers.
  fold (set_list (iface_directive I) (default_headers verb)).
  rewrite iface_headers_writes. apply sort_kv_perm_eq.
  - apply same_lookups_perm.
    + apply set_list_nodup. apply default_headers_nodup.
    + apply set_list_nodup. apply default_headers_nodup.
    + intros k. rewrite hdr_lookups_oracle by exact Hs.
      rewrite set_list_over_base. rewrite (set_list_over_base (iface_directive I)).
      rewrite <- iface_directive_writes.
      assert (E : map_get (set_list (iface_directive I) []) k = map_get (iface_directive I) k).
      { destruct (map_get (iface_directive I) k) as [v|] eqn:E1.
        - apply set_list_in; [rewrite iface_directive_writes; apply set_list_nodup; constructor | apply map_get_some_in; exact E1].
        - apply map_get_none_iff in E1. rewrite set_list_notin by exact E1. reflexivity. }
      rewrite E. reflexivity.
  - apply set_list_nodup. apply default_headers_nodup.
Qed.

Lemma headers_lookup : forall I verb k,
  map_get (iface_headers (fun l => l) I verb) k =
  match map_get (iface_directive I) k with Some v => Some v | None => map_get (default_headers verb) k end.
Proof.
  intros I verb k. rewrite iface_headers_writes, set_list_over_base, <- iface_directive_writes. reflexivity.
Qed.

(* =============================================================== top level *)
(* the hypotheses that tie a structured method description to what the generator reads *)
Definition linked (E : env) (m : method_decl) (ms : mspec) : Prop :=
  env_ok E = true /\
  exists doc,
    md_doc m = Some doc /\
    parse_path doc = PathOk (s_verb ms) (render_toks (s_toks ms)) (holes (s_toks ms)) /\
    parse_alias doc = s_alias ms /\
    typed_params E (s_verb ms) m = map (fun pk => (fst pk, Some (snd pk))) (s_params ms).

Lemma assoc2_in : forall (V : Type) (l : list ((string * string) * V)) a b v,
  assoc2 l a b = Some v -> In ((a, b), v) l.
Proof.
  induction l as [|[[a' b'] v'] l IH]; intros a b v H; simpl in H; [discriminate|].
  destruct (String.eqb a' a && String.eqb b' b) eqn:E.
  - apply andb_true_iff in E. destruct E as [E1 E2]. apply String.eqb_eq in E1. apply String.eqb_eq in E2.
    inversion H; subst. left. reflexivity.
  - right. apply IH. exact H.
Qed.

Lemma env_ok_basic : forall E, env_ok E = true -> basic_not_struct E.
Proof.
  intros E H pkg s Hs. apply assoc2_in in Hs. unfold env_ok in H.
  pose proof (forallb_In _ _ _ _ H Hs) as X. simpl in X.
  destruct (assoc2 (e_structs E) pkg s); [discriminate | reflexivity].
Qed.

Lemma cook_method_ok : forall (sigma : oracle) E m ms,
  is_oracle sigma -> linked E m ms -> wf_mspec ms = true ->
  cook_method sigma E m = COk (dfin ms).
Proof.
  intros sigma E m ms Hs [HE [doc (Hd & Hp & Ha & Ht)]] Hwf.
  destruct (wf_unpack (fun _ _ => None) (fun _ => []) ms Hwf) as (_ & _ & Hps & _ & Hat & _ & Hh & _ & _ & Hc & Hcm & Hbody & _).
  unfold cook_method. rewrite Hd, Hp, Ha.
  rewrite real_path_params_resolve by assumption.
  rewrite fold_params_flat.
  rewrite (cook_fold E (flat_params (md_params m)) (s_params ms)).
  - fold (d0 ms). fold (dfin ms). cbn [cbind].
    destruct (dfin_fields ms) as (Hv & _ & Hpp & _ & _ & _ & Hb & _).
    assert (Eptr : check_ptr_path (dfin ms) = COk (dfin ms)).
    { unfold check_ptr_path. rewrite Hpp.
      destruct (existsb (fun p => is_true_key (d_is_ptr (dfin ms)) p) (map (resolve (s_alias ms)) (holes (s_toks ms)))) eqn:Ex; [|reflexivity].
      exfalso. apply existsb_exists in Ex. destruct Ex as [p [Hin Hp']].
      apply in_map_iff in Hin. destruct Hin as [h [Eh Hin]]. subst p.
      pose proof (kind_of_param_in _ _ _ (Hh h Hin)) as Hpin.
      rewrite (isptr_param (fun _ _ => None) (fun _ => []) ms Hwf _ _ Hpin) in Hp'. discriminate. }
    rewrite Eptr. cbn [cbind]. unfold check_body. rewrite Hv, Hb.
    destruct (body_verb (s_verb ms)) eqn:Eb; [|reflexivity].
    destruct (count_pos_last is_struct (s_params ms)) as [x Hx]; [rewrite (Hbody eq_refl); lia|]. rewrite Hx. reflexivity.
  - rewrite <- typed_params_flat. exact Ht.
  - apply env_ok_basic. exact HE.
  - intros n k Hin. destruct (Hps n k Hin) as ((_ & Hbn) & _). exact Hbn.
  - simpl. unfold body_count. simpl. lia.
  - simpl. unfold dict_count. simpl. lia.
Qed.

(* what the generator guarantees about an accepted method: a body verb has its body parameter *)
Lemma cook_ok_has_body : forall sigma E m d,
  cook_method sigma E m = COk d -> body_verb (d_verb d) = true -> d_body d <> None.
Proof.
  intros sigma E m d H Hb. unfold cook_method in H.
  destruct (md_doc m) as [doc|]; [|discriminate].
  destruct (parse_path doc); try discriminate.
  destruct (fold_left (handle_param E) (md_params m) _) as [d'| |w]; try discriminate.
  cbn [cbind] in H. unfold check_ptr_path in H.
  destruct (existsb _ (d_path_params d')); [discriminate|]. cbn [cbind] in H. unfold check_body in H.
  destruct (body_verb (d_verb d')) eqn:E1.
  - destruct (d_body d') eqn:E2; [|discriminate]. inversion H; subst. congruence.
  - inversion H; subst. congruence.
Qed.

Lemma request_is_declared :
  forall fmt_v join_path json_marshal url_query sigma_d (sigma sigma_h : oracle) E I m ms base args,
  is_oracle sigma -> is_oracle sigma_h ->
  linked E m ms -> wf_mspec ms = true -> args_in_guard fmt_v ms args = true ->
  exists d, cook_method sigma E m = COk d /\
    exec fmt_v join_path json_marshal url_query sigma_d (iface_headers sigma_h I (d_verb d)) d base args
    = spec_request fmt_v join_path json_marshal url_query sigma_d ms (iface_directive I) base args.
Proof.
  intros fmt_v join_path json_marshal url_query sigma_d sigma sigma_h E I m ms base args Hs Hh Hl Hwf Hg.
  exists (dfin ms). split; [apply cook_method_ok; assumption|].
  apply exec_is_spec; [exact Hwf | exact Hg|].
  destruct (dfin_fields ms) as (Hv & _). rewrite Hv. apply headers_ok. exact Hh.
Qed.


(* ============================================== reading the declarative request *)
(* url.Values.Set on pairwise distinct keys (and an empty start) keeps every write, in order *)
Lemma set_all_distinct : forall ws, NoDup (map fst ws) -> set_all [] ws = ws.
Proof. intros ws H. change (set_all [] ws) with (set_list ws []). rewrite set_list_fresh; [reflexivity | exact H]. Qed.

(* in general the last write to a key wins, and nothing else is in the query *)
Lemma set_all_last_wins : forall q0 ws1 k v ws2,
  ~ In k (map fst ws2) -> map_get (set_all q0 (ws1 ++ (k, v) :: ws2)) k = Some v.
Proof.
  intros q0 ws1 k v ws2 H. change (set_all q0 (ws1 ++ (k, v) :: ws2)) with (set_list (ws1 ++ (k, v) :: ws2) q0).
  rewrite set_list_app. change ((k, v) :: ws2) with ([(k, v)] ++ ws2). rewrite set_list_app.
  rewrite set_list_notin by exact H. unfold set_list. simpl. apply map_get_set_same.
Qed.

Lemma set_all_untouched : forall q0 ws k, ~ In k (map fst ws) -> map_get (set_all q0 ws) k = map_get q0 k.
Proof. intros. change (set_all q0 ws) with (set_list ws q0). apply set_list_notin. assumption. Qed.

Lemma set_all_keys : forall q0 ws k,
  In k (map fst (set_all q0 ws)) <-> In k (map fst q0) \/ In k (map fst ws).
Proof. intros. change (set_all q0 ws) with (set_list ws q0). apply set_list_keys. Qed.

(* the order in which the map argument is ranged over does not change the query *)
Lemma map_order_irrelevant : forall fmt_v (s1 s2 : list (string * sval) -> list (string * sval)) ms args ws1,
  is_oracle s1 -> is_oracle s2 ->
  (forall p es, arg_get args p = Some (AMap es) -> NoDup (map fst es)) ->
  spec_writes fmt_v s1 ms args = WOk ws1 ->
  exists ws2, spec_writes fmt_v s2 ms args = WOk ws2 /\
              forall q0 k, map_get (set_all q0 ws1) k = map_get (set_all q0 ws2) k.
Proof.
  intros fmt_v s1 s2 ms args ws1 H1 H2 Hnd Hw. unfold spec_writes in *.
  rewrite map_entries_last in *.
  destruct (fold_left wr_app (map (param_writes fmt_v ms args) (s_params ms)) (WOk [])) as [A| |]; try discriminate.
  destruct (last_of_kind is_map (s_params ms)) as [p|].
  - unfold entries_of in *. destruct (arg_get args p) as [[?|?|? ?|es|?]|] eqn:Ea; try discriminate.
    simpl in Hw. inversion Hw; subst ws1. eexists. split; [reflexivity|].
    intros q0 k. change (set_all q0 ?w) with (set_list w q0). rewrite !set_list_app.
    apply set_list_perm_get.
    + apply Permutation_map. eapply Permutation_trans; [apply H1 | apply Permutation_sym; apply H2].
    + rewrite map_map. simpl. eapply Permutation_NoDup; [apply Permutation_sym; apply Permutation_map; apply H2|].
      eapply Hnd. exact Ea.
  - simpl in *. exists ws1. split; [exact Hw | reflexivity].
Qed.

(* cook.go:103-118: with distinct alias targets the map iteration order is irrelevant *)
Lemma alias_oracle_independent : forall (s1 s2 : oracle) E m,
  is_oracle s1 -> is_oracle s2 ->
  (forall doc, md_doc m = Some doc -> NoDup (map snd (parse_alias doc))) ->
  cook_method s1 E m = cook_method s2 E m.
Proof.
  intros s1 s2 E m H1 H2 Hnd. unfold cook_method.
  destruct (md_doc m) as [doc|]; [|reflexivity].
  destruct (parse_path doc); try reflexivity.
  rewrite !real_path_params_resolve by (try assumption; apply Hnd; reflexivity). reflexivity.
Qed.

Lemma spec_headers_sorted : forall verb hd,
  Sorted key_le (spec_headers verb hd) /\
  Permutation (spec_headers verb hd) (set_list hd (default_headers verb)).
Proof. intros. unfold spec_headers. split; [apply sort_kv_sorted | apply sort_kv_perm]. Qed.

(* inversion of the declarative request: what a sent request looks like *)
Lemma spec_sent_inv :
  forall fmt_v join_path json_marshal url_query sigma_d ms hd base args r,
  spec_request fmt_v join_path json_marshal url_query sigma_d ms hd base args = OSent r ->
  rq_verb r = s_verb ms /\
  spec_path fmt_v ms args = Some (rq_path r) /\
  join_path base (rq_path r) = Some (rq_url r) /\
  rq_headers r = spec_headers (s_verb ms) hd /\
  (* context *)
  (match last_of_kind is_ctx (s_params ms) with
   | None => rq_ctx r = None
   | Some p => exists c, arg_get args p = Some (ACtx (Some c)) /\ rq_ctx r = Some c
   end) /\
  (* body verbs: the struct argument is the body, the query is left alone *)
  (body_verb (s_verb ms) = true ->
     rq_query r = None /\
     exists p a, last_of_kind is_struct (s_params ms) = Some p /\ arg_get args p = Some a /\
                 json_marshal a = rq_body r /\ rq_body r <> None) /\
  (* GET / DELETE: no body, the query holds the writes of the parameters *)
  (body_verb (s_verb ms) = false ->
     rq_body r = None /\
     if has_query_source ms
     then exists ws, spec_writes fmt_v sigma_d ms args = WOk ws /\ rq_query r = Some (set_all (url_query (rq_url r)) ws)
     else rq_query r = None).
Proof.
  intros fmt_v join_path json_marshal url_query sigma_d ms hd base args r H.
  unfold spec_request in H.
  destruct (spec_path fmt_v ms args) as [p|] eqn:Ep; [|discriminate].
  destruct (join_path base p) as [u|] eqn:Eu; [|discriminate].
  destruct (body_verb (s_verb ms)) eqn:Eb.
  - destruct (last_of_kind is_struct (s_params ms)) as [sp|] eqn:Es; [|discriminate].
    destruct (arg_get args sp) as [a|] eqn:Ea; [|discriminate].
    destruct (json_marshal a) as [j|] eqn:Ej; [|discriminate].
    destruct (last_of_kind is_ctx (s_params ms)) as [c|] eqn:Ec.
    + destruct (arg_get args c) as [[?|?|? ?|?|[cv|]]|] eqn:Eac; try discriminate.
      inversion H; subst r; simpl. repeat split; try reflexivity; try assumption; try discriminate.
      * exists cv. auto.
      * exists sp, a. repeat split; try assumption. discriminate.
    + inversion H; subst r; simpl. repeat split; try reflexivity; try assumption; try discriminate.
      exists sp, a. repeat split; try assumption. discriminate.
  - assert (G : forall ctx (Hc : match last_of_kind is_ctx (s_params ms) with
                                 | None => ctx = None
                                 | Some p0 => exists c, arg_get args p0 = Some (ACtx (Some c)) /\ ctx = Some c end),
              (if has_query_source ms
               then match spec_writes fmt_v sigma_d ms args with
                    | WOk ws => OSent {| rq_verb := s_verb ms; rq_path := p; rq_url := u;
                                         rq_query := Some (set_all (url_query u) ws);
                                         rq_headers := spec_headers (s_verb ms) hd; rq_body := None; rq_ctx := ctx |}
                    | WPanic => OPanic | WBad => OIllTyped end
               else OSent {| rq_verb := s_verb ms; rq_path := p; rq_url := u; rq_query := None;
                             rq_headers := spec_headers (s_verb ms) hd; rq_body := None; rq_ctx := ctx |}) = OSent r ->
              rq_verb r = s_verb ms /\ Some p = Some (rq_path r) /\ join_path base (rq_path r) = Some (rq_url r) /\
              rq_headers r = spec_headers (s_verb ms) hd /\
              match last_of_kind is_ctx (s_params ms) with
              | None => rq_ctx r = None
              | Some p0 => exists c, arg_get args p0 = Some (ACtx (Some c)) /\ rq_ctx r = Some c end /\
              (false = true -> rq_query r = None /\ exists p0 a, last_of_kind is_struct (s_params ms) = Some p0 /\
                    arg_get args p0 = Some a /\ json_marshal a = rq_body r /\ rq_body r <> None) /\
              (false = false -> rq_body r = None /\
                 if has_query_source ms
                 then exists ws, spec_writes fmt_v sigma_d ms args = WOk ws /\ rq_query r = Some (set_all (url_query (rq_url r)) ws)
                 else rq_query r = None)).
    { intros ctx Hc H'. destruct (has_query_source ms).
      - destruct (spec_writes fmt_v sigma_d ms args) as [ws| |] eqn:Ew; try discriminate.
        inversion H'; subst r; simpl. repeat split; try assumption; try discriminate.
        exists ws. auto.
      - inversion H'; subst r; simpl. repeat split; try assumption; try discriminate. }
    destruct (last_of_kind is_ctx (s_params ms)) as [c|] eqn:Ec.
    + destruct (arg_get args c) as [[?|?|? ?|?|[cv|]]|] eqn:Eac; try discriminate.
      apply (G (Some cv)); [exists cv; auto | exact H].
    + apply (G None); [reflexivity | exact H].
Qed.

(* ====================================================== the interface level *)
(* cookClient handles every method on its own (the context parameter, the body parameter, the
   query dictionary of one method never leak into another one): the method list is the list of
   the per-method results, in order; methods without usable directive are dropped *)
Definition cooked_list (sigma : oracle) (E : env) (I : iface) : list (string * mdata) :=
  flat_map (fun it => match it with
                      | IMethod m => match cook_method sigma E m with COk d => [(md_name m, d)] | _ => [] end
                      | IEmbed _ => []
                      end) I.
Definition no_fatal (sigma : oracle) (E : env) (I : iface) : Prop :=
  forall m, In (IMethod m) I -> forall w, cook_method sigma E m <> CFatal w.

Lemma cook_methods_list : forall sigma E I,
  no_fatal sigma E I -> cook_methods sigma E I = COk (cooked_list sigma E I).
Proof.
  intros sigma E. induction I as [|it I IH]; intros Hnf; [reflexivity|].
  assert (Hnf' : no_fatal sigma E I) by (intros m Hin; apply Hnf; right; exact Hin).
  destruct it as [doc|m]; simpl.
  - apply IH. exact Hnf'.
  - unfold cooked_list. simpl. fold (cooked_list sigma E I).
    destruct (cook_method sigma E m) as [d| |w] eqn:Ec.
    + rewrite (IH Hnf'). reflexivity.
    + apply IH. exact Hnf'.
    + exfalso. apply (Hnf m (or_introl eq_refl) w). exact Ec.
Qed.

Lemma cook_methods_all : forall (sigma : oracle) E I,
  is_oracle sigma ->
  (forall m, In (IMethod m) I -> exists ms, linked E m ms /\ wf_mspec ms = true) ->
  exists l, cook_methods sigma E I = COk l /\
            map fst l = flat_map (fun it => match it with IMethod m => [md_name m] | IEmbed _ => [] end) I /\
            forall m, In (IMethod m) I -> exists d, cook_method sigma E m = COk d /\ In (md_name m, d) l.
Proof.
  intros sigma E I Hs Hall. exists (cooked_list sigma E I).
  assert (Hok : forall m, In (IMethod m) I -> exists d, cook_method sigma E m = COk d).
  { intros m Hin. destruct (Hall m Hin) as [ms [Hl Hw]]. exists (dfin ms). apply cook_method_ok; assumption. }
  split; [|split].
  - apply cook_methods_list. intros m Hin w E1. destruct (Hok m Hin) as [d Hd]. congruence.
  - clear Hall. induction I as [|it I IH]; [reflexivity|].
    unfold cooked_list. simpl. fold (cooked_list sigma E I). rewrite map_app.
    rewrite IH by (intros m Hin; apply Hok; right; exact Hin).
    destruct it as [doc|m]; [reflexivity|].
    destruct (Hok m (or_introl eq_refl)) as [d Hd]. rewrite Hd. reflexivity.
  - intros m Hin. destruct (Hok m Hin) as [d Hd]. exists d. split; [exact Hd|].
    unfold cooked_list. apply in_flat_map. exists (IMethod m). split; [exact Hin|]. rewrite Hd. left. reflexivity.
Qed.
