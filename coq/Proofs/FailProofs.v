(* Proofs about Model/Fail.v (C18). *)
From Coq Require Import List String Ascii Bool Arith Lia.
From Shoot Require Import Base.Str Model.Transfer Model.Fail.
Import ListNotations.
Local Open Scope string_scope.

(* ------------------------------------------------------------ invariants *)

(* a property of the way a computation may stop *)
Definition inv {A} (Q : stop -> Prop) (r : res A) : Prop :=
  match r with Ok _ => True | Stop s => Q s end.

Lemma inv_bind {A B} (Q : stop -> Prop) (m : res A) (k : A -> res B) :
  inv Q m -> (forall a, m = Ok a -> inv Q (k a)) -> inv Q (bind m k).
Proof. destruct m as [a|s]; cbn; intros Hm Hk; auto. Qed.

Lemma inv_each {A} (Q : stop -> Prop) (f : A -> res unit) (l : list A) :
  (forall x, In x l -> inv Q (f x)) -> inv Q (each f l).
Proof.
  induction l as [|x r IH]; cbn; intros H; auto.
  apply inv_bind; [apply H; now left|]. intros _ _. apply IH. intros y Hy. apply H. now right.
Qed.

Lemma inv_ok {A} (Q : stop -> Prop) (a : A) : inv Q (Ok a).
Proof. exact I. Qed.

Lemma inv_guard (Q : stop -> Prop) b d : Q (Exit d) -> inv Q (guard b d).
Proof. destruct b; cbn; auto. Qed.

Lemma inv_weaken {A} (Q Q' : stop -> Prop) (r : res A) :
  (forall s, Q s -> Q' s) -> inv Q r -> inv Q' r.
Proof. destruct r; cbn; auto. Qed.

(* the process ends by itself with this exit status *)
Definition exits_with (n : nat) (s : stop) : Prop :=
  match s with Exit d => exit_code d = n | _ => False end.

(* a deliberate exit has status 1; crashes are not excluded here *)
Definition fatal_or_crash (s : stop) : Prop :=
  match s with Exit d => exit_code d = 1 | Panic _ | Diverge _ => True end.

(* no Go panic, no unbounded recursion *)
Definition no_crash (s : stop) : Prop :=
  match s with Exit _ => True | Panic _ | Diverge _ => False end.

Definition is_exit (s : stop) : Prop := match s with Exit _ => True | _ => False end.

Lemma exit_code_le_2 d : exit_code d <= 2.
Proof. destruct d; cbn; lia. Qed.

(* --------------------------------- generic pass over the read-only phases *)

Section Generic.
Variable Q : stop -> Prop.
Hypothesis HQ1 : forall d, exit_code d = 1 -> Q (Exit d).

(* a tactic that walks through the literal control flow of an analysis *)
Ltac inv_step :=
  match goal with
  | |- inv _ (Ok _) => exact I
  | |- inv _ (fatal _) => apply HQ1; reflexivity
  | |- inv _ (Stop (Exit _)) => apply HQ1; reflexivity
  | |- inv _ (guard _ _) => apply inv_guard; apply HQ1; reflexivity
  | |- inv _ (bind (nth_or_panic _ 0 (_ :: _)) _) => cbn [bind nth_or_panic nth_error]
  | |- inv _ (bind (deref _ (Some _)) _) => cbn [bind deref]
  | |- inv _ (nth_or_panic _ 0 (_ :: _)) => exact I
  | |- inv _ (deref _ (Some _)) => exact I
  | |- inv _ (bind _ _) => apply inv_bind; [|intros ? ?]
  | |- inv _ (if ?b then _ else _) => destruct b eqn:?
  | |- inv _ (match ?x with _ => _ end) => destruct x eqn:?
  | |- inv _ (let '(_, _) := ?x in _) => destruct x eqn:?
  end.
Ltac inv_auto := repeat inv_step.

Lemma nth_or_panic_ok {A} s n (l : list A) : n < List.length l -> exists x, nth_or_panic s n l = Ok x.
Proof.
  intros H. unfold nth_or_panic. destruct (nth_error l n) eqn:E; [eauto|].
  apply nth_error_None in E. lia.
Qed.

(* the guarded dereferences and index expressions never fail *)
Lemma first_name_g p : inv Q (first_name p).
Proof. unfold first_name. destruct (pa_names p); exact I. Qed.

Lemma walk_body_g b : inv Q (walk_body b).
Proof. destruct b; exact I. Qed.

Lemma test_file_m_g fl f : inv Q (test_file_m fl f).
Proof.
  unfold test_file_m, file_pos. destruct (fl_file fl =? ""); [exact I|].
  destruct (f_pkg f =? ""); exact I.
Qed.

Lemma rest_item_m_g it : inv Q (rest_item_m it).
Proof. destruct it as [[]|]; exact I. Qed.

Lemma rest_items_m_g : forall l, inv Q (rest_items_m l).
Proof.
  induction l as [|it r IH]; cbn [rest_items_m]; [exact I|].
  apply inv_bind; [apply rest_item_m_g|intros b _]. destruct b; [exact I|apply IH].
Qed.

Lemma rest_test_m_g T t : inv Q (rest_test_m T t).
Proof.
  unfold rest_test_m. destruct (negb _); [exact I|]. destruct (ts_body t); try exact I. apply rest_items_m_g.
Qed.

Lemma new_top_field_g fl fuel fo tops f :
  (forall t, inv Q (expand LNewEmbed fuel fo tops t)) -> inv Q (new_top_field fl fuel fo tops f).
Proof.
  intros He. unfold new_top_field. destruct (is_embedded f); [apply He|].
  apply inv_each. intros n _. inv_auto.
Qed.

Lemma new_walk_g fl fuel fo tops T :
  (forall t, inv Q (expand LNewEmbed fuel fo tops t)) ->
  forall l found, inv Q (new_walk fl fuel fo tops T l found).
Proof.
  intros He. induction l as [|[t b] r IH]; intros found; cbn [new_walk]; [exact I|].
  destruct (negb (T =? "") && negb (ts_name t =? T)); [apply IH|].
  destruct (ts_body t); try (destruct (T =? ""); [apply IH|apply HQ1; reflexivity]).
  destruct (String.prefix "_" (ts_name t)); [apply IH|].
  apply inv_bind; [|intros; apply IH].
  apply inv_each. intros f _. now apply new_top_field_g.
Qed.

Lemma new_make_g fo fl ld T :
  (forall t, inv Q (expand LNewEmbed (expand_fuel fo (top_tspecs (ld_files ld))) fo (top_tspecs (ld_files ld)) t)) ->
  inv Q (new_make fo fl ld T).
Proof. intros He. unfold new_make. cbv zeta. apply inv_bind; [now apply new_walk_g|intros]. inv_auto. Qed.

Lemma enum_vspecs_g tops T : forall l typ n, inv Q (enum_vspecs tops T typ l n).
Proof.
  induction l as [|v r IH]; intros typ n; cbn [enum_vspecs]; [exact I|].
  cbv zeta. repeat (first [apply IH | inv_step]).
Qed.

Lemma enum_gdecls_g tops T : forall l n, inv Q (enum_gdecls tops T l n).
Proof.
  induction l as [|g r IH]; intros n; cbn [enum_gdecls]; [exact I|].
  destruct g as [s|s].
  - destruct (existsb _ s); [apply HQ1; reflexivity|apply IH].
  - apply inv_bind; [apply enum_vspecs_g|intros; apply IH].
Qed.

Lemma enum_make_g fl ld T : inv Q (enum_make fl ld T).
Proof. unfold enum_make. cbv zeta. apply inv_bind; [apply enum_gdecls_g|intros]. inv_auto. Qed.

Lemma rest_param_g baddir fs f m : forall t st, inv Q (rest_param baddir fs f m t st).
Proof.
  induction t; intros [body qmap]; cbn [rest_param]; try (apply HQ1; reflexivity); try exact I; try apply IHt; inv_auto.
Qed.

Lemma rest_names_g baddir fs f m t : forall names st, inv Q (rest_names baddir fs f m t names st).
Proof.
  induction names as [|x r IH]; intros st; cbn [rest_names]; [exact I|].
  apply inv_bind; [inv_auto|intros].
  apply inv_bind; [apply rest_param_g|intros; apply IH].
Qed.

Lemma rest_params_g baddir fs f m : forall ps st, inv Q (rest_params baddir fs f m ps st).
Proof.
  induction ps as [|p r IH]; intros st; cbn [rest_params]; [exact I|].
  apply inv_bind; [inv_auto|intros].
  apply inv_bind; [apply rest_names_g|intros; apply IH].
Qed.

Lemma rest_method_g baddir fs f doc ps rs : inv Q (rest_method baddir fs f doc ps rs).
Proof.
  unfold rest_method. destruct doc; try exact I. cbv zeta.
  set (vals := flat_map _ rs).
  apply inv_bind; [inv_auto|intros].
  apply inv_bind; [apply rest_params_g|intros].
  apply inv_bind; [inv_auto|intros].
  apply inv_bind; [inv_auto|intros].
  apply inv_bind; [inv_auto|intros u2 Hfew].
  apply inv_bind; [inv_auto|intros u3 Hmany].
  (* from here on 2 <= n <= 3: the three index expressions are in range *)
  assert (Hn : 2 <= List.length vals).
  { destruct (Nat.leb 2 (List.length vals)) eqn:E; [now apply Nat.leb_le in E|discriminate]. }
  destruct (nth_or_panic_ok PRestResultIndex (List.length vals - 2) vals ltac:(lia)) as (v2 & ->).
  cbn [bind]. apply inv_bind; [inv_auto|intros].
  destruct (nth_or_panic_ok PRestResultIndex (List.length vals - 1) vals ltac:(lia)) as (v1 & ->).
  cbn [bind]. apply inv_bind; [inv_auto|intros].
  destruct (Nat.eqb (List.length vals) 3); [|exact I].
  destruct (nth_or_panic_ok PRestResultIndex 0 vals ltac:(lia)) as (v0 & ->).
  cbn [bind]. inv_auto.
Qed.

Lemma rest_iface_g baddir fs f items : inv Q (rest_iface baddir fs f items).
Proof.
  unfold rest_iface. apply inv_each. intros it _. destruct it; [exact I|apply rest_method_g].
Qed.

Lemma rest_walk_g baddir fs T f : forall l found, inv Q (rest_walk baddir fs T f l found).
Proof.
  induction l as [|[t b] r IH]; intros found; cbn [rest_walk]; [exact I|].
  apply inv_bind; [apply rest_test_m_g|intros hit _].
  destruct hit; [|apply IH].
  destruct (ts_body t); try apply IH.
  apply inv_bind; [apply rest_iface_g|intros; apply IH].
Qed.

Lemma rest_files_g baddir all T : forall fs found, inv Q (rest_files baddir all T fs found).
Proof.
  induction fs as [|f r IH]; intros found; cbn [rest_files]; [exact I|].
  apply inv_bind; [apply rest_walk_g|intros; apply IH].
Qed.

Lemma rest_make_g baddir ld T : inv Q (rest_make baddir ld T).
Proof. unfold rest_make. apply inv_bind; [apply rest_files_g|intros]. inv_auto. Qed.

Lemma map_walk_g fuel fo tops T :
  (forall t, inv Q (expand LMapEmbed fuel fo tops t)) ->
  forall l found, inv Q (map_walk fuel fo tops T l found).
Proof.
  intros He. induction l as [|[t b] r IH]; intros found; cbn [map_walk]; [exact I|].
  destruct (map_test T t); [|apply IH].
  destruct (ts_body t); try apply IH.
  apply inv_bind; [|intros; apply IH].
  apply inv_each. intros f _. destruct (is_embedded f); [apply He|exact I].
Qed.

Lemma map_ctors_g files T : inv Q (map_ctors files T).
Proof.
  unfold map_ctors. apply inv_each. intros [g f] _.
  destruct (fn_recv f); [exact I|].
  destruct (negb (fn_name f =? "New" ++ T)); [exact I|].
  destruct (fn_results f) as [rs|]; [|exact I].
  destruct rs as [|r [|r2 rs]]; cbn [List.length Nat.eqb negb]; try exact I.
  cbn [bind nth_or_panic nth_error].
  destruct (pa_type r); try exact I. destruct t; try exact I.
  destruct (negb (n =? T)); [exact I|].
  destruct (fn_params f) as [|p ps]; [exact I|].
  apply inv_bind; [apply walk_body_g|intros].
  apply inv_each. intros q _. apply inv_bind; [apply first_name_g|intros; exact I].
Qed.

Lemma map_accessors_g files T : inv Q (map_accessors files T).
Proof.
  unfold map_accessors. cbv zeta. destruct (unexported_fields files T); [exact I|].
  apply inv_each. intros [g f] _.
  destruct (fn_recv f) as [[|r rl]|]; try exact I.
  destruct (negb (mem (fn_name f) _)); [exact I|].
  cbn [bind nth_or_panic nth_error].
  destruct (match pa_type r with TStar x => x | x => x end); try exact I.
  destruct (negb (n =? T)); [exact I|].
  destruct (String.prefix "Set" (fn_name f)).
  - destruct (negb (no_results f)); [exact I|].
    destruct (fn_params f) as [|p [|p2 ps]]; cbn [List.length Nat.eqb negb]; try exact I.
  - destruct (fn_params f); [|exact I].
    destruct (fn_results f) as [[|x [|x2 xs]]|]; cbn [List.length Nat.eqb negb]; exact I.
Qed.

Lemma manual_step_g key T D f fd st : inv Q (manual_step key T D f fd st).
Proof.
  unfold manual_step. destruct st as [w r]. cbv zeta.
  destruct (fn_recv fd) as [[|recv rl]|]; try exact I.
  match goal with |- inv _ (if ?b then _ else _) => destruct b end; [exact I|].
  cbn [bind nth_or_panic nth_error].
  destruct (pa_type recv); cbv iota beta; try exact I;
    try (match goal with |- inv _ (if ?b then _ else _) => destruct b; [apply HQ1; reflexivity|exact I] end).
  match goal with |- inv _ (if ?b then _ else _) => destruct b end; [exact I|].
  destruct (fn_params fd) as [|p [|p2 ps]]; cbn [List.length Nat.eqb negb]; try exact I.
  match goal with |- inv _ (if ?b then _ else _) => destruct b end; [exact I|].
  cbn [bind nth_or_panic nth_error].
  match goal with |- inv _ (if ?b then _ else _) => destruct b end.
  - match goal with |- inv _ (if ?b then _ else _) => destruct b end; [apply HQ1; reflexivity|].
    destruct w; [apply HQ1; reflexivity|].
    apply inv_bind; [apply first_name_g|intros]. apply inv_bind; [apply walk_body_g|intros; exact I].
  - match goal with |- inv _ (if ?b then _ else _) => destruct b end; [apply HQ1; reflexivity|].
    destruct r; [apply HQ1; reflexivity|].
    apply inv_bind; [apply first_name_g|intros]. apply inv_bind; [apply walk_body_g|intros; exact I].
Qed.

Lemma map_manual_g key T D : forall l st, inv Q (map_manual key T D l st).
Proof.
  induction l as [|[f fd] rest IH]; intros st; cbn [map_manual]; [exact I|].
  apply inv_bind; [apply manual_step_g|intros; apply IH].
Qed.

(* what map_make needs to know about the only functions that can crash: the two expansions *)
Definition map_parts_ok (fo : foreign) (ld : loaded) : Prop :=
  (forall t, inv Q (expand LMapEmbed (expand_fuel fo (top_tspecs (ld_files ld))) fo (top_tspecs (ld_files ld)) t)) /\
  (forall t, inv Q (expand LMapEmbed (expand_fuel fo (top_tspecs (ld_dest ld))) fo (top_tspecs (ld_dest ld)) t)).

Lemma map_make_g fo fl ld T : map_parts_ok fo ld -> inv Q (map_make fo fl ld T).
Proof.
  intros (He1 & He2).
  unfold map_make, map_parse_fields. cbv zeta.
  apply inv_bind; [now apply map_walk_g|intros].
  apply inv_bind; [inv_auto|intros].
  apply inv_bind; [now apply map_walk_g|intros].
  match goal with |- inv _ (if ?b then _ else _) => destruct b end; [inv_auto|].
  repeat (apply inv_bind;
          [ first [ apply map_manual_g
                  | match goal with |- inv _ (if ?b then _ else _) => destruct b end;
                    first [apply map_ctors_g | apply map_accessors_g | exact I] ]
          | intros ]).
  exact I.
Qed.

Definition parts_ok (fo : foreign) (ld : loaded) : Prop :=
  (forall t, inv Q (expand LNewEmbed (expand_fuel fo (top_tspecs (ld_files ld))) fo (top_tspecs (ld_files ld)) t)) /\
  map_parts_ok fo ld.

Lemma make_data_g i fl ld T : parts_ok (i_foreign i) ld -> inv Q (make_data i fl ld T).
Proof.
  intros (Hn & Hm). unfold make_data. destruct (fl_sub fl);
    [now apply new_make_g|apply enum_make_g|apply rest_make_g|now apply map_make_g].
Qed.

Lemma gen_loop_g i fl ld fmap : parts_ok (i_foreign i) ld ->
  forall types sep merged, inv Q (gen_loop i fl ld fmap types sep merged).
Proof.
  intros Hp. induction types as [|T r IH]; intros sep merged; cbn [gen_loop]; [exact I|].
  apply inv_bind; [now apply make_data_g|intros made _].
  repeat (first [apply IH | inv_step]).
Qed.

Lemma confirm_types_g fl ld : inv Q (confirm_types fl ld).
Proof.
  unfold confirm_types. destruct (fl_specified fl).
  - apply inv_bind; [|intros; exact I].
    apply inv_each. intros T _. inv_auto.
  - apply inv_bind; [|intros; exact I].
    apply inv_each. intros f _. apply inv_bind; [apply test_file_m_g|intros ok _].
    destruct ok; [|exact I]. destruct (fl_sub fl); try exact I.
    apply inv_each. intros x _. apply inv_bind; [apply rest_test_m_g|intros; exact I].
Qed.

Lemma generate_g i fl ld : parts_ok (i_foreign i) ld -> inv Q (generate i fl ld).
Proof.
  intros Hp. unfold generate. apply inv_bind; [apply confirm_types_g|intros [types fmap] _].
  apply inv_bind; [now apply gen_loop_g|intros [sep merged] _].
  apply inv_bind; [inv_auto|intros; exact I].
Qed.

Lemma load_package_g i fl : inv Q (load_package i fl).
Proof.
  unfold load_package. cbv zeta.
  apply inv_bind; [inv_auto|intros].
  repeat (apply inv_bind; [inv_auto|intros]). exact I.
Qed.

End Generic.

(* ------------------------- pass 1: after the flags every deliberate exit is 1 *)

Lemma fatal_or_crash_1 : forall d, exit_code d = 1 -> fatal_or_crash (Exit d).
Proof. intros d H. exact H. Qed.

Lemma expand_q site fo : forall fuel tops t, inv fatal_or_crash (expand site fuel fo tops t).
Proof.
  induction fuel as [|k IH]; intros tops t; cbn [expand]; destruct (embedded_struct fo tops t) as [[fs tops']|]; cbn; auto.
  apply inv_each. intros f _. destruct (is_embedded f); [apply IH|exact I].
Qed.

Lemma parts_ok_q fo ld : parts_ok fatal_or_crash fo ld.
Proof. repeat split; intros; apply expand_q. Qed.

(* ------------------------------ pass 2: no crash on well-formed packages *)

Lemma no_crash_1 : forall d, exit_code d = 1 -> no_crash (Exit d).
Proof. intros; exact I. Qed.

Lemma assoc_in {A} k (l : list (string * A)) v : assoc k l = Some v -> In (k, v) l.
Proof.
  induction l as [|[k' v'] r IH]; cbn; [discriminate|].
  destruct (k' =? k) eqn:E; [|intros; right; auto].
  intros H. injection H as <-. apply String.eqb_eq in E. subst. now left.
Qed.

(* the scopes an expansion started in tops0 can be in: tops0 itself and the imported packages *)
Definition scope_ok (fo : foreign) (tops0 tops : list tspec) : Prop :=
  tops = tops0 \/ exists q, In (q, tops) fo.

(* t' (written in scope tops') is an embedded field of the struct that t (written in scope tops)
   expands to, and expands itself *)
Definition child (fo : foreign) (tops : list tspec) (t : texpr) (tops' : list tspec) (t' : texpr) : Prop :=
  exists fs f, embedded_struct fo tops t = Some (fs, tops') /\ In f fs /\ is_embedded f = true /\
               t' = fd_type f /\ embedded_struct fo tops' t' <> None.

(* the embedding relation reachable from the package tops0 (through the imported packages fo) is
   well founded, witnessed by a rank that is small enough at the root *)
Definition embedding_wf (fo : foreign) (tops0 : list tspec) : Prop :=
  exists rank : list tspec -> texpr -> nat,
    (forall tops t tops' t', scope_ok fo tops0 tops -> child fo tops t tops' t' -> rank tops' t' < rank tops t) /\
    (forall t, rank tops0 t < expand_fuel fo tops0).

Lemma struct_in_inv scope ptr n fs sc : struct_in scope ptr n = Some (fs, sc) ->
  sc = scope /\ exists p, pos n scope = Some p /\ under_struct (S (List.length scope)) scope n = Some fs.
Proof.
  unfold struct_in. destruct (find_tspec n scope) as [s|] eqn:Hf; [|discriminate].
  destruct (negb ptr && ts_alias s); [discriminate|].
  destruct (under_struct (S (List.length scope)) scope n) as [fs'|] eqn:Hu; [|discriminate].
  intros H. injection H as <- <-. split; [reflexivity|].
  clear Hu. revert s Hf. induction scope as [|x r IH]; cbn; intros s Hf; [discriminate|].
  destruct (ts_name x =? n); [eauto|]. destruct (IH s Hf) as (p & Hp & _). exists (S p). rewrite Hp. auto.
Qed.

Lemma tsel_tname t x : tsel t = Some x -> tname t = None.
Proof. unfold tsel, tname. destruct (local_name (core t)); [discriminate|reflexivity]. Qed.

Lemma embedded_struct_inv fo tops t fs sc : embedded_struct fo tops t = Some (fs, sc) ->
  (exists n p, tname t = Some n /\ sc = tops /\ pos n tops = Some p /\
               under_struct (S (List.length tops)) tops n = Some fs) \/
  (exists q n ft p, tsel t = Some (q, n) /\ assoc q fo = Some ft /\ sc = ft /\ pos n ft = Some p /\
                    under_struct (S (List.length ft)) ft n = Some fs).
Proof.
  unfold embedded_struct, tsel, tname. destruct (local_name (core t)) as [n|].
  - intros H. apply struct_in_inv in H as (-> & p & Hp & Hu). left. exists n, p. auto.
  - destruct (sel_name (core t)) as [[q n]|]; [|discriminate].
    destruct (assoc q fo) as [ft|] eqn:Ha; [|discriminate].
    intros H. apply struct_in_inv in H as (-> & p & Hp & Hu). right. exists q, n, ft, p. auto.
Qed.

Lemma embedded_scope fo tops0 tops t fs tops' :
  scope_ok fo tops0 tops -> embedded_struct fo tops t = Some (fs, tops') -> scope_ok fo tops0 tops'.
Proof.
  intros Hs He. destruct (embedded_struct_inv _ _ _ _ _ He) as [(n & p & _ & -> & _)|(q & n & ft & p & _ & Ha & -> & _)].
  - exact Hs.
  - right. exists q. now apply assoc_in.
Qed.

Lemma expand_rank site fo tops0 rank :
  (forall tops t tops' t', scope_ok fo tops0 tops -> child fo tops t tops' t' -> rank tops' t' < rank tops t) ->
  forall fuel tops t, scope_ok fo tops0 tops -> rank tops t < fuel -> inv no_crash (expand site fuel fo tops t).
Proof.
  intros Hr. induction fuel as [|k IH]; intros tops t Hs Hlt; [lia|].
  cbn [expand]. destruct (embedded_struct fo tops t) as [[fs tops']|] eqn:He; [|exact I].
  apply inv_each. intros f Hin. destruct (is_embedded f) eqn:Hemb; [|exact I].
  destruct (embedded_struct fo tops' (fd_type f)) as [[fs' tops'']|] eqn:He'.
  - apply IH; [eapply embedded_scope; eauto|].
    assert (rank tops' (fd_type f) < rank tops t); [|lia].
    apply Hr; [exact Hs|]. exists fs, f. repeat split; auto. congruence.
  - destruct k; cbn [expand]; rewrite He'; exact I.
Qed.

Lemma expand_wf site fo tops t :
  embedding_wf fo tops -> inv no_crash (expand site (expand_fuel fo tops) fo tops t).
Proof.
  intros (rank & Hr & Hb). apply (expand_rank site fo tops rank Hr); [now left|apply Hb].
Qed.

(* ------------------------- a decidable sufficient condition for embedding_wf *)

Lemma find_pos n : forall l s, find_tspec n l = Some s -> exists p, pos n l = Some p /\ nth_error l p = Some s.
Proof.
  induction l as [|x r IH]; cbn; intros s H; [discriminate|].
  destruct (ts_name x =? n).
  - injection H as <-. exists 0. auto.
  - destruct (IH s H) as (p & Hp & Hn). exists (S p). rewrite Hp. auto.
Qed.

Lemma pos_lt n : forall l p, pos n l = Some p -> p < List.length l.
Proof.
  induction l as [|x r IH]; cbn; intros p H; [discriminate|].
  destruct (ts_name x =? n); [injection H as <-; lia|].
  destruct (pos n r) as [q|]; [|discriminate]. injection H as <-. specialize (IH q eq_refl). lia.
Qed.

Lemma specs_ok_nth tops : forall l p k s,
  specs_ok tops p l = true -> nth_error l k = Some s -> spec_ok tops (p + k) s = true.
Proof.
  induction l as [|x r IH]; intros p k s H Hn; [destruct k; discriminate|].
  cbn in H. apply andb_prop in H as [H1 H2]. destruct k; cbn in Hn.
  - injection Hn as <-. now rewrite Nat.add_0_r.
  - replace (p + S k) with (S p + k) by lia. now apply (IH (S p)).
Qed.

(* under_struct n = Some fs: fs is the body of a spec declared at or before n *)
Lemma under_struct_pos tops : ordered tops = true ->
  forall fuel n fs p, under_struct fuel tops n = Some fs -> pos n tops = Some p ->
  exists q s, q <= p /\ nth_error tops q = Some s /\ ts_body s = BStruct fs.
Proof.
  intros Ho. induction fuel as [|k IH]; intros n fs p Hu Hp; [discriminate|].
  cbn [under_struct] in Hu. destruct (find_tspec n tops) as [s|] eqn:Hf; [|discriminate].
  destruct (find_pos n tops s Hf) as (p' & Hp' & Hn). rewrite Hp in Hp'. injection Hp' as <-.
  pose proof (specs_ok_nth tops tops 0 p s Ho Hn) as Hs. cbn in Hs.
  destruct (ts_body s) as [fs0| |t] eqn:Hb; try discriminate.
  - injection Hu as <-. exists p, s. auto.
  - destruct t; try discriminate.
    unfold spec_ok in Hs. rewrite Hb in Hs. unfold ref_ok in Hs.
    destruct (pos n0 tops) as [q'|] eqn:Hq.
    + apply Nat.ltb_lt in Hs. destruct (IH n0 fs q' Hu Hq) as (q & s' & Hle & Hn' & Hb').
      exists q, s'. repeat split; auto. lia.
    + exfalso. destruct k; [discriminate|]. cbn [under_struct] in Hu.
      destruct (find_tspec n0 tops) as [s0|] eqn:Hf0; [|discriminate].
      destruct (find_pos _ _ _ Hf0) as (x & Hx & _). congruence.
Qed.

Lemma assoc_size q : forall (fo : foreign) ft, assoc q fo = Some ft -> List.length ft <= foreign_size fo.
Proof.
  unfold foreign_size. induction fo as [|[k v] r IH]; cbn; intros ft H; [discriminate|].
  destruct (k =? q); [injection H as <-; lia|]. specialize (IH ft H). lia.
Qed.

Lemma sel_free_field sc k s fs f :
  sel_free sc = true -> nth_error sc k = Some s -> ts_body s = BStruct fs -> In f fs -> is_embedded f = true ->
  tsel (fd_type f) = None.
Proof.
  intros Hsf Hn Hb Hin Hemb. unfold sel_free in Hsf. rewrite forallb_forall in Hsf.
  specialize (Hsf s (nth_error_In _ _ Hn)). rewrite Hb in Hsf. rewrite forallb_forall in Hsf.
  specialize (Hsf f Hin). rewrite Hemb in Hsf. cbn in Hsf. destruct (tsel (fd_type f)); [discriminate|reflexivity].
Qed.

Definition pos0 (n : string) (tops : list tspec) : nat := match pos n tops with Some p => p | None => 0 end.

Lemma pos0_le n tops : pos0 n tops <= List.length tops.
Proof. unfold pos0. destruct (pos n tops) eqn:H; [apply pos_lt in H|]; lia. Qed.

(* the rank of "declared before use": position inside the scope; a scope that embeds imported
   types lies above all imported scopes *)
Definition ord_rank (fo : foreign) (tops : list tspec) (t : texpr) : nat :=
  match tname t with
  | Some n => (if sel_free tops then 0 else S (foreign_size fo)) + 1 + pos0 n tops
  | None => match tsel t with
            | Some (q, n) => match assoc q fo with Some ft => 1 + pos0 n ft | None => 0 end
            | None => 0
            end
  end.

Lemma ordered_wf fo tops0 : ordered tops0 = true -> foreign_ok fo = true -> embedding_wf fo tops0.
Proof.
  intros Ho Hfo.
  assert (Hfo' : forall q ft, In (q, ft) fo -> ordered ft = true /\ sel_free ft = true).
  { intros q ft Hin. unfold foreign_ok in Hfo. rewrite forallb_forall in Hfo.
    specialize (Hfo (q, ft) Hin). cbn in Hfo. now apply andb_prop in Hfo. }
  exists (ord_rank fo). split.
  - intros tops t tops' t' Hs (fs & f & He & Hin & Hemb & -> & Hne).
    destruct (embedded_struct fo tops' (fd_type f)) as [[fs2 sc2]|] eqn:He2; [|congruence]. clear Hne.
    destruct (embedded_struct_inv _ _ _ _ _ He) as [(n & p & Htn & -> & Hp & Hu)|(q & n & ft & p & Hts & Ha & -> & Hp & Hu)].
    + (* t names a type of its own scope *)
      assert (Hord : ordered tops = true).
      { destruct Hs as [->|[q Hq]]; [exact Ho|apply (Hfo' q tops Hq)]. }
      destruct (under_struct_pos tops Hord _ _ _ _ Hu Hp) as (q' & s & Hle & Hn & Hb).
      pose proof (specs_ok_nth tops tops 0 q' s Hord Hn) as Hsp. cbn in Hsp.
      unfold spec_ok in Hsp. rewrite Hb in Hsp. rewrite forallb_forall in Hsp. specialize (Hsp f Hin). rewrite Hemb in Hsp.
      destruct (embedded_struct_inv _ _ _ _ _ He2) as [(n' & p' & Htn' & _ & Hp' & _)|(q2 & n2 & ft2 & p2 & Hts2 & Ha2 & _ & Hp2 & _)].
      * rewrite Htn' in Hsp. unfold ref_ok in Hsp. rewrite Hp' in Hsp. apply Nat.ltb_lt in Hsp.
        unfold ord_rank, pos0. rewrite Htn, Htn', Hp, Hp'. lia.
      * assert (Hsf : sel_free tops = false).
        { destruct (sel_free tops) eqn:E; [|reflexivity].
          rewrite (sel_free_field tops q' s fs f E Hn Hb Hin Hemb) in Hts2. discriminate. }
        pose proof (pos_lt _ _ _ Hp2) as Hlt. pose proof (assoc_size _ _ _ Ha2) as Hsz.
        unfold ord_rank, pos0. rewrite Htn, (tsel_tname _ _ Hts2), Hts2, Ha2, Hp, Hp2, Hsf. lia.
    + (* t names an imported type: the fields are written in the imported scope ft *)
      pose proof (assoc_in _ _ _ Ha) as Hin_fo. destruct (Hfo' q ft Hin_fo) as [Hord Hsf].
      destruct (under_struct_pos ft Hord _ _ _ _ Hu Hp) as (q' & s & Hle & Hn & Hb).
      pose proof (specs_ok_nth ft ft 0 q' s Hord Hn) as Hsp. cbn in Hsp.
      unfold spec_ok in Hsp. rewrite Hb in Hsp. rewrite forallb_forall in Hsp. specialize (Hsp f Hin). rewrite Hemb in Hsp.
      destruct (embedded_struct_inv _ _ _ _ _ He2) as [(n' & p' & Htn' & _ & Hp' & _)|(q2 & n2 & ft2 & p2 & Hts2 & _)].
      * rewrite Htn' in Hsp. unfold ref_ok in Hsp. rewrite Hp' in Hsp. apply Nat.ltb_lt in Hsp.
        unfold ord_rank, pos0. rewrite (tsel_tname _ _ Hts), Hts, Ha, Htn', Hp, Hp', Hsf. lia.
      * rewrite (sel_free_field ft q' s fs f Hsf Hn Hb Hin Hemb) in Hts2. discriminate.
  - intros t. unfold ord_rank, expand_fuel.
    destruct (tname t) as [n|].
    + pose proof (pos0_le n tops0). destruct (sel_free tops0); lia.
    + destruct (tsel t) as [[q n]|]; [|lia]. destruct (assoc q fo) as [ft|] eqn:Ha; [|lia].
      pose proof (pos0_le n ft). pose proof (assoc_size _ _ _ Ha). lia.
Qed.

(* the guard of the classification theorem, on what LoadPackage returned *)
Definition loaded_wf (fo : foreign) (ld : loaded) : Prop :=
  embedding_wf fo (top_tspecs (ld_files ld)) /\ embedding_wf fo (top_tspecs (ld_dest ld)).

Lemma parts_ok_nc fo ld : loaded_wf fo ld -> parts_ok no_crash fo ld.
Proof. intros (W1 & W2). repeat split; intros; now apply expand_wf. Qed.

(* ------------------------------------------------ the writing phases *)

Definition all_ok (io : nat -> bool) : Prop := forall k, io k = true.

(* an invariant of the directory: every entry satisfies P, and every regular file does *)
Section Entries.
Variable P : string * entry -> bool.
Hypothesis P_file : forall n l, P (n, EFile l) = true.

Lemma all_set n l d : forallb P d = true -> forallb P (dir_set n (EFile l) d) = true.
Proof.
  induction d as [|[k v] r IH]; cbn; intros H; [now rewrite P_file|].
  apply andb_prop in H as [Hv Hr]. destruct (k =? n); cbn; [now rewrite P_file|]. rewrite Hv. cbn. now apply IH.
Qed.

Lemma all_del n d : forallb P d = true -> forallb P (dir_del n d) = true.
Proof.
  induction d as [|[k v] r IH]; cbn; intros H; [reflexivity|].
  apply andb_prop in H as [Hv Hr]. destruct (k =? n); cbn; [exact Hr|]. rewrite Hv. cbn. now apply IH.
Qed.

Lemma all_assoc n d e : forallb P d = true -> assoc n d = Some e -> P (n, e) = true.
Proof.
  induction d as [|[k v] r IH]; cbn; intros H Ha; [discriminate|].
  apply andb_prop in H as [Hv Hr]. destruct (k =? n) eqn:E; [|now apply IH].
  injection Ha as <-. apply String.eqb_eq in E. now subst.
Qed.
End Entries.

Lemma entry_ok_file outs fl ld n l : entry_ok outs fl ld (n, EFile l) = true.
Proof. unfold entry_ok. cbn. now rewrite andb_false_r, !orb_true_r. Qed.

Lemma mem_in x l : mem x l = true <-> In x l.
Proof.
  unfold mem. rewrite existsb_exists. split.
  - intros (y & Hy & E). apply String.eqb_eq in E. now subst.
  - intros H. exists x. split; [exact H|apply String.eqb_refl].
Qed.

Lemma notedown_ok outs io fl ld out w :
  all_ok io -> mem out outs = true -> forallb (entry_ok outs fl ld) (w_dir w) = true ->
  exists w', notedown io fl out w = (Ok tt, w') /\ forallb (entry_ok outs fl ld) (w_dir w') = true.
Proof.
  intros Hio Hout Hf. unfold notedown. rewrite !Hio. cbn [negb w_dir emit orb].
  pose proof (entry_ok_file outs fl ld) as PF.
  match goal with |- context [assoc out ?d] =>
    assert (Hd2 : forallb (entry_ok outs fl ld) d = true) by (now repeat apply all_set);
    destruct (assoc out d) as [e|] eqn:Ha
  end.
  - pose proof (all_assoc _ _ _ _ Hd2 Ha) as He. unfold entry_ok in He. cbn [fst snd] in He.
    rewrite Hout in He. destruct e; try (cbn in He; discriminate);
      (eexists; split; [reflexivity|]; cbn; apply all_set; [exact PF|]; now apply all_del).
  - eexists; split; [reflexivity|]. cbn. apply all_set; [exact PF|]. now apply all_del.
Qed.

Lemma write_all_ok outs io fl ld : forall outs' w,
  all_ok io -> (forall o, In o outs' -> mem o outs = true) -> forallb (entry_ok outs fl ld) (w_dir w) = true ->
  exists w', write_all io fl outs' w = (Ok tt, w') /\ forallb (entry_ok outs fl ld) (w_dir w') = true.
Proof.
  induction outs' as [|o r IH]; intros w Hio Hin Hf; cbn [write_all]; [eauto|].
  destruct (notedown_ok outs io fl ld o w Hio (Hin o (or_introl eq_refl)) Hf) as (w1 & E & Hf1). rewrite E.
  apply IH; auto. intros o' Ho'. apply Hin. now right.
Qed.

Lemma clean_loop_ok outs io fl ld genfile : forall names w,
  all_ok io -> fl_sep fl = false -> (ld_allinone ld =? "") = false ->
  (forall n, In n names -> glob_match (fl_sub fl) n = true) ->
  forallb (entry_ok outs fl ld) (w_dir w) = true ->
  exists w', clean_loop io fl genfile names w = (Ok tt, w').
Proof.
  induction names as [|n r IH]; intros w Hio Hsep Haio Hg Hf; cbn [clean_loop]; [eauto|].
  assert (Hg' : forall n0, In n0 r -> glob_match (fl_sub fl) n0 = true) by (intros; apply Hg; now right).
  destruct (n =? genfile); [now apply IH|].
  destruct (assoc n (w_dir w)) as [e|] eqn:Ha; [|now apply IH].
  pose proof (all_assoc _ _ _ _ Hf Ha) as He. unfold entry_ok in He. cbn [fst snd] in He.
  rewrite Hsep, Haio, (Hg n (or_introl eq_refl)) in He. cbn in He.
  apply andb_prop in He as [_ He]. destruct e; try discriminate.
  destruct (is_aio_line line1); [now apply IH|].
  destruct (negb (is_gen_line (fl_sub fl) line1)); [now apply IH|].
  rewrite Hio. cbn [negb]. apply IH; auto. cbn. now apply all_del.
Qed.

Lemma insert_sorted_in x y l : In y (insert_sorted x l) -> y = x \/ In y l.
Proof.
  induction l as [|z r IH]; cbn; [intuition|].
  destruct (String.leb x z); cbn; intuition.
Qed.

Lemma sort_names_in y l : In y (sort_names l) -> In y l.
Proof.
  unfold sort_names. induction l as [|x r IH]; cbn; [auto|].
  intros H. apply insert_sorted_in in H as [->|H]; auto.
Qed.

Lemma dedup_in y l : In y (dedup l) -> In y l.
Proof.
  induction l as [|x r IH]; cbn; [auto|]. destruct (mem x r); cbn; intuition.
Qed.

Lemma clean_ok outs io fl ld srcs w :
  all_ok io -> forallb (entry_ok outs fl ld) (w_dir w) = true -> exists w', clean io fl ld srcs w = (Ok tt, w').
Proof.
  intros Hio Hf. unfold clean. destruct (fl_sep fl) eqn:Hsep; [eauto|].
  destruct (ld_allinone ld =? "") eqn:Haio; [eauto|].
  apply (clean_loop_ok outs io fl ld); auto.
  intros n Hn. apply sort_names_in, dedup_in, filter_In in Hn. apply Hn.
Qed.

(* every stop of the writing phases is a logx.Fatal *)
Lemma notedown_stop io fl out w s w' : notedown io fl out w = (Stop s, w') -> exits_with 1 s.
Proof.
  unfold notedown. repeat match goal with |- context [if ?b then _ else _] => destruct b end;
    intros E; inversion E; reflexivity.
Qed.

Lemma write_all_stop io fl : forall outs w s w', write_all io fl outs w = (Stop s, w') -> exits_with 1 s.
Proof.
  induction outs as [|o r IH]; intros w s w'; cbn [write_all]; [discriminate|].
  destruct (notedown io fl o w) as [[u|s0] w1] eqn:E.
  - apply IH.
  - intros E'. inversion E'; subst. eapply notedown_stop; eauto.
Qed.

Lemma clean_loop_stop io fl genfile : forall names w s w',
  clean_loop io fl genfile names w = (Stop s, w') -> exits_with 1 s.
Proof.
  induction names as [|n r IH]; intros w s w'; cbn [clean_loop]; [discriminate|].
  repeat match goal with
         | |- context [if ?b then _ else _] => destruct b
         | |- context [match assoc ?n ?d with _ => _ end] => destruct (assoc n d) as [[| |]|]
         end; try apply IH; intros E; inversion E; reflexivity.
Qed.

Lemma clean_stop io fl ld srcs w s w' : clean io fl ld srcs w = (Stop s, w') -> exits_with 1 s.
Proof.
  unfold clean. destruct (fl_sep fl); [discriminate|]. destruct (ld_allinone ld =? ""); [discriminate|].
  apply clean_loop_stop.
Qed.

(* ----------------------------------------------------- the whole run *)

Lemma analyse_inv (Q : stop -> Prop) i :
  (forall d, exit_code d = 1 -> Q (Exit d)) ->
  inv Q (parse_flags i) ->
  (forall fl ld, parse_flags i = Ok fl -> load_package i fl = Ok ld -> parts_ok Q (i_foreign i) ld) ->
  inv Q (analyse i).
Proof.
  intros HQ Hp Hparts. unfold analyse.
  apply inv_bind; [exact Hp|intros fl Hfl].
  apply inv_bind; [now apply load_package_g|intros ld Hld].
  apply inv_bind; [apply generate_g; [exact HQ|exact (Hparts fl ld Hfl Hld)]|intros; exact I].
Qed.

(* T1: a stop in the phases before the first write leaves the world untouched *)
Lemma run_analyse_stop sigma io i s : analyse i = Stop s -> run sigma io i = (s, world0 i).
Proof. intros H. unfold run. rewrite H. reflexivity. Qed.

(* the stops of parse_flags are deliberate exits *)
Lemma parse_flags_exit i : inv is_exit (parse_flags i).
Proof.
  unfold parse_flags.
  repeat match goal with
         | |- inv _ (Ok _) => exact I
         | |- inv _ (Stop (Exit _)) => exact I
         | |- inv _ (fatal _) => exact I
         | |- inv _ (guard ?b _) => destruct b; exact I
         | |- inv _ (bind (nth_or_panic _ 0 (_ :: _)) _) => cbn [bind nth_or_panic nth_error]
  | |- inv _ (bind (deref _ (Some _)) _) => cbn [bind deref]
  | |- inv _ (nth_or_panic _ 0 (_ :: _)) => exact I
  | |- inv _ (deref _ (Some _)) => exact I
  | |- inv _ (bind _ _) => apply inv_bind; [|intros ? ?]
         | |- inv _ (if ?b then _ else _) => destruct b
         | |- inv _ (match ?x with _ => _ end) => destruct x
         end.
Qed.

(* T2: without I/O faults and with only regular files in the package directory,
   the run either ends with exit status 0 or stopped before the first write *)
(* sigma delivers names of the map it iterates over (every permutation does) *)
Definition selects (sigma : list string -> list string) : Prop := forall l x, In x (sigma l) -> In x l.

(* T2: without I/O faults and without an obstructing directory entry, the run either ends with
   exit status 0 or stopped before the first write *)
Lemma run_cases sigma io i :
  all_ok io -> selects sigma -> state_ok i = true ->
  (exists w, run sigma io i = (Exit DSuccess, w)) \/ (exists w, run sigma io i = (Exit DNothing, w)) \/
  (exists s, analyse i = Stop s /\ run sigma io i = (s, world0 i)).
Proof.
  intros Hio Hsel Hf. unfold run. unfold state_ok in Hf. destruct (analyse i) as [[[fl ld] outs]|s] eqn:Ha.
  - destruct (write_all_ok outs io fl ld (sigma outs) (world0 i) Hio) as (w1 & E & Hf1); [|exact Hf|].
    { intros o Ho. apply mem_in. now apply Hsel. }
    rewrite E. destruct outs as [|o r]; [right; left; eauto|].
    destruct (clean_ok (o :: r) io fl ld (map f_name (files_of i (fl_dir fl))) w1 Hio Hf1) as (w2 & E2).
    rewrite E2. left; eauto.
  - right; right. exists s. split; reflexivity.
Qed.

Lemma nonzero_exit_changes_nothing sigma io i s w :
  all_ok io -> selects sigma -> state_ok i = true ->
  run sigma io i = (s, w) ->
  (forall d, s = Exit d -> exit_code d <> 0) ->
  w = world0 i.
Proof.
  intros Hio Hsel Hf Hr Hnz.
  destruct (run_cases sigma io i Hio Hsel Hf) as [[w' E]|[[w' E]|(s' & _ & E)]]; rewrite E in Hr; inversion Hr; subst.
  - exfalso. apply (Hnz DSuccess); reflexivity.
  - exfalso. apply (Hnz DNothing); reflexivity.
  - reflexivity.
Qed.

(* a directory holding regular files only is never an obstacle *)
Lemma files_only_state_ok i : files_only (i_extra i) = true -> state_ok i = true.
Proof.
  intros H. unfold state_ok. destruct (analyse i) as [[[fl ld] outs]|]; [|reflexivity].
  unfold files_only in H. rewrite forallb_forall in *. intros [n e] Hin. specialize (H (n, e) Hin). cbn in H.
  destruct e; try discriminate. apply entry_ok_file.
Qed.

Lemma selects_id : selects id_order.
Proof. intros l x H. exact H. Qed.

(* the guard of the classification theorem on the input *)
Definition input_wf (i : input) : Prop :=
  embedding_wf (i_foreign i) (top_tspecs (i_files i)) /\
  embedding_wf (i_foreign i) [] /\           (* the imported packages on their own *)
  forall sp n fs, In (sp, DestPkg n fs) (i_dests i) -> embedding_wf (i_foreign i) (top_tspecs fs).

Lemma load_package_wf i fl ld : input_wf i -> load_package i fl = Ok ld -> loaded_wf (i_foreign i) ld.
Proof.
  intros (W & W0 & D). unfold load_package. cbv zeta.
  assert (Wf : embedding_wf (i_foreign i) (top_tspecs (files_of i (fl_dir fl)))).
  { unfold files_of. destruct (is_pkgdir i (fl_dir fl)); [auto|exact W0]. }
  destruct (match fl_sub fl with
            | CMap => _
            | _ => _
            end) as [d|s] eqn:Hd; cbn [bind]; [|discriminate].
  assert (Wd : embedding_wf (i_foreign i) (top_tspecs match d with Some (DestPkg _ fs) => fs | _ => [] end)).
  { destruct d as [[n fs|]|]; try exact W0.
    destruct (fl_sub fl); try discriminate.
    destruct (fl_dest fl =? ".").
    - injection Hd as <- <-. auto.
    - destruct (assoc (fl_dest fl) (i_dests i)) as [d'|] eqn:Ha; [|discriminate].
      injection Hd as ->. apply assoc_in in Ha. apply (D _ _ _ Ha). }
  repeat match goal with
         | |- bind (guard ?b ?d) _ = _ -> _ => destruct b; cbn [guard bind fatal]; [|discriminate]
         end.
  intros E. injection E as <-. split; assumption.
Qed.

(* T3: on well-formed inputs a run always ends in a deliberate exit *)
Lemma run_is_exit sigma io i : input_wf i -> is_exit (fst (run sigma io i)).
Proof.
  intros Hwf.
  assert (Ha : inv (fun s => is_exit s) (analyse i)).
  { assert (H : inv no_crash (analyse i)).
    { apply analyse_inv; [intros; exact I| |].
      - eapply inv_weaken; [|apply parse_flags_exit]. intros [] H; cbn in *; auto.
      - intros fl ld _ Hld. apply parts_ok_nc. eapply load_package_wf; eauto. }
    eapply inv_weaken; [|exact H]. intros [] Hs; cbn in *; auto. }
  unfold run. destruct (analyse i) as [[[fl ld] outs]|s]; [|exact Ha].
  destruct (write_all io fl (sigma outs) (world0 i)) as [[u|s] w1] eqn:Ew.
  - destruct outs; [exact I|].
    destruct (clean io fl ld _ w1) as [[u2|s2] w2] eqn:Ec; [exact I|].
    apply clean_stop in Ec. destruct s2; cbn in *; auto.
  - apply write_all_stop in Ew. destruct s; cbn in *; auto.
Qed.

(* T4: exit status 2 comes from the command line only *)
Lemma exit2_from_flags sigma io i d w :
  run sigma io i = (Exit d, w) -> exit_code d = 2 -> parse_flags i = Stop (Exit d).
Proof.
  intros Hr H2. unfold run in Hr.
  destruct (parse_flags i) as [fl|s] eqn:Hp.
  - exfalso.
    assert (Ha : inv fatal_or_crash (analyse i)).
    { apply analyse_inv; [exact fatal_or_crash_1|rewrite Hp; exact I|intros; apply parts_ok_q]. }
    destruct (analyse i) as [[[fl' ld] outs]|s].
    + destruct (write_all io fl' (sigma outs) (world0 i)) as [[u|s] w1] eqn:Ew.
      * destruct outs; [inversion Hr; subst; discriminate|].
        destruct (clean io fl' ld _ w1) as [[u2|s2] w2] eqn:Ec; inversion Hr; subst; [discriminate|].
        apply clean_stop in Ec. cbn in Ec. lia.
      * inversion Hr; subst. apply write_all_stop in Ew. cbn in Ew. lia.
    + inversion Hr; subst. cbn in Ha. lia.
  - unfold analyse in Hr. rewrite Hp in Hr. cbn in Hr. inversion Hr; subst. reflexivity.
Qed.

(* --------------------------------- I/O faults: what a failed write leaves *)

Definition renames (l : list effect) : list string :=
  flat_map (fun e => match e with FRename o => [o] | _ => [] end) l.

Lemma renames_app a b : renames (a ++ b) = (renames a ++ renames b)%list.
Proof. unfold renames. apply flat_map_app. Qed.

Lemma notedown_renames io fl out w r w' :
  notedown io fl out w = (r, w') ->
  (r = Ok tt /\ renames (w_log w') = (renames (w_log w) ++ [out])%list) \/
  ((exists s, r = Stop s) /\ renames (w_log w') = renames (w_log w)).
Proof.
  unfold notedown.
  repeat match goal with |- context [if ?b then _ else _] => destruct b end;
    intros E; inversion E; subst; cbn [emit tick w_log];
    rewrite ?renames_app; cbn [renames flat_map app]; rewrite ?app_nil_r;
    first [left; split; reflexivity | right; split; [eexists; reflexivity|reflexivity]].
Qed.

(* T5: whatever fails during the write phase, the outputs replaced so far are a
   prefix of the outputs in the order in which Go's map iteration delivered them *)
Lemma write_all_prefix io fl : forall outs w r w',
  write_all io fl outs w = (r, w') ->
  exists k, renames (w_log w') = (renames (w_log w) ++ firstn k outs)%list /\
            (r = Ok tt -> k = List.length outs) /\ ((exists s, r = Stop s) -> k < List.length outs).
Proof.
  induction outs as [|o rest IH]; intros w r w'; cbn [write_all].
  - intros E; inversion E; subst. exists 0. rewrite app_nil_r. repeat split; auto. intros [s Hs]; discriminate.
  - destruct (notedown io fl o w) as [r1 w1] eqn:E1.
    destruct (notedown_renames _ _ _ _ _ _ E1) as [[-> Hr]|[[s ->] Hr]].
    + intros E. destruct (IH _ _ _ E) as (k & Hk & Hok & Hst).
      exists (S k). rewrite Hk, Hr, <- app_assoc. cbn. repeat split; auto. intros Hs. specialize (Hst Hs). lia.
    + intros E; inversion E; subst. exists 0. rewrite app_nil_r. repeat split; cbn; auto; [discriminate|lia].
Qed.

(* ------------------------------------------------------------- witnesses *)

Definition fld (n : string) (t : texpr) : field :=
  {| fd_names := [n]; fd_type := t; fd_get := false; fd_set := false; fd_newdash := false |}.
Definition emb (t : texpr) : field :=
  {| fd_names := []; fd_type := t; fd_get := false; fd_set := false; fd_newdash := false |}.
Definition strct (n : string) (fs : list field) : tspec :=
  {| ts_name := n; ts_alias := false; ts_body := BStruct fs |}.
Definition gofile (n : string) (ds : list decl) : file :=
  {| f_name := n; f_pkg := "p"; f_imports_dest := ["dest"]; f_decls := ds |}.
Definition mkinput (args : list string) (files : list file) (extra : list (string * entry))
           (dests : list (string * dest)) : input :=
  {| i_args := args; i_pkgdirs := ["."]; i_inmodule := true; i_files := files; i_extra := extra;
     i_dests := dests; i_render := []; i_merge_ok := true; i_foreign := [] |}.

Definition with_foreign (i : input) (fo : foreign) : input :=
  {| i_args := i_args i; i_pkgdirs := i_pkgdirs i; i_inmodule := i_inmodule i; i_files := i_files i;
     i_extra := i_extra i; i_dests := i_dests i; i_render := i_render i; i_merge_ok := i_merge_ok i; i_foreign := fo |}.

(* K_ctor_self_embed: type Node struct { *Node; v int } *)
Definition node_tops : list tspec := [strct "Node" [emb (TStar (TId "Node")); fld "v" (TId "int")]].
Definition w_self_embed : input :=
  mkinput ["new"; "-type=Node"] [gofile "a.go" [DType node_tops]] [] [].

Lemma self_embed_diverges :
  forall fuel, expand LNewEmbed fuel [] node_tops (TStar (TId "Node")) = Stop (Diverge LNewEmbed).
Proof.
  induction fuel as [|k IH]; [reflexivity|].
  cbn [expand]. change (embedded_struct [] node_tops (TStar (TId "Node")))
    with (Some ([emb (TStar (TId "Node")); fld "v" (TId "int")], node_tops)).
  cbn [each is_embedded emb fd_names fd_type]. rewrite IH. reflexivity.
Qed.

Lemma self_embed_run : fst (run id_order no_fault w_self_embed) = Diverge LNewEmbed.
Proof. vm_compute. reflexivity. Qed.

Lemma self_embed_not_wf : ~ embedding_wf [] node_tops.
Proof.
  intros (rank & Hr & _).
  assert (H : child [] node_tops (TStar (TId "Node")) node_tops (TStar (TId "Node"))).
  { exists [emb (TStar (TId "Node")); fld "v" (TId "int")], (emb (TStar (TId "Node"))).
    repeat split; [now left|discriminate]. }
  specialize (Hr _ _ _ _ (or_introl eq_refl) H). lia.
Qed.

(* the same class through a generic type and through an imported package:
   type Node[T any] struct { *Node[T]; v T }   and   type Holder struct { ext.Loop; id int }
   with, in package ext, type Loop struct { *Loop; V int } *)
Definition w_generic_self : input :=
  mkinput ["new"; "-type=Node"]
    [gofile "a.go" [DType [strct "Node" [emb (TStar (TGen "Node" (TId "T"))); fld "v" (TId "T")]]]] [] [].
Definition loop_scope : list tspec := [strct "Loop" [emb (TStar (TId "Loop")); fld "V" (TId "int")]].
Definition w_foreign_loop : input :=
  with_foreign (mkinput ["new"; "-type=Holder"]
                  [gofile "a.go" [DType [strct "Holder" [emb (TSel "ext" "Loop"); fld "id" (TId "int")]]]] [] [])
               [("ext", loop_scope)].
Lemma generic_and_foreign_self_embed_diverge :
  fst (run id_order no_fault w_generic_self) = Diverge LNewEmbed /\
  fst (run id_order no_fault w_foreign_loop) = Diverge LNewEmbed /\
  input_ok w_generic_self = false /\ input_ok w_foreign_loop = false.
Proof. vm_compute. auto. Qed.

(* K_map_unnamed_names: a write method toDest whose parameter of type pointer to dest.T has no name *)
Definition t_struct : tspec := strct "T" [fld "ID" (TId "int")].
Definition dest_pkg : dest := DestPkg "dest" [{| f_name := "d.go"; f_pkg := "dest"; f_imports_dest := []; f_decls := [DType [t_struct]] |}].
Definition manual (name : string) (recv params : list param) (body : option (list ldecl)) : decl :=
  DFunc {| fn_recv := Some recv; fn_name := name; fn_params := params; fn_results := None; fn_body := body |}.
Definition w_map_unnamed : input :=
  mkinput ["map"; "-path=../dest"; "-type=T"]
    [gofile "s.go" [DType [t_struct];
                    manual "toDest" [{| pa_names := ["t"]; pa_type := TStar (TId "T") |}]
                                    [{| pa_names := []; pa_type := TStar (TSel "dest" "T") |}] (Some [])]]
    [] [("../dest", dest_pkg)].
Definition w_map_nil_body : input :=
  mkinput ["map"; "-path=../dest"; "-type=T"]
    [gofile "s.go" [DType [t_struct];
                    manual "toDest" [{| pa_names := ["t"]; pa_type := TStar (TId "T") |}]
                                    [{| pa_names := ["d"]; pa_type := TStar (TSel "dest" "T") |}] None]]
    [] [("../dest", dest_pkg)].
(* K_map_accessor_arity: a shoot-new type with func (t *T) SetName() {} *)
Definition sn_struct : tspec := strct "T" [fld "ID" (TId "int"); fld "name" (TId "string")].
Definition w_map_setter : input :=
  mkinput ["map"; "-path=../dest"; "-type=T"]
    [gofile "s.go" [DType [sn_struct];
                    manual "ShootNew" [{| pa_names := ["t"]; pa_type := TId "T" |}] [] (Some []);
                    manual "SetName" [{| pa_names := ["t"]; pa_type := TStar (TId "T") |}] [] (Some [])]]
    [] [("../dest", dest_pkg)].
(* K_testfile_no_package_clause: an empty .go file in the directory and -file *)
Definition w_no_clause : input :=
  mkinput ["new"; "-file=a.go"]
    [gofile "a.go" [DType [strct "A" [fld "x" (TId "int")]]];
     {| f_name := "empty.go"; f_pkg := ""; f_imports_dest := []; f_decls := [] |}] [] [].
(* the four repaired defects: the former witnesses of K_map_unnamed_names, K_map_nil_body,
   K_map_accessor_arity and K_testfile_no_package_clause are handled and end in success *)
Lemma repaired_witnesses_succeed :
  fst (run id_order no_fault w_map_unnamed) = Exit DSuccess /\
  fst (run id_order no_fault w_map_nil_body) = Exit DSuccess /\
  fst (run id_order no_fault w_map_setter) = Exit DSuccess /\
  fst (run id_order no_fault w_no_clause) = Exit DSuccess.
Proof. vm_compute. auto. Qed.

(* K_clean_unreadable_after_write: a directory named like an output, all-in-one mode *)
Definition two_structs : list decl :=
  [DComment "//go:generate shoot new -type=*"; DType [strct "A" [fld "x" (TId "int")]]; DType [strct "B" [fld "y" (TId "int")]]].
Definition w_clean_dir : input :=
  mkinput ["new"; "-type=*"] [gofile "a.go" two_structs] [("zz.shootnew.d.go", EDir)] [].
Lemma clean_dir_exit1_after_write :
  run id_order no_fault w_clean_dir =
  (Exit DCleanError,
   {| w_dir := [("zz.shootnew.d.go", EDir);
                ("a.shootnew.go", EFile (String.append "// Code generated by " (String.append quote
                   (String.append "shoot new -type=*" (String.append quote "; DO NOT EDIT. (v0.7.0)")))))];
      w_log := [FCreateTemp "a.shootnew.go"; FWriteTemp "a.shootnew.go"; FRename "a.shootnew.go"];
      w_ops := 3 |}).
Proof. vm_compute. reflexivity. Qed.

(* K_rename_fail_after_write: a directory sits at the name of the second output *)
Definition w_rename_dir : input :=
  mkinput ["new"; "-type=A,B"] [gofile "a.go" two_structs] [("a.shootnew.b.go", EDir)] [].
Lemma rename_dir_exit1_after_write :
  fst (run id_order no_fault w_rename_dir) = Exit DRename /\
  w_log (snd (run id_order no_fault w_rename_dir)) =
    [FCreateTemp "a.shootnew.a.go"; FWriteTemp "a.shootnew.a.go"; FRename "a.shootnew.a.go";
     FCreateTemp "a.shootnew.b.go"; FWriteTemp "a.shootnew.b.go"] /\
  assoc ".a.shootnew.b.go_tmp" (w_dir (snd (run id_order no_fault w_rename_dir))) <> None.
Proof. vm_compute. repeat split; discriminate. Qed.

(* a well-formed input with embedding of depth 2: Top embeds *Mid, Mid embeds Base *)
Definition ex_tops : list tspec :=
  [strct "Base" [fld "id" (TId "int")];
   strct "Mid" [emb (TId "Base"); fld "x" (TId "int")];
   strct "Top" [emb (TStar (TId "Mid")); fld "y" (TId "string")]].
(* plus an instantiated generic type and two types of an imported package (one of them embedding
   another type of that package) *)
Definition ex_tops2 : list tspec :=
  (ex_tops ++ [strct "Box" [fld "v" (TId "T")];
               strct "Wide" [emb (TGen "Box" (TId "int")); emb (TStar (TSel "ext" "Deep")); emb (TSel "ext" "Fine"); emb (TId "Top")]])%list.
Definition ex_foreign : foreign :=
  [("ext", [strct "Fine" [fld "W" (TId "int")]; strct "Deep" [emb (TId "Fine"); fld "z" (TId "int")]])].
Definition ex_input (args : list string) : input :=
  with_foreign (mkinput args [gofile "a.go" [DType ex_tops2]] [] []) ex_foreign.

Lemma ex_runs :
  fst (run id_order no_fault (ex_input ["new"; "-type=Top,Mid"; "-getset"])) = Exit DSuccess /\
  fst (run id_order no_fault (ex_input ["new"; "-type=Top,Nope"])) = Exit DNewNotExists /\
  fst (run id_order no_fault (ex_input ["new"; "-type=Top"; "-tagcase=weird"])) = Exit DFlagError.
Proof. vm_compute. auto. Qed.

(* the decidable guard implies the guard of the classification theorem *)
Lemma input_ok_wf i : input_ok i = true -> input_wf i.
Proof.
  unfold input_ok. intros H. apply andb_prop in H as [H H0]. apply andb_prop in H as [H H1].
  split; [now apply ordered_wf|]. split; [now apply ordered_wf|].
  intros sp n fs Hin. rewrite forallb_forall in H0. specialize (H0 (sp, DestPkg n fs) Hin). cbn in H0.
  now apply ordered_wf.
Qed.

Lemma run_is_exit_ok sigma io i : input_ok i = true -> is_exit (fst (run sigma io i)).
Proof. intros H. apply run_is_exit. now apply input_ok_wf. Qed.

Lemma ex_input_ok args : input_ok (ex_input args) = true.
Proof. reflexivity. Qed.

Lemma ex_input_wf args : input_wf (ex_input args).
Proof. apply input_ok_wf. apply ex_input_ok. Qed.
