(* Proofs about Model/Fail.v (C18). *)
From Coq Require Import List String Ascii Bool Arith Lia.
From Shoot Require Import Base.Str Model.Transfer Model.Fail.
Import ListNotations.
Local Open Scope string_scope.

(* ------------------------------------------------------------ invariants *)

(* a property of the way a computation may stop *)
Definition inv {A} (Q : stop -> Prop) (r : res A) : Prop :=
  match r with Ok _ => True | Stop s => Q s end.

Lemma inv_bind {A B} (Q : stop -> Prop) (m : res A) (k : A -> res B) :
  inv Q m -> (forall a, m = Ok a -> inv Q (k a)) -> inv Q (bind m k).
Proof. destruct m as [a|s]; cbn; intros Hm Hk; auto. Qed.

Lemma inv_each {A} (Q : stop -> Prop) (f : A -> res unit) (l : list A) :
  (forall x, In x l -> inv Q (f x)) -> inv Q (each f l).
Proof.
  induction l as [|x r IH]; cbn; intros H; auto.
  apply inv_bind; [apply H; now left|]. intros _ _. apply IH. intros y Hy. apply H. now right.
Qed.

Lemma inv_ok {A} (Q : stop -> Prop) (a : A) : inv Q (Ok a).
Proof. exact I. Qed.

Lemma inv_guard (Q : stop -> Prop) b d : Q (Exit d) -> inv Q (guard b d).
Proof. destruct b; cbn; auto. Qed.

Lemma inv_weaken {A} (Q Q' : stop -> Prop) (r : res A) :
  (forall s, Q s -> Q' s) -> inv Q r -> inv Q' r.
Proof. destruct r; cbn; auto. Qed.

(* the process ends by itself with this exit status *)
Definition exits_with (n : nat) (s : stop) : Prop :=
  match s with Exit d => exit_code d = n | _ => False end.

(* a deliberate exit has status 1; crashes are not excluded here *)
Definition fatal_or_crash (s : stop) : Prop :=
  match s with Exit d => exit_code d = 1 | Panic _ | Diverge _ => True end.

(* no Go panic, no unbounded recursion *)
Definition no_crash (s : stop) : Prop :=
  match s with Exit _ => True | Panic _ | Diverge _ => False end.

Definition is_exit (s : stop) : Prop := match s with Exit _ => True | _ => False end.

Lemma exit_code_le_2 d : exit_code d <= 2.
Proof. destruct d; cbn; lia. Qed.

(* --------------------------------- generic pass over the read-only phases *)

Section Generic.
Variable Q : stop -> Prop.
Hypothesis HQ1 : forall d, exit_code d = 1 -> Q (Exit d).

(* a tactic that walks through the literal control flow of an analysis *)
Ltac inv_step :=
  match goal with
  | |- inv _ (Ok _) => exact I
  | |- inv _ (fatal _) => apply HQ1; reflexivity
  | |- inv _ (Stop (Exit _)) => apply HQ1; reflexivity
  | |- inv _ (guard _ _) => apply inv_guard; apply HQ1; reflexivity
  | |- inv _ (bind _ _) => apply inv_bind; [|intros ? ?]
  | |- inv _ (if ?b then _ else _) => destruct b eqn:?
  | |- inv _ (match ?x with _ => _ end) => destruct x eqn:?
  | |- inv _ (let '(_, _) := ?x in _) => destruct x eqn:?
  end.
Ltac inv_auto := repeat inv_step.

Lemma new_top_field_g fl fuel tops f :
  (forall t, inv Q (expand LNewEmbed fuel tops t)) -> inv Q (new_top_field fl fuel tops f).
Proof.
  intros He. unfold new_top_field. destruct (is_embedded f); [apply He|].
  apply inv_each. intros n _. inv_auto.
Qed.

Lemma new_walk_g fl fuel tops T :
  (forall t, inv Q (expand LNewEmbed fuel tops t)) ->
  forall l found, inv Q (new_walk fl fuel tops T l found).
Proof.
  intros He. induction l as [|[t b] r IH]; intros found; cbn [new_walk]; [exact I|].
  destruct (negb (T =? "") && negb (ts_name t =? T)); [apply IH|].
  destruct (ts_body t); try (destruct (T =? ""); [apply IH|apply HQ1; reflexivity]).
  destruct (String.prefix "_" (ts_name t)); [apply IH|].
  apply inv_bind; [|intros; apply IH].
  apply inv_each. intros f _. now apply new_top_field_g.
Qed.

Lemma new_make_g fl ld T :
  (forall t, inv Q (expand LNewEmbed (S (List.length (top_tspecs (ld_files ld)))) (top_tspecs (ld_files ld)) t)) ->
  inv Q (new_make fl ld T).
Proof. intros He. unfold new_make. cbv zeta. apply inv_bind; [now apply new_walk_g|intros]. inv_auto. Qed.

Lemma enum_vspecs_g tops T : forall l typ n, inv Q (enum_vspecs tops T typ l n).
Proof.
  induction l as [|v r IH]; intros typ n; cbn [enum_vspecs]; [exact I|].
  cbv zeta. repeat (first [apply IH | inv_step]).
Qed.

Lemma enum_gdecls_g tops T : forall l n, inv Q (enum_gdecls tops T l n).
Proof.
  induction l as [|g r IH]; intros n; cbn [enum_gdecls]; [exact I|].
  destruct g as [s|s].
  - destruct (existsb _ s); [apply HQ1; reflexivity|apply IH].
  - apply inv_bind; [apply enum_vspecs_g|intros; apply IH].
Qed.

Lemma enum_make_g fl ld T : inv Q (enum_make fl ld T).
Proof. unfold enum_make. cbv zeta. apply inv_bind; [apply enum_gdecls_g|intros]. inv_auto. Qed.

Lemma rest_param_g baddir fs f m : forall t st, inv Q (rest_param baddir fs f m t st).
Proof.
  induction t; intros [body qmap]; cbn [rest_param]; try (apply HQ1; reflexivity); try exact I; try apply IHt; inv_auto.
Qed.

Lemma rest_names_g baddir fs f m t : forall names st, inv Q (rest_names baddir fs f m t names st).
Proof.
  induction names as [|x r IH]; intros st; cbn [rest_names]; [exact I|].
  apply inv_bind; [apply rest_param_g|intros; apply IH].
Qed.

Lemma rest_params_g baddir fs f m : forall ps st, inv Q (rest_params baddir fs f m ps st).
Proof.
  induction ps as [|p r IH]; intros st; cbn [rest_params]; [exact I|].
  apply inv_bind; [apply rest_names_g|intros; apply IH].
Qed.

Lemma rest_method_g baddir fs f doc ps rs : inv Q (rest_method baddir fs f doc ps rs).
Proof.
  unfold rest_method. destruct doc; try exact I. cbv zeta.
  apply inv_bind; [inv_auto|intros].
  apply inv_bind; [apply rest_params_g|intros].
  inv_auto.
Qed.

Lemma rest_iface_g baddir fs f items : inv Q (rest_iface baddir fs f items).
Proof.
  unfold rest_iface. apply inv_each. intros it _. destruct it; [exact I|apply rest_method_g].
Qed.

Lemma rest_walk_g baddir fs T f : forall l found, inv Q (rest_walk baddir fs T f l found).
Proof.
  induction l as [|[t b] r IH]; intros found; cbn [rest_walk]; [exact I|].
  destruct (rest_test T t); [|apply IH].
  destruct (ts_body t); try apply IH.
  apply inv_bind; [apply rest_iface_g|intros; apply IH].
Qed.

Lemma rest_files_g baddir all T : forall fs found, inv Q (rest_files baddir all T fs found).
Proof.
  induction fs as [|f r IH]; intros found; cbn [rest_files]; [exact I|].
  apply inv_bind; [apply rest_walk_g|intros; apply IH].
Qed.

Lemma rest_make_g baddir ld T : inv Q (rest_make baddir ld T).
Proof. unfold rest_make. apply inv_bind; [apply rest_files_g|intros]. inv_auto. Qed.

Lemma map_walk_g fuel tops T :
  (forall t, inv Q (expand LMapEmbed fuel tops t)) ->
  forall l found, inv Q (map_walk fuel tops T l found).
Proof.
  intros He. induction l as [|[t b] r IH]; intros found; cbn [map_walk]; [exact I|].
  destruct (map_test T t); [|apply IH].
  destruct (ts_body t); try apply IH.
  apply inv_bind; [|intros; apply IH].
  apply inv_each. intros f _. destruct (is_embedded f); [apply He|exact I].
Qed.

Lemma map_manual_g key T D : forall l w r, inv Q (map_manual key T D l w r).
Proof.
  induction l as [|[f fd] rest IH]; intros w r; cbn [map_manual]; cbv zeta; [exact I|].
  repeat (first [apply IH | inv_step]).
Qed.

(* what map_make needs to know about the only functions that can crash: the two expansions *)
Definition map_parts_ok (ld : loaded) : Prop :=
  (forall t, inv Q (expand LMapEmbed (S (List.length (top_tspecs (ld_files ld)))) (top_tspecs (ld_files ld)) t)) /\
  (forall t, inv Q (expand LMapEmbed (S (List.length (top_tspecs (ld_dest ld)))) (top_tspecs (ld_dest ld)) t)).

Lemma map_make_g fl ld T : map_parts_ok ld -> inv Q (map_make fl ld T).
Proof.
  intros (He1 & He2).
  unfold map_make, map_parse_fields. cbv zeta.
  apply inv_bind; [now apply map_walk_g|intros].
  apply inv_bind; [inv_auto|intros].
  apply inv_bind; [now apply map_walk_g|intros].
  match goal with |- inv _ (if ?b then _ else _) => destruct b end; [inv_auto|].
  apply inv_bind; [apply map_manual_g|intros; exact I].
Qed.

Definition parts_ok (ld : loaded) : Prop :=
  (forall t, inv Q (expand LNewEmbed (S (List.length (top_tspecs (ld_files ld)))) (top_tspecs (ld_files ld)) t)) /\
  map_parts_ok ld.

Lemma make_data_g i fl ld T : parts_ok ld -> inv Q (make_data i fl ld T).
Proof.
  intros (Hn & Hm). unfold make_data. destruct (fl_sub fl);
    [now apply new_make_g|apply enum_make_g|apply rest_make_g|now apply map_make_g].
Qed.

Lemma gen_loop_g i fl ld fmap : parts_ok ld ->
  forall types sep merged, inv Q (gen_loop i fl ld fmap types sep merged).
Proof.
  intros Hp. induction types as [|T r IH]; intros sep merged; cbn [gen_loop]; [exact I|].
  apply inv_bind; [now apply make_data_g|intros made _].
  repeat (first [apply IH | inv_step]).
Qed.

Lemma confirm_types_g fl ld : inv Q (confirm_types fl ld).
Proof.
  unfold confirm_types. destruct (fl_specified fl); [|exact I].
  apply inv_bind; [|intros; exact I].
  apply inv_each. intros T _. inv_auto.
Qed.

Lemma generate_g i fl ld : parts_ok ld -> inv Q (generate i fl ld).
Proof.
  intros Hp. unfold generate. apply inv_bind; [apply confirm_types_g|intros [types fmap] _].
  apply inv_bind; [now apply gen_loop_g|intros [sep merged] _].
  apply inv_bind; [inv_auto|intros; exact I].
Qed.

Lemma load_package_g i fl : inv Q (load_package i fl).
Proof.
  unfold load_package. cbv zeta.
  apply inv_bind; [inv_auto|intros].
  repeat (apply inv_bind; [inv_auto|intros]). exact I.
Qed.

End Generic.

(* ------------------------- pass 1: after the flags every deliberate exit is 1 *)

Lemma fatal_or_crash_1 : forall d, exit_code d = 1 -> fatal_or_crash (Exit d).
Proof. intros d H. exact H. Qed.

Lemma expand_q site : forall fuel tops t, inv fatal_or_crash (expand site fuel tops t).
Proof.
  induction fuel as [|k IH]; intros tops t; cbn [expand]; destruct (embedded_struct tops t); cbn; auto.
  apply inv_each. intros f _. destruct (is_embedded f); [apply IH|exact I].
Qed.

Lemma parts_ok_q ld : parts_ok fatal_or_crash ld.
Proof. repeat split; intros; apply expand_q. Qed.

(* ------------------------------ pass 2: no crash on well-formed packages *)

Lemma no_crash_1 : forall d, exit_code d = 1 -> no_crash (Exit d).
Proof. intros; exact I. Qed.

(* t' is an embedded field of the struct t expands to, and expands itself *)
Definition child (tops : list tspec) (t t' : texpr) : Prop :=
  exists fs f, embedded_struct tops t = Some fs /\ In f fs /\ is_embedded f = true /\
               t' = fd_type f /\ embedded_struct tops t' <> None.

(* the embedding relation of the package is well founded, witnessed by a rank
   bounded by the number of package-level type specs *)
Definition embedding_wf (tops : list tspec) : Prop :=
  exists rank : texpr -> nat,
    (forall t t', child tops t t' -> rank t' < rank t) /\ (forall t, rank t <= List.length tops).

Lemma expand_rank site tops rank :
  (forall t t', child tops t t' -> rank t' < rank t) ->
  forall fuel t, rank t < fuel -> inv no_crash (expand site fuel tops t).
Proof.
  intros Hr. induction fuel as [|k IH]; intros t Hlt; [lia|].
  cbn [expand]. destruct (embedded_struct tops t) as [fs|] eqn:He; [|exact I].
  apply inv_each. intros f Hin. destruct (is_embedded f) eqn:Hemb; [|exact I].
  destruct (embedded_struct tops (fd_type f)) as [fs'|] eqn:He'.
  - apply IH. assert (rank (fd_type f) < rank t); [|lia].
    apply Hr. exists fs, f. repeat split; auto. congruence.
  - destruct k; cbn [expand]; rewrite He'; exact I.
Qed.

Lemma expand_wf site tops t :
  embedding_wf tops -> inv no_crash (expand site (S (List.length tops)) tops t).
Proof.
  intros (rank & Hr & Hb). apply (expand_rank site tops rank Hr). specialize (Hb t). lia.
Qed.

(* ------------------------- a decidable sufficient condition for embedding_wf *)

Lemma find_pos n : forall l s, find_tspec n l = Some s -> exists p, pos n l = Some p /\ nth_error l p = Some s.
Proof.
  induction l as [|x r IH]; cbn; intros s H; [discriminate|].
  destruct (ts_name x =? n).
  - injection H as <-. exists 0. auto.
  - destruct (IH s H) as (p & Hp & Hn). exists (S p). rewrite Hp. auto.
Qed.

Lemma pos_find n : forall l p, pos n l = Some p -> exists s, find_tspec n l = Some s /\ nth_error l p = Some s.
Proof.
  induction l as [|x r IH]; cbn; intros p H; [discriminate|].
  destruct (ts_name x =? n).
  - injection H as <-. exists x. auto.
  - destruct (pos n r) as [q|]; [|discriminate]. injection H as <-.
    destruct (IH q eq_refl) as (s & Hs & Hn). exists s. auto.
Qed.

Lemma pos_lt n : forall l p, pos n l = Some p -> p < List.length l.
Proof.
  induction l as [|x r IH]; cbn; intros p H; [discriminate|].
  destruct (ts_name x =? n); [injection H as <-; lia|].
  destruct (pos n r) as [q|]; [|discriminate]. injection H as <-. specialize (IH q eq_refl). lia.
Qed.

Lemma specs_ok_nth tops : forall l p k s,
  specs_ok tops p l = true -> nth_error l k = Some s -> spec_ok tops (p + k) s = true.
Proof.
  induction l as [|x r IH]; intros p k s H Hn; [destruct k; discriminate|].
  cbn in H. apply andb_prop in H as [H1 H2]. destruct k; cbn in Hn.
  - injection Hn as <-. now rewrite Nat.add_0_r.
  - replace (p + S k) with (S p + k) by lia. now apply (IH (S p)).
Qed.

(* under_struct n = Some fs: fs is the body of a spec declared at or before n *)
Lemma under_struct_pos tops : ordered tops = true ->
  forall fuel n fs p, under_struct fuel tops n = Some fs -> pos n tops = Some p ->
  exists q s, q <= p /\ nth_error tops q = Some s /\ ts_body s = BStruct fs.
Proof.
  intros Ho. induction fuel as [|k IH]; intros n fs p Hu Hp; [discriminate|].
  cbn [under_struct] in Hu. destruct (find_tspec n tops) as [s|] eqn:Hf; [|discriminate].
  destruct (find_pos n tops s Hf) as (p' & Hp' & Hn). rewrite Hp in Hp'. injection Hp' as <-.
  pose proof (specs_ok_nth tops tops 0 p s Ho Hn) as Hs. cbn in Hs.
  destruct (ts_body s) as [fs0| |t] eqn:Hb; try discriminate.
  - injection Hu as <-. exists p, s. auto.
  - destruct t; try discriminate.
    unfold spec_ok in Hs. rewrite Hb in Hs. unfold ref_ok in Hs.
    destruct (pos n0 tops) as [q'|] eqn:Hq.
    + apply Nat.ltb_lt in Hs. destruct (IH n0 fs q' Hu Hq) as (q & s' & Hle & Hn' & Hb').
      exists q, s'. repeat split; auto. lia.
    + exfalso. destruct k; [discriminate|]. cbn [under_struct] in Hu.
      destruct (find_tspec n0 tops) as [s0|] eqn:Hf0; [|discriminate].
      destruct (find_pos _ _ _ Hf0) as (x & Hx & _). congruence.
Qed.

Lemma embedded_struct_name tops t fs : embedded_struct tops t = Some fs ->
  exists n p, tname t = Some n /\ pos n tops = Some p /\ under_struct (S (List.length tops)) tops n = Some fs.
Proof.
  destruct t; try discriminate; cbn [embedded_struct].
  - destruct (find_tspec n tops) as [s|] eqn:Hf; [|discriminate].
    destruct (ts_alias s); [discriminate|]. intros Hu.
    destruct (find_pos _ _ _ Hf) as (p & Hp & _). exists n, p. auto.
  - destruct t; try discriminate. intros Hu. cbn [under_struct] in Hu.
    destruct (find_tspec n tops) as [s|] eqn:Hf; [|discriminate].
    destruct (find_pos _ _ _ Hf) as (p & Hp & _). exists n, p. repeat split; auto.
    cbn [under_struct]. now rewrite Hf.
Qed.

Definition pos_rank (tops : list tspec) (t : texpr) : nat :=
  match tname t with
  | Some n => match pos n tops with Some p => p | None => 0 end
  | None => 0
  end.

Lemma ordered_wf tops : ordered tops = true -> embedding_wf tops.
Proof.
  intros Ho. exists (pos_rank tops). split.
  - intros t t' (fs & f & He & Hin & Hemb & -> & Hne).
    destruct (embedded_struct_name _ _ _ He) as (n & p & Htn & Hp & Hu).
    destruct (under_struct_pos tops Ho _ _ _ _ Hu Hp) as (q & s & Hle & Hn & Hb).
    pose proof (specs_ok_nth tops tops 0 q s Ho Hn) as Hs. cbn in Hs.
    unfold spec_ok in Hs. rewrite Hb in Hs. rewrite forallb_forall in Hs. specialize (Hs f Hin). rewrite Hemb in Hs.
    destruct (embedded_struct tops (fd_type f)) as [fs'|] eqn:He'; [|congruence].
    destruct (embedded_struct_name _ _ _ He') as (m & q' & Htm & Hq' & _).
    rewrite Htm in Hs. unfold ref_ok in Hs. rewrite Hq' in Hs. apply Nat.ltb_lt in Hs.
    unfold pos_rank. rewrite Htn, Hp, Htm, Hq'. lia.
  - intros t. unfold pos_rank. destruct (tname t) as [n|]; [|lia].
    destruct (pos n tops) as [p|] eqn:Hp; [|lia]. apply pos_lt in Hp. lia.
Qed.

(* the guard of the classification theorem, on what LoadPackage returned *)
Definition loaded_wf (ld : loaded) : Prop :=
  embedding_wf (top_tspecs (ld_files ld)) /\ embedding_wf (top_tspecs (ld_dest ld)).

Lemma parts_ok_nc ld : loaded_wf ld -> parts_ok no_crash ld.
Proof. intros (W1 & W2). repeat split; intros; now apply expand_wf. Qed.

(* ------------------------------------------------ the writing phases *)

Definition all_ok (io : nat -> bool) : Prop := forall k, io k = true.

Lemma files_only_set n l d : files_only d = true -> files_only (dir_set n (EFile l) d) = true.
Proof.
  induction d as [|[k v] r IH]; cbn; intros H; [reflexivity|].
  apply andb_prop in H as [Hv Hr]. destruct (k =? n); cbn; [exact Hr|]. rewrite Hv. cbn. now apply IH.
Qed.

Lemma files_only_del n d : files_only d = true -> files_only (dir_del n d) = true.
Proof.
  induction d as [|[k v] r IH]; cbn; intros H; [reflexivity|].
  apply andb_prop in H as [Hv Hr]. destruct (k =? n); cbn; [exact Hr|]. rewrite Hv. cbn. now apply IH.
Qed.

Lemma files_only_assoc n d e : files_only d = true -> assoc n d = Some e -> is_file e = true.
Proof.
  induction d as [|[k v] r IH]; cbn; intros H Ha; [discriminate|].
  apply andb_prop in H as [Hv Hr]. destruct (k =? n); [injection Ha as <-; exact Hv|now apply IH].
Qed.

Lemma notedown_ok io fl out w :
  all_ok io -> files_only (w_dir w) = true ->
  exists w', notedown io fl out w = (Ok tt, w') /\ files_only (w_dir w') = true.
Proof.
  intros Hio Hf. unfold notedown. rewrite !Hio. cbn [negb w_dir emit orb].
  match goal with |- context [assoc out ?d] =>
    assert (Hd2 : files_only d = true) by (now repeat apply files_only_set);
    destruct (assoc out d) as [e|] eqn:Ha
  end.
  - pose proof (files_only_assoc _ _ _ Hd2 Ha) as He. destruct e; try discriminate.
    eexists; split; [reflexivity|]. cbn. apply files_only_set. now apply files_only_del.
  - eexists; split; [reflexivity|]. cbn. apply files_only_set. now apply files_only_del.
Qed.

Lemma write_all_ok io fl : forall outs w,
  all_ok io -> files_only (w_dir w) = true ->
  exists w', write_all io fl outs w = (Ok tt, w') /\ files_only (w_dir w') = true.
Proof.
  induction outs as [|o r IH]; intros w Hio Hf; cbn [write_all]; [eauto|].
  destruct (notedown_ok io fl o w Hio Hf) as (w1 & E & Hf1). rewrite E. now apply IH.
Qed.

Lemma clean_loop_ok io fl genfile : forall names w,
  all_ok io -> files_only (w_dir w) = true ->
  exists w', clean_loop io fl genfile names w = (Ok tt, w').
Proof.
  induction names as [|n r IH]; intros w Hio Hf; cbn [clean_loop]; [eauto|].
  destruct (n =? genfile); [now apply IH|].
  destruct (assoc n (w_dir w)) as [e|] eqn:Ha; [|now apply IH].
  pose proof (files_only_assoc _ _ _ Hf Ha) as He. destruct e; try discriminate.
  destruct (is_aio_line line1); [now apply IH|].
  destruct (negb (is_gen_line (fl_sub fl) line1)); [now apply IH|].
  rewrite Hio. cbn [negb]. apply IH; [exact Hio|]. cbn. now apply files_only_del.
Qed.

Lemma clean_ok io fl ld srcs w :
  all_ok io -> files_only (w_dir w) = true -> exists w', clean io fl ld srcs w = (Ok tt, w').
Proof.
  intros Hio Hf. unfold clean. destruct (fl_sep fl); [eauto|]. destruct (ld_allinone ld =? ""); [eauto|].
  now apply clean_loop_ok.
Qed.

(* every stop of the writing phases is a logx.Fatal *)
Lemma notedown_stop io fl out w s w' : notedown io fl out w = (Stop s, w') -> exits_with 1 s.
Proof.
  unfold notedown. repeat match goal with |- context [if ?b then _ else _] => destruct b end;
    intros E; inversion E; reflexivity.
Qed.

Lemma write_all_stop io fl : forall outs w s w', write_all io fl outs w = (Stop s, w') -> exits_with 1 s.
Proof.
  induction outs as [|o r IH]; intros w s w'; cbn [write_all]; [discriminate|].
  destruct (notedown io fl o w) as [[u|s0] w1] eqn:E.
  - apply IH.
  - intros E'. inversion E'; subst. eapply notedown_stop; eauto.
Qed.

Lemma clean_loop_stop io fl genfile : forall names w s w',
  clean_loop io fl genfile names w = (Stop s, w') -> exits_with 1 s.
Proof.
  induction names as [|n r IH]; intros w s w'; cbn [clean_loop]; [discriminate|].
  repeat match goal with
         | |- context [if ?b then _ else _] => destruct b
         | |- context [match assoc ?n ?d with _ => _ end] => destruct (assoc n d) as [[| |]|]
         end; try apply IH; intros E; inversion E; reflexivity.
Qed.

Lemma clean_stop io fl ld srcs w s w' : clean io fl ld srcs w = (Stop s, w') -> exits_with 1 s.
Proof.
  unfold clean. destruct (fl_sep fl); [discriminate|]. destruct (ld_allinone ld =? ""); [discriminate|].
  apply clean_loop_stop.
Qed.

(* ----------------------------------------------------- the whole run *)

Lemma analyse_inv (Q : stop -> Prop) i :
  (forall d, exit_code d = 1 -> Q (Exit d)) ->
  inv Q (parse_flags i) ->
  (forall fl ld, parse_flags i = Ok fl -> load_package i fl = Ok ld -> parts_ok Q ld) ->
  inv Q (analyse i).
Proof.
  intros HQ Hp Hparts. unfold analyse.
  apply inv_bind; [exact Hp|intros fl Hfl].
  apply inv_bind; [now apply load_package_g|intros ld Hld].
  apply inv_bind; [apply generate_g; [exact HQ|exact (Hparts fl ld Hfl Hld)]|intros; exact I].
Qed.

(* T1: a stop in the phases before the first write leaves the world untouched *)
Lemma run_analyse_stop sigma io i s : analyse i = Stop s -> run sigma io i = (s, world0 i).
Proof. intros H. unfold run. rewrite H. reflexivity. Qed.

(* the stops of parse_flags are deliberate exits *)
Lemma parse_flags_exit i : inv is_exit (parse_flags i).
Proof.
  unfold parse_flags.
  repeat match goal with
         | |- inv _ (Ok _) => exact I
         | |- inv _ (Stop (Exit _)) => exact I
         | |- inv _ (fatal _) => exact I
         | |- inv _ (guard ?b _) => destruct b; exact I
         | |- inv _ (bind _ _) => apply inv_bind; [|intros ? ?]
         | |- inv _ (if ?b then _ else _) => destruct b
         | |- inv _ (match ?x with _ => _ end) => destruct x
         end.
Qed.

(* T2: without I/O faults and with only regular files in the package directory,
   the run either ends with exit status 0 or stopped before the first write *)
Lemma run_cases sigma io i :
  all_ok io -> files_only (i_extra i) = true ->
  (exists w, run sigma io i = (Exit DSuccess, w)) \/ (exists w, run sigma io i = (Exit DNothing, w)) \/
  (exists s, analyse i = Stop s /\ run sigma io i = (s, world0 i)).
Proof.
  intros Hio Hf. unfold run. destruct (analyse i) as [[[fl ld] outs]|s] eqn:Ha.
  - destruct (write_all_ok io fl (sigma outs) (world0 i) Hio Hf) as (w1 & E & Hf1). rewrite E.
    destruct outs as [|o r]; [right; left; eauto|].
    destruct (clean_ok io fl ld (map f_name (files_of i (fl_dir fl))) w1 Hio Hf1) as (w2 & E2).
    rewrite E2. left; eauto.
  - right; right. exists s. split; reflexivity.
Qed.

Lemma nonzero_exit_changes_nothing sigma io i s w :
  all_ok io -> files_only (i_extra i) = true ->
  run sigma io i = (s, w) ->
  (forall d, s = Exit d -> exit_code d <> 0) ->
  w = world0 i.
Proof.
  intros Hio Hf Hr Hnz.
  destruct (run_cases sigma io i Hio Hf) as [[w' E]|[[w' E]|(s' & _ & E)]]; rewrite E in Hr; inversion Hr; subst.
  - exfalso. apply (Hnz DSuccess); reflexivity.
  - exfalso. apply (Hnz DNothing); reflexivity.
  - reflexivity.
Qed.

(* the guard of the classification theorem on the input *)
Definition input_wf (i : input) : Prop :=
  embedding_wf (top_tspecs (i_files i)) /\
  forall sp n fs, In (sp, DestPkg n fs) (i_dests i) -> embedding_wf (top_tspecs fs).

Lemma embedding_wf_nil : embedding_wf [].
Proof.
  exists (fun _ => 0). split; [|intros; cbn; lia].
  intros t t' (fs & f & He & _). destruct t; cbn in He; try discriminate. destruct t; cbn in He; discriminate.
Qed.

Lemma assoc_in {A} k (l : list (string * A)) v : assoc k l = Some v -> In (k, v) l.
Proof.
  induction l as [|[k' v'] r IH]; cbn; [discriminate|].
  destruct (k' =? k) eqn:E; [|intros; right; auto].
  intros H. injection H as <-. apply String.eqb_eq in E. subst. now left.
Qed.

Lemma load_package_wf i fl ld : input_wf i -> load_package i fl = Ok ld -> loaded_wf ld.
Proof.
  intros (W & D). unfold load_package. cbv zeta.
  assert (Wf : embedding_wf (top_tspecs (files_of i (fl_dir fl)))).
  { unfold files_of. destruct (is_pkgdir i (fl_dir fl)); [auto|apply embedding_wf_nil]. }
  destruct (match fl_sub fl with
            | CMap => _
            | _ => _
            end) as [d|s] eqn:Hd; cbn [bind]; [|discriminate].
  assert (Wd : embedding_wf (top_tspecs match d with Some (DestPkg _ fs) => fs | _ => [] end)).
  { destruct d as [[n fs|]|]; try apply embedding_wf_nil.
    destruct (fl_sub fl); try discriminate.
    destruct (fl_dest fl =? ".").
    - injection Hd as <- <-. auto.
    - destruct (assoc (fl_dest fl) (i_dests i)) as [d'|] eqn:Ha; [|discriminate].
      injection Hd as ->. apply assoc_in in Ha. apply (D _ _ _ Ha). }
  repeat match goal with
         | |- bind (guard ?b ?d) _ = _ -> _ => destruct b; cbn [guard bind fatal]; [|discriminate]
         end.
  intros E. injection E as <-. split; assumption.
Qed.

(* T3: on well-formed inputs a run always ends in a deliberate exit *)
Lemma run_is_exit sigma io i : input_wf i -> is_exit (fst (run sigma io i)).
Proof.
  intros Hwf.
  assert (Ha : inv (fun s => is_exit s) (analyse i)).
  { assert (H : inv no_crash (analyse i)).
    { apply analyse_inv; [intros; exact I| |].
      - eapply inv_weaken; [|apply parse_flags_exit]. intros [] H; cbn in *; auto.
      - intros fl ld _ Hld. apply parts_ok_nc. eapply load_package_wf; eauto. }
    eapply inv_weaken; [|exact H]. intros [] Hs; cbn in *; auto. }
  unfold run. destruct (analyse i) as [[[fl ld] outs]|s]; [|exact Ha].
  destruct (write_all io fl (sigma outs) (world0 i)) as [[u|s] w1] eqn:Ew.
  - destruct outs; [exact I|].
    destruct (clean io fl ld _ w1) as [[u2|s2] w2] eqn:Ec; [exact I|].
    apply clean_stop in Ec. destruct s2; cbn in *; auto.
  - apply write_all_stop in Ew. destruct s; cbn in *; auto.
Qed.

(* T4: exit status 2 comes from the command line only *)
Lemma exit2_from_flags sigma io i d w :
  run sigma io i = (Exit d, w) -> exit_code d = 2 -> parse_flags i = Stop (Exit d).
Proof.
  intros Hr H2. unfold run in Hr.
  destruct (parse_flags i) as [fl|s] eqn:Hp.
  - exfalso.
    assert (Ha : inv fatal_or_crash (analyse i)).
    { apply analyse_inv; [exact fatal_or_crash_1|rewrite Hp; exact I|intros; apply parts_ok_q]. }
    destruct (analyse i) as [[[fl' ld] outs]|s].
    + destruct (write_all io fl' (sigma outs) (world0 i)) as [[u|s] w1] eqn:Ew.
      * destruct outs; [inversion Hr; subst; discriminate|].
        destruct (clean io fl' ld _ w1) as [[u2|s2] w2] eqn:Ec; inversion Hr; subst; [discriminate|].
        apply clean_stop in Ec. cbn in Ec. lia.
      * inversion Hr; subst. apply write_all_stop in Ew. cbn in Ew. lia.
    + inversion Hr; subst. cbn in Ha. lia.
  - unfold analyse in Hr. rewrite Hp in Hr. cbn in Hr. inversion Hr; subst. reflexivity.
Qed.

(* --------------------------------- I/O faults: what a failed write leaves *)

Definition renames (l : list effect) : list string :=
  flat_map (fun e => match e with FRename o => [o] | _ => [] end) l.

Lemma renames_app a b : renames (a ++ b) = (renames a ++ renames b)%list.
Proof. unfold renames. apply flat_map_app. Qed.

Lemma notedown_renames io fl out w r w' :
  notedown io fl out w = (r, w') ->
  (r = Ok tt /\ renames (w_log w') = (renames (w_log w) ++ [out])%list) \/
  ((exists s, r = Stop s) /\ renames (w_log w') = renames (w_log w)).
Proof.
  unfold notedown.
  repeat match goal with |- context [if ?b then _ else _] => destruct b end;
    intros E; inversion E; subst; cbn [emit tick w_log];
    rewrite ?renames_app; cbn [renames flat_map app]; rewrite ?app_nil_r;
    first [left; split; reflexivity | right; split; [eexists; reflexivity|reflexivity]].
Qed.

(* T5: whatever fails during the write phase, the outputs replaced so far are a
   prefix of the outputs in the order in which Go's map iteration delivered them *)
Lemma write_all_prefix io fl : forall outs w r w',
  write_all io fl outs w = (r, w') ->
  exists k, renames (w_log w') = (renames (w_log w) ++ firstn k outs)%list /\
            (r = Ok tt -> k = List.length outs) /\ ((exists s, r = Stop s) -> k < List.length outs).
Proof.
  induction outs as [|o rest IH]; intros w r w'; cbn [write_all].
  - intros E; inversion E; subst. exists 0. rewrite app_nil_r. repeat split; auto. intros [s Hs]; discriminate.
  - destruct (notedown io fl o w) as [r1 w1] eqn:E1.
    destruct (notedown_renames _ _ _ _ _ _ E1) as [[-> Hr]|[[s ->] Hr]].
    + intros E. destruct (IH _ _ _ E) as (k & Hk & Hok & Hst).
      exists (S k). rewrite Hk, Hr, <- app_assoc. cbn. repeat split; auto. intros Hs. specialize (Hst Hs). lia.
    + intros E; inversion E; subst. exists 0. rewrite app_nil_r. repeat split; cbn; auto; [discriminate|lia].
Qed.

(* ------------------------------------------------------------- witnesses *)

Definition fld (n : string) (t : texpr) : field :=
  {| fd_names := [n]; fd_type := t; fd_get := false; fd_set := false; fd_newdash := false |}.
Definition emb (t : texpr) : field :=
  {| fd_names := []; fd_type := t; fd_get := false; fd_set := false; fd_newdash := false |}.
Definition strct (n : string) (fs : list field) : tspec :=
  {| ts_name := n; ts_alias := false; ts_body := BStruct fs |}.
Definition gofile (n : string) (ds : list decl) : file :=
  {| f_name := n; f_pkg := "p"; f_imports_dest := ["dest"]; f_decls := ds |}.
Definition mkinput (args : list string) (files : list file) (extra : list (string * entry))
           (dests : list (string * dest)) : input :=
  {| i_args := args; i_pkgdirs := ["."]; i_inmodule := true; i_files := files; i_extra := extra;
     i_dests := dests; i_render := []; i_merge_ok := true |}.

(* K_ctor_self_embed: type Node struct { *Node; v int } *)
Definition node_tops : list tspec := [strct "Node" [emb (TStar (TId "Node")); fld "v" (TId "int")]].
Definition w_self_embed : input :=
  mkinput ["new"; "-type=Node"] [gofile "a.go" [DType node_tops]] [] [].

Lemma self_embed_diverges : forall fuel, expand LNewEmbed fuel node_tops (TStar (TId "Node")) = Stop (Diverge LNewEmbed).
Proof.
  induction fuel as [|k IH]; [reflexivity|].
  cbn [expand]. change (embedded_struct node_tops (TStar (TId "Node")))
    with (Some [emb (TStar (TId "Node")); fld "v" (TId "int")]).
  cbn [each is_embedded emb fd_names fd_type]. rewrite IH. reflexivity.
Qed.

Lemma self_embed_run : fst (run id_order no_fault w_self_embed) = Diverge LNewEmbed.
Proof. vm_compute. reflexivity. Qed.

Lemma self_embed_not_wf : ~ embedding_wf node_tops.
Proof.
  intros (rank & Hr & _).
  assert (H : child node_tops (TStar (TId "Node")) (TStar (TId "Node"))).
  { exists [emb (TStar (TId "Node")); fld "v" (TId "int")], (emb (TStar (TId "Node"))).
    repeat split; [now left|discriminate]. }
  specialize (Hr _ _ H). lia.
Qed.

(* K_map_unnamed_names: a write method toDest whose parameter of type pointer to dest.T has no name *)
Definition t_struct : tspec := strct "T" [fld "ID" (TId "int")].
Definition dest_pkg : dest := DestPkg "dest" [{| f_name := "d.go"; f_pkg := "dest"; f_imports_dest := []; f_decls := [DType [t_struct]] |}].
Definition manual (name : string) (recv params : list param) (body : option (list ldecl)) : decl :=
  DFunc {| fn_recv := Some recv; fn_name := name; fn_params := params; fn_results := None; fn_body := body |}.
Definition w_map_unnamed : input :=
  mkinput ["map"; "-path=../dest"; "-type=T"]
    [gofile "s.go" [DType [t_struct];
                    manual "toDest" [{| pa_names := ["t"]; pa_type := TStar (TId "T") |}]
                                    [{| pa_names := []; pa_type := TStar (TSel "dest" "T") |}] (Some [])]]
    [] [("../dest", dest_pkg)].
Definition w_map_nil_body : input :=
  mkinput ["map"; "-path=../dest"; "-type=T"]
    [gofile "s.go" [DType [t_struct];
                    manual "toDest" [{| pa_names := ["t"]; pa_type := TStar (TId "T") |}]
                                    [{| pa_names := ["d"]; pa_type := TStar (TSel "dest" "T") |}] None]]
    [] [("../dest", dest_pkg)].
(* K_map_accessor_arity: a shoot-new type with func (t *T) SetName() {} *)
Definition sn_struct : tspec := strct "T" [fld "ID" (TId "int"); fld "name" (TId "string")].
Definition w_map_setter : input :=
  mkinput ["map"; "-path=../dest"; "-type=T"]
    [gofile "s.go" [DType [sn_struct];
                    manual "ShootNew" [{| pa_names := ["t"]; pa_type := TId "T" |}] [] (Some []);
                    manual "SetName" [{| pa_names := ["t"]; pa_type := TStar (TId "T") |}] [] (Some [])]]
    [] [("../dest", dest_pkg)].
(* K_testfile_no_package_clause: an empty .go file in the directory and -file *)
Definition w_no_clause : input :=
  mkinput ["new"; "-file=a.go"]
    [gofile "a.go" [DType [strct "A" [fld "x" (TId "int")]]];
     {| f_name := "empty.go"; f_pkg := ""; f_imports_dest := []; f_decls := [] |}] [] [].
(* the four repaired defects: the former witnesses of K_map_unnamed_names, K_map_nil_body,
   K_map_accessor_arity and K_testfile_no_package_clause are handled and end in success *)
Lemma repaired_witnesses_succeed :
  fst (run id_order no_fault w_map_unnamed) = Exit DSuccess /\
  fst (run id_order no_fault w_map_nil_body) = Exit DSuccess /\
  fst (run id_order no_fault w_map_setter) = Exit DSuccess /\
  fst (run id_order no_fault w_no_clause) = Exit DSuccess.
Proof. vm_compute. auto. Qed.

(* K_clean_unreadable_after_write: a directory named like an output, all-in-one mode *)
Definition two_structs : list decl :=
  [DComment "//go:generate shoot new -type=*"; DType [strct "A" [fld "x" (TId "int")]]; DType [strct "B" [fld "y" (TId "int")]]].
Definition w_clean_dir : input :=
  mkinput ["new"; "-type=*"] [gofile "a.go" two_structs] [("zz.shootnew.d.go", EDir)] [].
Lemma clean_dir_exit1_after_write :
  run id_order no_fault w_clean_dir =
  (Exit DCleanError,
   {| w_dir := [("zz.shootnew.d.go", EDir);
                ("a.shootnew.go", EFile (String.append "// Code generated by " (String.append quote
                   (String.append "shoot new -type=*" (String.append quote "; DO NOT EDIT. (v0.7.0)")))))];
      w_log := [FCreateTemp "a.shootnew.go"; FWriteTemp "a.shootnew.go"; FRename "a.shootnew.go"];
      w_ops := 3 |}).
Proof. vm_compute. reflexivity. Qed.

(* K_rename_fail_after_write: a directory sits at the name of the second output *)
Definition w_rename_dir : input :=
  mkinput ["new"; "-type=A,B"] [gofile "a.go" two_structs] [("a.shootnew.b.go", EDir)] [].
Lemma rename_dir_exit1_after_write :
  fst (run id_order no_fault w_rename_dir) = Exit DRename /\
  w_log (snd (run id_order no_fault w_rename_dir)) =
    [FCreateTemp "a.shootnew.a.go"; FWriteTemp "a.shootnew.a.go"; FRename "a.shootnew.a.go";
     FCreateTemp "a.shootnew.b.go"; FWriteTemp "a.shootnew.b.go"] /\
  assoc ".a.shootnew.b.go_tmp" (w_dir (snd (run id_order no_fault w_rename_dir))) <> None.
Proof. vm_compute. repeat split; discriminate. Qed.

(* a well-formed input with embedding of depth 2: Top embeds *Mid, Mid embeds Base *)
Definition ex_tops : list tspec :=
  [strct "Base" [fld "id" (TId "int")];
   strct "Mid" [emb (TId "Base"); fld "x" (TId "int")];
   strct "Top" [emb (TStar (TId "Mid")); fld "y" (TId "string")]].
Definition ex_input (args : list string) : input := mkinput args [gofile "a.go" [DType ex_tops]] [] [].

Definition ex_rank (t : texpr) : nat :=
  let r n := if n =? "Top" then 2 else if n =? "Mid" then 1 else 0 in
  match t with TId n => r n | TStar (TId n) => r n | _ => 0 end.

Lemma ex_embedded n :
  embedded_struct ex_tops (TId n) = under_struct 4 ex_tops n /\
  embedded_struct ex_tops (TStar (TId n)) = under_struct 4 ex_tops n.
Proof.
  split; [|reflexivity]. cbn -[String.eqb].
  destruct ("Base" =? n) eqn:E1; [reflexivity|].
  destruct ("Mid" =? n) eqn:E2; [reflexivity|].
  destruct ("Top" =? n) eqn:E3; reflexivity.
Qed.

Lemma ex_under n fs : under_struct 4 ex_tops n = Some fs ->
  (n = "Base" /\ fs = [fld "id" (TId "int")]) \/
  (n = "Mid" /\ fs = [emb (TId "Base"); fld "x" (TId "int")]) \/
  (n = "Top" /\ fs = [emb (TStar (TId "Mid")); fld "y" (TId "string")]).
Proof.
  cbn -[String.eqb].
  destruct ("Base" =? n) eqn:E1; [apply String.eqb_eq in E1; intros H; injection H as <-; auto|].
  destruct ("Mid" =? n) eqn:E2; [apply String.eqb_eq in E2; intros H; injection H as <-; auto|].
  destruct ("Top" =? n) eqn:E3; [apply String.eqb_eq in E3; intros H; injection H as <-; auto 6|].
  discriminate.
Qed.

Lemma ex_wf : embedding_wf ex_tops.
Proof.
  exists ex_rank. split.
  - intros t t' (fs & f & He & Hin & Hemb & -> & Hne).
    assert (Hn : exists n, (t = TId n \/ t = TStar (TId n)) /\ under_struct 4 ex_tops n = Some fs).
    { destruct t; try discriminate.
      - exists n. split; [auto|]. now rewrite <- (proj1 (ex_embedded n)).
      - destruct t; try discriminate. exists n. split; [auto|]. now rewrite <- (proj2 (ex_embedded n)). }
    destruct Hn as (n & Ht & Hu).
    destruct (ex_under n fs Hu) as [[-> ->]|[[-> ->]|[-> ->]]];
      cbn [In] in Hin; intuition subst; try discriminate; cbn; lia.
  - intros t. unfold ex_rank. destruct t; cbn; try lia;
      try (destruct (n =? "Top"); [lia|destruct (n =? "Mid"); lia]).
    destruct t; cbn; try lia. destruct (n =? "Top"); [lia|destruct (n =? "Mid"); lia].
Qed.

Lemma ex_input_wf args : input_wf (ex_input args).
Proof.
  split; [exact ex_wf|]. intros sp n fs [].
Qed.

Lemma ex_runs :
  fst (run id_order no_fault (ex_input ["new"; "-type=Top,Mid"; "-getset"])) = Exit DSuccess /\
  fst (run id_order no_fault (ex_input ["new"; "-type=Top,Nope"])) = Exit DNewNotExists /\
  fst (run id_order no_fault (ex_input ["new"; "-type=Top"; "-tagcase=weird"])) = Exit DFlagError.
Proof. vm_compute. auto. Qed.

(* the decidable guard implies the guard of the classification theorem *)
Lemma input_ok_wf i : input_ok i = true -> input_wf i.
Proof.
  unfold input_ok. intros H. apply andb_prop in H as [H H0].
  split; [now apply ordered_wf|].
  intros sp n fs Hin. rewrite forallb_forall in H0. specialize (H0 (sp, DestPkg n fs) Hin). cbn in H0.
  now apply ordered_wf.
Qed.

Lemma run_is_exit_ok sigma io i : input_ok i = true -> is_exit (fst (run sigma io i)).
Proof. intros H. apply run_is_exit. now apply input_ok_wf. Qed.

Lemma ex_input_ok args : input_ok (ex_input args) = true.
Proof. reflexivity. Qed.
