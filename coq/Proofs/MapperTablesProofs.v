(* C15: from accessor / parameter NAMES to the storage they write.  The tables of
   a shoot-new side are inputs of the model (any list of accessors with any
   paths); under [tables_wf] -- the storage determines the name, as in every table
   `shoot new -getset` generates -- write-once and the disjointness from the
   constructor call hold for WRITE PATHS, and every write goes through a plain
   field or a setter, never a getter. *)
From Coq Require Import String Ascii List Bool Arith Lia.
From Shoot Require Import Base.Str Model.Transfer Model.MapVal Model.Mapper Model.MapperEval Model.MapperSpec Model.MapperSpec15
     Proofs.MapperProofs Proofs.MapperPlanProofs Proofs.MapperFlattenProofs Proofs.MapperAnalyseProofs
     Proofs.MapperCtorProofs Proofs.MapperReach Proofs.MapperInvProofs Proofs.MapperSafeProofs Proofs.MapperAttribProofs.
Import ListNotations.
Local Open Scope string_scope.
Local Open Scope list_scope.

(* ------------------------------------------------ parsed fields are plain *)
Definition plainf (f : field) : Prop := f_isget f = false /\ f_isset f = false.

Lemma aor_scan_plain : forall fs nf found, Forall plainf fs -> plainf nf -> Forall plainf (fst (aor_scan fs nf found)).
Proof.
  induction fs as [|f r IH]; intros nf found F N; simpl; auto. inversion F; subst.
  destruct (String.eqb (f_name f) (f_name nf)).
  - destruct (Nat.ltb (f_depth nf) (f_depth f)); simpl.
    + constructor; auto.
    + specialize (IH nf true H2 N). destruct (aor_scan r nf true). simpl in *. constructor; auto.
  - specialize (IH nf found H2 N). destruct (aor_scan r nf found). simpl in *. constructor; auto.
Qed.

Lemma aor_plain fs nf : Forall plainf fs -> plainf nf -> Forall plainf (append_or_replace fs nf).
Proof.
  intros F N. unfold append_or_replace. pose proof (aor_scan_plain fs nf false F N) as X.
  destruct (aor_scan fs nf false) as (fs', fd). simpl in X. destruct fd; auto. apply Forall_app. split; auto.
Qed.

Lemma expand_plain e : forall fuel pre depth t acc,
  Forall plainf (snd acc) -> Forall plainf (snd (expand_if_struct e fuel pre depth t acc)).
Proof.
  induction fuel as [|fuel IH]; intros pre depth t acc G; simpl; auto.
  assert (X : forall (fs : list sfield) (acc : ptrmap * list field), Forall plainf (snd acc) ->
     Forall plainf (snd (fold_left (fun (acc : ptrmap * list field) (f : sfield) =>
                     if sf_emb f
                     then expand_if_struct e fuel (pre ++ [type_name (sf_ty f)]) (S depth) (sf_ty f) acc
                     else (fst acc, append_or_replace (snd acc)
                                      (new_field (sf_name f) (pre ++ [sf_name f]) (sf_ty f) depth)))
                  fs acc))).
  { induction fs as [|f fs IHf]; intros a Ga; simpl; auto.
    apply IHf. destruct (sf_emb f).
    - apply IH; auto.
    - simpl. apply aor_plain; auto. split; reflexivity. }
  destruct t as [| p n | t' | |]; auto.
  - destruct (lookup_decl e p n) as [[|fs]|]; auto.
  - destruct t' as [| p n | | |]; auto.
    destruct (lookup_decl e p n) as [[|fs]|]; auto.
Qed.

Lemma parse_plain e fuel p n wt ps : parse_fields e fuel p n wt = Some ps -> Forall plainf (p_fields ps).
Proof.
  unfold parse_fields. destruct (lookup_decl e p n) as [[|fs]|]; try discriminate.
  intros H. inversion H; subst; clear H. unfold extract_top.
  match goal with |- context [fold_left ?F fs ?a] => set (FF := F) end.
  assert (X : forall (fs0 : list sfield) (acc : ptrmap * list field * tagmap), Forall plainf (snd (fst acc)) ->
                Forall plainf (snd (fst (fold_left FF fs0 acc)))).
  { induction fs0 as [|f fs0 IHf]; intros [[pm fl] tm] Ga; simpl in *; auto.
    apply IHf. unfold FF. destruct (sf_emb f).
    - pose proof (expand_plain e fuel [type_name (sf_ty f)] 1 (sf_ty f) (pm, fl) Ga) as H.
      destruct (expand_if_struct e fuel [type_name (sf_ty f)] 1 (sf_ty f) (pm, fl)) as (pm', fl'). exact H.
    - destruct (String.eqb (sf_tag f) "-"); simpl; auto. apply aor_plain; auto. split; reflexivity. }
  generalize (X fs ([], [], [])).
  destruct (fold_left FF fs ([], [], [])) as [[pm fl] tm]. simpl. intros H. apply H. constructor.
Qed.

(* ------------------------------------------------ the two sides after prepare *)
Lemma prepare_sides jb pr :
  prepare jb = Some pr ->
  exists ps pd,
    parse_fields (j_env jb) (j_fuel jb) PSrc (j_src jb) true = Some ps
    /\ parse_fields (j_env jb) (j_fuel jb) PDst (j_dst jb) false = Some pd
    /\ s_src (pr_s0 pr) = compatlize (exported_of (p_fields ps)) (j_src_acc jb)
    /\ s_dst (pr_s0 pr) = compatlize (exported_of (p_fields pd)) (j_dst_acc jb).
Proof.
  unfold prepare.
  destruct (parse_fields (j_env jb) (j_fuel jb) PSrc (j_src jb) true) as [ps|]; [|discriminate].
  destruct (parse_fields (j_env jb) (j_fuel jb) PDst (j_dst jb) false) as [pd|]; [|discriminate].
  destruct (make_ctor_match _ _ _ _ _ (map ctor_field (j_dst_ctor jb)) _) as [[dctor wdst1] use_d].
  destruct (make_ctor_match _ _ _ _ _ (map ctor_field (j_src_ctor jb)) _) as [[sctor wsrc1] use_s].
  intros H. inversion H; subst; clear H. simpl. eauto 10.
Qed.

Lemma nodup_app_r {A} (l1 l2 : list A) : NoDup (l1 ++ l2) -> NoDup l2.
Proof. induction l1 as [|x l1 IH]; simpl; auto. intros H. inversion H; auto. Qed.

Lemma acc_path_nodup accs a : NoDup (map ac_name accs) -> In a accs -> acc_path accs (ac_name a) = Some (ac_path a).
Proof.
  induction accs as [|b accs IH]; intros N I; [contradiction|]. simpl. inversion N; subst.
  destruct I as [->|I].
  - rewrite String.eqb_refl. reflexivity.
  - destruct (String.eqb_spec (ac_name b) (ac_name a)) as [E|]; [|auto].
    exfalso. apply H1. rewrite E. apply in_map. auto.
Qed.

Lemma path_det_spec l n1 p1 n2 p2 : path_det l = true -> In (n1, p1) l -> In (n2, p2) l -> p1 = p2 -> n1 = n2.
Proof.
  unfold path_det. intros H I1 I2 E. rewrite forallb_forall in H. specialize (H _ I1). rewrite forallb_forall in H.
  specialize (H _ I2). simpl in H. subst p2. assert (X : path_eqb p1 p1 = true) by (apply path_eqb_eq; auto).
  rewrite X in H. simpl in H. apply String.eqb_eq in H. exact H.
Qed.

(* a written field of one side: its name and the storage it writes are in the table *)
Lemma written_in_table (fl : list field) (accs : list accessor) (ctor : list cparam) (f0 f : field) :
  Forall plainf fl -> NoDup (map ac_name accs) ->
  In f0 (compatlize fl accs) -> core_eq f0 f -> f_isget f = false ->
  exists p, write_path accs (ref_of f) = Some p /\ In (f_name f, p) (writables fl accs ctor).
Proof.
  intros PL ND I (Cn & _ & Cg & Cs & _ & Cp) G. unfold compatlize in I. apply in_app_or in I. destruct I as [I|I].
  - rewrite Forall_forall in PL. destruct (PL f0 I) as (A & B).
    exists (f_path f). unfold write_path, ref_of. simpl. rewrite Cg, Cs, A, B. simpl. split; auto.
    unfold writables. apply in_or_app. left. apply in_map_iff. exists f0. rewrite Cn, Cp. auto.
  - apply in_map_iff in I. destruct I as (a & <- & Ia).
    assert (St : ac_set a = true).
    { rewrite Cg in G. unfold pseudo_field in G. destruct (ac_set a); auto; simpl in G; discriminate. }
    exists (ac_path a). unfold write_path, ref_of. simpl. rewrite Cg, Cs, Cn. unfold pseudo_field. rewrite St. simpl.
    split; [apply acc_path_nodup; auto|].
    unfold writables. apply in_or_app. right. apply in_or_app. left. apply in_map_iff. exists a. split; auto.
    apply filter_In. auto.
Qed.

Lemma nodup_write_paths (accs : list accessor) (W : list (string * path)) : forall (l : list stmt),
  NoDup (map (fun st => r_name (st_dst st)) l) -> path_det W = true ->
  (forall st, In st l -> exists p, write_path accs (st_dst st) = Some p /\ In (r_name (st_dst st), p) W) ->
  NoDup (map (fun st => write_path accs (st_dst st)) l).
Proof.
  induction l as [|st l IH]; intros N D H; simpl; [constructor|]. inversion N as [|x0 l0 H1 H2]; subst. constructor.
  - intros X. apply in_map_iff in X. destruct X as (st' & E & I').
    destruct (H st (or_introl eq_refl)) as (p & P1 & P2). destruct (H st' (or_intror I')) as (p' & P1' & P2').
    rewrite P1, P1' in E. inversion E; subst p'.
    apply H1. apply in_map_iff. exists st'. split; auto. eapply path_det_spec; eauto.
  - apply IH; auto. intros st' I'. apply H. right; auto.
Qed.

(* ------------------------------------------------ the statements of a job *)
Section Job.
  Variable sigma : oracle.
  Variable jb : job.
  Variable a : analysis.
  Variable pr : prep.
  Hypothesis An : analyse sigma jb = Some a.
  Hypothesis Prep : prepare jb = Some pr.
  Hypothesis AG : acc_guard jb.
  Hypothesis FN : forall fn, In fn (j_funcs jb) -> mf_name fn <> "".

  Notation s0 := (pr_s0 pr).
  Notation s2 := (a_state a).

  Lemma core02 : Core s0 s2.
  Proof.
    destruct (analyse_inv2 _ _ _ _ An Prep AG FN) as (_ & ES). rewrite ES.
    apply (reach_core (j_env jb) (p_tags (pr_src pr)) (j_ic jb) (j_funcs jb)). apply passes_reach. exact FN.
  Qed.

  Lemma acc_nodups ps pd :
    parse_fields (j_env jb) (j_fuel jb) PSrc (j_src jb) true = Some ps ->
    parse_fields (j_env jb) (j_fuel jb) PDst (j_dst jb) false = Some pd ->
    NoDup (map ac_name (j_src_acc jb)) /\ NoDup (map ac_name (j_dst_acc jb)).
  Proof.
    intros Ps Pd. unfold acc_guard in AG. rewrite Ps, Pd in AG. destruct AG as (A & B).
    unfold acc_names_ok in A, B. split; eapply nodup_app_r; eauto.
  Qed.

  (* every ToX statement: its destination is a field of the destination side that is
     not a getter, its name and write path are in the table of that side *)
  Lemma to_stmt_facts st :
    In st (pl_stmts (a_to a)) ->
    exists i j, i < length (s_src s2) /\ j < length (s_dst s2)
      /\ st_dst st = ref_of (dst_at s2 j) /\ st_src st = ref_of (src_at s2 i)
      /\ f_isget (dst_at s2 j) = false
      /\ can_name_match (src_at s2 i) (dst_at s2 j) (p_tags (pr_src pr)) (j_ic jb) = true
      /\ In (dst_at s0 j) (s_dst s0) /\ core_eq (dst_at s0 j) (dst_at s2 j).
  Proof.
    intros Hst. destruct (analyse_inv2 _ _ _ _ An Prep AG FN) as (I2 & _).
    destruct (analyse_stmts _ _ _ An) as ((sp & need & E1) & _). rewrite E1 in Hst.
    apply to_stmts_in in Hst. destruct Hst as (i & j & h & Hi & T & Hh & ->).
    pose proof (i2_inv _ _ _ _ _ _ _ I2) as (IT & _).
    destruct (iv_tgt _ _ _ _ _ _ IT i j Hi T) as (Hj & _ & NM & _).
    pose proof core02 as (Ls & Ld & Cs & Cd).
    exists i, j. refine (conj Hi (conj Hj (conj eq_refl (conj eq_refl (conj _ (conj NM (conj _ _))))))).
    - apply (i2_get_to _ _ _ _ _ _ _ I2 i j Hi T).
    - apply nth_In. rewrite <- Ld. exact Hj.
    - apply Cd.
  Qed.

  Lemma from_stmt_facts st :
    In st (pl_stmts (a_from a)) ->
    exists i j, i < length (s_src s2) /\ j < length (s_dst s2)
      /\ st_dst st = ref_of (src_at s2 i) /\ st_src st = ref_of (dst_at s2 j)
      /\ f_isget (src_at s2 i) = false
      /\ can_name_match (src_at s2 i) (dst_at s2 j) (p_tags (pr_src pr)) (j_ic jb) = true
      /\ In (src_at s0 i) (s_src s0) /\ core_eq (src_at s0 i) (src_at s2 i).
  Proof.
    intros Hst. destruct (analyse_inv2 _ _ _ _ An Prep AG FN) as (I2 & _).
    destruct (analyse_stmts _ _ _ An) as (_ & (dp & need & E1)). rewrite E1 in Hst.
    apply from_stmts_in in Hst. destruct Hst as (j & i & h & Hj & T & Hh & ->).
    pose proof (i2_inv _ _ _ _ _ _ _ I2) as (_ & IFr).
    destruct (iv_tgt _ _ _ _ _ _ IFr j i Hj T) as (Hi & _ & NM & _).
    pose proof core02 as (Ls & Ld & Cs & Cd).
    exists i, j. refine (conj Hi (conj Hj (conj eq_refl (conj eq_refl (conj _ (conj NM (conj _ _))))))).
    - apply (i2_get_from _ _ _ _ _ _ _ I2 j i Hj T).
    - apply nth_In. rewrite <- Ls. exact Hi.
    - apply Cs.
  Qed.

  (* "writes it through its setters": a statement never writes through a getter; an
     accessor destination is a setter, and then the value does not come from a setter *)
  Theorem writes_through_setters :
    (forall st, In st (pl_stmts (a_to a)) ->
       exists sf df, In sf (s_src s2) /\ In df (s_dst s2) /\ st_src st = ref_of sf /\ st_dst st = ref_of df
                     /\ f_isget df = false /\ (r_acc (st_dst st) = true -> f_isset df = true /\ f_isset sf = false))
    /\ (forall st, In st (pl_stmts (a_from a)) ->
       exists sf df, In sf (s_src s2) /\ In df (s_dst s2) /\ st_src st = ref_of df /\ st_dst st = ref_of sf
                     /\ f_isget sf = false /\ (r_acc (st_dst st) = true -> f_isset sf = true /\ f_isset df = false)).
  Proof.
    split; intros st Hst.
    - destruct (to_stmt_facts st Hst) as (i & j & Hi & Hj & E1 & E2 & G & NM & _).
      exists (src_at s2 i), (dst_at s2 j).
      refine (conj (nth_In _ _ Hi) (conj (nth_In _ _ Hj) (conj E2 (conj E1 (conj G _))))).
      intros H. rewrite E1 in H. unfold ref_of in H. simpl in H. rewrite G in H. simpl in H. split; auto.
      unfold can_name_match in NM. destruct (f_isget (src_at s2 i) && f_isget (dst_at s2 j)); [discriminate|].
      rewrite H in NM. destruct (f_isset (src_at s2 i)); [simpl in NM; discriminate|reflexivity].
    - destruct (from_stmt_facts st Hst) as (i & j & Hi & Hj & E1 & E2 & G & NM & _).
      exists (src_at s2 i), (dst_at s2 j).
      refine (conj (nth_In _ _ Hi) (conj (nth_In _ _ Hj) (conj E2 (conj E1 (conj G _))))).
      intros H. rewrite E1 in H. unfold ref_of in H. simpl in H. rewrite G in H. simpl in H. split; auto.
      unfold can_name_match in NM. destruct (f_isget (src_at s2 i) && f_isget (dst_at s2 j)); [discriminate|].
      rewrite H in NM. destruct (f_isset (dst_at s2 j)); [simpl in NM; discriminate|reflexivity].
  Qed.

  Hypothesis TW : tables_wf jb = true.

  Lemma tables ps pd :
    parse_fields (j_env jb) (j_fuel jb) PSrc (j_src jb) true = Some ps ->
    parse_fields (j_env jb) (j_fuel jb) PDst (j_dst jb) false = Some pd ->
    path_det (writables (exported_of (p_fields pd)) (j_dst_acc jb) (j_dst_ctor jb)) = true
    /\ path_det (writables (exported_of (p_fields ps)) (j_src_acc jb) (j_src_ctor jb)) = true.
  Proof. intros Ps Pd. unfold tables_wf in TW. rewrite Ps, Pd in TW. apply andb_true_iff in TW. exact TW. Qed.

  Lemma exported_plain ps p0 n0 wt : parse_fields (j_env jb) (j_fuel jb) p0 n0 wt = Some ps -> Forall plainf (exported_of (p_fields ps)).
  Proof.
    intros P. pose proof (parse_plain _ _ _ _ _ _ P) as X. rewrite Forall_forall in *. intros f I.
    apply X. apply filter_In in I. tauto.
  Qed.

  Lemma to_stmt_table st ps pd :
    parse_fields (j_env jb) (j_fuel jb) PSrc (j_src jb) true = Some ps ->
    parse_fields (j_env jb) (j_fuel jb) PDst (j_dst jb) false = Some pd ->
    s_dst s0 = compatlize (exported_of (p_fields pd)) (j_dst_acc jb) ->
    In st (pl_stmts (a_to a)) ->
    exists p, write_path (j_dst_acc jb) (st_dst st) = Some p
              /\ In (r_name (st_dst st), p) (writables (exported_of (p_fields pd)) (j_dst_acc jb) (j_dst_ctor jb)).
  Proof.
    intros Ps Pd Ed Hst. destruct (to_stmt_facts st Hst) as (i & j & Hi & Hj & E1 & _ & G & _ & I0 & C0).
    rewrite E1. rewrite Ed in I0.
    apply (written_in_table _ _ (j_dst_ctor jb) (dst_at s0 j) (dst_at s2 j)); auto.
    - eapply exported_plain; eauto.
    - apply (acc_nodups ps pd Ps Pd).
  Qed.

  Lemma from_stmt_table st ps pd :
    parse_fields (j_env jb) (j_fuel jb) PSrc (j_src jb) true = Some ps ->
    parse_fields (j_env jb) (j_fuel jb) PDst (j_dst jb) false = Some pd ->
    s_src s0 = compatlize (exported_of (p_fields ps)) (j_src_acc jb) ->
    In st (pl_stmts (a_from a)) ->
    exists p, write_path (j_src_acc jb) (st_dst st) = Some p
              /\ In (r_name (st_dst st), p) (writables (exported_of (p_fields ps)) (j_src_acc jb) (j_src_ctor jb)).
  Proof.
    intros Ps Pd Es Hst. destruct (from_stmt_facts st Hst) as (i & j & Hi & Hj & E1 & _ & G & _ & I0 & C0).
    rewrite E1. rewrite Es in I0.
    apply (written_in_table _ _ (j_src_ctor jb) (src_at s0 i) (src_at s2 i)); auto.
    - eapply exported_plain; eauto.
    - apply (acc_nodups ps pd Ps Pd).
  Qed.

  (* "set exactly once", the at-most-once half, on STORAGE: the statements of ToX (of
     FromX) write pairwise distinct paths *)
  Theorem write_paths_once :
    NoDup (map (fun st => write_path (j_dst_acc jb) (st_dst st)) (pl_stmts (a_to a)))
    /\ NoDup (map (fun st => write_path (j_src_acc jb) (st_dst st)) (pl_stmts (a_from a))).
  Proof.
    destruct (prepare_sides _ _ Prep) as (ps & pd & Ps & Pd & Es & Ed).
    destruct (tables ps pd Ps Pd) as (Td & Ts).
    destruct (analyse_write_once _ _ _ An AG) as (N1 & N2).
    split.
    - apply (nodup_write_paths (j_dst_acc jb) _ _ N1 Td). intros st Hst. eapply to_stmt_table; eauto.
    - apply (nodup_write_paths (j_src_acc jb) _ _ N2 Ts). intros st Hst. eapply from_stmt_table; eauto.
  Qed.

  (* ... and none of them is the storage a constructor parameter received a mapped value for *)
  Theorem ctor_paths_disjoint :
    (forall st p, In st (pl_stmts (a_to a)) -> In p (pr_dctor pr) -> f_target p <> None -> f_backing p <> "" ->
                  write_path (j_dst_acc jb) (st_dst st) <> Some (f_path p))
    /\ (forall st p, In st (pl_stmts (a_from a)) -> In p (pr_sctor pr) -> f_target p <> None -> f_backing p <> "" ->
                     write_path (j_src_acc jb) (st_dst st) <> Some (f_path p)).
  Proof.
    destruct (prepare_sides _ _ Prep) as (ps & pd & Ps & Pd & Es & Ed).
    destruct (tables ps pd Ps Pd) as (Td & Ts).
    destruct (analyse_ctor_disjoint _ _ _ _ An Prep AG FN) as (D1 & D2 & D3 & D4).
    destruct (prepare_ctor _ _ Prep FN) as (PD & LD & _).
    destruct (prepare_ctor_src _ _ Prep FN) as (LS & PS).
    split; intros st p Hst Ip Tp Bk E.
    - destruct (to_stmt_table st ps pd Ps Pd Ed Hst) as (q & W & Iq). rewrite W in E. inversion E; subst q.
      destruct (In_nth _ _ fdummy Ip) as (k & Hk & Ek).
      destruct (PD k Hk) as (CE & _). unfold rd in CE. rewrite Ek in CE.
      rewrite (nth_map_dflt ctor_field (j_dst_ctor jb) cdummy fdummy k) in CE by (rewrite <- LD; exact Hk).
      destruct CE as (Cn & _ & _ & _ & Cb & Cp).
      assert (Ic : In (f_name p, f_path p) (writables (exported_of (p_fields pd)) (j_dst_acc jb) (j_dst_ctor jb))).
      { unfold writables. apply in_or_app. right. apply in_or_app. right. apply in_map_iff.
        exists (nth k (j_dst_ctor jb) cdummy). split; [rewrite Cn; f_equal; rewrite Cp; reflexivity|].
        apply filter_In. split; [apply nth_In; rewrite <- LD; exact Hk|].
        simpl in Cb. destruct (String.eqb_spec (cp_field (nth k (j_dst_ctor jb) cdummy)) ""); auto. congruence. }
      pose proof (path_det_spec _ _ _ _ _ Td Iq Ic eq_refl) as En.
      pose proof (D1 st Hst) as X. pose proof (D3 p Ip Tp) as Y. rewrite En in X. congruence.
    - destruct (from_stmt_table st ps pd Ps Pd Es Hst) as (q & W & Iq). rewrite W in E. inversion E; subst q.
      destruct (In_nth _ _ fdummy Ip) as (k & Hk & Ek).
      destruct (PS k Hk) as (CE & _). unfold rd in CE. rewrite Ek in CE.
      rewrite (nth_map_dflt ctor_field (j_src_ctor jb) cdummy fdummy k) in CE by (rewrite <- LS; exact Hk).
      destruct CE as (Cn & _ & _ & _ & Cb & Cp).
      assert (Ic : In (f_name p, f_path p) (writables (exported_of (p_fields ps)) (j_src_acc jb) (j_src_ctor jb))).
      { unfold writables. apply in_or_app. right. apply in_or_app. right. apply in_map_iff.
        exists (nth k (j_src_ctor jb) cdummy). split; [rewrite Cn; f_equal; rewrite Cp; reflexivity|].
        apply filter_In. split; [apply nth_In; rewrite <- LS; exact Hk|].
        simpl in Cb. destruct (String.eqb_spec (cp_field (nth k (j_src_ctor jb) cdummy)) ""); auto. congruence. }
      pose proof (path_det_spec _ _ _ _ _ Ts Iq Ic eq_refl) as En.
      pose proof (D2 st Hst) as X. pose proof (D4 p Ip Tp) as Y. rewrite En in X. congruence.
  Qed.
End Job.
