(* newBodyRec decodes the pre-order list back into the embedding tree, and the
   composite literal it emits evaluates to the expected nested struct value.

   lits_type / lits_fields   : the literal, generated directly from the struct graph
   decode_fields, decode_top : new_body_rec (marked raw list) = that literal
   expect_type / expect_*    : the value, given directly from the struct graph
   eval_fields, eval_top     : eval (literal) = expected value *)
From Coq Require Import String Ascii List Bool Arith ZArith Lia.
From Shoot Require Import Base.Str Base.GoVal Model.Transfer Model.CtorDirective Model.Ctor Model.CtorSpec.
From Shoot Require Import Proofs.GoValProofs Proofs.CtorFlattenProofs Proofs.CtorResolveProofs.
Import ListNotations.
Local Open Scope list_scope.

(* an entry transformer that at most sets the shadow flag *)
Definition keeps (g : field -> field) : Prop := forall e, g e = e \/ g e = set_shadowed e.

Lemma mark_with_keeps : forall l, keeps (mark_with l).
Proof. intros l e. unfold mark_with. destruct (shadowed_in l e); auto. Qed.

Ltac keep g e H := destruct (H e) as [?K|?K]; rewrite ?K; simpl.

(* the literal element of one leaf entry (newBodyRec's else branch) *)
Definition leaf_item (nm : list (ident * string)) (f : field) : list lit :=
  match assoc (f_name f) nm with
  | Some p => if negb (f_shadowed f) then [LField (f_name f) (EParam p)]
              else if negb (String.eqb (f_def f) "") then [LField (f_name f) (EDef (f_def f))] else []
  | None => if negb (String.eqb (f_def f) "") then [LField (f_name f) (EDef (f_def f))] else []
  end.

Definition lits_fields_with (lt : nat -> path -> ty -> bool -> option (list lit)) (g : field -> field)
           (nm : list (ident * string)) (depth : nat) (pre : path) (is_new : bool)
  : list tfield -> option (list lit) :=
  fix go (fs : list tfield) : option (list lit) :=
    match fs with
    | [] => Some []
    | (n, ft, emb) :: fs' =>
        match (if emb : bool then lt depth pre ft is_new
               else Some (leaf_item nm (g (promoted_entry n ft depth is_new pre)))), go fs' with
        | Some a, Some b => Some (a ++ b)
        | _, _ => None
        end
    end.

Fixpoint lits_type (pkg : pkg_spec) (fuel : nat) (g : field -> field) (nm : list (ident * string))
         (depth : nat) (pre : path) (t : ty) (is_new : bool) : option (list lit) :=
  match struct_of pkg t with
  | None => Some []
  | Some si =>
      match fuel with
      | O => None
      | S fuel' =>
          let e := embedded_entry t depth pre in
          option_map (fun kids => [LEmbed (f_name e) (f_ptr e) (f_ty e) (f_qtype e) kids])
            (lits_fields_with (lits_type pkg fuel' g nm) g nm (S depth) (f_path e) is_new (struct_fields si))
      end
  end.

Definition lits_fields (pkg : pkg_spec) (fuel : nat) (g : field -> field) (nm : list (ident * string)) :=
  lits_fields_with (lits_type pkg fuel g nm) g nm.

Lemma lits_fields_cons : forall pkg fuel g nm depth pre is_new n ft emb fs,
  lits_fields pkg fuel g nm depth pre is_new ((n, ft, emb) :: fs) =
  match (if emb : bool then lits_type pkg fuel g nm depth pre ft is_new
         else Some (leaf_item nm (g (promoted_entry n ft depth is_new pre)))),
        lits_fields pkg fuel g nm depth pre is_new fs with
  | Some a, Some b => Some (a ++ b)
  | _, _ => None
  end.
Proof. reflexivity. Qed.

Lemma lits_type_unfold : forall pkg fuel g nm depth pre t is_new,
  lits_type pkg fuel g nm depth pre t is_new =
  match struct_of pkg t with
  | None => Some []
  | Some si =>
      match fuel with
      | O => None
      | S fuel' =>
          let e := embedded_entry t depth pre in
          option_map (fun kids => [LEmbed (f_name e) (f_ptr e) (f_ty e) (f_qtype e) kids])
            (lits_fields pkg fuel' g nm (S depth) (f_path e) is_new (struct_fields si))
      end
  end.
Proof. intros. destruct fuel; reflexivity. Qed.

(* the stop condition of newBodyRec at the head of the remaining list *)
Definition stops (z : Z) (rest : list field) : Prop :=
  match rest with [] => True | r :: _ => (Z.of_nat (f_depth r) <= z)%Z end.

Lemma nbr_stop : forall k rest z nm, stops z rest -> new_body_rec (S k) rest z nm = ([], rest).
Proof.
  intros k rest z nm H. destruct rest as [|r rest]; simpl; auto.
  simpl in H. apply Z.leb_le in H. rewrite H. reflexivity.
Qed.

Lemma raw_fields_head_depth : forall pkg fuel depth pre is_new fs x l,
  raw_fields pkg fuel depth pre is_new fs = Some (x :: l) -> f_depth x = depth.
Proof.
  intros pkg fuel depth pre is_new fs. induction fs as [|[[n ft] emb] fs IH]; intros x l H.
  - inversion H.
  - rewrite raw_fields_cons in H. destruct emb.
    + destruct (raw_type pkg fuel depth pre ft is_new) as [a|] eqn:Ea; [|discriminate].
      destruct (raw_fields pkg fuel depth pre is_new fs) as [b|] eqn:Eb; [|discriminate].
      rewrite raw_type_unfold in Ea. destruct (struct_of pkg ft) as [si|].
      * destruct fuel; [discriminate|].
        destruct (raw_fields pkg fuel (S depth) _ is_new (struct_fields si)); [|discriminate].
        inversion Ea; subst a. inversion H; subst. apply embedded_entry_depth.
      * inversion Ea; subst a. simpl in H. eapply IH; eauto.
    + destruct (raw_fields pkg fuel depth pre is_new fs) as [b|] eqn:Eb; [|discriminate].
      inversion H; subst. reflexivity.
Qed.

Lemma stops_after_fields : forall pkg fuel depth pre is_new fs b g rest,
  raw_fields pkg fuel depth pre is_new fs = Some b -> keeps g ->
  stops (Z.of_nat depth - 1) rest -> stops (Z.of_nat depth) (map g b ++ rest).
Proof.
  intros pkg fuel depth pre is_new fs b g rest H K St. destruct b as [|x b]; simpl.
  - destruct rest; simpl in *; auto. lia.
  - assert (f_depth (g x) = f_depth x) by (destruct (K x) as [E|E]; rewrite E; reflexivity).
    rewrite H0, (raw_fields_head_depth _ _ _ _ _ _ _ _ H). lia.
Qed.

Lemma nbr_leaf : forall k e rest z nm,
  f_embedded e = false -> (z < Z.of_nat (f_depth e))%Z ->
  new_body_rec (S k) (e :: rest) z nm =
  (leaf_item nm e ++ fst (new_body_rec k rest z nm), snd (new_body_rec k rest z nm)).
Proof.
  intros k e rest z nm He Hz. cbn [new_body_rec].
  replace (Z.leb (Z.of_nat (f_depth e)) z) with false by (symmetry; apply Z.leb_gt; lia).
  rewrite He. unfold leaf_item.
  destruct (new_body_rec k rest z nm) as [more rest1]. reflexivity.
Qed.

Lemma nbr_embed : forall k e rest z nm,
  f_embedded e = true -> (z < Z.of_nat (f_depth e))%Z ->
  new_body_rec (S k) (e :: rest) z nm =
  let r1 := new_body_rec k rest (Z.of_nat (f_depth e)) nm in
  let r2 := new_body_rec k (snd r1) z nm in
  (LEmbed (f_name e) (f_ptr e) (f_ty e) (f_qtype e) (fst r1) :: fst r2, snd r2).
Proof.
  intros k e rest z nm He Hz. cbn [new_body_rec].
  replace (Z.leb (Z.of_nat (f_depth e)) z) with false by (symmetry; apply Z.leb_gt; lia).
  rewrite He.
  destruct (new_body_rec k rest (Z.of_nat (f_depth e)) nm) as [kids rest1]. cbn [fst snd].
  destruct (new_body_rec k rest1 z nm) as [more rest2]. reflexivity.
Qed.

(* decoding of the entries of one struct's field list *)
Lemma decode_fields : forall pkg g nm, keeps g -> forall fuel depth pre is_new fs l rest k,
  raw_fields pkg fuel depth pre is_new fs = Some l ->
  stops (Z.of_nat depth - 1) rest ->
  length l + length rest < k ->
  exists lits, lits_fields pkg fuel g nm depth pre is_new fs = Some lits /\
               new_body_rec k (map g l ++ rest) (Z.of_nat depth - 1) nm = (lits, rest).
Proof.
  intros pkg g nm K fuel. induction fuel as [|fuel IHf]; intros depth pre is_new fs;
    induction fs as [|[[n ft] emb] fs IH]; intros l rest k H St Hk.
  - inversion H; subst. exists []. split; auto. destruct k; [simpl in Hk; lia|]. apply nbr_stop. exact St.
  - rewrite raw_fields_cons in H. rewrite lits_fields_cons. destruct emb.
    + rewrite raw_type_unfold in H. rewrite lits_type_unfold.
      destruct (struct_of pkg ft); [discriminate|].
      destruct (raw_fields pkg 0 depth pre is_new fs) as [b|] eqn:Eb; [|discriminate].
      inversion H; subst l. simpl app. destruct (IH b rest k eq_refl St Hk) as [lits [E1 E2]].
      exists lits. rewrite E1. split; auto.
    + destruct (raw_fields pkg 0 depth pre is_new fs) as [b|] eqn:Eb; [|discriminate].
      inversion H; subst l. cbn [map app] in *.
      destruct k; [simpl in Hk; lia|].
      destruct (IH b rest k eq_refl St) as [lits [E1 E2]]; [simpl in Hk; lia|].
      rewrite E1. eexists. split; [reflexivity|].
      set (e := promoted_entry n ft depth is_new pre).
      assert (He : f_embedded (g e) = false) by (destruct (K e) as [E|E]; rewrite E; reflexivity).
      assert (Hd : f_depth (g e) = depth) by (destruct (K e) as [E|E]; rewrite E; reflexivity).
      rewrite nbr_leaf by (auto; lia). rewrite E2. reflexivity.
  - inversion H; subst. exists []. split; auto. destruct k; [simpl in Hk; lia|]. apply nbr_stop. exact St.
  - rewrite raw_fields_cons in H. rewrite lits_fields_cons. destruct emb.
    + rewrite raw_type_unfold in H. rewrite lits_type_unfold.
      destruct (struct_of pkg ft) as [si|].
      * set (e := embedded_entry ft depth pre) in *. cbv zeta.
        destruct (raw_fields pkg fuel (S depth) (f_path e) is_new (struct_fields si)) as [l'|] eqn:El; [|discriminate].
        cbn [option_map] in H.
        destruct (raw_fields pkg (S fuel) depth pre is_new fs) as [b|] eqn:Eb; [|discriminate].
        inversion H; subst l. cbn [map app] in *. rewrite map_app, <- app_assoc.
        destruct k; [simpl in Hk; lia|].
        simpl in Hk. rewrite app_length in Hk.
        assert (S2 : stops (Z.of_nat (S depth) - 1) (map g b ++ rest)).
        { replace (Z.of_nat (S depth) - 1)%Z with (Z.of_nat depth) by lia.
          eapply stops_after_fields; eauto. }
        destruct (IHf (S depth) (f_path e) is_new (struct_fields si) l' (map g b ++ rest) k El S2)
          as [kids [E1 E2]].
        { rewrite app_length, map_length. lia. }
        destruct (IH b rest k eq_refl St) as [more [E3 E4]]; [lia|].
        rewrite E1, E3. cbn [option_map]. eexists. split; [reflexivity|].
        assert (He : f_embedded (g e) = true).
        { destruct (K e) as [E|E]; rewrite E; unfold e; simpl; apply embedded_entry_emb. }
        assert (Hd : f_depth (g e) = depth).
        { destruct (K e) as [E|E]; rewrite E; unfold e; simpl; apply embedded_entry_depth. }
        rewrite nbr_embed by (auto; lia). rewrite Hd.
        replace (Z.of_nat (S depth) - 1)%Z with (Z.of_nat depth) in E2 by lia.
        rewrite E2. cbn [fst snd]. rewrite E4. cbn [fst snd app].
        destruct (K e) as [E|E]; rewrite E; reflexivity.
      * destruct (raw_fields pkg (S fuel) depth pre is_new fs) as [b|] eqn:Eb; [|discriminate].
        inversion H; subst l. simpl app. destruct (IH b rest k eq_refl St Hk) as [lits [E1 E2]].
        exists lits. rewrite E1. split; auto.
    + destruct (raw_fields pkg (S fuel) depth pre is_new fs) as [b|] eqn:Eb; [|discriminate].
      inversion H; subst l. cbn [map app] in *.
      destruct k; [simpl in Hk; lia|].
      destruct (IH b rest k eq_refl St) as [lits [E1 E2]]; [simpl in Hk; lia|].
      rewrite E1. eexists. split; [reflexivity|].
      set (e := promoted_entry n ft depth is_new pre).
      assert (He : f_embedded (g e) = false) by (destruct (K e) as [E|E]; rewrite E; reflexivity).
      assert (Hd : f_depth (g e) = depth) by (destruct (K e) as [E|E]; rewrite E; reflexivity).
      rewrite nbr_leaf by (auto; lia). rewrite E2. reflexivity.
Qed.

(* ------------------------------------------------------------ top level decode *)
Definition lits_decl (pkg : pkg_spec) (fl : ctor_flags) (fuel : nat) (g : field -> field)
           (nm : list (ident * string)) (fd : fdecl) : option (list lit) :=
  let is_new := parse_new_comment (fd_doc fd) in
  match fd_names fd with
  | [] => lits_type pkg fuel g nm 0 [] (fd_ty fd) is_new
  | names => match raw_names fl fd is_new names with
             | COk a => Some (flat_map (fun e => leaf_item nm (g e)) a)
             | _ => None
             end
  end.

Fixpoint lits_top (pkg : pkg_spec) (fl : ctor_flags) (fuel : nat) (g : field -> field)
         (nm : list (ident * string)) (fds : list fdecl) : option (list lit) :=
  match fds with
  | [] => Some []
  | fd :: r => match lits_decl pkg fl fuel g nm fd, lits_top pkg fl fuel g nm r with
               | Some a, Some b => Some (a ++ b)
               | _, _ => None
               end
  end.

Lemma raw_decl_all_depth0_or_deeper : forall pkg fl fuel fd a x l,
  raw_decl pkg fl fuel fd = COk a -> a = x :: l -> f_depth x = 0.
Proof.
  intros pkg fl fuel fd a x l H E. subst a. unfold raw_decl in H. destruct (fd_names fd) eqn:EN.
  - destruct (raw_type pkg fuel 0 [] (fd_ty fd) (parse_new_comment (fd_doc fd))) as [l0|] eqn:Er; [|discriminate].
    inversion H; subst l0. rewrite raw_type_unfold in Er.
    destruct (struct_of pkg (fd_ty fd)); [|discriminate].
    destruct fuel; [discriminate|].
    destruct (raw_fields pkg fuel 1 _ _ (struct_fields s)); [|discriminate].
    inversion Er. apply embedded_entry_depth.
  - destruct (raw_names_facts _ _ _ _ _ x H (or_introl eq_refl)) as [Hd _]. exact Hd.
Qed.

Lemma raw_top_head_depth : forall pkg fl fuel fds x l,
  raw_top pkg fl fuel fds = COk (x :: l) -> f_depth x = 0.
Proof.
  intros pkg fl fuel fds. induction fds as [|fd fds IH]; intros x l H; simpl in H; [discriminate|].
  destruct (raw_decl pkg fl fuel fd) as [a| |] eqn:Ea; try discriminate.
  destruct (raw_top pkg fl fuel fds) as [b| |] eqn:Eb; try discriminate.
  inversion H. destruct a as [|y a'].
  - simpl in H1. subst b. eapply IH; eauto.
  - simpl in H1. inversion H1; subst. eapply raw_decl_all_depth0_or_deeper; eauto.
Qed.

Lemma stops_top : forall pkg fl fuel fds b g rest,
  raw_top pkg fl fuel fds = COk b -> keeps g -> rest = [] -> stops 0 (map g b ++ rest).
Proof.
  intros pkg fl fuel fds b g rest H K Hr. subst rest. destruct b as [|x b]; simpl; auto.
  assert (f_depth (g x) = f_depth x) by (destruct (K x) as [E|E]; rewrite E; reflexivity).
  rewrite H0, (raw_top_head_depth _ _ _ _ _ _ H). lia.
Qed.

(* a run of top-level leaf entries *)
Lemma nbr_leaves : forall g nm, keeps g -> forall a k tail,
  (forall e, In e a -> f_embedded e = false) ->
  length a + length tail < k ->
  new_body_rec k (map g a ++ tail) (-1) nm =
  (flat_map (fun e => leaf_item nm (g e)) a ++ fst (new_body_rec (k - length a) tail (-1) nm),
   snd (new_body_rec (k - length a) tail (-1) nm)).
Proof.
  intros g nm K a. induction a as [|e a IH]; intros k tail Hemb Hk.
  - simpl. rewrite Nat.sub_0_r. destruct (new_body_rec k tail (-1) nm). reflexivity.
  - simpl in Hk. destruct k; [lia|]. cbn [map app flat_map length].
    assert (He : f_embedded (g e) = false).
    { destruct (K e) as [E|E]; rewrite E; simpl; apply Hemb; left; reflexivity. }
    rewrite nbr_leaf by (auto; lia).
    rewrite IH; [|intros e' He'; apply Hemb; right; exact He'|lia].
    cbn [fst snd]. rewrite <- app_assoc. reflexivity.
Qed.

Lemma decode_top : forall pkg fl fuel g nm, keeps g -> forall fds raw k,
  raw_top pkg fl fuel fds = COk raw -> length raw < k ->
  exists lits, lits_top pkg fl fuel g nm fds = Some lits /\
               new_body_rec k (map g raw) (-1) nm = (lits, []).
Proof.
  intros pkg fl fuel g nm K fds. induction fds as [|fd fds IH]; intros raw k H Hk; simpl in H.
  - inversion H; subst. exists []. split; auto. destruct k; [simpl in Hk; lia|]. reflexivity.
  - destruct (raw_decl pkg fl fuel fd) as [a| |] eqn:Ea; try discriminate.
    destruct (raw_top pkg fl fuel fds) as [b| |] eqn:Eb; try discriminate.
    inversion H; subst raw. rewrite app_length in Hk. cbn [lits_top].
    unfold lits_decl. unfold raw_decl in Ea.
    destruct (fd_names fd) as [|x names] eqn:EN.
    + (* embedded declaration *)
      destruct (raw_type pkg fuel 0 [] (fd_ty fd) (parse_new_comment (fd_doc fd))) as [l0|] eqn:Er; [|discriminate].
      inversion Ea; subst l0. rewrite raw_type_unfold in Er. rewrite lits_type_unfold.
      destruct (struct_of pkg (fd_ty fd)) as [si|].
      * destruct fuel as [|fuel']; [discriminate|].
        set (e := embedded_entry (fd_ty fd) 0 []) in *. cbv zeta.
        destruct (raw_fields pkg fuel' 1 (f_path e) (parse_new_comment (fd_doc fd)) (struct_fields si)) as [l'|] eqn:El; [|discriminate].
        inversion Er; subst a. cbn [map app length] in *. rewrite map_app.
        destruct k; [lia|].
        assert (S2 : stops (Z.of_nat 1 - 1) (map g b ++ [])).
        { eapply stops_top; eauto. }
        destruct (decode_fields pkg g nm K fuel' 1 (f_path e) (parse_new_comment (fd_doc fd))
                    (struct_fields si) l' (map g b ++ []) k El S2) as [kids [E1 E2]].
        { rewrite app_length, map_length. simpl. lia. }
        destruct (IH b k eq_refl) as [more [E3 E4]]; [lia|].
        rewrite E1, E3. cbn [option_map]. eexists. split; [reflexivity|].
        assert (He : f_embedded (g e) = true).
        { destruct (K e) as [E|E]; rewrite E; unfold e; simpl; apply embedded_entry_emb. }
        assert (Hd : f_depth (g e) = 0).
        { destruct (K e) as [E|E]; rewrite E; unfold e; simpl; apply embedded_entry_depth. }
        rewrite nbr_embed by (auto; lia). rewrite Hd.
        rewrite app_nil_r in E2. simpl Z.sub in E2. change (Z.of_nat 0) with 0%Z. cbv zeta. rewrite E2. cbn [fst snd]. rewrite E4. cbn [fst snd app].
        destruct (K e) as [E|E]; rewrite E; reflexivity.
      * inversion Er; subst a. simpl in *. destruct (IH b k eq_refl Hk) as [more [E3 E4]].
        rewrite E3. exists more. split; auto.
    + (* named declaration: a run of leaves *)
      rewrite Ea. destruct (IH b (k - length a) eq_refl) as [more [E3 E4]]; [lia|].
      rewrite E3. eexists. split; [reflexivity|].
      rewrite map_app. rewrite (nbr_leaves g nm K a k (map g b)).
      * rewrite E4. reflexivity.
      * intros e He. destruct (raw_names_facts _ _ _ _ _ _ Ea He) as [_ [_ [Hemb _]]]. exact Hemb.
      * rewrite map_length. lia.
Qed.

(* ------------------------------------------------------ the expected value *)
Definition dv (e : field) : val := if String.eqb (f_def e) "" then VZero else VDef (f_def e).
Definition leafv (nm : list (ident * string)) (args : ident -> val) (e : field) : val :=
  match assoc (f_name e) nm with
  | Some p => if negb (f_shadowed e) then args p else dv e
  | None => dv e
  end.

Definition wrap_ptr (b : bool) (kv : list (ident * val)) : val := if b then VPtr (VStruct kv) else VStruct kv.

Definition expect_fields_with (xt : nat -> path -> ty -> bool -> option val) (g : field -> field)
           (nm : list (ident * string)) (args : ident -> val) (depth : nat) (pre : path) (is_new : bool)
  : list tfield -> option (list (ident * val)) :=
  fix go (fs : list tfield) : option (list (ident * val)) :=
    match fs with
    | [] => Some []
    | (n, ft, emb) :: fs' =>
        match (if emb : bool then xt depth pre ft is_new
               else Some (leafv nm args (g (promoted_entry n ft depth is_new pre)))), go fs' with
        | Some x, Some r => Some ((n, x) :: r)
        | _, _ => None
        end
    end.

Fixpoint expect_type (pkg : pkg_spec) (fuel : nat) (g : field -> field) (nm : list (ident * string))
         (args : ident -> val) (depth : nat) (pre : path) (t : ty) (is_new : bool) : option val :=
  match struct_of pkg t with
  | None => Some VZero
  | Some si =>
      match fuel with
      | O => None
      | S fuel' =>
          let e := embedded_entry t depth pre in
          option_map (wrap_ptr (f_ptr e))
            (expect_fields_with (expect_type pkg fuel' g nm args) g nm args (S depth) (f_path e) is_new
               (struct_fields si))
      end
  end.

Definition expect_fields (pkg : pkg_spec) (fuel : nat) (g : field -> field) (nm : list (ident * string))
           (args : ident -> val) := expect_fields_with (expect_type pkg fuel g nm args) g nm args.

Lemma expect_fields_cons : forall pkg fuel g nm args depth pre is_new n ft emb fs,
  expect_fields pkg fuel g nm args depth pre is_new ((n, ft, emb) :: fs) =
  match (if emb : bool then expect_type pkg fuel g nm args depth pre ft is_new
         else Some (leafv nm args (g (promoted_entry n ft depth is_new pre)))),
        expect_fields pkg fuel g nm args depth pre is_new fs with
  | Some x, Some r => Some ((n, x) :: r)
  | _, _ => None
  end.
Proof. reflexivity. Qed.

Lemma expect_type_unfold : forall pkg fuel g nm args depth pre t is_new,
  expect_type pkg fuel g nm args depth pre t is_new =
  match struct_of pkg t with
  | None => Some VZero
  | Some si =>
      match fuel with
      | O => None
      | S fuel' =>
          let e := embedded_entry t depth pre in
          option_map (wrap_ptr (f_ptr e))
            (expect_fields pkg fuel' g nm args (S depth) (f_path e) is_new (struct_fields si))
      end
  end.
Proof. intros. destruct fuel; reflexivity. Qed.

(* ------------------------------------------------------------- evaluation *)
Lemma eval_elems_app : forall pkg zf args a b v,
  eval_elems pkg zf args (a ++ b) v = bind (eval_elems pkg zf args a v) (eval_elems pkg zf args b).
Proof.
  intros pkg zf args a. induction a as [|l a IH]; intros b v; simpl; auto.
  destruct (eval_lit pkg zf args l v); simpl; auto.
Qed.

Lemma eval_lit_embed : forall pkg zf args n amp t q kids v,
  eval_lit pkg zf args (LEmbed n amp t q kids) v =
  match struct_of pkg t with
  | None => Stuck
  | Some si => bind (eval_elems pkg zf args kids (zero_struct pkg zf si))
                    (fun x => set_sel v n (if amp then VPtr x else x))
  end.
Proof.
  intros. cbn [eval_lit]. destruct (struct_of pkg t); auto. f_equal.
  generalize (zero_struct pkg zf s). induction kids as [|k ks IH]; intros x; simpl; auto.
  destruct (eval_lit pkg zf args k x); simpl; auto.
Qed.

Lemma assoc_app_notin : forall A k (a b : list (ident * A)), ~ In k (map fst a) -> assoc k (a ++ b) = assoc k b.
Proof.
  intros A k a b. induction a as [|[k' x] a IH]; simpl; auto. intros H.
  destruct (String.eqb k k') eqn:E.
  - apply String.eqb_eq in E. subst. exfalso. auto.
  - apply IH. auto.
Qed.

Lemma assoc_set_app_notin : forall A k (x : A) (a b : list (ident * A)),
  ~ In k (map fst a) -> assoc_set k x (a ++ b) = a ++ assoc_set k x b.
Proof.
  intros A k x a b. induction a as [|[k' y] a IH]; simpl; auto. intros H.
  destruct (String.eqb k k') eqn:E.
  - apply String.eqb_eq in E. subst. exfalso. auto.
  - rewrite IH; auto.
Qed.

Lemma set_sel_mid : forall done n z x zs, ~ In n (map fst done) ->
  set_sel (VStruct (done ++ (n, z) :: zs)) n x = Ok (VStruct (done ++ (n, x) :: zs)).
Proof.
  intros done n z x zs H. unfold set_sel, has_key.
  rewrite assoc_app_notin by exact H. simpl. rewrite String.eqb_refl.
  rewrite assoc_set_app_notin by exact H. simpl. rewrite String.eqb_refl. reflexivity.
Qed.

Lemma sel_mid : forall (done : list (ident * val)) n (x : val) zs, ~ In n (map fst done) ->
  assoc n (done ++ (n, x) :: zs) = Some x.
Proof. intros. rewrite assoc_app_notin by auto. simpl. rewrite String.eqb_refl. reflexivity. Qed.

(* what the zero value must provide for the fields still to be assigned *)
Definition zero_ok (pkg : pkg_spec) (tf : tfield) (kz : ident * val) : Prop :=
  fst kz = tf_name tf /\
  (snd tf = false -> snd kz = VZero) /\
  (snd tf = true -> struct_of pkg (snd (fst tf)) = None -> snd kz = VZero).

Lemma zero_struct_ok : forall pkg zf si, exists zs,
  zero_struct pkg zf si = VStruct zs /\ Forall2 (zero_ok pkg) (struct_fields si) zs.
Proof.
  intros pkg zf si. destruct zf; simpl; eexists; (split; [reflexivity|]).
  - induction (struct_fields si) as [|[[n ft] emb] l IH]; simpl; constructor; auto.
    unfold zero_ok, tf_name. simpl. split; auto. split.
    + intros E; subst. reflexivity.
    + intros E Hs; subst. rewrite Hs. reflexivity.
  - induction (struct_fields si) as [|[[n ft] emb] l IH]; simpl; constructor; auto.
    unfold zero_ok, tf_name. simpl. split; auto. split.
    + intros E; subst. reflexivity.
    + intros E Hs; subst. rewrite Hs. reflexivity.
Qed.

(* every struct reached through embedding has distinct field names *)
Definition distinct_ok (pkg : pkg_spec) (o : path * tfield) : Prop :=
  occ_emb o = true -> forall si, struct_of pkg (occ_ty o) = Some si -> NoDup (map tf_name (struct_fields si)).
Definition closure_distinct (pkg : pkg_spec) (fs : list tfield) (pre : path) : Prop :=
  forall j o, In o (level_fields pkg j fs pre) -> distinct_ok pkg o.

Lemma closure_distinct_tail : forall pkg x fs pre, closure_distinct pkg (x :: fs) pre -> closure_distinct pkg fs pre.
Proof.
  intros pkg x fs pre H j o Hin. apply (H j o). rewrite level_fields_cons. apply in_or_app. right. exact Hin.
Qed.

Lemma closure_distinct_child : forall pkg nm ft fs pre si,
  closure_distinct pkg ((nm, ft, true) :: fs) pre -> struct_of pkg ft = Some si ->
  closure_distinct pkg (struct_fields si) (pre ++ [nm]) /\ NoDup (map tf_name (struct_fields si)).
Proof.
  intros pkg nm ft fs pre si H Hs. split.
  - intros j o Hin. apply (H (S j) o).
    rewrite level_fields_cons. apply in_or_app. left. simpl. rewrite Hs, app_nil_r. exact Hin.
  - apply (H 0 (pre ++ [nm], (nm, ft, true))); [simpl; left; reflexivity|reflexivity|exact Hs].
Qed.

Lemma eval_leaf_item : forall pkg zf args nm e done zs,
  ~ In (f_name e) (map fst done) ->
  eval_elems pkg zf args (leaf_item nm e) (VStruct (done ++ (f_name e, VZero) :: zs)) =
  Ok (VStruct (done ++ (f_name e, leafv nm args e) :: zs)).
Proof.
  intros pkg zf args nm e done zs H. unfold leaf_item, leafv, dv.
  destruct (assoc (f_name e) nm) as [p|].
  - destruct (negb (f_shadowed e)).
    + cbn [eval_elems eval_lit eval_expr]. rewrite set_sel_mid by exact H. reflexivity.
    + destruct (String.eqb (f_def e) ""); cbn [negb eval_elems eval_lit eval_expr]; auto.
      rewrite set_sel_mid by exact H. reflexivity.
  - destruct (String.eqb (f_def e) ""); cbn [negb eval_elems eval_lit eval_expr]; auto.
    rewrite set_sel_mid by exact H. reflexivity.
Qed.

Lemma eval_fields : forall pkg g nm args zf, keeps g -> forall fuel depth pre is_new fs lits done zs tail,
  lits_fields pkg fuel g nm depth pre is_new fs = Some lits ->
  Forall2 (zero_ok pkg) fs zs ->
  NoDup (map fst done ++ map tf_name fs) ->
  closure_distinct pkg fs pre ->
  emb_named fs ->
  exists kv, expect_fields pkg fuel g nm args depth pre is_new fs = Some kv /\
             eval_elems pkg zf args lits (VStruct (done ++ zs ++ tail)) = Ok (VStruct (done ++ kv ++ tail)).
Proof.
  intros pkg g nm args zf K fuel. induction fuel as [|fuel IHf]; intros depth pre is_new fs;
    induction fs as [|[[n ft] emb] fs IH]; intros lits done zs tail H Z ND CD EN.
  - inversion H; subst. inversion Z; subst. exists []. split; auto.
  - rewrite lits_fields_cons in H. rewrite expect_fields_cons.
    inversion Z as [|tf kz fs0 zs0 Hz Z0]; subst. destruct kz as [k z]. destruct Hz as [Hk [Hz1 Hz2]].
    cbn [fst snd tf_name] in *. subst k.
    assert (Hn : ~ In n (map fst done)).
    { intros Hin. apply NoDup_remove_2 in ND. apply ND. apply in_or_app. left. exact Hin. }
    assert (ND' : NoDup (map fst (done ++ [(n, z)]) ++ map tf_name fs)).
    { rewrite map_app, <- app_assoc. exact ND. }
    destruct emb.
    + rewrite lits_type_unfold in H. rewrite expect_type_unfold.
      destruct (struct_of pkg ft) eqn:Es; [discriminate|].
      destruct (lits_fields pkg 0 g nm depth pre is_new fs) as [b|] eqn:Eb; [|discriminate].
      inversion H; subst lits. rewrite (Hz2 eq_refl eq_refl).
      destruct (IH b (done ++ [(n, VZero)]) zs0 tail eq_refl Z0) as [kv [E1 E2]].
      { rewrite map_app, <- app_assoc. rewrite (Hz2 eq_refl eq_refl) in ND'. rewrite map_app, <- app_assoc in ND'. exact ND'. }
      { eapply closure_distinct_tail; eauto. } { eapply emb_named_tail; eauto. }
      rewrite E1. eexists. split; [reflexivity|].
      rewrite <- !app_assoc in E2. simpl in E2. simpl app. exact E2.
    + destruct (lits_fields pkg 0 g nm depth pre is_new fs) as [b|] eqn:Eb; [|discriminate].
      inversion H; subst lits. rewrite (Hz1 eq_refl) in *.
      set (e := promoted_entry n ft depth is_new pre).
      assert (Hne : f_name (g e) = n) by (destruct (K e) as [E|E]; rewrite E; reflexivity).
      destruct (IH b (done ++ [(n, leafv nm args (g e))]) zs0 tail eq_refl Z0) as [kv [E1 E2]].
      { rewrite map_app, <- app_assoc. simpl. rewrite map_app, <- app_assoc in ND'. exact ND'. }
      { eapply closure_distinct_tail; eauto. } { eapply emb_named_tail; eauto. }
      rewrite E1. eexists. split; [reflexivity|].
      rewrite eval_elems_app. cbn [app]. rewrite <- Hne at 1 2.
      rewrite eval_leaf_item by (rewrite Hne; exact Hn). cbn [bind].
      rewrite Hne. rewrite <- !app_assoc in E2. simpl in E2. exact E2.
  - inversion H; subst. inversion Z; subst. exists []. split; auto.
  - rewrite lits_fields_cons in H. rewrite expect_fields_cons.
    inversion Z as [|tf kz fs0 zs0 Hz Z0]; subst. destruct kz as [k z]. destruct Hz as [Hk [Hz1 Hz2]].
    cbn [fst snd tf_name] in *. subst k.
    assert (Hn : ~ In n (map fst done)).
    { intros Hin. apply NoDup_remove_2 in ND. apply ND. apply in_or_app. left. exact Hin. }
    assert (ND' : NoDup (map fst (done ++ [(n, z)]) ++ map tf_name fs)).
    { rewrite map_app, <- app_assoc. exact ND. }
    destruct emb.
    + rewrite lits_type_unfold in H. rewrite expect_type_unfold.
      destruct (struct_of pkg ft) as [si|] eqn:Es.
      * set (e := embedded_entry ft depth pre) in *. cbv zeta in *.
        destruct (lits_fields pkg fuel g nm (S depth) (f_path e) is_new (struct_fields si)) as [kids|] eqn:Ek; [|discriminate].
        cbn [option_map] in H.
        destruct (lits_fields pkg (S fuel) g nm depth pre is_new fs) as [b|] eqn:Eb; [|discriminate].
        inversion H; subst lits.
        assert (Hnm : n = short_name ft) by (apply EN; left; reflexivity).
        destruct (closure_distinct_child _ _ _ _ _ _ CD Es) as [CDc NDc].
        destruct (zero_struct_ok pkg zf si) as [zs' [Ez Zz]].
        destruct (IHf (S depth) (f_path e) is_new (struct_fields si) kids [] zs' [] Ek Zz) as [kv' [E1 E2]]; auto.
        { unfold e. rewrite embedded_entry_path. subst n. exact CDc. }
        { apply struct_fields_emb_named. }
        rewrite E1. cbn [option_map].
        destruct (IH b (done ++ [(n, wrap_ptr (f_ptr e) kv')]) zs0 tail eq_refl Z0) as [kv [E3 E4]].
        { rewrite map_app, <- app_assoc. simpl. rewrite map_app, <- app_assoc in ND'. exact ND'. }
        { eapply closure_distinct_tail; eauto. } { eapply emb_named_tail; eauto. }
        rewrite E3. eexists. split; [reflexivity|].
        cbn [app eval_elems]. rewrite eval_lit_embed.
        assert (Ety : f_ty e = ft) by (unfold e; apply embedded_entry_ty).
        assert (Ename : f_name e = n) by (unfold e; rewrite embedded_entry_name; auto).
        rewrite Ety, Es, Ez, Ename. simpl app in E2. rewrite !app_nil_r in E2. rewrite E2. cbn [bind].
        rewrite set_sel_mid by exact Hn. cbn [bind].
        rewrite <- !app_assoc in E4. simpl in E4. unfold wrap_ptr in E4.
        destruct (f_ptr e); exact E4.
      * destruct (lits_fields pkg (S fuel) g nm depth pre is_new fs) as [b|] eqn:Eb; [|discriminate].
        inversion H; subst lits. rewrite (Hz2 eq_refl eq_refl).
        destruct (IH b (done ++ [(n, VZero)]) zs0 tail eq_refl Z0) as [kv [E1 E2]].
        { rewrite map_app, <- app_assoc. rewrite (Hz2 eq_refl eq_refl) in ND'. rewrite map_app, <- app_assoc in ND'. exact ND'. }
        { eapply closure_distinct_tail; eauto. } { eapply emb_named_tail; eauto. }
        rewrite E1. eexists. split; [reflexivity|].
        rewrite <- !app_assoc in E2. simpl in E2. simpl app. exact E2.
    + destruct (lits_fields pkg (S fuel) g nm depth pre is_new fs) as [b|] eqn:Eb; [|discriminate].
      inversion H; subst lits. rewrite (Hz1 eq_refl) in *.
      set (e := promoted_entry n ft depth is_new pre).
      assert (Hne : f_name (g e) = n) by (destruct (K e) as [E|E]; rewrite E; reflexivity).
      destruct (IH b (done ++ [(n, leafv nm args (g e))]) zs0 tail eq_refl Z0) as [kv [E1 E2]].
      { rewrite map_app, <- app_assoc. simpl. rewrite map_app, <- app_assoc in ND'. exact ND'. }
      { eapply closure_distinct_tail; eauto. } { eapply emb_named_tail; eauto. }
      rewrite E1. eexists. split; [reflexivity|].
      rewrite eval_elems_app. cbn [app]. rewrite <- Hne at 1 2.
      rewrite eval_leaf_item by (rewrite Hne; exact Hn). cbn [bind].
      rewrite Hne. rewrite <- !app_assoc in E2. simpl in E2. exact E2.
Qed.

(* --------------------------------------------------------- lookups in the value *)
(* the value an entry's path leads to *)
Definition entry_val_ok (g : field -> field) (nm : list (ident * string)) (args : ident -> val)
           (e : field) (v : val) : Prop :=
  if f_embedded e then exists kv, v = wrap_ptr (f_ptr e) kv
  else v = leafv nm args (g e).

Lemma struct_like_wrap : forall b kv, struct_like (wrap_ptr b kv) kv.
Proof. intros [] kv; unfold wrap_ptr, struct_like; auto. Qed.

Lemma lookup_fields : forall pkg g nm args, keeps g -> forall fuel depth pre is_new fs l kv done tail,
  raw_fields pkg fuel depth pre is_new fs = Some l ->
  expect_fields pkg fuel g nm args depth pre is_new fs = Some kv ->
  NoDup (map fst done ++ map tf_name fs) ->
  closure_distinct pkg fs pre -> emb_named fs ->
  forall e, In e l -> exists rel, f_path e = pre ++ rel /\
    forall x, struct_like x (done ++ kv ++ tail) -> exists v, lookup x rel = Ok v /\ entry_val_ok g nm args e v.
Proof.
  intros pkg g nm args K fuel. induction fuel as [|fuel IHf]; intros depth pre is_new fs;
    induction fs as [|[[n ft] emb] fs IH]; intros l kv done tail H X ND CD EN e He.
  - inversion H; subst. destruct He.
  - rewrite raw_fields_cons in H. rewrite expect_fields_cons in X.
    assert (Hn : ~ In n (map fst done)).
    { intros Hin. apply NoDup_remove_2 in ND. apply ND. apply in_or_app. left. exact Hin. }
    destruct emb.
    + rewrite raw_type_unfold in H. rewrite expect_type_unfold in X.
      destruct (struct_of pkg ft); [discriminate|].
      destruct (raw_fields pkg 0 depth pre is_new fs) as [b|] eqn:Eb; [|discriminate].
      destruct (expect_fields pkg 0 g nm args depth pre is_new fs) as [r|] eqn:Er; [|discriminate].
      inversion H; subst l. inversion X; subst kv. simpl in He.
      destruct (IH b r (done ++ [(n, VZero)]) tail eq_refl eq_refl) with (e := e) as [rel [E1 E2]]; auto.
      { rewrite map_app, <- app_assoc. exact ND. }
      { eapply closure_distinct_tail; eauto. } { eapply emb_named_tail; eauto. }
      exists rel. split; auto. intros x Hx. apply E2. rewrite <- app_assoc. exact Hx.
    + destruct (raw_fields pkg 0 depth pre is_new fs) as [b|] eqn:Eb; [|discriminate].
      destruct (expect_fields pkg 0 g nm args depth pre is_new fs) as [r|] eqn:Er; [|discriminate].
      inversion H; subst l. inversion X; subst kv. destruct He as [He|He].
      * subst e. exists [n]. split; [reflexivity|]. intros x Hx.
        eexists. split.
        -- cbn [lookup]. rewrite (sel_struct_like _ _ _ Hx). cbn [app]. rewrite sel_mid by exact Hn. reflexivity.
        -- unfold entry_val_ok. reflexivity.
      * destruct (IH b r (done ++ [(n, leafv nm args (g (promoted_entry n ft depth is_new pre)))]) tail eq_refl eq_refl)
          with (e := e) as [rel [E1 E2]]; auto.
        { rewrite map_app, <- app_assoc. exact ND. }
        { eapply closure_distinct_tail; eauto. } { eapply emb_named_tail; eauto. }
        exists rel. split; auto. intros x Hx. apply E2. rewrite <- app_assoc. exact Hx.
  - inversion H; subst. destruct He.
  - rewrite raw_fields_cons in H. rewrite expect_fields_cons in X.
    assert (Hn : ~ In n (map fst done)).
    { intros Hin. apply NoDup_remove_2 in ND. apply ND. apply in_or_app. left. exact Hin. }
    destruct emb.
    + rewrite raw_type_unfold in H. rewrite expect_type_unfold in X.
      destruct (struct_of pkg ft) as [si|] eqn:Es.
      * set (e0 := embedded_entry ft depth pre) in *. cbv zeta in *.
        destruct (raw_fields pkg fuel (S depth) (f_path e0) is_new (struct_fields si)) as [l'|] eqn:El; [|discriminate].
        destruct (expect_fields pkg fuel g nm args (S depth) (f_path e0) is_new (struct_fields si)) as [kv'|] eqn:Ek; [|discriminate].
        cbn [option_map] in *.
        destruct (raw_fields pkg (S fuel) depth pre is_new fs) as [b|] eqn:Eb; [|discriminate].
        destruct (expect_fields pkg (S fuel) g nm args depth pre is_new fs) as [r|] eqn:Er; [|discriminate].
        inversion H; subst l. inversion X; subst kv.
        assert (Hnm : n = short_name ft) by (apply EN; left; reflexivity).
        assert (Hp0 : f_path e0 = pre ++ [n]) by (unfold e0; rewrite embedded_entry_path; subst n; reflexivity).
        destruct (closure_distinct_child _ _ _ _ _ _ CD Es) as [CDc NDc].
        simpl in He. destruct He as [He|He]; [|apply in_app_or in He; destruct He as [He|He]].
        -- subst e. exists [n]. split; [exact Hp0|]. intros x Hx. eexists. split.
           ++ cbn [lookup]. rewrite (sel_struct_like _ _ _ Hx). cbn [app]. rewrite sel_mid by exact Hn. reflexivity.
           ++ unfold entry_val_ok. unfold e0 at 1. rewrite embedded_entry_emb. eexists. reflexivity.
        -- destruct (IHf (S depth) (f_path e0) is_new (struct_fields si) l' kv' [] [] El Ek) with (e := e)
             as [rel [E1 E2]]; auto.
           { rewrite Hp0. exact CDc. } { apply struct_fields_emb_named. }
           exists (n :: rel). split.
           ++ rewrite E1, Hp0, <- app_assoc. reflexivity.
           ++ intros x Hx. cbn [lookup]. rewrite (sel_struct_like _ _ _ Hx). cbn [app]. rewrite sel_mid by exact Hn.
              cbn [bind]. apply E2. simpl. rewrite app_nil_r. apply struct_like_wrap.
        -- destruct (IH b r (done ++ [(n, wrap_ptr (f_ptr e0) kv')]) tail eq_refl eq_refl) with (e := e) as [rel [E1 E2]]; auto.
           { rewrite map_app, <- app_assoc. exact ND. }
           { eapply closure_distinct_tail; eauto. } { eapply emb_named_tail; eauto. }
           exists rel. split; auto. intros x Hx. apply E2. rewrite <- app_assoc. exact Hx.
      * destruct (raw_fields pkg (S fuel) depth pre is_new fs) as [b|] eqn:Eb; [|discriminate].
        destruct (expect_fields pkg (S fuel) g nm args depth pre is_new fs) as [r|] eqn:Er; [|discriminate].
        inversion H; subst l. inversion X; subst kv. simpl in He.
        destruct (IH b r (done ++ [(n, VZero)]) tail eq_refl eq_refl) with (e := e) as [rel [E1 E2]]; auto.
        { rewrite map_app, <- app_assoc. exact ND. }
        { eapply closure_distinct_tail; eauto. } { eapply emb_named_tail; eauto. }
        exists rel. split; auto. intros x Hx. apply E2. rewrite <- app_assoc. exact Hx.
    + destruct (raw_fields pkg (S fuel) depth pre is_new fs) as [b|] eqn:Eb; [|discriminate].
      destruct (expect_fields pkg (S fuel) g nm args depth pre is_new fs) as [r|] eqn:Er; [|discriminate].
      inversion H; subst l. inversion X; subst kv. destruct He as [He|He].
      * subst e. exists [n]. split; [reflexivity|]. intros x Hx.
        eexists. split.
        -- cbn [lookup]. rewrite (sel_struct_like _ _ _ Hx). cbn [app]. rewrite sel_mid by exact Hn. reflexivity.
        -- unfold entry_val_ok. reflexivity.
      * destruct (IH b r (done ++ [(n, leafv nm args (g (promoted_entry n ft depth is_new pre)))]) tail eq_refl eq_refl)
          with (e := e) as [rel [E1 E2]]; auto.
        { rewrite map_app, <- app_assoc. exact ND. }
        { eapply closure_distinct_tail; eauto. } { eapply emb_named_tail; eauto. }
        exists rel. split; auto. intros x Hx. apply E2. rewrite <- app_assoc. exact Hx.
Qed.


(* ---------------------------------------------------------------- top level *)
Lemma closure_distinct_app_l : forall pkg a b pre, closure_distinct pkg (a ++ b) pre -> closure_distinct pkg a pre.
Proof. intros pkg a b pre H j o Hin. apply (H j o). rewrite level_fields_app. apply in_or_app. auto. Qed.
Lemma closure_distinct_app_r : forall pkg a b pre, closure_distinct pkg (a ++ b) pre -> closure_distinct pkg b pre.
Proof. intros pkg a b pre H j o Hin. apply (H j o). rewrite level_fields_app. apply in_or_app. auto. Qed.

Definition top_tag (fl : ctor_flags) (fd : fdecl) : string :=
  match fd_tag fd with
  | Some t => if fl_json fl then parse_json_tag t else ""%string
  | None => ""%string
  end.

Fixpoint expect_names (g : field -> field) (nm : list (ident * string)) (args : ident -> val)
         (fl : ctor_flags) (fd : fdecl) (is_new : bool) (names : list ident) : list (ident * val) :=
  match names with
  | [] => []
  | n :: r =>
      (n, if String.prefix "_" n then VZero
          else if tag_is_dash (fd_tag fd) then VZero
          else match (if fl_getset fl then parse_get_set (fd_doc fd) n else Some (false, false)) with
               | None => VZero
               | Some (get, set) =>
                   leafv nm args (g (top_entry n (fd_ty fd) get set is_new (parse_def (fd_doc fd)) (top_tag fl fd)))
               end)
      :: expect_names g nm args fl fd is_new r
  end.

Definition expect_decl (pkg : pkg_spec) (fl : ctor_flags) (fuel : nat) (g : field -> field)
           (nm : list (ident * string)) (args : ident -> val) (fd : fdecl) : option (list (ident * val)) :=
  let is_new := parse_new_comment (fd_doc fd) in
  match fd_names fd with
  | [] => option_map (fun v => [(short_name (fd_ty fd), v)]) (expect_type pkg fuel g nm args 0 [] (fd_ty fd) is_new)
  | names => Some (expect_names g nm args fl fd is_new names)
  end.

Fixpoint expect_top (pkg : pkg_spec) (fl : ctor_flags) (fuel : nat) (g : field -> field)
         (nm : list (ident * string)) (args : ident -> val) (fds : list fdecl) : option (list (ident * val)) :=
  match fds with
  | [] => Some []
  | fd :: r => match expect_decl pkg fl fuel g nm args fd, expect_top pkg fl fuel g nm args r with
               | Some a, Some b => Some (a ++ b)
               | _, _ => None
               end
  end.

Lemma expect_names_keys : forall g nm args fl fd is_new names,
  map fst (expect_names g nm args fl fd is_new names) = names.
Proof. intros. induction names; simpl; congruence. Qed.

Lemma eval_names : forall pkg zf g nm args fl fd is_new, keeps g -> forall names a done zs,
  raw_names fl fd is_new names = COk a ->
  NoDup (map fst done ++ names) ->
  eval_elems pkg zf args (flat_map (fun e => leaf_item nm (g e)) a)
             (VStruct (done ++ map (fun n => (n, VZero)) names ++ zs)) =
  Ok (VStruct (done ++ expect_names g nm args fl fd is_new names ++ zs)).
Proof.
  intros pkg zf g nm args fl fd is_new K names. induction names as [|n names IH]; intros a done zs H ND.
  - simpl in H. inversion H; subst. reflexivity.
  - simpl in H. cbn [map expect_names app].
    assert (Hn : ~ In n (map fst done)).
    { intros Hin. apply NoDup_remove_2 in ND. apply ND. apply in_or_app. left. exact Hin. }
    assert (Step : forall (x : val) (r : list (ident * val)), done ++ (n, x) :: r ++ zs = (done ++ [(n, x)]) ++ r ++ zs).
    { intros. rewrite <- app_assoc. reflexivity. }
    assert (ND' : forall x : val, NoDup (map fst (done ++ [(n, x)]) ++ names)).
    { intros. rewrite map_app, <- app_assoc. exact ND. }
    destruct (String.prefix "_" n).
    { rewrite !Step. apply IH; auto. }
    destruct (tag_is_dash (fd_tag fd)).
    { rewrite !Step. apply IH; auto. }
    fold (top_tag fl fd) in H.
    destruct (if fl_getset fl then parse_get_set (fd_doc fd) n else Some (false, false)) as [[get set]|]; [|discriminate].
    destruct (raw_names fl fd is_new names) as [r| |] eqn:Er; try discriminate.
    inversion H; subst a. cbn [flat_map]. rewrite eval_elems_app.
    set (e := top_entry n (fd_ty fd) get set is_new (parse_def (fd_doc fd)) (top_tag fl fd)).
    assert (Hne : f_name (g e) = n).
    { destruct (K e) as [E|E]; rewrite E; unfold e; simpl; apply top_entry_name. }
    rewrite <- Hne at 1 2. rewrite eval_leaf_item by (rewrite Hne; exact Hn). cbn [bind].
    rewrite Hne, !Step. apply IH; auto.
Qed.

Lemma zero_named_chunk : forall pkg (names : list ident) (t : ty) zs,
  Forall2 (zero_ok pkg) (map (fun n => (n, t, false)) names) zs -> zs = map (fun n => (n, VZero)) names.
Proof.
  intros pkg names t. induction names as [|n names IH]; intros zs H; inversion H; subst; auto.
  simpl. f_equal; auto. destruct y as [k z]. destruct H2 as [Hk [Hz _]]. simpl in *.
  unfold tf_name in Hk. simpl in Hk. subst. rewrite Hz; auto.
Qed.

Lemma NoDup_app_head : forall A (a b : list A), NoDup (a ++ b) -> NoDup a.
Proof.
  induction a as [|x a IH]; simpl; intros b H; [constructor|].
  inversion H; subst. constructor; [|eauto]. intros Hin. apply H2. apply in_or_app. auto.
Qed.

Lemma names_of_named_chunk : forall (t : ty) (ns : list ident),
  map tf_name (map (fun n => (n, t, false)) ns) = ns.
Proof. intros. induction ns; simpl; unfold tf_name in *; simpl; congruence. Qed.

Lemma eval_top : forall pkg fl g nm args zf, keeps g -> forall fuel fds lits done zs,
  lits_top pkg fl fuel g nm fds = Some lits ->
  Forall2 (zero_ok pkg) (flat_map tfields_of_decl fds) zs ->
  NoDup (map fst done ++ map tf_name (flat_map tfields_of_decl fds)) ->
  closure_distinct pkg (flat_map tfields_of_decl fds) [] ->
  exists kv, expect_top pkg fl fuel g nm args fds = Some kv /\
             eval_elems pkg zf args lits (VStruct (done ++ zs)) = Ok (VStruct (done ++ kv)).
Proof.
  intros pkg fl g nm args zf K fuel fds. induction fds as [|fd fds IH]; intros lits done zs H Z ND CD.
  - simpl in *. inversion H; subst. inversion Z; subst. exists []. split; auto.
  - cbn [lits_top expect_top flat_map] in *.
    destruct (lits_decl pkg fl fuel g nm fd) as [la|] eqn:Ela; [|discriminate].
    destruct (lits_top pkg fl fuel g nm fds) as [lb|] eqn:Elb; [|discriminate].
    inversion H; subst lits.
    apply Forall2_app_inv_l in Z. destruct Z as [za [zb [Za [Zb Ez]]]]. subst zs.
    rewrite map_app in ND. rewrite eval_elems_app.
    unfold lits_decl in Ela. unfold expect_decl. unfold tfields_of_decl in *.
    destruct (fd_names fd) as [|x names] eqn:EN.
    + (* embedded declaration: one field *)
      assert (L1 : lits_fields pkg fuel g nm 0 [] (parse_new_comment (fd_doc fd))
                     [(short_name (fd_ty fd), fd_ty fd, true)] = Some (la ++ [])).
      { rewrite lits_fields_cons, Ela. reflexivity. }
      destruct (eval_fields pkg g nm args zf K fuel 0 [] (parse_new_comment (fd_doc fd))
                  [(short_name (fd_ty fd), fd_ty fd, true)] (la ++ []) done za zb L1 Za) as [kv1 [X1 V1]].
      { rewrite app_assoc in ND. apply NoDup_app_head in ND. exact ND. }
      { eapply closure_distinct_app_l; eauto. }
      { intros nm0 ft0 [Hin|[]]. inversion Hin; subst. reflexivity. }
      rewrite expect_fields_cons in X1.
      destruct (expect_type pkg fuel g nm args 0 [] (fd_ty fd) (parse_new_comment (fd_doc fd))) as [v|]; [|discriminate].
      simpl in X1. inversion X1; subst kv1. cbn [option_map].
      destruct (IH lb (done ++ [(short_name (fd_ty fd), v)]) zb eq_refl Zb) as [kv2 [X2 V2]].
      { rewrite map_app, <- app_assoc. simpl. simpl in ND. exact ND. }
      { eapply closure_distinct_app_r; eauto. }
      rewrite X2. eexists. split; [reflexivity|].
      rewrite app_nil_r in V1. rewrite V1. cbn [bind app].
      rewrite <- !app_assoc in V2. simpl in V2. exact V2.
    + (* named declaration *)
      destruct (raw_names fl fd (parse_new_comment (fd_doc fd)) (x :: names)) as [a| |] eqn:Ea; try discriminate.
      inversion Ela; subst la.
      rewrite (zero_named_chunk _ _ _ _ Za).
      rewrite (eval_names pkg zf g nm args fl fd _ K (x :: names) a done zb Ea).
      2:{ rewrite names_of_named_chunk in ND. rewrite app_assoc in ND.
          apply NoDup_app_head in ND. exact ND. }
      cbn [bind].
      destruct (IH lb (done ++ expect_names g nm args fl fd (parse_new_comment (fd_doc fd)) (x :: names)) zb eq_refl Zb)
        as [kv2 [X2 V2]].
      { rewrite map_app, expect_names_keys, <- app_assoc.
        rewrite names_of_named_chunk in ND. exact ND. }
      { eapply closure_distinct_app_r; eauto. }
      rewrite X2. eexists. split; [reflexivity|].
      rewrite <- !app_assoc in V2. exact V2.
Qed.

Lemma expect_names_assoc : forall g nm args fl fd is_new, keeps g -> forall names a e tl,
  raw_names fl fd is_new names = COk a -> In e a -> NoDup names ->
  assoc (f_name e) (expect_names g nm args fl fd is_new names ++ tl) = Some (leafv nm args (g e)).
Proof.
  intros g nm args fl fd is_new K names. induction names as [|n names IH]; intros a e tl H He ND; simpl in H.
  - inversion H; subst. destruct He.
  - inversion ND as [|? ? Hnin ND']; subst. cbn [expect_names app assoc].
    assert (Skip : forall a', raw_names fl fd is_new names = COk a' -> In e a' ->
                   String.eqb (f_name e) n = false).
    { intros a' Ha' He'. destruct (raw_names_facts _ _ _ _ _ _ Ha' He') as [_ [_ [_ [Hin _]]]].
      apply String.eqb_neq. intros Heq. rewrite Heq in Hin. contradiction. }
    destruct (String.prefix "_" n).
    { rewrite (Skip a H He). eapply IH; eauto. }
    destruct (tag_is_dash (fd_tag fd)).
    { rewrite (Skip a H He). eapply IH; eauto. }
    fold (top_tag fl fd) in H.
    destruct (if fl_getset fl then parse_get_set (fd_doc fd) n else Some (false, false)) as [[get set]|]; [|discriminate].
    destruct (raw_names fl fd is_new names) as [r| |] eqn:Er; try discriminate.
    inversion H; subst a. destruct He as [He|He].
    + subst e. rewrite top_entry_name, String.eqb_refl. reflexivity.
    + rewrite (Skip r eq_refl He). eapply IH; eauto.
Qed.

Lemma expect_names_excluded : forall g nm args fl fd is_new names n tl,
  In n names -> excluded_decl fd n = true -> NoDup names ->
  assoc n (expect_names g nm args fl fd is_new names ++ tl) = Some VZero.
Proof.
  intros g nm args fl fd is_new names. induction names as [|m names IH]; intros n tl Hin Hex ND; [destruct Hin|].
  inversion ND as [|? ? Hnin ND']; subst. cbn [expect_names app assoc].
  destruct (String.eqb n m) eqn:E.
  - apply String.eqb_eq in E. subst m. unfold excluded_decl in Hex.
    destruct (String.prefix "_" n); [reflexivity|]. simpl in Hex. rewrite Hex. reflexivity.
  - destruct Hin as [Hin|Hin]; [subst; rewrite String.eqb_refl in E; discriminate|]. apply IH; auto.
Qed.

Lemma NoDup_app_disjoint : forall A (a b : list A) x, NoDup (a ++ b) -> In x a -> In x b -> False.
Proof.
  induction a as [|y a IH]; intros b x H Ha Hb; [destruct Ha|].
  simpl in H. inversion H; subst. destruct Ha as [Ha|Ha].
  - subst. apply H2. apply in_or_app. right. exact Hb.
  - eapply IH; eauto.
Qed.

Lemma lookup_top : forall pkg fl g nm args, keeps g -> forall fuel fds raw kv done,
  raw_top pkg fl fuel fds = COk raw ->
  expect_top pkg fl fuel g nm args fds = Some kv ->
  NoDup (map fst done ++ map tf_name (flat_map tfields_of_decl fds)) ->
  closure_distinct pkg (flat_map tfields_of_decl fds) [] ->
  forall e, In e raw -> forall x, struct_like x (done ++ kv) ->
  exists v, lookup x (f_path e) = Ok v /\ entry_val_ok g nm args e v.
Proof.
  intros pkg fl g nm args K fuel fds. induction fds as [|fd fds IH]; intros raw kv done H X ND CD e He x Hx.
  - simpl in H. inversion H; subst. destruct He.
  - cbn [raw_top expect_top flat_map] in *.
    destruct (raw_decl pkg fl fuel fd) as [a| |] eqn:Ea; try discriminate.
    destruct (raw_top pkg fl fuel fds) as [b| |] eqn:Eb; try discriminate.
    destruct (expect_decl pkg fl fuel g nm args fd) as [ka|] eqn:Eka; [|discriminate].
    destruct (expect_top pkg fl fuel g nm args fds) as [kb|] eqn:Ekb; [|discriminate].
    inversion H; subst raw. inversion X; subst kv. rewrite map_app in ND.
    apply in_app_or in He. destruct He as [He|He].
    + unfold raw_decl in Ea. unfold expect_decl in Eka. unfold tfields_of_decl in *.
      destruct (fd_names fd) as [|y names] eqn:EN.
      * destruct (raw_type pkg fuel 0 [] (fd_ty fd) (parse_new_comment (fd_doc fd))) as [l0|] eqn:Er; [|discriminate].
        inversion Ea; subst l0.
        destruct (expect_type pkg fuel g nm args 0 [] (fd_ty fd) (parse_new_comment (fd_doc fd))) as [v0|] eqn:Ev; [|discriminate].
        inversion Eka; subst ka.
        assert (R : raw_fields pkg fuel 0 [] (parse_new_comment (fd_doc fd)) [(short_name (fd_ty fd), fd_ty fd, true)]
                    = Some (a ++ [])) by (rewrite raw_fields_cons, Er; reflexivity).
        assert (XF : expect_fields pkg fuel g nm args 0 [] (parse_new_comment (fd_doc fd))
                       [(short_name (fd_ty fd), fd_ty fd, true)] = Some [(short_name (fd_ty fd), v0)])
          by (rewrite expect_fields_cons, Ev; reflexivity).
        rewrite app_nil_r in R.
        destruct (lookup_fields pkg g nm args K fuel 0 [] _ _ a _ done kb R XF) with (e := e) as [rel [E1 E2]]; auto.
        { rewrite app_assoc in ND. apply NoDup_app_head in ND. exact ND. }
        { eapply closure_distinct_app_l; eauto. }
        { intros nm0 ft0 [Hin|[]]. inversion Hin; subst. reflexivity. }
        simpl in E1. rewrite E1. apply E2. exact Hx.
      * inversion Eka; subst ka.
        destruct (raw_names_facts _ _ _ _ _ _ Ea He) as [_ [Hp [Hemb [Hin _]]]].
        rewrite names_of_named_chunk in ND.
        assert (NDn : NoDup (y :: names)).
        { apply NoDup_app_tail in ND. apply NoDup_app_head in ND. exact ND. }
        assert (Hnd : ~ In (f_name e) (map fst done)).
        { intros Hd. eapply NoDup_app_disjoint; [exact ND|exact Hd|].
          apply in_or_app. left. exact Hin. }
        eexists. split.
        -- rewrite Hp. cbn [lookup]. rewrite (sel_struct_like _ _ _ Hx).
           rewrite assoc_app_notin by exact Hnd.
           pose proof (expect_names_assoc g nm args fl fd _ K (y :: names) a e kb Ea He NDn) as EA.
           cbn [expect_names] in EA. rewrite EA. reflexivity.
        -- unfold entry_val_ok. rewrite Hemb. reflexivity.
    + destruct (IH b kb (done ++ ka) eq_refl eq_refl) with (e := e) (x := x) as [v [E1 E2]]; auto.
      * rewrite map_app, <- app_assoc.
        assert (map fst ka = map tf_name (tfields_of_decl fd)).
        { unfold expect_decl in Eka. unfold tfields_of_decl. destruct (fd_names fd) as [|y names].
          - destruct (expect_type pkg fuel g nm args 0 [] (fd_ty fd) (parse_new_comment (fd_doc fd))); [|discriminate].
            inversion Eka; subst. reflexivity.
          - injection Eka as Heq. rewrite <- Heq. rewrite names_of_named_chunk.
            apply (expect_names_keys g nm args fl fd (parse_new_comment (fd_doc fd)) (y :: names)). }
        rewrite H0. exact ND.
      * eapply closure_distinct_app_r; eauto.
      * rewrite <- app_assoc. exact Hx.
      * exists v. auto.
Qed.
