(* C09 at generator level: inside [gen_guard] (a condition on the inputs of
   `shoot map`), every plan the analysis produces passes [plans_safe].  With
   MapperSafeProofs.v this makes "ToX/FromX never dereference nil" a theorem
   about the generator model. *)
From Coq Require Import String Ascii List Bool Arith Lia.
From Shoot Require Import Base.Str Model.Transfer Model.MapVal Model.Mapper Model.MapperEval Model.MapperSafe
     Model.MapperGen
     Proofs.MapperProofs Proofs.MapperPlanProofs Proofs.MapperFlattenProofs Proofs.MapperAnalyseProofs
     Proofs.MapperReach Proofs.MapperInvProofs
     Proofs.MapperValProofs Proofs.MapperSafeProofs Proofs.MapperOrderProofs Proofs.MapperLeafProofs
     Proofs.MapperFlattenRel Proofs.MapperSideProofs.
Import ListNotations.
Local Open Scope string_scope.
Local Open Scope list_scope.

Lemma func_ok_none h : func_ok None h = true.
Proof. destruct h; reflexivity. Qed.

Lemma list_eqb_refl (l : list path) : list_eqb path_eqb l l = true.
Proof.
  induction l as [|x l IH]; simpl; auto. rewrite IH.
  assert (path_eqb x x = true) by (apply path_eqb_eq; auto). rewrite H. auto.
Qed.

(* ------------------------------------------------ what a strategy reads *)
Section ReadType.
  Variable e : env.
  Variable fns : list mfunc.
  Variable pe : penv.

  Lemma strip_ptr_shape t p n : snd (strip_ptr t) = TNamed p n ->
    t = (if fst (strip_ptr t) then TPtr (TNamed p n) else TNamed p n).
  Proof. destruct t; simpl; intros H; subst; auto. Qed.

  Lemma unslice_named t p n : snd (strip_ptr t) = TNamed p n -> unslice t = t.
  Proof. destruct t; simpl; intros H; try discriminate; auto. Qed.

  Lemma read_type_ok_intro d r w h :
    just e fns d r w -> In h (strategies d w r) ->
    (submap_flag w = true -> f_isptr r = ptrness (f_ty r)) ->
    (forall nn, In nn (pair_subs (if d then f_ty r else f_ty w) (if d then f_ty w else f_ty r)) ->
                exists tp, find_plans pe (fst nn) = Some tp /\ tp_dst tp = snd nn) ->
    read_type_ok pe d h (f_ty r) = true.
  Proof.
    intros (_ & _ & _ & J4 & J5) H P SUB. unfold strategies in H.
    repeat (apply in_app_or in H; destruct H as [H|H]).
    - destruct (f_canassign w); [|contradiction]. destruct H as [<-|[]]. reflexivity.
    - destruct (f_isconv w); [|contradiction]. destruct H as [<-|[]]. reflexivity.
    - destruct (negb (String.eqb (f_func w) "")); [|contradiction]. destruct H as [<-|[]]. reflexivity.
    - destruct (f_canmap w) eqn:E; [|contradiction]. destruct H as [<-|[]].
      destruct (J4 eq_refl) as (n1 & n2 & A & B & T).
      assert (SF : submap_flag w = true) by (unfold submap_flag; rewrite E; auto). specialize (P SF).
      destruct (SUB (n1, n2)) as (tp & FP & TD).
      { unfold pair_subs, sub_names. apply in_or_app. left. rewrite A, B. left. auto. }
      simpl in FP, TD. rewrite T. destruct d; unfold read_type_ok; cbn [named_name].
      + rewrite (type_name_strip _ _ _ A). rewrite FP, TD, String.eqb_refl, andb_true_r.
        rewrite P. unfold ptrness. rewrite (unslice_named _ _ _ A). rewrite (strip_ptr_shape _ _ _ A) at 1.
        destruct (fst (strip_ptr (f_ty r))); apply ty_eqb_refl.
      + rewrite (type_name_strip _ _ _ B). rewrite FP, TD, String.eqb_refl, andb_true_r.
        rewrite P. unfold ptrness. rewrite (unslice_named _ _ _ B). rewrite (strip_ptr_shape _ _ _ B) at 1.
        destruct (fst (strip_ptr (f_ty r))); apply ty_eqb_refl.
    - destruct (f_caneach w) eqn:E; [|contradiction]. destruct H as [<-|[]].
      destruct (J5 eq_refl) as (e1 & e2 & n1 & n2 & A & B & C & D & T).
      assert (SF : submap_flag w = true) by (unfold submap_flag; rewrite E; apply orb_true_r). specialize (P SF).
      destruct (SUB (n1, n2)) as (tp & FP & TD).
      { unfold pair_subs. apply in_or_app. right. rewrite A, B. unfold sub_names. rewrite C, D. left. auto. }
      simpl in FP, TD. rewrite T. destruct d; unfold read_type_ok; cbn [named_name].
      + rewrite A in *. cbn [unslice]. rewrite C. cbn [type_name]. rewrite FP, TD, String.eqb_refl, andb_true_r.
        rewrite P. unfold ptrness. cbn [unslice]. rewrite (strip_ptr_shape _ _ _ C) at 1.
        destruct (fst (strip_ptr e1)); apply ty_eqb_refl.
      + rewrite B in *. cbn [unslice]. rewrite D. cbn [type_name]. rewrite FP, TD, String.eqb_refl, andb_true_r.
        rewrite P. unfold ptrness. cbn [unslice]. rewrite (strip_ptr_shape _ _ _ D) at 1.
        destruct (fst (strip_ptr e2)); apply ty_eqb_refl.
  Qed.
End ReadType.

(* ------------------------------------------------ the statements of one job *)
Section Stmts.
  Variable e : env.
  Hypothesis Ewf : emb_wf e = true.
  Hypothesis Eok : env_ok e = true.
  Variable F : nat.
  Variables sn dn : string.
  Variables sfs dfs : list sfield.
  Hypothesis LkS : lookup_decl e PSrc sn = Some (DStruct sfs).
  Hypothesis LkD : lookup_decl e PDst dn = Some (DStruct dfs).
  Variables ps pd : parsed.
  Hypothesis ParseS : parse_fields e F PSrc sn true = Some ps.
  Hypothesis ParseD : parse_fields e F PDst dn false = Some pd.
  Variable sigma : oracle.
  Hypothesis Sigma : forall m x, In x (sigma m) <-> In x m.

  Variable ic : bool.
  Variable fns : list mfunc.
  Variables W0s W0d : sset.
  Variable pe : penv.
  Variable s : st.
  (* the mapper hop of the job: none, or there is no mapper method to call *)
  Variable mh : option path.
  Hypothesis MHok : mh = None \/ fns = [].

  Lemma func_ok_here d r w h : just e fns d r w -> In h (strategies d w r) -> func_ok mh h = true.
  Proof.
    intros J H. destruct MHok as [->|E]; [apply func_ok_none|].
    pose proof (strategies_applicable e fns d r w h J H) as A. destruct h; try reflexivity.
    simpl in A. destruct A as (fn & I & _). rewrite E in I. contradiction.
  Qed.

  Notation tm := (p_tags ps).
  Notation LFs := (rleaves e (S F) sfs).
  Notation LFd := (rleaves e (S F) dfs).
  Notation HPs := (rhops e (S F) sfs).
  Notation HPd := (rhops e (S F) dfs).

  Hypothesis I2 : Inv2 e tm ic fns W0s W0d s.
  Hypothesis NdS : NoDup (map f_name (s_src s)).
  Hypothesis NdD : NoDup (map f_name (s_dst s)).
  Hypothesis FlS : Forall (fld_ok LFs) (s_src s).
  Hypothesis FlD : Forall (fld_ok LFd) (s_dst s).
  Hypothesis SubOK : forall i j, i < length (s_src s) -> j < length (s_dst s) ->
    can_name_match (src_at s i) (dst_at s j) tm ic = true ->
    forall nn, In nn (pair_subs (f_ty (src_at s i)) (f_ty (dst_at s j))) ->
               exists tp, find_plans pe (fst nn) = Some tp /\ tp_dst tp = snd nn.

  Lemma src_ok i : i < length (s_src s) ->
    exists l, In l LFs /\ rl_path l = f_path (src_at s i) /\ rl_ty l = f_ty (src_at s i)
              /\ r_acc (ref_of (src_at s i)) = false.
  Proof.
    intros Hi. rewrite Forall_forall in FlS. destruct (FlS (src_at s i)) as ((l & A & B & C) & G & S0).
    { apply nth_In. auto. }
    exists l. repeat split; auto. unfold ref_of. simpl. rewrite G, S0. auto.
  Qed.
  Lemma dst_ok j : j < length (s_dst s) ->
    exists l, In l LFd /\ rl_path l = f_path (dst_at s j) /\ rl_ty l = f_ty (dst_at s j)
              /\ r_acc (ref_of (dst_at s j)) = false.
  Proof.
    intros Hj. rewrite Forall_forall in FlD. destruct (FlD (dst_at s j)) as ((l & A & B & C) & G & S0).
    { apply nth_In. auto. }
    exists l. repeat split; auto. unfold ref_of. simpl. rewrite G, S0. auto.
  Qed.

  (* the expressions of [analyse] *)
  Let spaths := paths_map (p_ptr ps) (s_src s).
  Let dpaths := paths_map (p_ptr pd) (s_dst s).
  Let src_need (name : string) :=
    match m_get (s_rmap s) name with
    | Some _ => match pmap_get spaths name with Some _ => true | None => false end
    | None => false end.
  Let dst_need (sname : string) :=
    match m_get (s_wmap s) sname with
    | Some d => match pmap_get dpaths d with Some _ => true | None => false end
    | None => false end.
  Let wr_src (f : field) := match m_get (s_wmap s) (f_name f) with Some _ => true | None => false end.
  Let wr_dst (f : field) := existsb (fun kv => String.eqb (f_name f) (snd kv)) (m_live (s_rmap s)).
  Let src_alloc := ptr_path_list sigma (p_ptr ps) (s_src s) wr_src.
  Let dst_alloc := ptr_path_list sigma (p_ptr pd) (s_dst s) wr_dst.

  Theorem to_stmts_ok :
    forallb (stmt_ok pe true mh LFs LFd HPd dst_alloc) (to_stmts spaths src_need s) = true.
  Proof.
    apply forallb_forall. intros st Hst. apply to_stmts_in in Hst.
    destruct Hst as (i & j & h & Hi & T & Hh & ->).
    pose proof (i2_inv _ _ _ _ _ _ _ I2) as (IT & _).
    destruct (iv_tgt _ _ _ _ _ _ IT i j Hi T) as (Hj & _ & NM & J).
    destruct (src_ok i Hi) as (rl & Irl & Prl & Trl & Arl).
    destruct (dst_ok j Hj) as (wl & Iwl & Pwl & Twl & Awl).
    pose proof (i2_rmap _ _ _ _ _ _ _ I2 i j Hi T) as RM.
    unfold stmt_ok. cbn [st_src st_dst st_how st_guard]. rewrite Arl, Awl, (func_ok_here true _ _ h J Hh). cbn [negb andb].
    assert (E1 : r_path (ref_of (src_at s i)) = rl_path rl) by (rewrite Prl; reflexivity).
    assert (E2 : r_path (ref_of (dst_at s j)) = rl_path wl) by (rewrite Pwl; reflexivity).
    rewrite E1, E2.
    rewrite (find_leaf_path e Eok F PSrc sn sfs LkS rl Irl), (find_leaf_path e Eok F PDst dn dfs LkD wl Iwl).
    destruct (write_leaf_ok e Eok F PDst dn dfs LkD wl Iwl) as (WL1 & WL2). rewrite WL1, WL2.
    rewrite (leaf_chain_ok _ _ _ _ Irl).
    assert (G : guard_of (src_need (f_name (src_at s i))) spaths (f_name (src_at s i)) = rl_hops rl).
    { unfold src_need. rewrite RM.
      unfold spaths. rewrite guard_of_read; auto; [|apply nth_In; auto].
      apply (read_guard e Ewf Eok F PSrc sn sfs LkS true ps ParseS (src_at s i) rl Irl Prl). }
    rewrite G, list_eqb_refl.
    assert (AL : forallb (fun h0 => mem_path h0 dst_alloc) (rl_hops wl) = true).
    { apply forallb_forall. intros q Hq. apply mem_path_in. unfold dst_alloc.
      eapply (alloc_covers e Ewf F PDst dn dfs LkD false pd ParseD sigma Sigma (s_dst s) wr_dst (dst_at s j) wl q); eauto.
      - apply nth_In; auto.
      - unfold wr_dst. apply existsb_exists. exists (f_name (src_at s i), f_name (dst_at s j)).
        split; [apply m_get_live; exact RM|]. simpl. apply String.eqb_refl. }
    rewrite AL.
    assert (RT : read_type_ok pe true h (rl_ty rl) = true).
    { rewrite Trl. apply (read_type_ok_intro e fns pe true (src_at s i) (dst_at s j) h); auto.
      - intros SF. destruct (i2_ptr_to _ _ _ _ _ _ _ I2 i j Hi T SF) as (X & _). exact X.
      - apply SubOK; auto. }
    rewrite RT. reflexivity.
  Qed.

  Theorem from_stmts_ok :
    forallb (stmt_ok pe false mh LFd LFs HPs src_alloc) (from_stmts dpaths dst_need s) = true.
  Proof.
    apply forallb_forall. intros st Hst. apply from_stmts_in in Hst.
    destruct Hst as (j & i & h & Hj & T & Hh & ->).
    pose proof (i2_inv _ _ _ _ _ _ _ I2) as (_ & IFr).
    destruct (iv_tgt _ _ _ _ _ _ IFr j i Hj T) as (Hi & _ & NM & J).
    destruct (src_ok i Hi) as (wl & Iwl & Pwl & Twl & Awl).
    destruct (dst_ok j Hj) as (rl & Irl & Prl & Trl & Arl).
    pose proof (i2_wmap _ _ _ _ _ _ _ I2 j i Hj T) as WM.
    unfold stmt_ok. cbn [st_src st_dst st_how st_guard]. rewrite Arl, Awl, (func_ok_here false _ _ h J Hh). cbn [negb andb].
    assert (E1 : r_path (ref_of (dst_at s j)) = rl_path rl) by (rewrite Prl; reflexivity).
    assert (E2 : r_path (ref_of (src_at s i)) = rl_path wl) by (rewrite Pwl; reflexivity).
    rewrite E1, E2.
    rewrite (find_leaf_path e Eok F PDst dn dfs LkD rl Irl), (find_leaf_path e Eok F PSrc sn sfs LkS wl Iwl).
    destruct (write_leaf_ok e Eok F PSrc sn sfs LkS wl Iwl) as (WL1 & WL2). rewrite WL1, WL2.
    rewrite (leaf_chain_ok _ _ _ _ Irl).
    assert (G : guard_of (dst_need (f_name (src_at s i))) dpaths (f_name (dst_at s j)) = rl_hops rl).
    { unfold dst_need. rewrite WM.
      unfold dpaths. rewrite guard_of_read; auto; [|apply nth_In; auto].
      apply (read_guard e Ewf Eok F PDst dn dfs LkD false pd ParseD (dst_at s j) rl Irl Prl). }
    rewrite G, list_eqb_refl.
    assert (AL : forallb (fun h0 => mem_path h0 src_alloc) (rl_hops wl) = true).
    { apply forallb_forall. intros q Hq. apply mem_path_in. unfold src_alloc.
      eapply (alloc_covers e Ewf F PSrc sn sfs LkS true ps ParseS sigma Sigma (s_src s) wr_src (src_at s i) wl q); eauto.
      - apply nth_In; auto.
      - unfold wr_src. rewrite WM. reflexivity. }
    rewrite AL.
    assert (RT : read_type_ok pe false h (rl_ty rl) = true).
    { rewrite Trl. apply (read_type_ok_intro e fns pe false (dst_at s j) (src_at s i) h); auto.
      - intros SF. destruct (i2_ptr_from _ _ _ _ _ _ _ I2 j i Hj T SF) as (X & _). exact X.
      - apply SubOK; auto. }
    rewrite RT. reflexivity.
  Qed.
End Stmts.

(* ------------------------------------------------ the analysis of a plain job *)
Lemma plain_gen_spec jb : plain_gen jb = true ->
  j_src_acc jb = [] /\ j_dst_acc jb = [] /\ j_src_ctor jb = [] /\ j_dst_ctor jb = [].
Proof.
  unfold plain_gen. destruct (j_src_acc jb), (j_dst_acc jb), (j_src_ctor jb), (j_dst_ctor jb); try discriminate. auto.
Qed.

Lemma plain_gen_hop jb : plain_gen jb = true -> j_mapper_hop jb = None \/ j_funcs jb = [].
Proof.
  unfold plain_gen. destruct (j_src_acc jb), (j_dst_acc jb), (j_src_ctor jb), (j_dst_ctor jb); try discriminate.
  destruct (j_mapper_hop jb); auto. destruct (j_funcs jb); auto. discriminate.
Qed.

Definition state0 (ps pd : parsed) (ws wd : sset) : st :=
  mkSt (exported_of (p_fields ps)) (exported_of (p_fields pd)) ws wd [] [].

Lemma prepare_plain jb pr :
  plain_gen jb = true -> prepare jb = Some pr ->
  exists ps pd ws wd,
    parse_fields (j_env jb) (j_fuel jb) PSrc (j_src jb) true = Some ps
    /\ parse_fields (j_env jb) (j_fuel jb) PDst (j_dst jb) false = Some pd
    /\ pr_src pr = ps /\ pr_dst pr = pd /\ pr_s0 pr = state0 ps pd ws wd
    /\ pr_use_d pr = false /\ pr_use_s pr = false.
Proof.
  intros P H. destruct (plain_gen_spec _ P) as (A1 & A2 & A3 & A4).
  unfold prepare in H. rewrite A1, A2, A3, A4 in H.
  destruct (parse_fields (j_env jb) (j_fuel jb) PSrc (j_src jb) true) as [ps|]; [|discriminate].
  destruct (parse_fields (j_env jb) (j_fuel jb) PDst (j_dst jb) false) as [pd|]; [|discriminate].
  simpl in H. unfold compatlize in H. simpl in H. rewrite !app_nil_r in H.
  inversion H; subst; clear H. simpl.
  eexists ps, pd, _, _. repeat split; reflexivity.
Qed.

Lemma analyse_shape sigma jb a :
  analyse sigma jb = Some a ->
  exists pr, prepare jb = Some pr /\
    let s2 := run_passes (j_env jb) (p_tags (pr_src pr)) (j_ic jb) (j_funcs jb) (pr_s0 pr) in
    let spaths := paths_map (p_ptr (pr_src pr)) (s_src s2) in
    let dpaths := paths_map (p_ptr (pr_dst pr)) (s_dst s2) in
    pl_stmts (a_to a) =
      to_stmts spaths (fun name => match m_get (s_rmap s2) name with
                                   | Some _ => match pmap_get spaths name with Some _ => true | None => false end
                                   | None => false end) s2
    /\ pl_stmts (a_from a) =
      from_stmts dpaths (fun sname => match m_get (s_wmap s2) sname with
                                      | Some d => match pmap_get dpaths d with Some _ => true | None => false end
                                      | None => false end) s2
    /\ pl_reset (a_from a) = true
    /\ (pr_use_d pr = false ->
        pl_ctor (a_to a) = None
        /\ pl_alloc (a_to a) =
           with_ty (pr_dst pr) (ptr_path_list sigma (p_ptr (pr_dst pr)) (s_dst s2)
              (fun f => existsb (fun kv => String.eqb (f_name f) (snd kv)) (m_live (s_rmap s2)))))
    /\ (pr_use_s pr = false ->
        pl_ctor (a_from a) = None
        /\ pl_alloc (a_from a) =
           with_ty (pr_src pr) (ptr_path_list sigma (p_ptr (pr_src pr)) (s_src s2)
              (fun f => match m_get (s_wmap s2) (f_name f) with Some _ => true | None => false end))).
Proof.
  unfold analyse. destruct (prepare jb) as [pr|]; [|discriminate].
  intros H. inversion H; subst; clear H. exists pr. split; auto. cbn [a_to a_from pl_stmts pl_ctor pl_alloc pl_reset].
  split; [reflexivity|]. split; [reflexivity|]. split; [reflexivity|].
  split; intros ->; split; reflexivity.
Qed.

Lemma side_gen_spec e F p n : side_gen e F p n = true ->
  exists fs, lookup_decl e p n = Some (DStruct fs)
    /\ (forall l h, In l (rleaves e (S F) fs) -> In h (rhops e (S F) fs) -> last (rl_path l) "" <> last (fst h) "")
    /\ (forall h, In h (rhops e (S F) fs) -> zero_wf e (S F) (snd h) = true)
    /\ zero_wf e (S F) (TNamed p n) = true.
Proof.
  unfold side_gen. destruct (lookup_decl e p n) as [[|fs]|]; try discriminate.
  intros H. apply andb_true_iff in H. destruct H as (H & Z). apply andb_true_iff in H. destruct H as (A & B).
  exists fs. split; auto. split; [|split; auto].
  - intros l h Il Ih E. rewrite forallb_forall in A. specialize (A l Il). rewrite forallb_forall in A.
    specialize (A h Ih). rewrite E, String.eqb_refl in A. discriminate.
  - rewrite forallb_forall in B. exact B.
Qed.

Lemma fld_ok_core LF f f' : core_eq f f' -> fld_ok LF f -> fld_ok LF f'.
Proof.
  intros (a1 & a2 & a3 & a4 & a5 & a6) ((l & A & B & C) & G & S0). split; [|split; congruence].
  exists l. repeat split; auto; congruence.
Qed.

Lemma Forall_filter {A} (P : A -> Prop) (q : A -> bool) l : Forall P l -> Forall P (filter q l).
Proof. rewrite !Forall_forall. intros H x X. apply filter_In in X. apply H. tauto. Qed.

Section Job.
  Variable sigma : oracle.
  Hypothesis Sigma : forall m x, In x (sigma m) <-> In x m.
  Variable e : env.
  Hypothesis Ewf : emb_wf e = true.
  Hypothesis Eok : env_ok e = true.
  Variable F : nat.
  Variable jobs : list job.
  Variable pe : penv.
  Hypothesis FindPlans : forall n jb', find_job jobs n = Some jb' ->
    exists tp, find_plans pe n = Some tp /\ tp_dst tp = j_dst jb'.

  Theorem job_plans_safe jb a :
    j_env jb = e -> j_fuel jb = F -> job_gen_guard e F jobs jb = true -> analyse sigma jb = Some a ->
    plan_safe e (S F) pe true (j_mapper_hop jb) (decl_fields e PSrc (j_src jb)) (decl_fields e PDst (j_dst jb)) (a_to a) = true
    /\ plan_safe e (S F) pe false (j_mapper_hop jb) (decl_fields e PDst (j_dst jb)) (decl_fields e PSrc (j_src jb)) (a_from a) = true
    /\ is_struct_decl e PSrc (j_src jb) = true /\ is_struct_decl e PDst (j_dst jb) = true
    /\ zero_wf e (S F) (TNamed PSrc (j_src jb)) = true /\ zero_wf e (S F) (TNamed PDst (j_dst jb)) = true.
  Proof.
    intros Je Jf G An. unfold job_gen_guard in G.
    apply andb_true_iff in G. destruct G as (G & SG). apply andb_true_iff in G. destruct G as (G & SD).
    apply andb_true_iff in G. destruct G as (G & SS). apply andb_true_iff in G. destruct G as (PL & FN).
    destruct (side_gen_spec _ _ _ _ SS) as (sfs & LkS & SufS & ZS & ZTS).
    destruct (side_gen_spec _ _ _ _ SD) as (dfs & LkD & SufD & ZD & ZTD).
    destruct (analyse_shape _ _ _ An) as (pr & Prep & ST & SF & RS & TO & FR).
    destruct (prepare_plain _ _ PL Prep) as (ps & pd & ws & wd & ParseS & ParseD & E1 & E2 & E0 & UD & US).
    rewrite Je, Jf in ParseS, ParseD.
    destruct (TO UD) as (CT & AT). destruct (FR US) as (CF & AF). clear TO FR.
    destruct (plain_gen_spec _ PL) as (A1 & A2 & _ & _).
    pose proof (plain_acc_guard jb A1 A2) as AG.
    destruct (prepare_ok _ _ Prep AG) as (I0 & Ns0 & Nd0).
    rewrite E1, E2, E0, Je in *. cbn [s_wsrc s_wdst state0] in I0.
    set (s0 := state0 ps pd ws wd) in *.
    set (s2 := run_passes e (p_tags ps) (j_ic jb) (j_funcs jb) s0) in *.
    destruct (passes_ok e (p_tags ps) (j_ic jb) (j_funcs jb) ws wd s0 I0) as (Inv2s & C).
    fold (run_passes e (p_tags ps) (j_ic jb) (j_funcs jb) s0) in Inv2s, C. fold s2 in Inv2s, C.
    assert (FNok : forall fn, In fn (j_funcs jb) -> mf_name fn <> "").
    { intros fn Hfn X. rewrite forallb_forall in FN. specialize (FN fn Hfn). rewrite X in FN. discriminate. }
    assert (Gs : good_list (exported_of (p_fields ps))).
    { apply good_filter. eapply parse_fields_ok; eauto. }
    assert (Gd : good_list (exported_of (p_fields pd))).
    { apply good_filter. eapply parse_fields_ok; eauto. }
    assert (I20 : Inv2 e (p_tags ps) (j_ic jb) (j_funcs jb) ws wd s0).
    { apply inv2_init; auto.
      - intros i Hi. destruct Gs as (_ & Fr). rewrite Forall_forall in Fr.
        destruct (Fr (src_at s0 i)) as (_ & X); auto. apply nth_In. exact Hi.
      - intros j Hj. destruct Gd as (_ & Fr). rewrite Forall_forall in Fr.
        destruct (Fr (dst_at s0 j)) as (_ & X); auto. apply nth_In. exact Hj. }
    assert (I2 : Inv2 e (p_tags ps) (j_ic jb) (j_funcs jb) ws wd s2).
    { eapply inv2_reach; [|exact I20]. apply passes_reach. exact FNok. }
    destruct (core_names _ _ C) as (Es & Ed).
    assert (NdS : NoDup (map f_name (s_src s2))) by (rewrite Es; exact Ns0).
    assert (NdD : NoDup (map f_name (s_dst s2))) by (rewrite Ed; exact Nd0).
    destruct C as (Ls & Ld & Cs & Cd).
    assert (FlS : Forall (fld_ok (rleaves e (S F) sfs)) (s_src s2)).
    { apply Forall_nth. intros i d Hi. rewrite (nth_indep _ d fdummy Hi).
      apply (fld_ok_core _ (src_at s0 i)); [apply Cs|].
      pose proof (Forall_filter _ (fun f => is_exported (f_name f)) _
                    (parsed_fld_ok e Ewf F PSrc (j_src jb) sfs LkS true ps ParseS)) as X.
      rewrite Forall_forall in X. apply X. apply (nth_In (s_src s0)). rewrite <- Ls. exact Hi. }
    assert (FlD : Forall (fld_ok (rleaves e (S F) dfs)) (s_dst s2)).
    { apply Forall_nth. intros j d Hj. rewrite (nth_indep _ d fdummy Hj).
      apply (fld_ok_core _ (dst_at s0 j)); [apply Cd|].
      pose proof (Forall_filter _ (fun f => is_exported (f_name f)) _
                    (parsed_fld_ok e Ewf F PDst (j_dst jb) dfs LkD false pd ParseD)) as X.
      rewrite Forall_forall in X. apply X. apply (nth_In (s_dst s0)). rewrite <- Ld. exact Hj. }
    assert (SubOK : forall i j, i < length (s_src s2) -> j < length (s_dst s2) ->
      can_name_match (src_at s2 i) (dst_at s2 j) (p_tags ps) (j_ic jb) = true ->
      forall nn, In nn (pair_subs (f_ty (src_at s2 i)) (f_ty (dst_at s2 j))) ->
                 exists tp, find_plans pe (fst nn) = Some tp /\ tp_dst tp = snd nn).
    { intros i j Hi Hj NM nn Hnn.
      rewrite (can_name_match_core _ _ _ _ _ _ (Cs i) (Cd j)) in NM.
      destruct (Cs i) as (_ & Ts & _). destruct (Cd j) as (_ & Td & _). rewrite Ts, Td in Hnn.
      unfold sub_guard in SG. rewrite Je, Jf, ParseS, ParseD in SG.
      rewrite forallb_forall in SG.
      assert (X1 : In (src_at s0 i) (exported_of (p_fields ps))) by (apply (nth_In (s_src s0)); rewrite <- Ls; exact Hi).
      assert (X2 : In (dst_at s0 j) (exported_of (p_fields pd))) by (apply (nth_In (s_dst s0)); rewrite <- Ld; exact Hj).
      specialize (SG _ X1). rewrite forallb_forall in SG. specialize (SG _ X2).
      rewrite NM in SG. simpl in SG. rewrite forallb_forall in SG.
      specialize (SG nn Hnn). destruct (find_job jobs (fst nn)) as [jb'|] eqn:FJ; [|discriminate].
      apply String.eqb_eq in SG. destruct (FindPlans _ _ FJ) as (tp & X & Y). exists tp. split; auto. congruence. }
    pose proof (to_stmts_ok e Ewf Eok F (j_src jb) (j_dst jb) sfs dfs LkS LkD ps pd ParseS ParseD sigma Sigma
                  (j_ic jb) (j_funcs jb) ws wd pe s2 (j_mapper_hop jb) (plain_gen_hop _ PL) I2 NdS FlS FlD SubOK) as TOK.
    pose proof (from_stmts_ok e Ewf Eok F (j_src jb) (j_dst jb) sfs dfs LkS LkD ps pd ParseS ParseD sigma Sigma
                  (j_ic jb) (j_funcs jb) ws wd pe s2 (j_mapper_hop jb) (plain_gen_hop _ PL) I2 NdD FlS FlD SubOK) as FOK.
    destruct (alloc_list_ok e Ewf Eok F PDst (j_dst jb) dfs LkD false pd ParseD sigma Sigma SufD ZD (s_dst s2) FlD
                (fun f => existsb (fun kv => String.eqb (f_name f) (snd kv)) (m_live (s_rmap s2)))) as (AD1 & AD2).
    destruct (alloc_list_ok e Ewf Eok F PSrc (j_src jb) sfs LkS true ps ParseS sigma Sigma SufS ZS (s_src s2) FlS
                (fun f => match m_get (s_wmap s2) (f_name f) with Some _ => true | None => false end)) as (AS1 & AS2).
    assert (DS : decl_fields e PSrc (j_src jb) = sfs) by (unfold decl_fields; rewrite LkS; auto).
    assert (DD : decl_fields e PDst (j_dst jb) = dfs) by (unfold decl_fields; rewrite LkD; auto).
    rewrite DS, DD.
    split; [|split; [|split; [|split; [|split]]]]; auto.
    - unfold plan_safe. rewrite CT, AT, ST. rewrite AD1, AD2. rewrite with_ty_fst. exact TOK.
    - unfold plan_safe. rewrite CF, AF, SF, RS. rewrite AS1, AS2. rewrite with_ty_fst. exact FOK.
    - unfold is_struct_decl. rewrite LkS. auto.
    - unfold is_struct_decl. rewrite LkD. auto.
  Qed.
End Job.

(* ------------------------------------------------ all jobs of a run *)
Lemma penv_of_cons sigma jb jobs pe :
  penv_of sigma (jb :: jobs) = Some pe ->
  exists a l, analyse sigma jb = Some a /\ penv_of sigma jobs = Some l /\ pe = tplans_of jb a :: l.
Proof.
  simpl. fold (penv_of sigma jobs). destruct (penv_of sigma jobs) as [l|]; [|discriminate].
  destruct (analyse sigma jb) as [a|]; [|discriminate]. intros H. inversion H. eauto.
Qed.

Lemma penv_of_in sigma : forall jobs pe tp,
  penv_of sigma jobs = Some pe -> In tp pe ->
  exists jb a, In jb jobs /\ analyse sigma jb = Some a /\ tp = tplans_of jb a.
Proof.
  induction jobs as [|jb jobs IH]; intros pe tp H I.
  - simpl in H. inversion H; subst. contradiction.
  - destruct (penv_of_cons _ _ _ _ H) as (a & l & A & L & ->). destruct I as [<-|I].
    + exists jb, a. repeat split; auto. left; auto.
    + destruct (IH _ _ L I) as (jb' & a' & X & Y & Z). exists jb', a'. repeat split; auto. right; auto.
Qed.

Lemma penv_of_find sigma : forall jobs pe n jb',
  penv_of sigma jobs = Some pe -> find_job jobs n = Some jb' ->
  exists tp, find_plans pe n = Some tp /\ tp_dst tp = j_dst jb'.
Proof.
  induction jobs as [|jb jobs IH]; intros pe n jb' H FJ; [discriminate|].
  destruct (penv_of_cons _ _ _ _ H) as (a & l & A & L & ->). simpl in *.
  destruct (String.eqb (j_src jb) n).
  - inversion FJ; subst. eexists. split; eauto.
  - eapply IH; eauto.
Qed.

(* C09, generator level: inside gen_guard every generated plan is safe *)
Theorem analyse_plans_safe sigma e F jobs pe :
  (forall m x, In x (sigma m) <-> In x m) ->
  (forall jb, In jb jobs -> j_env jb = e /\ j_fuel jb = F) ->
  gen_guard e F jobs = true ->
  penv_of sigma jobs = Some pe ->
  plans_safe e (S F) pe = true.
Proof.
  intros Sigma JE G PE. unfold gen_guard in G.
  apply andb_true_iff in G. destruct G as (G & JG). apply andb_true_iff in G. destruct G as (Eok & Ewf).
  unfold plans_safe. rewrite Eok, andb_true_r. apply forallb_forall. intros tp Itp.
  destruct (penv_of_in _ _ _ _ PE Itp) as (jb & a & Ijb & An & ->).
  rewrite forallb_forall in JG. destruct (JE jb Ijb) as (Je & Jf).
  destruct (job_plans_safe sigma Sigma e Ewf Eok F jobs pe (fun n jb' => penv_of_find sigma jobs pe n jb' PE)
              jb a Je Jf (JG jb Ijb) An) as (A & B & C & D & E1 & E2).
  cbn [tplans_of tp_src tp_dst tp_to tp_from tp_mapper_hop]. rewrite A, B, C, D, E1, E2. reflexivity.
Qed.
