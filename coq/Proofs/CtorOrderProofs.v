(* Order of the parameters, coverage of the struct graph's leaves by the flattened
   list, and distinctness of the parameter names from the input guard.

   subseq                       : order-preserving sub-list
   raw_leaf_paths / top_leaves  : the leaf entries of the raw list, in order, are the
                                  leaves of the struct graph (declaration order, depth
                                  first) minus the excluded fields of the struct itself
   params_follow_declaration_order, leaves_covered, params_distinct *)
From Coq Require Import String Ascii List Bool Arith ZArith Lia.
From Shoot Require Import Base.Str Base.GoVal Model.Transfer Model.CtorDirective Model.Ctor Model.CtorSpec.
From Shoot Require Import Proofs.GoValProofs Proofs.CtorFlattenProofs Proofs.CtorResolveProofs Proofs.CtorNewProofs
                          Proofs.CtorC02Proofs Proofs.CtorOptProofs.
Import ListNotations.
Local Open Scope list_scope.

Inductive subseq {A : Type} : list A -> list A -> Prop :=
| ss_nil : subseq [] []
| ss_keep : forall x a b, subseq a b -> subseq (x :: a) (x :: b)
| ss_skip : forall x a b, subseq a b -> subseq a (x :: b).

Lemma subseq_refl : forall A (l : list A), subseq l l.
Proof. induction l; constructor; auto. Qed.

Lemma subseq_nil_l : forall A (l : list A), subseq [] l.
Proof. induction l; constructor; auto. Qed.

Lemma subseq_app : forall A (a b c d : list A), subseq a b -> subseq c d -> subseq (a ++ c) (b ++ d).
Proof. intros A a b c d H. induction H; intros Hc; simpl; auto; constructor; auto. Qed.

Lemma subseq_filter : forall A (P : A -> bool) l, subseq (filter P l) l.
Proof. induction l; simpl; [constructor|]. destruct (P a); constructor; auto. Qed.

Lemma subseq_map : forall A B (f : A -> B) a b, subseq a b -> subseq (map f a) (map f b).
Proof. intros A B f a b H. induction H; simpl; constructor; auto. Qed.

Lemma subseq_trans : forall A (a b c : list A), subseq a b -> subseq b c -> subseq a c.
Proof.
  intros A a b c H1 H2. revert a H1. induction H2; intros a' H1.
  - exact H1.
  - inversion H1; subst.
    + constructor. apply IHsubseq. assumption.
    + apply ss_skip. apply IHsubseq. assumption.
  - apply ss_skip. apply IHsubseq. assumption.
Qed.

Lemma subseq_in : forall A (a b : list A) x, subseq a b -> In x a -> In x b.
Proof. intros A a b x H. induction H; simpl; intros Hx; auto. destruct Hx; auto. Qed.

Lemma subseq_NoDup : forall A (a b : list A), subseq a b -> NoDup b -> NoDup a.
Proof.
  intros A a b H. induction H; intros ND; auto.
  - inversion ND; subst. constructor; auto. intros Hin. apply H2. eapply subseq_in; eauto.
  - inversion ND; subst. auto.
Qed.

Lemma subseq_filter_r : forall A (P : A -> bool) a b,
  subseq a b -> (forall x, In x a -> P x = true) -> subseq a (filter P b).
Proof.
  intros A P a b H. induction H; intros HP; simpl.
  - constructor.
  - rewrite (HP x (or_introl eq_refl)). constructor. apply IHsubseq. intros y Hy. apply HP. right. exact Hy.
  - destruct (P x); [apply ss_skip|]; apply IHsubseq; exact HP.
Qed.

Lemma subseq_flat_map : forall A B (f g : A -> list B) l,
  (forall x, In x l -> subseq (f x) (g x)) -> subseq (flat_map f l) (flat_map g l).
Proof.
  induction l as [|x l IH]; intros H; simpl; [constructor|].
  apply subseq_app; [apply H; left; reflexivity|apply IH; intros y Hy; apply H; right; exact Hy].
Qed.

(* ------------------------------------------------- leaves of the struct graph *)
Definition leaf_paths_fields (pkg : pkg_spec) (fuel : nat) (fs : list tfield) (pre : path) : list path :=
  flat_map (fun tf : tfield => let '(nm, ft, emb) := tf in
    if emb then match struct_of pkg ft with
                | Some si' => match fuel with O => [] | S fuel' => leaf_paths pkg fuel' si' (pre ++ [nm]) end
                | None => [pre ++ [nm]]
                end
    else [pre ++ [nm]]) fs.

Lemma leaf_paths_is_fields : forall pkg fuel si pre,
  leaf_paths pkg fuel si pre = leaf_paths_fields pkg fuel (struct_fields si) pre.
Proof. intros. destruct fuel; reflexivity. Qed.

Definition is_leaf_entry (e : field) : bool := negb (f_embedded e).

Definition all_levels_ok (pkg : pkg_spec) (fs : list tfield) (pre : path) : Prop :=
  forall n, levels_ok pkg n fs pre.

Lemma all_levels_ok_tail : forall pkg x fs pre, all_levels_ok pkg (x :: fs) pre -> all_levels_ok pkg fs pre.
Proof. intros pkg x fs pre H n. eapply levels_ok_tail. apply H. Qed.

Lemma all_levels_ok_child : forall pkg nm ft fs pre si,
  all_levels_ok pkg ((nm, ft, true) :: fs) pre -> struct_of pkg ft = Some si ->
  all_levels_ok pkg (struct_fields si) (pre ++ [nm]).
Proof. intros pkg nm ft fs pre si H Hs n. eapply levels_ok_child; eauto. Qed.

Lemma raw_leaf_paths : forall pkg fuel depth pre is_new fs l,
  raw_fields pkg fuel depth pre is_new fs = Some l ->
  emb_named fs -> all_levels_ok pkg fs pre ->
  map f_path (filter is_leaf_entry l) = leaf_paths_fields pkg fuel fs pre.
Proof.
  intros pkg fuel. induction fuel as [|fuel IHf]; intros depth pre is_new fs;
    induction fs as [|[[nm ft] emb] fs IH]; intros l H EN OK; try (inversion H; subst; reflexivity);
    rewrite raw_fields_cons in H; pose proof (all_levels_ok_tail _ _ _ _ OK) as OKt;
    pose proof (emb_named_tail _ _ EN) as ENt.
  - destruct emb.
    + rewrite raw_type_unfold in H. destruct (struct_of pkg ft) eqn:Es; [discriminate|].
      exfalso. apply (OK 0 0 (pre ++ [nm], (nm, ft, true))); [lia|simpl; left; reflexivity|reflexivity|exact Es].
    + destruct (raw_fields pkg 0 depth pre is_new fs) as [b|] eqn:Eb; [|discriminate].
      inversion H; subst l. simpl. rewrite (IH b eq_refl ENt OKt). reflexivity.
  - destruct emb.
    + assert (Hnm : nm = short_name ft) by (apply EN; left; reflexivity).
      rewrite raw_type_unfold in H. destruct (struct_of pkg ft) as [si|] eqn:Es.
      * set (e0 := embedded_entry ft depth pre) in *.
        destruct (raw_fields pkg fuel (S depth) (f_path e0) is_new (struct_fields si)) as [l'|] eqn:El; [|discriminate].
        cbn [option_map] in H.
        destruct (raw_fields pkg (S fuel) depth pre is_new fs) as [b|] eqn:Eb; [|discriminate].
        inversion H; subst l. cbn [app filter]. unfold is_leaf_entry at 1. unfold e0 at 1.
        rewrite embedded_entry_emb. cbn [negb]. rewrite filter_app, map_app.
        rewrite (IH b eq_refl ENt OKt).
        cbn [leaf_paths_fields flat_map]. rewrite Es. f_equal.
        rewrite leaf_paths_is_fields.
        assert (Hp : f_path e0 = pre ++ [nm]) by (unfold e0; rewrite embedded_entry_path; subst nm; reflexivity).
        rewrite Hp in El.
        apply (IHf (S depth) (pre ++ [nm]) is_new (struct_fields si) l' El).
        -- apply struct_fields_emb_named.
        -- eapply all_levels_ok_child; eauto.
      * exfalso. apply (OK 0 0 (pre ++ [nm], (nm, ft, true))); [lia|simpl; left; reflexivity|reflexivity|exact Es].
    + destruct (raw_fields pkg (S fuel) depth pre is_new fs) as [b|] eqn:Eb; [|discriminate].
      inversion H; subst l. simpl. rewrite (IH b eq_refl ENt OKt). reflexivity.
Qed.

(* the struct's own fields: all leaves, and the leaves that are not excluded *)
Definition decl_leaves (pkg : pkg_spec) (fuel : nat) (fd : fdecl) : list path :=
  leaf_paths_fields pkg fuel (tfields_of_decl fd) [].
Definition decl_leaves_ne (pkg : pkg_spec) (fuel : nat) (fd : fdecl) : list path :=
  match fd_names fd with
  | [] => leaf_paths_fields pkg fuel (tfields_of_decl fd) []
  | ns => map (fun n => [n]) (filter (fun n => negb (excluded_decl fd n)) ns)
  end.

Lemma leaf_paths_fields_app : forall pkg fuel a b pre,
  leaf_paths_fields pkg fuel (a ++ b) pre = leaf_paths_fields pkg fuel a pre ++ leaf_paths_fields pkg fuel b pre.
Proof. intros. unfold leaf_paths_fields. apply flat_map_app. Qed.

Lemma top_leaf_paths : forall pkg fuel sd,
  leaf_paths pkg fuel (self_inst sd) [] = flat_map (decl_leaves pkg fuel) (sd_fields sd).
Proof.
  intros. rewrite leaf_paths_is_fields, struct_fields_self. unfold top_tfields.
  induction (sd_fields sd) as [|fd fds IH]; simpl; auto.
  rewrite leaf_paths_fields_app, IH. reflexivity.
Qed.

Lemma named_decl_leaves : forall pkg fuel (t : ty) (ns : list ident),
  leaf_paths_fields pkg fuel (map (fun n => (n, t, false)) ns) [] = map (fun n => [n]) ns.
Proof. intros. induction ns; simpl; auto. f_equal. exact IHns. Qed.

Lemma decl_leaves_subseq : forall pkg fuel fd, subseq (decl_leaves_ne pkg fuel fd) (decl_leaves pkg fuel fd).
Proof.
  intros. unfold decl_leaves_ne, decl_leaves, tfields_of_decl. destruct (fd_names fd) as [|x ns].
  - apply subseq_refl.
  - rewrite named_decl_leaves. apply subseq_map. apply subseq_filter.
Qed.

Lemma raw_names_leaves : forall fl fd is_new names a,
  raw_names fl fd is_new names = COk a ->
  map f_path (filter is_leaf_entry a) = map (fun n => [n]) (filter (fun n => negb (excluded_decl fd n)) names).
Proof.
  intros fl fd is_new names. induction names as [|n names IH]; intros a H; simpl in H.
  - inversion H; subst. reflexivity.
  - cbn [filter]. unfold excluded_decl at 1.
    destruct (String.prefix "_" n); cbn [orb negb]; [apply IH; exact H|].
    destruct (tag_is_dash (fd_tag fd)); cbn [negb]; [apply IH; exact H|].
    destruct (if fl_getset fl then parse_get_set (fd_doc fd) n else Some (false, false)) as [[get set]|]; [|discriminate].
    destruct (raw_names fl fd is_new names) as [r| |] eqn:Er; try discriminate.
    inversion H; subst a. cbn [filter map]. unfold is_leaf_entry at 1. rewrite top_entry_emb. cbn [negb map].
    rewrite top_entry_path, (IH r eq_refl). reflexivity.
Qed.

Lemma all_levels_ok_app_l : forall pkg a b pre, all_levels_ok pkg (a ++ b) pre -> all_levels_ok pkg a pre.
Proof. intros pkg a b pre H n. eapply levels_ok_app_l. apply H. Qed.
Lemma all_levels_ok_app_r : forall pkg a b pre, all_levels_ok pkg (a ++ b) pre -> all_levels_ok pkg b pre.
Proof. intros pkg a b pre H n. eapply levels_ok_app_r. apply H. Qed.

Lemma raw_top_leaves : forall pkg fl fuel fds raw,
  raw_top pkg fl fuel fds = COk raw ->
  all_levels_ok pkg (flat_map tfields_of_decl fds) [] ->
  map f_path (filter is_leaf_entry raw) = flat_map (decl_leaves_ne pkg fuel) fds.
Proof.
  intros pkg fl fuel fds. induction fds as [|fd fds IH]; intros raw H OK; simpl in H.
  - inversion H; subst. reflexivity.
  - destruct (raw_decl pkg fl fuel fd) as [a| |] eqn:Ea; try discriminate.
    destruct (raw_top pkg fl fuel fds) as [b| |] eqn:Eb; try discriminate.
    inversion H; subst raw. cbn [flat_map] in *. rewrite filter_app, map_app.
    rewrite (IH b eq_refl (all_levels_ok_app_r _ _ _ _ OK)). f_equal.
    unfold raw_decl in Ea. unfold decl_leaves_ne.
    destruct (fd_names fd) as [|x names] eqn:EN.
    + destruct (raw_type pkg fuel 0 [] (fd_ty fd) (parse_new_comment (fd_doc fd))) as [l|] eqn:Er; [|discriminate].
      inversion Ea; subst l.
      assert (R : raw_fields pkg fuel 0 [] (parse_new_comment (fd_doc fd)) (tfields_of_decl fd) = Some (a ++ [])).
      { unfold tfields_of_decl. rewrite EN, raw_fields_cons, Er. reflexivity. }
      rewrite app_nil_r in R.
      apply (raw_leaf_paths pkg fuel 0 [] _ _ a R).
      * unfold tfields_of_decl. rewrite EN. intros nm0 ft0 [Hin|[]]. inversion Hin; subst. reflexivity.
      * eapply all_levels_ok_app_l; eauto.
    + apply (raw_names_leaves _ _ _ _ _ Ea).
Qed.

(* ---------------------------------------------------------- the statements *)
Lemma filter_pentry_leaf : forall hn fs, filter (pentry hn) fs = filter (pentry hn) (filter is_leaf_entry fs).
Proof.
  intros hn fs. induction fs as [|e fs IH]; simpl; auto.
  unfold is_leaf_entry at 1. destruct (f_embedded e) eqn:E; simpl.
  - assert (pentry hn e = false) by (unfold pentry; rewrite E; destruct (f_shadowed e); reflexivity).
    rewrite H. exact IH.
  - destruct (pentry hn e); rewrite IH; reflexivity.
Qed.

Lemma map_leaf_paths : forall (g : field -> field) l,
  (forall e, f_embedded (g e) = f_embedded e) -> (forall e, f_path (g e) = f_path e) ->
  map f_path (filter is_leaf_entry (map g l)) = map f_path (filter is_leaf_entry l).
Proof.
  intros g l Ge Gp. induction l as [|e l IH]; [reflexivity|].
  cbn [map filter]. assert (E : is_leaf_entry (g e) = is_leaf_entry e) by (unfold is_leaf_entry; rewrite Ge; reflexivity).
  rewrite E. destruct (is_leaf_entry e); cbn [map]; rewrite ?Gp, IH; reflexivity.
Qed.

Lemma mark_leaf_paths : forall raw, map f_path (filter is_leaf_entry (mark raw)) = map f_path (filter is_leaf_entry raw).
Proof.
  intros raw. unfold mark, markmap. apply map_leaf_paths.
  - apply mark_with_embedded.
  - apply mark_with_path.
Qed.

(* parameters follow field declaration order, depth first: their paths are an
   order-preserving sub-list of the leaves of the struct graph in that order *)
Theorem params_follow_declaration_order : forall pkg fl fuel sd fs hn,
  flatten pkg fl fuel sd = COk (fs, hn) ->
  c02_guard pkg fuel sd = true ->
  subseq (map f_path (filter (pentry hn) fs)) (leaf_paths pkg fuel (self_inst sd) []).
Proof.
  intros pkg fl fuel sd fs hn H G.
  destruct (c02_guard_parts _ _ _ G) as [GB [GW [GU [GN [GP [GD [GX [GI [GPP GPN]]]]]]]]].
  destruct (flatten_is_marked_raw _ _ _ _ _ _ H) as [raw [Hraw [Hfs Hhn]]].
  rewrite filter_pentry_leaf.
  eapply subseq_trans; [apply subseq_map; apply subseq_filter|].
  subst fs. rewrite mark_leaf_paths.
  rewrite (raw_top_leaves pkg fl fuel (sd_fields sd) raw Hraw).
  2:{ intros n. apply (levels_ok_of_guard pkg fuel sd n GN GB). }
  rewrite top_leaf_paths. apply subseq_flat_map. intros fd _. apply decl_leaves_subseq.
Qed.

(* every leaf of the struct graph is the path of a leaf entry of the flattened list,
   or an excluded field of the struct itself *)
Theorem leaves_covered : forall pkg fl fuel sd fs hn p,
  flatten pkg fl fuel sd = COk (fs, hn) ->
  c02_guard pkg fuel sd = true ->
  In p (leaf_paths pkg fuel (self_inst sd) []) ->
  (exists e, In e fs /\ f_embedded e = false /\ f_path e = p) \/
  (exists fd n, In fd (sd_fields sd) /\ In n (fd_names fd) /\ excluded_decl fd n = true /\ p = [n]).
Proof.
  intros pkg fl fuel sd fs hn p H G Hp.
  destruct (c02_guard_parts _ _ _ G) as [GB [GW [GU [GN [GP [GD [GX [GI [GPP GPN]]]]]]]]].
  destruct (flatten_is_marked_raw _ _ _ _ _ _ H) as [raw [Hraw [Hfs Hhn]]].
  assert (L : map f_path (filter is_leaf_entry fs) = flat_map (decl_leaves_ne pkg fuel) (sd_fields sd)).
  { subst fs. rewrite mark_leaf_paths. apply (raw_top_leaves pkg fl fuel (sd_fields sd) raw Hraw).
    intros n. apply (levels_ok_of_guard pkg fuel sd n GN GB). }
  rewrite top_leaf_paths in Hp. apply in_flat_map in Hp. destruct Hp as [fd [Hfd Hp]].
  unfold decl_leaves, tfields_of_decl in Hp.
  destruct (fd_names fd) as [|x ns] eqn:EN.
  - left. assert (In p (map f_path (filter is_leaf_entry fs))).
    { rewrite L. apply in_flat_map. exists fd. split; auto. unfold decl_leaves_ne, tfields_of_decl. rewrite EN. exact Hp. }
    apply in_map_iff in H0. destruct H0 as [e [Ep He]]. apply filter_In in He. destruct He as [He Hl].
    exists e. unfold is_leaf_entry in Hl. apply negb_true_iff in Hl. auto.
  - rewrite named_decl_leaves in Hp. apply in_map_iff in Hp. destruct Hp as [n [En Hn]]. subst p.
    destruct (excluded_decl fd n) eqn:Ex.
    + right. exists fd, n. rewrite EN. auto.
    + left. assert (In [n] (map f_path (filter is_leaf_entry fs))).
      { rewrite L. apply in_flat_map. exists fd. split; auto. unfold decl_leaves_ne. rewrite EN.
        apply in_map_iff. exists n. split; [reflexivity|]. apply filter_In. split; auto. rewrite Ex. reflexivity. }
      apply in_map_iff in H0. destruct H0 as [e [Ep He]]. apply filter_In in He. destruct He as [He Hl].
      exists e. unfold is_leaf_entry in Hl. apply negb_true_iff in Hl. auto.
Qed.

(* the guard on the input makes the parameter names distinct *)
Theorem params_distinct : forall pkg fl fuel sd fs hn,
  flatten pkg fl fuel sd = COk (fs, hn) ->
  c02_guard pkg fuel sd = true ->
  NoDup (map fst (nd_params (make_new sd hn fs))).
Proof.
  intros pkg fl fuel sd fs hn H G.
  destruct (c02_guard_parts _ _ _ G) as [GB [GW [GU [GN [GP [GD [GX [GI [GPP GPN]]]]]]]]].
  destruct (new_param_list pkg fl fuel sd fs hn H G) as [_ [Hparams _]].
  rewrite Hparams.
  destruct (flatten_is_marked_raw _ _ _ _ _ _ H) as [raw [Hraw [Hfs Hhn]]].
  assert (Last : forall e, In e fs -> last (f_path e) ""%string = f_name e).
  { intros e He. subst fs. destruct (in_mark _ _ He) as [e0 [He0 Ee]]. subst e.
    rewrite mark_with_path, mark_with_name.
    destruct (raw_path_last pkg fl fuel sd raw e0 Hraw GB GW GU GN GX He0) as [pre Hp].
    rewrite Hp. apply last_last. }
  assert (E : map fst (map (fun e => (to_camel_case (f_name e), star_type e)) (filter (pentry hn) fs)) =
              map (fun p => to_camel_case (last p ""%string)) (map f_path (filter (pentry hn) fs))).
  { rewrite !map_map. apply map_ext_in. intros e He. apply filter_In in He. cbv beta. cbn [fst].
    f_equal. symmetry. apply (Last e). tauto. }
  cut (NoDup (map (fun p => to_camel_case (last p ""%string)) (map f_path (filter (pentry hn) fs)))).
  { intros HN. rewrite <- E in HN. exact HN. }
  unfold param_names_ok in GPN. apply andb_true_iff in GPN. destruct GPN as [GPN _].
  apply nodup_str_NoDup in GPN.
  eapply subseq_NoDup; [|exact GPN]. apply subseq_map.
  unfold selectable_leaves. apply subseq_filter_r.
  - eapply params_follow_declaration_order; eauto.
  - intros p Hp. apply in_map_iff in Hp. destruct Hp as [e [Ep He]]. subst p.
    apply filter_In in He. destruct He as [He Hpe].
    assert (Le : last (f_path e) ""%string = f_name e) by (apply Last; exact He).
    unfold ident in *. rewrite Le.
    assert (Hs : f_shadowed e = false) by (unfold pentry in Hpe; destruct (f_shadowed e); [discriminate|reflexivity]).
    rewrite (proj1 (shadow_refines_selector pkg fl fuel sd fs hn e H GB GW GU GN GX He) Hs).
    apply path_eqb_refl.
Qed.

(* the wiring theorem with the distinctness of the parameter names discharged from the guard *)
Theorem new_wiring_guarded : forall pkg fl fuel sd fs hn vals,
  flatten pkg fl fuel sd = COk (fs, hn) ->
  c02_guard pkg fuel sd = true ->
  let nd := make_new sd hn fs in
  length vals = length (nd_params nd) ->
  exists v, eval_new pkg fuel sd (nd_body nd) (bind_args (nd_params nd) vals) = Ok v /\
    (forall i p t, nth_error (nd_params nd) i = Some (p, t) ->
       exists e, In e fs /\ f_embedded e = false /\ f_shadowed e = false /\
                 p = to_camel_case (f_name e) /\ t = star_type e /\
                 resolve pkg fuel sd (f_name e) = Some (f_path e) /\
                 excluded_top sd (f_path e) = false /\
                 (has_new_spec sd = true -> marked_new sd (f_path e) = true) /\
                 lookup v (f_path e) = Ok (nth i vals VZero)) /\
    (forall e, In e fs -> f_embedded e = false -> pentry hn e = false ->
       lookup v (f_path e) = Ok (default_or_zero (def_text sd (f_path e)))) /\
    (forall fd n, In fd (sd_fields sd) -> In n (fd_names fd) -> excluded_decl fd n = true ->
       lookup v [n] = Ok VZero) /\
    (forall e, In e fs -> f_embedded e = true ->
       exists kv, lookup v (f_path e) = Ok (if f_ptr e then VPtr (VStruct kv) else VStruct kv)).
Proof.
  intros pkg fl fuel sd fs hn vals H G nd Hlen.
  apply (new_wiring pkg fl fuel sd fs hn vals H G); auto.
  eapply params_distinct; eauto.
Qed.

(* ------------------------------------------------------------- termination *)
(* running out of fuel exhibits a field occurrence at depth = fuel *)
Lemma raw_fields_none_level : forall pkg fu depth pre is_new fs pre',
  raw_fields pkg fu depth pre is_new fs = None -> level_fields pkg fu fs pre' <> [].
Proof.
  intros pkg fu. induction fu as [|fu IH]; intros depth pre is_new fs;
    induction fs as [|[[nm ft] emb] fs IHfs]; intros pre' H; try discriminate;
    rewrite raw_fields_cons in H.
  - rewrite level_fields_cons. intros E. apply app_eq_nil in E. destruct E as [E1 E2].
    destruct emb.
    + rewrite raw_type_unfold in H. destruct (struct_of pkg ft) as [si|] eqn:Es.
      * destruct (raw_fields pkg fu (S depth) (f_path (embedded_entry ft depth pre)) is_new (struct_fields si)) as [l'|] eqn:El.
        -- cbn [option_map] in H.
           destruct (raw_fields pkg (S fu) depth pre is_new fs) eqn:Eb; [discriminate|].
           exact (IHfs pre' eq_refl E2).
        -- simpl in E1. rewrite Es, app_nil_r in E1. exact (IH _ _ _ _ (pre' ++ [nm]) El E1).
      * destruct (raw_fields pkg (S fu) depth pre is_new fs) eqn:Eb; [discriminate|].
        exact (IHfs pre' eq_refl E2).
    + destruct (raw_fields pkg (S fu) depth pre is_new fs) eqn:Eb; [discriminate|].
      exact (IHfs pre' eq_refl E2).
Qed.

Lemma raw_top_out_of_fuel_level : forall pkg fl fuel fds,
  raw_top pkg fl fuel fds = COutOfFuel -> level_fields pkg fuel (flat_map tfields_of_decl fds) [] <> [].
Proof.
  intros pkg fl fuel fds. induction fds as [|fd fds IH]; intros H; simpl in H; [discriminate|].
  cbn [flat_map]. rewrite level_fields_app. intros E. apply app_eq_nil in E. destruct E as [E1 E2].
  destruct (raw_decl pkg fl fuel fd) as [a| |] eqn:Ea.
  - destruct (raw_top pkg fl fuel fds) as [b| |] eqn:Eb; try discriminate. exact (IH eq_refl E2).
  - discriminate.
  - unfold raw_decl in Ea. unfold tfields_of_decl in E1. destruct (fd_names fd) as [|x ns] eqn:EN.
    + destruct (raw_type pkg fuel 0 [] (fd_ty fd) (parse_new_comment (fd_doc fd))) eqn:Er; [discriminate|].
      assert (R : raw_fields pkg fuel 0 [] (parse_new_comment (fd_doc fd)) [(short_name (fd_ty fd), fd_ty fd, true)] = None).
      { rewrite raw_fields_cons, Er. reflexivity. }
      exact (raw_fields_none_level _ _ _ _ _ _ [] R E1).
    + clear - Ea. exfalso. revert Ea. generalize (x :: ns). intros names.
      induction names as [|n names IHn]; simpl; [discriminate|].
      destruct (String.prefix "_" n); auto. destruct (tag_is_dash (fd_tag fd)); auto.
      destruct (if fl_getset fl then parse_get_set (fd_doc fd) n else Some (false, false)) as [[g s]|]; [|discriminate].
      destruct (raw_names fl fd (parse_new_comment (fd_doc fd)) names); try discriminate. auto.
Qed.

(* with the embedding depth below the fuel the analysis terminates: flatten never
   reports OutOfFuel (the guard really is an acyclicity / depth guard) *)
Theorem flatten_terminates : forall pkg fl fuel sd,
  depth_bounded pkg fuel sd = true -> flatten pkg fl fuel sd <> COutOfFuel.
Proof.
  intros pkg fl fuel sd GB H. unfold flatten in H. rewrite extract_top_is_fold in H.
  destruct (raw_top pkg fl fuel (sd_fields sd)) as [raw| |] eqn:E; try discriminate.
  apply raw_top_out_of_fuel_level in E. unfold depth_bounded in GB.
  rewrite level_is_fields, struct_fields_self in GB. unfold top_tfields in GB.
  destruct (level_fields pkg fuel (flat_map tfields_of_decl (sd_fields sd)) []); [congruence|discriminate].
Qed.
