(* vm_compute facts about the concrete pairs of MapperExamples.v: non-vacuity
   Examples and refutation witnesses of the open findings. *)
From Coq Require Import String List ZArith Bool.
From Shoot Require Import Base.Str Model.MapVal Model.Mapper Model.MapperEval Model.MapperSpec Corr.MapperCorr
     Proofs.MapperExamples.
Import ListNotations.
Local Open Scope string_scope.

Definition job_of (ps : pairspec) (n : string) : job :=
  match find_job (ps_jobs ps) n with
  | Some j => j
  | None => Build_job [] 0 "" "" [] false [] [] [] [] false None None None
  end.

Definition id_oracle : oracle := fun m => m.

(* (destination, source, strategy, read guard) of every statement *)
Definition summary (p : plan) : list (string * string * strategy * list path) :=
  map (fun s => (r_name (st_dst s), r_name (st_src s), st_how s, st_guard s)) (pl_stmts p).

(* run ToX / FromX of the pair's root type T through the model *)
Definition run_to (ps : pairspec) (v : val) : out val :=
  match plans_of ps with
  | Some pe => eval_to (ps_env ps) (ps_fuel ps) (usem_of ps) pe run_fuel "T" v
  | None => Stuck
  end.
Definition run_from (ps : pairspec) (recv v : val) : out val :=
  match plans_of ps with
  | Some pe => eval_from (ps_env ps) (ps_fuel ps) (usem_of ps) pe run_fuel "T" recv v
  | None => Stuck
  end.
Definition want_to (ps : pairspec) (v : val) : option val :=
  spec_to (ps_env ps) (ps_fuel ps) (usem_of ps) (ps_jobs ps) run_fuel "T" v.

Lemma ex1_guard : pair_guard (ps_env ex1) (ps_fuel ex1) (ps_jobs ex1) = true.
Proof. vm_compute. reflexivity. Qed.

Lemma ex1_plan :
  option_map (fun a => (summary (a_to a), pl_alloc (a_to a))) (analyse id_oracle (job_of ex1 "T")) =
  Some ([("EP", "EP", SConv (TBasic BInt32) (TBasic BInt64), [["EmbP"]]);
         ("DP", "DP", SAssign, [["EmbP"]; ["EmbP"; "Deep"]]);
         ("ID", "ID", SAssign, []);
         ("UserId", "UserID", SConv (TBasic BInt64) (TBasic BInt), []);
         ("Str", "S2", SAssign, []);
         ("Amount", "Amount", SFunc "StrToI64", []);
         ("In", "In", SMap false true "Inner" "Inner", []);
         ("InP", "InP", SMap true false "Inner" "Inner", []);
         ("Ins", "Ins", SEach false true "Inner" "Inner", []);
         ("InPs", "InPs", SEach true false "Inner" "Inner", []);
         ("Lv", "Lv", SConv (TNamed (POth "common") "Level") (TNamed PDst "Status"), [])],
        [(["EmbV"; "Deep"], TNamed PDst "Deep")]).
Proof. vm_compute. reflexivity. Qed.

Lemma ex1_values :
  (exists d, run_to ex1 (VPtr ex1_v) = Ok (VPtr d) /\ want_to ex1 (VPtr ex1_v) = Some (VPtr d)
             /\ get_path d ["UserId"] = Ok (VInt 77) /\ get_path d ["Amount"] = Ok (VInt 8)
             /\ get_path d ["DP"] = Stuck /\ get_path d ["EmbV"; "Deep"; "DP"] = Ok (VStr "deep")
             /\ get_path d ["Skip"] = Ok (VInt 0) /\ get_path d ["N8"] = Ok (VStr ""))
  /\ (exists d, run_to ex1 (VPtr ex1_v_nils) = Ok (VPtr d) /\ want_to ex1 (VPtr ex1_v_nils) = Some (VPtr d)
                /\ get_path d ["EmbV"; "EP"] = Ok (VInt 0) /\ get_path d ["Ins"] = Ok VNil
                /\ get_path d ["UserId"] = Ok (VInt 1099511627781))
  /\ run_to ex1 VNil = Ok VNil.
Proof.
  split; [|split].
  - eexists. vm_compute. repeat split; reflexivity.
  - eexists. vm_compute. repeat split; reflexivity.
  - vm_compute. reflexivity.
Qed.

Lemma ex2_guard : pair_guard (ps_env ex2) (ps_fuel ex2) (ps_jobs ex2) = true.
Proof. vm_compute. reflexivity. Qed.

Lemma ex2_round_trip :
  bind (run_to ex2 (VPtr ex2_v)) (fun d => run_from ex2 VNil d) = Ok (VPtr ex2_v).
Proof. vm_compute. reflexivity. Qed.

Lemma ex2_nil_embed :
  bind (run_to ex2 (VPtr ex2_v_nil)) (fun d => run_from ex2 VNil d)
  = Ok (VPtr (VStruct [("Emb", VPtr (VStruct [("X", VInt 0)])); ("ID", VInt 1); ("Name", VStr "n"); ("Tags", VNil)]))
  /\ get_path ex2_v_nil ["Emb"] = Ok VNil.
Proof. vm_compute. split; reflexivity. Qed.

(* ex3: A `map:"X"` and X on the source side, X on the destination side *)
Lemma ex3_fanout :
  exists a sf df,
    analyse id_oracle (job_of ex3 "T") = Some a
    /\ In sf (s_src (a_state a)) /\ In df (s_dst (a_state a))
    /\ f_name sf = "A" /\ f_name df = "X"
    /\ can_name_match sf df (p_tags (a_src_parsed a)) false = true
    /\ type_equals (f_ty df) (f_ty sf) = true
    /\ ~ In "A" (map (fun st => r_name (st_dst st)) (pl_stmts (a_from a))).
Proof.
  destruct (analyse id_oracle (job_of ex3 "T")) as [a|] eqn:E; [|vm_compute in E; discriminate].
  exists a, (src_at (a_state a) 0), (dst_at (a_state a) 0).
  vm_compute in E. inversion E; subst; clear E.
  vm_compute. repeat split; auto. intros [H|[]]. discriminate.
Qed.

(* ex4: `map:"-"` on a field of an embedded struct *)
Lemma ex4_nested_tag :
  option_map (fun a => summary (a_to a)) (analyse id_oracle (job_of ex4 "T"))
  = Some [("Secret", "Secret", SAssign, []); ("ID", "ID", SAssign, [])]
  /\ exists fs, lookup_decl (ps_env ex4) PSrc "Base" = Some (DStruct fs)
                /\ In {| sf_name := "Secret"; sf_emb := false; sf_ty := TBasic BInt; sf_tag := "-" |} fs.
Proof.
  split; [vm_compute; reflexivity|]. eexists. split; [vm_compute; reflexivity|]. left. reflexivity.
Qed.

(* ------------------------------------------------------------- C09 examples *)
From Shoot Require Import Model.MapperSafe Proofs.MapperSafeProofs.

Definition pe_of (ps : pairspec) : penv := match plans_of ps with Some pe => pe | None => [] end.

Lemma ex1_safe : plans_safe (ps_env ex1) (ps_fuel ex1) (pe_of ex1) = true.
Proof. vm_compute. reflexivity. Qed.

Lemma ex2_safe : plans_safe (ps_env ex2) (ps_fuel ex2) (pe_of ex2) = true.
Proof. vm_compute. reflexivity. Qed.

(* the same plans with the read guards removed are rejected by the check, and do panic *)
Definition strip_guards (tp : tplans) : tplans :=
  {| tp_src := tp_src tp; tp_dst := tp_dst tp;
     tp_to := {| pl_ctor := pl_ctor (tp_to tp); pl_alloc := pl_alloc (tp_to tp);
                 pl_stmts := map (fun s => {| st_dst := st_dst s; st_src := st_src s; st_how := st_how s; st_guard := [] |})
                                 (pl_stmts (tp_to tp));
                 pl_manual := pl_manual (tp_to tp); pl_reset := pl_reset (tp_to tp) |};
     tp_from := tp_from tp; tp_src_acc := tp_src_acc tp; tp_dst_acc := tp_dst_acc tp;
     tp_src_ptr := tp_src_ptr tp; tp_dst_ptr := tp_dst_ptr tp; tp_mapper_hop := tp_mapper_hop tp |}.

Lemma ex1_unguarded :
  plans_safe (ps_env ex1) (ps_fuel ex1) (map strip_guards (pe_of ex1)) = false
  /\ eval_to (ps_env ex1) (ps_fuel ex1) (usem_of ex1) (map strip_guards (pe_of ex1)) run_fuel "T" (VPtr ex1_v_nils) = Panic.
Proof. vm_compute. split; reflexivity. Qed.

(* without the allocations: rejected, and panics *)
Definition strip_allocs (tp : tplans) : tplans :=
  {| tp_src := tp_src tp; tp_dst := tp_dst tp; tp_to := tp_to tp;
     tp_from := {| pl_ctor := pl_ctor (tp_from tp); pl_alloc := []; pl_stmts := pl_stmts (tp_from tp);
                   pl_manual := pl_manual (tp_from tp); pl_reset := pl_reset (tp_from tp) |};
     tp_src_acc := tp_src_acc tp; tp_dst_acc := tp_dst_acc tp;
     tp_src_ptr := tp_src_ptr tp; tp_dst_ptr := tp_dst_ptr tp; tp_mapper_hop := tp_mapper_hop tp |}.

Lemma ex2_unallocated :
  plans_safe (ps_env ex2) (ps_fuel ex2) (map strip_allocs (pe_of ex2)) = false
  /\ eval_from (ps_env ex2) (ps_fuel ex2) (usem_of ex2) (map strip_allocs (pe_of ex2)) run_fuel "T" VNil (VPtr ex2_v) = Panic.
Proof. vm_compute. split; reflexivity. Qed.

Lemma ex1_v_nils_typed : has_ty (ps_env ex1) (VPtr ex1_v_nils) (TPtr (TNamed PSrc "T")).
Proof. apply (has_ty_b_sound _ 8). vm_compute. reflexivity. Qed.

Lemma ex5_nil_receiver :
  run_from ex5 VNil (VPtr ex5_d) = Panic
  /\ (exists s, run_from ex5 (VPtr ex5_dirty) (VPtr ex5_d) = Ok (VPtr s)).
Proof. split; [vm_compute; reflexivity | eexists; vm_compute; reflexivity]. Qed.

(* ------------------------------------------------------------- C15 examples *)
From Shoot Require Import Model.MapperSpec15.

Definition want15_to (ps : pairspec) (v : val) : option val :=
  spec15_to (ps_env ps) (ps_fuel ps) (usem_of ps) (ps_jobs ps) run_fuel "T" v.

Lemma ex6_guard : pair_guard15 (ps_env ex6) (ps_fuel ex6) (ps_jobs ex6) = true.
Proof. vm_compute. reflexivity. Qed.

Lemma ex6_plan :
  option_map (fun a => (pl_ctor (a_to a), summary (a_to a))) (analyse id_oracle (job_of ex6 "T")) =
  Some (Some [(["id"], CVal {| r_name := "ID"; r_path := ["ID"]; r_acc := false |} SAssign);
              (["name"], CVal {| r_name := "Name"; r_path := ["Name"]; r_acc := false |} SAssign);
              (["count"], CVal {| r_name := "Count"; r_path := ["Count"]; r_acc := false |} (SConv (TBasic BInt32) (TBasic BInt64)));
              (["in"], CZero (TNamed PDst "Inner"));
              (["amount"], CVal {| r_name := "Amount"; r_path := ["Amount"]; r_acc := false |} (SFunc "F0"))],
        [("SetIn", "In", SMap false false "Inner" "Inner", [])]).
Proof. vm_compute. reflexivity. Qed.

(* through the constructor and the setter the same values arrive as with plain exported fields *)
Lemma ex6_values :
  run_to ex6 (VPtr ex6_v) =
    Ok (VPtr (VStruct [("id", VInt 7); ("name", VStr "n"); ("count", VInt (-3));
                       ("in", VStruct [("A", VInt 4); ("B", VInt 0)]); ("amount", VInt 5)]))
  /\ run_to ex6p (VPtr ex6_v) =
    Ok (VPtr (VStruct [("Id", VInt 7); ("Name", VStr "n"); ("Count", VInt (-3));
                       ("In", VStruct [("A", VInt 4); ("B", VInt 0)]); ("Amount", VInt 5)]))
  /\ want15_to ex6 (VPtr ex6_v) = out_opt (run_to ex6 (VPtr ex6_v)).
Proof. vm_compute. repeat split; reflexivity. Qed.

(* ex7: the constructor prefers the conversion to the mapper method (a = 1, C05 prescribes F(1) = 6) and a
   constructor-only sub-struct field stays zero (C05 prescribes In.ToDest()) *)
Lemma ex7_ctor_findings :
  run_to ex7 (VPtr ex7_v) = Ok (VPtr (VStruct [("a", VInt 1); ("in", VStruct [("A", VInt 0); ("B", VInt 0)])]))
  /\ want15_to ex7 (VPtr ex7_v) = Some (VPtr (VStruct [("a", VInt 6); ("in", VStruct [("A", VInt 4); ("B", VInt 0)])]))
  /\ pair_guard15 (ps_env ex7) (ps_fuel ex7) (ps_jobs ex7) = false.
Proof. vm_compute. repeat split; reflexivity. Qed.

(* ex1 satisfies the hypotheses of C05_complete_claimed_partial (non-vacuity): the pair (UserID, UserId) *)
From Shoot Require Import Proofs.MapperCompleteProofs.
Lemma ex1_complete_hyps :
  exists pr, prepare (job_of ex1 "T") = Some pr
             /\ match_inj (p_tags (pr_src pr)) false (pr_s0 pr)
             /\ f_name (src_at (pr_s0 pr) 3) = "UserID" /\ f_name (dst_at (pr_s0 pr) 3) = "UserId"
             /\ can_name_match (src_at (pr_s0 pr) 3) (dst_at (pr_s0 pr) 3) (p_tags (pr_src pr)) false = true
             /\ match_applicable (ps_env ex1) (f_ty (src_at (pr_s0 pr) 3)) (f_ty (dst_at (pr_s0 pr) 3)).
Proof.
  destruct (prepare (job_of ex1 "T")) as [pr|] eqn:E; [|vm_compute in E; discriminate].
  exists pr. split; auto. vm_compute in E. inversion E; subst; clear E.
  split; [apply match_inj_b_sound; vm_compute; reflexivity|].
  vm_compute. repeat split; reflexivity.
Qed.

(* ex8: the constructor argument uses the LAST of two same-signature methods (9 = len "ab" + 7), C05 prescribes the first (3) *)
Lemma ex8_func_last :
  run_to ex8 (VPtr ex8_v) = Ok (VPtr (VStruct [("ratio", VInt 9)]))
  /\ want15_to ex8 (VPtr ex8_v) = Some (VPtr (VStruct [("ratio", VInt 3)]))
  /\ pair_guard15 (ps_env ex8) (ps_fuel ex8) (ps_jobs ex8) = false.
Proof. vm_compute. repeat split; reflexivity. Qed.

(* ex9 (K_map_mapper_ptr_embedded): FromX panics for EVERY receiver -- its own reset
   `*t = T{}` sets t.Mapper to nil and the next `t.I8ToStr(x)` dereferences it; ToX
   panics iff the receiver's Mapper is nil.  The pair is outside gen_guard and
   pair_guard, its plans are rejected by the safety check *)
Lemma ex9_mapper_ptr :
  run_from ex9 VNil (VPtr ex9_d) = Panic
  /\ run_from ex9 (VPtr ex9_dirty) (VPtr ex9_d) = Panic
  /\ run_to ex9 (VPtr ex9_v_nil) = Panic
  /\ (exists d, run_to ex9 (VPtr ex9_v) = Ok (VPtr d))
  /\ has_ty (ps_env ex9) (VPtr ex9_v_nil) (TPtr (TNamed PSrc "T"))
  /\ has_ty (ps_env ex9) (VPtr ex9_d) (TPtr (TNamed PDst "T"))
  /\ plans_safe (ps_env ex9) (ps_fuel ex9) (pe_of ex9) = false
  /\ pair_guard (ps_env ex9) (ps_fuel ex9) (ps_jobs ex9) = false.
Proof.
  split; [vm_compute; reflexivity|]. split; [vm_compute; reflexivity|]. split; [vm_compute; reflexivity|].
  split; [eexists; vm_compute; reflexivity|].
  split; [apply (has_ty_b_sound _ 8); vm_compute; reflexivity|].
  split; [apply (has_ty_b_sound _ 8); vm_compute; reflexivity|].
  split; vm_compute; reflexivity.
Qed.

(* the reset matters: the same FromX plan of ex2 without it keeps what the plan does not overwrite *)
Definition no_reset (tp : tplans) : tplans :=
  {| tp_src := tp_src tp; tp_dst := tp_dst tp; tp_to := tp_to tp;
     tp_from := {| pl_ctor := pl_ctor (tp_from tp); pl_alloc := pl_alloc (tp_from tp);
                   pl_stmts := filter (fun s => negb (String.eqb (r_name (st_dst s)) "Name")) (pl_stmts (tp_from tp));
                   pl_manual := pl_manual (tp_from tp); pl_reset := false |};
     tp_src_acc := tp_src_acc tp; tp_dst_acc := tp_dst_acc tp;
     tp_src_ptr := tp_src_ptr tp; tp_dst_ptr := tp_dst_ptr tp; tp_mapper_hop := tp_mapper_hop tp |}.

Definition ex2_dirty : val :=
  VStruct [("Emb", VNil); ("ID", VInt 7); ("Name", VStr "previous"); ("Tags", VNil)].

(* with the reset (the real plan, minus the statement for Name) the previous Name is gone;
   without it the previous Name survives: the flag is what makes the result independent
   of the receiver's content *)
Lemma ex2_reset_matters :
  let pe := map no_reset (pe_of ex2) in
  let run r := eval_from (ps_env ex2) (ps_fuel ex2) (usem_of ex2) pe run_fuel "T" r (VPtr ex2_v) in
  (exists s, run (VPtr ex2_dirty) = Ok (VPtr s) /\ get_path s ["Name"] = Ok (VStr "previous"))
  /\ (exists s, run VNil = Ok (VPtr s) /\ get_path s ["Name"] = Ok (VStr ""))
  /\ run (VPtr ex2_dirty) <> run VNil.
Proof.
  cbv zeta. split; [eexists; split; vm_compute; reflexivity|]. split; [eexists; split; vm_compute; reflexivity|].
  vm_compute. discriminate.
Qed.

Definition spec_pairs (l : list (leaf * leaf * strategy)) : list (string * string * strategy) :=
  map (fun x => (l_name (fst (fst x)), l_name (snd (fst x)), snd x)) l.

(* ex10 (K_map_tag_underscore): the declarative reading maps Title <- User_Name and
   Nick_name <- Alpha through their tags; the plan has only the snake_case tag and ID *)
Lemma ex10_tag_underscore :
  spec_pairs (pairs_to (ps_env ex10) (ps_fuel ex10) (job_of ex10 "T"))
  = [("Title", "User_Name", SAssign); ("Nick_name", "Alpha", SAssign); ("ZipCode", "Beta", SAssign); ("ID", "ID", SAssign)]
  /\ option_map (fun a => summary (a_to a)) (analyse id_oracle (job_of ex10 "T"))
     = Some [("ZipCode", "Beta", SAssign, []); ("ID", "ID", SAssign, [])]
  /\ pair_guard (ps_env ex10) (ps_fuel ex10) (ps_jobs ex10) = false.
Proof. vm_compute. repeat split; reflexivity. Qed.

(* ex11 (K_map_embedded_nonstruct): the embedded common.Level is a field named Level;
   the plan does not contain it *)
Lemma ex11_embedded_nonstruct :
  spec_pairs (pairs_to (ps_env ex11) (ps_fuel ex11) (job_of ex11 "T"))
  = [("Level", "Level", SConv (TNamed (POth "common") "Level") (TBasic BInt16)); ("ID", "ID", SAssign)]
  /\ option_map (fun a => summary (a_to a)) (analyse id_oracle (job_of ex11 "T"))
     = Some [("ID", "ID", SAssign, [])]
  /\ pair_guard (ps_env ex11) (ps_fuel ex11) (ps_jobs ex11) = false.
Proof. vm_compute. repeat split; reflexivity. Qed.

(* ex12: the NAME-level statements hold (SetA is written once, SetB is covered by the
   constructor) although the field x is written twice; tables_wf rejects the tables *)
Lemma ex12_names_are_not_storage :
  option_map (fun a => (option_map (map fst) (pl_ctor (a_to a)),
                        map (fun st => (r_name (st_dst st), write_path (j_dst_acc ex12_job) (st_dst st))) (pl_stmts (a_to a))))
             (analyse id_oracle ex12_job)
  = Some (Some [["x"]], [("SetA", Some ["x"])])
  /\ tables_wf ex12_job = false.
Proof. vm_compute. split; reflexivity. Qed.

(* ex5, FromX into a shoot-new SOURCE: both fields arrive through the constructor call
   (note through the mapper method F, count by assignment), the setter SetCount is not
   called (count is covered), ToX reads count through its getter; the tables are well formed *)
Lemma ex5_from_plan :
  option_map (fun a => (pl_ctor (a_from a), summary (a_from a),
                        map (fun st => (r_name (st_src st), r_acc (st_src st), r_name (st_dst st))) (pl_stmts (a_to a))))
             (analyse id_oracle (job_of ex5 "T"))
  = Some (Some [(["note"], CVal {| r_name := "Note"; r_path := ["Note"]; r_acc := false |} (SFunc "F"));
                (["count"], CVal {| r_name := "Count"; r_path := ["Count"]; r_acc := false |} SAssign)],
          [], [("Count", true, "Count")])
  /\ run_from ex5 (VPtr ex5_dirty) (VPtr ex5_d)
     = Ok (VPtr (VStruct [("Mapper", VStruct []); ("note", VStr "o#v"); ("count", VInt 9)]))
  /\ tables_wf (job_of ex5 "T") = true /\ tables_wf (job_of ex6 "T") = true.
Proof. vm_compute. repeat split; reflexivity. Qed.
