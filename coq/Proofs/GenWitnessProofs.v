(* The open findings of C07 / C08 reproduced in the model (the faithful model has the defect; the guards of the
   theorems exclude exactly these input classes).  Evaluated with vm_compute. *)
From Coq Require Import List String Ascii Bool Arith ZArith.
From Shoot Require Import Model.Gen Proofs.GenResetProofs.
Import ListNotations.
Local Open Scope string_scope.

Definition mkpkg (hw : list hfile) : pkg := {| p_hw := hw; p_aux := []; p_destname := ""; p_dest := []; p_destaux := [] |}.
Definition cmd_new_file (line file : string) (getset json : bool) : cmd :=
  {| c_sub := CNew; c_line := line; c_types := []; c_star := false; c_file := file; c_sepflag := false;
     c_getset := getset; c_json := json; c_opt := false; c_short := false; c_ejson := false; c_etext := false; c_toonly := false; c_fromonly := false |}.

Definition toks_of_files (r : option gfiles) : list (string * list (list string)) :=
  match r with Some fs => map (fun e => (fst e, map d_toks (a_decls (snd e)))) (listing fs) | None => [] end.

(* K_embed_order: Son (embedding Base) is declared before Base *)
Definition hw_eo : list hfile :=
  [hfile1 "f.go" [strct "Son" [IEmbed "Base" false false; IField (fld "k" "string")]; strct "Base" [IField (fld "z" "string")]]].
Definition c_eo := cmd_new_file "shoot new -getset -file=f.go" "f.go" true false.
Definition run1_eo := run_generate id_oracle (mkpkg hw_eo) [] c_eo.
Definition run2_eo := run_generate id_oracle (mkpkg hw_eo) (match run1_eo with Some fs => fs | None => [] end) c_eo.

Lemma embed_order_not_fixpoint : toks_of_files run1_eo <> toks_of_files run2_eo.
Proof. vm_compute. discriminate. Qed.

Definition c_eo_sb := cmd_new "shoot new -getset -type=Son,Base" ["Son"; "Base"] true false.
Definition c_eo_bs := cmd_new "shoot new -getset -type=Base,Son" ["Base"; "Son"] true false.
Lemma embed_order_permutation_matters :
  toks_of_files (run_generate id_oracle (mkpkg hw_eo) [] c_eo_sb) <> toks_of_files (run_generate id_oracle (mkpkg hw_eo) [] c_eo_bs).
Proof. vm_compute. discriminate. Qed.

(* K_aio_overlay_stale: all-in-one output, the type names sort after the all-in-one file name, a field is added *)
Definition hw_as (extra : list sitem) : list hfile :=
  [hfile1 "f.go" [strct "Zbase" ([IField (fld "z" "string"); IField (fld "b" "int")] ++ extra);
                  strct "Zson" [IEmbed "Zbase" false false; IField (fld "k" "string")]]].
Definition c_as := cmd_new_file "shoot new -getset -json -file=f.go" "f.go" true true.
Definition stale_as := match run_generate id_oracle (mkpkg (hw_as [])) [] c_as with Some fs => fs | None => [] end.
Definition hw_as2 := hw_as [IField (fld "c" "bool")].

Lemma aio_overlay_stale_history_dependent :
  toks_of_files (run_generate id_oracle (mkpkg hw_as2) stale_as c_as) <> toks_of_files (run_generate id_oracle (mkpkg hw_as2) [] c_as).
Proof. vm_compute. discriminate. Qed.

(* K_merge_stray_comment: the rest template ends ShootRest() with a comment and continues with the doc-less init() *)
Definition two_decls : list adecl :=
  [ {| d_name := "a.ShootRest"; d_kind := KMethod "a"; d_doc := true; d_tail := true; d_needs := []; d_toks := [] |};
    {| d_name := "init"; d_kind := KFunc; d_doc := false; d_tail := false; d_needs := []; d_toks := [] |} ].
Lemma merge_stray_comment : option_map a_stray (merge [mk_file "x" two_decls]) = Some ["init"].
Proof. reflexivity. Qed.

(* K_filename_case_clash (repaired in /repo): Foo and FOO share the output file x.shootnew.foo.go; both orders are now refused *)
Definition hw_cc : list hfile :=
  [hfile1 "x.go" [strct "Foo" [IField (fld "a" "int")]; strct "FOO" [IField (fld "b" "string")]]].
Definition c_cc_1 := cmd_new "shoot new -type=Foo,FOO" ["Foo"; "FOO"] false false.
Definition c_cc_2 := cmd_new "shoot new -type=FOO,Foo" ["FOO"; "Foo"] false false.
Lemma case_clash_refused :
  run_generate id_oracle (mkpkg hw_cc) [] c_cc_1 = None /\ run_generate id_oracle (mkpkg hw_cc) [] c_cc_2 = None.
Proof. split; vm_compute; reflexivity. Qed.

(* K_new_selects_generated: after `shoot rest -type=Client`, `shoot new -type=*` also selects the client struct that
   rest generated (an unexported struct in a generated file): its type list depends on earlier shoot output *)
Definition hw_ng : list hfile :=
  [hfile1 "api.go" [HIface {| ri_name := "Client"; ri_headers := [];
                              ri_methods := [ {| rm_name := "Ping"; rm_hasdoc := true; rm_verb := "GET"; rm_path := "/p"; rm_pparams := [];
                                                 rm_alias := []; rm_params := []; rm_result := ""; rm_result_ptr := false |} ] |};
                    strct "Order" [IField (fld "id" "int")]]].
Definition c_rest_client : cmd :=
  {| c_sub := CRest; c_line := "shoot rest -type=Client"; c_types := ["Client"]; c_star := false; c_file := ""; c_sepflag := false;
     c_getset := false; c_json := false; c_opt := false; c_short := false; c_ejson := false; c_etext := false; c_toonly := false; c_fromonly := false |}.
Definition rest_out_ng : gfiles := match run_generate id_oracle (mkpkg hw_ng) [] c_rest_client with Some fs => fs | None => [] end.
Lemma new_selects_generated :
  list_types_of CNew (mk_view hw_ng [] []) = ["Order"] /\
  list_types_of CNew (mk_view hw_ng rest_out_ng []) = ["Order"; "client"].
Proof. split; vm_compute; reflexivity. Qed.
