(* Facts about parseFields / appendOrReplace / compatlize of Model/Mapper.v:
   every produced Field is fresh (no Target, no strategy flag) and the names
   in a field list are pairwise distinct. *)
From Coq Require Import String Ascii List Bool Arith Lia.
From Shoot Require Import Base.Str Model.Transfer Model.MapVal Model.Mapper Proofs.MapperProofs.
Import ListNotations.
Local Open Scope string_scope.
Local Open Scope list_scope.

Definition fresh (f : field) : Prop := flagcount f = 0 /\ f_target f = None.

Lemma fresh_new n p t d : fresh (new_field n p t d).
Proof. split; reflexivity. Qed.

Lemma fresh_set_place p t d f : fresh f -> fresh (set_place p t d f).
Proof. intros (A & B). split; auto. Qed.

Lemma fresh_pseudo a : fresh (pseudo_field a).
Proof. unfold pseudo_field. destruct (ac_set a); split; reflexivity. Qed.

Lemma fresh_ctor c : fresh (ctor_field c).
Proof. split; reflexivity. Qed.

(* ---------------------------------------------------- appendOrReplace *)
Definition has_name (n : string) (fs : list field) : bool := existsb (fun f => String.eqb (f_name f) n) fs.

Lemma aor_scan_spec : forall fs nf found fs' fd,
  aor_scan fs nf found = (fs', fd) ->
  map f_name fs' = map f_name fs /\ fd = (found || has_name (f_name nf) fs)
  /\ (Forall fresh fs -> Forall fresh fs').
Proof.
  induction fs as [|f r IH]; intros nf found fs' fd H; simpl in H.
  - inversion H; subst. simpl. rewrite orb_false_r. auto.
  - destruct (String.eqb (f_name f) (f_name nf)) eqn:E.
    + destruct (Nat.ltb (f_depth nf) (f_depth f)).
      * inversion H; subst. simpl. rewrite E. rewrite orb_true_r. repeat split; auto.
        intros F. inversion F; subst. constructor; auto; try (apply fresh_set_place; auto).
      * destruct (aor_scan r nf true) as (r', fd') eqn:R. inversion H; subst.
        destruct (IH _ _ _ _ R) as (A & B & C). simpl. rewrite A, E. rewrite B. simpl.
        rewrite orb_true_r. repeat split; auto.
        intros F. inversion F; subst. constructor; auto.
    + destruct (aor_scan r nf found) as (r', fd') eqn:R. inversion H; subst.
      destruct (IH _ _ _ _ R) as (A & B & C). simpl. rewrite A, E. simpl. repeat split; auto.
      intros F. inversion F; subst. constructor; auto.
Qed.

Lemma has_name_in n fs : has_name n fs = true <-> In n (map f_name fs).
Proof.
  unfold has_name. rewrite existsb_exists. split.
  - intros (f & Hf & E). apply String.eqb_eq in E. subst. apply in_map; auto.
  - intros H. apply in_map_iff in H. destruct H as (f & E & Hf). exists f. split; auto. apply String.eqb_eq; auto.
Qed.

Lemma nodup_snoc {A} (l : list A) x : NoDup l -> ~ In x l -> NoDup (l ++ [x]).
Proof.
  induction l as [|a l IH]; intros N H; simpl.
  - constructor; auto; constructor.
  - inversion N; subst. constructor.
    + intros X. apply in_app_or in X. destruct X as [X|[X|[]]]; auto. subst. apply H. left; auto.
    + apply IH; auto. intros X. apply H. right; auto.
Qed.

Lemma append_or_replace_ok fs nf :
  NoDup (map f_name fs) -> Forall fresh fs -> fresh nf ->
  NoDup (map f_name (append_or_replace fs nf)) /\ Forall fresh (append_or_replace fs nf).
Proof.
  intros N F Fn. unfold append_or_replace.
  destruct (aor_scan fs nf false) as (fs', fd) eqn:R.
  destruct (aor_scan_spec _ _ _ _ _ R) as (A & B & C). simpl in B.
  destruct fd.
  - rewrite A. auto.
  - rewrite map_app, A. simpl. split.
    + apply nodup_snoc; auto. intros X. apply has_name_in in X. congruence.
    + apply Forall_app. split; auto.
Qed.

(* ------------------------------------------------ expandIfStruct / top level *)
Definition good_list (fs : list field) : Prop := NoDup (map f_name fs) /\ Forall fresh fs.

Lemma expand_ok e : forall fuel pre depth t acc,
  good_list (snd acc) -> good_list (snd (expand_if_struct e fuel pre depth t acc)).
Proof.
  induction fuel as [|fuel IH]; intros pre depth t acc G; simpl; auto.
  assert (X : forall (fs : list sfield) (acc : ptrmap * list field), good_list (snd acc) ->
     good_list (snd (fold_left (fun (acc : ptrmap * list field) (f : sfield) =>
                     if sf_emb f
                     then expand_if_struct e fuel (pre ++ [type_name (sf_ty f)]) (S depth) (sf_ty f) acc
                     else (fst acc, append_or_replace (snd acc)
                                      (new_field (sf_name f) (pre ++ [sf_name f]) (sf_ty f) depth)))
                  fs acc))).
  { induction fs as [|f fs IHf]; intros a Ga; simpl; auto.
    apply IHf. destruct (sf_emb f).
    - apply IH; auto.
    - simpl. destruct Ga as (N & F). apply append_or_replace_ok; auto. apply fresh_new. }
  destruct t as [| p n | t' | |]; auto.
  - destruct (lookup_decl e p n) as [[|fs]|]; auto.
  - destruct t' as [| p n | | |]; auto.
    destruct (lookup_decl e p n) as [[|fs]|]; auto.
Qed.

Lemma extract_top_ok e fuel wt fs : good_list (p_fields (extract_top e fuel wt fs)).
Proof.
  unfold extract_top.
  match goal with |- context [fold_left ?F fs ?a] => set (FF := F) end.
  assert (X : forall (fs0 : list sfield) (acc : ptrmap * list field * tagmap), good_list (snd (fst acc)) ->
                good_list (snd (fst (fold_left FF fs0 acc)))).
  { induction fs0 as [|f fs0 IHf]; intros [[pm fl] tm] Ga; simpl in *; auto.
    apply IHf. unfold FF. destruct (sf_emb f).
    - pose proof (expand_ok e fuel [type_name (sf_ty f)] 1 (sf_ty f) (pm, fl) Ga) as H.
      destruct (expand_if_struct e fuel [type_name (sf_ty f)] 1 (sf_ty f) (pm, fl)) as (pm', fl'). exact H.
    - destruct (String.eqb (sf_tag f) "-"); simpl; auto.
      destruct Ga as (N & F). apply append_or_replace_ok; auto. apply fresh_new. }
  generalize (X fs ([], [], [])).
  destruct (fold_left FF fs ([], [], [])) as [[pm fl] tm]. simpl. intros H. apply H. split; constructor.
Qed.

Lemma parse_fields_ok e fuel p n wt ps : parse_fields e fuel p n wt = Some ps -> good_list (p_fields ps).
Proof.
  unfold parse_fields. destruct (lookup_decl e p n) as [[|fs]|]; try discriminate.
  intros H. inversion H. apply extract_top_ok.
Qed.

Lemma good_filter (P : field -> bool) fs : good_list fs -> good_list (filter P fs).
Proof.
  intros (N & F). split.
  - induction fs as [|f fs IH]; simpl; auto. inversion N; subst. inversion F; subst.
    destruct (P f); simpl; auto. constructor; auto.
    intros X. apply H1. apply in_map_iff in X. destruct X as (g & E & G). apply filter_In in G.
    apply in_map_iff. exists g. tauto.
  - apply Forall_forall. intros f Hf. apply filter_In in Hf. rewrite Forall_forall in F. apply F. tauto.
Qed.

(* accessor pseudo-fields: their names must be distinct and differ from the field names
   (Go itself rejects a struct with a field and a method of one name) *)
Definition acc_names_ok (fs : list field) (accs : list accessor) : Prop :=
  NoDup (map f_name fs ++ map ac_name accs).

Lemma compatlize_ok fs accs : good_list fs -> acc_names_ok fs accs -> good_list (compatlize fs accs).
Proof.
  intros (N & F) A. unfold compatlize. split.
  - rewrite map_app, map_map.
    assert (E : map (fun x => f_name (pseudo_field x)) accs = map ac_name accs).
    { apply map_ext. intros a. unfold pseudo_field. destruct (ac_set a); reflexivity. }
    rewrite E. exact A.
  - apply Forall_app. split; auto. apply Forall_forall. intros f Hf.
    apply in_map_iff in Hf. destruct Hf as (a & <- & _). apply fresh_pseudo.
Qed.
